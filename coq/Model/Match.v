(* Hand-written model of font.Aspect.SetDefaults (font/metadata.go) and of the style matching of
   fontscan/match.go: matchStretch, matchStyle, matchWeight, filterByStretch/Style/Weight,
   retainsBestMatches.  Statement by statement transcription (loop order, accumulators with 0 as
   "not found yet", the crible array, the explicit panic).  No proofs here.

   Numbers.  font.Weight and font.Stretch are float32.  A value v is represented by the integer 8*v
   (SCALE): every value of the property's grid (stretches 0.5 .. 2.0, weights 100 .. 950) is a multiple
   of 1/8 below 2^21, on which float32 comparison and subtraction are exact (trusted, see checks.d/C15.json).
   The functions below are defined for every Z; nothing in them depends on the values being on the grid.
   font.Style is a uint8 (0 = unset, 1 = StyleNormal, 2 = StyleItalic = styleOblique). *)
From TV Require Export Lib.GoNum Lib.Res.

Definition SCALE : Z := 8.
Definition StyleNormal : Z := 1.
Definition StyleItalic : Z := 2.
Definition styleOblique : Z := StyleItalic.       (* const styleOblique = font.StyleItalic *)
Definition StretchNormal : Z := 1 * SCALE.        (* 1.0 *)
Definition WeightNormal : Z := 400 * SCALE.
Definition W400 : Z := 400 * SCALE.               (* the literals 400 and 500 of matchWeight *)
Definition W500 : Z := 500 * SCALE.

(* font.Aspect, field order of the Go struct *)
Record aspect := mkAspect { a_style : Z; a_weight : Z; a_stretch : Z }.

(* fontSet projected on what the matching reads: Footprint.Aspect *)
Definition fontset := list aspect.

Definition p_index : nat := 1%nat.               (* runtime error: index out of range *)
Definition p_should_not_happen : nat := 2%nat.   (* panic("should not happen") *)

(* fs[index] *)
Definition fs_at (fs : fontset) (index : Z) : res aspect :=
  if index <? 0 then Panic p_index
  else match nth_error fs (Z.to_nat index) with
       | Some a => Ok a
       | None => Panic p_index
       end.

(* func (as *Aspect) SetDefaults() *)
Definition set_defaults (a : aspect) : aspect :=
  let style := if a_style a =? 0 then StyleNormal else a_style a in
  let stretch := if a_stretch a =? 0 then StretchNormal else a_stretch a in
  let weight := if a_weight a =? 0 then WeightNormal else a_weight a in
  mkAspect style weight stretch.

(* func (fs fontSet) matchStretch(candidates []int, query font.Stretch) font.Stretch *)
Fixpoint match_stretch_loop (fs : fontset) (candidates : list Z) (query narrower wider : Z) : res Z :=
  match candidates with
  | [] =>
      if query <=? StretchNormal
      then (if negb (narrower =? 0) then Ok narrower else Ok wider)
      else (if negb (wider =? 0) then Ok wider else Ok narrower)
  | index :: rest =>
      do a <- fs_at fs index;
      let stretch := a_stretch a in
      if stretch >? query then
        if (wider =? 0) || (stretch - query <? wider - query)
        then match_stretch_loop fs rest query narrower stretch
        else match_stretch_loop fs rest query narrower wider
      else if stretch <? query then
        if query - stretch <? query - narrower
        then match_stretch_loop fs rest query stretch wider
        else match_stretch_loop fs rest query narrower wider
      else Ok query
  end.
Definition match_stretch (fs : fontset) (candidates : list Z) (query : Z) : res Z :=
  match_stretch_loop fs candidates query 0 0.

(* var crible [font.StyleItalic + 1]bool;  crible[i] = true *)
Definition crible_t := list bool.
Definition crible_new : crible_t := [false; false; false].
Definition crible_set (c : crible_t) (i : Z) : res crible_t :=
  if (0 <=? i) && (i <? zlen c)
  then Ok (firstn (Z.to_nat i) c ++ true :: skipn (S (Z.to_nat i)) c)
  else Panic p_index.
Definition crible_get (c : crible_t) (i : Z) : bool := znth false c i.   (* constant indices 1, 2 only *)

Fixpoint match_style_loop (fs : fontset) (candidates : list Z) (crible : crible_t) : res crible_t :=
  match candidates with
  | [] => Ok crible
  | index :: rest =>
      do a <- fs_at fs index;
      do crible' <- crible_set crible (a_style a);
      match_style_loop fs rest crible'
  end.

(* func (fs fontSet) matchStyle(candidates []int, query font.Style) font.Style *)
Definition match_style (fs : fontset) (candidates : list Z) (query : Z) : res Z :=
  do crible <- match_style_loop fs candidates crible_new;
  if query =? StyleNormal then
    if crible_get crible StyleNormal then Ok StyleNormal
    else if crible_get crible styleOblique then Ok styleOblique
    else Ok StyleItalic
  else if query =? StyleItalic then
    if crible_get crible StyleItalic then Ok StyleItalic
    else if crible_get crible styleOblique then Ok styleOblique
    else Ok StyleNormal
  else Panic p_should_not_happen.

(* func (fs fontSet) matchWeight(candidates []int, query font.Weight) font.Weight *)
Fixpoint match_weight_loop (fs : fontset) (candidates : list Z) (query fatter thinner : Z) : res Z :=
  match candidates with
  | [] =>
      if (W400 <=? query) && (query <=? W500) then
        if negb (fatter =? 0) && (fatter <=? W500) then Ok fatter
        else if negb (thinner =? 0) then Ok thinner
        else Ok fatter
      else if query <? W400 then
        (if negb (thinner =? 0) then Ok thinner else Ok fatter)
      else
        (if negb (fatter =? 0) then Ok fatter else Ok thinner)
  | index :: rest =>
      do a <- fs_at fs index;
      let weight := a_weight a in
      if weight >? query then
        if (fatter =? 0) || (weight - query <? fatter - query)
        then match_weight_loop fs rest query weight thinner
        else match_weight_loop fs rest query fatter thinner
      else if weight <? query then
        if query - weight <? query - thinner
        then match_weight_loop fs rest query fatter weight
        else match_weight_loop fs rest query fatter thinner
      else Ok query
  end.
Definition match_weight (fs : fontset) (candidates : list Z) (query : Z) : res Z :=
  match_weight_loop fs candidates query 0 0.

(* A Go []int: the backing array from the slice's first element up to its capacity, and the length. *)
Record islice := mkSlice { sl_arr : list Z; sl_len : nat }.
Definition sl_elems (s : islice) : list Z := firstn (sl_len s) (sl_arr s).
Definition slice_of_list (l : list Z) : islice := mkSlice l (length l).

(* candidates[n] = index *)
Fixpoint upd (l : list Z) (n : nat) (v : Z) : res (list Z) :=
  match l, n with
  | [], _ => Panic p_index
  | _ :: r, O => Ok (v :: r)
  | x :: r, S n' => do r' <- upd r n' v; Ok (x :: r')
  end.

(* n := 0; for _, index := range candidates { if keep(fs[index]) { candidates[n] = index; n++ } }
   `todo` iterations remain, the next one reads position i of the (live) backing array *)
Fixpoint filter_loop (fs : fontset) (keep : aspect -> bool) (todo : nat) (i : nat) (arr : list Z) (n : nat)
  : res (list Z * nat) :=
  match todo with
  | O => Ok (arr, n)
  | S todo' =>
      match nth_error arr i with
      | None => Panic p_index
      | Some index =>
          do a <- fs_at fs index;
          if keep a
          then do arr' <- upd arr n index; filter_loop fs keep todo' (S i) arr' (S n)
          else filter_loop fs keep todo' (S i) arr n
      end
  end.

(* candidates = candidates[:n]; return candidates *)
Definition filter_in_place (fs : fontset) (keep : aspect -> bool) (candidates : islice) : res islice :=
  do r <- filter_loop fs keep (sl_len candidates) 0 (sl_arr candidates) 0;
  Ok (mkSlice (fst r) (snd r)).

Definition filter_by_stretch (fs : fontset) (candidates : islice) (stretch : Z) : res islice :=
  filter_in_place fs (fun a => a_stretch a =? stretch) candidates.
Definition filter_by_style (fs : fontset) (candidates : islice) (style : Z) : res islice :=
  filter_in_place fs (fun a => a_style a =? style) candidates.
Definition filter_by_weight (fs : fontset) (candidates : islice) (weight : Z) : res islice :=
  filter_in_place fs (fun a => a_weight a =? weight) candidates.

(* func (fs fontSet) retainsBestMatches(candidates []int, query font.Aspect) []int *)
Definition retains_best_matches (fs : fontset) (candidates : islice) (query : aspect) : res islice :=
  let query := set_defaults query in
  do matchingStretch <- match_stretch fs (sl_elems candidates) (a_stretch query);
  do candidates <- filter_by_stretch fs candidates matchingStretch;
  do matchingStyle <- match_style fs (sl_elems candidates) (a_style query);
  do candidates <- filter_by_style fs candidates matchingStyle;
  do matchingWeight <- match_weight fs (sl_elems candidates) (a_weight query);
  filter_by_weight fs candidates matchingWeight.

(* the call as the library makes it: a slice whose length is its capacity *)
Definition retains_best_matches_list (fs : fontset) (candidates : list Z) (query : aspect) : res (list Z) :=
  do r <- retains_best_matches fs (slice_of_list candidates) query; Ok (sl_elems r).
