(* Executable model of the GSUB contextual lookups of format 3 (coverage based): ChainedContextualSubs3, and ContextualSubs3
   as the special case without backtrack / lookahead (ot_layout_gsub.go applyGSUB; ot_layout_gsubgpos.go
   applyLookupChainedContext3 / applyLookupContext3 / chainContextApplyLookup / contextApplyLookup / matchInput /
   matchLookahead / matchBacktrack / skippingIterator.next / prev / match / applyLookup / recurse / applyRecurseLookup;
   buffer.go unsafeToBreakFromOutbuffer / unsafeToBreak / setGlyphFlags / moveTo) with nested SINGLE substitutions, under the
   out-buffer lookup loop (ot_layout.go applyString / applyForward), over the zipper (done, todo) = (outInfo, Info[idx:]).

     the current glyph must be covered by the first input coverage; the further input coverages are matched forward with
     the input iterator (lookup mask, ZWNJ not ignored, ZWJ ignored); the lookahead coverages forward from the end of the
     input match and the backtrack coverages backward over the out-buffer with the context iterator (any glyph whose
     Mask is not zero, ZWNJ and ZWJ ignored); when all three match, unsafeToBreakFromOutbuffer(backtrack start,
     lookahead end) flags the window, the nested lookups are applied at their input positions in design order, and the
     cursor moves to the end of the input match.  A failed match flags nothing (unsafeToConcat only, and
     ProduceUnsafeToConcat is off) and the cursor advances by one glyph.

   Restrictions (the driver stays inside them): cluster levels 0 and 1, no GDEF glyph classes, lookup flags within
   IgnoreBaseGlyphs | IgnoreLigatures | IgnoreMarks, one subtable per lookup, ProduceUnsafeToConcat off, nested lookups are
   single substitutions (the sequence keeps its length), and ligProps are NOT modelled: the inputs carry ligProps 0, so
   that the component checks of matchInput never fire.  No proofs here. *)
From TV Require Export Model.GsubLig.

Record cxparams := mkCX {
  cx_flag : Z;                               (* lookup flag *)
  cx_mask : Z;                               (* lookup mask >> 3 *)
  cx_back : list (list Z);                   (* backtrack coverages, nearest glyph first *)
  cx_in : list (list Z);                     (* input coverages; the first covers the current glyph *)
  cx_ahead : list (list Z);                  (* lookahead coverages *)
  cx_recs : list (nat * list (Z * Z))        (* nested lookups in design order: sequence index, single substitution *)
}.

Definition in_cov (cov : list Z) (g : Z) : bool := existsb (Z.eqb g) cov.

(* skippingIterator.match with matchCoverage: mok = the mask test of mayMatch *)
Definition match_cov (flag : Z) (mok : item -> bool) (ign igj : bool) (cov : list Z) (x : item) : mres :=
  let s := may_skip flag ign igj x in
  if s =? 1 then MSkip
  else if mok x && in_cov cov (igid x) then MMatch
  else if s =? 0 then MNot else MSkip.

(* the context iterator: matcher.mask = MaxUint32, so info.Mask & mask == 0 iff the whole Mask (glyph flags included) is 0 *)
Definition any_mask (x : item) : bool := negb (rest (ig x) =? 0) || (let f := gf (ig x) in utb f || utc f || tat f).

(* glyphData: the index of the coverage (get1N) *)
Definition cx_match_in (P : cxparams) (i : Z) : item -> mres :=
  match_cov (cx_flag P) (has_mask (cx_mask P)) false true (nth (Z.to_nat i) (cx_in P) []).
Definition cx_match_ctx (P : cxparams) (covs : list (list Z)) (i : Z) : item -> mres :=
  match_cov (cx_flag P) any_mask true true (nth (Z.to_nat i) covs []).
Definition idxs (from n : nat) : list Z := map Z.of_nat (seq from n).

(* number of glyphs spanned by the matched positions *)
Definition span (ps : list nat) : nat := match ps with [] => O | _ => S (last ps O) end.

(* the single substitution of a nested lookup, applied to the glyph at position p *)
Definition subst_single (singles : list (Z * Z)) (x : item) : item :=
  match find (fun e => fst e =? igid x) singles with
  | Some e => replace_with x (snd e)
  | None => x
  end.
Fixpoint map_at (f : item -> item) (p : nat) (l : list item) : list item :=
  match l, p with
  | [], _ => []
  | x :: r, O => f x :: r
  | x :: r, S p' => x :: map_at f p' r
  end.
(* applyLookup: positions = matchPositions relative to the cursor *)
Definition apply_recs (positions : list nat) (recs : list (nat * list (Z * Z))) (t : list item) : list item :=
  fold_left (fun t r => if (fst r <? length positions)%nat then map_at (subst_single (snd r)) (nth (fst r) positions O) t else t) recs t.

(* one iteration of applyForward *)
Definition cx_step (P : cxparams) (d t : list item) : list item * list item :=
  match t with
  | [] => (d, [])
  | x :: rest =>
    let next := (d ++ [x], rest) in
    if negb (has_mask (cx_mask P) x && check_prop (cx_flag P) x) then next
    else match cx_in P with
         | [] => next
         | c0 :: cin =>
           if negb (in_cov c0 (igid x)) then next
           else match match_input (cx_match_in P) (idxs 1 (length cin)) rest O with
                | None => next
                | Some ps =>
                  let n := S (span ps) in                                   (* matchEnd - idx *)
                  match match_input (cx_match_ctx P (cx_ahead P)) (idxs 0 (length (cx_ahead P))) (skipn n t) O with
                  | None => next
                  | Some pa =>
                    let e := (n + span pa)%nat in                           (* endIndex - idx *)
                    match match_input (cx_match_ctx P (cx_back P)) (idxs 0 (length (cx_back P))) (rev d) O with
                    | None => next
                    | Some pb =>
                      let k := span pb in                                   (* len(outInfo) - startIndex *)
                      let W := flag_window (skipn (length d - k) d ++ firstn e t) in
                      let d' := firstn (length d - k) d ++ firstn k W in
                      let t' := skipn k W ++ skipn e t in
                      let t'' := apply_recs (O :: map S ps) (cx_recs P) t' in
                      (d' ++ firstn n t'', skipn n t'')
                    end
                  end
                end
         end
  end.

Fixpoint cx_loop (P : cxparams) (fuel : nat) (d t : list item) : list item :=
  match fuel with
  | O => d ++ t
  | S f => match t with
           | [] => d
           | _ => let '(d', t') := cx_step P d t in cx_loop P f d' t'
           end
  end.

Definition cx_lookup (l : list item) (P : cxparams) : list item :=
  if (cx_mask P =? 0) || (match l with [] => true | _ => false end) then l else cx_loop P (length l) [] l.

Definition cx_run (Ps : list cxparams) (l : list item) : list item := fold_left cx_lookup Ps l.

(* the pass of the cut theorem, no context *)
Definition cx_pass (P : cxparams) : @pass item unit :=
  mkPass (fun _ _ d t => cx_step P d t) (fun _ => tt) (fun _ => tt).
