(* Model of splitByBidi of shaping/input.go as it is since the F26 repair: the paragraph loop, isParagraphSeparator,
   splitParagraphByBidi and appendBidiRun, and Segmenter.Split from the raw runes.  Hand-written, no proofs here.

   golang.org/x/text/unicode/bidi is NOT modelled: it is the parameter `xbidi` - the function
       (runes of ONE paragraph as the string handed to Paragraph.SetString decodes, default direction RightToLeft?)
         |->  None                      Order() returned an error or an Ordering without runs
              Some [(end_i, rtl_i)]     per run i of the Ordering: the second component of Run.Pos() (inclusive, in runes of
                                        the paragraph) and Run.Direction() == bidi.RightToLeft
   What the code relies on from x/text (the runs follow each other and end at the last rune of the string) is the
   boolean predicate xbidi_wf of Spec/ItemizeBidi.v; the driver fills the function with the real x/text answers and the
   predicate is evaluated on every case. *)
From TV Require Export Model.Itemize.
Open Scope Z_scope.

(* the runes r with bidi.LookupRune(r).Class() == bidi.B in golang.org/x/text (compared with the library over all code
   points by the driver c07sep on every run): LF, CR, FS, GS, RS, NEL, PARAGRAPH SEPARATOR *)
Definition para_seps : list Z := [10; 13; 28; 29; 30; 133; 8233].
(* isParagraphSeparator *)
Definition is_para_sep (r : Z) : bool := existsb (Z.eqb r) para_seps.

(* string([]rune): a rune that is not a Unicode scalar value becomes U+FFFD, one for one *)
Definition valid_rune (r : Z) : bool := ((0 <=? r) && (r <? 55296)) || ((57344 <=? r) && (r <=? 1114111)).
Definition norm_rune (r : Z) : Z := if valid_rune r then r else 65533.

Definition dir_eqb (a b : dir) : bool :=
  Bool.eqb (d_prog a) (d_prog b) && Bool.eqb (d_vert a) (d_vert b) && Bool.eqb (d_oset a) (d_oset b) && Bool.eqb (d_side a) (d_side b).

Section Bidi.
  Variable xbidi : list Z -> bool -> option (list (Z * bool)).
  Variable runes : list Z.            (* Input.Text *)

  (* text.Text[a:b] *)
  Definition slice (a b : Z) : list Z := zfirstn (b - a) (zskipn a runes).

  (* for paragraph.RunEnd < text.RunEnd && !isParagraphSeparator(text.Text[paragraph.RunEnd-1]) { paragraph.RunEnd++ }
     k = paragraph.RunEnd, e = text.RunEnd; at most e - k iterations (n is given that value) *)
  Fixpoint scan_para (n : nat) (k e : Z) : Z :=
    match n with
    | O => k
    | S n' => if (k <? e) && negb (is_para_sep (znth 0 runes (k - 1))) then scan_para n' (k + 1) e else k
    end.
  (* the end of the paragraph starting at a: paragraph.RunEnd = a + 1, then the loop *)
  Definition para_end (a e : Z) : Z := scan_para (Z.to_nat (e - (a + 1))) (a + 1) e.

  (* appendBidiRun; seg.output is kept last element first *)
  Definition append_bidi_run (out_rev : list input) (r : input) : list input :=
    match out_rev with
    | lst :: pre => if dir_eqb (i_dir lst) (i_dir r) then set_end lst (i_end r) :: pre else r :: out_rev
    | [] => [r]
    end.

  (* the runs splitParagraphByBidi hands to appendBidiRun, in order *)
  Definition para_runs (def : bool) (p : input) : list input :=
    match xbidi (map norm_rune (slice (i_start p) (i_end p))) def with
    | None | Some [] => [p]                             (* err != nil || out.NumRuns() == 0 *)
    | Some runs => bidi_loop runs (i_start p) p
    end.
  Definition split_paragraph (def : bool) (p : input) (out_rev : list input) : list input :=
    fold_left append_bidi_run (para_runs def p) out_rev.

  (* for paragraph.RunStart < text.RunEnd { ... }; a = paragraph.RunStart.  Every turn consumes at least one rune:
     RunEnd - RunStart turns are enough (OutOfFuel is proved unreachable) *)
  Fixpoint para_loop (n : nat) (x : input) (def : bool) (a : Z) (out_rev : list input) : res (list input) :=
    if a <? i_end x then
      match n with
      | O => OutOfFuel
      | S n' => let b := para_end a (i_end x) in
                para_loop n' x def b (split_paragraph def (set_end (set_start x a) b) out_rev)
      end
    else Ok out_rev.

  (* splitByBidi: what it appends to seg.output (empty after reset) *)
  Definition split_by_bidi_text (x : input) : res (list input) :=
    if i_end x <=? i_start x then Ok [x]
    else if negb ((0 <=? i_start x) && (i_end x <=? zlen runes)) then Panic 1   (* text.Text[i], text.Text[a:b] *)
    else do r <- para_loop (Z.to_nat (i_end x - i_start x)) x (d_prog (i_dir x)) (i_start x) []; Ok (rev r).
End Bidi.

(* the text with its runes; t_env holds the observation records and tables (its e_bidi is not read) *)
Record tenv := mkTenv {
  t_xbidi : list Z -> bool -> option (list (Z * bool));
  t_runes : list Z;
  t_env : env
}.

(* Segmenter.Split *)
Definition split_text (te : tenv) (s : segmenter) (x : input) : res segmenter :=
  let s := reset s in
  do b <- split_by_bidi_text (t_xbidi te) (t_runes te) x;
  split_rest (t_env te) s x b.

Definition split_text_runs (te : tenv) (s : segmenter) (x : input) : res (list input) :=
  do s' <- split_text te s x; Ok (live (s_out s')).

Fixpoint run_history_text (h : list (tenv * input)) (s : segmenter) : res segmenter :=
  match h with
  | [] => Ok s
  | (te, x) :: r => do s' <- split_text te s x; run_history_text r s'
  end.
