(* Hand-written model of font/cmap.go newCmap4: the index arithmetic that turns idRangeOffset into positions
   inside the glyph id array (after the repairs that reject a negative start, a resolved segment with end < start, and overlapping segments that resolve more than 2^16 indexes).  No proofs here. *)
From TV Require Export Lib.Bytes Lib.Res.

Definition e_cmap4 := 1%nat.
Definition p_cindex := 1%nat.

Definition idx {A} (l : list A) (i : Z) : res A :=
  if (0 <=? i) && (i <? zlen l) then
    match nth_error l (Z.to_nat i) with Some x => Ok x | None => Panic p_cindex end
  else Panic p_cindex.

Record entry16 := mkEntry16 { e_end : Z; e_start : Z; e_delta : Z; e_indexes : option (list Z) }.

(* for j := range indexes { indexes[j] = Uint16(arr[2*(index_start+j):]) }: consecutive big-endian pairs starting at
   byte 2*index_start (walked once; a negative start or a missing byte is Go's slice panic) *)
Fixpoint read_pairs (l : list Z) (n : nat) {struct n} : res (list Z) :=
  match n with
  | O => Ok []
  | S n' =>
      match l with
      | a :: b :: r => do rest <- read_pairs r n'; Ok (a * 256 + b :: rest)
      | _ => Panic p_cindex
      end
  end.
Definition read_indexes (arr : list Z) (index_start : Z) (n : nat) : res (list Z) :=
  match n with
  | O => Ok []
  | _ => if index_start <? 0 then Panic p_cindex else read_pairs (zskipn (2 * index_start) arr) n
  end.

Section Cmap4.
  Variables end_code start_code id_delta id_range_offsets : list Z.   (* []uint16 *)
  Variable glyph_id_array : list Z.                                   (* []byte *)

  Definition seg_count := zlen end_code.

  (* `resolved` = running total of resolved indexes; the repaired code rejects a table resolving more than 2^16 *)
  Definition cmap4_entry (fixed : bool) (i resolved : Z) : res (entry16 * Z) :=
    do e <- idx end_code i;
    do s <- idx start_code i;
    do d <- idx id_delta i;
    do ro <- idx id_range_offsets i;
    if negb (s =? 65535) && negb (ro =? 0) then
      if fixed && (e <? s) then Err e_cmap4
      else
      let n := if fixed then e - s + 1 else wrap16 (e - s + 1) in     (* before the repair: uint16 arithmetic *)
      let resolved' := resolved + n in
      if fixed && (65536 <? resolved') then Err e_cmap4
      else
        let index_start := ro / 2 + i - seg_count in
        if (fixed && (index_start <? 0)) || (zlen glyph_id_array <? 2 * (index_start + n)) then Err e_cmap4
        else do ix <- read_indexes glyph_id_array index_start (Z.to_nat n); Ok (mkEntry16 e s d (Some ix), resolved')
    else Ok (mkEntry16 e s d None, resolved).

  Fixpoint cmap4_loop (fixed : bool) (i resolved : Z) (n : nat) : res (list entry16) :=
    match n with
    | O => Ok []
    | S n' => do er <- cmap4_entry fixed i resolved; do r <- cmap4_loop fixed (i + 1) (snd er) n'; Ok (fst er :: r)
    end.

  Definition new_cmap4 : res (list entry16) := cmap4_loop true 0 0 (Z.to_nat seg_count).
  Definition new_cmap4_unfixed : res (list entry16) := cmap4_loop false 0 0 (Z.to_nat seg_count).
End Cmap4.

(* memory: number of glyph indexes held by the built cmap *)
Definition resolved_count (es : list entry16) : Z :=
  fold_right (fun e acc => match e_indexes e with Some ix => zlen ix + acc | None => acc end) 0 es.
