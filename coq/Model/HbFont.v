(* Model of harfbuzz/fonts.go (property C12): the conversion from font space to user space of harfbuzz.Font.

     NewFont (faceUpem, XScale = YScale = faceUpem), the scale set-up of shaping.Shape
       (font.XScale = int32(Size.Ceil()) << scaleShift; font.YScale = font.XScale : Model/ShapeConv.font_scale),
     emScaleX/emScaleY       Position(int64(v) * int64(scale) / int64(faceUpem))   truncating division
     emScalef                roundf(v * float32(scale) / float32(upem))  binary32 product, binary32 quotient, math.Round
     emFscale                float32(v) * float32(scale) / float32(upem)
     roundf                  Position(math.Round(float64(f)))            half away from zero
     GlyphHAdvance, getGlyphVAdvance, GlyphAdvanceForDirection,
     getGlyphHOriginWithFallback, getGlyphVOriginWithFallback, guessVOriginMinusHOrigin, getHExtendsAscender,
     getGlyphOriginForDirection, subtractGlyphOriginForDirection, subtractGlyphHOrigin, subtractGlyphVOrigin,
     addGlyphHOrigin, GlyphExtents, fontHExtentsWithFallback, ExtentsForDirection.

   The face (font.Face: FontHExtents, FontVExtents, HasVerticalMetrics, HorizontalAdvance, VerticalAdvance,
   GlyphHOrigin, GlyphVOrigin, GlyphExtents, Upem) is a record of values/functions: what the face answers, in font
   units (C09/C10 are about how these are read from the tables).

   float32: a finite value x is the integer x * 2^149 (Model/F32.v: product, sum, int -> float32, one rounding to
   nearest even per operation as Go/amd64 does).  The division is defined here (F32.v has none).  Position, int32:
   explicit wrap.  A float -> int32 conversion whose value is outside int32 is implementation-defined in Go; on
   amd64 (CVTTSS2SL / CVTTSD2SL) the result is -2^31, which is what the model returns (the driver probes this).
   Infinities and NaN are not represented: f32_div by zero returns 0 and the driver stays away from it (a face has
   16 <= upem <= 16384, tables.Head.Upem).  No proofs in this file. *)
From Coq Require Import ZArith List Bool.
From TV Require Import Lib.GoNum Model.F32.
Import ListNotations.
Open Scope Z_scope.

(* ---- binary32 division ---------------------------------------------------------------------- *)
(* the binary32 nearest (ties to even) to the value p/q counted in units of 2^-149, p >= 0, q > 0; result in units.
   f = floor(p/q) fixes the binade: the quantum is 2^sh units, sh = max 0 (log2 f - 23). *)
Definition rnd_q (p q : Z) : Z :=
  let f := p / q in
  let sh := Z.max 0 (Z.log2 f - 23) in
  let d := q * 2 ^ sh in
  let t := p / d in
  let r := p - t * d in
  (if 2 * r <? d then t else if d <? 2 * r then t + 1 else if Z.even t then t else t + 1) * 2 ^ sh.

Definition ctz (n : Z) : Z := Z.log2 (Z.land n (- n)).        (* number of trailing zero bits of n <> 0 *)
(* x / y for float32 x, y (both in units of 2^-149): the real quotient is x/y, i.e. x * 2^149 / y units.
   Numerator and denominator are first divided by a common power of two (binary32 values counted in units of 2^-149
   end in long runs of zero bits; rnd_q only depends on the ratio): this keeps the evaluation cheap.  The division by
   2^c is checked to be exact, so that nothing depends on how c is found. *)
Definition f32_div (x y : Z) : Z :=
  if y =? 0 then 0 else
  let p := Z.shiftl (Z.abs x) 149 in
  let q := Z.abs y in
  let c := if p =? 0 then 0 else Z.min (ctz p) (ctz q) in
  let p' := Z.shiftr p c in
  let q' := Z.shiftr q c in
  Z.sgn x * Z.sgn y * (if (0 <=? c) && (Z.shiftl p' c =? p) && (Z.shiftl q' c =? q) then rnd_q p' q' else rnd_q p q).

(* ---- conversions ---------------------------------------------------------------------------- *)
Definition in_int32 (v : Z) : bool := (- 2147483648 <=? v) && (v <? 2147483648).
(* int32(f) for a float whose integer part is v (amd64: the "integer indefinite" value outside the range) *)
Definition cvt_int32 (v : Z) : Z := if in_int32 v then v else - 2147483648.

(* math.Round(float64(f)): nearest integer, halves away from zero (float64(f) is exact) *)
Definition round_away (x : Z) : Z := Z.sgn x * Z.shiftr (Z.abs x + 2 ^ 148) 149.
(* func roundf(f float32) Position { return Position(math.Round(float64(f))) } *)
Definition roundf (x : Z) : Z := cvt_int32 (round_away x).
(* Position(f) for a float32 f: truncation towards zero *)
Definition f32_to_pos (x : Z) : Z := cvt_int32 (Z.sgn x * Z.shiftr (Z.abs x) 149).

(* ---- emScale* ------------------------------------------------------------------------------- *)
(* func emScalef(v float32, scale, faceUpem int32) Position { return roundf(v * float32(scale) / float32(faceUpem)) } *)
Definition em_scalef (v scale upem : Z) : Z :=
  roundf (f32_div (f32_mul v (f32_of_int scale)) (f32_of_int upem)).
(* func emFscale(v int16, scale, faceUpem int32) float32 { return float32(v) * float32(scale) / float32(faceUpem) } *)
Definition em_fscale (v scale upem : Z) : Z :=
  f32_div (f32_mul (f32_of_int v) (f32_of_int scale)) (f32_of_int upem).
(* func emScale(v int16, scale, faceUpem int32) Position { return Position(int64(v) * int64(scale) / int64(faceUpem)) }
   (the product of an int16 and an int32 fits int64; Go's / truncates towards zero; the conversion to int32 wraps) *)
Definition em_scale (v scale upem : Z) : Z := sint32 (Z.quot (v * scale) upem).

(* ---- the face and the font ------------------------------------------------------------------ *)
Record fext3 := mkF3 { x_asc : Z; x_desc : Z; x_gap : Z }.           (* font.FontExtents: three float32 *)
Record gext4 := mkG4 { x_xb : Z; x_yb : Z; x_w : Z; x_h : Z }.       (* font.GlyphExtents: four float32 / harfbuzz.GlyphExtents: four int32 *)

Record face := mkFace {
  fc_hext : fext3 * bool;                 (* face.FontHExtents() *)
  fc_vext : fext3 * bool;                 (* face.FontVExtents() *)
  fc_vmetrics : bool;                     (* face.HasVerticalMetrics() *)
  fc_hadv : Z -> Z;                       (* face.HorizontalAdvance(g)  float32 *)
  fc_vadv : Z -> Z;                       (* face.VerticalAdvance(g)    float32, negative downwards *)
  fc_horigin : Z -> Z * Z * bool;         (* face.GlyphHOrigin(g)  int32, int32, found *)
  fc_vorigin : Z -> Z * Z * bool;         (* face.GlyphVOrigin(g) *)
  fc_gext : Z -> option gext4             (* face.GlyphExtents(g) *)
}.

Record hbfont := mkFont { ft_upem : Z; ft_xscale : Z; ft_yscale : Z }.   (* faceUpem, XScale, YScale *)

(* NewFont: font.faceUpem = Position(face.Upem()); font.XScale = font.faceUpem; font.YScale = font.faceUpem *)
Definition new_font (upem : Z) : hbfont := mkFont upem upem upem.
(* shaping.Shape: font.XScale = <scale>; font.YScale = font.XScale *)
Definition set_scale (ft : hbfont) (scale : Z) : hbfont := mkFont (ft_upem ft) scale scale.

Definition em_scalef_x (ft : hbfont) (v : Z) : Z := em_scalef v (ft_xscale ft) (ft_upem ft).
Definition em_scalef_y (ft : hbfont) (v : Z) : Z := em_scalef v (ft_yscale ft) (ft_upem ft).
Definition em_scale_x (ft : hbfont) (v : Z) : Z := em_scale v (ft_xscale ft) (ft_upem ft).
Definition em_scale_y (ft : hbfont) (v : Z) : Z := em_scale v (ft_yscale ft) (ft_upem ft).
Definition em_fscale_x (ft : hbfont) (v : Z) : Z := em_fscale v (ft_xscale ft) (ft_upem ft).
Definition em_fscale_y (ft : hbfont) (v : Z) : Z := em_fscale v (ft_yscale ft) (ft_upem ft).

(* harfbuzz.Direction: LeftToRight = 4, RightToLeft = 5, TopToBottom = 6, BottomToTop = 7 *)
Definition hb_is_horizontal (d : Z) : bool := Z.ldiff d 1 =? 4.      (* dir & ^1 == 4 *)
Definition hb_is_vertical (d : Z) : bool := Z.ldiff d 1 =? 6.
Definition hb_is_backward (d : Z) : bool := Z.ldiff d 2 =? 5.        (* dir & ^2 == 5 *)
Definition hb_is_forward (d : Z) : bool := Z.ldiff d 2 =? 4.

(* the untyped constants 0.8 and 0.5 converted to float32 *)
Definition f32_c08 : Z := 13421773 * 2 ^ 125.     (* 0x3F4CCCCD = 13421773 * 2^-24 *)
Definition f32_c05 : Z := 2 ^ 148.

Section Font.
  Variable fc : face.
  Variable ft : hbfont.

  (* GlyphHAdvance *)
  Definition glyph_h_advance (g : Z) : Z := em_scalef_x ft (fc_hadv fc g).

  (* fontHExtentsWithFallback *)
  Definition font_h_extents_with_fallback : fext3 :=
    let '(e, ok) := fc_hext fc in
    if ok then mkF3 (f32_of_int (em_scalef_y ft (x_asc e))) (f32_of_int (em_scalef_y ft (x_desc e)))
                    (f32_of_int (em_scalef_y ft (x_gap e)))
    else let a := f32_mul (f32_of_int (ft_yscale ft)) f32_c08 in
         mkF3 a (f32_sub a (f32_of_int (ft_yscale ft))) 0.

  (* ExtentsForDirection *)
  Definition extents_for_direction (d : Z) : fext3 :=
    if hb_is_horizontal d then font_h_extents_with_fallback
    else
      let '(e, ok) := fc_vext fc in
      if ok then mkF3 (f32_of_int (em_scalef_x ft (x_asc e))) (f32_of_int (em_scalef_x ft (x_desc e)))
                      (f32_of_int (em_scalef_x ft (x_gap e)))
      else let a := f32_mul (f32_of_int (ft_xscale ft)) f32_c05 in
           mkF3 a (f32_sub a (f32_of_int (ft_xscale ft))) 0.

  (* getGlyphVAdvance *)
  Definition glyph_v_advance (g : Z) : Z :=
    if fc_vmetrics fc then em_scalef_y ft (fc_vadv fc g)
    else let fe := font_h_extents_with_fallback in
         f32_to_pos (f32_neg (f32_sub (x_asc fe) (x_desc fe))).

  (* GlyphAdvanceForDirection *)
  Definition glyph_advance_for_direction (g d : Z) : Z * Z :=
    if hb_is_horizontal d then (glyph_h_advance g, 0) else (0, glyph_v_advance g).

  (* getHExtendsAscender: f.YScale * 4 / 5 in int32 *)
  Definition h_extents_ascender : Z :=
    let '(e, ok) := fc_hext fc in
    if ok then em_scalef_y ft (x_asc e) else Z.quot (sint32 (ft_yscale ft * 4)) 5.

  (* guessVOriginMinusHOrigin *)
  Definition guess_v_minus_h (g : Z) : Z * Z := (Z.quot (glyph_h_advance g) 2, h_extents_ascender).

  Definition scale_xy (x y : Z) : Z * Z := (em_scalef_x ft (f32_of_int x), em_scalef_y ft (f32_of_int y)).

  (* getGlyphHOriginWithFallback: the second face call overwrites x, y even when it fails *)
  Definition glyph_h_origin (g : Z) : Z * Z :=
    let '(x, y, ok) := fc_horigin fc g in
    if ok then scale_xy x y
    else let '(x', y', ok') := fc_vorigin fc g in
         if ok' then let '(sx, sy) := scale_xy x' y' in let '(dx, dy) := guess_v_minus_h g in
                     (sint32 (sx - dx), sint32 (sy - dy))
         else scale_xy x' y'.

  (* getGlyphVOriginWithFallback *)
  Definition glyph_v_origin (g : Z) : Z * Z :=
    let '(x, y, ok) := fc_vorigin fc g in
    if ok then scale_xy x y
    else let '(x', y', ok') := fc_horigin fc g in
         if ok' then let '(sx, sy) := scale_xy x' y' in let '(dx, dy) := guess_v_minus_h g in
                     (sint32 (sx + dx), sint32 (sy + dy))
         else scale_xy x' y'.

  (* getGlyphOriginForDirection *)
  Definition glyph_origin_for_direction (g d : Z) : Z * Z :=
    if hb_is_horizontal d then glyph_h_origin g else glyph_v_origin g.

  Definition sub_xy (p o : Z * Z) : Z * Z := (sint32 (fst p - fst o), sint32 (snd p - snd o)).
  Definition add_xy (p o : Z * Z) : Z * Z := (sint32 (fst p + fst o), sint32 (snd p + snd o)).

  (* subtractGlyphOriginForDirection, subtractGlyphHOrigin, subtractGlyphVOrigin, addGlyphHOrigin *)
  Definition subtract_glyph_origin_for_direction (g d : Z) (p : Z * Z) : Z * Z := sub_xy p (glyph_origin_for_direction g d).
  Definition subtract_glyph_h_origin (g : Z) (p : Z * Z) : Z * Z := sub_xy p (glyph_h_origin g).
  Definition subtract_glyph_v_origin (g : Z) (p : Z * Z) : Z * Z := sub_xy p (glyph_v_origin g).
  Definition add_glyph_h_origin (g : Z) (p : Z * Z) : Z * Z := add_xy p (glyph_h_origin g).

  (* GlyphExtents: XBearing, Width by X; YBearing, Height by Y *)
  Definition glyph_extents (g : Z) : option gext4 :=
    match fc_gext fc g with
    | None => None
    | Some e => Some (mkG4 (em_scalef_x ft (x_xb e)) (em_scalef_y ft (x_yb e)) (em_scalef_x ft (x_w e)) (em_scalef_y ft (x_h e)))
    end.
End Font.
