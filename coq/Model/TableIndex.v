(* Hand-written models for C09 of more places where numbers read from the font become indices or sizes
   (second batch; Model/Container.v, Model/Glyf.v and Model/CmapBuild.v are the first one):

   name   tables.ParseName (generated: header, stringData = src[offset:], count records of 12 bytes read by
          nameRecord.mustParse(src[6+i*12:])), Name.decodeRecord (hand-written: stringData[stringOffset:end] after
          the test end > len(stringData)), the choice of the decoder by platform / encoding, decodeUtf16
          (make([]uint16, len/2), Uint16(b[2*i:])).
   hmtx   font.loadHVtmx (hand-written: numberOfLongMetrics of hhea/vhea against the glyph count, clamped),
          tables.ParseHmtx (generated: two guarded make()), Hmtx.Advance and font.getSideBearing (hand-written indexing
          by a glyph id that the caller does not check).
   cmap   tables.ParseCmapSubtable6 / 10 / 12 / 13 (generated: count * size against the length, make, element reads),
          font.newCmap6 / newCmap10 / newCmap12 / newCmap13 with sanitizeCmapGroups (hand-written), the Lookup methods
          (index computed from the rune; binary search s[h]).

   Every Go slice expression / index expression / make() is explicit: it yields Panic when Go would panic.
   int is 64 bits (the products count * 12 of a 32-bit count do not overflow).  No proofs here. *)
From TV Require Export Lib.Bytes Lib.Res Model.Glyf.

Definition p_index := 3%nat.
Definition e_name := 10%nat.
Definition e_hhea := 11%nat.
Definition e_hmtx := 12%nat.
Definition e_cmap := 13%nat.

(* s[a:] *)
Definition slice_from {A} (l : list A) (a : Z) : res (list A) :=
  if (0 <=? a) && (a <=? zlen l) then Ok (zskipn a l) else Panic p_slice.
(* s[i] *)
Definition index_checked {A} (d : A) (l : list A) (i : Z) : res A :=
  if (0 <=? i) && (i <? zlen l) then Ok (znth d l i) else Panic p_index.

(* ------------------------------------------------------------------------------------------------ *)
(* name *)

Record name_rec := mkNameRec {
  nr_platform : Z; nr_encoding : Z; nr_language : Z; nr_name : Z; nr_length : Z; nr_offset : Z }.
Record name_table := mkName { n_string_data : list Z; n_records : list name_rec }.

(* nameRecord.mustParse: `_ = src[11]` *)
Definition name_rec_must_parse (b : list Z) : res name_rec :=
  if zlen b <? 12 then Panic p_index
  else Ok (mkNameRec (get16 b) (get16 (skipn 2 b)) (get16 (skipn 4 b)) (get16 (skipn 6 b))
                     (get16 (skipn 8 b)) (get16 (skipn 10 b))).

Fixpoint name_recs (src : list Z) (i : Z) (n : nat) : res (list name_rec) :=
  match n with
  | O => Ok []
  | S n' =>
      do s <- slice_from src (6 + i * 12);
      do r <- name_rec_must_parse s;
      do rest <- name_recs src (i + 1) n';
      Ok (r :: rest)
  end.

(* ParseName *)
Definition parse_name (src : list Z) : res name_table :=
  if zlen src <? 6 then Err e_name
  else
    let count := get16 (skipn 2 src) in
    let off := get16 (skipn 4 src) in
    do sd <- (if off =? 0 then Ok [] else if zlen src <? off then Err e_name else slice_from src off);
    if zlen src <? 6 + count * 12 then Err e_name
    else
      do recs <- name_recs src 0 (Z.to_nat count);   (* make([]nameRecord, count): 12 * count bytes *)
      Ok (mkName sd recs).

(* decodeRecord, slicing part: "" for an invalid record *)
Definition name_record_bytes (t : name_table) (r : name_rec) : res (list Z) :=
  let e := nr_offset r + nr_length r in
  if zlen (n_string_data t) <? e then Ok []
  else slice_checked (n_string_data t) (nr_offset r) e.

(* decodeRecord, choice of the decoder: 0 = UTF-16, 1 = Mac Roman, 2 = bytes as they are *)
Definition name_decoder (r : name_rec) : Z :=
  if (nr_platform r =? 0)
     || ((nr_platform r =? 3) && ((nr_encoding r =? 1) || (nr_encoding r =? 10) || (nr_encoding r =? 0)))
  then 0
  else if (nr_platform r =? 1) && (nr_encoding r =? 0) then 1
  else 2.

(* decodeUtf16: ints := make([]uint16, len(b)/2); ints[i] = Uint16(b[2*i:]) *)
Fixpoint utf16_units (b : list Z) (i : Z) (n : nat) : res (list Z) :=
  match n with
  | O => Ok []
  | S n' => do x <- u16_at b (2 * i); do r <- utf16_units b (i + 1) n'; Ok (x :: r)
  end.
Definition decode_utf16_units (b : list Z) : res (list Z) := utf16_units b 0 (Z.to_nat (zlen b / 2)).

(* what the model can say of the decoded value: the UTF-16 code units, or the bytes *)
Definition name_record_units (t : name_table) (r : name_rec) : res (list Z) :=
  do v <- name_record_bytes t r;
  if name_decoder r =? 0 then decode_utf16_units v else Ok v.

(* every record of the table, as Name() may be asked for any of them *)
Fixpoint name_all_units (t : name_table) (rs : list name_rec) : res (list (list Z)) :=
  match rs with
  | [] => Ok []
  | r :: rest => do u <- name_record_units t r; do us <- name_all_units t rest; Ok (u :: us)
  end.
Definition name_load_and_decode (src : list Z) : res (name_table * list (list Z)) :=
  do t <- parse_name src; do us <- name_all_units t (n_records t); Ok (t, us).

(* ------------------------------------------------------------------------------------------------ *)
(* hhea + hmtx *)

Record hmtx := mkHmtx { hm_metrics : list (Z * Z); hm_lsb : list Z }.

(* LongHorMetric.mustParse: `_ = src[3]` *)
Definition long_metric_must_parse (b : list Z) : res (Z * Z) :=
  if zlen b <? 4 then Panic p_index else Ok (sint16 (get16 b), sint16 (get16 (skipn 2 b))).

Fixpoint long_metrics (src : list Z) (i : Z) (n : nat) : res (list (Z * Z)) :=
  match n with
  | O => Ok []
  | S n' =>
      do s <- slice_from src (i * 4);
      do m <- long_metric_must_parse s;
      do rest <- long_metrics src (i + 1) n';
      Ok (m :: rest)
  end.
Fixpoint side_bearings (src : list Z) (base i : Z) (n : nat) : res (list Z) :=
  match n with
  | O => Ok []
  | S n' => do x <- u16_at src (base + i * 2); do rest <- side_bearings src base (i + 1) n'; Ok (sint16 x :: rest)
  end.

(* ParseHmtx(src, metricsCount, leftSideBearingsCount) *)
Definition parse_hmtx (src : list Z) (mcount lcount : Z) : res hmtx :=
  if zlen src <? mcount * 4 then Err e_hmtx
  else if mcount <? 0 then Panic p_make
  else
    do ms <- long_metrics src 0 (Z.to_nat mcount);
    let n := mcount * 4 in
    if zlen src <? n + lcount * 2 then Err e_hmtx
    else if lcount <? 0 then Panic p_make
    else
      do ls <- side_bearings src n 0 (Z.to_nat lcount);
      Ok (mkHmtx ms ls).

(* loadHVtmx(hheaRaw, hmtxRaw, numGlyphs): ParseHhea needs 36 bytes, numberOfLongMetrics is the uint16 at 34 *)
Definition load_hvmtx (hhea src : list Z) (num_glyphs : Z) : res hmtx :=
  if zlen hhea <? 36 then Err e_hhea
  else
    let nlong := get16 (skipn 34 hhea) in
    let sb := num_glyphs - nlong in
    let sb := if sb <? 0 then 0 else sb in
    parse_hmtx src nlong sb.

(* Hmtx.Advance(gid); gid is an unsigned 32-bit glyph id converted to int *)
Definition hmtx_advance (h : hmtx) (gid : Z) : res Z :=
  let LM := zlen (hm_metrics h) in
  let LS := zlen (hm_lsb h) in
  if gid <? LM then do m <- index_checked (0, 0) (hm_metrics h) gid; Ok (fst m)
  else if negb (LM =? 0) && (gid <? LS + LM) then do m <- index_checked (0, 0) (hm_metrics h) (LM - 1); Ok (fst m)
  else Ok 0.
(* before the repair 814b335: no test of LM *)
Definition hmtx_advance_unfixed (h : hmtx) (gid : Z) : res Z :=
  let LM := zlen (hm_metrics h) in
  let LS := zlen (hm_lsb h) in
  if gid <? LM then do m <- index_checked (0, 0) (hm_metrics h) gid; Ok (fst m)
  else if gid <? LS + LM then do m <- index_checked (0, 0) (hm_metrics h) (LM - 1); Ok (fst m)
  else Ok 0.

(* font.getSideBearing(gid, table) *)
Definition hmtx_side_bearing (h : hmtx) (gid : Z) : res Z :=
  let LM := zlen (hm_metrics h) in
  let LS := zlen (hm_lsb h) in
  if gid <? LM then do m <- index_checked (0, 0) (hm_metrics h) gid; Ok (snd m)
  else if gid <? LS + LM then index_checked 0 (hm_lsb h) (gid - LM)
  else Ok 0.

Definition hmtx_query (hhea src : list Z) (num_glyphs gid : Z) : res (Z * Z) :=
  do h <- load_hvmtx hhea src num_glyphs;
  do a <- hmtx_advance h gid;
  do s <- hmtx_side_bearing h gid;
  Ok (a, s).

(* ------------------------------------------------------------------------------------------------ *)
(* cmap formats 6, 10, 12, 13 *)

Fixpoint u16_array (src : list Z) (base i : Z) (n : nat) : res (list Z) :=
  match n with
  | O => Ok []
  | S n' => do x <- u16_at src (base + i * 2); do rest <- u16_array src base (i + 1) n'; Ok (x :: rest)
  end.

Record cmap610 := mkCmap610 { c6_first : Z (* rune: int32 *); c6_entries : list Z }.

(* ParseCmapSubtable6 + newCmap6 *)
Definition parse_cmap6 (src : list Z) : res cmap610 :=
  if zlen src <? 10 then Err e_cmap
  else
    let first := get16 (skipn 6 src) in
    let n := get16 (skipn 8 src) in
    if zlen src <? 10 + n * 2 then Err e_cmap
    else do es <- u16_array src 10 0 (Z.to_nat n); Ok (mkCmap610 first es).

(* newCmap10 keeps the entries up to U+10FFFF only *)
Definition clamp10 (first : Z) (es : list Z) : list Z :=
  if 1114111 <? first then [] else zfirstn (1114111 - first + 1) es.

(* ParseCmapSubtable10 + newCmap10: firstCode = rune(uint32) wraps to a negative int32 above 0x7FFFFFFF *)
Definition parse_cmap10 (src : list Z) : res cmap610 :=
  if zlen src <? 20 then Err e_cmap
  else
    let first := get32 (skipn 12 src) in
    let n := get32 (skipn 16 src) in
    if zlen src <? 20 + n * 2 then Err e_cmap
    else do es <- u16_array src 20 0 (Z.to_nat n);
         (* newCmap10 (since the repair of C11-F54): the entries past U+10FFFF are dropped *)
         Ok (mkCmap610 (sint32 first) (clamp10 first es)).

(* cmap6or10.Lookup(r); r is an int32 *)
Definition lookup610 (c : cmap610) (r : Z) : res (option Z) :=
  if r <? c6_first c then Ok None
  else
    let k := r - c6_first c in
    if (k <? 0) || (zlen (c6_entries c) <=? k) then Ok None
    else do g <- index_checked 0 (c6_entries c) k; Ok (Some g).
(* before the repair 365cf88: the index was computed in int32 *)
Definition lookup610_unfixed (c : cmap610) (r : Z) : res (option Z) :=
  if r <? c6_first c then Ok None
  else
    let k := sint32 (r - c6_first c) in
    if zlen (c6_entries c) <=? k then Ok None
    else do g <- index_checked 0 (c6_entries c) k; Ok (Some g).

Record group := mkGroup { g_start : Z; g_end : Z; g_glyph : Z }.
Definition dgroup := mkGroup 0 0 0.

(* SequentialMapGroup.mustParse: `_ = src[11]` *)
Definition group_must_parse (b : list Z) : res group :=
  if zlen b <? 12 then Panic p_index else Ok (mkGroup (get32 b) (get32 (skipn 4 b)) (get32 (skipn 8 b))).
Fixpoint groups_from (src : list Z) (i : Z) (n : nat) : res (list group) :=
  match n with
  | O => Ok []
  | S n' =>
      do s <- slice_from src (16 + i * 12);
      do g <- group_must_parse s;
      do rest <- groups_from src (i + 1) n';
      Ok (g :: rest)
  end.

(* ParseCmapSubtable12 and ParseCmapSubtable13 (same layout) *)
Definition parse_cmap_groups (src : list Z) : res (list group) :=
  if zlen src <? 16 then Err e_cmap
  else
    let n := get32 (skipn 12 src) in
    if zlen src <? 16 + n * 12 then Err e_cmap
    else groups_from src 0 (Z.to_nat n).

Definition max_rune := 1114111.

(* sanitizeCmapGroups; acc is `out` reversed (its head is out[len(out)-1]) *)
Fixpoint sanitize_groups_acc (gs : list group) (acc : list group) : list group :=
  match gs with
  | [] => rev acc
  | g :: rest =>
      if (g_end g <? g_start g) || (max_rune <? g_start g)
         || (match acc with [] => false | last :: _ => g_start g <=? g_end last end)
      then sanitize_groups_acc rest acc
      else sanitize_groups_acc rest (mkGroup (g_start g) (if max_rune <? g_end g then max_rune else g_end g) (g_glyph g) :: acc)
  end.
Definition sanitize_groups (gs : list group) : list group := sanitize_groups_acc gs [].

(* cmap12.Lookup / cmap13.Lookup: binary search `for i, j := 0, len(s); i < j;` with entry := s[h];
   c = uint32(r); format 12 returns c - start + startGlyph (uint32 arithmetic), format 13 startGlyph *)
Fixpoint lookup_groups_loop (is13 : bool) (s : list group) (c : Z) (i j : Z) (fuel : nat) : res (option Z) :=
  if negb (i <? j) then Ok None
  else match fuel with
  | O => OutOfFuel
  | S fuel' =>
      let h := i + (j - i) / 2 in
      do e <- index_checked dgroup s h;
      if c <? g_start e then lookup_groups_loop is13 s c i h fuel'
      else if g_end e <? c then lookup_groups_loop is13 s c (h + 1) j fuel'
      else Ok (Some (if is13 then g_glyph e else wrap32 (c - g_start e + g_glyph e)))
  end.
Definition lookup_groups (is13 : bool) (s : list group) (r : Z) : res (option Z) :=
  lookup_groups_loop is13 s (wrap32 r) 0 (zlen s) (S (length s)).

(* the subtable as ProcessCmap receives it from ParseCmapSubtable and the Cmap it builds, then Lookup *)
Inductive cmap_val := C610 (c : cmap610) | CGroups (is13 : bool) (gs : list group).

Definition cmap_sub_parse (src : list Z) : res cmap_val :=
  if zlen src <? 2 then Err e_cmap
  else
    let f := get16 src in
    if f =? 6 then do c <- parse_cmap6 src; Ok (C610 c)
    else if f =? 10 then do c <- parse_cmap10 src; Ok (C610 c)
    else if f =? 12 then do gs <- parse_cmap_groups src; Ok (CGroups false (sanitize_groups gs))
    else if f =? 13 then do gs <- parse_cmap_groups src; Ok (CGroups true (sanitize_groups gs))
    else Err e_cmap.
Definition cmap_val_lookup (v : cmap_val) (r : Z) : res (option Z) :=
  match v with C610 c => lookup610 c r | CGroups is13 gs => lookup_groups is13 gs r end.
Definition cmap_val_size (v : cmap_val) : Z :=
  match v with C610 c => zlen (c6_entries c) | CGroups _ gs => zlen gs end.
Definition cmap_sub_lookup (src : list Z) (r : Z) : res (option Z) :=
  do v <- cmap_sub_parse src; cmap_val_lookup v r.
