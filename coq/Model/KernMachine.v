(* Executable model of the legacy pair kerning (harfbuzz/ot_kern.go: otApplyFallbackKern, kern with crossStream = false,
   scale = false) over the zipper (done, todo) = (Info[:idx], Info[idx:]) with the positions carried by the items.
   kern_pass_f follows the code (the cursor jumps to the second glyph of the pair, `idx = skippyIter.idx`);
   kern_step_u is the uniform variant (cursor + 1) used by the cut theorem; Proofs/KernMachine.v shows they agree when no
   skippable glyph is the left glyph of a non-zero pair.  No proofs here. *)
From TV Require Export Model.EngineItem.

Record kparams := mkKP {
  kp_pairs : list (Z * Z * Z);    (* (left, right, value) of the format 0 subtable, first entry of a pair wins *)
  kp_mask : Z;                    (* plan.kernMask >> 3 *)
  kp_horiz : bool                 (* buffer.Props.Direction.isHorizontal() *)
}.

(* KernPair *)
Definition kern_pair (P : kparams) (l r : Z) : Z :=
  match find (fun e => (fst (fst e) =? l) && (snd (fst e) =? r)) (kp_pairs P) with
  | Some e => snd e
  | None => 0
  end.

(* the iterator of kern: lookup props IgnoreMarks, GPOS (ZWNJ and ZWJ ignored), mask = kernMask, no match function *)
Definition kmatch (P : kparams) : item -> mres := match_plain 8 (kp_mask P) true true.

(* the adjustments of a pair with value kv (crossStream = false, scale = false) *)
Definition kern_left (P : kparams) (kv : Z) (x : item) : item :=
  let k1 := Z.shiftr kv 1 in
  let p := ip x in
  with_p x (if kp_horiz P then mkP (add32 (xa p) k1) (ya p) (xo p) (yo p) (ach p) (aty p)
            else mkP (xa p) (add32 (ya p) k1) (xo p) (yo p) (ach p) (aty p)).
Definition kern_right (P : kparams) (kv : Z) (y : item) : item :=
  let k2 := kv - Z.shiftr kv 1 in
  let p := ip y in
  with_p y (if kp_horiz P then mkP (add32 (xa p) k2) (ya p) (add32 (xo p) k2) (yo p) (ach p) (aty p)
            else mkP (xa p) (add32 (ya p) k2) (xo p) (add32 (yo p) k2) (ach p) (aty p)).

(* the pair starting at x, when there is one: index k of the second glyph in rest and the (non-zero or zero) value *)
Definition kern_find (P : kparams) (x : item) (rest : list item) : option (nat * Z) :=
  if negb (has_mask (kp_mask P) x) then None
  else match snext (kmatch P) rest with
       | None => None
       | Some k => Some (k, kern_pair P (igid x) (igid (nth k rest i0)))
       end.

(* the rewritten and flagged window [i, j+1) of a pair with non-zero value *)
Definition kern_window (P : kparams) (kv : Z) (x : item) (rest : list item) (k : nat) : list item :=
  flag_window (kern_left P kv x :: firstn k rest ++ [kern_right P kv (nth k rest i0)]).

(* one iteration of `for idx := 0; idx < len(pos);`, following the code: (done', todo', a flag write was recorded) *)
Definition kern_step_f (P : kparams) (d t : list item) : list item * list item * bool :=
  match t with
  | [] => (d, [], false)
  | x :: rest =>
    match kern_find P x rest with
    | None => (d ++ [x], rest, false)                               (* idx++ *)
    | Some (k, kv) =>
      if kv =? 0 then (d ++ x :: firstn k rest, skipn k rest, false)  (* goto skip: idx = skippyIter.idx *)
      else let w := kern_window P kv x rest k in
           (d ++ removelast w, [last w i0] ++ skipn (S k) rest, true)
    end
  end.

(* the uniform variant: the cursor always advances by one *)
Definition kern_step_u (P : kparams) (d t : list item) : list item * list item * bool :=
  match t with
  | [] => (d, [], false)
  | x :: rest =>
    match kern_find P x rest with
    | None => (d ++ [x], rest, false)
    | Some (k, kv) =>
      if kv =? 0 then (d ++ [x], rest, false)
      else let w := kern_window P kv x rest k in
           (d ++ [hd i0 w], tl w ++ skipn (S k) rest, true)
    end
  end.

Fixpoint kern_loop (step : list item -> list item -> list item * list item * bool) (fuel : nat) (d t : list item) (rec : bool)
  : list item * bool :=
  match fuel with
  | O => (d ++ t, rec)
  | S f => match t with
           | [] => (d, rec)
           | _ => let '(d', t', r) := step d t in kern_loop step f d' t' (rec || r)
           end
  end.

(* kern(): buffer.unsafeToConcat(0, maxInt) first (a no-op unless ProduceUnsafeToConcat), then the loop *)
Definition kern_f (P : kparams) (concat : bool) (l : list item) (rec : bool) : list item * bool :=
  let l0 := if concat then flag_window_m m_concat l else l in
  let rec0 := rec || (concat && window_records l) in
  kern_loop (kern_step_f P) (length l0) [] l0 rec0.

(* otApplyFallbackKern: a backward buffer is reversed around kern *)
Definition fallback_kern_f (P : kparams) (concat backward : bool) (l : list item) (rec : bool) : list item * bool :=
  if backward then let '(o, r) := kern_f P concat (rev l) rec in (rev o, r)
  else kern_f P concat l rec.

(* the pass of the cut theorem: the uniform step, no context *)
Definition kern_pass (P : kparams) : @pass item unit :=
  mkPass (fun _ _ d t => let '(d', t', _) := kern_step_u P d t in (d', t')) (fun _ => tt) (fun _ => tt).
