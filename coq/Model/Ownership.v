(* C17 — A parsed font can be shared by concurrent goroutines: the ownership / effect model.

   No Gallina function can exhibit a Go data race.  What IS logic is ownership: goroutines ("threads")
   own private objects (Face with its extents cache, Buffer, HarfbuzzShaper, Segmenter, FontMap, LineWrapper),
   there is one shared heap that nobody writes after construction (the parsed *font.Font and the package-level
   tables), and an operation reads shared + own state and writes own state only.

   Two formulations:
   1. [ByConstruction]: an operation is a function  sh -> st -> st * out ; it cannot even name another
      thread's state, so confinement holds by construction.
   2. [Footprint]: one explicit heap  loc -> val  shared by everybody, an ownership map on locations, and
      operations that may read and write anything; confinement is a hypothesis on their read and write
      footprints ([writes op ⊆ owned t]).  This is the formulation the generated effect facts speak about:
      Gen/Effects.v + Spec/Effects.v establish (syntactically, with the stated blind spots) the half
      [no_shared_write]; the other half [no_foreign_write] is the caller's side of the documented contract
      ("Face is not safe for concurrent use": each goroutine uses its own Face / Buffer / shaper / FontMap).

   What this says about Go's memory model: it is the standard data-race-freedom argument.  A data race needs
   two conflicting accesses to one location, at least one a write, unordered by happens-before.  Shared
   locations receive no write at all in the steady state (their initialising writes happen-before every use:
   package init, sync.Once, or the constructor returning the *Font that is then published to the goroutines by
   a go statement / channel), and private locations are accessed by one goroutine only.  Hence no race, hence
   (DRF-SC) every execution is sequentially consistent, i.e. an interleaving of the goroutines' operations —
   the executions quantified over below — and the theorems say every interleaving gives each goroutine the
   results of running alone.  What it does NOT say: nothing about executions that do have a race (Go gives
   them no useful semantics); nothing if the ownership discipline is broken by the caller (two goroutines on
   one Face); operations are atomic steps here, which is only justified because confined steps of different
   threads commute (Proofs/Ownership.v: confined_steps_commute) so finer interleavings add no behaviours.
   No proofs in this file. *)
From Coq Require Import List Arith Bool.
Import ListNotations.

Definition thread := nat.

Definition upd {A : Type} (f : thread -> A) (t : thread) (a : A) : thread -> A :=
  fun u => if Nat.eqb u t then a else f u.

(* how many turns the schedule gives to thread t *)
Fixpoint turns (t : thread) (sched : list thread) : nat :=
  match sched with
  | [] => 0
  | u :: rest => (if Nat.eqb u t then 1 else 0) + turns t rest
  end.

(* ---------------------------------------------------------------------------------------------- *)
Section ByConstruction.
  Variables (sh st out : Type).

  (* an operation reads the shared heap and its thread's private state, updates the private state, yields a result *)
  Definition op := sh -> st -> st * out.

  (* what a thread is at some instant: private state, operations still to run, results observed so far *)
  Record tstate := mkT { t_priv : st; t_todo : list op; t_outs : list out }.
  Definition config := thread -> tstate.

  Definition local_step (s : sh) (x : tstate) : tstate :=
    match t_todo x with
    | [] => x                                   (* finished threads stutter *)
    | o :: rest => let '(p', r) := o s (t_priv x) in mkT p' rest (t_outs x ++ [r])
    end.

  (* thread t takes one step; the shared heap s is not even an output of a step *)
  Definition step (s : sh) (t : thread) (c : config) : config := upd c t (local_step s (c t)).

  (* a schedule is any list of thread ids: any number of threads, fair or not *)
  Fixpoint run (s : sh) (sched : list thread) (c : config) : config :=
    match sched with
    | [] => c
    | t :: rest => run s rest (step s t c)
    end.

  Fixpoint alone (s : sh) (n : nat) (x : tstate) : tstate :=
    match n with
    | 0 => x
    | S k => alone s k (local_step s x)
    end.

  (* the reference semantics, written independently of the machine: results of a program run sequentially *)
  Fixpoint exec (s : sh) (p : list op) (x : st) : list out :=
    match p with
    | [] => []
    | o :: rest => let '(x', r) := o s x in r :: exec s rest x'
    end.
  Fixpoint final (s : sh) (p : list op) (x : st) : st :=
    match p with
    | [] => x
    | o :: rest => let '(x', _) := o s x in final s rest x'
    end.

  Definition initial (progs : thread -> list op) (privs : thread -> st) : config :=
    fun t => mkT (privs t) (progs t) [].
End ByConstruction.

Arguments mkT {sh st out}.
Arguments t_priv {sh st out}.
Arguments t_todo {sh st out}.
Arguments t_outs {sh st out}.
Arguments local_step {sh st out}.
Arguments step {sh st out}.
Arguments run {sh st out}.
Arguments alone {sh st out}.
Arguments exec {sh st out}.
Arguments final {sh st out}.
Arguments initial {sh st out}.

(* ---------------------------------------------------------------------------------------------- *)
Section Footprint.
  Variables (loc val out : Type).
  Variable loc_eq_dec : forall a b : loc, {a = b} + {a <> b}.
  (* None: shared (reachable from a *Font, or a package-level variable); Some t: private to thread t *)
  Variable owner : loc -> option thread.

  Definition heap := loc -> val.

  (* an operation sees the whole heap and returns the list of writes it performs and its result *)
  Definition hop := heap -> list (loc * val) * out.

  Definition write1 (h : heap) (lv : loc * val) : heap :=
    fun l => if loc_eq_dec l (fst lv) then snd lv else h l.
  Definition apply_writes (h : heap) (ws : list (loc * val)) : heap := fold_left write1 ws h.

  Definition writes (o : hop) (h : heap) : list loc := map fst (fst (o h)).

  Definition shared (l : loc) : Prop := owner l = None.
  Definition owned (t : thread) (l : loc) : Prop := owner l = Some t.
  Definition visible (t : thread) (l : loc) : Prop := shared l \/ owned t l.
  Definition agree_on (P : loc -> Prop) (h h' : heap) : Prop := forall l, P l -> h l = h' l.

  (* write footprint within the executing thread's private state *)
  Definition writes_confined (t : thread) (o : hop) : Prop := forall h l, In l (writes o h) -> owned t l.
  (* ... split in the half the effect facts are about and the half that is the caller's discipline *)
  Definition no_shared_write (o : hop) : Prop := forall h l, In l (writes o h) -> ~ shared l.
  Definition no_foreign_write (t : thread) (o : hop) : Prop :=
    forall h l u, In l (writes o h) -> owned u l -> u = t.
  (* read footprint within shared + own state: the operation behaves the same on heaps that agree there *)
  Definition reads_confined (t : thread) (o : hop) : Prop :=
    forall h h', agree_on (visible t) h h' -> o h = o h'.
  Definition confined (t : thread) (o : hop) : Prop := writes_confined t o /\ reads_confined t o.

  Record hconfig := mkH { h_heap : heap; h_todo : thread -> list hop; h_outs : thread -> list out }.

  Definition hstep (t : thread) (c : hconfig) : hconfig :=
    match h_todo c t with
    | [] => c
    | o :: rest =>
        let '(ws, r) := o (h_heap c) in
        mkH (apply_writes (h_heap c) ws) (upd (h_todo c) t rest) (upd (h_outs c) t (h_outs c t ++ [r]))
    end.

  Fixpoint hrun (sched : list thread) (c : hconfig) : hconfig :=
    match sched with
    | [] => c
    | t :: rest => hrun rest (hstep t c)
    end.

  Definition all_confined (c : hconfig) : Prop := forall t, Forall (confined t) (h_todo c t).
  Definition all_no_shared_write (c : hconfig) : Prop := forall t, Forall no_shared_write (h_todo c t).

  (* thread t running alone for n steps from configuration c *)
  Definition halone (t : thread) (n : nat) (c : hconfig) : hconfig := hrun (repeat t n) c.

  (* the reference semantics, written independently of the machine: a program run sequentially on a heap *)
  Fixpoint hexec (p : list hop) (h : heap) : list out :=
    match p with
    | [] => []
    | o :: rest => let '(ws, r) := o h in r :: hexec rest (apply_writes h ws)
    end.
  Fixpoint hfinal (p : list hop) (h : heap) : heap :=
    match p with
    | [] => h
    | o :: rest => let '(ws, _) := o h in hfinal rest (apply_writes h ws)
    end.

  Definition hinitial (h : heap) (progs : thread -> list hop) : hconfig := mkH h progs (fun _ => []).
End Footprint.

Arguments mkH {loc val out}.
Arguments h_heap {loc val out}.
Arguments h_todo {loc val out}.
Arguments h_outs {loc val out}.
