(* Hand-written model of fontscan/rune_coverage.go, script part: ScriptSet.insert (sort.Search + insertion),
   ScriptSet.contains, scriptsFromRanges (after the `fix:` commit that adds Unknown at the table's end only when the
   ranges reach beyond the last script), and the iterator path of newCoveragesFromCmap (rs.Add(r);
   ss.insert(LookupScript(r))).  No proofs here.  The table language.ScriptRanges is a parameter (Gen/ScriptTable.v). *)
From TV Require Export Lib.Bytes Lib.Res Model.RuneSet.

Definition ScriptSet := list Z.                      (* []language.Script, uint32 tags *)

(* sort.Search(n, f): i, j := 0, n; for i < j { h := int(uint(i+j) >> 1); if !f(h) { i = h + 1 } else { j = h } }; return i *)
Fixpoint search_loop (fuel : nat) (f : Z -> bool) (i j : Z) : res Z :=
  if i <? j then
    match fuel with
    | O => OutOfFuel
    | S fu => let h := Z.shiftr (i + j) 1 in
              if f h then search_loop fu f i h else search_loop fu f (h + 1) j
    end
  else Ok i.
Definition ss_insert (ss : ScriptSet) (s : Z) : res ScriptSet :=
  do idx <- search_loop (S (length ss)) (fun i => s <=? znth 0 ss i) 0 (zlen ss);
  if negb (idx =? zlen ss) && (znth 0 ss idx =? s) then Ok ss
  else Ok (zfirstn idx ss ++ s :: zskipn idx ss).
Fixpoint ss_contains (ss : ScriptSet) (s : Z) : bool :=
  match ss with
  | [] => false
  | x :: r => if s <? x then false else if x =? s then true else ss_contains r s
  end.

Section ScriptsFromRanges.
  Variable SR : list (Z * Z * Z).                    (* language.ScriptRanges: (Start, End, Script) *)
  Variable unknown : Z.                              (* language.Unknown *)
  Definition LR : Z := zlen SR.
  Definition sr_start (i : Z) : Z := fst (fst (znth (0, 0, 0) SR i)).
  Definition sr_end (i : Z) : Z := snd (fst (znth (0, 0, 0) SR i)).
  Definition sr_script (i : Z) : Z := snd (znth (0, 0, 0) SR i).

  (* for indexS < LR && ScriptRanges[indexS].End < start { indexS++ } *)
  Fixpoint skip_left (fuel : nat) (idx start : Z) : res Z :=
    if (idx <? LR) && (sr_end idx <? start) then
      match fuel with O => OutOfFuel | S f => skip_left f (idx + 1) start end
    else Ok idx.

  (* the loop over the 'interesting' items: (out, hasUnknown, indexS) *)
  Fixpoint items_loop (fuel : nat) (out : ScriptSet) (hasU : bool) (idx start end_ : Z) : res (ScriptSet * bool * Z) :=
    if idx <? LR then
      match fuel with
      | O => OutOfFuel
      | S f =>
          if end_ <? sr_start idx then
            if negb hasU && (0 <? idx) && (sr_end (idx - 1) <? end_)
            then do o <- ss_insert out unknown; Ok (o, true, idx)
            else Ok (out, hasU, idx)
          else
            do ou <- (if negb hasU && (0 <? idx) && (sr_end (idx - 1) + 1 <? sr_start idx) && (start <? sr_start idx)
                      then do o <- ss_insert out unknown; Ok (o, true) else Ok (out, hasU));
            do o2 <- ss_insert (fst ou) (sr_script idx);
            items_loop f o2 (snd ou) (idx + 1) start end_
      end
    else Ok (out, hasU, idx).

  Fixpoint ranges_loop (last_end : Z) (ranges : list (Z * Z)) (out : ScriptSet) (hasU : bool) (idx : Z) : res ScriptSet :=
    match ranges with
    | [] => Ok out
    | (start, end_) :: rest =>
        do idx1 <- skip_left (S (length SR)) idx start;
        if LR <=? idx1 then ss_insert out unknown
        else
          do st <- items_loop (S (length SR)) out hasU idx1 start end_;
          let '(out2, hasU2, idx2) := st in
          if LR <=? idx2 then
            (if sr_end (LR - 1) <? last_end then ss_insert out2 unknown else Ok out2)
          else ranges_loop last_end rest out2 hasU2 idx2
    end.
  Definition scripts_from_ranges (ranges : list (Z * Z)) : res ScriptSet :=
    ranges_loop (snd (last ranges (0, 0))) ranges [] false 0.

  (* language.LookupScript: binary search over ScriptRanges, Unknown when no entry contains r *)
  Definition script_of (r : Z) : Z :=
    match find (fun e => (fst (fst e) <=? r) && (r <=? snd (fst e))) SR with
    | Some e => snd e
    | None => unknown
    end.
  (* the iterator path of newCoveragesFromCmap *)
  Fixpoint scripts_from_runes (runes : list Z) (ss : ScriptSet) : res ScriptSet :=
    match runes with
    | [] => Ok ss
    | r :: t => do s <- ss_insert ss (script_of r); scripts_from_runes t s
    end.
End ScriptsFromRanges.
