(* Model of the shape plan cache of harfbuzz.Buffer (harfbuzz/shape.go: shapePlan.init,
   userFeaturesMatch, equal, newShapePlanCached; harfbuzz/ot_shaper.go shaperOpentype.init).
   No proofs here.

   Go                                       model
   Face = *font.Face (map key)              Z (interned pointer); font_of face = its *font.Font
   SegmentProperties (comparable struct)    Z (the harness interns (direction, script, language))
   Feature{Tag, Value, Start, End}          (tag, value, start, end) : Z * Z * Z * Z
   face.Coords()                            world state  coords_of : Z -> coords, changed by SetCoords
   Layout.FindVariationIndex(coords) x 2    varidx font coords : Z * Z   (Section variable)
   shaper.compile (otShapePlan.init0)       compile font props features key : plan (Section variable)
   map[Face][]*shapePlan                    association list face -> list of plan records, in append order *)
From TV Require Export Lib.GoNum.

Definition feature := (Z * Z * Z * Z)%type.
Definition feat_tag (f : feature) : Z := fst (fst (fst f)).
Definition feat_value (f : feature) : Z := snd (fst (fst f)).
Definition feat_start (f : feature) : Z := snd (fst f).
Definition feat_end (f : feature) : Z := snd f.

Definition global_start : Z := 0.
Definition global_end : Z := 9223372036854775807.   (* maxInt *)
Definition is_global (f : feature) : bool := (feat_start f =? global_start) && (feat_end f =? global_end).

(* shapePlan.init with copy = true: start/end made uniform *)
Definition normalise (f : feature) : feature :=
  (feat_tag f, feat_value f,
   if feat_start f =? global_start then feat_start f else 1,
   if feat_end f =? global_end then feat_end f else 2).

(* userFeaturesMatch *)
Fixpoint feats_match (a b : list feature) : bool :=
  match a, b with
  | [], [] => true
  | x :: a', y :: b' =>
      (feat_tag x =? feat_tag y) && (feat_value x =? feat_value y) && Bool.eqb (is_global x) (is_global y)
      && feats_match a' b'
  | _, _ => false
  end.

Definition key_eqb (a b : Z * Z) : bool := (fst a =? fst b) && (snd a =? snd b).

Section PlanCache.
  Variables coords plan : Type.
  Variable font_of : Z -> Z.
  Variable varidx : Z -> coords -> Z * Z.
  Variable compile : Z -> Z -> list feature -> Z * Z -> plan.

  Record planrec := mkPlan { p_props : Z; p_feats : list feature; p_key : Z * Z; p_plan : plan }.

  (* shapePlan.equal (repaired: the feature-variation indices are part of the key) *)
  Definition plan_equal (p : planrec) (props : Z) (feats : list feature) (key : Z * Z) : bool :=
    (p_props p =? props) && feats_match (p_feats p) feats && key_eqb (p_key p) key.

  (* the unrepaired comparison, for Findings/ *)
  Definition plan_equal_nokey (p : planrec) (props : Z) (feats : list feature) (key : Z * Z) : bool :=
    (p_props p =? props) && feats_match (p_feats p) feats.

  Definition cache := list (Z * list planrec).

  Fixpoint plans_of (c : cache) (face : Z) : list planrec :=
    match c with
    | [] => []
    | (f, ps) :: r => if f =? face then ps else plans_of r face
    end.
  Fixpoint set_plans (c : cache) (face : Z) (ps : list planrec) : cache :=
    match c with
    | [] => [(face, ps)]
    | (f, qs) :: r => if f =? face then (f, ps) :: r else (f, qs) :: set_plans r face ps
    end.

  Fixpoint find_plan (eq : planrec -> Z -> list feature -> Z * Z -> bool)
           (ps : list planrec) (props : Z) (feats : list feature) (key : Z * Z) : option planrec :=
    match ps with
    | [] => None
    | p :: r => if eq p props feats key then Some p else find_plan eq r props feats key
    end.

  (* newShapePlan: compile with the caller's features, keep a normalised copy *)
  Definition new_plan (face props : Z) (feats : list feature) (key : Z * Z) : planrec :=
    mkPlan props (map normalise feats) key (compile (font_of face) props feats key).

  (* newShapePlanCached, parameterised by the comparison *)
  Definition plan_cached_with eq (c : cache) (face props : Z) (feats : list feature) (cs : coords) : cache * planrec :=
    let key := varidx (font_of face) cs in
    let ps := plans_of c face in
    match find_plan eq ps props feats key with
    | Some p => (c, p)
    | None => let p := new_plan face props feats key in (set_plans c face (ps ++ [p]), p)
    end.
  Definition plan_cached := plan_cached_with plan_equal.

  (* world: the coordinates currently set on each face, and one Buffer *)
  Record world := mkWorld { w_coords : Z -> coords; w_cache : cache }.

  Inductive op :=
  | SetCoords (face : Z) (c : coords)                    (* Face.SetCoords / SetVariations *)
  | ShapeB (face props : Z) (feats : list feature).      (* Buffer.Shape(font of face, feats) with b.Props = props *)

  Definition step_with eq (w : world) (o : op) : world * option planrec :=
    match o with
    | SetCoords f c => (mkWorld (fun g => if g =? f then c else w_coords w g) (w_cache w), None)
    | ShapeB f props feats =>
        let '(c', p) := plan_cached_with eq (w_cache w) f props feats (w_coords w f) in
        (mkWorld (w_coords w) c', Some p)
    end.
  Definition step := step_with plan_equal.

  (* the plans executed by the ShapeB operations of a history *)
  Fixpoint run_with eq (w : world) (ops : list op) : list plan :=
    match ops with
    | [] => []
    | o :: r => let '(w', a) := step_with eq w o in
                match a with Some p => p_plan p :: run_with eq w' r | None => run_with eq w' r end
    end.
  Definition run := run_with plan_equal.

  (* per operation: for ShapeB the plan list of the shaped face afterwards *)
  Fixpoint trace (w : world) (ops : list op) : list (list planrec) :=
    match ops with
    | [] => []
    | o :: r => let w' := fst (step w o) in
                (match o with ShapeB f _ _ => plans_of (w_cache w') f | _ => [] end) :: trace w' r
    end.
End PlanCache.
