(* Hand-written model for C09 of the kerning pair look-ups and of the CFF FDSelect look-ups, the places where a glyph id
   (any value of its integer type) and numbers read from the table meet as indices:

   font/aat_layout_kern_kerx.go   kernPair (format 0: binary search over the records), Kern2.KernPair (formats 2 of 'kern'
                                  and 'kerx': two class look-ups, then an offset into the subtable bytes; after the repair
                                  C09-F85 a null class table is not dereferenced), Kern3.KernPair (two class arrays, an
                                  index array, a value array: "sanitized during parsing" by KernData3.parseEnd in
                                  font/opentype/tables/kern_src.go, which is modelled too), Kern6.KernPair
   font/cff/cff_src.go            fdSelect0.fontDictIndex, fdSelect3.fontDictIndex / fdSelect4.fontDictIndex32 (bisection
                                  over ranges which are NOT validated at parse time), extent

   GID is uint32 and tables.GlyphID is uint16: tables.GlyphID(gid) truncates (wrap16).  No proofs here. *)
From TV Require Export Lib.Bytes Lib.Res Model.Glyf Model.TableIndex Model.AatLookup.

(* ------------------------------------------------------------------------------------------------ *)
(* format 0 *)

Record krec := mkKrec { k_left : Z; k_right : Z; k_value : Z }.
Definition dkrec := mkKrec 0 0 0.

(* key := uint32(left)<<16 | uint32(right), left and right being uint32 *)
Definition pair_key (l r : Z) : Z := Z.lor (wrap32 (Z.shiftl l 16)) r.
Definition record_key (k : krec) : Z := pair_key (k_left k) (k_right k).

(* low, high := 0, len(records); for low < high { mid := low + (high-low)/2; p := recordKey(records[mid]);
   if key < p { high = mid } else if key > p { low = mid + 1 } else { return records[mid].Value } }; return 0 *)
Fixpoint kern0_loop (recs : list krec) (key : Z) (lo hi : Z) (fuel : nat) : res Z :=
  if negb (lo <? hi) then Ok 0
  else match fuel with
  | O => OutOfFuel
  | S fuel' =>
      let mid := lo + (hi - lo) / 2 in
      do e <- index_checked dkrec recs mid;
      let p := record_key e in
      if key <? p then kern0_loop recs key lo mid fuel'
      else if p <? key then kern0_loop recs key (mid + 1) hi fuel'
      else Ok (k_value e)
  end.
Definition kern0_pair (recs : list krec) (l r : Z) : res Z :=
  kern0_loop recs (pair_key l r) 0 (zlen recs) (S (length recs)).

(* ------------------------------------------------------------------------------------------------ *)
(* format 2: the class values are byte offsets in the subtable *)

Record kern2 := mkKern2 { k2_left : option aat_lookup; k2_right : option aat_lookup; k2_start : Z; k2_data : list Z }.

Definition oz (o : option Z) : Z := match o with Some v => v | None => 0 end.

(* fixed = false: the code before the repair C09-F85 (no test of a nil class table) *)
Definition kern2_pair_gen (fixed : bool) (k : kern2) (l r : Z) : res Z :=
  match k2_left k, k2_right k with
  | Some L, Some R =>
      do a <- aat_class L (wrap16 l);
      do b <- aat_class R (wrap16 r);
      let index := oz a + oz b in
      if (zlen (k2_data k) <? index + 2) || (index <? k2_start k) then Ok 0
      else
        do hi <- index_checked 0 (k2_data k) index;
        do lo <- index_checked 0 (k2_data k) (index + 1);
        Ok (sint16 (hi * 256 + lo))
  | _, _ => if fixed then Ok 0 else Panic p_index
  end.
Definition kern2_pair := kern2_pair_gen true.

(* ------------------------------------------------------------------------------------------------ *)
(* format 3 *)

Record kern3 := mkKern3 {
  k3_value_count : Z; k3_left_count : Z; k3_right_count : Z;     (* the three uint8 counts of the header *)
  k3_kernings : list Z; k3_left : list Z; k3_right : list Z; k3_index : list Z }.

(* KernData3.parseEnd: every index < kernValueCount, every class < its class count.
   strict = false is the seeded slip `index > kernValueCount` *)
Fixpoint kern3_classes_ok (k : kern3) (left : list Z) (i : Z) : res bool :=
  match left with
  | [] => Ok true
  | c :: rest =>
      if k3_left_count k <=? c then Ok false
      else do rc <- index_checked 0 (k3_right k) i;          (* kd.RightClass[i], i ranging over LeftClass *)
           if k3_right_count k <=? rc then Ok false else kern3_classes_ok k rest (i + 1)
  end.
Definition kern3_sanitize_gen (strict : bool) (k : kern3) : res bool :=
  if existsb (fun ix => if strict then k3_value_count k <=? ix else k3_value_count k <? ix) (k3_index k) then Ok false
  else kern3_classes_ok k (k3_left k) 0.
Definition kern3_sanitize := kern3_sanitize_gen true.

(* Kern3.KernPair *)
Definition kern3_pair (k : kern3) (l r : Z) : res Z :=
  if (zlen (k3_left k) <=? l) || (zlen (k3_right k) <=? r) then Ok 0
  else
    do lc <- index_checked 0 (k3_left k) l;
    do rc <- index_checked 0 (k3_right k) r;
    do ix <- index_checked 0 (k3_index k) (lc * k3_right_count k + rc);
    index_checked 0 (k3_kernings k) ix.

(* what the generated parser ParseKernData3 guarantees about a value it returns: the array lengths are the counts of
   the header, the elements are bytes *)
Definition is_byte (x : Z) : bool := (0 <=? x) && (x <? 256).
Definition kern3_shape (k : kern3) : bool :=
  (zlen (k3_kernings k) =? k3_value_count k) && (zlen (k3_left k) =? zlen (k3_right k))
  && (zlen (k3_index k) =? k3_left_count k * k3_right_count k)
  && is_byte (k3_value_count k) && is_byte (k3_left_count k) && is_byte (k3_right_count k)
  && forallb is_byte (k3_left k) && forallb is_byte (k3_right k) && forallb is_byte (k3_index k).

(* parse then query, as the loader and the shaper do: a rejected subtable is never queried *)
Definition kern3_query (k : kern3) (l r : Z) : res (option Z) :=
  do ok <- kern3_sanitize k;
  if ok then do v <- kern3_pair k l r; Ok (Some v) else Ok None.

(* ------------------------------------------------------------------------------------------------ *)
(* 'kerx' format 6: l and r are the (uint32) class values *)
Definition kern6_pair (kernings : list Z) (l r : Z) : res Z :=
  let index := l + r in
  if zlen kernings <=? index then Ok 0 else index_checked 0 kernings index.

(* ------------------------------------------------------------------------------------------------ *)
(* CFF FDSelect *)

Definition fdselect0 (fds : list Z) (g : Z) : res (option Z) :=
  if zlen fds <=? g then Ok None else do v <- index_checked 0 fds g; Ok (Some v).

Record range3 := mkRange3 { r3_first : Z; r3_fd : Z }.
Definition drange3 := mkRange3 0 0.

(* lo, hi := 0, len(ranges); for lo < hi { i := (lo + hi) / 2; r := ranges[i]; xlo := r.first;
     if x < xlo { hi = i; continue }
     xhi := sentinel; if i < len(ranges)-1 { xhi = ranges[i+1].first }
     if xhi <= x { lo = i + 1; continue }
     return r.fd, nil }; return 0, errGlyph
   advance = false is the seeded slip `lo = i` *)
Fixpoint fd3_loop (advance : bool) (ranges : list range3) (sentinel x : Z) (lo hi : Z) (fuel : nat) : res (option Z) :=
  if negb (lo <? hi) then Ok None
  else match fuel with
  | O => OutOfFuel
  | S fuel' =>
      let i := (lo + hi) / 2 in
      do r <- index_checked drange3 ranges i;
      if x <? r3_first r then fd3_loop advance ranges sentinel x lo i fuel'
      else
        do xhi <- (if i <? zlen ranges - 1 then do n <- index_checked drange3 ranges (i + 1); Ok (r3_first n) else Ok sentinel);
        if xhi <=? x then fd3_loop advance ranges sentinel x (if advance then i + 1 else i) hi fuel'
        else Ok (Some (r3_fd r))
  end.
(* the fuel is the length + 1: the theorem says it is never exhausted (fuel-free bound on the iterations) *)
Definition fdselect3 (ranges : list range3) (sentinel x : Z) : res (option Z) :=
  fd3_loop true ranges sentinel x 0 (zlen ranges) (S (length ranges)).
Definition fdselect3_slip (ranges : list range3) (sentinel x : Z) : res (option Z) :=
  fd3_loop false ranges sentinel x 0 (zlen ranges) (S (length ranges)).

(* extent(): max fd + 1; the parser requires extent <= number of Font DICTs *)
Definition fd3_extent (ranges : list range3) : Z := fold_right (fun r m => Z.max (r3_fd r + 1) m) 0 ranges.
Definition fd0_extent (fds : list Z) : Z := fold_right (fun b m => Z.max (b + 1) m) 0 fds.
