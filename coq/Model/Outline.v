(* Executable model of the TrueType metric / outline decoding path of package font, fed with RAW TABLE BYTES
   (head, maxp, hhea, hmtx, one glyph record of glyf).  It follows the Go code:

     tables.ParseHmtx / Hmtx.Advance / font.getSideBearing / Font.getBaseAdvance / Face.HorizontalAdvance (non variable)
     tables.ParseGlyph / ParseSimpleGlyph / SimpleGlyph.parsePoints / readContourPoint / parseGlyphContourPoints
     font.getContourPoints, Face.getPointsForGlyph (simple glyph, no variations: the left side bearing shift)
     font.buildSegments, font.extentsFromPoints, font.getGlyphExtents

   Conventions: bytes are Z in [0,256); int16 arithmetic wraps explicitly (sint16); Go panics are [Panic].
   float32 coordinates: every coordinate met here is an int16 value, a difference/sum of two of them, or the midpoint of
   two such integers; all are exactly representable.  Segment coordinates are kept DOUBLED (unit 1/2 font unit) so that
   implied midpoints stay integers: a point (x, y) is written (2x, 2y), the midpoint of p and q is p + q.
   No proofs in this file. *)
From TV Require Export Lib.Bytes Lib.Res.
Open Scope Z_scope.

(* ------------------------------------------------------------------------------------------------ *)
(* head / maxp / hhea fields read from the raw tables                                                   *)

Definition u16_at (off : Z) (src : list Z) : Z := get16 (zskipn off src).
Definition i16_at (off : Z) (src : list Z) : Z := sint16 (get16 (zskipn off src)).

(* tables.Head.Upem: sanitised unitsPerEm (ParseHead needs 54 bytes) *)
Definition head_upem (head : list Z) : res Z :=
  if zlen head <? 54 then Err 1 else
  let u := u16_at 18 head in
  Ok (if (u <? 16) || (16384 <? u) then 1000 else u).
Definition maxp_num_glyphs (maxp : list Z) : res Z :=
  if zlen maxp <? 6 then Err 1 else Ok (u16_at 4 maxp).
(* tables.ParseHhea needs 36 bytes; numOfLongMetrics is the last uint16 *)
Definition hhea_num_long (hhea : list Z) : res Z :=
  if zlen hhea <? 36 then Err 1 else Ok (u16_at 34 hhea).

(* ------------------------------------------------------------------------------------------------ *)
(* hmtx                                                                                                 *)

Record hmtx_tab := mkHmtx {
  hm_metrics : list (Z * Z);     (* LongHorMetric: AdvanceWidth, LeftSideBearing — both int16 in the Go code *)
  hm_lsb : list Z                (* LeftSideBearings *)
}.
Definition hmtx_empty_tab := mkHmtx [] [].

(* item.Metrics[i].mustParse(src[i*4:]) for i < n; the caller has checked len(src) >= 4 n *)
Fixpoint long_metrics (n : nat) (src : list Z) : list (Z * Z) :=
  match n, src with
  | S n', a :: b :: c :: d :: r => (sint16 (a * 256 + b), sint16 (c * 256 + d)) :: long_metrics n' r
  | _, _ => []
  end.
Fixpoint short_metrics (n : nat) (src : list Z) : list Z :=
  match n, src with
  | S n', a :: b :: r => sint16 (a * 256 + b) :: short_metrics n' r
  | _, _ => []
  end.

(* tables.ParseHmtx(src, metricsCount, leftSideBearingsCount); metricsCount is a uint16 (>= 0),
   leftSideBearingsCount = numGlyphs - metricsCount may be negative: make([]int16, negative) panics *)
Definition parse_hmtx (src : list Z) (n_long n_lsb : Z) : res hmtx_tab :=
  let L := zlen src in
  if L <? n_long * 4 then Err 1 else
  if L <? n_long * 4 + n_lsb * 2 then Err 2 else
  if n_lsb <? 0 then Panic 1 else
  Ok (mkHmtx (long_metrics (Z.to_nat n_long) src) (short_metrics (Z.to_nat n_lsb) (zskipn (n_long * 4) src))).

(* font.loadHVtmx: any error leaves the zero (empty) table in the Font *)
Definition load_hmtx (hhea hmtx : list Z) (num_glyphs : Z) : res hmtx_tab :=
  match hhea_num_long hhea with
  | Ok nl => match parse_hmtx hmtx nl (Z.max 0 (num_glyphs - nl)) with   (* the side bearings count is clamped to 0 *)
             | Ok t => Ok t
             | Err _ => Ok hmtx_empty_tab
             | Panic c => Panic c
             | OutOfFuel => OutOfFuel
             end
  | _ => Ok hmtx_empty_tab
  end.

Definition hmtx_is_empty (t : hmtx_tab) : bool := zlen (hm_metrics t) + zlen (hm_lsb t) =? 0.

(* tables.Hmtx.Advance; without any long metric the advance is 0 *)
Definition tab_advance (t : hmtx_tab) (gid : Z) : res Z :=
  let LM := zlen (hm_metrics t) in let LS := zlen (hm_lsb t) in
  if gid <? LM then Ok (fst (znth (0, 0) (hm_metrics t) gid))
  else if negb (LM =? 0) && (gid <? LS + LM) then Ok (fst (znth (0, 0) (hm_metrics t) (LM - 1)))
  else Ok 0.

(* font.getSideBearing *)
Definition side_bearing (t : hmtx_tab) (gid : Z) : Z :=
  let LM := zlen (hm_metrics t) in let LS := zlen (hm_lsb t) in
  if gid <? LM then snd (znth (0, 0) (hm_metrics t) gid)
  else if gid <? LS + LM then znth 0 (hm_lsb t) (gid - LM)
  else 0.

(* Font.getBaseAdvance(gid, hmtx, false) = Face.HorizontalAdvance for a face without variations *)
Definition horizontal_advance (upem : Z) (t : hmtx_tab) (gid : Z) : res Z :=
  if hmtx_is_empty t then Ok (sint16 (upem / 2)) else tab_advance t gid.

(* ------------------------------------------------------------------------------------------------ *)
(* glyf: one glyph record                                                                               *)

Record glyph_hdr := mkHdr { h_ncont : Z; h_xmin : Z; h_ymin : Z; h_xmax : Z; h_ymax : Z }.
Definition hdr_zero := mkHdr 0 0 0 0 0.

Definition flag_bit (f : Z) (b : Z) : bool := Z.testbit f b.
(* bit numbers: 0 on-curve, 1 x-short, 2 y-short, 3 repeat, 4 x same/positive, 5 y same/positive *)
Definition coord_len (f : Z) (short same : Z) : Z :=
  if flag_bit f short then 1 else if flag_bit f same then 0 else 2.

Fixpoint repeat_z (n : nat) (x : Z) : list Z := match n with O => [] | S k => x :: repeat_z k x end.

(* the flag loop of SimpleGlyph.parsePoints.  [need] = numPoints - i.  Returns the flags in REVERSE order
   accumulated in [acc], the unread rest of src and the coordinate byte counts. *)
Fixpoint read_flags (src : list Z) (need : Z) (acc : list Z) (lx ly : Z) : res (list Z * list Z * Z * Z) :=
  if need <=? 0 then Ok (acc, src, lx, ly) else
  match src with
  | [] => Err 3
  | flag :: src1 =>
      let llx := coord_len flag 1 4 in
      let lly := coord_len flag 2 5 in
      if flag_bit flag 3 then
        match src1 with
        | [] => Err 3
        | rc0 :: src2 =>
            (* if i+repeatCount+1 > numPoints { repeatCount = numPoints - i - 1 } *)
            let rc := if need <? rc0 + 1 then need - 1 else rc0 in
            read_flags src2 (need - 1 - rc) (repeat_z (Z.to_nat rc) flag ++ flag :: acc)
                       (lx + llx + rc * llx) (ly + lly + rc * lly)
        end
      else read_flags src1 (need - 1) (flag :: acc) (lx + llx) (ly + lly)
  end.

(* readContourPoint + the accumulation of parseGlyphContourPoints for one axis *)
Fixpoint read_coords (flags : list Z) (data : list Z) (short same : Z) (v : Z) : res (list Z) :=
  match flags with
  | [] => Ok []
  | f :: fs =>
      if flag_bit f short then
        match data with
        | [] => Panic 3
        | val :: d' =>
            let v' := sint16 (if flag_bit f same then v + val else v - val) in
            do r <- read_coords fs d' short same v'; Ok (v' :: r)
        end
      else if negb (flag_bit f same) then
        match data with
        | a :: b :: d' =>
            let v' := sint16 (v + sint16 (a * 256 + b)) in
            do r <- read_coords fs d' short same v'; Ok (v' :: r)
        | _ => Panic 3
        end
      else do r <- read_coords fs data short same v; Ok (v :: r)
  end.

Fixpoint zip3 (a b c : list Z) : list (Z * Z * Z) :=
  match a, b, c with
  | x :: a', y :: b', z :: c' => (x, y, z) :: zip3 a' b' c'
  | _, _, _ => []
  end.

Fixpoint read_u16s (n : nat) (src : list Z) : list Z :=
  match n, src with
  | S n', a :: b :: r => (a * 256 + b) :: read_u16s n' r
  | _, _ => []
  end.

Definition last_z (l : list Z) : Z := last l 0.

(* SimpleGlyph.parsePoints(src) -> list of (flag, x, y) *)
Definition parse_points (src : list Z) (end_pts : list Z) : res (list (Z * Z * Z)) :=
  match end_pts with
  | [] => Ok []
  | _ =>
      let num_points := last_z end_pts + 1 in
      do r <- read_flags src num_points [] 0 0;
      let '(racc, rest, lx, ly) := r in
      let flags := rev racc in
      if zlen rest <? lx + ly then Err 4 else
      let dataX := zfirstn lx rest in
      let dataY := zfirstn ly (zskipn lx rest) in
      do xs <- read_coords flags dataX 1 4 0;
      do ys <- read_coords flags dataY 2 5 0;
      Ok (zip3 flags xs ys)
  end.

(* tables.ParseSimpleGlyph(src, numberOfContours) *)
Definition parse_simple (src : list Z) (nc : Z) : res (list Z * list (Z * Z * Z)) :=
  let L := zlen src in
  if L <? nc * 2 then Err 5 else
  let end_pts := read_u16s (Z.to_nat nc) src in
  let n := nc * 2 in
  if L <? n + 2 then Err 6 else
  let ilen := u16_at n src in
  if L <? n + 2 + ilen then Err 7 else
  do pts <- parse_points (zskipn (n + 2 + ilen) src) end_pts;
  Ok (end_pts, pts).

Inductive glyph_data :=
| GNone                                                  (* loca[i] = loca[i+1]: zero Glyph, Data == nil *)
| GSimple (end_pts : list Z) (pts : list (Z * Z * Z))
| GComposite.                                            (* not decoded by this model *)

(* tables.ParseGlyph on the bytes glyf[loca[i]:loca[i+1]] (ParseGlyf skips empty records) *)
Definition parse_glyph (src : list Z) : res (glyph_hdr * glyph_data) :=
  match src with
  | [] => Ok (hdr_zero, GNone)
  | _ =>
    if zlen src <? 10 then Err 8 else
    let h := mkHdr (i16_at 0 src) (i16_at 2 src) (i16_at 4 src) (i16_at 6 src) (i16_at 8 src) in
    if 0 <=? h_ncont h then
      do r <- parse_simple (zskipn 10 src) (h_ncont h);
      Ok (h, GSimple (fst r) (snd r))
    else Ok (h, GComposite)
  end.

(* ------------------------------------------------------------------------------------------------ *)
(* contour points                                                                                      *)

Record cpoint := mkCP { cp_x : Z; cp_y : Z; cp_on : bool; cp_end : bool }.

Fixpoint mem_z (x : Z) (l : list Z) : bool :=
  match l with [] => false | y :: r => (x =? y) || mem_z x r end.

Fixpoint contour_points_from (i : Z) (end_pts : list Z) (pts : list (Z * Z * Z)) : list cpoint :=
  match pts with
  | [] => []
  | (f, x, y) :: r => mkCP x y (flag_bit f 0) (mem_z i end_pts) :: contour_points_from (i + 1) end_pts r
  end.

(* font.getContourPoints: end points that are not below len(Points) are skipped (they mark no point) *)
Definition get_contour_points (end_pts : list Z) (pts : list (Z * Z * Z)) : res (list cpoint) :=
  Ok (contour_points_from 0 end_pts pts).

Definition translate_x (tx : Z) (p : cpoint) : cpoint := mkCP (cp_x p + tx) (cp_y p) (cp_on p) (cp_end p).

(* ------------------------------------------------------------------------------------------------ *)
(* buildSegments                                                                                        *)

Definition pt := (Z * Z)%type.
Inductive seg := MoveTo (p : pt) | LineTo (p : pt) | QuadTo (c p : pt).

Definition dbl (x y : Z) : pt := (2 * x, 2 * y).
(* midPoint of two points given in font units, result in half units *)
Definition mid_u (p q : pt) : pt := (fst p + fst q, snd p + snd q).
Definition dbl_u (p : pt) : pt := (2 * fst p, 2 * snd p).

Record bstate := mkBS {
  fonV : bool; foffV : bool; loffV : bool;
  fon : pt;      (* firstOnCurve, half units (it may be an implied midpoint) *)
  foff : pt;     (* firstOffCurve, font units *)
  loff : pt      (* lastOffCurve, font units *)
}.
Definition bs_init := mkBS false false false (0, 0) (0, 0) (0, 0).

(* the closing block executed when point.isEndPoint; the three validity flags are cleared, the points are NOT *)
Definition bs_close (s : bstate) : bstate * list seg :=
  let out :=
    match foffV s, loffV s with
    | false, false => [LineTo (fon s)]
    | false, true => [QuadTo (dbl_u (loff s)) (fon s)]
    | true, false => [QuadTo (dbl_u (foff s)) (fon s)]
    | true, true => [QuadTo (dbl_u (loff s)) (mid_u (loff s) (foff s)); QuadTo (dbl_u (foff s)) (fon s)]
    end in
  (mkBS false false false (fon s) (foff s) (loff s), out).

(* one iteration of the loop body up to (not including) the isEndPoint block.
   The [continue] statements only fire when the point is not an end point, where the closing block is skipped anyway. *)
Definition bs_point (s : bstate) (c : cpoint) : bstate * list seg :=
  let p := (cp_x c, cp_y c) in
  if negb (fonV s) then
    if cp_on c then
      (mkBS true (foffV s) (loffV s) (dbl_u p) (foff s) (loff s), [MoveTo (dbl_u p)])
    else if negb (foffV s) then
      (mkBS (fonV s) true (loffV s) (fon s) p (loff s), [])
    else
      let m := mid_u (foff s) p in
      (mkBS true (foffV s) true m (foff s) p, [MoveTo m])
  else if negb (loffV s) then
    if negb (cp_on c) then
      (mkBS (fonV s) (foffV s) true (fon s) (foff s) p, [])
    else
      (s, [LineTo (dbl_u p)])
  else
    if negb (cp_on c) then
      (mkBS (fonV s) (foffV s) true (fon s) (foff s) p, [QuadTo (dbl_u (loff s)) (mid_u (loff s) p)])
    else
      (mkBS (fonV s) (foffV s) false (fon s) (foff s) (loff s), [QuadTo (dbl_u (loff s)) (dbl_u p)]).

Definition bs_step (s : bstate) (c : cpoint) : bstate * list seg :=
  let '(s1, o1) := bs_point s c in
  if cp_end c then let '(s2, o2) := bs_close s1 in (s2, o1 ++ o2) else (s1, o1).

Fixpoint bs_run (s : bstate) (pts : list cpoint) : bstate * list seg :=
  match pts with
  | [] => (s, [])
  | c :: r => let '(s1, o1) := bs_step s c in let '(s2, o2) := bs_run s1 r in (s2, o1 ++ o2)
  end.

Definition build_segments (pts : list cpoint) : list seg := snd (bs_run bs_init pts).

(* ------------------------------------------------------------------------------------------------ *)
(* extents                                                                                              *)

(* GlyphExtents: XBearing, YBearing, Width, Height *)
Definition extents := (Z * Z * Z * Z)%type.

(* font.extentsFromPoints on the true points (phantoms removed); used for variable faces *)
Fixpoint bbox_acc (pts : list cpoint) (minx miny maxx maxy : Z) : Z * Z * Z * Z :=
  match pts with
  | [] => (minx, miny, maxx, maxy)
  | p :: r => bbox_acc r (Z.min minx (cp_x p)) (Z.min miny (cp_y p)) (Z.max maxx (cp_x p)) (Z.max maxy (cp_y p))
  end.
Definition extents_from_points (pts : list cpoint) : extents :=
  match pts with
  | [] => (0, 0, 0, 0)
  | p0 :: _ =>
      let '(minx, miny, maxx, maxy) := bbox_acc pts (cp_x p0) (cp_y p0) (cp_x p0) (cp_y p0) in
      (minx, maxy, maxx - minx, miny - maxy)
  end.

(* font.getGlyphExtents: from the glyf header and the left side bearing; int16 subtraction wraps *)
Definition extents_from_header (h : glyph_hdr) (lsb : Z) : extents :=
  (lsb,
   Z.max (h_ymin h) (h_ymax h),
   sint16 (Z.max (h_xmin h) (h_xmax h) - Z.min (h_xmin h) (h_xmax h)),
   sint16 (Z.min (h_ymin h) (h_ymax h) - Z.max (h_ymin h) (h_ymax h))).

(* ------------------------------------------------------------------------------------------------ *)
(* the pipeline for one glyph of a face without variations                                              *)

(* Face.getPointsForGlyph for a simple glyph at depth 0, without the four phantom points:
   hDelta = float32(g.XMin - lsb) (int16 subtraction), every point is shifted by -hDelta *)
Definition glyph_points (h : glyph_hdr) (d : glyph_data) (lsb : Z) : res (list cpoint) :=
  match d with
  | GSimple end_pts pts =>
      do cps <- get_contour_points end_pts pts;
      let h_delta := sint16 (h_xmin h - lsb) in
      Ok (map (translate_x (- h_delta)) cps)
  | GNone => Ok []
  | GComposite => Err 9      (* outside the model *)
  end.

(* Face.glyphDataFromGlyf *)
Definition glyph_outline (src : list Z) (lsb : Z) : res (list seg) :=
  do g <- parse_glyph src;
  do pts <- glyph_points (fst g) (snd g) lsb;
  Ok (build_segments pts).

(* Face.getExtentsFromGlyf for a face without variations *)
Definition glyph_extents (src : list Z) (lsb : Z) : res extents :=
  do g <- parse_glyph src;
  Ok (extents_from_header (fst g) lsb).

(* what a variable face computes (getGlyfPoints + extentsFromPoints) when no delta applies *)
Definition glyph_extents_points (src : list Z) (lsb : Z) : res extents :=
  do g <- parse_glyph src;
  do pts <- glyph_points (fst g) (snd g) lsb;
  Ok (extents_from_points pts).
