(* Exact model of IEEE-754 binary32 ("float32") arithmetic as Go/amd64 performs it (SSE, round to nearest even, one
   rounding per operation, no fused multiply-add: GOAMD64=v1; the driver probes this at run time).

   Representation: a finite float32 x is the integer  x * 2^149.  Every finite binary32 value (normal or subnormal) is
   an integer multiple of 2^-149, so the representation is exact and total on finite values; +0 and -0 are both 0
   (the checks compare VALUES).  Infinities/NaN are not represented: [f32_finite] is checked on every result by the
   models that use this file.  No proofs in this file. *)
From Coq Require Import ZArith List.
Import ListNotations.
Open Scope Z_scope.

Definition f32_unit : Z := 149.
Definition f32_one : Z := Z.shiftl 1 149.

(* round the non-negative rational a / 2^sh to the nearest integer, ties to even *)
Definition rne (a sh : Z) : Z :=
  if sh <=? 0 then a else
  let q := Z.shiftr a sh in
  let r := a - Z.shiftl q sh in
  let h := Z.shiftl 1 (sh - 1) in
  if r <? h then q else if h <? r then q + 1 else if Z.even q then q else q + 1.

(* the binary32 nearest (ties to even) to the exact value n * 2^-(149+k), k >= 0.
   The quantum is 2^-149 (subnormals and everything below 2^-125) or 2^(e-23) for a value in [2^e, 2^(e+1)). *)
Definition f32_round_sh (n k : Z) : Z :=
  let a := Z.abs n in
  let sh := Z.max k (Z.log2 a - 23) in
  Z.sgn n * Z.shiftl (rne a sh) (sh - k).

Definition f32_add (x y : Z) : Z := f32_round_sh (x + y) 0.
Definition f32_sub (x y : Z) : Z := f32_round_sh (x - y) 0.
Definition f32_mul (x y : Z) : Z := f32_round_sh (x * y) 149.
Definition f32_half (x : Z) : Z := f32_round_sh x 1.                 (* x / 2 *)
Definition f32_neg (x : Z) : Z := - x.
(* float32(i) for an integer i (int16/int32/int) *)
Definition f32_of_int (i : Z) : Z := f32_round_sh (Z.shiftl i 149) 0.
(* float32(i) / (1 << s), 0 <= s <= 149 *)
Definition f32_of_int_div_pow2 (i s : Z) : Z := f32_round_sh (f32_of_int i) s.
(* largest finite binary32 is below 2^128 *)
Definition f32_finite (x : Z) : bool := Z.abs x <? Z.shiftl 1 (128 + 149).

(* decoding of the bit pattern math.Float32bits(v); None for Inf/NaN *)
Definition f32_of_bits (b : Z) : option Z :=
  let s := Z.shiftr b 31 in
  let e := Z.land (Z.shiftr b 23) 255 in
  let m := Z.land b 8388607 in
  if e =? 255 then None else
  let v := if e =? 0 then m else Z.shiftl (8388608 + m) (e - 1) in
  Some (if s =? 0 then v else - v).

(* value of a float32 that holds an integer, back in units (used to print / compare with integer models) *)
Definition f32_to_int (x : Z) : option Z :=
  if Z.land (Z.abs x) (f32_one - 1) =? 0 then Some (Z.sgn x * Z.shiftr (Z.abs x) 149) else None.
