(* Executable model of unicodedata/unicode.go (lookups, Hangul, Decompose/Compose, mirroring),
   of the standard library's unicode.Is that those lookups call, and of language.LookupScript,
   over the tables regenerated in Gen/ (no proofs here).
   Runes are Z; a model function states the int32 range it is meant for where Go arithmetic could wrap. *)
From TV Require Export Lib.GoNum Lib.Res.
From TV Require Export Gen.UnicodeTables Gen.ScriptTable.

Definition rtab := list (Z * Z * Z).
Definition e_lo (e : Z * Z * Z) : Z := fst (fst e).
Definition e_hi (e : Z * Z * Z) : Z := snd (fst e).
Definition e_stride (e : Z * Z * Z) : Z := snd e.

(* ---------------------------------------------------------------------------------------------- *)
(* generic loops *)

(* three-way bisection `for i < j { h := mid(i,j); switch probe(h) {Lt: j = h; Gt: i = h+1; Eq: return h} }`.
   probe h = Lt : the key is below entry h;  Gt : above;  Eq : inside. *)
Fixpoint bisect3 (fuel : nat) (mid : Z -> Z -> Z) (probe : Z -> comparison) (i j : Z) : res (option Z) :=
  match fuel with
  | O => OutOfFuel
  | S f =>
    if i <? j then
      let h := mid i j in
      match probe h with
      | Eq => Ok (Some h)
      | Lt => bisect3 f mid probe i h
      | Gt => bisect3 f mid probe (h + 1) j
      end
    else Ok None
  end.

Definition mid_half (i j : Z) : Z := i + (j - i) / 2.      (* h := i + (j-i)/2 *)
Definition mid_avg (i j : Z) : Z := (i + j) / 2.           (* int(uint(i+j) >> 1) on non-negative ints *)

(* sort.Search(n, pred): smallest index in [0,n] from which pred holds (for a monotone pred) *)
Fixpoint search2 (fuel : nat) (pred : Z -> bool) (i j : Z) : res Z :=
  match fuel with
  | O => OutOfFuel
  | S f =>
    if i <? j then
      let h := mid_avg i j in
      if pred h then search2 f pred i h else search2 f pred (h + 1) j
    else Ok i
  end.

(* ---------------------------------------------------------------------------------------------- *)
(* package unicode: Is, is16, is32 (Go 1.23 src/unicode/letter.go) *)

Definition linearMax : Z := 18.
Definition MaxLatin1 : Z := 255.

Definition stride_ok (e : Z * Z * Z) (r : Z) : bool :=
  (e_stride e =? 1) || ((r - e_lo e) mod e_stride e =? 0).

(* the linear loop of is16/is32: stops at the first entry with r < Lo *)
Fixpoint is_linear (t : rtab) (r : Z) : bool :=
  match t with
  | [] => false
  | e :: rest =>
    if r <? e_lo e then false
    else if r <=? e_hi e then stride_ok e r
    else is_linear rest r
  end.

Definition probe_range (t : rtab) (r : Z) (m : Z) : comparison :=
  let e := znth (0, 0, 1) t m in
  if (e_lo e <=? r) && (r <=? e_hi e) then Eq else if r <? e_lo e then Lt else Gt.

Definition is_binary (t : rtab) (r : Z) : res bool :=
  do m <- bisect3 (S (length t)) mid_avg (probe_range t r) 0 (zlen t);
  Ok (match m with Some m => stride_ok (znth (0, 0, 1) t m) r | None => false end).

Definition is16 (t : rtab) (r : Z) : res bool :=
  if (zlen t <=? linearMax) || (r <=? MaxLatin1) then Ok (is_linear t r) else is_binary t r.
Definition is32 (t : rtab) (r : Z) : res bool :=
  if zlen t <=? linearMax then Ok (is_linear t r) else is_binary t r.

(* The dump lists R16 entries then R32 entries; gotocoq refuses R32 entries below 0x10000, and R16
   entries are below by their type, so the split is recovered from the upper bound. *)
Definition r16_of (t : rtab) : rtab := filter (fun e => e_hi e <=? 65535) t.
Definition r32_of (t : rtab) : rtab := filter (fun e => 65535 <? e_hi e) t.
Definition split_tab (t : rtab) : rtab * rtab := (r16_of t, r32_of t).

(* unicode.Is on a split table; r is a rune (int32) *)
Definition unicode_is_split (t : rtab * rtab) (r : Z) : res bool :=
  let (r16, r32) := t in
  if (0 <? zlen r16) && (wrap32 r <=? e_hi (last r16 (0, 0, 1))) then is16 r16 (wrap16 r)
  else if (0 <? zlen r32) && (e_lo (hd (0, 0, 1) r32) <=? r) then is32 r32 (wrap32 r)
  else Ok false.
Definition unicode_is (t : rtab) (r : Z) : res bool := unicode_is_split (split_tab t) r.

(* ---------------------------------------------------------------------------------------------- *)
(* class lookups: `for _, class := range classes { if unicode.Is(class, ch) { return class } }` *)

Definition stab := (nat * (rtab * rtab))%type.
Definition split_order (o : list (nat * rtab)) : list stab := map (fun p => (fst p, split_tab (snd p))) o.

Fixpoint lookup_first (classes : list stab) (r : Z) : res (option nat) :=
  match classes with
  | [] => Ok None
  | (id, t) :: rest =>
    do b <- unicode_is_split t r;
    if b then Ok (Some id) else lookup_first rest r
  end.

(* the split tables, computed once *)
Definition categories_tabs : list stab := Eval vm_compute in split_order categories_order.
Definition combining_tabs : list stab := Eval vm_compute in split_order combiningClasses_order.
Definition lineBreaks_tabs : list stab := Eval vm_compute in split_order lineBreaks_order.
Definition graphemeBreaks_tabs : list stab := Eval vm_compute in split_order graphemeBreaks_order.
Definition wordBreaks_tabs : list stab := Eval vm_compute in split_order wordBreaks_order.
Definition gb_All_tab : rtab * rtab := Eval vm_compute in split_tab gb_All.
Definition wb_All_tab : rtab * rtab := Eval vm_compute in split_tab wb_All.

(* LookupType: index in categories_order (sorted by name) or None for nil.  Go scans the same tables
   in an arbitrary order; Proofs.classes_partition shows the order is irrelevant. *)
Definition lookup_type (r : Z) : res (option nat) := lookup_first categories_tabs r.

(* LookupCombiningClass: uint8(i) of the first non-nil table containing ch, else 0 *)
Definition lookup_combining_class (r : Z) : res Z :=
  do c <- lookup_first combining_tabs r;
  Ok (match c with Some i => Z.of_nat i | None => 0 end).

(* LookupLineBreakClass: defaults to BreakXX *)
Definition lookup_line_break (r : Z) : res nat :=
  do c <- lookup_first lineBreaks_tabs r;
  Ok (match c with Some i => i | None => lineBreaks_default end).

Definition lookup_grapheme_break (r : Z) : res (option nat) :=
  do b <- unicode_is_split gb_All_tab r;
  if negb b then Ok None else lookup_first graphemeBreaks_tabs r.

Definition lookup_word_break (r : Z) : res (option nat) :=
  do b <- unicode_is_split wb_All_tab r;
  if negb b then Ok None else lookup_first wordBreaks_tabs r.

(* ---------------------------------------------------------------------------------------------- *)
(* maps *)

Fixpoint assoc {V} (k : Z) (l : list (Z * V)) : option V :=
  match l with
  | [] => None
  | (k', v) :: rest => if k =? k' then Some v else assoc k rest
  end.
Fixpoint assoc2 {V} (k1 k2 : Z) (l : list ((Z * Z) * V)) : option V :=
  match l with
  | [] => None
  | ((a, b), v) :: rest => if (k1 =? a) && (k2 =? b) then Some v else assoc2 k1 k2 rest
  end.

(* LookupMirrorChar *)
Definition lookup_mirror (ch : Z) : Z * bool :=
  match assoc ch mirroring_pairs with Some m => (m, true) | None => (ch, false) end.

(* decomposeHangul; rune arithmetic is int32 *)
Definition decompose_hangul (ab : Z) : Z * Z * bool :=
  let si := sint32 (ab - HangulSBase) in
  if (si <? 0) || (si >=? HangulSCount) then (0, 0, false)
  else if negb (Z.rem si HangulTCount =? 0) then
    (HangulSBase + (Z.quot si HangulTCount) * HangulTCount, HangulTBase + Z.rem si HangulTCount, true)
  else (HangulLBase + Z.quot si HangulNCount, HangulVBase + Z.quot (Z.rem si HangulNCount) HangulTCount, true).

(* composeHangul; every arithmetic expression is evaluated under a guard that keeps it in int32 *)
Definition compose_hangul (a b : Z) : Z * bool :=
  if (a >=? HangulSBase) && (a <? HangulSBase + HangulSCount) && (b >? HangulTBase) && (b <? HangulTBase + HangulTCount)
     && (Z.rem (a - HangulSBase) HangulTCount =? 0) then (a + (b - HangulTBase), true)
  else if (a >=? HangulLBase) && (a <? HangulLBase + HangulLCount) && (b >=? HangulVBase) && (b <? HangulVBase + HangulVCount) then
    (HangulSBase + (a - HangulLBase) * HangulNCount + (b - HangulVBase) * HangulTCount, true)
  else (0, false).

Definition decompose (ab : Z) : Z * Z * bool :=
  match decompose_hangul ab with
  | (a, b, true) => (a, b, true)
  | _ =>
    match assoc ab decompose1_pairs with
    | Some m1 => (m1, 0, true)
    | None =>
      match assoc ab decompose2_pairs with
      | Some (x, y) => (x, y, true)
      | None => (ab, 0, false)
      end
    end
  end.

Definition compose (a b : Z) : Z * bool :=
  match compose_hangul a b with
  | (ab, true) => (ab, true)
  | _ => let u := match assoc2 a b compose_pairs with Some u => u | None => 0 end in (u, negb (u =? 0))
  end.

(* ---------------------------------------------------------------------------------------------- *)
(* language.LookupScript *)

Definition probe_script (t : list (Z * Z * Z)) (r : Z) (h : Z) : comparison :=
  let e := znth (0, 0, 0) t h in
  if r <? e_lo e then Lt else if e_hi e <? r then Gt else Eq.

Definition lookup_script_in (t : list (Z * Z * Z)) (r : Z) : res Z :=
  do m <- bisect3 (S (length t)) mid_half (probe_script t r) 0 (zlen t);
  Ok (match m with Some h => snd (znth (0, 0, 0) t h) | None => script_Unknown end).
Definition lookup_script (r : Z) : res Z := lookup_script_in ScriptRanges r.
