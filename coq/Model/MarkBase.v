(* Executable model of GPOS mark-to-base attachment (harfbuzz/ot_layout_gpos.go: applyGPOSMarkToBase, applyGPOSMarks)
   under the in-place lookup loop (ot_layout.go applyForward), over the zipper (done, todo) = (Info[:idx], Info[idx:]).
   The base search is modelled as what it computes — the nearest preceding glyph that the iterator matches (lookup props
   forced to IgnoreMarks) and that is accepted or covered; the code reaches the same glyph through the cache
   lastBase / lastBaseUntil, which is tied by the correspondence check.  Anchors are format 1 with scale = upem.
   No proofs here. *)
From TV Require Export Model.EngineItem.

Record mbparams := mkMB {
  mb_flag : Z;                                   (* lookup flag *)
  mb_mask : Z;                                   (* lookup mask >> 3 *)
  mb_marks : list (Z * Z * Z * Z);               (* mark glyph, class, anchor x, y; first entry of a glyph wins *)
  mb_bases : list (Z * list (bool * Z * Z))      (* base glyph, per class: anchor present, x, y *)
}.

Definition mb_mark (P : mbparams) (g : Z) : option (Z * Z * Z) :=
  match find (fun e => fst (fst (fst e)) =? g) (mb_marks P) with
  | Some e => Some (snd (fst (fst e)), snd (fst e), snd e)
  | None => None
  end.
Definition mb_base (P : mbparams) (g : Z) : option (list (bool * Z * Z)) :=
  match find (fun e => fst e =? g) (mb_bases P) with Some e => Some (snd e) | None => None end.
(* AnchorMatrix.Anchor(index, class) *)
Definition mb_anchor (a : list (bool * Z * Z)) (class : Z) : option (Z * Z) :=
  if class <? 0 then None
  else match nth_error a (Z.to_nat class) with
       | Some (true, x, y) => Some (x, y)
       | _ => None
       end.

(* "we only want to attach to the first of a MultipleSubst sequence": y the candidate, r what precedes it (nearest first) *)
Definition mb_accept (y : item) (r : list item) : bool :=
  negb (is_multiplied y) || (lig_comp y =? 0)
  || match r with
     | [] => true
     | z :: _ => is_gmark z || negb (lig_id y =? lig_id z) || negb (lig_comp y =? lig_comp z + 1)
     end.

(* backward search over the reversed `done`: distance of the base from the cursor (0 = the glyph just before it) *)
Fixpoint mb_search (P : mbparams) (rd : list item) : option nat :=
  match rd with
  | [] => None
  | y :: r =>
    let ok := match match_plain 8 (mb_mask P) true true y with
              | MMatch => mb_accept y r || (match mb_base P (igid y) with Some _ => true | None => false end)
              | _ => false
              end in
    if ok then Some O else option_map S (mb_search P r)
  end.

Definition mb_attach (x : item) (dx dy chain : Z) : item :=
  let p := ip x in with_p x (mkP (xa p) (ya p) dx dy chain 1).

(* one iteration of applyForward at glyph x with Info[:idx] = d; concat = ProduceUnsafeToConcat;
   result: the new Info[:idx+1] and whether a flag write was recorded.  The glyphs after x are neither read nor written. *)
Definition mb_at (P : mbparams) (concat : bool) (d : list item) (x : item) : list item * bool :=
  let skip := (d ++ [x], false) in
  if negb (has_mask (mb_mask P) x && check_prop (mb_flag P) x) then skip
  else match mb_mark P (igid x) with
  | None => skip
  | Some (class, mx, my) =>
    (* unsafeToConcatFromOutbuffer(s, idx+1): every glyph of [s, idx] *)
    let concat_from (n : nat) := if concat then (firstn n d ++ map (flag_item m_concat) (skipn n d ++ [x]), true) else skip in
    match mb_search P (rev d) with
    | None => concat_from O
    | Some dist =>
      let b := (length d - 1 - dist)%nat in
      match mb_base P (igid (nth b d i0)) with
      | None => concat_from b
      | Some anchors =>
        match mb_anchor anchors class with
        | None => skip
        | Some (bx, byy) =>
          let w := flag_window (skipn b d ++ [mb_attach x (bx - mx) (byy - my) (Z.of_nat b - Z.of_nat (length d))]) in
          (firstn b d ++ w, true)
        end
      end
    end
  end.

Definition mb_step (P : mbparams) (concat : bool) (d t : list item) : list item * list item * bool :=
  match t with
  | [] => (d, [], false)
  | x :: rest => let '(d', r) := mb_at P concat d x in (d', rest, r)
  end.

(* the lookup loop; rec = bsfHasGlyphFlags *)
Fixpoint mb_loop (P : mbparams) (concat : bool) (fuel : nat) (d t : list item) (rec : bool) : list item * bool :=
  match fuel with
  | O => (d ++ t, rec)
  | S f => match t with
           | [] => (d, rec)
           | _ => let '(d', t', r) := mb_step P concat d t in mb_loop P concat f d' t' (rec || r)
           end
  end.

(* applyString: nothing happens when the lookup mask is 0 (or the buffer is empty) *)
Definition mb_lookup (concat : bool) (st : list item * bool) (P : mbparams) : list item * bool :=
  let '(l, rec) := st in
  if mb_mask P =? 0 then st else mb_loop P concat (length l) [] l rec.

Definition mb_run (concat : bool) (Ps : list mbparams) (l : list item) (rec : bool) : list item * bool :=
  fold_left (mb_lookup concat) Ps (l, rec).

(* the pass of the cut theorem (ProduceUnsafeToConcat off), no context *)
Definition mb_pass (P : mbparams) : @pass item unit :=
  mkPass (fun _ _ d t => let '(d', t', _) := mb_step P false d t in (d', t')) (fun _ => tt) (fun _ => tt).
