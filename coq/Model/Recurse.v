(* Model of the recursion skeleton of the OpenType layout engine (harfbuzz/ot_layout_gsubgpos.go, after the F1 fix):
     otApplyContext.recurse  -> recurseFunc (apply one lookup) -> applyLookup's loop over SequenceLookupRecords -> recurse ...
   The lookup body is a Section variable: from (nestingLevelLeft, lookup index, maxOps) to the lookup indices of the
   records it recurses into; it may therefore re-enter recurse arbitrarily.  nestingLevelLeft and maxOps are Go ints (Z);
   the recursion is on explicit fuel. *)
From TV Require Export Lib.GoNum Lib.Res.

Definition max_nesting_level : Z := 6.       (* ot_layout.go: const maxNestingLevel = 6 *)
Definition max_ops_factor : Z := 1024.       (* ot_shaper.go *)
Definition max_ops_min : Z := 16384.
Definition max_len_factor : Z := 64.
Definition max_len_min : Z := 16384.

Record rstate := mkR {
  nest : Z;        (* c.nestingLevelLeft *)
  ops : Z;         (* c.buffer.maxOps *)
  entries : Z;     (* ghost: number of times recurseFunc was entered *)
  depth : Z;       (* ghost: current nesting of recurseFunc *)
  maxdepth : Z     (* ghost: deepest nesting seen *)
}.

Section Rec.
  Variable body : Z -> Z -> Z -> list Z.

  (* the loop of applyLookup over the lookup records: `if buffer.maxOps <= 0 { break }; c.recurse(lk.LookupListIndex)` *)
  Fixpoint apply_records (rec : rstate -> Z -> res (rstate * bool)) (recs : list Z) (st : rstate) : res rstate :=
    match recs with
    | [] => Ok st
    | lk :: r =>
      if ops st <=? 0 then Ok st
      else do x <- rec st lk; apply_records rec r (fst x)
    end.

  (* func (c otApplyContext ptr) recurse(subLookupIndex uint16) bool   (recurseFunc != nil) *)
  Fixpoint recurse (fuel : nat) (st : rstate) (sub : Z) : res (rstate * bool) :=
    match fuel with
    | O => OutOfFuel
    | S f =>
      if nest st =? 0 then Ok (st, false)
      else if ops st <=? 0 then Ok (mkR (nest st) (ops st - 1) (entries st) (depth st) (maxdepth st), false)
      else
        let st1 := mkR (nest st - 1) (ops st - 1) (entries st + 1) (depth st + 1) (Z.max (maxdepth st) (depth st + 1)) in
        do st2 <- apply_records (recurse f) (body (nest st1) sub (ops st1)) st1;
        Ok (mkR (nest st2 + 1) (ops st2) (entries st2) (depth st2 - 1) (maxdepth st2), true)
    end.
End Rec.

(* shapeOpenTypeInternal: the budgets of one Shape call on a buffer of n glyphs *)
Definition max_ops_for (n : Z) : Z := Z.max (n * max_ops_factor) max_ops_min.
Definition max_len_for (n : Z) : Z := Z.max (n * max_len_factor) max_len_min.
