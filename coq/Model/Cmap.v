(* Hand-written model of font/cmap.go: newCmap4, sanitizeCmap4, sanitizeCmapGroups, cmap4 / cmap12 / cmap13 / cmap6or10
   Lookup, their iterators run to completion (Next/Char until Next is false), RuneRanges, remaperSymbol / remaperPUA*
   Lookup and the remaperIter enumeration.  (Format 0, format 14, newCmap6/10 and ProcessCmap are in Model/CmapSel.v.)
   uint16 / uint32 arithmetic wraps explicitly; rune(x) conversions are sint32.  No proofs here.
   The model follows the code after the `fix:` commits (cmap4Iter adds idDelta modulo 65536 and skips glyph-array
   entries 0, as RuneRanges does; newCmap4 rejects end < start, more than 2^16 resolved indexes and a negative index
   start; ProcessCmap sanitizes format 4 segments; cmap6or10.Lookup computes the index in 64 bits; the remapers have
   their own Iter). *)
From TV Require Export Lib.Bytes Lib.Res Model.RuneSet.

(* ---------------------------------- format 4 ---------------------------------- *)
Record seg4 := mkSeg4 { s4_start : Z; s4_end : Z; s4_delta : Z; s4_idx : option (list Z) }.
Definition cmap4 := list seg4.
Definition dseg4 := mkSeg4 0 0 0 None.

(* newCmap4 on the raw arrays (all four of length segCount, as the parser guarantees) *)
Fixpoint read_indexes (ga : list Z) (index : Z) (n : nat) : res (list Z) :=
  match n with
  | O => Ok []
  | S n' =>
      if (index <? 0) || (zlen ga <? 2 * index + 2) then Panic 2
      else do r <- read_indexes ga (index + 1) n'; Ok (get16 (zskipn (2 * index) ga) :: r)
  end.
(* `resolved` = running total of resolved glyph indexes: the (repaired) code rejects a segment with end < start, a table
   resolving more than 2^16 indexes, and an idRangeOffset pointing before the glyph id array *)
Definition new_seg4 (segCount i resolved : Z) (q : Z * Z * Z * Z) (ga : list Z) : res (seg4 * Z) :=
  let '(end_, start, delta, iro) := q in
  if negb (start =? 65535) && negb (iro =? 0) then
    if end_ <? start then Err 1
    else
      let n := end_ - start + 1 in
      let resolved' := resolved + n in
      if 65536 <? resolved' then Err 1
      else
        let indexStart := iro / 2 + i - segCount in
        if (indexStart <? 0) || (zlen ga <? 2 * (indexStart + n)) then Err 1
        else do ix <- read_indexes ga indexStart (Z.to_nat n); Ok (mkSeg4 start end_ delta (Some ix), resolved')
  else Ok (mkSeg4 start end_ delta None, resolved).
Fixpoint new_cmap4_from (segCount i resolved : Z) (qs : list (Z * Z * Z * Z)) (ga : list Z) : res cmap4 :=
  match qs with
  | [] => Ok []
  | q :: r => do er <- new_seg4 segCount i resolved q ga;
              do t <- new_cmap4_from segCount (i + 1) (snd er) r ga; Ok (fst er :: t)
  end.
Definition new_cmap4 (qs : list (Z * Z * Z * Z)) (ga : list Z) : res cmap4 := new_cmap4_from (zlen qs) 0 0 qs ga.

Fixpoint lookup4_loop (fuel : nat) (s : cmap4) (c i j : Z) : res (Z * bool) :=
  if i <? j then
    match fuel with
    | O => OutOfFuel
    | S f =>
        let h := i + (j - i) / 2 in
        let e := znth dseg4 s h in
        if c <? s4_start e then lookup4_loop f s c i h
        else if s4_end e <? c then lookup4_loop f s c (h + 1) j
        else match s4_idx e with
             | None => Ok (wrap16 (c + s4_delta e), true)
             | Some ix =>
                 let k := wrap16 (c - s4_start e) in
                 if zlen ix <=? k then Panic 1
                 else let g := znth 0 ix k in
                      if g =? 0 then Ok (0, false) else Ok (wrap16 (g + s4_delta e), true)
             end
    end
  else Ok (0, false).
Definition lookup4 (s : cmap4) (r : Z) : res (Z * bool) :=
  if 65535 <? wrap32 r then Ok (0, false) else lookup4_loop (S (length s)) s (wrap32 r) 0 (zlen s).

(* the pairs cmap4Iter yields for one segment.  After the `fix:` commit "cmap format 4 Iter and RuneRanges leave out the
   missing-glyph entries", Next skips the glyph index array entries equal to 0 (it indexes entry.indexes[pos2], which
   panics on an empty non-nil array). *)
Definition iter4_seg (e : seg4) : res (list (Z * Z)) :=
  match s4_idx e with
  | None =>
      let n := wrap16 (s4_end e - s4_start e) in
      Ok (map (fun p => (p + s4_start e, wrap16 (wrap16 p + s4_start e + s4_delta e))) (zrange 0 (Z.to_nat (n + 1))))
  | Some ix =>
      if zlen ix =? 0 then Panic 1
      else Ok (flat_map (fun p => let g := znth 0 ix p in
                                  if g =? 0 then [] else [(p + s4_start e, wrap16 (g + s4_delta e))])
                        (zrange 0 (length ix)))
  end.
Fixpoint iter4 (s : cmap4) : res (list (Z * Z)) :=
  match s with
  | [] => Ok []
  | e :: r => do a <- iter4_seg e; do b <- iter4 r; Ok (a ++ b)
  end.

(* RuneRanges of cmap4 and cmap12: append, or grow the previous range when its end equals the new start.
   The accumulator is kept reversed (head = last element of dst). *)
Definition rr_step (acc : list (Z * Z)) (se : Z * Z) : list (Z * Z) :=
  match acc with
  | (a, b) :: t => if b =? fst se then (a, snd se) :: t else se :: acc
  | [] => [se]
  end.
Definition rune_ranges (l : list (Z * Z)) : list (Z * Z) := rev (fold_left rr_step l []).
(* the maximal runs of non-zero entries of a glyph index array whose first entry is at rune `pos`;
   `run` = start of the run in progress *)
Fixpoint nz_runs (pos : Z) (ix : list Z) (run : option Z) : list (Z * Z) :=
  let close := match run with Some a => [(a, pos - 1)] | None => [] end in
  match ix with
  | [] => close
  | g :: r => if g =? 0 then close ++ nz_runs (pos + 1) r None
              else nz_runs (pos + 1) r (match run with Some a => Some a | None => Some pos end)
  end.
Definition seg4_ranges (e : seg4) : list (Z * Z) :=
  match s4_idx e with
  | None => [(s4_start e, s4_end e)]
  | Some ix => nz_runs (s4_start e) ix None
  end.
Definition rune_ranges4 (s : cmap4) : list (Z * Z) := rune_ranges (flat_map seg4_ranges s).

(* sanitizeCmap4 (ProcessCmap): drop the segments that are empty or not after the previous kept one *)
Fixpoint sanitize4_from (last : option Z) (s : cmap4) : cmap4 :=
  match s with
  | [] => []
  | e :: r =>
      if (s4_end e <? s4_start e) || (match last with Some l => s4_start e <=? l | None => false end)
      then sanitize4_from last r
      else e :: sanitize4_from (Some (s4_end e)) r
  end.
Definition sanitize4 (s : cmap4) : cmap4 := sanitize4_from None s.

(* ---------------------------------- formats 12 and 13 ---------------------------------- *)
Record grp := mkGrp { g_start : Z; g_end : Z; g_gid : Z }.   (* uint32 each *)
Definition dgrp := mkGrp 0 0 0.

Fixpoint lookup12_loop (fuel : nat) (is13 : bool) (s : list grp) (c i j : Z) : res (Z * bool) :=
  if i <? j then
    match fuel with
    | O => OutOfFuel
    | S f =>
        let h := i + (j - i) / 2 in
        let e := znth dgrp s h in
        if c <? g_start e then lookup12_loop f is13 s c i h
        else if g_end e <? c then lookup12_loop f is13 s c (h + 1) j
        else Ok (if is13 then g_gid e else wrap32 (c - g_start e + g_gid e), true)
    end
  else Ok (0, false).
(* sanitizeCmapGroups (newCmap12, newCmap13): drop the groups with end < start, start > unicode.MaxRune or not after the
   previous kept group; clamp the end to unicode.MaxRune *)
Definition max_rune : Z := 1114111.
Fixpoint sanitize12_from (last : option Z) (s : list grp) : list grp :=
  match s with
  | [] => []
  | e :: r =>
      if (g_end e <? g_start e) || (max_rune <? g_start e)
         || (match last with Some l => g_start e <=? l | None => false end)
      then sanitize12_from last r
      else let e' := mkGrp (g_start e) (if max_rune <? g_end e then max_rune else g_end e) (g_gid e) in
           e' :: sanitize12_from (Some (g_end e')) r
  end.
Definition sanitize12 (s : list grp) : list grp := sanitize12_from None s.

Definition lookup12 (s : list grp) (r : Z) : res (Z * bool) := lookup12_loop (S (length s)) false s (wrap32 r) 0 (zlen s).
Definition lookup13 (s : list grp) (r : Z) : res (Z * bool) := lookup12_loop (S (length s)) true s (wrap32 r) 0 (zlen s).

Definition iter12_seg (is13 : bool) (e : grp) : list (Z * Z) :=
  let n := wrap32 (g_end e - g_start e) in
  map (fun p => (sint32 (p + g_start e), if is13 then g_gid e else wrap32 (p + g_gid e))) (zrange 0 (Z.to_nat (n + 1))).
Definition iter12 (s : list grp) : list (Z * Z) := flat_map (iter12_seg false) s.
Definition iter13 (s : list grp) : list (Z * Z) := flat_map (iter12_seg true) s.
Definition rune_ranges12 (s : list grp) : list (Z * Z) :=
  rune_ranges (map (fun e => (sint32 (g_start e), sint32 (g_end e))) s).

(* ---------------------------------- formats 6 and 10 ---------------------------------- *)
Record cmap6 := mkCmap6 { c6_first : Z; c6_entries : list Z }.    (* firstCode is a rune (int32) *)
(* c := int(r) - int(s.firstCode): 64-bit, no wrap (the `fix:` commit for start codes above 0x7FFFFFFF) *)
Definition lookup6 (s : cmap6) (r : Z) : res (Z * bool) :=
  if r <? c6_first s then Ok (0, false)
  else let c := r - c6_first s in
       if (c <? 0) || (zlen (c6_entries s) <=? c) then Ok (0, false)
       else Ok (znth 0 (c6_entries s) c, true).
Definition iter6 (s : cmap6) : list (Z * Z) :=
  map (fun p => (sint32 (p + c6_first s), znth 0 (c6_entries s) p)) (zrange 0 (length (c6_entries s))).
Definition rune_ranges6 (s : cmap6) : list (Z * Z) :=
  [(c6_first s, sint32 (c6_first s + sint32 (zlen (c6_entries s)) - 1))].

(* ---------------------------------- symbol remapper ---------------------------------- *)
(* remaperSymbol.Lookup calls itself on 0xF000 + r while r <= 0xFF and the wrapped cmap misses; for a rune r >= 0
   that is at most one more step, for negative int32 values up to (255 - r) / 0xF000 + 1 steps *)
Fixpoint remap_symbol_fuel (fuel : nat) (inner : Z -> res (Z * bool)) (r : Z) : res (Z * bool) :=
  do a <- inner r;
  if snd a then Ok a
  else if r <=? 255 then
         match fuel with
         | O => OutOfFuel
         | S f => remap_symbol_fuel f inner (61440 + r)
         end
       else Ok (0, false).
Definition remap_symbol (inner : Z -> res (Z * bool)) (r : Z) : res (Z * bool) :=
  remap_symbol_fuel (Z.to_nat (Z.max 0 ((255 - r) / 61440) + 2)) inner r.

(* ---------------------------------- remaper iterators ---------------------------------- *)
(* remaperIter (after the `fix:` commit "the legacy cmap remapers enumerate the runes they remap"): the pairs of the
   wrapped cmap, then for r = 0 .. last the runes the wrapped cmap does not map but the remaper does *)
Fixpoint remap_extra (wrapped remaper : Z -> res (Z * bool)) (rs : list Z) : res (list (Z * Z)) :=
  match rs with
  | [] => Ok []
  | r :: t =>
      do a <- wrapped r;
      if snd a then remap_extra wrapped remaper t
      else do b <- remaper r;
           do rest <- remap_extra wrapped remaper t;
           Ok (if snd b then (r, fst b) :: rest else rest)
  end.
Definition remap_iter (inner : list (Z * Z)) (wrapped remaper : Z -> res (Z * bool)) (last : Z) : res (list (Z * Z)) :=
  do x <- remap_extra wrapped remaper (zrange 0 (Z.to_nat (last + 1))); Ok (inner ++ x).

(* remaperPUASimp / remaperPUATrad .Lookup with the table function `pua` (0 = not remapped); the recursion
   rs.Lookup(mapped) is bounded by fuel *)
Fixpoint remap_pua_fuel (fuel : nat) (pua : Z -> Z) (inner : Z -> res (Z * bool)) (r : Z) : res (Z * bool) :=
  do a <- inner r;
  if snd a then Ok a
  else let m := pua r in
       if m =? 0 then Ok (0, false)
       else match fuel with
            | O => OutOfFuel
            | S f => remap_pua_fuel f pua inner m
            end.
