(* Hand-written model of font/opentype/tables/glyphs_glyf_src.go: ParseLoca (short / long format) and the
   slicing of the glyf table by the loca offsets in ParseGlyf (after the repair that checks the order and the
   upper bound of the offsets; the code before the repair is kept as parse_glyf_unfixed for the finding).
   The per-glyph parser ParseGlyph (generated code) is a parameter of the model.  No proofs here. *)
From TV Require Export Lib.Bytes Lib.Res.

Definition e_loca := 1%nat.
Definition e_glyf := 2%nat.
Definition e_glyph := 3%nat.
Definition e_unmodelled_glyph := 99%nat.
Definition p_slice := 1%nat.
Definition p_make := 2%nat.

(* Go's s[a:b] (cap = len for the slices passed here): panics unless 0 <= a <= b <= len s *)
Definition slice_checked {A} (l : list A) (a b : Z) : res (list A) :=
  if (0 <=? a) && (a <=? b) && (b <=? zlen l) then Ok (zfirstn (b - a) (zskipn a l)) else Panic p_slice.
Definition u16_at (l : list Z) (i : Z) : res Z :=
  if (0 <=? i) && (i + 2 <=? zlen l) then Ok (get16 (zskipn i l)) else Panic p_slice.
Definition u32_at (l : list Z) (i : Z) : res Z :=
  if (0 <=? i) && (i + 4 <=? zlen l) then Ok (get32 (zskipn i l)) else Panic p_slice.

Fixpoint loca_long (src : list Z) (i : Z) (n : nat) : res (list Z) :=
  match n with
  | O => Ok []
  | S n' => do x <- u32_at src (4 * i); do r <- loca_long src (i + 1) n'; Ok (x :: r)
  end.
Fixpoint loca_short (src : list Z) (i : Z) (n : nat) : res (list Z) :=
  match n with
  | O => Ok []
  | S n' => do x <- u16_at src (2 * i); do r <- loca_short src (i + 1) n'; Ok (wrap32 (2 * x) :: r)
  end.

(* ParseLoca(src, numGlyphs, isLong); make([]uint32, numGlyphs+1) panics for a negative length *)
Definition parse_loca (src : list Z) (num_glyphs : Z) (is_long : bool) : res (list Z) :=
  let size := if is_long then (num_glyphs + 1) * 4 else (num_glyphs + 1) * 2 in
  if zlen src <? size then Err e_loca
  else if num_glyphs + 1 <? 0 then Panic p_make
  else if is_long then loca_long src 0 (Z.to_nat (num_glyphs + 1))
  else loca_short src 0 (Z.to_nat (num_glyphs + 1)).

Section Glyf.
  Context {G : Type}.
  Variable parse_glyph : list Z -> res G.     (* tables.ParseGlyph on the slice *)

  (* the loop of ParseGlyf over consecutive pairs of offsets; None = glyph without outline *)
  Fixpoint glyf_loop (src : list Z) (start : Z) (rest : list Z) : res (list (option G)) :=
    match rest with
    | [] => Ok []
    | e :: rest' =>
        if start =? e then do r <- glyf_loop src e rest'; Ok (None :: r)
        else if (e <? start) || (zlen src <? e) then Err e_glyf
        else
          do s <- slice_checked src start e;
          do g <- parse_glyph s;
          do r <- glyf_loop src e rest';
          Ok (Some g :: r)
    end.

  Definition parse_glyf (src : list Z) (loca : list Z) : res (list (option G)) :=
    match loca with
    | [] => Err e_glyf
    | s :: rest => glyf_loop src s rest
    end.

  (* before the repair: no test of the offsets, make(Glyf, len(loca)-1) *)
  Fixpoint glyf_loop_unfixed (src : list Z) (start : Z) (rest : list Z) : res (list (option G)) :=
    match rest with
    | [] => Ok []
    | e :: rest' =>
        if start =? e then do r <- glyf_loop_unfixed src e rest'; Ok (None :: r)
        else
          do s <- slice_checked src start e;
          do g <- parse_glyph s;
          do r <- glyf_loop_unfixed src e rest';
          Ok (Some g :: r)
    end.
  Definition parse_glyf_unfixed (src : list Z) (loca : list Z) : res (list (option G)) :=
    match loca with
    | [] => Panic p_make
    | s :: rest => glyf_loop_unfixed src s rest
    end.

  (* NewFont: loca from ParseLoca, glyf only when that succeeded *)
  Definition load_glyf (glyf_src loca_src : list Z) (num_glyphs : Z) (is_long : bool) : res (list (option G)) :=
    do loca <- parse_loca loca_src num_glyphs is_long;
    parse_glyf glyf_src loca.
End Glyf.

(* executable stand-in for ParseGlyph used by the correspondence check: exact for glyphs with
   numberOfContours = 0 (header, empty end-point array, instruction array), "unmodelled" otherwise *)
Record glyph_hdr := mkGlyphHdr { g_contours : Z; g_xmin : Z; g_ymin : Z; g_xmax : Z; g_ymax : Z }.
Definition parse_glyph_mini (b : list Z) : res glyph_hdr :=
  if zlen b <? 10 then Err e_glyph
  else
    let nc := sint16 (get16 b) in
    let h := mkGlyphHdr nc (sint16 (get16 (skipn 2 b))) (sint16 (get16 (skipn 4 b)))
                        (sint16 (get16 (skipn 6 b))) (sint16 (get16 (skipn 8 b))) in
    if nc =? 0 then
      if zlen b <? 12 then Err e_glyph
      else if zlen b <? 12 + get16 (skipn 10 b) then Err e_glyph
      else Ok h
    else Err e_unmodelled_glyph.
