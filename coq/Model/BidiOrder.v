(* Model of the visual ordering of the runs of a wrapped line:
   shaping/wrapping.go  swapVisualOrder, computeBidiOrdering, postProcessLine
   (+ di/direction.go Progression / IsVertical, shaping/output.go RecomputeAdvance as used there).
   Go int = Z (a line has fewer than 2^31 runs, so int32(basePosition) does not wrap).
   A run is the projection of shaping.Output to the fields these functions read or write. *)
From TV Require Export Lib.GoNum.

(* ---- di.Direction (uint8 bit set) ---------------------------------------------------------- *)
(* bit 0 = progression (set: TowardTopLeft), bit 1 = axisVertical *)
Definition toward (d : Z) : bool := Z.testbit d 0.        (* d.Progression() == TowardTopLeft *)
Definition is_vertical (d : Z) : bool := Z.testbit d 1.   (* d.IsVertical() *)

Record glyph := mkGlyph { g_width : Z; g_height : Z; g_xadv : Z; g_yadv : Z }.

Record run := mkRun {
  r_dir : Z;            (* Output.Direction *)
  r_vis : Z;            (* Output.VisualIndex *)
  r_adv : Z;            (* Output.Advance *)
  r_off : Z;            (* Output.Runes.Offset *)
  r_cnt : Z;            (* Output.Runes.Count *)
  r_glyphs : list glyph (* Output.Glyphs (Width, Height, XAdvance, YAdvance) *)
}.

(* l[i] = x for 0 <= i < len l *)
Definition set_nth {A} (l : list A) (i : Z) (x : A) : list A := zfirstn i l ++ x :: zskipn (i + 1) l.

(* ---- swapVisualOrder on the VisualIndex fields of a subline -------------------------------- *)
(*  L := len(subline); for i := range subline[0:L/2] { j := L-i-1; swap(subline[i].VisualIndex, subline[j].VisualIndex) } *)
Fixpoint swap_loop (cnt : nat) (i L : Z) (v : list Z) : list Z :=
  match cnt with
  | O => v
  | S c =>
    let j := L - i - 1 in
    let vi := znth 0 v i in
    let vj := znth 0 v j in
    swap_loop c (i + 1) L (set_nth (set_nth v i vj) j vi)
  end.
Definition swap_visual_order (v : list Z) : list Z :=
  let L := zlen v in swap_loop (Z.to_nat (L / 2)) 0 L v.

(* swapVisualOrder(finalLine[a:b]) seen on the whole line *)
Definition swap_range (v : list Z) (a b : Z) : list Z :=
  zfirstn a v ++ swap_visual_order (zfirstn (b - a) (zskipn a v)) ++ zskipn b v.

(* ---- computeBidiOrdering ------------------------------------------------------------------- *)
(* state: the VisualIndex fields v of the whole line (stale values beyond idx), bidiStart *)
Fixpoint cbo_loop (pdir n idx : Z) (dirs : list Z) (v : list Z) (bidiStart : Z) : list Z * Z :=
  match dirs with
  | [] => (v, bidiStart)
  | d :: rest =>
    let base := if toward pdir then n - 1 - idx else idx in
    let v1 := set_nth v idx base in
    if Bool.eqb (toward d) (toward pdir) then
      if negb (bidiStart =? -1)
      then cbo_loop pdir n (idx + 1) rest (swap_range v1 bidiStart idx) (-1)
      else cbo_loop pdir n (idx + 1) rest v1 bidiStart
    else if bidiStart =? -1
      then cbo_loop pdir n (idx + 1) rest v1 idx
      else cbo_loop pdir n (idx + 1) rest v1 bidiStart
  end.

(* dirs = Direction of each run, v = VisualIndex of each run before the call; same length *)
Definition cbo (pdir : Z) (dirs v : list Z) : list Z :=
  let n := zlen dirs in
  let '(v', bs) := cbo_loop pdir n 0 dirs v (-1) in
  if negb (bs =? -1) then swap_range v' bs n else v'.

Definition set_vis (r : run) (x : Z) : run := mkRun (r_dir r) x (r_adv r) (r_off r) (r_cnt r) (r_glyphs r).
Fixpoint set_vis_all (rs : list run) (v : list Z) : list run :=
  match rs, v with
  | r :: rs', x :: v' => set_vis r x :: set_vis_all rs' v'
  | _, _ => rs
  end.
Definition compute_bidi_ordering (pdir : Z) (line : list run) : list run :=
  set_vis_all line (cbo pdir (map r_dir line) (map r_vis line)).

(* ---- the trimming part of postProcessLine -------------------------------------------------- *)
(* for logicalIdx, run := range finalLine { if run.VisualIndex == goalIdx { goalIdx = logicalIdx; break } } *)
Fixpoint find_vis (goal idx : Z) (line : list run) : option Z :=
  match line with
  | [] => None
  | r :: rest => if r_vis r =? goal then Some idx else find_vis goal (idx + 1) rest
  end.
Definition trim_target (pdir : Z) (line : list run) : Z :=
  let goal := if toward pdir then 0 else zlen line - 1 in
  match find_vis goal 0 line with Some i => i | None => goal end.

Definition sum_adv (vertical : bool) (gs : list glyph) : Z :=
  fold_left (fun a g => a + (if vertical then g_yadv g else g_xadv g)) gs 0.
Definition recompute_advance (r : run) : run :=
  mkRun (r_dir r) (r_vis r) (sum_adv (is_vertical (r_dir r)) (r_glyphs r)) (r_off r) (r_cnt r) (r_glyphs r).

(* index of the glyph that is visually last in paragraph direction *)
Definition trim_glyph_index (pdir : Z) (r : run) : Z :=
  if toward pdir then 0 else zlen (r_glyphs r) - 1.
Definition trim_glyph (vertical : bool) (g : glyph) : glyph :=
  if vertical
  then (if g_height g =? 0 then mkGlyph (g_width g) (g_height g) (g_xadv g) 0 else g)
  else (if g_width g =? 0 then mkGlyph (g_width g) (g_height g) 0 (g_yadv g) else g).
Definition trim_run (pdir : Z) (r : run) : run :=
  match r_glyphs r with
  | [] => r
  | g0 :: _ =>
    let i := trim_glyph_index pdir r in
    let g := znth g0 (r_glyphs r) i in
    recompute_advance
      (mkRun (r_dir r) (r_vis r) (r_adv r) (r_off r) (r_cnt r)
             (set_nth (r_glyphs r) i (trim_glyph (is_vertical (r_dir r)) g)))
  end.

Definition dummy_run : run := mkRun 0 0 0 0 0 [].

(* ---- postProcessLine ----------------------------------------------------------------------- *)
Record wstate := mkW {
  w_dir : Z;               (* config.Direction *)
  w_disable_trim : bool;   (* config.DisableTrailingWhitespaceTrim *)
  w_lines_left : Z;        (* config.TruncateAfterLines (counted down) *)
  w_truncating : bool;     (* l.truncating *)
  w_text_continues : bool; (* config.TextContinues *)
  w_truncator : run;       (* config.Truncator *)
  w_total : Z;             (* l.breaker.totalRunes *)
  w_line_start : Z;        (* l.lineStartRune *)
  w_more : bool            (* l.more *)
}.

Record pp_result := mkPP {
  pp_line : list run; pp_truncated : Z; pp_next : Z; pp_done : bool; pp_state : wstate
}.

Definition last_run (line : list run) : run := znth dummy_run line (zlen line - 1).

(* if len(finalLine) > 0 { computeBidiOrdering; trim unless disabled } *)
Definition order_and_trim (pdir : Z) (disable : bool) (line : list run) : list run :=
  match line with
  | [] => line
  | _ :: _ =>
    let l0 := compute_bidi_ordering pdir line in
    if disable then l0
    else let t := trim_target pdir l0 in
         set_nth l0 t (trim_run pdir (znth dummy_run l0 t))
  end.
(* l.lineStartRune after the first block; line = the method's argument, line1 = the same slice after the edits *)
Definition next_start (cur : Z) (line line1 : list run) : Z :=
  match line with
  | [] => cur
  | _ :: _ => let fin := last_run line1 in r_cnt fin + r_off fin
  end.

Definition post_process_line (w : wstate) (line : list run) (done : bool) : pp_result :=
  let pdir := w_dir w in
  let line1 := order_and_trim pdir (w_disable_trim w) line in
  let start1 := next_start (w_line_start w) line line1 in
  let done1 := done || (w_total w <=? start1) in
  (* truncation *)
  let lines1 := if w_truncating w then w_lines_left w - 1 else w_lines_left w in
  let hit := w_truncating w && (lines1 =? 0) in
  let done2 := done1 || hit in
  let truncated := if hit then w_total w - start1 else 0 in
  let insert := hit && ((0 <? truncated) || w_text_continues w) in
  let line2 :=
    if insert
    then let t := w_truncator w in
         compute_bidi_ordering pdir (line1 ++ [mkRun (r_dir t) (r_vis t) (r_adv t) start1 truncated (r_glyphs t)])
    else line1 in
  let more := if done2 then false else w_more w in
  mkPP line2 truncated start1 done2
       (mkW pdir (w_disable_trim w) lines1 (w_truncating w) (w_text_continues w) (w_truncator w) (w_total w) start1 more).
