(* Executable model of the cluster bookkeeping glue of the shaping engine that is plain code over the Buffer (no font
   tables): harfbuzz/unicode.go setUnicodeProps / computeUnicodeProps / insertDottedCircle / formClusters /
   ensureNativeDirection, ot_layout.go reverseGraphemes / otLayoutDeleteGlyphsInplace, ot_shaper.go hideDefaultIgnorables /
   ensureMonotoneClusters, ot_shape_normalize.go otShapeNormalize (decompose, reorder, CGJ, recompose rounds) with the
   reorderMarks of the Hebrew and Arabic shapers, and Buffer.AddRunes with its context runes.  No proofs here.
   Unicode data, the font's cmap and the shaper's decompose / compose are Section variables (per-case data of the
   correspondence check, universally quantified in the theorems). *)
From TV Require Export Model.Buffer.

(* the engine-level buffer: the buffer core plus the fields the glue reads *)
Record ebuf := mkE {
  eb : buffer;
  ctx_pre : list Z;         (* context[0], ordered outward *)
  ctx_post : list Z;        (* context[1] *)
  sf_nonascii : bool;       (* scratchFlags: bsfHasNonASCII *)
  sf_di : bool;             (* bsfHasDefaultIgnorables *)
  sf_cgj : bool;            (* bsfHasCGJ *)
  sf_space : bool;          (* bsfHasSpaceFallback *)
  f_bot : bool;             (* Flags & Bot *)
  f_preserve_di : bool;     (* Flags & PreserveDefaultIgnorables *)
  f_remove_di : bool;       (* Flags & RemoveDefaultIgnorables *)
  f_no_dc : bool;           (* Flags & DoNotinsertDottedCircle *)
  dir : Z;                  (* Props.Direction: 4 LTR, 5 RTL, 6 TTB, 7 BTT *)
  invisible : Z;            (* Buffer.Invisible *)
  notfound : Z              (* Buffer.NotFound *)
}.

Definition with_eb (e : ebuf) (b : buffer) : ebuf :=
  mkE b (ctx_pre e) (ctx_post e) (sf_nonascii e) (sf_di e) (sf_cgj e) (sf_space e) (f_bot e) (f_preserve_di e) (f_remove_di e)
      (f_no_dc e) (dir e) (invisible e) (notfound e).
Definition with_ctx (e : ebuf) (p q : list Z) : ebuf :=
  mkE (eb e) p q (sf_nonascii e) (sf_di e) (sf_cgj e) (sf_space e) (f_bot e) (f_preserve_di e) (f_remove_di e)
      (f_no_dc e) (dir e) (invisible e) (notfound e).
Definition with_dir (e : ebuf) (d : Z) : ebuf :=
  mkE (eb e) (ctx_pre e) (ctx_post e) (sf_nonascii e) (sf_di e) (sf_cgj e) (sf_space e) (f_bot e) (f_preserve_di e) (f_remove_di e)
      (f_no_dc e) d (invisible e) (notfound e).
(* scratchFlags |= (nonascii, default ignorables, cgj) *)
Definition or_scratch (e : ebuf) (f : bool * bool * bool) : ebuf :=
  let '(a, d, c) := f in
  mkE (eb e) (ctx_pre e) (ctx_post e) (sf_nonascii e || a) (sf_di e || d) (sf_cgj e || c) (sf_space e) (f_bot e) (f_preserve_di e)
      (f_remove_di e) (f_no_dc e) (dir e) (invisible e) (notfound e).
Definition set_space_fallback (e : ebuf) : ebuf :=
  mkE (eb e) (ctx_pre e) (ctx_post e) (sf_nonascii e) (sf_di e) (sf_cgj e) true (f_bot e) (f_preserve_di e)
      (f_remove_di e) (f_no_dc e) (dir e) (invisible e) (notfound e).

Definition lift (e : ebuf) (r : res buffer) : res ebuf := do b <- r; Ok (with_eb e b).

(* number of leading elements satisfying p *)
Fixpoint run_while {A} (p : A -> bool) (l : list A) : Z :=
  match l with x :: r => if p x then 1 + run_while p r else 0 | [] => 0 end.

Definition in_rng (lo hi x : Z) : bool := (lo <=? x) && (x <=? hi).
Definition ginfo (b : buffer) (i : Z) : glyph := nth (Z.to_nat i) (info b) g0.
(* replace Info[i] (callers guarantee 0 <= i < len) *)
Definition set_info (b : buffer) (i : Z) (g : glyph) : buffer := with_info b (zfirstn i (info b) ++ [g] ++ zskipn (i + 1) (info b)).

(* ---- Buffer.AddRunes with the context runes (contextLength = 5) ---- *)
Definition e_add_runes (e : ebuf) (text : list Z) (off len0 newcap : Z) : res ebuf :=
  let len := add_runes_len text off len0 in
  if negb ((0 <=? off) && (0 <=? len) && (off + len <=? zlen text)) then Panic 1
  else
    let pre := if (zlen (info (eb e)) =? 0) && (0 <? off) then zfirstn 5 (rev (zfirstn off text)) else ctx_pre e in
    do b <- add_runes (eb e) text off len0 newcap;
    Ok (with_ctx (with_eb e b) pre (slice (off + len) (Z.min (off + len + 5) (zlen text)) text)).
(* AddRune: append and clear the post-context *)
Definition e_add_rune (e : ebuf) (r c newcap : Z) : res ebuf :=
  do b <- add_rune (eb e) r c newcap; Ok (with_ctx (with_eb e b) (ctx_pre e) []).

Section Engine.
  (* Unicode data (unicode.go `uni`) *)
  Variable ugc : Z -> Z.            (* generalCategory *)
  Variable udi : Z -> bool.         (* isDefaultIgnorable *)
  Variable umcc : Z -> Z.           (* modifiedCombiningClass *)
  Variable uextpict : Z -> bool.    (* isExtendedPictographic *)
  Variable uspace : Z -> Z.         (* spaceFallbackType *)
  (* font: face.NominalGlyph and face.VariationGlyph, (glyph, ok) *)
  Variable nominal : Z -> Z * bool.
  Variable variation : Z -> Z -> Z * bool.
  (* shaper: decompose, compose, normalizationPreference (0 none, 1 decomposed, 2 composed diacritics, 3 the same without
     short circuit, 4 auto), reorderMarks (0 none, 1 Arabic, 2 Hebrew),
     the modifier combining marks of the Arabic shaper *)
  Variable sdecomp : Z -> option (Z * Z).
  Variable scomp : Z -> Z -> option Z.
  Variable smode : Z.
  Variable sreorder : Z.
  Variable is_mcm : Z -> bool.
  (* recursion budget of decompose (the Go recursion is unbounded; Unicode decompositions are at most a few levels deep) *)
  Variable dfuel : nat.

  (* computeUnicodeProps(u): props and (HasNonASCII, HasDefaultIgnorables, HasCGJ) *)
  Definition compute_props (u : Z) : Z * (bool * bool * bool) :=
    let gc := ugc u in
    if u <? 128 then (gc, (false, false, false))
    else
      let '(p1, di, cgj) :=
        if udi u then
          let p := Z.lor gc 32 in
          if u =? 8204 then (Z.lor p 512, true, false)
          else if u =? 8205 then (Z.lor p 256, true, false)
          else if in_rng 6155 6157 u || (u =? 6159) then (Z.lor p 64, true, false)
          else if in_rng 917536 917631 u then (Z.lor p 64, true, false)
          else if u =? 847 then (Z.lor p 64, true, true)
          else (p, true, false)
        else (gc, false, false) in
      let p2 := if (gc =? 10) || (gc =? 11) || (gc =? 12) then Z.lor (Z.lor p1 128) (Z.shiftl (umcc u) 8) else p1 in
      (p2, (true, di, cgj)).

  Definition set_cont (g : glyph) : glyph := set_up g (Z.lor (up g) 128).
  Definition is_ri (r : Z) : bool := in_rng 127462 127487 r.
  Definition is_zwj (g : glyph) : bool := (gen_cat g =? 1) && Z.testbit (up g) 8.
  Definition is_vs (r : Z) : bool := in_rng 65024 65039 r || in_rng 917760 917999 r.

  (* the loop of Buffer.setUnicodeProps; prev = Info[i-1] after its own update, first = (i == 0) *)
  Fixpoint sup_loop (first : bool) (prev : glyph) (l : list glyph) (fl : bool * bool * bool) : list glyph * (bool * bool * bool) :=
    let orf (a b : bool * bool * bool) := let '(a1, a2, a3) := a in let '(b1, b2, b3) := b in (a1 || b1, a2 || b2, a3 || b3) in
    match l with
    | [] => ([], fl)
    | g :: r =>
      let '(p, f) := compute_props (cp g) in
      let g1 := set_up g p in
      let fl1 := orf fl f in
      let u := cp g in
      if (gen_cat g1 =? 24) && in_rng 127995 127999 u then
        let g2 := set_cont g1 in let '(t, fl2) := sup_loop false g2 r fl1 in (g2 :: t, fl2)
      else if negb first && is_ri u then
        let g2 := if is_ri (cp prev) && negb (is_cont prev) then set_cont g1 else g1 in
        let '(t, fl2) := sup_loop false g2 r fl1 in (g2 :: t, fl2)
      else if is_zwj g1 then
        let g2 := set_cont g1 in
        match r with
        | h :: r' =>
          if uextpict (cp h) then
            let '(p', f') := compute_props (cp h) in
            let h2 := set_cont (set_up h p') in
            let '(t, fl2) := sup_loop false h2 r' (orf fl1 f') in (g2 :: h2 :: t, fl2)
          else let '(t, fl2) := sup_loop false g2 r fl1 in (g2 :: t, fl2)
        | [] => ([g2], fl1)
        end
      else if in_rng 65438 65439 u || in_rng 917536 917631 u then
        let g2 := set_cont g1 in let '(t, fl2) := sup_loop false g2 r fl1 in (g2 :: t, fl2)
      else let '(t, fl2) := sup_loop false g1 r fl1 in (g1 :: t, fl2)
    end.

  Definition set_unicode_props (e : ebuf) : ebuf :=
    let '(l, f) := sup_loop true g0 (info (eb e)) (false, false, false) in
    or_scratch (with_eb e (with_info (eb e) l)) f.

  (* Buffer.insertDottedCircle(font) *)
  Definition insert_dotted_circle (e : ebuf) : res ebuf :=
    let b := eb e in
    if f_no_dc e then Ok e
    else if negb (f_bot e) || negb (zlen (ctx_pre e) =? 0) || (zlen (info b) =? 0) || negb (is_umark (ginfo b 0)) then Ok e
    else if negb (snd (nominal 9676)) then Ok e
    else
      let '(p, f) := compute_props 9676 in
      let e1 := or_scratch e f in
      do b1 <- clear_output b;
      do g <- getg (info b1) 0;
      let dc := mkGX (cl g) (gf g) (rest g) 9676 0 p 0 in
      do b2 <- swap_buffers (with_out b1 (out b1 ++ [dc]));
      Ok (with_eb e1 b2).

  (* graphemesIterator.next: the end of the grapheme starting at start *)
  Definition grapheme_end (inf : list glyph) (start : Z) : Z := start + 1 + run_while is_cont (zskipn (start + 1) inf).

  Fixpoint fc_loop (fuel : nat) (f : buffer -> Z -> Z -> res buffer) (count : Z) (b : buffer) (start : Z) : res buffer :=
    if count <=? start then Ok b
    else match fuel with
         | O => OutOfFuel
         | S k => let e := grapheme_end (info b) start in do b' <- f b start e; fc_loop k f count b' e
         end.

  (* Buffer.formClusters *)
  Definition form_clusters (e : ebuf) : res ebuf :=
    if negb (sf_nonascii e) then Ok e
    else
      let b := eb e in
      let count := zlen (info b) in
      lift e (fc_loop (Z.to_nat count) (if level b =? 0 then merge_clusters else unsafe_to_break) count b 0).

  (* Buffer.ensureNativeDirection; horiz = getHorizontalDirection(Props.Script) (0 = invalid) *)
  Fixpoint end_scan (l : list glyph) (num ri : bool) : bool * bool * bool :=   (* foundNumber, foundLetter, foundRi *)
    match l with
    | [] => (num, false, ri)
    | g :: r =>
      let gc := gen_cat g in
      if gc =? 13 then end_scan r true ri
      else if in_rng 5 9 gc then (num, true, ri)
      else if is_ri (cp g) then end_scan r num true
      else end_scan r num ri
    end.
  Definition dir_horizontal (d : Z) : bool := (d =? 4) || (d =? 5).
  Definition dir_vertical (d : Z) : bool := (d =? 6) || (d =? 7).
  Definition ensure_native_direction (horiz0 : Z) (e : ebuf) : res ebuf :=
    let d := dir e in
    let horiz :=
      if (horiz0 =? 5) && (d =? 4) then
        let '(num, letter, ri) := end_scan (info (eb e)) false false in
        if (num || ri) && negb letter then 4 else horiz0
      else horiz0 in
    if (dir_horizontal d && negb (d =? horiz) && negb (horiz =? 0)) || (dir_vertical d && negb (d =? 6)) then
      do b <- reverse_graphemes (level (eb e) =? 1) (eb e);
      Ok (with_dir (with_eb e b) (Z.lxor d 1))
    else Ok e.

  (* ---- otLayoutDeleteGlyphsInplace (ot_layout.go): deleteGlyphsInplace that leaves the glyph flags of a deleted glyph
          to its cluster ---- *)
  Definition or_gf_of (src : glyph) (g : glyph) : glyph := or_flags (gf src) g.
  Definition oldgi_step (filt : glyph -> bool) (n : Z) (st : res (buffer * Z)) (i : Z) : res (buffer * Z) :=
    do st' <- st;
    let '(b, j) := st' in
    let inf := info b in
    let g := nth (Z.to_nat i) inf g0 in
    if filt g then
      let c := cl g in
      if (i + 1 <? n) && (c =? cl (nth (Z.to_nat (i + 1)) inf g0)) then
        Ok (set_info b (i + 1) (or_gf_of g (nth (Z.to_nat (i + 1)) inf g0)), j)
      else if negb (j =? 0) then
        let pj := nth (Z.to_nat (j - 1)) inf g0 in
        let b1 := if c =? cl pj then set_info b (j - 1) (or_gf_of g pj) else b in
        if c <? cl pj then
          let oldC := cl pj in
          let k := run_eq oldC (rev (zfirstn j (info b1))) in
          Ok (with_info b1 (map_range (set_cluster c (gf g)) (j - k) j (info b1)), j)
        else Ok (b1, j)
      else if i + 1 <? n then
        do b' <- merge_clusters b i (i + 2); Ok (b', j)
      else Ok (b, j)
    else
      if j =? i then Ok (b, j + 1)
      else Ok (with_info b (zfirstn j inf ++ [g] ++ zskipn (j + 1) inf), j + 1).
  Definition ot_delete_glyphs_inplace (filt : glyph -> bool) (b : buffer) : res buffer :=
    let n := zlen (info b) in
    do st <- fold_left (oldgi_step filt n) (zseq n) (Ok (b, 0));
    let '(b', j) := st in
    Ok (with_pos (with_info b' (zfirstn j (info b'))) (if j <=? pos_len b' then j else pos_len b') (pos_cap b')).

  (* GlyphInfo.isDefaultIgnorable: ignorable and not substituted (glyphProps & 0x10) *)
  Definition is_default_ignorable (g : glyph) : bool := Z.testbit (up g) 5 && negb (Z.testbit (gp g) 4).

  (* hideDefaultIgnorables(buffer, font) *)
  Definition hide_default_ignorables (e : ebuf) : res ebuf :=
    if negb (sf_di e) || f_preserve_di e then Ok e
    else
      let '(inv, ok) := if invisible e =? 0 then nominal 32 else (invisible e, false) in
      if negb (f_remove_di e) && ok then
        Ok (with_eb e (with_info (eb e) (map (fun g => if is_default_ignorable g then set_gid g inv else g) (info (eb e)))))
      else lift e (ot_delete_glyphs_inplace is_default_ignorable (eb e)).

  (* ---- ensureMonotoneClusters (ot_shaper.go): the safety net after substitution; ascending = the buffer is in logical
          order ---- *)
  Definition wrong_side (ascending : bool) (a b : Z) : bool := negb (Bool.eqb (a <? b) ascending).
  (* j-- while j > 0 && (Info[j-1].Cluster == ci || (Info[j-1].Cluster < ci) != ascending): k = j *)
  Fixpoint emc_back (ascending : bool) (inf : list glyph) (ci : Z) (k : nat) : Z :=
    match k with
    | O => 0
    | S k' => let a := cl (nth k' inf g0) in
              if (a =? ci) || wrong_side ascending a ci then emc_back ascending inf ci k' else Z.of_nat k
    end.
  Definition emc_step (ascending : bool) (st : res buffer) (i : Z) : res buffer :=
    do b <- st;
    let a := cl (ginfo b (i - 1)) in
    let c := cl (ginfo b i) in
    if (a =? c) || Bool.eqb (a <? c) ascending then Ok b
    else merge_clusters b (emc_back ascending (info b) c (Z.to_nat (i - 1))) (i + 1).
  Definition ensure_monotone_clusters (ascending : bool) (b : buffer) : res buffer :=
    if (level b =? 2) || (zlen (info b) <? 2) then Ok b
    else fold_left (emc_step ascending) (map (fun i => i + 1) (zseq (zlen (info b) - 1))) (Ok b).

  (* ---- otShapeNormalize ---- *)

  Definition set_cur_gid (b : buffer) (g : Z) : res buffer :=
    do x <- getg (info b) (idx b); Ok (set_info b (idx b) (set_gid x g)).
  (* prev().setUnicodeProps(buffer) *)
  Definition prev_set_props (e : ebuf) : res ebuf :=
    let o := out (eb e) in
    if zlen o =? 0 then Panic 1
    else
      let x := lastg o in
      let '(p, f) := compute_props (cp x) in
      Ok (or_scratch (with_eb e (with_out (eb e) (zfirstn (zlen o - 1) o ++ [set_up x p]))) f).
  (* outputChar(buffer, unichar, glyph) *)
  Definition output_char (e : ebuf) (u g : Z) : res ebuf :=
    do b1 <- set_cur_gid (eb e) g;
    do b2 <- output_rune b1 u;
    prev_set_props (with_eb e b2).
  (* nextChar(buffer, glyph) *)
  Definition next_char (e : ebuf) (g : Z) : res ebuf :=
    do b1 <- set_cur_gid (eb e) g; lift e (next_glyph b1).

  (* decompose(c, shortest, ab): number of characters output *)
  Fixpoint decompose_rec (fuel : nat) (shortest : bool) (ab : Z) (e : ebuf) : res (ebuf * Z) :=
    match fuel with
    | O => OutOfFuel
    | S f =>
      match sdecomp ab with
      | None => Ok (e, 0)
      | Some (a, b) =>
        let '(bg, bok) := nominal b in
        if negb (b =? 0) && negb bok then Ok (e, 0)
        else
          let '(ag, aok) := nominal a in
          let out_ab (e0 : ebuf) : res (ebuf * Z) :=
            do e1 <- output_char e0 a ag;
            if negb (b =? 0) then do e2 <- output_char e1 b bg; Ok (e2, 2) else Ok (e1, 1) in
          if shortest && aok then out_ab e
          else
            do r <- decompose_rec f shortest a e;
            let '(e1, ret) := r in
            if negb (ret =? 0) then
              if negb (b =? 0) then do e2 <- output_char e1 b bg; Ok (e2, ret + 1) else Ok (e1, ret)
            else if aok then out_ab e1
            else Ok (e1, 0)
      end
    end.

  (* decomposeCurrentCharacter(shortest) *)
  Definition decompose_current (shortest : bool) (e : ebuf) : res ebuf :=
    do x <- getg (info (eb e)) (idx (eb e));
    let u := cp x in
    let '(g0', ok) := nominal u in
    let glyph := if ok then g0' else notfound e in
    if shortest && ok then next_char e glyph
    else
      do r <- decompose_rec dfuel shortest u e;
      let '(e1, n) := r in
      if negb (n =? 0) then lift e1 (skip_glyph (eb e1))
      else if negb shortest && ok then next_char e1 glyph
      else
        let '(sg, sok) := nominal 32 in
        let st := uspace u in
        if (gen_cat x =? 29) && negb (st =? 0) && (sok || negb (invisible e1 =? 0)) then
          let sg' := if sok then sg else invisible e1 in
          do x1 <- getg (info (eb e1)) (idx (eb e1));
          let b1 := set_info (eb e1) (idx (eb e1)) (set_up x1 (Z.lor (Z.shiftl st 8) (Z.land (up x1) 255))) in
          do e2 <- next_char (with_eb e1 b1) sg';
          Ok (set_space_fallback e2)
        else
          let '(hg, hok) := nominal 8208 in
          if (u =? 8209) && hok then next_char e1 hg
          else next_char e1 glyph.

  (* setGlyph(cur(0), font); nextGlyph() *)
  Definition set_glyph_next (e : ebuf) : res ebuf :=
    do x <- getg (info (eb e)) (idx (eb e)); next_char e (fst (nominal (cp x))).

  (* `for idx < end && isVariationSelector(cur(0).codepoint) { setGlyph; nextGlyph }` *)
  Fixpoint vs_skip (fuel : nat) (en : Z) (e : ebuf) : res ebuf :=
    match fuel with
    | O => OutOfFuel
    | S f =>
      if idx (eb e) <? en then
        do x <- getg (info (eb e)) (idx (eb e));
        if is_vs (cp x) then do e1 <- set_glyph_next e; vs_skip f en e1 else Ok e
      else Ok e
    end.

  (* handleVariationSelectorCluster(end) *)
  Fixpoint vs_cluster (fuel : nat) (en : Z) (e : ebuf) : res ebuf :=
    match fuel with
    | O => OutOfFuel
    | S f =>
      if idx (eb e) <? en - 1 then
        do x <- getg (info (eb e)) (idx (eb e));
        do y <- getg (info (eb e)) (idx (eb e) + 1);
        if is_vs (cp y) then
          let '(vg, vok) := variation (cp x) (cp y) in
          do b1 <- set_cur_gid (eb e) vg;
          do e2 <- (if vok then lift e (replace_glyphs b1 2 (Some [cp x]) None)
                    else do e1 <- set_glyph_next (with_eb e b1); set_glyph_next e1);
          do e3 <- vs_skip fuel en e2;
          vs_cluster f en e3
        else do e1 <- set_glyph_next e; vs_cluster f en e1
      else if idx (eb e) <? en then set_glyph_next e else Ok e
    end.

  Fixpoint dcc_loop (fuel : nat) (short : bool) (en : Z) (e : ebuf) : res ebuf :=
    match fuel with
    | O => OutOfFuel
    | S f => if idx (eb e) <? en then do e1 <- decompose_current short e; dcc_loop f short en e1 else Ok e
    end.

  (* decomposeMultiCharCluster(end, shortCircuit) *)
  Definition decompose_multi (en : Z) (short : bool) (e : ebuf) : res ebuf :=
    let b := eb e in
    if existsb (fun g => is_vs (cp g)) (slice (idx b) en (info b)) then vs_cluster (Z.to_nat (en - idx b) + 1) en e
    else dcc_loop (Z.to_nat (en - idx b) + 1) short en e.

  (* the short-circuit pass: `for i = idx; i < end; i++ { Info[i].Glyph, ok = NominalGlyph(Info[i].codepoint); if !ok break }`:
     new Info and the i reached *)
  Fixpoint sc_scan (l : list glyph) : list glyph * Z :=
    match l with
    | [] => ([], 0)
    | g :: r => let '(gl, ok) := nominal (cp g) in
                if ok then let '(t, k) := sc_scan r in (set_gid g gl :: t, k + 1) else (set_gid g gl :: r, 0)
    end.

  (* first round; returns allSimple *)
  Fixpoint round1 (fuel : nat) (count : Z) (might always : bool) (simple : bool) (e : ebuf) : res (ebuf * bool) :=
    match fuel with
    | O => OutOfFuel
    | S f =>
      let b := eb e in
      let i0 := idx b in
      let en0 := i0 + 1 + run_while (fun g => negb (is_umark g)) (slice (i0 + 1) count (info b)) in
      let en := if en0 <? count then en0 - 1 else en0 in
      do e1 <- (if might then
                  let '(l, k) := sc_scan (slice i0 en (info b)) in
                  lift e (next_glyphs (with_info b (zfirstn i0 (info b) ++ l ++ zskipn en (info b))) k)
                else Ok e);
      do e2 <- dcc_loop (Z.to_nat (en - idx (eb e1)) + 1) might en e1;
      if idx (eb e2) =? count then Ok (e2, simple)
      else
        let b2 := eb e2 in
        let en2 := idx b2 + 1 + run_while is_umark (slice (idx b2 + 1) count (info b2)) in
        do e3 <- decompose_multi en2 always e2;
        if idx (eb e3) <? count then round1 f count might always false e3 else Ok (e3, false)
    end.

  (* reorderMarks of the Hebrew shaper *)
  Fixpoint hebrew_reorder (k : nat) (b : buffer) (i en : Z) : res buffer :=
    match k with
    | O => Ok b
    | S k' =>
      if en <=? i then Ok b
      else
        do g0' <- getg (info b) (i - 2); do g1 <- getg (info b) (i - 1); do g2 <- getg (info b) i;
        let c0 := mcc g0' in let c1 := mcc g1 in let c2 := mcc g2 in
        if ((c0 =? 20) || (c0 =? 21)) && ((c1 =? 22) || (c1 =? 23)) && ((c2 =? 25) || (c2 =? 220)) then
          do b1 <- merge_clusters b (i - 1) (i + 1);
          Ok (set_info (set_info b1 (i - 1) (ginfo b1 i)) i (ginfo b1 (i - 1)))
        else hebrew_reorder k' b (i + 1) en
    end.

  (* setModifiedCombiningClass *)
  Definition set_mcc (c : Z) (g : glyph) : glyph := if is_umark g then set_up g (Z.lor (Z.shiftl c 8) (Z.land (up g) 255)) else g.

  (* one `cc` iteration of the Arabic reorderMarks: state (buffer, start, i); None = break *)
  Definition arabic_round (cc : Z) (en : Z) (st : buffer * Z * Z) : res (option (buffer * Z * Z)) :=
    let '(b, start, i0) := st in
    let i := i0 + run_while (fun g => mcc g <? cc) (slice i0 en (info b)) in
    if i =? en then Ok None
    else
      do gi <- getg (info b) i;
      if cc <? mcc gi then Ok (Some (b, start, i))
      else
        let j := i + run_while (fun g => (mcc g =? cc) && is_mcm (cp g)) (slice i en (info b)) in
        if i =? j then Ok (Some (b, start, i))
        else
          do b1 <- merge_clusters b start j;
          let inf := info b1 in
          if negb ((0 <=? start) && (start <=? i) && (j <=? zlen inf)) then Panic 1
          else
            let moved := map (set_mcc 26) (slice i j inf) in
            let b2 := with_info b1 (zfirstn start inf ++ moved ++ slice start i inf ++ zskipn j inf) in
            Ok (Some (b2, start + (j - i), j)).
  Definition arabic_reorder (b : buffer) (s en : Z) : res buffer :=
    do r1 <- arabic_round 220 en (b, s, s);
    match r1 with
    | None => Ok b
    | Some st1 =>
      do r2 <- arabic_round 230 en st1;
      match r2 with None => Ok (fst (fst st1)) | Some st2 => Ok (fst (fst st2)) end
    end.

  Definition reorder_marks (b : buffer) (s en : Z) : res buffer :=
    if sreorder =? 1 then arabic_reorder b s en
    else if sreorder =? 2 then hebrew_reorder (Z.to_nat (en - s)) b (s + 2) en
    else Ok b.

  (* second round *)
  Fixpoint round2 (fuel : nat) (count : Z) (b : buffer) (i : Z) : res buffer :=
    if count <=? i then Ok b
    else match fuel with
         | O => OutOfFuel
         | S f =>
           if mcc (ginfo b i) =? 0 then round2 f count b (i + 1)
           else
             let en := i + 1 + run_while (fun g => negb (mcc g =? 0)) (slice (i + 1) count (info b)) in
             if 32 <? en - i then round2 f count b (en + 1)
             else
               do b1 <- sort_range cmp_ccc b i en;
               do b2 <- reorder_marks b1 i en;
               round2 f count b2 (en + 1)
         end.

  (* the CGJ pass *)
  Definition cgj_step (st : res buffer) (i : Z) : res buffer :=
    do b <- st;
    let g := ginfo b i in
    if (cp g =? 847) && ((mcc (ginfo b (i + 1)) =? 0) || (mcc (ginfo b (i - 1)) <=? mcc (ginfo b (i + 1)))) then
      unsafe_to_break (set_info b i (set_up g (Z.land (up g) (Z.lnot 64)))) (i - 1) (i + 2)
    else Ok b.
  Definition cgj_pass (b : buffer) : res buffer :=
    fold_left cgj_step (map (fun i => i + 1) (zseq (zlen (info b) - 2))) (Ok b).

  (* third round *)
  Fixpoint round3 (fuel : nat) (count : Z) (starter : Z) (e : ebuf) : res ebuf :=
    let b := eb e in
    if count <=? idx b then Ok e
    else match fuel with
         | O => OutOfFuel
         | S f =>
           do cur <- getg (info b) (idx b);
           let ol := zlen (out b) in
           let composed :=
             if is_umark cur && ((starter =? ol - 1) || (mcc (lastg (out b)) <? mcc cur)) then
               match scomp (cp (nth (Z.to_nat starter) (out b) g0)) (cp cur) with
               | Some c => let '(g, ok) := nominal c in if ok then Some (c, g) else None
               | None => None
               end
             else None in
           if is_umark cur && negb ((0 <=? starter) && (starter <? ol)) && ((starter =? ol - 1) || (mcc (lastg (out b)) <? mcc cur)) then Panic 1
           else
           match composed with
           | Some (c, g) =>
             do b1 <- next_glyph b;
             do b2 <- merge_out_clusters b1 starter (zlen (out b1));
             let o := zfirstn (zlen (out b2) - 1) (out b2) in
             do s <- getg o starter;
             let '(p, fl) := compute_props c in
             let s' := set_up (set_gid (set_cp s c) g) p in
             let b3 := with_out b2 (zfirstn starter o ++ [s'] ++ zskipn (starter + 1) o) in
             round3 f count starter (or_scratch (with_eb e b3) fl)
           | None =>
             do b1 <- next_glyph b;
             let starter' := if mcc (lastg (out b1)) =? 0 then zlen (out b1) - 1 else starter in
             round3 f count starter' (with_eb e b1)
           end
         end.

  (* otShapeNormalize(plan, buffer, font) *)
  Definition normalize (e : ebuf) : res ebuf :=
    let b := eb e in
    if zlen (info b) =? 0 then Ok e
    else
      let mode := if smode =? 4 then 2 else smode in     (* nmAuto -> nmComposedDiacritics *)
      let always := mode =? 0 in
      let might := always || (negb (mode =? 1) && negb (mode =? 3)) in
      do b0 <- clear_output b;
      let count := zlen (info b0) in
      do r1 <- round1 (Z.to_nat count + 1) count might always true (with_eb e b0);
      let '(e1, simple) := r1 in
      do b1 <- swap_buffers (eb e1);
      do b2 <- (if negb simple then round2 (Z.to_nat (zlen (info b1)) + 1) (zlen (info b1)) b1 0 else Ok b1);
      do b3 <- (if sf_cgj e1 then cgj_pass b2 else Ok b2);
      if negb simple && ((mode =? 2) || (mode =? 3)) then
        do b4 <- clear_output b3;
        do b5 <- next_glyph b4;
        do e5 <- round3 (Z.to_nat (zlen (info b5)) + 1) (zlen (info b5)) 0 (with_eb e1 b5);
        lift e5 (swap_buffers (eb e5))
      else Ok (with_eb e1 b3).

  (* the pipeline of shaperOpentype.shape up to substitution, as far as clusters are concerned:
     setUnicodeProps, insertDottedCircle, formClusters, ensureNativeDirection, otShapeNormalize
     (initializeMasks, preprocessText of the shaper, otRotateChars and setupMasks do not touch clusters or the glyph order) *)
  Definition pre_normalize (horiz : Z) (e : ebuf) : res ebuf :=
    let e1 := set_unicode_props e in
    do e2 <- insert_dotted_circle e1;
    do e3 <- form_clusters e2;
    ensure_native_direction horiz e3.
  Definition pre_gsub (horiz : Z) (e : ebuf) : res ebuf :=
    do e4 <- pre_normalize horiz e; normalize e4.
End Engine.
