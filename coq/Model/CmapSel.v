(* Hand-written model of the rest of font/cmap.go: newCmap0 / cmap0, newCmap6 / newCmap10, newUnicodeVariations and
   UnicodeVariations.GetGlyphVariant (format 14), findSubtable and ProcessCmap (the choice of the subtable by
   (platform, encoding) preference, with the symbol / legacy arabic wrappers).  No proofs here.
   The model follows the code after the `fix:` commits (findSubtable is a linear search; format 4 candidates are
   sanitized; format 2 is skipped as in the code: "we dont support this deprecated format"). *)
From TV Require Export Lib.Bytes Lib.Res Model.RuneSet Model.Cmap.

(* ---------------------------------- format 0 ---------------------------------- *)
(* cmap0 = map[rune]uint8, modelled as an association list kept sorted by rune (Go iterates a map in an unspecified
   order: the driver sorts what Iter yields) *)
Definition cmap0 := list (Z * Z).
Fixpoint m0_insert (m : cmap0) (r g : Z) : cmap0 :=
  match m with
  | [] => [(r, g)]
  | (r', g') :: t => if r <? r' then (r, g) :: m
                     else if r =? r' then (r, g) :: t          (* out[r] = gid overwrites *)
                     else (r', g') :: m0_insert t r g
  end.
(* for b, gid := range cm.GlyphIdArray { if b == 0 { continue }; out[DecodeMacintoshByte(byte(b))] = gid } *)
Definition new_cmap0 (decode : list Z) (ga : list Z) : cmap0 :=
  fold_left (fun m bg => if fst bg =? 0 then m else m0_insert m (znth 0 decode (fst bg)) (snd bg))
            (combine (zrange 0 (length ga)) ga) [].
Fixpoint lookup0_raw (m : cmap0) (r : Z) : option Z :=
  match m with [] => None | (a, g) :: t => if a =? r then Some g else lookup0_raw t r end.
Definition lookup0 (m : cmap0) (r : Z) : res (Z * bool) :=
  match lookup0_raw m r with Some g => Ok (g, true) | None => Ok (0, false) end.
Definition iter0 (m : cmap0) : list (Z * Z) := m.

(* ---------------------------------- formats 6 and 10 ---------------------------------- *)
Definition new_cmap6 (first : Z) (entries : list Z) : cmap6 := mkCmap6 first entries.             (* rune(uint16) *)
(* newCmap10 (after the `fix:` commit "newCmap10 ignores the entries past the last Unicode code point"); firstCode = rune(uint32) *)
Definition new_cmap10 (start : Z) (entries : list Z) : cmap6 :=
  mkCmap6 (sint32 start) (if max_rune <? start then [] else zfirstn (max_rune - start + 1) entries).

(* ---------------------------------- format 14 ---------------------------------- *)
(* variationSelector: varSelector, defaultUVS (start, additionalCount), nonDefaultUVS (unicode, glyphID).
   parseUint24 gives values in 0 .. 2^24-1; the raw records carry the three bytes *)
Definition u24 (b : Z * Z * Z) : Z := let '(b0, b1, b2) := b in b0 * 65536 + b1 * 256 + b2.
Record varsel := mkVarsel { vs_sel : Z; vs_def : list (Z * Z); vs_nondef : list (Z * Z) }.
Definition raw_varsel := ((Z * Z * Z) * list ((Z * Z * Z) * Z) * list ((Z * Z * Z) * Z))%type.
Definition new_varsel (v : raw_varsel) : varsel :=
  let '(sel, d, nd) := v in
  mkVarsel (u24 sel) (map (fun x => (u24 (fst x), snd x)) d) (map (fun x => (u24 (fst x), snd x)) nd).
Definition new_uvs (vs : list raw_varsel) : list varsel := map new_varsel vs.

Definition VariantNotFound : Z := 0.
Definition VariantUseDefault : Z := 1.
Definition VariantFound : Z := 2.

(* the two bisections of variationSelector.getGlyph *)
Fixpoint def_loop (fuel : nat) (l : list (Z * Z)) (r i j : Z) : res bool :=
  if i <? j then
    match fuel with
    | O => OutOfFuel
    | S f =>
        let h := i + (j - i) / 2 in
        let e := znth (0, 0) l h in
        if r <? fst e then def_loop f l r i h
        else if fst e + snd e <? r then def_loop f l r (h + 1) j      (* entry.start+rune(entry.additionalCount) < r *)
        else Ok true
    end
  else Ok false.
Fixpoint nondef_loop (fuel : nat) (l : list (Z * Z)) (r i j : Z) : res (option Z) :=
  if i <? j then
    match fuel with
    | O => OutOfFuel
    | S f =>
        let h := i + (j - i) / 2 in
        let e := znth (0, 0) l h in
        if r <? fst e then nondef_loop f l r i h
        else if fst e <? r then nondef_loop f l r (h + 1) j
        else Ok (Some (snd e))
    end
  else Ok None.
Definition get_glyph (v : varsel) (r : Z) : res (Z * Z) :=
  do d <- def_loop (S (length (vs_def v))) (vs_def v) r 0 (zlen (vs_def v));
  if d then Ok (0, VariantUseDefault)
  else do n <- nondef_loop (S (length (vs_nondef v))) (vs_nondef v) r 0 (zlen (vs_nondef v));
       match n with Some g => Ok (g, VariantFound) | None => Ok (0, VariantNotFound) end.
Definition dvarsel := mkVarsel 0 [] [].
Fixpoint variant_loop (fuel : nat) (t : list varsel) (r sel i j : Z) : res (Z * Z) :=
  if i <? j then
    match fuel with
    | O => OutOfFuel
    | S f =>
        let h := i + (j - i) / 2 in
        let k := vs_sel (znth dvarsel t h) in
        if sel <? k then variant_loop f t r sel i h
        else if k <? sel then variant_loop f t r sel (h + 1) j
        else get_glyph (znth dvarsel t h) r
    end
  else Ok (0, VariantNotFound).
Definition get_glyph_variant (t : list varsel) (r sel : Z) : res (Z * Z) :=
  variant_loop (S (length t)) t r sel 0 (zlen t).

(* ---------------------------------- ProcessCmap ---------------------------------- *)
Inductive subtable :=
| S0 (ga : list Z)                                   (* GlyphIdArray [256]uint8 *)
| S2
| S4 (qs : list (Z * Z * Z * Z)) (ga : list Z)       (* (end, start, delta, idRangeOffset), GlyphIDArray bytes *)
| S6 (first : Z) (entries : list Z)
| S10 (start : Z) (entries : list Z)
| S12 (g : list grp)
| S13 (g : list grp)
| S14 (vs : list raw_varsel).
Definition enc_record := (Z * Z * subtable)%type.    (* PlatformID, EncodingID, Subtable *)

Inductive mcmap :=
| M0 (m : cmap0) | M4 (s : cmap4) | M6 (c : cmap6) | M12 (g : list grp) | M13 (g : list grp)
| MSym (c : mcmap) | MSimp (c : mcmap) | MTrad (c : mcmap).

(* the first loop of ProcessCmap: candidates with their ids, and the variation selectors (the last format 14 wins) *)
Fixpoint collect (decode : list Z) (recs : list enc_record) (acc : list (Z * Z * mcmap)) (uv : list varsel)
  : res (list (Z * Z * mcmap) * list varsel) :=
  match recs with
  | [] => Ok (rev acc, uv)
  | (p, e, st) :: r =>
      match st with
      | S0 ga => collect decode r ((p, e, M0 (new_cmap0 decode ga)) :: acc) uv
      | S2 => collect decode r acc uv
      | S4 qs ga => do s <- new_cmap4 qs ga; collect decode r ((p, e, M4 (sanitize4 s)) :: acc) uv
      | S6 f en => collect decode r ((p, e, M6 (new_cmap6 f en)) :: acc) uv
      | S10 f en => collect decode r ((p, e, M6 (new_cmap10 f en)) :: acc) uv
      | S12 g => collect decode r ((p, e, M12 (sanitize12 g)) :: acc) uv
      | S13 g => collect decode r ((p, e, M13 (sanitize12 g)) :: acc) uv
      | S14 vs => if (p =? 0) && (e =? 5) then collect decode r acc (new_uvs vs) else Err 2
      end
  end.

(* findSubtable: first candidate with this (platform, encoding) *)
Fixpoint find_subtable (p e : Z) (c : list (Z * Z * mcmap)) : option mcmap :=
  match c with
  | [] => None
  | (p', e', m) :: t => if (p' =? p) && (e' =? e) then Some m else find_subtable p e t
  end.

(* the documented preference order after the symbol encoding: (platform, encoding) *)
Definition preference : list (Z * Z) := [(3, 10); (0, 6); (0, 4); (3, 1); (0, 3); (0, 2); (0, 1); (0, 0)].
Fixpoint first_preferred (prefs : list (Z * Z)) (c : list (Z * Z * mcmap)) : option mcmap :=
  match prefs with
  | [] => None
  | (p, e) :: t => match find_subtable p e c with Some m => Some m | None => first_preferred t c end
  end.
Definition FPNone : Z := 0.
Definition FPSimpArabic : Z := 45568.
Definition FPTradArabic : Z := 45824.
Definition process_cmap (decode : list Z) (recs : list enc_record) (fontPage : Z) : res (mcmap * list varsel) :=
  do cu <- collect decode recs [] [];
  let '(cands, uv) := cu in
  match find_subtable 3 0 cands with
  | Some cm =>
      Ok (if fontPage =? FPNone then MSym cm
          else if fontPage =? FPSimpArabic then MSimp cm
          else if fontPage =? FPTradArabic then MTrad cm else cm, uv)
  | None =>
      match first_preferred preference cands with
      | Some cm => Ok (cm, uv)
      | None => match cands with
                | (_, _, cm) :: _ => Ok (cm, uv)
                | [] => Err 3
                end
      end
  end.

(* ---------------------------------- Lookup / Iter of the chosen cmap ---------------------------------- *)
Definition pua_of (tab : list (Z * Z)) (r : Z) : Z :=
  match lookup0_raw tab r with Some m => m | None => 0 end.
Definition arabicPUALastRune : Z := 65276.
Section WithTables.
  Variables simp trad : list (Z * Z).
  Fixpoint mlookup (m : mcmap) (r : Z) : res (Z * bool) :=
    match m with
    | M0 c => lookup0 c r
    | M4 s => lookup4 s r
    | M6 c => lookup6 c r
    | M12 g => lookup12 g r
    | M13 g => lookup13 g r
    | MSym c => remap_symbol (mlookup c) r
    | MSimp c => remap_pua_fuel 2 (pua_of simp) (mlookup c) r
    | MTrad c => remap_pua_fuel 2 (pua_of trad) (mlookup c) r
    end.
  Fixpoint miter (m : mcmap) : res (list (Z * Z)) :=
    match m with
    | M0 c => Ok (iter0 c)
    | M4 s => iter4 s
    | M6 c => Ok (iter6 c)
    | M12 g => Ok (iter12 g)
    | M13 g => Ok (iter13 g)
    | MSym c => do i <- miter c; remap_iter i (mlookup c) (mlookup (MSym c)) 255
    | MSimp c => do i <- miter c; remap_iter i (mlookup c) (mlookup (MSimp c)) arabicPUALastRune
    | MTrad c => do i <- miter c; remap_iter i (mlookup c) (mlookup (MTrad c)) arabicPUALastRune
    end.
End WithTables.
