(* Hand-written model of the container layer of font/opentype/reader.go, reader_otf.go, reader_woff.go over a
   bytes.Reader resource: NewLoaders (magic dispatch), parseTTCHeader (maxNumFonts), parseDfont (uint32 wrap, int16
   reinterpretation as in Go), parseOneFont / parseOTF (re-used from Model/Sfnt.v) / parseWOFF, findTableBuffer
   (the table buffer is allocated from the directory length) and RawTable.
   Every function returns its result together with the number of bytes it asked the allocator for (`make` calls
   whose size comes from the input).  No proofs here. *)
From TV Require Export Lib.Bytes Lib.Res Model.Sfnt.

(* ---- result + allocation counter ----------------------------------------------------------------------- *)
Definition M (A : Type) : Type := (Z * res A)%type.
Definition ret {A} (a : A) : M A := (0, Ok a).
Definition fail {A} (e : nat) : M A := (0, Err e).
Definition alloc (n : Z) : M unit := (n, Ok tt).
Definition lift {A} (r : res A) : M A := (0, r).
Definition bindM {A B} (m : M A) (f : A -> M B) : M B :=
  match snd m with
  | Ok a => let r := f a in (fst m + fst r, snd r)
  | Err c => (fst m, Err c)
  | Panic c => (fst m, Panic c)
  | OutOfFuel => (fst m, OutOfFuel)
  end.
Notation "'dom' x <- r ; k" := (bindM r (fun x => k)) (at level 200, x pattern, r at level 100, k at level 200).
Definition allocated {A} (m : M A) : Z := fst m.
Definition result {A} (m : M A) : res A := snd m.

(* ---- checked slice reads (Go panics on a slice expression out of range) --------------------------------- *)
Definition p_index := 1%nat.
(* binary.BigEndian.Uint16(b[i:]) / Uint32(b[i:]) *)
Definition get16_at (l : list Z) (i : Z) : res Z :=
  if (0 <=? i) && (i + 2 <=? zlen l) then Ok (get16 (zskipn i l)) else Panic p_index.
Definition get32_at (l : list Z) (i : Z) : res Z :=
  if (0 <=? i) && (i + 4 <=? zlen l) then Ok (get32 (zskipn i l)) else Panic p_index.

(* bytes.Reader.ReadAt(buf of n bytes, off): io.EOF unless all n bytes are there (also for n = 0 at/after the end).
   A negative offset is an error as well. *)
Definition read_at (file : list Z) (off n : Z) : res (list Z) :=
  if off <? 0 then Err e_eof
  else if zlen file <=? off then Err e_eof
  else if zlen file <? off + n then Err e_eof
  else Ok (zfirstn n (zskipn off file)).
(* io.ReadFull(r, buf of n bytes) with the reader positioned at pos: nothing is read for n = 0 *)
Definition read_full_seq (file : list Z) (pos n : Z) : res (list Z) :=
  if n =? 0 then Ok []
  else if zlen file <? pos + n then Err e_eof
  else Ok (zfirstn n (zskipn pos file)).

(* ---- cost of the allocations that are sized by input fields -------------------------------------------- *)
(* make(map[Tag]tableSection, hint): the runtime pre-sizes the buckets for `hint` entries; 48 bytes per
   entry is an upper estimate (8 entries per 144-byte bucket at load factor 6.5, rounded to a power of two) *)
Definition map_cost (hint : Z) : Z := 48 * hint + 48.
Definition loader_cost : Z := 64.     (* the Loader struct *)

(* ---- loaders -------------------------------------------------------------------------------------------- *)
Record csection := mkCSection { cs_off : Z; cs_len : Z; cs_zlen : Z }.
Record cloader := mkCLoader { cl_type : Z; cl_size : Z; cl_tables : list (Z * csection) }.

Definition tag_woff := 2001684038.     (* "wOFF" *)
Definition tag_ttcf := 1953784678.     (* "ttcf" *)
Definition tag_dfont := 256.           (* dfontResourceDataOffset *)
Definition tag_sfnt := 1936092788.     (* "sfnt" 0x73666e74 *)
Definition max_num_fonts := 2048.
Definition e_limit := 5%nat.
Definition e_collection := 6%nat.
Definition e_dfont := 7%nat.

Definition of_sfnt_loader (size : Z) (ld : loader) : cloader :=
  mkCLoader (ld_type ld) size (map (fun p => (fst p, mkCSection (sec_off (snd p)) (sec_len (snd p)) 0)) (ld_tables ld)).

(* parseOTF with its allocation: the table map is made with the numTables hint once the header is read *)
Definition parse_otf_m (file : list Z) (offset : Z) (relative : bool) : M cloader :=
  dom hdr <- lift (read_partial file offset 12);
  dom _ <- alloc (loader_cost + map_cost (get16 (skipn 4 hdr)));
  dom ld <- lift (parse_otf file offset relative);
  ret (of_sfnt_loader (zlen file) ld).

(* parseWOFF: 44-byte header (io.ReadFull), 20-byte entries *)
Definition has_ctag (tag : Z) (acc : list (Z * csection)) : bool := existsb (fun p => fst p =? tag) acc.
Fixpoint read_woff_entries (file : list Z) (pos : Z) (n : nat) (offset : Z) (relative : bool)
         (acc : list (Z * csection)) : res (list (Z * csection)) :=
  match n with
  | O => Ok acc
  | S n' =>
      do buf <- read_full_seq file pos 20;
      let tag := get32 buf in
      let off := get32 (skipn 4 buf) in
      let clen := get32 (skipn 8 buf) in
      let olen := get32 (skipn 12 buf) in
      if has_ctag tag acc then read_woff_entries file (pos + 20) n' offset relative acc
      else if relative then
             let o := wrap32 (off + offset) in
             if o <? offset then Err e_overflow
             else read_woff_entries file (pos + 20) n' offset relative (acc ++ [(tag, mkCSection o clen olen)])
           else read_woff_entries file (pos + 20) n' offset relative (acc ++ [(tag, mkCSection off clen olen)])
  end.

Definition parse_woff_m (file : list Z) (offset : Z) (relative : bool) : M cloader :=
  dom hdr <- lift (read_full_seq file offset 44);
  let flavor := get32 (skipn 4 hdr) in
  let num := get16 (skipn 12 hdr) in
  dom _ <- alloc (loader_cost + map_cost num);
  dom tabs <- lift (read_woff_entries file (offset + 44) (Z.to_nat num) offset relative []);
  ret (mkCLoader flavor (zlen file) tabs).

Definition parse_one_font_m (file : list Z) (offset : Z) (relative : bool) : M cloader :=
  dom m <- lift (read_partial file offset 4);
  let magic := get32 m in
  if magic =? tag_woff then parse_woff_m file offset relative
  else if (magic =? tag_truetype) || (magic =? tag_otto) || (magic =? tag_typ1) || (magic =? tag_true)
  then parse_otf_m file offset relative
  else if (magic =? tag_ttcf) || (magic =? tag_dfont) then fail e_collection
  else fail e_format.

(* parseUint32s(data, count) *)
Fixpoint parse_uint32s (data : list Z) (i : Z) (n : nat) : res (list Z) :=
  match n with
  | O => Ok []
  | S n' => do x <- get32_at data (4 * i); do r <- parse_uint32s data (i + 1) n'; Ok (x :: r)
  end.

(* parseTTCHeader: Read of 12 bytes (short reads are not an error), numFonts at 8 *)
Definition parse_ttc_header_m (file : list Z) : M (list Z) :=
  dom buf <- lift (read_partial file 0 12);
  let num := get32 (skipn 8 buf) in
  if num =? 0 then fail e_format
  else if max_num_fonts <? num then fail e_limit
  else
    let nb := wrap32 (num * 4) in
    dom _ <- alloc nb;
    dom data <- lift (read_full_seq file (Z.min (zlen file) 12) nb);
    dom _ <- alloc (4 * num);
    lift (parse_uint32s data 0 (Z.to_nat num)).

(* the loop over the type list of a dfont resource map: the last "sfnt" entry wins, an earlier bad one fails *)
Fixpoint dfont_types (tl : list Z) (i : Z) (n : nat) (nf rlo : Z) : res (Z * Z) :=
  match n with
  | O => Ok (nf, rlo)
  | S n' =>
      do t <- get32_at tl (8 * i);
      if negb (t =? tag_sfnt) then dfont_types tl (i + 1) n' nf rlo
      else
        do a <- get16_at tl (8 * i + 4);
        let nf' := sint16 a in
        if nf' <? 0 then Err e_dfont
        else
          do b <- get16_at tl (8 * i + 6);
          let rlo' := sint16 b in
          if rlo' <? 0 then Err e_dfont
          else dfont_types tl (i + 1) n' (nf' + 1) rlo'
  end.

Fixpoint dfont_offsets (ob : list Z) (i : Z) (n : nat) : res (list Z) :=
  match n with
  | O => Ok []
  | S n' =>
      do x <- get32_at ob (12 * i + 4);
      let o := wrap32 (x mod 16777216 + 260) in       (* 0xffffff & x, + dfontResourceDataOffset + 4 *)
      if 536870912 <? o then Err e_overflow
      else do r <- dfont_offsets ob (i + 1) n'; Ok (o :: r)
  end.

Definition max_table := 536870912.   (* 1 << 29 *)

Definition parse_dfont_m (file : list Z) : M (list Z) :=
  dom buf <- lift (read_partial file 0 16);
  let rmo := get32 (skipn 4 buf) in
  let rml := get32 (skipn 12 buf) in
  if (max_table <? rmo) || (max_table <? rml) then fail e_overflow
  else if rml <? 28 then fail e_dfont
  else
    dom b1 <- lift (read_at file (wrap32 (rmo + 24)) 2);
    let tlo := sint16 (get16 b1) in
    if (tlo <? 28) || (rml <? wrap32 (wrap32 tlo + 2)) then fail e_dfont
    else
      dom b2 <- lift (read_at file (rmo + tlo) 2);
      let tc0 := get16 b2 in
      if tc0 =? 65535 then fail e_dfont
      else
        let tc := tc0 + 1 in
        if wrap32 (rml - wrap32 tlo - 2) <? wrap32 (8 * wrap32 tc) then fail e_dfont
        else
          dom _ <- alloc (8 * tc);
          dom tl <- lift (read_at file (rmo + tlo + 2) (8 * tc));
          dom nr <- lift (dfont_types tl 0 (Z.to_nat tc) 0 0);
          let '(nf, rlo) := nr in
          if nf =? 0 then fail e_dfont
          else if max_num_fonts <? nf then fail e_limit
          else
            let o := wrap32 (tlo + rlo) in
            let n := wrap32 (12 * wrap32 nf) in
            if (rml <? o) || (wrap32 (rml - o) <? n) then fail e_dfont
            else
              dom _ <- alloc n;
              dom ob <- lift (read_at file (wrap32 (rmo + o)) n);
              dom _ <- alloc (4 * nf);
              lift (dfont_offsets ob 0 (Z.to_nat nf)).

Fixpoint parse_each (file : list Z) (offs : list Z) (relative : bool) : M (list cloader) :=
  match offs with
  | [] => ret []
  | o :: r =>
      dom ld <- parse_one_font_m file o relative;
      dom rest <- parse_each file r relative;
      ret (ld :: rest)
  end.

Definition first4 (file : list Z) : list Z := firstn 4 file ++ repeat 0 (4 - length (firstn 4 file)).

Definition new_loaders (file : list Z) : M (list cloader) :=
  if zlen file <=? 0 then fail e_eof
  else
    let magic := get32 (first4 file) in
    if (magic =? tag_woff) || (magic =? tag_truetype) || (magic =? tag_otto) || (magic =? tag_typ1) || (magic =? tag_true)
    then dom ld <- parse_one_font_m file 0 false; ret [ld]
    else if magic =? tag_ttcf then
      dom offs <- parse_ttc_header_m file;
      dom _ <- alloc (8 * zlen offs);
      parse_each file offs false
    else if magic =? tag_dfont then
      dom offs <- parse_dfont_m file;
      dom _ <- alloc (8 * zlen offs);
      parse_each file offs true
    else fail e_format.

(* ---- RawTable / findTableBuffer (dst = nil) ------------------------------------------------------------- *)
Definition max_deflate_ratio := 1032.
Inductive raw_result :=
| RawBytes (b : list Z)                 (* read straight from the file *)
| RawInflate (off len zlen : Z).        (* handed to zlib: buffer of zlen bytes, compressed section [off, off+len) *)

Fixpoint find_csection (tag : Z) (l : list (Z * csection)) : option csection :=
  match l with
  | [] => None
  | (t, s) :: r => if t =? tag then Some s else find_csection tag r
  end.

Definition find_table_buffer (file : list Z) (size : Z) (s : csection) : M raw_result :=
  if negb (cs_len s =? 0) && (cs_len s <? cs_zlen s) then
    if (size <? cs_off s + cs_len s) || (max_deflate_ratio * cs_len s <? cs_zlen s) then fail e_eof
    else dom _ <- alloc (cs_zlen s); ret (RawInflate (cs_off s) (cs_len s) (cs_zlen s))
  else
    if negb (cs_len s =? 0) && (size <? cs_off s + cs_len s) then fail e_eof
    else
      dom _ <- alloc (cs_len s);
      if cs_len s =? 0 then ret (RawBytes [])
      else dom b <- lift (read_at file (cs_off s) (cs_len s)); ret (RawBytes b).

Definition raw_table_m (file : list Z) (ld : cloader) (tag : Z) : M raw_result :=
  match find_csection tag (cl_tables ld) with
  | None => fail e_missing
  | Some s => find_table_buffer file (cl_size ld) s
  end.

(* the code before the repair (commit "fix: RawTable checks the table section against the file size ..."):
   the buffer was allocated from the directory length without looking at the file *)
Definition find_table_buffer_unfixed (file : list Z) (s : csection) : M raw_result :=
  if negb (cs_len s =? 0) && (cs_len s <? cs_zlen s) then
    dom _ <- alloc (cs_zlen s); ret (RawInflate (cs_off s) (cs_len s) (cs_zlen s))
  else
    dom _ <- alloc (cs_len s);
    if cs_len s =? 0 then ret (RawBytes [])
    else dom b <- lift (read_at file (cs_off s) (cs_len s)); ret (RawBytes b).

Definition loader_ctables (ld : cloader) : list Z := sort_tags (map fst (cl_tables ld)).
