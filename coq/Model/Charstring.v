(* Executable model of the Type 2 charstring interpreter used for CFF outlines and extents:

     font/cff/interpreter/interpreter.go   Machine.Run, parseNumber (Type2Charstring context), CallSubroutine, Return,
                                           subrBias, ArgStack (513 entries), call stack (10 entries), SkipBytes
     font/cff/interpreter/charstrings.go   CharstringReader: Hstem/Vstem/Hintmask (hint mask byte count), move/line/curve,
                                           ensureClosePath/ClosePath, updateBounds, Rmoveto/Hmoveto/Vmoveto, Rlineto/Hlineto/
                                           Vlineto, Rrcurveto, Hhcurveto/Vvcurveto/Hvcurveto/Vhcurveto, Rcurveline/Rlinecurve,
                                           Hflex/Flex/Hflex1/Flex1, LocalSubr/GlobalSubr, PathBounds.ToExtents
     font/cff/charstring.go                type2CharstringHandler.Apply, CFF.LoadGlyph (the run itself; fdSelect is a hook);
                                           cff2CharstringHandler.Apply / setVSIndex / blend and CFF2.LoadGlyph at the default
                                           coordinates (no coordinate set: blend only drops its deltas)

   Numbers: the Go code keeps operands and coordinates in float64.  Every operand is an integer below 2^15 in magnitude or a
   16.16 fixed number (int32 / 65536), i.e. an integer multiple of 2^-16; here a number is the INTEGER  value * 2^16.
   float64 additions of such numbers are exact as long as the magnitudes stay below 2^37 (53-bit significand); the model
   reports [cs_exact = false] otherwise and the check then refuses the case.  The conversion to the float32 of a Segment is
   modelled exactly (Model/F32.v).  The optional width operand only feeds a field nobody reads; it is not modelled.
   No proofs in this file. *)
From TV Require Export Lib.Bytes Lib.Res Model.F32.
Open Scope Z_scope.

Definition pt := (Z * Z)%type.                       (* units of 2^-16 *)
Inductive cseg := CMove (p : pt) | CLine (p : pt) | CCube (a b c : pt).

Definition FX : Z := 65536.

(* CharstringReader *)
Record reader := mkRd {
  r_segs : list cseg;            (* REVERSED *)
  r_bounds : Z * Z * Z * Z;      (* Min.X, Min.Y, Max.X, Max.Y *)
  r_vstem : Z; r_hstem : Z; r_hmsize : Z;
  r_cur : pt; r_first : pt;
  r_open : bool; r_seen_hm : bool; r_seen_pt : bool
}.
Definition rd_init := mkRd [] (0, 0, 0, 0) 0 0 0 (0, 0) (0, 0) false false false.

Definition set_segs (r : reader) (s : list cseg) :=
  mkRd s (r_bounds r) (r_vstem r) (r_hstem r) (r_hmsize r) (r_cur r) (r_first r) (r_open r) (r_seen_hm r) (r_seen_pt r).

(* updateBounds *)
Definition update_bounds (r : reader) (p : pt) : reader :=
  let b := if r_seen_pt r then
             let '(minx, miny, maxx, maxy) := r_bounds r in
             (Z.min minx (fst p), Z.min miny (snd p), Z.max maxx (fst p), Z.max maxy (snd p))
           else (fst p, snd p, fst p, snd p) in
  mkRd (r_segs r) b (r_vstem r) (r_hstem r) (r_hmsize r) (r_cur r) (r_first r) (r_open r) (r_seen_hm r) true.

Definition pt_eqb (a b : pt) : bool := (fst a =? fst b) && (snd a =? snd b).
Definition padd (p : pt) (dx dy : Z) : pt := (fst p + dx, snd p + dy).

(* ensureClosePath *)
Definition ensure_close (r : reader) : reader :=
  if pt_eqb (r_first r) (r_cur r) then r else set_segs r (CLine (r_first r) :: r_segs r).
(* ClosePath *)
Definition close_path (r : reader) : reader :=
  let r1 := ensure_close r in
  mkRd (r_segs r1) (r_bounds r1) (r_vstem r1) (r_hstem r1) (r_hmsize r1) (r_cur r1) (r_first r1) false (r_seen_hm r1) (r_seen_pt r1).

(* move(pt): pt is relative *)
Definition rd_move (r : reader) (dx dy : Z) : reader :=
  let r1 := ensure_close r in
  let c := padd (r_cur r1) dx dy in
  mkRd (CMove c :: r_segs r1) (r_bounds r1) (r_vstem r1) (r_hstem r1) (r_hmsize r1) c c false (r_seen_hm r1) (r_seen_pt r1).

Definition open_path (r : reader) : reader :=
  if r_open r then r else
  let r1 := update_bounds r (r_cur r) in
  mkRd (r_segs r1) (r_bounds r1) (r_vstem r1) (r_hstem r1) (r_hmsize r1) (r_cur r1) (r_first r1) true (r_seen_hm r1) (r_seen_pt r1).

Definition set_cur (r : reader) (p : pt) : reader :=
  mkRd (r_segs r) (r_bounds r) (r_vstem r) (r_hstem r) (r_hmsize r) p (r_first r) (r_open r) (r_seen_hm r) (r_seen_pt r).

(* line(pt): absolute *)
Definition rd_line (r : reader) (p : pt) : reader :=
  let r1 := open_path r in
  let r2 := update_bounds (set_cur r1 p) p in
  set_segs r2 (CLine p :: r_segs r2).

(* curve(pt1, pt2, pt3): absolute *)
Definition rd_curve (r : reader) (p1 p2 p3 : pt) : reader :=
  let r1 := open_path r in
  let r2 := update_bounds (update_bounds r1 p1) p2 in
  let r3 := update_bounds (set_cur r2 p3) p3 in
  set_segs r3 (CCube p1 p2 p3 :: r_segs r3).

(* ---- the path operators, on the argument stack as a list (bottom first) ---- *)

Fixpoint op_rlineto (r : reader) (l : list Z) : reader :=
  match l with
  | dx :: dy :: t => op_rlineto (rd_line r (padd (r_cur r) dx dy)) t
  | _ => r
  end.

(* Hlineto (horiz = true) and Vlineto (horiz = false) *)
Definition add_axis (horiz : bool) (p : pt) (v : Z) : pt := if horiz then (fst p + v, snd p) else (fst p, snd p + v).
Fixpoint op_hvlineto (horiz : bool) (r : reader) (l : list Z) : reader :=
  match l with
  | a :: b :: t =>
      let p1 := add_axis horiz (r_cur r) a in
      let r1 := rd_line r p1 in
      let p2 := add_axis (negb horiz) p1 b in
      op_hvlineto horiz (rd_line r1 p2) t
  | [a] => rd_line r (add_axis horiz (r_cur r) a)
  | [] => r
  end.

Definition rel_curve (r : reader) (a b c d e f : Z) : reader :=
  let p1 := padd (r_cur r) a b in let p2 := padd p1 c d in let p3 := padd p2 e f in rd_curve r p1 p2 p3.

Fixpoint op_rrcurveto (r : reader) (l : list Z) : reader :=
  match l with
  | a :: b :: c :: d :: e :: f :: t => op_rrcurveto (rel_curve r a b c d e f) t
  | _ => r
  end.

(* Hhcurveto (horiz = true) / Vvcurveto (horiz = false): an odd count starts with a cross-axis offset *)
Fixpoint op_hhvv_loop (horiz : bool) (r : reader) (p1 : pt) (l : list Z) : reader :=
  match l with
  | a :: b :: c :: d :: t =>
      let q1 := add_axis horiz p1 a in
      let q2 := padd q1 b c in
      let q3 := add_axis horiz q2 d in
      let r1 := rd_curve r q1 q2 q3 in
      op_hhvv_loop horiz r1 (r_cur r1) t
  | _ => r
  end.
Definition op_hhvv (horiz : bool) (r : reader) (l : list Z) : reader :=
  if Z.odd (Z.of_nat (length l)) then
    match l with
    | a :: t => op_hhvv_loop horiz r (add_axis (negb horiz) (r_cur r) a) t
    | [] => r
    end
  else op_hhvv_loop horiz r (r_cur r) l.

(* Hvcurveto (a_horiz = true: the first tangent is horizontal) / Vhcurveto (a_horiz = false).
   "A" is the axis of the first tangent, "B" the other one. *)
Section HV.
  Variable ah : bool.
  Definition addA := add_axis ah.
  Definition addB := add_axis (negb ah).

  (* first branch (Top % 8 >= 4): a pending curve (p1,p2,p3) is carried *)
  Fixpoint hv_first_loop (r : reader) (p1 p2 p3 : pt) (l : list Z) : reader :=
    match l with
    | a :: b :: c :: d :: e :: f :: g :: h :: t =>
        let r1 := rd_curve r p1 p2 p3 in
        let q1 := addB (r_cur r1) a in
        let q2 := padd q1 b c in
        let q3 := addA q2 d in
        let r2 := rd_curve r1 q1 q2 q3 in
        let s1 := addA q3 e in
        let s2 := padd s1 f g in
        let s3 := addB s2 h in
        hv_first_loop r2 s1 s2 s3 t
    | a :: _ => rd_curve r p1 p2 (addA p3 a)
    | [] => rd_curve r p1 p2 p3
    end.

  (* second branch: [top_odd] = Top & 1 *)
  Fixpoint hv_second_loop (top_odd : bool) (r : reader) (l : list Z) : reader :=
    match l with
    | a :: b :: c :: d :: e :: f :: g :: h :: t =>
        let q1 := addA (r_cur r) a in
        let q2 := padd q1 b c in
        let q3 := addB q2 d in
        let r1 := rd_curve r q1 q2 q3 in
        let s1 := addB q3 e in
        let s2 := padd s1 f g in
        let s3 := addA s2 h in
        let s3' := if (Z.of_nat (length l) <? 16) && top_odd then addB s3 (hd 0 t) else s3 in
        hv_second_loop top_odd (rd_curve r1 s1 s2 s3') t
    | _ => r
    end.

  Definition op_hv (r : reader) (l : list Z) : reader :=
    let top := Z.of_nat (length l) in
    if 4 <=? top mod 8 then
      match l with
      | a :: b :: c :: d :: t =>
          let p1 := addA (r_cur r) a in
          let p2 := padd p1 b c in
          let p3 := addB p2 d in
          hv_first_loop r p1 p2 p3 t
      | _ => r
      end
    else hv_second_loop (Z.odd top) r l.
End HV.

(* Rcurveline: curves while at least 8 operands remain, then one line *)
Fixpoint op_rcurveline_loop (r : reader) (l : list Z) : reader :=
  match l with
  | a :: b :: c :: d :: e :: f :: ((_ :: _ :: _) as t) => op_rcurveline_loop (rel_curve r a b c d e f) t
  | a :: b :: _ => rd_line r (padd (r_cur r) a b)
  | _ => r
  end.
(* Rlinecurve: lines while at least 8 operands remain, then one curve *)
Fixpoint op_rlinecurve_loop (r : reader) (l : list Z) : reader :=
  match l with
  | a :: b :: ((_ :: _ :: _ :: _ :: _ :: _ :: _) as t) => op_rlinecurve_loop (rd_line r (padd (r_cur r) a b)) t
  | a :: b :: c :: d :: e :: f :: _ => rel_curve r a b c d e f
  | _ => r
  end.

Definition double_curve (r : reader) (p1 p2 p3 p4 p5 p6 : pt) : reader := rd_curve (rd_curve r p1 p2 p3) p4 p5 p6.

Definition op_hflex (r : reader) (l : list Z) : res reader :=
  match l with
  | [a; b; c; d; e; f; g] =>
      let p1 := padd (r_cur r) a 0 in
      let p2 := padd p1 b c in
      let p3 := padd p2 d 0 in
      let p4 := padd p3 e 0 in
      let p5 := (fst p4 + f, snd p1) in
      let p6 := padd p5 g 0 in
      Ok (double_curve r p1 p2 p3 p4 p5 p6)
  | _ => Err 30
  end.
Definition op_flex (r : reader) (l : list Z) : res reader :=
  match l with
  | [a; b; c; d; e; f; g; h; i; j; k; m; _] =>
      let p1 := padd (r_cur r) a b in let p2 := padd p1 c d in let p3 := padd p2 e f in
      let p4 := padd p3 g h in let p5 := padd p4 i j in let p6 := padd p5 k m in
      Ok (double_curve r p1 p2 p3 p4 p5 p6)
  | _ => Err 31
  end.
Definition op_hflex1 (r : reader) (l : list Z) : res reader :=
  match l with
  | [a; b; c; d; e; f; g; h; i] =>
      let p1 := padd (r_cur r) a b in
      let p2 := padd p1 c d in
      let p3 := padd p2 e 0 in
      let p4 := padd p3 f 0 in
      let p5 := padd p4 g h in
      let p6 := (fst p5 + i, snd (r_cur r)) in
      Ok (double_curve r p1 p2 p3 p4 p5 p6)
  | _ => Err 32
  end.
Definition op_flex1 (r : reader) (l : list Z) : res reader :=
  match l with
  | [a; b; c; d; e; f; g; h; i; j; k] =>
      let dx := a + c + e + g + i in
      let dy := b + d + f + h + j in
      let p1 := padd (r_cur r) a b in let p2 := padd p1 c d in let p3 := padd p2 e f in
      let p4 := padd p3 g h in let p5 := padd p4 i j in
      let p6 := if Z.abs dy <? Z.abs dx then (fst p5 + k, snd (r_cur r)) else (fst (r_cur r), snd p5 + k) in
      Ok (double_curve r p1 p2 p3 p4 p5 p6)
  | _ => Err 33
  end.

(* ---- the machine ---- *)

Record machine := mkM {
  m_instr : list Z;
  m_calls : list (list Z);       (* call stack, innermost first *)
  m_args : list Z                (* argument stack, bottom first *)
}.

Definition ARG_STACK_SIZE : Z := 513.
Definition CALL_STACK_SIZE : Z := 10.

Definition subr_bias (n : Z) : Z := if n <? 1240 then 107 else if n <? 33900 then 1131 else 32768.

(* parseNumber in the Type2Charstring context: None = the next byte is not a number *)
Definition parse_number (instr : list Z) : option (res (Z * list Z)) :=
  match instr with
  | [] => None
  | b :: t =>
      if b =? 28 then
        Some (match t with
              | b1 :: b2 :: t' => Ok (sint16 (b1 * 256 + b2) * FX, t')
              | _ => Err 1
              end)
      else if b <? 32 then None
      else if b <? 247 then Some (Ok ((b - 139) * FX, t))
      else if b <? 251 then
        Some (match t with b1 :: t' => Ok (((b - 247) * 256 + b1 + 108) * FX, t') | _ => Err 1 end)
      else if b <? 255 then
        Some (match t with b1 :: t' => Ok ((- (b - 251) * 256 - b1 - 108) * FX, t') | _ => Err 1 end)
      else
        Some (match t with
              | b1 :: b2 :: b3 :: b4 :: t' => Ok (sint32 (((b1 * 256 + b2) * 256 + b3) * 256 + b4), t')
              | _ => Err 1
              end)
  end.

(* int32(float64): truncation towards zero *)
Definition to_int32 (v : Z) : Z := Z.quot v FX.

(* CallSubroutine, after the index has been popped *)
Definition call_subr (m : machine) (args : list Z) (subrs : list (list Z)) (index : Z) : res machine :=
  let n := Z.of_nat (length subrs) in
  let i := index + subr_bias n in
  if (i <? 0) || (n <=? i) then Err 2 else
  if Z.of_nat (length (m_calls m)) =? CALL_STACK_SIZE then Err 3 else
  Ok (mkM (nth (Z.to_nat i) subrs []) (m_instr m :: m_calls m) args).

Inductive outcome := Continue (m : machine) (r : reader) | Stop (r : reader).

Definition cleared (m : machine) : machine := mkM (m_instr m) (m_calls m) [].

Definition top (m : machine) : Z := Z.of_nat (length (m_args m)).

(* type2CharstringHandler.Apply; [m] already has the operator bytes removed *)
Definition apply_op (lsubrs gsubrs : list (list Z)) (m : machine) (r : reader) (escaped : bool) (op : Z) : res outcome :=
  let args := m_args m in
  let done (r' : reader) := Ok (Continue (cleared m) r') in
  let done_res (x : res reader) := match x with Ok r' => Ok (Continue (cleared m) r') | Err c => Err c | Panic c => Panic c | OutOfFuel => OutOfFuel end in
  if negb escaped then
    if op =? 11 then                                             (* return *)
      match m_calls m with
      | [] => Err 4
      | c :: cs => Ok (Continue (mkM c cs args) r)
      end
    else if op =? 14 then Ok (Stop (close_path r))               (* endchar *)
    else if (op =? 10) || (op =? 29) then                        (* callsubr, callgsubr *)
      match rev args with
      | [] => Err 5
      | v :: rest =>
          do m' <- call_subr m (rev rest) (if op =? 10 then lsubrs else gsubrs) (to_int32 v);
          Ok (Continue m' r)
      end
    else if op =? 21 then                                        (* rmoveto *)
      match rev args with
      | y :: x :: _ => done (rd_move r x y)
      | _ => Err 6
      end
    else if op =? 22 then                                        (* hmoveto *)
      match rev args with
      | x :: _ => done (rd_move r x 0)
      | _ => Err 6
      end
    else if op =? 4 then                                         (* vmoveto *)
      match rev args with
      | y :: _ => done (rd_move r 0 y)
      | _ => Err 6
      end
    else if (op =? 1) || (op =? 18) then                         (* hstem, hstemhm *)
      done (mkRd (r_segs r) (r_bounds r) (r_vstem r) (r_hstem r + top m / 2) (r_hmsize r) (r_cur r) (r_first r)
                 (r_open r) (r_seen_hm r) (r_seen_pt r))
    else if (op =? 3) || (op =? 23) then                         (* vstem, vstemhm *)
      done (mkRd (r_segs r) (r_bounds r) (r_vstem r + top m / 2) (r_hstem r) (r_hmsize r) (r_cur r) (r_first r)
                 (r_open r) (r_seen_hm r) (r_seen_pt r))
    else if (op =? 19) || (op =? 20) then                        (* hintmask, cntrmask *)
      let r1 := if r_seen_hm r then r else
                  let vs := r_vstem r + top m / 2 in
                  mkRd (r_segs r) (r_bounds r) vs (r_hstem r) (Z.shiftr (r_hstem r + vs + 7) 3) (r_cur r) (r_first r)
                       (r_open r) true (r_seen_pt r) in
      let count := r_hmsize r1 in
      (* SkipBytes: nothing at all (the stack is NOT cleared either) when count >= len(instructions) *)
      if Z.of_nat (length (m_instr m)) <=? count then Ok (Continue m r1)
      else Ok (Continue (mkM (skipn (Z.to_nat count) (m_instr m)) (m_calls m) []) r1)
    else if op =? 5 then done (op_rlineto r args)
    else if op =? 6 then done (op_hvlineto true r args)
    else if op =? 7 then done (op_hvlineto false r args)
    else if op =? 8 then done (op_rrcurveto r args)
    else if op =? 24 then (if top m <? 8 then Err 7 else done (op_rcurveline_loop r args))
    else if op =? 25 then (if top m <? 8 then Err 7 else done (op_rlinecurve_loop r args))
    else if op =? 26 then done (op_hhvv false r args)
    else if op =? 27 then done (op_hhvv true r args)
    else if op =? 30 then done (op_hv false r args)
    else if op =? 31 then done (op_hv true r args)
    else Err 8
  else
    if op =? 34 then done_res (op_hflex r args)
    else if op =? 35 then done_res (op_flex r args)
    else if op =? 36 then done_res (op_hflex1 r args)
    else if op =? 37 then done_res (op_flex1 r args)
    else Err 8.

(* one iteration of the loop of Machine.Run; instructions are known to be non-empty *)
Definition step (lsubrs gsubrs : list (list Z)) (m : machine) (r : reader) : res outcome :=
  match parse_number (m_instr m) with
  | Some (Ok (v, rest)) =>
      if top m =? ARG_STACK_SIZE then Err 9 else Ok (Continue (mkM rest (m_calls m) (m_args m ++ [v])) r)
  | Some (Err c) => Err c
  | Some (Panic c) => Panic c
  | Some OutOfFuel => OutOfFuel
  | None =>
      match m_instr m with
      | [] => Ok (Stop r)
      | b :: rest =>
          if b =? 12 then
            match rest with
            | [] => Err 10
            | b2 :: rest2 => apply_op lsubrs gsubrs (mkM rest2 (m_calls m) (m_args m)) r true b2
            end
          else apply_op lsubrs gsubrs (mkM rest (m_calls m) (m_args m)) r false b
      end
  end.

Fixpoint run_loop (fuel : nat) (lsubrs gsubrs : list (list Z)) (m : machine) (r : reader) : res reader :=
  match fuel with
  | O => OutOfFuel
  | S k =>
      match m_instr m with
      | [] =>
          (* the end of a subroutine is an implicit return; the end of the charstring ends the run *)
          match m_calls m with
          | [] => Ok r
          | c :: cs => run_loop k lsubrs gsubrs (mkM c cs (m_args m)) r
          end
      | _ =>
          do o <- step lsubrs gsubrs m r;
          match o with
          | Stop r' => Ok r'
          | Continue m' r' => run_loop k lsubrs gsubrs m' r'
          end
      end
  end.

(* CFF.LoadGlyph once the charstring and the subroutine lists are known: segments in order, bounds *)
Definition load_glyph (fuel : nat) (cs : list Z) (lsubrs gsubrs : list (list Z)) : res (list cseg * (Z * Z * Z * Z)) :=
  do r <- run_loop fuel lsubrs gsubrs (mkM cs [] []) rd_init;
  Ok (rev (r_segs r), r_bounds r).

(* ---- CFF2 (cff2CharstringHandler) at the default coordinates ----
   No return and no endchar operator; vsindex selects an ItemVariationData, blend drops the k deltas of each of its n
   operands (k = number of regions of the selected data; no delta is applied because no coordinate is set).
   [vs] lists, per ItemVariationData, its region count and whether all its region indices are valid. *)
Definition vs_data := list (Z * bool).

(* setVSIndex: new k or an error; with an empty store nothing happens *)
Definition set_vs (vs : vs_data) (k idx : Z) : res Z :=
  match vs with
  | [] => Ok k
  | _ =>
      if (idx <? 0) || (Z.of_nat (length vs) <=? idx) then Err 40 else
      let '(k', valid) := nth (Z.to_nat idx) vs (0, true) in
      if valid then Ok k' else Err 41
  end.
(* the call made by LoadGlyph before the run: its error is ignored, but the scalars are resized before it is detected *)
Definition init_vs (vs : vs_data) (idx : Z) : Z :=
  match vs with
  | [] => 0
  | _ => if (idx <? 0) || (Z.of_nat (length vs) <=? idx) then 0 else fst (nth (Z.to_nat idx) vs (0, true))
  end.

Definition apply_op2 (vs : vs_data) (lsubrs gsubrs : list (list Z)) (k : Z) (m : machine) (r : reader) (escaped : bool) (op : Z)
    : res (outcome * Z) :=
  if negb escaped && ((op =? 11) || (op =? 14)) then Err 8                 (* not CFF2 operators *)
  else if negb escaped && (op =? 15) then                                   (* vsindex *)
    match rev (m_args m) with
    | [] => Err 42
    | v :: _ => do k' <- set_vs vs k (to_int32 v); Ok (Continue (cleared m) r, k')
    end
  else if negb escaped && (op =? 16) then                                   (* blend: the stack is not cleared *)
    match rev (m_args m) with
    | [] => Err 43
    | v :: rest =>
        let n := to_int32 v in
        let t := Z.of_nat (length rest) in
        if (n <? 0) || (t <? n * (k + 1)) then Err 44
        else Ok (Continue (mkM (m_instr m) (m_calls m) (firstn (Z.to_nat (t - n * k)) (m_args m))) r, k)
    end
  else do o <- apply_op lsubrs gsubrs m r escaped op; Ok (o, k).

Definition step2 (vs : vs_data) (lsubrs gsubrs : list (list Z)) (k : Z) (m : machine) (r : reader) : res (outcome * Z) :=
  match parse_number (m_instr m) with
  | Some (Ok (v, rest)) =>
      if top m =? ARG_STACK_SIZE then Err 9 else Ok (Continue (mkM rest (m_calls m) (m_args m ++ [v])) r, k)
  | Some (Err c) => Err c
  | Some (Panic c) => Panic c
  | Some OutOfFuel => OutOfFuel
  | None =>
      match m_instr m with
      | [] => Ok (Stop r, k)
      | b :: rest =>
          if b =? 12 then
            match rest with
            | [] => Err 10
            | b2 :: rest2 => apply_op2 vs lsubrs gsubrs k (mkM rest2 (m_calls m) (m_args m)) r true b2
            end
          else apply_op2 vs lsubrs gsubrs k (mkM rest (m_calls m) (m_args m)) r false b
      end
  end.

Fixpoint run_loop2 (fuel : nat) (vs : vs_data) (lsubrs gsubrs : list (list Z)) (k : Z) (m : machine) (r : reader) : res reader :=
  match fuel with
  | O => OutOfFuel
  | S f =>
      match m_instr m with
      | [] =>
          match m_calls m with
          | [] => Ok r
          | c :: cs => run_loop2 f vs lsubrs gsubrs k (mkM c cs (m_args m)) r
          end
      | _ =>
          do o <- step2 vs lsubrs gsubrs k m r;
          match o with
          | (Stop r', _) => Ok r'
          | (Continue m' r', k') => run_loop2 f vs lsubrs gsubrs k' m' r'
          end
      end
  end.

(* CFF2.LoadGlyph(glyph, nil) *)
Definition load_glyph2 (fuel : nat) (cs : list Z) (lsubrs gsubrs : list (list Z)) (vs : vs_data) (default_vs : Z)
    : res (list cseg * (Z * Z * Z * Z)) :=
  do r <- run_loop2 fuel vs lsubrs gsubrs (init_vs vs default_vs) (mkM cs [] []) rd_init;
  Ok (rev (r_segs r), r_bounds r).

(* ---- observation: float32 segments, extents ---- *)

(* float32(p.X) for p.X = v / 2^16 *)
Definition f32_of_fx (v : Z) : Z := f32_round_sh (Z.shiftl v 133) 0.
Definition seg_points (s : cseg) : list pt :=
  match s with CMove p => [p] | CLine p => [p] | CCube a b c => [a; b; c] end.

(* float64 exactness: every coordinate stays below 2^36 (units of 2^-16: below 2^52) *)
Definition cs_exact (segs : list cseg) : bool :=
  forallb (fun s => forallb (fun p => (Z.abs (fst p) <? Z.shiftl 1 52) && (Z.abs (snd p) <? Z.shiftl 1 52)) (seg_points s)) segs.

(* math.Round: half away from zero *)
Definition round_haz (v : Z) : Z := Z.sgn v * ((Z.abs v + 32768) / FX).
(* PathBounds.ToExtents: XBearing, YBearing, Width, Height as float32 *)
Definition to_extents (b : Z * Z * Z * Z) : Z * Z * Z * Z :=
  let '(minx, miny, maxx, maxy) := b in
  let xb := round_haz minx in
  let yb := round_haz maxy in
  (f32_of_int xb, f32_of_int yb, f32_of_int (round_haz (maxx - xb * FX)), f32_of_int (round_haz (miny - yb * FX))).
