(* Model of the CONVERSION part of shaping.HarfbuzzShaper.Shape (shaping/shaping.go): how the font scale is derived from
   Input.Size, how the buffer the HarfBuzz engine leaves behind (Info, Pos), the glyph extents and the font's line
   extents become a shaping.Output:

     isSideways / SwitchAxis, buf.Props.Direction = input.Direction.Harfbuzz(),
     font.XScale = int32(input.Size.Ceil()) << scaleShift; font.YScale = font.XScale,
     the loop  glyphs[i] = Glyph{ClusterIndex, GlyphID, Mask}; extents, ok := font.GlyphExtents(g); if !ok {continue};
               Width.. YOffset = fixed.I(int(v)) >> scaleShift,
     countClusters(glyphs, input.RunEnd, input.Direction.Progression())        (model: ShapeGlue.count_clusters, C01),
     out.Runes, out.Size, out.Direction; if isSideways { out.sideways() }      (model: Output.sideways, C12),
     fontExtents := font.ExtentsForDirection(out.Direction.Harfbuzz()); out.LineBounds = fixed.I(int(float32)) >> scaleShift,
     out.RecalculateAll()                                                      (model: Output.recalculate_all, C12).

   The engine (Buffer.Shape), harfbuzz.Font.GlyphExtents and harfbuzz.Font.ExtentsForDirection are Section variables:
   functions of the font scale (and of the harfbuzz direction / the glyph id), so that "the same scale" is visible in
   the model.  harfbuzz.Position and the extents are int32, fixed.Int26_6 is int32: conversions wrap explicitly.
   font.FontExtents fields are float32: a finite float32 is m * 2^e with integers m, e; int(f) truncates towards zero.
   Face is only copied and is left out. *)
From TV Require Export Lib.GoNum Lib.Res Model.Output.
From TV Require Import Model.ShapeGlue.

(* const scaleShift = 6 *)
Definition scale_shift : Z := 6.

(* fixed.I(i) = Int26_6(i << 6): the shift is done on int (64 bit, no overflow for int32 arguments), the conversion to
   int32 truncates *)
Definition fixed_I (i : Z) : Z := sint32 (Z.shiftl i 6).
(* fixed.I(int(v)) >> scaleShift  (>> on a signed int32 is arithmetic: floor) *)
Definition fix_conv (v : Z) : Z := Z.shiftr (fixed_I v) scale_shift.

(* func (x Int26_6) Ceil() int { return int((x + 0x3f) >> 6) }   (int32 addition wraps) *)
Definition ceil26_6 (x : Z) : Z := Z.shiftr (sint32 (x + 63)) 6.
(* font.XScale = int32(input.Size.Ceil()) << scaleShift   (int32 shift wraps) *)
Definition font_scale (size : Z) : Z := sint32 (Z.shiftl (sint32 (ceil26_6 size)) scale_shift).

(* di.Direction *)
Definition is_sideways (d : Z) : bool := is_vertical d && Z.testbit d 3.     (* d.IsVertical() && d&verticalSideways != 0 *)
Definition switch_axis (d : Z) : Z := Z.lxor d 2.                            (* d ^ axisVertical *)
(* Direction.Harfbuzz: switch d & (progression|axisVertical) { RTL; BTT; TTB; default LTR }, harfbuzz.LeftToRight = 4 .. BottomToTop = 7 *)
Definition harfbuzz_dir (d : Z) : Z :=
  match toward d, is_vertical d with
  | true, false => 5
  | true, true => 7
  | false, true => 6
  | false, false => 4
  end.

(* one element of buf.Info / buf.Pos after Buffer.Shape *)
Record hbglyph := mkHB { hb_gid : Z; hb_mask : Z; hb_cluster : Z; hb_xadv : Z; hb_yadv : Z; hb_xoff : Z; hb_yoff : Z }.
(* harfbuzz.GlyphExtents *)
Record hbext := mkExt { e_xbearing : Z; e_ybearing : Z; e_width : Z; e_height : Z }.
(* a finite float32: m * 2^e *)
Record f32 := mkF { f_m : Z; f_e : Z }.
(* Go int(f): truncation towards zero *)
Definition f_trunc (f : f32) : Z := if 0 <=? f_e f then f_m f * 2 ^ f_e f else Z.quot (f_m f) (2 ^ (- f_e f)).
(* font.FontExtents *)
Record fextents := mkFE { fe_asc : f32; fe_desc : f32; fe_gap : f32 }.

Definition with_counts (g : glyph) (rc gc : Z) : glyph :=
  mkGlyph (g_width g) (g_height g) (g_xbearing g) (g_ybearing g) (g_xadv g) (g_yadv g) (g_xoff g) (g_yoff g)
          (g_cluster g) rc gc (g_startls g) (g_endls g).

(* everything Shape hands back or sets, as far as the conversion is concerned *)
Record conv_out := mkCO {
  co_out : output;            (* Advance, Glyphs, GlyphBounds, Direction *)
  co_line : bounds;           (* LineBounds *)
  co_ids : list (Z * Z);      (* GlyphID, Mask per glyph *)
  co_off : Z; co_count : Z;   (* Runes.Offset, Runes.Count *)
  co_size : Z;                (* Size *)
  co_scale : Z;               (* font.XScale = font.YScale as seen by the engine and the extents *)
  co_hbdir : Z                (* buf.Props.Direction as seen by the engine *)
}.

Definition line_of (fe : fextents) : bounds :=
  mkBounds (fix_conv (f_trunc (fe_asc fe))) (fix_conv (f_trunc (fe_desc fe))) (fix_conv (f_trunc (fe_gap fe))).

Section Conv.
  Variable eng : Z -> Z -> list hbglyph.    (* font scale, harfbuzz direction |-> buf.Info/buf.Pos after Buffer.Shape *)
  Variable ext : Z -> Z -> option hbext.    (* font scale, glyph id |-> font.GlyphExtents *)
  Variable fext : Z -> Z -> fextents.       (* font scale, harfbuzz direction |-> font.ExtentsForDirection *)

  (* body of the conversion loop; RuneCount/GlyphCount are filled in by countClusters afterwards *)
  Definition conv_glyph (scale : Z) (h : hbglyph) : glyph :=
    match ext scale (hb_gid h) with
    | None => mkGlyph 0 0 0 0 0 0 0 0 (hb_cluster h) 0 0 0 0       (* continue: zero size AND zero advance *)
    | Some e =>
      mkGlyph (fix_conv (e_width e)) (fix_conv (e_height e)) (fix_conv (e_xbearing e)) (fix_conv (e_ybearing e))
              (fix_conv (hb_xadv h)) (fix_conv (hb_yadv h)) (fix_conv (hb_xoff h)) (fix_conv (hb_yoff h))
              (hb_cluster h) 0 0 0 0
    end.

  Fixpoint annotate (gs : list glyph) (cs : list cglyph) : list glyph :=
    match gs, cs with
    | g :: gs', c :: cs' => with_counts g (cg_rc c) (cg_gc c) :: annotate gs' cs'
    | _, _ => []
    end.

  Definition conv_glyphs (scale : Z) (run_end : Z) (rtl : bool) (hb : list hbglyph) : list glyph :=
    annotate (map (conv_glyph scale) hb) (ShapeGlue.count_clusters (map hb_cluster hb) run_end rtl).

  Definition shape_conv (size dir run_start run_end : Z) : conv_out :=
    let sw := is_sideways dir in
    let d1 := if sw then switch_axis dir else dir in       (* temporarily switch to horizontal *)
    let hbdir := harfbuzz_dir d1 in
    let scale := font_scale size in
    let hb := eng scale hbdir in
    let gs := conv_glyphs scale run_end (toward d1) hb in
    let out0 := mkOut 0 gs (mkBounds 0 0 0) d1 in
    let out1 := if sw then sideways out0 else out0 in
    let fe := fext scale (harfbuzz_dir (o_dir out1)) in
    mkCO (recalculate_all out1) (line_of fe) (map (fun h => (hb_gid h, hb_mask h)) hb)
         run_start (run_end - run_start) size scale hbdir.
End Conv.
