(* The simple-glyph path of Face.getPointsForGlyph for a VARIABLE face (font/glyphs.go), on raw glyf / hmtx / vmtx
   bytes and the raw GlyphVariationData of the glyph: contour points as float32, the four phantom points,
   gvar.applyDeltasToPoints, the shift by minus the varied left phantom point; then extentsFromPoints
   (Face.getExtentsFromGlyf for a variable face) and Face.getGlyphAdvanceVar (the advance of a variable face without
   HVAR / VVAR: difference of the varied phantom points, clamped at 0).  Composite glyphs at non-default coordinates
   are not modelled (Err 22).  No proofs in this file. *)
From Coq Require Import ZArith List Bool.
From TV Require Export Model.Composite Model.GvarDeltas.
Import ListNotations.
Open Scope Z_scope.

(* the points handed to applyDeltasToPoints: before any shift *)
Definition simple_points (e : cenv) (gid : Z) : res (list cpoint) :=
  match lookup_rec (e_recs e) gid with
  | None => Err 21
  | Some raw =>
      do g <- parse_glyph_full raw;
      let '(h, body) := g in
      let ph := phantoms_of e h gid in
      match body with
      | BSimple end_pts pts => Ok (map fp_of_int_point (contour_points_from 0 end_pts pts) ++ ph)
      | BNone => Ok ph
      | BComposite _ => Err 22
      end
  end.

(* Face.getPointsForGlyph(gid, 0) with f.isVar() *)
Definition glyph_points_var (e : cenv) (gid : Z) (gvd : list Z) (axes : Z) (coords : list Z) (shared : list (list Z))
    : res (list cpoint) :=
  if e_nglyf e <=? gid then Ok [] else
  do p <- simple_points e gid;
  do q <- apply_raw gvd axes coords shared p;
  Ok (shift_by_left_phantom q).

(* getGlyphAdvanceVar: clamp(phantoms[right].X - phantoms[left].X), resp. top.Y - bottom.Y *)
Definition advance_from_phantoms (all : list cpoint) (vertical : bool) : Z :=
  let ph := skipn (length all - 4) all in
  let z := mkCP 0 0 false false in
  let d := if vertical then f32_sub (cp_y (nth 2 ph z)) (cp_y (nth 3 ph z))
           else f32_sub (cp_x (nth 1 ph z)) (cp_x (nth 0 ph z)) in
  if d <? 0 then 0 else d.
