(* Hand-written model of the font index wire format of fontscan:
     serialize.go      serializeString / deserializeString, serializeAspect / deserializeAspectFrom,
                       Footprint.serializeTo / deserializeFrom, serializeFootprintsTo / deserializeFootprints,
                       fileFootprints.serializeTo / deserializeFrom (with the aspect validation of the fix),
                       systemFontsIndex.serializeTo / deserializeIndex (on the uncompressed payload; the
                       gzip layer is a Section pair at the end of this file)
     rune_coverage.go  RuneSet.serialize / deserializeFrom, ScriptSet.serialize / deserializeFrom
     langset.go        LangSet.serialize / deserializeFrom
     scan.go           timeStamp.serialize / deserialize
   Every Go slice / index expression is a checked operation that yields Panic when Go would panic.
   Bytes are Z in 0..255, strings are byte lists, float32 are their 32-bit patterns, timeStamp is int64.
   No proofs here. *)
From TV Require Export Lib.Bytes Lib.Res.

(* ---- data ----------------------------------------------------------------------------------- *)
Record aspect := mkAspect { as_style : Z; as_weight : Z; as_stretch : Z }.      (* uint8, float32 bits, float32 bits *)
Record rune_page := mkPage { pg_ref : Z; pg_set : list Z }.                        (* uint16, [8]uint32 *)
Record footprint := mkFP {
  fp_file : list Z; fp_index : Z; fp_instance : Z;                                 (* Location: string, uint16, uint16 *)
  fp_family : list Z;
  fp_runes : list rune_page;
  fp_scripts : list Z;                                                             (* []uint32 *)
  fp_langs : list Z;                                                               (* [8]uint64 *)
  fp_aspect : aspect }.
Record file_fps := mkFF { ff_path : list Z; ff_modtime : Z; ff_fps : list footprint }.
Definition index := list file_fps.

(* ---- error codes (the driver maps Go's error messages to the same numbers) ---------------------- *)
Definition e_string_eof := 1%nat.      (* "invalid string (EOF)" *)
Definition e_string_len := 2%nat.      (* "invalid string length (EOF)" *)
Definition e_aspect_eof := 3%nat.      (* "invalid Aspect (EOF)" *)
Definition e_location := 4%nat.        (* "invalid Location (EOF)" *)
Definition e_runes_eof := 5%nat.       (* "invalid rune set (EOF)" *)
Definition e_runes_size := 6%nat.      (* "invalid rune set size (EOF)" *)
Definition e_scripts_eof := 7%nat.     (* "invalid Script set (EOF)" *)
Definition e_scripts_size := 8%nat.    (* "invalid Script set size (EOF)" *)
Definition e_langs := 9%nat.           (* "invalid lang set (EOF)" *)
Definition e_ff_eof := 10%nat.         (* "invalid fileFootprints (EOF)" *)
Definition e_version := 11%nat.        (* "different index version format" *)
Definition e_header := 12%nat.         (* "invalid index format: ..." (short header) *)
Definition e_stream := 13%nat.         (* "invalid index: EOF / unexpected EOF" (short entry size or body) *)
Definition e_aspect_value := 15%nat.   (* "invalid fileFootprints (corrupted aspect)" *)
Definition e_gzip := 20%nat.           (* gzip layer *)

Definition p_bounds := 1%nat.          (* slice bounds / index out of range *)

(* ---- checked slice operations --------------------------------------------------------------------- *)
(* d[a:] *)
Definition slice_from (d : list Z) (a : Z) : res (list Z) :=
  if (0 <=? a) && (a <=? zlen d) then Ok (zskipn a d) else Panic p_bounds.
(* d[a:b] *)
Definition slice_range (d : list Z) (a b : Z) : res (list Z) :=
  if (0 <=? a) && (a <=? b) && (b <=? zlen d) then Ok (zfirstn (b - a) (zskipn a d)) else Panic p_bounds.
(* d[i] *)
Definition index_at (d : list Z) (i : Z) : res Z :=
  if (0 <=? i) && (i <? zlen d) then Ok (znth 0 d i) else Panic p_bounds.
(* binary.BigEndian.UintNN(d): panics when d is too short *)
Definition be16 (d : list Z) : res Z :=
  match d with a :: b :: _ => Ok (a * 256 + b) | _ => Panic p_bounds end.
Definition be32 (d : list Z) : res Z :=
  match d with a :: b :: c :: e :: _ => Ok (a * 16777216 + b * 65536 + c * 256 + e) | _ => Panic p_bounds end.
Definition be64 (d : list Z) : res Z :=
  match d with
  | a :: b :: c :: e :: r => match r with
                             | f :: g :: h :: i :: _ =>
                                 Ok ((a * 16777216 + b * 65536 + c * 256 + e) * 4294967296 + (f * 16777216 + g * 65536 + h * 256 + i))
                             | _ => Panic p_bounds
                             end
  | _ => Panic p_bounds
  end.
Definition put64 (x : Z) : list Z := put32 (x / 4294967296) ++ put32 (x mod 4294967296).
Definition sint64 (x : Z) : Z := let y := wrap64 x in if y <? 9223372036854775808 then y else y - 18446744073709551616.

(* ---- strings ------------------------------------------------------------------------------------ *)
Definition serialize_string (s : list Z) : list Z :=
  let L := if 65535 <? zlen s then 65535 else zlen s in
  put16 L ++ zfirstn L s.

(* returns the value and the number of bytes read *)
Definition deserialize_string (data : list Z) : res (list Z * Z) :=
  if zlen data <? 2 then Err e_string_eof else
  do L <- be16 data;
  if zlen data <? 2 + L then Err e_string_len else
  do s <- slice_range data 2 (2 + L);
  Ok (s, 2 + L).

(* ---- aspect --------------------------------------------------------------------------------------- *)
Definition aspect_size := 9.
Definition serialize_aspect (a : aspect) : list Z :=
  [wrap8 (as_style a)] ++ put32 (as_weight a) ++ put32 (as_stretch a).

Definition deserialize_aspect (data : list Z) : res (aspect * Z) :=
  if zlen data <? aspect_size then Err e_aspect_eof else
  do st <- index_at data 0;
  do d1 <- slice_from data 1;
  do w <- be32 d1;
  do d5 <- slice_from data 5;
  do s <- be32 d5;
  Ok (mkAspect st w s, aspect_size).

(* isScannedAspect.  float32 comparisons on bit patterns: for non-negative, non-NaN values the order of the
   values is the order of the patterns; every pattern in the accepted intervals is such a value, every NaN
   (> 0x7F800000) and every negative value (>= 0x80000000) lies outside.
   1.0 = 0x3F800000, 65535.0 = 0x477FFF00, 0.5 = 0x3F000000, 2.0 = 0x40000000 *)
Definition weight_ok (bits : Z) : bool := (1065353216 <=? bits) && (bits <=? 1199570688).
Definition stretch_ok (bits : Z) : bool := (1056964608 <=? bits) && (bits <=? 1073741824).
Definition style_normal := 1.
Definition style_italic := 2.
Definition aspect_valid (a : aspect) : bool :=
  ((as_style a =? style_normal) || (as_style a =? style_italic)) && weight_ok (as_weight a) && stretch_ok (as_stretch a).

(* ---- RuneSet ---------------------------------------------------------------------------------------- *)
Definition rune_page_size := 34.
Definition serialize_page (p : rune_page) : list Z := put16 (pg_ref p) ++ concat (map put32 (pg_set p)).
Definition serialize_runes (rs : list rune_page) : list Z :=
  put16 (wrap16 (zlen rs)) ++ concat (map serialize_page rs).

(* for j := range v[i].set { v[i].set[j] = Uint32(slice[4*j:]) } *)
Fixpoint read_words (n : nat) (slice : list Z) (j : Z) : res (list Z) :=
  match n with
  | O => Ok []
  | S n' => do s <- slice_from slice (4 * j);
            do w <- be32 s;
            do r <- read_words n' slice (j + 1);
            Ok (w :: r)
  end.
(* for i := range v { ... } *)
Fixpoint read_pages (n : nat) (data : list Z) (i : Z) : res (list rune_page) :=
  match n with
  | O => Ok []
  | S n' => do s <- slice_from data (2 + rune_page_size * i);
            do ref <- be16 s;
            do sl <- slice_from data (2 + rune_page_size * i + 2);
            do ws <- read_words 8 sl 0;
            do r <- read_pages n' data (i + 1);
            Ok (mkPage ref ws :: r)
  end.
Definition deserialize_runes (data : list Z) : res (list rune_page * Z) :=
  if zlen data <? 2 then Err e_runes_eof else
  do L <- be16 data;
  if zlen data <? 2 + rune_page_size * L then Err e_runes_size else
  do v <- read_pages (Z.to_nat L) data 0;
  Ok (v, 2 + rune_page_size * L).

(* ---- ScriptSet -------------------------------------------------------------------------------------- *)
Definition script_size := 4.
Definition serialize_scripts (ss : list Z) : list Z := [wrap8 (zlen ss)] ++ concat (map put32 ss).
Fixpoint read_scripts (n : nat) (data : list Z) (i : Z) : res (list Z) :=
  match n with
  | O => Ok []
  | S n' => do s <- slice_from data (1 + script_size * i);
            do w <- be32 s;
            do r <- read_scripts n' data (i + 1);
            Ok (w :: r)
  end.
Definition deserialize_scripts (data : list Z) : res (list Z * Z) :=
  if zlen data <? 1 then Err e_scripts_eof else
  do L <- index_at data 0;
  if zlen data <? 1 + script_size * L then Err e_scripts_size else
  do v <- read_scripts (Z.to_nat L) data 0;
  Ok (v, 1 + script_size * L).

(* ---- LangSet ---------------------------------------------------------------------------------------- *)
Definition lang_set_size := 64.
Definition serialize_langs (ls : list Z) : list Z := concat (map put64 ls).
Fixpoint read_langs (n : nat) (data : list Z) (i : Z) : res (list Z) :=
  match n with
  | O => Ok []
  | S n' => do s <- slice_from data (i * 8);
            do w <- be64 s;
            do r <- read_langs n' data (i + 1);
            Ok (w :: r)
  end.
Definition deserialize_langs (data : list Z) : res (list Z * Z) :=
  if zlen data <? lang_set_size then Err e_langs else
  do v <- read_langs 8 data 0;
  Ok (v, lang_set_size).

(* ---- Footprint ---------------------------------------------------------------------------------------- *)
Definition serialize_footprint (fp : footprint) : list Z :=
  serialize_string (fp_file fp) ++ (put16 (fp_index fp) ++ put16 (fp_instance fp))
  ++ serialize_string (fp_family fp) ++ serialize_runes (fp_runes fp) ++ serialize_scripts (fp_scripts fp)
  ++ serialize_langs (fp_langs fp) ++ serialize_aspect (fp_aspect fp).

Definition deserialize_footprint (data : list Z) : res (footprint * Z) :=
  do (file, n) <- deserialize_string data;
  if zlen data <? n + 4 then Err e_location else
  do d0 <- slice_from data n;
  do idx <- be16 d0;
  do d2 <- slice_from data (n + 2);
  do inst <- be16 d2;
  let n := n + 4 in
  do d <- slice_from data n;
  do (family, read) <- deserialize_string d;
  let n := n + read in
  do d <- slice_from data n;
  do (runes, read) <- deserialize_runes d;
  let n := n + read in
  do d <- slice_from data n;
  do (scripts, read) <- deserialize_scripts d;
  let n := n + read in
  do d <- slice_from data n;
  do (langs, read) <- deserialize_langs d;
  let n := n + read in
  do d <- slice_from data n;
  do (asp, read) <- deserialize_aspect d;
  let n := n + read in
  Ok (mkFP file idx inst family runes scripts langs asp, n).

Definition serialize_footprints (fps : list footprint) : list Z := concat (map serialize_footprint fps).

(* for totalRead := 0; totalRead < len(src); { ... }  — a general loop: fuel *)
Fixpoint deserialize_footprints_loop (fuel : nat) (src : list Z) (total_read : Z) (acc : list footprint) : res (list footprint) :=
  if total_read <? zlen src then
    match fuel with
    | O => OutOfFuel
    | S f => do d <- slice_from src total_read;
             do (fp, read) <- deserialize_footprint d;
             deserialize_footprints_loop f src (total_read + read) (acc ++ [fp])
    end
  else Ok acc.
Definition deserialize_footprints (src : list Z) : res (list footprint) :=
  deserialize_footprints_loop (length src) src 0 [].

(* ---- fileFootprints ---------------------------------------------------------------------------------- *)
Definition serialize_ff (ff : file_fps) : list Z :=
  serialize_string (ff_path ff) ++ put64 (wrap64 (ff_modtime ff)) ++ serialize_footprints (ff_fps ff).

Definition deserialize_ff (src : list Z) : res file_fps :=
  do (path, n) <- deserialize_string src;
  if zlen src <? n + 8 then Err e_ff_eof else
  do d <- slice_from src n;
  do mt <- be64 d;
  let n := n + 8 in
  do d <- slice_from src n;
  do fps <- deserialize_footprints d;
  if forallb (fun fp => aspect_valid (fp_aspect fp)) fps
  then Ok (mkFF path (sint64 mt) fps)
  else Err e_aspect_value.

(* ---- systemFontsIndex (uncompressed payload) ---------------------------------------------------------- *)
Definition cache_format_version := 6.

Definition serialize_entry (ff : file_fps) : list Z :=
  let b := serialize_ff ff in put32 (wrap32 (zlen b)) ++ b.
Definition serialize_index (ix : index) : list Z :=
  put16 cache_format_version ++ put32 (wrap32 (zlen ix)) ++ concat (map serialize_entry ix).

(* io.ReadFull(r, buf[:n]) / io.CopyN(&buffer, r, n) on the rest of the stream *)
Definition read_exact (stream : list Z) (n : Z) (e : nat) : res (list Z * list Z) :=
  if zlen stream <? n then Err e else Ok (zfirstn n stream, zskipn n stream).

(* for i := uint32(0); i < L; i++ { ... }   — L comes from the file: fuel = bytes left in the stream *)
Fixpoint deserialize_entries (fuel : nat) (remaining : Z) (stream : list Z) (acc : index) : res index :=
  if remaining <=? 0 then Ok acc else
  match fuel with
  | O => OutOfFuel
  | S f => do (szb, stream1) <- read_exact stream 4 e_stream;
           do size <- be32 szb;
           do (body, stream2) <- read_exact stream1 size e_stream;
           do ff <- deserialize_ff body;
           deserialize_entries f (remaining - 1) stream2 (acc ++ [ff])
  end.

Definition deserialize_index (payload : list Z) : res index :=
  do (hdr, stream) <- read_exact payload 6 e_header;
  do version <- be16 hdr;
  if negb (version =? cache_format_version) then Err e_version else
  do h2 <- slice_from hdr 2;
  do L <- be32 h2;
  deserialize_entries (S (length stream)) L stream [].

(* ---- the file level: gzip is outside the model ------------------------------------------------------ *)
Section File.
  Variable gzip : list Z -> list Z.
  Variable gunzip : list Z -> res (list Z).     (* whole-stream view: the bytes the reader delivers, or an error *)
  Definition serialize_file (ix : index) : list Z := gzip (serialize_index ix).
  Definition deserialize_file (file : list Z) : res index :=
    match gunzip file with
    | Ok payload => deserialize_index payload
    | Err e => Err e
    | Panic p => Panic p
    | OutOfFuel => OutOfFuel
    end.
End File.
