(* Window-local rule engines (C18): the executable part.  No proofs here.

   An engine is a list of passes.  A pass scans a glyph sequence with a cursor: the state is a zipper
   (done, todo) — what the cursor has passed (the out-buffer of GSUB, Info[:idx] of GPOS / kern) and what is still ahead
   (Info[idx:]).  One step of the pass is a function

        pstep L R done todo = (done', todo')

   that may look at (and rewrite) glyphs on both sides of the cursor and must consume input (todo' is shorter than
   todo).  L and R are the pre- and post-context: the ORIGINAL text on the left and on the right of the run being shaped
   (nearest item last in L, first in R); a pass reads them only through its summaries psumL / psumR.

   The item type A is abstract; icl is the cluster of an item, iutb its unsafe-to-break flag. *)
From Coq Require Export ZArith List Bool Lia.
Export ListNotations.
Open Scope Z_scope.

Section Engine.
Context {A C : Type}.
Variable icl : A -> Z.
Variable iutb : A -> bool.

Record pass := mkPass {
  pstep : list A -> list A -> list A -> list A -> list A * list A;
  psumL : list A -> C;     (* what the pass can see of the text on its left  (argument: L ++ glyphs on the left) *)
  psumR : list A -> C      (* what the pass can see of the text on its right (argument: glyphs on the right ++ R) *)
}.

(* the scanning loop; fuel = number of glyphs still to scan is enough when every step consumes input *)
Fixpoint ploop (p : pass) (fuel : nat) (L R done todo : list A) : list A :=
  match fuel with
  | O => done ++ todo
  | S f =>
    match todo with
    | [] => done
    | _ => let r := pstep p L R done todo in ploop p f L R (fst r) (snd r)
    end
  end.

Definition prun (p : pass) (L R l : list A) : list A := ploop p (length l) L R [] l.

(* all passes, in order, over the same run with the same contexts *)
Definition erun (ps : list pass) (L R l : list A) : list A := fold_left (fun l p => prun p L R l) ps l.

(* ---- the vocabulary of the cut statement ---- *)

(* some glyph carries cluster value c *)
Definition has_cl (c : Z) (l : list A) : bool := existsb (fun x => icl x =? c) l.
(* "flagged or gone": no glyph carries cluster c any more (it was merged away: not a cluster boundary), or a glyph of
   cluster c is flagged unsafe-to-break (propagateFlags then flags the whole cluster) *)
Definition fog (c : Z) (l : list A) : bool :=
  negb (has_cl c l) || existsb (fun x => (icl x =? c) && iutb x) l.

(* side c v: cluster value v lies on the text-later side of the cut at c.  Buffers in logical order: c <=? v;
   buffers in reverse order (right-to-left runs): v <? c.  The theory is parametric in it. *)
Variable side : Z -> Z -> bool.
(* a cut of the buffer into l ++ r along cluster values *)
Definition cutv (c : Z) (l r : list A) : bool :=
  forallb (fun x => negb (side c (icl x))) l && forallb (fun y => side c (icl y)) r.

End Engine.

Arguments mkPass {A C}.
Arguments pstep {A C}.
Arguments psumL {A C}.
Arguments psumR {A C}.
