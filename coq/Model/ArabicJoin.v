(* Executable model of Arabic joining (harfbuzz/ot_arabic.go: applyArabicJoining, arabicStateTable) (C18).  No proofs here.

   An item carries the joining type of its code point in the field cp of its glyph (what getJoiningType returns:
   0 U, 1 L, 2 R, 3 D (and C), 4 ALAPH group, 5 DALATH RISH group, 7 T = transparent) and its shaping action
   (info.complexAux) in the field ilig (0 isol, 1 fina, 2 fin2, 3 fin3, 4 medi, 5 med2, 6 init, 7 none).
   The contexts buffer.context[0] / [1] are lists of items of which only the joining type is read, in TEXT order
   (the nearest code point is the last one of the pre-context L and the first one of the post-context R).

   Two formulations:
   - arab_code: the loop of the Go function as written (cursor i, prev, state; the action of the previous letter is
     assigned, and the window [prev, i+1) flagged, when the next letter is reached; the post-context loop at the end),
     with ProduceUnsafeToConcat / ProduceSafeToInsertTatweel as options and bsfHasGlyphFlags;
   - arab_pass: the same function as a pass of Model/LocalEngine.v over the zipper (done, todo), both options off: the
     step at letter x reads the state from the text on its left (L ++ done), looks AHEAD to the next letter (of the rest
     of the run or, behind it, of the post-context: psumR), gives x its final action at once and flags the window from
     x to that letter.
   Both are compared with the implementation on every case of driver c18arab. *)
From TV Require Export Model.EngineItem.

Definition aIsol : Z := 0.
Definition aFina : Z := 1.
Definition aFin2 : Z := 2.
Definition aFin3 : Z := 3.
Definition aMedi : Z := 4.
Definition aMed2 : Z := 5.
Definition aInit : Z := 6.
Definition aNone : Z := 7.

(* arabicStateTable: per state, per joining type (prevAction, currAction, nextState) *)
Definition arab_table : list (list (Z * Z * nat)) := [
  (* 0: prev was U *)
  [(aNone, aNone, 0); (aNone, aIsol, 2); (aNone, aIsol, 1); (aNone, aIsol, 2); (aNone, aIsol, 1); (aNone, aIsol, 6)];
  (* 1: prev was R or ISOL/ALAPH *)
  [(aNone, aNone, 0); (aNone, aIsol, 2); (aNone, aIsol, 1); (aNone, aIsol, 2); (aNone, aFin2, 5); (aNone, aIsol, 6)];
  (* 2: prev was D/L in ISOL form *)
  [(aNone, aNone, 0); (aNone, aIsol, 2); (aInit, aFina, 1); (aInit, aFina, 3); (aInit, aFina, 4); (aInit, aFina, 6)];
  (* 3: prev was D in FINA form *)
  [(aNone, aNone, 0); (aNone, aIsol, 2); (aMedi, aFina, 1); (aMedi, aFina, 3); (aMedi, aFina, 4); (aMedi, aFina, 6)];
  (* 4: prev was FINA ALAPH *)
  [(aNone, aNone, 0); (aNone, aIsol, 2); (aMed2, aIsol, 1); (aMed2, aIsol, 2); (aMed2, aFin2, 5); (aMed2, aIsol, 6)];
  (* 5: prev was FIN2/FIN3 ALAPH *)
  [(aNone, aNone, 0); (aNone, aIsol, 2); (aIsol, aIsol, 1); (aIsol, aIsol, 2); (aIsol, aFin2, 5); (aIsol, aIsol, 6)];
  (* 6: prev was DALATH/RISH *)
  [(aNone, aNone, 0); (aNone, aIsol, 2); (aNone, aIsol, 1); (aNone, aIsol, 2); (aNone, aFin3, 5); (aNone, aIsol, 6)]
]%nat.

Definition a_entry (s ty : nat) : Z * Z * nat := nth ty (nth s arab_table []) (aNone, aNone, O).
Definition e_prev (e : Z * Z * nat) : Z := fst (fst e).
Definition e_curr (e : Z * Z * nat) : Z := snd (fst e).
Definition e_next (e : Z * Z * nat) : nat := snd e.

Definition jt (x : item) : nat := Z.to_nat (cp (ig x)).
Definition is_T (x : item) : bool := Nat.eqb (jt x) 7.
Definition set_act (a : Z) (x : item) : item := with_lig x a.

(* the first / last letter (non-transparent code point) of a text *)
Fixpoint first_jt (l : list item) : option nat :=
  match l with
  | [] => None
  | x :: r => if is_T x then first_jt r else Some (jt x)
  end.
Definition last_jt (l : list item) : option nat := first_jt (rev l).

(* the pre-context loop: the first letter of context[0] taken from state 0 *)
Definition st_init (L : list item) : nat :=
  match last_jt L with None => O | Some ty => e_next (a_entry O ty) end.
Definition st_step (s : nat) (x : item) : nat := if is_T x then s else e_next (a_entry s (jt x)).

(* ---------------- the loop as written ---------------- *)
(* f applied to l[s:e] *)
Definition win (f : list item -> list item) (s e : nat) (l : list item) : list item :=
  firstn s l ++ f (firstn (e - s) (skipn s l)) ++ skipn e l.
Definition set_act_at (i : nat) (a : Z) (l : list item) : list item := win (map (set_act a)) i (S i) l.
(* safeToInsertTatweel(s, e) on a monotone buffer: unsafeToBreak unless ProduceSafeToInsertTatweel *)
Definition tatweel_win (tw : bool) : list item -> list item := flag_window_m (if tw then m_tatweel else m_break).

(* the loop state: Info, prev, state, bsfHasGlyphFlags *)
Definition cstate : Type := list item * option nat * nat * bool.

Definition code_iter (concat tw : bool) (st : cstate) (i : nat) : cstate :=
  let '(l, prev, s, rec) := st in
  let x := nth i l i0 in
  if is_T x then (set_act_at i aNone l, prev, s, rec)
  else
    let e := a_entry s (jt x) in
    let '(l1, rec1) :=
      match prev with
      | Some p =>
        if negb (e_prev e =? aNone) then (win (tatweel_win tw) p (S i) (set_act_at p (e_prev e) l), true)
        else if ((2 <=? jt x)%nat || ((2 <=? s)%nat && (s <=? 5)%nat)) && concat
             then (win (flag_window_m m_concat) p (S i) l, true)
             else (l, rec)
      | None =>
        (* unsafeToConcatFromOutbuffer(0, i+1): not interior, no out-buffer *)
        if (2 <=? jt x)%nat && concat then (win (map (flag_item m_concat)) 0 (S i) l, true) else (l, rec)
      end in
    (set_act_at i (e_curr e) l1, Some i, e_next e, rec1).

Definition code_post (concat tw : bool) (R : list item) (st : cstate) : list item * bool :=
  let '(l, prev, s, rec) := st in
  match first_jt R, prev with
  | Some ty, Some p =>
    let e := a_entry s ty in
    let n := length l in
    let r2 := (2 <=? n - p)%nat in
    if negb (e_prev e =? aNone) then (win (tatweel_win tw) p n (set_act_at p (e_prev e) l), rec || r2)
    else if (2 <=? s)%nat && (s <=? 5)%nat && concat then (win (flag_window_m m_concat) p n l, rec || r2)
    else (l, rec)
  | _, _ => (l, rec)
  end.

Definition arab_code (concat tw : bool) (L R l : list item) (rec : bool) : list item * bool :=
  code_post concat tw R (fold_left (code_iter concat tw) (seq 0 (length l)) (l, None, st_init L, rec)).

(* ---------------- the pass ---------------- *)
(* the state at the cursor: a function of the text on the left *)
Definition st_at (L d : list item) : nat := fold_left st_step d (st_init L).

(* number of glyphs of l up to and including its first letter (all of l when it has none) *)
Fixpoint upto_letter (l : list item) : nat :=
  match l with
  | [] => O
  | y :: r => if is_T y then S (upto_letter r) else 1%nat
  end.

Definition arab_step (L R d t : list item) : list item * list item :=
  match t with
  | [] => (d, [])
  | x :: rest =>
    if is_T x then (d ++ [set_act aNone x], rest)
    else
      let e := a_entry (st_at L d) (jt x) in
      let plain := (d ++ [set_act (e_curr e) x], rest) in
      match first_jt (rest ++ R) with
      | None => plain
      | Some ty' =>
        let pa := e_prev (a_entry (e_next e) ty') in
        if pa =? aNone then plain
        else
          let k := upto_letter rest in
          let w := flag_window (set_act pa x :: firstn k rest) in
          (d ++ [hd i0 w], tl w ++ skipn k rest)
      end
  end.

Definition arab_pass : @pass item (option nat) := mkPass arab_step last_jt first_jt.
