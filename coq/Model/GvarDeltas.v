(* Executable model of the glyph variation data of 'gvar' (font/variations.go, font/opentype/tables/xvar_src.go), fed
   with the RAW bytes of one GlyphVariationData table:

     tables.ParseGlyphVariationData / ParseTupleVariationHeader / parsePeakTuple / parseIntermediateTuples,
     parseGlyphVariationSerializedData, parsePointNumbers, getPackedPointCount, unpackDeltas,
     tupleVariation.calculateScalar (Model/GvarScalar.v), gvar.applyDeltasToPoints (explicit deltas, the
     inference loop for unreferenced points with its gap search, nextIndex, inferDelta, translate),
     and the simple-glyph path of Face.getPointsForGlyph for a variable face (points, phantom points, gvar, shift by
     the varied left phantom point), extentsFromPoints, Face.getGlyphAdvanceVar.

   Everything the code computes in float32 is float32 here (Model/F32.v, exact), compared bit-exactly.
   Codes: Err 1 = EOF in the point numbers, Err 2 = EOF in the deltas, Err 3 = more deltas than points in a run,
   Err 4 = EOF (tuple data size), Err 5 = a header is cut short.  No proofs in this file. *)
From Coq Require Import ZArith List Bool.
From TV Require Export Lib.GoNum Lib.Bytes Lib.Res Model.F32 Model.HbFont Model.GvarScalar Model.VarNorm Model.Outline.
Import ListNotations.
Open Scope Z_scope.

(* ---- tuple variation headers ---- *)
Record tvh := mkTVH { th_size : Z; th_index : Z; th_peak : list Z; th_start : list Z; th_end : list Z }.
Definition th_embedded (h : tvh) : bool := negb (Z.land (th_index h) 32768 =? 0).
Definition th_inter (h : tvh) : bool := negb (Z.land (th_index h) 16384 =? 0).
Definition th_private (h : tvh) : bool := negb (Z.land (th_index h) 8192 =? 0).

Fixpoint coord_list (n : nat) (src : list Z) : list Z :=
  match n with O => [] | S k => sint16 (get16 src) :: coord_list k (zskipn 2 src) end.

(* ParseTupleVariationHeader: (header, bytes read) *)
Definition parse_tvh (src : list Z) (axes : Z) : res (tvh * Z) :=
  if zlen src <? 4 then Err 5 else
  let size := u16_of src 0 in
  let idx := u16_of src 2 in
  let n1 := if negb (Z.land idx 32768 =? 0) then axes * 2 else 0 in
  if zlen src - 4 <? n1 then Err 5 else
  let n2 := if negb (Z.land idx 16384 =? 0) then axes * 4 else 0 in
  if zlen src - 4 - n1 <? n2 then Err 5 else
  let tup o := coord_list (Z.to_nat axes) (zskipn o src) in
  Ok (mkTVH size idx (if n1 =? 0 then [] else tup 4)
            (if n2 =? 0 then [] else tup (4 + n1)) (if n2 =? 0 then [] else tup (4 + n1 + axes * 2)),
      4 + n1 + n2).
Fixpoint parse_tvhs (n : nat) (src : list Z) (axes : Z) : res (list tvh) :=
  match n with
  | O => Ok []
  | S k => do hr <- parse_tvh src axes; do r <- parse_tvhs k (zskipn (snd hr) src) axes; Ok (fst hr :: r)
  end.
(* ParseGlyphVariationData: (has shared point numbers, serialized data, headers) *)
Definition parse_gvd (src : list Z) (axes : Z) : res (bool * list Z * list tvh) :=
  if zlen src <? 4 then Err 5 else
  let cnt := u16_of src 0 in
  let off := u16_of src 2 in
  if negb (off =? 0) && (zlen src <? off) then Err 5 else
  let data := if off =? 0 then [] else zskipn off src in
  do hs <- parse_tvhs (Z.to_nat (Z.land cnt 4095)) (zskipn 4 src) axes;
  Ok (negb (Z.land cnt 32768 =? 0), data, hs).

(* ---- packed point numbers ---- *)
(* getPackedPointCount *)
Definition packed_count (data : list Z) : res (Z * list Z) :=
  match data with
  | [] => Err 1
  | b0 :: r =>
      if b0 =? 0 then Ok (0, r)
      else if Z.land b0 128 =? 0 then Ok (b0, r)
      else match r with [] => Err 1 | b1 :: r2 => Ok (Z.land b0 127 * 256 + b1, r2) end
  end.

(* one run: [n] values of [w] bytes each, accumulated (uint16 wrap) from [last]; returns the values and the last one *)
Fixpoint run_points (n : nat) (w : Z) (src : list Z) (last : Z) : list Z * Z :=
  match n with
  | O => ([], last)
  | S k =>
      let v := wrap16 ((if w =? 2 then get16 src else znth 0 src 0) + last) in
      let '(r, l) := run_points k w (zskipn w src) v in (v :: r, l)
  end.

(* the loop "for len(points) < int(count)"; fuel: every run consumes at least two bytes *)
Fixpoint point_runs (fuel : nat) (count : Z) (data : list Z) (last : Z) (acc : list Z) : res (list Z * list Z) :=
  if count <=? zlen acc then Ok (acc, data) else
  match fuel with
  | O => OutOfFuel
  | S k =>
      match data with
      | [] => Err 1
      | control :: body =>
          let w := if Z.land control 128 =? 0 then 1 else 2 in
          let n := Z.land control 127 + 1 in
          if zlen body <? w * n then Err 1 else
          let '(vals, last') := run_points (Z.to_nat n) w body last in
          point_runs k count (zskipn (w * n) body) last' (acc ++ vals)
      end
  end.

(* parsePointNumbers: None = nil slice = all points of the glyph *)
Definition parse_point_numbers (data : list Z) : res (option (list Z) * list Z) :=
  do cr <- packed_count data;
  let '(count, rest) := cr in
  if count =? 0 then Ok (None, rest) else
  do pr <- point_runs (S (length rest)) count rest 0 [];
  Ok (Some (fst pr), snd pr).

(* ---- packed deltas ---- *)
Definition s8 (x : Z) : Z := if x <? 128 then x else x - 256.
Fixpoint run_deltas (n : nat) (w : Z) (src : list Z) : list Z :=
  match n with
  | O => []
  | S k => (if w =? 2 then sint16 (get16 src) else s8 (znth 0 src 0)) :: run_deltas k w (zskipn w src)
  end.
(* the loop "for nbRead < pointNumbersCount": [acc] = out[:nbRead] (a zero run may overshoot; cut at the end) *)
Fixpoint delta_runs (fuel : nat) (total : Z) (data : list Z) (acc : list Z) : res (list Z) :=
  if total <=? zlen acc then Ok (zfirstn total acc) else
  match fuel with
  | O => OutOfFuel
  | S k =>
      match data with
      | [] => Err 2
      | control :: body =>
          let n := Z.land control 63 + 1 in
          if negb (Z.land control 128 =? 0) then delta_runs k total body (acc ++ repeat 0 (Z.to_nat n))
          else if total <? zlen acc + n then Err 3
          else
            let w := if Z.land control 64 =? 0 then 1 else 2 in
            if zlen body <? w * n then Err 2
            else delta_runs k total (zskipn (w * n) body) (acc ++ run_deltas (Z.to_nat n) w body)
      end
  end.
Definition unpack_deltas (data : list Z) (total : Z) : res (list Z) := delta_runs (S (length data)) total data [].

(* ---- parseGlyphVariationSerializedData (isCvar = false) ---- *)
Record tdata := mkTD { td_points : option (list Z); td_deltas : list Z }.
Fixpoint tuple_datas (hs : list tvh) (data : list Z) (shared : option (list Z)) (all_count : Z) : res (list tdata) :=
  match hs with
  | [] => Ok []
  | h :: r =>
      if zlen data <? th_size h then Err 4 else
      let next := zskipn (th_size h) data in
      do pr <- (if th_private h then parse_point_numbers data else Ok (shared, data));
      let '(pn, data') := pr in
      let count := match pn with Some l => zlen l | None => all_count end in
      do ds <- unpack_deltas data' (2 * count);
      do rest <- tuple_datas r next shared all_count;
      Ok (mkTD pn ds :: rest)
  end.
Definition serialized_data (data : list Z) (has_shared : bool) (all_count : Z) (hs : list tvh) : res (list tdata) :=
  do sr <- (if has_shared then parse_point_numbers data else Ok (None, data));
  tuple_datas hs (snd sr) (fst sr) all_count.

(* the whole decoding of one glyph's variation data *)
Definition decode_gvd (raw : list Z) (axes all_count : Z) : res (list (tvh * tdata)) :=
  do g <- parse_gvd raw axes;
  let '(has_shared, data, hs) := g in
  do tds <- serialized_data data has_shared all_count hs;
  Ok (combine hs tds).

(* ---- applyDeltasToPoints ---- *)
(* a delta slot: isExplicit, X, Y *)
Definition dslot := (bool * Z * Z)%type.
Definition d_exp (d : dslot) : bool := fst (fst d).
Definition d_x (d : dslot) : Z := snd (fst d).
Definition d_y (d : dslot) : Z := snd d.
Definition dzero : dslot := (false, 0, 0).

Fixpoint upd {A} (i : nat) (f : A -> A) (l : list A) : list A :=
  match l, i with
  | [], _ => []
  | a :: r, O => f a :: r
  | a :: r, S k => a :: upd k f r
  end.
Definition zupd {A} (i : Z) (f : A -> A) (l : list A) : list A := if i <? 0 then l else upd (Z.to_nat i) f l.

(* the loop "for i := range xDeltas" *)
Fixpoint explicit_loop (xs ys : list Z) (pn : option (list Z)) (i : Z) (scalar : Z) (dl : list dslot) : list dslot :=
  match xs with
  | [] => dl
  | x :: xr =>
      let pt := match pn with None => wrap16 i | Some l => znth 0 l i end in
      let y := znth 0 ys 0 in
      let dl' := if zlen dl <=? pt then dl else
                 zupd pt (fun d => (true, f32_add (d_x d) (f32_mul (f32_of_int x) scalar),
                                          f32_add (d_y d) (f32_mul (f32_of_int y) scalar))) dl in
      explicit_loop xr (tl ys) pn (i + 1) scalar dl'
  end.

(* inferDelta *)
Definition infer_delta (t p n pd nd : Z) : Z :=
  if p =? n then (if pd =? nd then pd else 0)
  else if t <=? Z.min p n then (if p <? n then pd else nd)
  else if Z.max p n <=? t then (if n <? p then pd else nd)
  else f32_add pd (f32_mul (f32_div (f32_sub t p) (f32_sub n p)) (f32_sub nd pd)).

Definition next_index (i s e : Z) : Z := if e <=? i then s else i + 1.

Section Contour.
  Variable orig : list cpoint.
  Variables s e : Z.
  Definition expl (dl : list dslot) (i : Z) : bool := d_exp (znth dzero dl i).

  (* for { i = j; j = nextIndex(i); if deltas[i].isExplicit && !deltas[j].isExplicit { break } } : returns i *)
  Fixpoint find_prev (fuel : nat) (dl : list dslot) (j : Z) : option Z :=
    match fuel with
    | O => None
    | S k => let i := j in let j' := next_index i s e in
             if expl dl i && negb (expl dl j') then Some i else find_prev k dl j'
    end.
  (* for { i = j; j = nextIndex(i); if !deltas[i].isExplicit && deltas[j].isExplicit { break } } : returns j *)
  Fixpoint find_next (fuel : nat) (dl : list dslot) (j : Z) : option Z :=
    match fuel with
    | O => None
    | S k => let i := j in let j' := next_index i s e in
             if negb (expl dl i) && expl dl j' then Some j' else find_next k dl j'
    end.
  Definition infer_at (dl : list dslot) (i prev next : Z) : dslot :=
    let o k := znth (mkCP 0 0 false false) orig k in
    let d k := znth dzero dl k in
    (d_exp (d i),
     infer_delta (cp_x (o i)) (cp_x (o prev)) (cp_x (o next)) (d_x (d prev)) (d_x (d next)),
     infer_delta (cp_y (o i)) (cp_y (o prev)) (cp_y (o next)) (d_y (d prev)) (d_y (d next))).
  (* the innermost loop: returns the deltas and the remaining unrefCount *)
  Fixpoint fill_gap (fuel : nat) (dl : list dslot) (i prev next unref : Z) : option (list dslot * Z) :=
    match fuel with
    | O => None
    | S k =>
        let i' := next_index i s e in
        if i' =? next then Some (dl, unref) else
        let dl' := zupd i' (fun _ => infer_at dl i' prev next) dl in
        if unref - 1 =? 0 then Some (dl', 0) else fill_gap k dl' i' prev next (unref - 1)
    end.
  (* the loop over the gaps; fuel: one gap fills at least one point *)
  Fixpoint gaps (fuel : nat) (dl : list dslot) (j unref : Z) : option (list dslot) :=
    match fuel with
    | O => None
    | S k =>
        let n := S (S (Z.to_nat (e - s))) in
        match find_prev (n + n) dl j with
        | None => None
        | Some prev =>
            match find_next (n + n) dl prev with
            | None => None
            | Some next =>
                match fill_gap (n + n) dl prev prev next unref with
                | None => None
                | Some (dl', u) => if u =? 0 then Some dl' else gaps k dl' next u
                end
            end
        end
    end.
End Contour.

Definition count_unref (dl : list dslot) (s e : Z) : Z :=
  zlen (filter (fun d => negb (d_exp d)) (zfirstn (e - s + 1) (zskipn s dl))).

(* the loop over the contours: [ends] = indices of the end points *)
Fixpoint infer_contours (orig : list cpoint) (ends : list Z) (start : Z) (dl : list dslot) : option (list dslot) :=
  match ends with
  | [] => Some dl
  | e :: r =>
      let u := count_unref dl start e in
      if (u =? 0) || (e - start <? u) then infer_contours orig r (e + 1) dl
      else match gaps orig start e (S (Z.to_nat u)) dl start u with
           | None => None
           | Some dl' => infer_contours orig r (e + 1) dl'
           end
  end.

Fixpoint end_indices (pts : list cpoint) (i : Z) : list Z :=
  match pts with
  | [] => []
  | p :: r => if cp_end p then i :: end_indices r (i + 1) else end_indices r (i + 1)
  end.

Definition translate_by (p : cpoint) (d : dslot) : cpoint :=
  mkCP (f32_add (cp_x p) (d_x d)) (f32_add (cp_y p) (d_y d)) (cp_on p) (cp_end p).

(* one tuple with its scalar (non zero) *)
Definition apply_tuple (orig : list cpoint) (ends : list Z) (td : tdata) (scalar : Z) (pts : list cpoint)
    : option (list cpoint) :=
  let L := zlen (td_deltas td) in
  let xs := zfirstn (L / 2) (td_deltas td) in
  let ys := zskipn (L / 2) (td_deltas td) in
  let dl0 := repeat dzero (length pts) in
  let dl1 := explicit_loop xs ys (td_points td) 0 scalar dl0 in
  match infer_contours orig ends 0 dl1 with
  | None => None
  | Some dl2 => Some (map (fun pd => translate_by (fst pd) (snd pd)) (combine pts dl2))
  end.

Definition tuple_scalar (coords : list Z) (shared : list (list Z)) (h : tvh) : Z :=
  scalar_go coords shared (th_embedded h) (Z.land (th_index h) 4095) (th_peak h) (th_start h) (th_end h) (th_inter h).

Fixpoint apply_tuples (orig : list cpoint) (ends : list Z) (coords : list Z) (shared : list (list Z))
    (ts : list (tvh * tdata)) (pts : list cpoint) : res (list cpoint) :=
  match ts with
  | [] => Ok pts
  | (h, td) :: r =>
      let sc := tuple_scalar coords shared h in
      if sc =? 0 then apply_tuples orig ends coords shared r pts
      else match apply_tuple orig ends td sc pts with
           | None => OutOfFuel
           | Some pts' => apply_tuples orig ends coords shared r pts'
           end
  end.

(* gvar.applyDeltasToPoints for a glyph that has variation data *)
Definition apply_deltas (coords : list Z) (shared : list (list Z)) (ts : list (tvh * tdata)) (pts : list cpoint)
    : res (list cpoint) :=
  apply_tuples pts (end_indices pts 0) coords shared ts pts.

(* from the raw GlyphVariationData; an empty record = no variation data for the glyph *)
Definition apply_raw (raw : list Z) (axes : Z) (coords : list Z) (shared : list (list Z)) (pts : list cpoint)
    : res (list cpoint) :=
  match raw with
  | [] => Ok pts
  | _ => do ts <- decode_gvd raw axes (zlen pts); apply_deltas coords shared ts pts
  end.

(* the top-level shift of getPointsForGlyph (depth 0): by minus the left phantom point *)
Definition shift_by_left_phantom (all : list cpoint) : list cpoint :=
  let ph := skipn (length all - 4) all in
  let tx := f32_neg (cp_x (nth 0 ph (mkCP 0 0 false false))) in
  map (fun p => mkCP (f32_add (cp_x p) tx) (f32_add (cp_y p) 0) (cp_on p) (cp_end p)) all.

(* ---- specification side: the OpenType rule for inferred deltas, point by point ---- *)
(* the explicit neighbours of position k in a contour given as the list of its slots: the last explicit slot before k
   (cyclically) and the first explicit one after k *)
Definition last_some {A} (f : A -> bool) (l : list (nat * A)) : option nat :=
  fold_left (fun acc ia => if f (snd ia) then Some (fst ia) else acc) l None.
Definition first_some {A} (f : A -> bool) (l : list (nat * A)) : option nat :=
  match filter (fun ia => f (snd ia)) l with [] => None | ia :: _ => Some (fst ia) end.
Definition indexed {A} (l : list A) : list (nat * A) := combine (seq 0 (length l)) l.
Definition prev_explicit (c : list dslot) (k : nat) : option nat :=
  match last_some d_exp (firstn k (indexed c)) with Some i => Some i | None => last_some d_exp (indexed c) end.
Definition next_explicit (c : list dslot) (k : nat) : option nat :=
  match first_some d_exp (skipn (S k) (indexed c)) with Some i => Some i | None => first_some d_exp (indexed c) end.

(* one contour: slots [c] and original points [o] of the same length *)
Definition iup_contour (o : list cpoint) (c : list dslot) : list dslot :=
  map (fun kd =>
         let '(k, d) := kd in
         if d_exp d then d else
         match prev_explicit c k, next_explicit c k with
         | Some p, Some n =>
             let op := nth p o (mkCP 0 0 false false) in let on := nth n o (mkCP 0 0 false false) in
             let ok := nth k o (mkCP 0 0 false false) in
             let dp := nth p c dzero in let dn := nth n c dzero in
             (false, infer_delta (cp_x ok) (cp_x op) (cp_x on) (d_x dp) (d_x dn),
                     infer_delta (cp_y ok) (cp_y op) (cp_y on) (d_y dp) (d_y dn))
         | _, _ => d
         end) (indexed c).

Fixpoint iup_spec (orig : list cpoint) (ends : list Z) (start : Z) (dl : list dslot) : list dslot :=
  match ends with
  | [] => dl
  | e :: r =>
      let n := e - start + 1 in
      let c := zfirstn n (zskipn start dl) in
      let o := zfirstn n (zskipn start orig) in
      let dl' := zfirstn start dl ++ iup_contour o c ++ zskipn (e + 1) dl in
      iup_spec orig r (e + 1) dl'
  end.
