(* Hand-written model for C09 of font/opentype/tables/aat_properties.go: the Class methods of the AAT lookup tables
   (formats 0, 2, 4, 6, 8 and 10; 16-bit values), where a glyph id indexes arrays whose sizes come from the font:
   Values[g], sort.Search over the segments then c[idx], binary search Records[h] then Values[g - FirstGlyph]
   (after the repairs 8632500 / 5034881: the length of Values is checked), Values[g - FirstGlyph] under a uint16 bound.
   GlyphID is uint16: the subtractions and additions of the code wrap modulo 2^16.  No proofs here. *)
From TV Require Export Lib.Bytes Lib.Res Model.Glyf Model.TableIndex.

Record seg2 := mkSeg2 { s2_last : Z; s2_first : Z; s2_value : Z }.
Record seg4 := mkSeg4 { s4_last : Z; s4_first : Z; s4_values : list Z }.
Record rec6 := mkRec6 { r6_glyph : Z; r6_value : Z }.
Definition dseg2 := mkSeg2 0 0 0.
Definition dseg4 := mkSeg4 0 0 [].
Definition drec6 := mkRec6 0 0.

Inductive aat_lookup :=
| L0 (values : list Z)
| L2 (recs : list seg2)
| L4 (recs : list seg4)
| L6 (recs : list rec6)
| L8 (first : Z) (values : list Z).        (* formats 8 and 10 *)

(* sort.Search(n, f): i, j := 0, n; for i < j { h := int(uint(i+j) >> 1); if !f(h) { i = h + 1 } else { j = h } } *)
Fixpoint sort_search (f : Z -> res bool) (i j : Z) (fuel : nat) : res Z :=
  if negb (i <? j) then Ok i
  else match fuel with
  | O => OutOfFuel
  | S fuel' =>
      let h := (i + j) / 2 in
      do b <- f h;
      if b then sort_search f i h fuel' else sort_search f (h + 1) j fuel'
  end.

Definition class0 (values : list Z) (g : Z) : res (option Z) :=
  if zlen values <=? g then Ok None else do v <- index_checked 0 values g; Ok (Some v).

Definition class2 (c : list seg2) (g : Z) : res (option Z) :=
  let num := zlen c in
  if num =? 0 then Ok None
  else
    do idx <- sort_search (fun i => do e <- index_checked dseg2 c i; Ok (g <=? s2_first e)) 0 num (S (length c));
    do hit <- (if idx <? num then do e <- index_checked dseg2 c idx; Ok (if g =? s2_first e then Some (s2_value e) else None)
               else Ok None);
    match hit with
    | Some v => Ok (Some v)
    | None =>
        if 0 <? idx then
          do e <- index_checked dseg2 c (idx - 1);
          Ok (if (s2_first e <=? g) && (g <=? s2_last e) then Some (s2_value e) else None)
        else Ok None
    end.

Fixpoint class4_loop (fixed : bool) (recs : list seg4) (g : Z) (i j : Z) (fuel : nat) : res (option Z) :=
  if negb (i <? j) then Ok None
  else match fuel with
  | O => OutOfFuel
  | S fuel' =>
      let h := i + (j - i) / 2 in
      do e <- index_checked dseg4 recs h;
      if g <? s4_first e then class4_loop fixed recs g i h fuel'
      else if s4_last e <? g then class4_loop fixed recs g (h + 1) j fuel'
      else
        let k := wrap16 (g - s4_first e) in
        if fixed && (zlen (s4_values e) <=? k) then Ok None
        else do v <- index_checked 0 (s4_values e) k; Ok (Some v)
  end.
Definition class4 (recs : list seg4) (g : Z) : res (option Z) := class4_loop true recs g 0 (zlen recs) (S (length recs)).
(* before the repair 5034881 *)
Definition class4_unfixed (recs : list seg4) (g : Z) : res (option Z) := class4_loop false recs g 0 (zlen recs) (S (length recs)).

Fixpoint class6_loop (recs : list rec6) (g : Z) (i j : Z) (fuel : nat) : res (option Z) :=
  if negb (i <? j) then Ok None
  else match fuel with
  | O => OutOfFuel
  | S fuel' =>
      let h := i + (j - i) / 2 in
      do e <- index_checked drec6 recs h;
      if g <? r6_glyph e then class6_loop recs g i h fuel'
      else if r6_glyph e <? g then class6_loop recs g (h + 1) j fuel'
      else Ok (Some (r6_value e))
  end.
Definition class6 (recs : list rec6) (g : Z) : res (option Z) := class6_loop recs g 0 (zlen recs) (S (length recs)).

(* g < first || g >= first + GlyphID(len(values))  (uint16 arithmetic), then values[g - first] *)
Definition class8 (first : Z) (values : list Z) (g : Z) : res (option Z) :=
  if (g <? first) || (wrap16 (first + wrap16 (zlen values)) <=? g) then Ok None
  else do v <- index_checked 0 values (wrap16 (g - first)); Ok (Some v).

Definition aat_class (l : aat_lookup) (g : Z) : res (option Z) :=
  match l with
  | L0 vs => class0 vs g
  | L2 c => class2 c g
  | L4 c => class4 c g
  | L6 c => class6 c g
  | L8 f vs => class8 f vs g
  end.
