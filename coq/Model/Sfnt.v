(* Hand-written model of font/opentype/writer.go (WriteTTF, writeTTFHeader, checksum) and of the
   sfnt part of reader.go / reader_otf.go (parseOneFont, parseOTF, readOTFHeader, readOTFEntry,
   Tables, RawTable, findTableBuffer) over a bytes.Reader resource.  No proofs here. *)
From TV Require Export Lib.Bytes Lib.Res.

Record table := mkTable { t_tag : Z; t_content : list Z }.

(* --- writer ------------------------------------------------------------------------------- *)

(* checksum: full words, then the zero-padded copy of the 1..3 trailing bytes *)
Fixpoint checksum_go (l : list Z) (sum : Z) : Z :=
  match l with
  | a :: b :: c :: d :: r => checksum_go r (wrap32 (sum + get32 [a; b; c; d]))
  | [] => sum
  | [a] => wrap32 (sum + get32 [a; 0; 0; 0])
  | [a; b] => wrap32 (sum + get32 [a; b; 0; 0])
  | [a; b; c] => wrap32 (sum + get32 [a; b; c; 0])
  end.
Definition checksum (l : list Z) : Z := checksum_go l 0.

(* writeTTFHeader: math.Log2/Floor/Pow on float64 are exact for 1 <= n < 2^16.
   n = 0: Log2 gives -Inf, Pow(2,-Inf) = 0, uint16(-Inf) is platform dependent (0 on amd64). *)
Definition header_log2 (n : Z) : Z := if n <=? 0 then 0 else Z.log2 n.
Definition header_search_range (n : Z) : Z := if n <=? 0 then 0 else 2 ^ (Z.log2 n) * 16.
Definition write_header (n : Z) : list Z :=
  put32 65536 ++ put16 (wrap16 n) ++ put16 (wrap16 (header_search_range n))
              ++ put16 (wrap16 (header_log2 n)) ++ put16 (wrap16 (n * 16 - header_search_range n)).

Definition intro_len (n : Z) : Z := wrap32 (12 + n * 16).

Fixpoint dir_entries (ts : list table) (off : Z) : list Z :=
  match ts with
  | [] => []
  | t :: r =>
      let len := wrap32 (zlen (t_content t)) in
      put32 (t_tag t) ++ put32 (checksum (t_content t)) ++ put32 off ++ put32 len
        ++ dir_entries r (wrap32 (off + len))
  end.

Definition write_ttf (ts : list table) : list Z :=
  let n := zlen ts in
  write_header n ++ dir_entries ts (intro_len n) ++ concat (map t_content ts).

(* memory view: a Go slice = backing array (up to cap) + length.  The (repaired) writer only reads. *)
Record slice := mkSlice { s_backing : list Z; s_len : Z }.
Definition slice_content (s : slice) : list Z := zfirstn (s_len s) (s_backing s).
Definition write_ttf_mem (ts : list (Z * slice)) : list Z * list slice :=
  (write_ttf (map (fun p => mkTable (fst p) (slice_content (snd p))) ts), map snd ts).

(* --- reader (Resource = bytes.Reader) -------------------------------------------------------- *)

Record section := mkSection { sec_off : Z; sec_len : Z }.
Record loader := mkLoader { ld_type : Z; ld_tables : list (Z * section) }.  (* insertion order, first wins *)

Definition e_eof := 1%nat.
Definition e_format := 2%nat.
Definition e_overflow := 3%nat.
Definition e_missing := 4%nat.
Definition e_unmodelled := 9%nat.

(* bytes.Reader.Read into a zeroed buffer of n bytes: EOF only when nothing is left *)
Definition read_partial (file : list Z) (pos n : Z) : res (list Z) :=
  if zlen file <=? pos then Err e_eof
  else let got := zfirstn n (zskipn pos file) in
       Ok (got ++ repeat 0 (Z.to_nat (n - zlen got))).
(* io.ReadFull / ReadAt: error unless all n bytes are there *)
Definition read_full (file : list Z) (pos n : Z) : res (list Z) :=
  if zlen file <? pos + n then Err e_eof else Ok (zfirstn n (zskipn pos file)).

Definition has_tag (tag : Z) (acc : list (Z * section)) : bool := existsb (fun p => fst p =? tag) acc.

Fixpoint read_entries (file : list Z) (pos : Z) (n : nat) (offset : Z) (relative : bool)
         (acc : list (Z * section)) : res (list (Z * section)) :=
  match n with
  | O => Ok acc
  | S n' =>
      do buf <- read_full file pos 16;
      let tag := get32 buf in
      let off := get32 (skipn 8 buf) in
      let len := get32 (skipn 12 buf) in
      if has_tag tag acc then read_entries file (pos + 16) n' offset relative acc
      else if relative then
             let o := wrap32 (off + offset) in
             if o <? offset then Err e_overflow
             else read_entries file (pos + 16) n' offset relative (acc ++ [(tag, mkSection o len)])
           else read_entries file (pos + 16) n' offset relative (acc ++ [(tag, mkSection off len)])
  end.

Definition parse_otf (file : list Z) (offset : Z) (relative : bool) : res loader :=
  do hdr <- read_partial file offset 12;
  let flavor := get32 hdr in
  let num := get16 (skipn 4 hdr) in
  let pos := Z.min (zlen file) (offset + 12) in
  do tabs <- read_entries file pos (Z.to_nat num) offset relative [];
  Ok (mkLoader flavor tabs).

Definition tag_truetype := 65536.
Definition tag_otto := 1330926671.       (* "OTTO" *)
Definition tag_typ1 := 1954115633.       (* "typ1" *)
Definition tag_true := 1953658213.       (* "true" *)

Definition parse_one_font (file : list Z) (offset : Z) (relative : bool) : res loader :=
  do m <- read_partial file offset 4;
  let magic := get32 m in
  if (magic =? tag_truetype) || (magic =? tag_otto) || (magic =? tag_typ1) || (magic =? tag_true)
  then parse_otf file offset relative
  else Err e_unmodelled.   (* WOFF, collections inside collections, unknown: outside this model *)

Definition new_loader (file : list Z) : res loader := parse_one_font file 0 false.

Fixpoint insert_sorted (x : Z) (l : list Z) : list Z :=
  match l with
  | [] => [x]
  | y :: r => if x <=? y then x :: l else y :: insert_sorted x r
  end.
Definition sort_tags (l : list Z) : list Z := fold_right insert_sorted [] l.
Definition loader_tables (ld : loader) : list Z := sort_tags (map fst (ld_tables ld)).

Fixpoint find_section (tag : Z) (l : list (Z * section)) : option section :=
  match l with
  | [] => None
  | (t, s) :: r => if t =? tag then Some s else find_section tag r
  end.

Definition raw_table (file : list Z) (ld : loader) (tag : Z) : res (list Z) :=
  match find_section tag (ld_tables ld) with
  | None => Err e_missing
  | Some s =>
      if sec_len s =? 0 then Ok []
      else if zlen file <=? sec_off s then Err e_eof
      else read_full file (sec_off s) (sec_len s)
  end.
