(* Executable model of the coordinate normalisation of variable fonts (font/variations.go):

     tables.Float1616FromUint, the axis records of tables.ParseFvar / ParseFvarRecords (raw 'fvar' bytes),
     tables.ParseAvar / ParseSegmentMaps (raw 'avar' bytes; font.NewFont ignores the parse error and keeps the
     segment maps read before it),
     fvar.getDesignCoordsDefault / getDesignCoords (SetVariations),
     fvar.normalizeCoordinates  (clamp to [min,max], float32 difference, float32 quotient, * 16384, math.Round),
     Font.NormalizeVariations   (then the 'avar' segment maps: int16 differences, float64 product and quotient,
                                 math.Round, int16 sum).

   float32 values are integers scaled by 2^149 (Model/F32.v; division and math.Round from Model/HbFont.v), compared
   bit-exactly with the library.  Design coordinates are finite float32 values (the checker decodes the bit pattern;
   NaN and infinities are outside the model).
   float64 in the avar stage: the product of two int16 differences is exact; the quotient p/q with |p| < 2^32,
   0 < |q| < 2^16 is correctly rounded, and since a non-tie p/q is at least 1/(2|q|) > 2^-17 away from the nearest
   half-integer while the rounding error is below 2^-20, math.Round of the float64 quotient is the rounding (halves
   away from zero) of the exact rational: the model uses exact integers.  Checked on every run by the correspondence.
   VarCoord(x) for a float64 x outside int16: Go leaves it implementation-defined; on amd64 (CVTTSD2SL) it is the low
   16 bits of the int32 conversion, 0 when the value is outside int32, infinite or NaN ([cvt_int16]; probed by the
   driver).  A float division by zero (an axis with minimum = default reached from above, two segment-map entries
   with the same fromCoordinate) therefore yields 0 after the conversion; in the fvar stage the model reports it as
   [Err 1] (no float infinities in the model), in the avar stage it returns 0 as amd64 does.
   The avar stage rounds the SUM previous.ToCoordinate + increment (fix 55c09bc; the float64 sum of an int16 and the
   quotient keeps the argument above: two roundings below 2^-20 each).
   Panic 1 = index out of range in normalizeCoordinates (fewer coordinates than axes; documented in the Go comment).
   No proofs in this file. *)
From Coq Require Import ZArith List Bool.
From TV Require Export Lib.GoNum Lib.Bytes Lib.Res Model.F32 Model.HbFont.
Import ListNotations.
Open Scope Z_scope.

Definition u16_of (src : list Z) (o : Z) : Z := get16 (zskipn o src).
Definition u32_of (src : list Z) (o : Z) : Z := get32 (zskipn o src).

(* Float1616FromUint: Float1616(int32(v)) / (1 << 16) *)
Definition f1616 (v : Z) : Z := f32_of_int_div_pow2 (sint32 v) 16.

Record axis := mkAxis { ax_tag : Z; ax_min : Z; ax_def : Z; ax_max : Z }.     (* float32 values *)

(* the axis records font.NewFont keeps: [] when ParseFvar fails before ParseFvarRecords fills them (the instance
   records are parsed afterwards and their errors do not remove the axes) *)
Fixpoint fvar_axes (n : nat) (src : list Z) : list axis :=
  match n with
  | O => []
  | S k => mkAxis (get32 src) (f1616 (u32_of src 4)) (f1616 (u32_of src 8)) (f1616 (u32_of src 12))
           :: fvar_axes k (zskipn 20 src)
  end.
Definition parse_fvar (src : list Z) : list axis :=
  if zlen src <? 16 then [] else
  let off := u16_of src 4 in
  let n := u16_of src 8 in
  if zlen src <? off then [] else
  let body := zskipn off src in
  if zlen body <? n * 20 then [] else fvar_axes (Z.to_nat n) body.

(* 'avar': one list of (fromCoordinate, toCoordinate) per axis, both int16 *)
Fixpoint seg_pairs (n : nat) (src : list Z) : list (Z * Z) :=
  match n with
  | O => []
  | S k => (sint16 (get16 src), sint16 (u16_of src 2)) :: seg_pairs k (zskipn 4 src)
  end.
Fixpoint avar_maps (n : nat) (src : list Z) : list (list (Z * Z)) :=
  match n with
  | O => []
  | S k =>
      if zlen src <? 2 then [] else
      let c := get16 src in
      if zlen src <? 2 + c * 4 then [] else
      seg_pairs (Z.to_nat c) (zskipn 2 src) :: avar_maps k (zskipn (2 + c * 4) src)
  end.
Definition parse_avar (src : list Z) : list (list (Z * Z)) :=
  if zlen src <? 8 then [] else avar_maps (Z.to_nat (u16_of src 6)) (zskipn 8 src).

(* ---- design coordinates (SetVariations) ---- *)
(* getDesignCoords: every variation, in order, overwrites the coordinate of every axis carrying its tag *)
Definition apply_variation (axes : list axis) (coords : list Z) (v : Z * Z) : list Z :=
  map (fun ac => if ax_tag (fst ac) =? fst v then snd v else snd ac) (combine axes coords).
Definition design_coords (axes : list axis) (variations : list (Z * Z)) : list Z :=
  fold_left (apply_variation axes) variations (map ax_def axes).

(* ---- fvar stage ---- *)
Definition cvt_int16 (v : Z) : Z := if in_int32 v then sint16 v else 0.

Definition clamp_axis (a : axis) (c : Z) : Z :=
  if ax_max a <? c then ax_max a else if c <? ax_min a then ax_min a else c.

(* the float32 value before the scaling by 16384; Err 1 = division by zero *)
Definition norm_ratio (a : axis) (c : Z) : res Z :=
  let c1 := clamp_axis a c in
  if c1 <? ax_def a then
    let d := f32_sub (ax_min a) (ax_def a) in
    if d =? 0 then Err 1 else Ok (f32_neg (f32_div (f32_sub c1 (ax_def a)) d))
  else if ax_def a <? c1 then
    let d := f32_sub (ax_max a) (ax_def a) in
    if d =? 0 then Err 1 else Ok (f32_div (f32_sub c1 (ax_def a)) d)
  else Ok 0.

Definition f32_16384 : Z := 16384 * f32_one.
Definition norm_axis (a : axis) (c : Z) : res Z :=
  do x <- norm_ratio a c;
  let m := f32_mul x f32_16384 in
  if f32_finite m then Ok (cvt_int16 (round_away m)) else Err 1.

(* normalizeCoordinates: normalized := make([]VarCoord, len(coords)); for i, a := range fv { ... coords[i] ... } *)
Fixpoint norm_coords (axes : list axis) (coords : list Z) : res (list Z) :=
  match axes, coords with
  | [], rest => Ok (map (fun _ => 0) rest)
  | _ :: _, [] => Panic 1
  | a :: ta, c :: tc => do v <- norm_axis a c; do r <- norm_coords ta tc; Ok (v :: r)
  end.

(* ---- avar stage ---- *)
(* nearest integer to p/q, halves away from zero (q <> 0) *)
Definition round_div_away (p q : Z) : Z :=
  Z.sgn p * Z.sgn q * ((2 * Z.abs p + Z.abs q) / (2 * Z.abs q)).

(* the loop "for j := 1; j < len(l); j++": [prev] = l[j-1], [l] = l[j:] *)
Fixpoint avar_scan (prev : Z * Z) (l : list (Z * Z)) (v : Z) : Z :=
  match l with
  | [] => v
  | pr :: r =>
      if v <? fst pr then
        let a := sint16 (v - fst prev) in
        let b := sint16 (snd pr - snd prev) in
        let d := sint16 (fst pr - fst prev) in
        if d =? 0 then 0 else cvt_int16 (round_div_away (snd prev * d + a * b) d)
      else avar_scan pr r v
  end.
Definition avar_map (l : list (Z * Z)) (v : Z) : Z :=
  match l with [] => v | p0 :: r => avar_scan p0 r v end.

(* for i, av := range f.avar.AxisSegmentMaps { if i >= len(normalized) { break } ... } *)
Fixpoint avar_apply (maps : list (list (Z * Z))) (vs : list Z) : list Z :=
  match maps, vs with
  | m :: tm, v :: tv => avar_map m v :: avar_apply tm tv
  | _, _ => vs
  end.

(* Font.NormalizeVariations(coords) *)
Definition normalize (axes : list axis) (maps : list (list (Z * Z))) (coords : list Z) : res (list Z) :=
  do n <- norm_coords axes coords; Ok (avar_apply maps n).

(* from the raw tables *)
Definition normalize_raw (fvar avar : list Z) (coords : list Z) : res (list Z) :=
  normalize (parse_fvar fvar) (parse_avar avar) coords.

(* ---- specification side: the reference shaper's formula on the ideal (rational) value ---- *)
(* the well-formed axis: minimum <= default <= maximum *)
Definition wf_axis (a : axis) : Prop := ax_min a <= ax_def a <= ax_max a.
Definition wf_axisb (a : axis) : bool := (ax_min a <=? ax_def a) && (ax_def a <=? ax_max a).

(* the well-formed segment map (OpenType 'avar'): at least the entries -1 -> -1, 0 -> 0, 1 -> 1, fromCoordinates
   strictly increasing, toCoordinates non-decreasing, everything within [-1, 1] *)
Fixpoint map_sorted (prev : Z * Z) (l : list (Z * Z)) : bool :=
  match l with
  | [] => true
  | p :: r => (fst prev <? fst p) && (snd prev <=? snd p)
              && (-16384 <=? fst p) && (fst p <=? 16384) && (-16384 <=? snd p) && (snd p <=? 16384)
              && (fst p - fst prev <? 32768) && (snd p - snd prev <? 32768)     (* no int16 wrap: implied by the 0 entry *)
              && map_sorted p r
  end.
Definition wf_map (l : list (Z * Z)) : bool :=
  match l with
  | [] => false
  | p0 :: r =>
      (fst p0 =? -16384) && (snd p0 =? -16384) && map_sorted p0 r
      && (let z := last l (0, 0) in (fst z =? 16384) && (snd z =? 16384))
      && existsb (fun p => (fst p =? 0) && (snd p =? 0)) l
  end.
