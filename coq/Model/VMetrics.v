(* Executable model of the vertical metrics of a face WITHOUT variation coordinates, fed with raw table bytes
   (head, hhea, hmtx, vhea, vmtx, VORG, OS/2, the header of one glyf record):

     font.loadHVtmx for vhea/vmtx (same code as hhea/hmtx), tables.Hmtx.IsEmpty / Advance, font.getSideBearing
     Font.getBaseAdvance (vertical: the default is the full em), Face.VerticalAdvance, Font.HasVerticalMetrics
     tables.ParseVORG, VORG.YOrigin (binary search)
     tables.ParseOs2 / font.newOs2 (useTypoMetrics), Font.getPositionCommon + fixAscenderDescender for the horizontal
       ascender and descender, Face.FontHExtents (ascender, descender)
     Face.GlyphVOrigin: x = half the horizontal advance; y from VORG, else from the glyf extents and the top side bearing,
       else (no vmtx) centred in ascender - descender, else (no glyf data) the ascender

   All values are integers or halves of integers, exact in float32.  No proofs in this file. *)
From TV Require Export Model.Composite.
Open Scope Z_scope.

(* loadHmtx / loadVmtx succeeded (f.hhea / f.vhea is not nil) *)
Definition hv_loaded (hea mtx : list Z) (num_glyphs : Z) : bool :=
  match hhea_num_long hea with
  | Ok nl => match parse_hmtx mtx nl (Z.max 0 (num_glyphs - nl)) with Ok _ => true | _ => false end
  | _ => false
  end.

(* Face.VerticalAdvance without variations: the opposite of the base advance *)
Definition vertical_advance (upem : Z) (tv : hmtx_tab) (gid : Z) : Z := - base_advance upem tv true gid.

(* ---- VORG ---- *)
Record vorg_tab := mkVorg { vo_default : Z; vo_entries : list (Z * Z) }.   (* glyph index, vertOriginY *)

Fixpoint vorg_entries (n : nat) (src : list Z) : list (Z * Z) :=
  match n, src with
  | S k, a :: b :: c :: d :: r => (a * 256 + b, sint16 (c * 256 + d)) :: vorg_entries k r
  | _, _ => []
  end.
Definition parse_vorg (src : list Z) : option vorg_tab :=
  if zlen src <? 8 then None else
  let n := u16_at 6 src in
  if zlen src <? 8 + n * 4 then None else
  Some (mkVorg (i16_at 4 src) (vorg_entries (Z.to_nat n) (zskipn 8 src))).

(* VORG.YOrigin: the binary search as written; fuel = number of entries + 1 *)
Fixpoint vorg_search (fuel : nat) (t : vorg_tab) (gid i j : Z) : Z :=
  match fuel with
  | O => vo_default t
  | S k =>
      if i <? j then
        let h := i + (j - i) / 2 in
        let '(g, y) := znth (0, 0) (vo_entries t) h in
        if gid <? g then vorg_search k t gid i h
        else if g <? gid then vorg_search k t gid (h + 1) j
        else y
      else vo_default t
  end.
Definition vorg_y_origin (t : vorg_tab) (gid : Z) : Z :=
  vorg_search (S (length (vo_entries t))) t gid 0 (zlen (vo_entries t)).

(* ---- OS/2 and hhea: horizontal ascender / descender ---- *)
(* Some (sTypoAscender, sTypoDescender) when newOs2 sets useTypoMetrics *)
Definition os2_typo (os2 : list Z) : option (Z * Z) :=
  if zlen os2 <? 78 then None else
  if (2 <=? u16_at 0 os2) && (zlen os2 - 78 <? 12) then None else
  let use := Z.testbit (u16_at 62 os2) 7 in
  let has_data := negb ((u16_at 4 os2 =? 0) && (u16_at 6 os2 =? 0) && (u16_at 64 os2 =? 0) && (u16_at 66 os2 =? 0)) in
  if use && has_data then Some (i16_at 68 os2, i16_at 70 os2) else None.

(* FontHExtents: (Ascender, Descender, ok); ascender forced positive, descender forced negative *)
Definition h_extents (os2 hhea hmtx : list Z) (num_glyphs : Z) : Z * Z * bool :=
  match os2_typo os2 with
  | Some (a, d) => (Z.abs a, - Z.abs d, true)
  | None => if hv_loaded hhea hmtx num_glyphs then (Z.abs (i16_at 4 hhea), - Z.abs (i16_at 6 hhea), true)
            else (0, 0, false)
  end.

(* ---- GlyphVOrigin ---- *)
Record vm_font := mkVMF {
  vf_upem : Z; vf_nglyphs : Z;
  vf_hhea : list Z; vf_hmtx : list Z; vf_vhea : list Z; vf_vmtx : list Z; vf_vorg : list Z; vf_os2 : list Z;
  vf_nglyf : Z                       (* len(f.glyf): 0 when the font has no (valid) glyf table *)
}.

(* [hdr] = the glyf record of the glyph (only its 10 byte header is used), [] for an empty glyph *)
Definition glyph_v_origin (f : vm_font) (th tv : hmtx_tab) (gid : Z) (hdr : list Z) : Z * Z * bool :=
  let adv := match horizontal_advance (vf_upem f) th gid with Ok a => a | _ => 0 end in
  let x := Z.quot adv 2 in
  match parse_vorg (vf_vorg f) with
  | Some vt => (x, vorg_y_origin vt gid, true)
  | None =>
      let '(asc, desc, ok) := h_extents (vf_os2 f) (vf_hhea f) (vf_hmtx f) (vf_nglyphs f) in
      if gid <? vf_nglyf f then
        let h := match hdr with [] => hdr_zero | _ => mkHdr (i16_at 0 hdr) (i16_at 2 hdr) (i16_at 4 hdr) (i16_at 6 hdr) (i16_at 8 hdr) end in
        let '(_, ybearing, _, height) := extents_from_header h (side_bearing th gid) in
        if negb (hmtx_is_empty tv) then (x, ybearing + side_bearing tv gid, true)
        else
          (* y = int32(YBearing + (Ascender - Descender + Height) / 2): halves are exact, the conversion truncates *)
          (x, Z.quot (2 * ybearing + (asc - desc + height)) 2, true)
      else (x, asc, ok)
  end.
