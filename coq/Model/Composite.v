(* Executable model of the COMPOSITE glyph path of package font, fed with raw glyf records:

     tables.CompositeGlyph.parseGlyphs (component records: flags, glyph index, byte/word arguments, scale / x-y scale /
       2x2 matrix as F2Dot14 through Float214FromUint, MORE_COMPONENTS loop, WE_HAVE_INSTRUCTIONS length check)
     CompositeGlyphPart.HasUseMyMetrics / IsAnchored / IsScaledOffsets / ArgsAsTranslation / ArgsAsIndices
     font.transformPoints, contourPoint.translate / transform
     Face.getPointsForGlyph: all of it for a face without variations - simple, empty and composite glyphs, the four
       phantom points (hmtx and vmtx side bearings and advances), USE_MY_METRICS, point matching (anchors),
       the maxCompositeNesting = 20 depth limit, the maxCompositeEdges = 1024 budget of visited glyphs (one counter
       shared by the whole recursion), out-of-range components, the final left-side-bearing shift
     font.buildSegments / midPoint and font.extentsFromPoints on float32 coordinates

   Coordinates are float32 in the Go code; here they are EXACT binary32 values in the representation of Model/F32.v
   (integer multiples of 2^-149), every + and * rounded as the hardware does.  Nothing is approximated.
   No proofs in this file. *)
From TV Require Export Model.Outline Model.F32.
Open Scope Z_scope.

(* ------------------------------------------------------------------------------------------------ *)
(* component records                                                                                    *)

Record cpart := mkPart {
  p_flags : Z;
  p_gid : Z;
  p_arg1 : Z; p_arg2 : Z;               (* raw, unsigned *)
  p_scale : Z * Z * Z * Z               (* Scale[0..3], binary32 *)
}.

(* tables.Float214FromUint: float32(int16(v)) / (1 << 14) - exact *)
Definition f214 (v : Z) : Z := f32_of_int_div_pow2 (sint16 v) 14.

Definition has_bit (flags mask : Z) : bool := negb (Z.land flags mask =? 0).

(* one iteration of the loop of parseGlyphs: returns the part and the rest of src *)
Definition parse_part (src : list Z) : res (cpart * list Z) :=
  if zlen src <? 4 then Err 10 else
  let flags := u16_at 0 src in
  let gid := u16_at 2 src in
  do r1 <- (if has_bit flags 1 then
              if zlen src <? 8 then Err 11 else Ok (u16_at 4 src, u16_at 6 src, zskipn 8 src)
            else
              if zlen src <? 6 then Err 11 else Ok (znth 0 src 4, znth 0 src 5, zskipn 6 src));
  let '(a1, a2, src1) := r1 in
  let one := f32_one in
  do r2 <- (if has_bit flags 8 then                                   (* WE_HAVE_A_SCALE *)
              if zlen src1 <? 2 then Err 12 else
              let s := f214 (u16_at 0 src1) in Ok ((s, 0, 0, s), zskipn 2 src1)
            else if has_bit flags 64 then                             (* WE_HAVE_AN_X_AND_Y_SCALE *)
              if zlen src1 <? 4 then Err 12 else
              Ok ((f214 (u16_at 0 src1), 0, 0, f214 (u16_at 2 src1)), zskipn 4 src1)
            else if has_bit flags 128 then                            (* WE_HAVE_A_TWO_BY_TWO *)
              if zlen src1 <? 8 then Err 12 else
              Ok ((f214 (u16_at 0 src1), f214 (u16_at 2 src1), f214 (u16_at 4 src1), f214 (u16_at 6 src1)), zskipn 8 src1)
            else Ok ((one, 0, 0, one), src1));
  let '(sc, src2) := r2 in
  Ok (mkPart flags gid a1 a2 sc, src2).

(* the do-while loop; every iteration consumes at least 6 bytes, fuel = number of bytes suffices *)
Fixpoint parse_parts (fuel : nat) (src : list Z) : res (list cpart) :=
  match fuel with
  | O => OutOfFuel
  | S k =>
      do r <- parse_part src;
      let '(p, rest) := r in
      if has_bit (p_flags p) 32 then                                  (* MORE_COMPONENTS *)
        do ps <- parse_parts k rest; Ok (p :: ps)
      else if has_bit (p_flags p) 256 then                            (* WE_HAVE_INSTRUCTIONS *)
        if zlen rest <? 2 then Err 13 else
        if zlen rest <? u16_at 0 rest then Err 14 else Ok [p]
      else Ok [p]
  end.

(* tables.ParseCompositeGlyph *)
Definition parse_composite (src : list Z) : res (list cpart) := parse_parts (S (length src)) src.

Inductive glyph_body :=
| BNone
| BSimple (end_pts : list Z) (pts : list (Z * Z * Z))
| BComposite (parts : list cpart).

(* tables.ParseGlyph with the composite branch *)
Definition parse_glyph_full (src : list Z) : res (glyph_hdr * glyph_body) :=
  match src with
  | [] => Ok (hdr_zero, BNone)
  | _ =>
    if zlen src <? 10 then Err 8 else
    let h := mkHdr (i16_at 0 src) (i16_at 2 src) (i16_at 4 src) (i16_at 6 src) (i16_at 8 src) in
    if 0 <=? h_ncont h then
      do r <- parse_simple (zskipn 10 src) (h_ncont h);
      Ok (h, BSimple (fst r) (snd r))
    else
      do ps <- parse_composite (zskipn 10 src);
      Ok (h, BComposite ps)
  end.

Definition part_use_my_metrics (p : cpart) : bool := has_bit (p_flags p) 512.
Definition part_anchored (p : cpart) : bool := negb (has_bit (p_flags p) 2).
Definition part_scaled_offsets (p : cpart) : bool := Z.land (p_flags p) 6144 =? 2048.
Definition sint8 (x : Z) : Z := let y := x mod 256 in if y <? 128 then y else y - 256.
Definition part_translation (p : cpart) : Z * Z :=
  if has_bit (p_flags p) 1 then (sint16 (p_arg1 p), sint16 (p_arg2 p)) else (sint8 (p_arg1 p), sint8 (p_arg2 p)).

(* ------------------------------------------------------------------------------------------------ *)
(* float32 points (cpoint with binary32 coordinates)                                                    *)

Definition fp_translate (tx ty : Z) (p : cpoint) : cpoint :=
  mkCP (f32_add (cp_x p) tx) (f32_add (cp_y p) ty) (cp_on p) (cp_end p).
(* contourPoint.transform: px := X*m0 + Y*m2 ; Y = X*m1 + Y*m3 ; X = px *)
Definition fp_transform (m : Z * Z * Z * Z) (p : cpoint) : cpoint :=
  let '(m0, m1, m2, m3) := m in
  mkCP (f32_add (f32_mul (cp_x p) m0) (f32_mul (cp_y p) m2))
       (f32_add (f32_mul (cp_x p) m1) (f32_mul (cp_y p) m3)) (cp_on p) (cp_end p).

Definition scale_is_identity (m : Z * Z * Z * Z) : bool :=
  let '(m0, m1, m2, m3) := m in (m0 =? f32_one) && (m1 =? 0) && (m2 =? 0) && (m3 =? f32_one).

(* the map font.transformPoints applies to every point of the component *)
Definition part_transform (p : cpart) : cpoint -> cpoint :=
  let '(tx, ty) := if part_anchored p then (0, 0)
                   else (f32_of_int (fst (part_translation p)), f32_of_int (snd (part_translation p))) in
  if (tx =? 0) && (ty =? 0) && scale_is_identity (p_scale p) then (fun c => c)
  else if part_scaled_offsets p then (fun c => fp_transform (p_scale p) (fp_translate tx ty c))
  else (fun c => fp_translate tx ty (fp_transform (p_scale p) c)).

Definition fp_of_int_point (c : cpoint) : cpoint := mkCP (f32_of_int (cp_x c)) (f32_of_int (cp_y c)) (cp_on c) (cp_end c).
Definition fp_zero : cpoint := mkCP 0 0 false false.

(* ------------------------------------------------------------------------------------------------ *)
(* getPointsForGlyph                                                                                    *)

Record cenv := mkEnv {
  e_nglyf : Z;                       (* len(f.glyf) *)
  e_recs : list (Z * list Z);        (* glyph id -> raw glyf record (glyf[loca[g]:loca[g+1]]) *)
  e_hmtx : hmtx_tab;
  e_vmtx : hmtx_tab;
  e_upem : Z
}.

Fixpoint lookup_rec (recs : list (Z * list Z)) (gid : Z) : option (list Z) :=
  match recs with
  | [] => None
  | (g, r) :: t => if g =? gid then Some r else lookup_rec t gid
  end.

(* Font.getBaseAdvance *)
Definition base_advance (upem : Z) (t : hmtx_tab) (vertical : bool) (gid : Z) : Z :=
  if hmtx_is_empty t then (if vertical then sint16 upem else sint16 (upem / 2))
  else match tab_advance t gid with Ok a => a | _ => 0 end.

(* the four phantom points: left, right, top, bottom *)
Definition phantoms_of (e : cenv) (h : glyph_hdr) (gid : Z) : list cpoint :=
  let h_delta := f32_of_int (sint16 (h_xmin h - side_bearing (e_hmtx e) gid)) in
  let v_orig := f32_of_int (sint16 (h_ymax h + side_bearing (e_vmtx e) gid)) in
  let h_adv := f32_of_int (base_advance (e_upem e) (e_hmtx e) false gid) in
  let v_adv := f32_of_int (base_advance (e_upem e) (e_vmtx e) true gid) in
  [mkCP h_delta 0 false false; mkCP (f32_add h_adv h_delta) 0 false false;
   mkCP 0 v_orig false false; mkCP 0 (f32_sub v_orig v_adv) false false].

Definition max_composite_nesting : Z := 20.

Definition last4 (l : list cpoint) : list cpoint := skipn (length l - 4) l.
Definition drop_last4 (l : list cpoint) : list cpoint := firstn (length l - 4) l.

(* what one component contributes: [comp] = the component's own point list with its phantoms (at least 4 points),
   [all] = the points collected so far.  transformPoints, the (zero) gvar translation, then point matching *)
Definition place_component (p : cpart) (all comp : list cpoint) : list cpoint :=
  let c1 := map (part_transform p) comp in
  let c2 := map (fp_translate 0 0) c1 in            (* tx, ty = points[compIndex] = 0 without variations *)
  if part_anchored p && (p_arg1 p <? zlen all) && (p_arg2 p <? zlen comp) then
    let a := znth fp_zero all (p_arg1 p) in
    let b := znth fp_zero c2 (p_arg2 p) in
    map (fp_translate (f32_sub (cp_x a) (cp_x b)) (f32_sub (cp_y a) (cp_y b))) c2
  else c2.

Definition max_composite_edges : Z := 1024.

Section Components.
  (* the recursive call f.getPointsForGlyphRec(item.GlyphIndex, currentDepth+1, edgeCount, &compPoints):
     glyph id, value of *edgeCount before the call -> points appended, value of *edgeCount after the call *)
  Variable rec_call : Z -> Z -> res (list cpoint * Z).

  Fixpoint components (parts : list cpart) (all phantoms : list cpoint) (ec : Z) : res (list cpoint * list cpoint * Z) :=
    match parts with
    | [] => Ok (all, phantoms, ec)
    | p :: r =>
        do cr <- rec_call (p_gid p) ec;
        let '(comp, ec1) := cr in
        if zlen comp <? 4 then components r all phantoms ec1 else
        let phantoms' := if part_use_my_metrics p then last4 comp else phantoms in
        let placed := place_component p all comp in
        components r (all ++ drop_last4 placed) phantoms' ec1
    end.
End Components.

(* Face.getPointsForGlyphRec(gid, depth, edgeCount, &out) for out initially empty and *edgeCount = ec; the result is what
   is appended ([] when the call returns at once: too deep, more than 1024 glyphs already visited, gid out of range) and
   the new value of *edgeCount.  fuel counts recursion levels. *)
Fixpoint points_for_glyph (fuel : nat) (e : cenv) (gid depth ec : Z) : res (list cpoint * Z) :=
  match fuel with
  | O => OutOfFuel
  | S k =>
      if (max_composite_nesting <? depth) || (max_composite_edges <? ec) || (e_nglyf e <=? gid) then Ok ([], ec) else
      let ec0 := ec + 1 in
      match lookup_rec (e_recs e) gid with
      | None => Err 21                                     (* record not supplied: outside the model's input *)
      | Some raw =>
          do g <- parse_glyph_full raw;
          let '(h, body) := g in
          let ph := phantoms_of e h gid in
          do r <- match body with
                  | BSimple end_pts pts =>
                      Ok (map fp_of_int_point (contour_points_from 0 end_pts pts) ++ ph, ec0)
                  | BNone => Ok (ph, ec0)
                  | BComposite parts =>
                      do r <- components (fun g' c => points_for_glyph k e g' (depth + 1) c) parts [] ph ec0;
                      let '(all', ph', ec') := r in
                      Ok (all' ++ ph', ec')
                  end;
          let '(all, ec') := r in
          if depth =? 0 then
            let tx := f32_neg (cp_x (nth 0 (last4 all) fp_zero)) in
            Ok (map (fp_translate tx 0) all, ec')
          else Ok (all, ec')
      end
  end.

Definition comp_fuel : nat := 23.
(* the top-level call Face.getPointsForGlyph(gid, 0, &out): the counter starts at 0 *)
Definition glyf_all_points (e : cenv) (gid : Z) : res (list cpoint) :=
  do r <- points_for_glyph comp_fuel e gid 0 0; Ok (fst r).

(* ------------------------------------------------------------------------------------------------ *)
(* buildSegments on float32 points: the automaton of Model/Outline.v with the float32 midpoint             *)

Section BuildSegmentsGen.
  Variable mid : pt -> pt -> pt.

  Definition bsg_close (s : bstate) : bstate * list seg :=
    let out :=
      match foffV s, loffV s with
      | false, false => [LineTo (fon s)]
      | false, true => [QuadTo (loff s) (fon s)]
      | true, false => [QuadTo (foff s) (fon s)]
      | true, true => [QuadTo (loff s) (mid (loff s) (foff s)); QuadTo (foff s) (fon s)]
      end in
    (mkBS false false false (fon s) (foff s) (loff s), out).

  Definition bsg_point (s : bstate) (c : cpoint) : bstate * list seg :=
    let p := (cp_x c, cp_y c) in
    if negb (fonV s) then
      if cp_on c then
        (mkBS true (foffV s) (loffV s) p (foff s) (loff s), [MoveTo p])
      else if negb (foffV s) then
        (mkBS (fonV s) true (loffV s) (fon s) p (loff s), [])
      else
        let m := mid (foff s) p in
        (mkBS true (foffV s) true m (foff s) p, [MoveTo m])
    else if negb (loffV s) then
      if negb (cp_on c) then
        (mkBS (fonV s) (foffV s) true (fon s) (foff s) p, [])
      else
        (s, [LineTo p])
    else
      if negb (cp_on c) then
        (mkBS (fonV s) (foffV s) true (fon s) (foff s) p, [QuadTo (loff s) (mid (loff s) p)])
      else
        (mkBS (fonV s) (foffV s) false (fon s) (foff s) (loff s), [QuadTo (loff s) p]).

  Definition bsg_step (s : bstate) (c : cpoint) : bstate * list seg :=
    let '(s1, o1) := bsg_point s c in
    if cp_end c then let '(s2, o2) := bsg_close s1 in (s2, o1 ++ o2) else (s1, o1).

  Fixpoint bsg_run (s : bstate) (pts : list cpoint) : bstate * list seg :=
    match pts with
    | [] => (s, [])
    | c :: r => let '(s1, o1) := bsg_step s c in let '(s2, o2) := bsg_run s1 r in (s2, o1 ++ o2)
    end.
End BuildSegmentsGen.

(* font.midPoint: (p.X + q.X) / 2 in float32 *)
Definition f32_mid (p q : pt) : pt := (f32_half (f32_add (fst p) (fst q)), f32_half (f32_add (snd p) (snd q))).

Definition build_segments_f (pts : list cpoint) : list seg := snd (bsg_run f32_mid bs_init pts).

(* Face.glyphDataFromGlyf: the outline of any glyf glyph *)
Definition glyf_outline_f (e : cenv) (gid : Z) : res (list seg) :=
  do all <- glyf_all_points e gid;
  Ok (build_segments_f (drop_last4 all)).

(* font.extentsFromPoints on float32: min/max are exact, the two subtractions round *)
Definition extents_from_points_f (pts : list cpoint) : extents :=
  match pts with
  | [] => (0, 0, 0, 0)
  | p0 :: _ =>
      let '(minx, miny, maxx, maxy) := bbox_acc pts (cp_x p0) (cp_y p0) (cp_x p0) (cp_y p0) in
      (minx, maxy, f32_sub maxx minx, f32_sub miny maxy)
  end.

Definition all_finite (pts : list cpoint) : bool :=
  forallb (fun p => f32_finite (cp_x p) && f32_finite (cp_y p)) pts.
