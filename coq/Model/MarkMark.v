(* Executable model of GPOS mark-to-mark attachment (harfbuzz/ot_layout_gpos.go: applyGPOSMarkToMark, applyGPOSMarks)
   under the in-place lookup loop (ot_layout.go applyForward), over the zipper (done, todo) = (Info[:idx], Info[idx:]).
   The parameters are those of Model/MarkBase.v: mb_marks = the attaching marks (mark1: glyph, class, anchor),
   mb_bases = the marks attached to (mark2: glyph, anchors per class).  The glyph attached to is the nearest preceding
   glyph the iterator does not skip (lookup props without the ignore flags: only default ignorables are skipped); it must
   be a mark and the ligature ids / component numbers (ligProps) of the two marks must agree.  ProduceUnsafeToConcat
   off, anchors of format 1 with scale = upem.  No proofs here. *)
From TV Require Export Model.MarkBase.

(* the iterator of applyGPOSMarkToMark: lookupProps &^ ignoreFlags, GPOS (ZWNJ and ZWJ ignored), mask = lookup mask *)
Definition mm_match (P : mbparams) : item -> mres := match_plain 0 (mb_mask P) true true.

(* the ligature ids / components of the two marks allow the attachment *)
Definition mm_good (x y : item) : bool :=
  let id1 := lig_id x in let id2 := lig_id y in
  let c1 := lig_comp x in let c2 := lig_comp y in
  if id1 =? id2 then (id1 =? 0) || (c1 =? c2)
  else ((0 <? id1) && (c1 =? 0)) || ((0 <? id2) && (c2 =? 0)).

(* what the lookup decides at x with Info[:idx] = d: the index of the mark attached to and the rewritten x *)
Definition mm_plan (P : mbparams) (d : list item) (x : item) : option (nat * item) :=
  if negb (has_mask (mb_mask P) x && check_prop (mb_flag P) x) then None
  else match mb_mark P (igid x) with
  | None => None
  | Some (class, mx, my) =>
    match snext (mm_match P) (rev d) with
    | None => None
    | Some dist =>
      let b := (length d - 1 - dist)%nat in
      let y := nth b d i0 in
      if negb (is_gmark y) then None
      else if negb (mm_good x y) then None
      else match mb_base P (igid y) with
           | None => None
           | Some anchors =>
             match mb_anchor anchors class with
             | None => None
             | Some (bx, byy) => Some (b, mb_attach x (bx - mx) (byy - my) (Z.of_nat b - Z.of_nat (length d)))
             end
           end
    end
  end.

(* one iteration of applyForward: the window [j, idx+1) is flagged *)
Definition mm_step (P : mbparams) (d t : list item) : list item * list item * bool :=
  match t with
  | [] => (d, [], false)
  | x :: rest =>
    match mm_plan P d x with
    | None => (d ++ [x], rest, false)
    | Some (b, x') => (firstn b d ++ flag_window (skipn b d ++ [x']), rest, true)
    end
  end.

Fixpoint mm_loop (P : mbparams) (fuel : nat) (d t : list item) (rec : bool) : list item * bool :=
  match fuel with
  | O => (d ++ t, rec)
  | S f => match t with
           | [] => (d, rec)
           | _ => let '(d', t', r) := mm_step P d t in mm_loop P f d' t' (rec || r)
           end
  end.

Definition mm_lookup (st : list item * bool) (P : mbparams) : list item * bool :=
  let '(l, rec) := st in
  if mb_mask P =? 0 then st else mm_loop P (length l) [] l rec.

Definition mm_run (Ps : list mbparams) (l : list item) (rec : bool) : list item * bool :=
  fold_left mm_lookup Ps (l, rec).

(* the pass of the cut theorem, no context *)
Definition mm_pass (P : mbparams) : @pass item unit :=
  mkPass (fun _ _ d t => let '(d', t', _) := mm_step P d t in (d', t')) (fun _ => tt) (fun _ => tt).
