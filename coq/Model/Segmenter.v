(* Hand-written model of segmenter/segmenter.go, unicode14_rules.go, unicode29_rules.go:
   the cursor automaton, computeBreakAttributes, Segmenter.Init and the iterators.
   Faithful transcription: rule functions are applied in the source order, each overriding the
   previous result.  Go nil class pointers are `None`.  No proofs here. *)
From TV Require Export Model.SegClasses Lib.Res.
Open Scope Z_scope.

Definition is_lb (c : option lbc) (k : lbc) : bool :=
  match c with Some x => lbc_beq x k | None => false end.
Definition lbq (a b : lbc) : bool := lbc_beq a b.
Definition gbq (a b : gbc) : bool := gbc_beq a b.
Definition wbq (a b : wbc) : bool := wbc_beq a b.

Inductive breakOp := breakEmpty | breakProhibited | breakAllowed | breakMandatory.
Inductive numSeq := noNumSequence | inNumSequence | seenCloseNum.
Inductive pictoSeq := noPictoSequence | inPictoExtend | seenPictoZWJ.

Record cursor := mkCursor {
  c_prev : obs; c_r : obs; c_next : obs;
  c_isExtPic : bool;
  c_prevGrapheme : gbc; c_grapheme : gbc;
  c_gRIOdd : bool;
  c_prevPrevWord : wbc; c_prevWord : wbc; c_word : wbc;
  c_prevWordNoExtend : Z;
  c_wRIOdd : bool;
  c_prevPrevLine : option lbc; c_prevLine : option lbc; c_line : lbc; c_nextLine : lbc;
  c_beforeSpaces : option lbc;
  c_prevBase : obs;       (* prevLineRune: the rune carrying c_prevLine *)
  c_lRIOdd : bool;
  c_numSequence : numSeq;
  c_pictoSequence : pictoSeq
}.

(* newCursor: zero values everywhere except prevPrevLine, prevWordNoExtend, nextLine.
   A nil grapheme / word class is GB_None / WB_None (the lookups return nil for "no class"). *)
Definition new_cursor (text : list obs) : cursor :=
  mkCursor obs_nul obs_nul obs_nul false GB_None GB_None false WB_None WB_None WB_None (-1) false
           (Some LB_XX) None LB_XX   (* c_line is overwritten by startIteration before being read;
                                        Go's zero value is nil, never compared *)
           (match text with [] => LB_XX | o :: _ => o_lb o end)
           None obs_nul false noNumSequence noPictoSequence.

(* ---- startIteration ---- *)
Definition start_iteration (cr : cursor) (i : Z) (r next : obs) : cursor :=
  let shift := negb (wbq (c_word cr) WB_ExtendFormat) in
  mkCursor (c_r cr) r next
           (o_pic r)
           (c_grapheme cr) (o_gb r)
           (c_gRIOdd cr)
           (if shift then c_prevWord cr else c_prevPrevWord cr)
           (if shift then c_word cr else c_prevWord cr)
           (o_wb r)
           (if shift then i - 1 else c_prevWordNoExtend cr)
           (c_wRIOdd cr)
           (c_prevPrevLine cr) (c_prevLine cr) (c_nextLine cr) (o_lb next)
           (c_beforeSpaces cr) (c_prevBase cr) (c_lRIOdd cr) (c_numSequence cr) (c_pictoSequence cr).

(* ---- grapheme rules ---- *)
Definition update_picto (st : pictoSeq) (isExtPic : bool) (grapheme : gbc) : pictoSeq * bool :=
  match st with
  | noPictoSequence => (if isExtPic then inPictoExtend else noPictoSequence, false)
  | inPictoExtend =>
      if gbq grapheme GB_Extend then (inPictoExtend, false)
      else if gbq grapheme GB_ZWJ then (seenPictoZWJ, false)
      else if isExtPic then (inPictoExtend, false)   (* repaired (F21): a pictographic rune restarts the sequence *)
      else (noPictoSequence, false)
  | seenPictoZWJ => if isExtPic then (inPictoExtend, true) else (noPictoSequence, false)
  end.

Definition update_grapheme_ri (odd : bool) (grapheme : gbc) : bool * bool :=   (* new parity, trigger *)
  if gbq grapheme GB_RI then (negb odd, odd) else (false, false).

Definition grapheme_decision (prev r : obs) (br0 br1 : gbc) (gb11 gb1213 : bool) : bool :=
  if o_lf r && o_cr prev then false
  else if gbq br0 GB_Control || gbq br0 GB_CR || gbq br0 GB_LF || gbq br1 GB_Control || gbq br1 GB_CR || gbq br1 GB_LF then true
  else if gbq br0 GB_L && (gbq br1 GB_L || gbq br1 GB_V || gbq br1 GB_LV || gbq br1 GB_LVT) then false
  else if (gbq br0 GB_LV || gbq br0 GB_V) && (gbq br1 GB_V || gbq br1 GB_T) then false
  else if (gbq br0 GB_LVT || gbq br0 GB_T) && gbq br1 GB_T then false
  else if gbq br1 GB_Extend || gbq br1 GB_ZWJ then false
  else if gbq br1 GB_SpacingMark then false
  else if gbq br0 GB_Prepend then false
  else if gb11 then false
  else if gb1213 then false
  else true.

(* ---- word rules ---- *)
Definition update_word_ri (odd : bool) (word : wbc) : bool * bool :=
  if wbq word WB_ExtendFormat then (odd, false)
  else if wbq word WB_RI then (negb odd, odd)
  else (false, false).

Definition ahletter (w : wbc) : bool := wbq w WB_ALetter || wbq w WB_Hebrew_Letter.
Definition ahn (w : wbc) : bool := ahletter w || wbq w WB_Numeric.

(* returns (isWordBoundary, removePrevNoExtend) *)
Definition word_decision (prevr r : obs) (prevPrev prev current : wbc) (isAfterNoExtend isExtPic : bool) (wb1516 : bool)
  : bool * bool :=
  if o_cr prevr && o_lf r then (false, false)
  else if wbq prev WB_NewlineCRLF && isAfterNoExtend then (true, false)
  else if wbq current WB_NewlineCRLF then (true, false)
  else if wbq prev WB_WSegSpace && wbq current WB_WSegSpace && isAfterNoExtend then (false, false)
  else if wbq current WB_ExtendFormat then (false, false)
  else if ahn prev && ahn current then (false, false)
  else if wbq prev WB_Katakana && wbq current WB_Katakana then (false, false)
  else if (ahn prev || wbq prev WB_Katakana || wbq prev WB_ExtendNumLet) && wbq current WB_ExtendNumLet then (false, false)
  else if wbq prev WB_ExtendNumLet && (ahn current || wbq current WB_Katakana) then (false, false)
  else if ahletter prevPrev && (wbq prev WB_MidLetter || wbq prev WB_MidNumLet || wbq prev WB_Single_Quote) && ahletter current
       then (false, true)
  else if wbq prev WB_Hebrew_Letter && wbq current WB_Single_Quote then (false, false)
  else if wbq prevPrev WB_Hebrew_Letter && wbq prev WB_Double_Quote && wbq current WB_Hebrew_Letter
       then (false, true)                                  (* repaired (F19): class of the previous non-Extend rune *)
  else if (wbq prevPrev WB_Numeric && wbq current WB_Numeric)
          && (wbq prev WB_MidNum || wbq prev WB_MidNumLet || wbq prev WB_Single_Quote) then (false, true)
  else if o_zwj prevr && isExtPic then (false, false)    (* WB3c, tested late (repaired F25): see the source comment *)
  else if wb1516 then (false, false)
  else (true, false).

(* ---- line rules ---- *)
Definition rule_lb1 (r : obs) (line : lbc) : lbc :=
  match line with
  | LB_AI | LB_SG | LB_XX => LB_AL
  | LB_SA => if o_mnmc r then LB_CM else LB_AL
  | LB_CJ => LB_NS
  | c => c
  end.

Definition update_num_sequence (st : numSeq) (line : lbc) : numSeq * bool :=
  if lbq line LB_CM || lbq line LB_ZWJ then (st, false)
  else match st with
       | noNumSequence => (if lbq line LB_NU then inNumSequence else noNumSequence, false)
       | inNumSequence =>
           match line with
           | LB_NU | LB_SY | LB_IS => (inNumSequence, true)
           | LB_CL | LB_CP => (seenCloseNum, true)
           | LB_PO | LB_PR => (noNumSequence, true)
           | _ => (noNumSequence, false)
           end
       | seenCloseNum =>
           if lbq line LB_PO || lbq line LB_PR then (noNumSequence, true)
           else (if lbq line LB_NU then inNumSequence else noNumSequence, false)
       end.

Definition setif (c : bool) (v : breakOp) (b : breakOp) : breakOp := if c then v else b.

Section LineRules.
  (* the cursor fields the line rules read (c_line after ruleLB1) *)
  Variables (p0 pp : option lbc) (b1 : lbc) (bs : option lbc) (prevr base r : obs) (nextLine : lbc) (riodd : bool).
  Let is1 (k : lbc) := lbq b1 k.
  Let is0 (k : lbc) := is_lb p0 k.

  Definition rule_lb30 (b : breakOp) : breakOp :=
    let b := setif ((is0 LB_AL || is0 LB_HL || is0 LB_NU) && is1 LB_OP && negb (o_wide r)) breakProhibited b in
    setif (is0 LB_CP && negb (o_wide base) && (is1 LB_AL || is1 LB_HL || is1 LB_NU)) breakProhibited b.

  Definition rule_lb30ab (b : breakOp) : breakOp :=
    let b := setif (riodd && is1 LB_RI) breakProhibited b in
    let b := setif (is0 LB_EB && is1 LB_EM) breakProhibited b in
    setif (o_pic base && o_cn base && is1 LB_EM) breakProhibited b.

  Let jamo_any (f : lbc -> bool) := f LB_JL || f LB_JV || f LB_JT || f LB_H2 || f LB_H3.

  Definition rule_lb29to26 (b : breakOp) : breakOp :=
    let b := setif (is0 LB_IS && (is1 LB_AL || is1 LB_HL)) breakProhibited b in
    let b := setif ((is0 LB_AL || is0 LB_HL) && (is1 LB_AL || is1 LB_HL)) breakProhibited b in
    let b := setif (jamo_any is0 && is1 LB_PO) breakProhibited b in
    let b := setif (is0 LB_PR && jamo_any is1) breakProhibited b in
    let b := setif (is0 LB_JL && (is1 LB_JL || is1 LB_JV || is1 LB_H2 || is1 LB_H3)) breakProhibited b in
    let b := setif ((is0 LB_JV || is0 LB_H2) && (is1 LB_JV || is1 LB_JT)) breakProhibited b in
    setif ((is0 LB_JT || is0 LB_H3) && is1 LB_JT) breakProhibited b.

  Definition rule_lb25 (trigger : bool) (b : breakOp) : breakOp :=
    let b := setif ((is0 LB_PR || is0 LB_PO) && is1 LB_NU) breakProhibited b in
    let b := setif ((is0 LB_PR || is0 LB_PO) && (is1 LB_OP || is1 LB_HY) && lbq nextLine LB_NU) breakProhibited b in
    let b := setif ((is0 LB_OP || is0 LB_HY) && is1 LB_NU) breakProhibited b in
    let b := setif (is0 LB_NU && (is1 LB_NU || is1 LB_SY || is1 LB_IS)) breakProhibited b in
    setif trigger breakProhibited b.

  Definition rule_lb24to22 (b : breakOp) : breakOp :=
    let b := setif ((is0 LB_PR || is0 LB_PO) && (is1 LB_AL || is1 LB_HL)) breakProhibited b in
    let b := setif ((is0 LB_AL || is0 LB_HL) && (is1 LB_PR || is1 LB_PO)) breakProhibited b in
    let b := setif ((is0 LB_AL || is0 LB_HL) && is1 LB_NU) breakProhibited b in
    let b := setif (is0 LB_NU && (is1 LB_AL || is1 LB_HL)) breakProhibited b in
    let b := setif (is0 LB_PR && (is1 LB_ID || is1 LB_EB || is1 LB_EM)) breakProhibited b in
    let b := setif ((is0 LB_ID || is0 LB_EB || is0 LB_EM) && is1 LB_PO) breakProhibited b in
    setif (is1 LB_IN) breakProhibited b.

  Definition rule_lb21to9 (b : breakOp) : breakOp :=
    let b := setif (is1 LB_BA || is1 LB_HY || is1 LB_NS || is0 LB_BB) breakProhibited b in
    let b := setif (is_lb pp LB_HL && (is0 LB_HY || is0 LB_BA)) breakProhibited b in
    let b := setif (is0 LB_SY && is1 LB_HL) breakProhibited b in
    let b := setif (is0 LB_CB || is1 LB_CB) breakAllowed b in
    let b := setif (is0 LB_QU || is1 LB_QU) breakProhibited b in
    let b := setif (is0 LB_SP) breakAllowed b in
    let b := setif (is_lb bs LB_B2 && is1 LB_B2) breakProhibited b in
    let b := setif ((is_lb bs LB_CL || is_lb bs LB_CP) && is1 LB_NS) breakProhibited b in
    let b := setif (is_lb bs LB_QU && is1 LB_OP) breakProhibited b in
    let b := setif (is_lb bs LB_OP) breakProhibited b in
    let b := setif (is1 LB_EX) breakProhibited b in
    let b := setif (negb (is0 LB_NU) && (is1 LB_CL || is1 LB_CP || is1 LB_IS || is1 LB_SY)) breakProhibited b in
    let b := setif (is0 LB_GL) breakProhibited b in
    let b := setif (negb (is0 LB_SP) && negb (is0 LB_BA) && negb (is0 LB_HY) && is1 LB_GL) breakProhibited b in
    let b := setif (is0 LB_WJ || is1 LB_WJ) breakProhibited b in
    setif ((is1 LB_CM || is1 LB_ZWJ)
           && negb (is0 LB_BK || is0 LB_CR || is0 LB_LF || is0 LB_NL || is0 LB_SP || is0 LB_ZW)) breakProhibited b.

  Definition rule_lb8 (b : breakOp) : breakOp :=
    let b := setif (is_lb bs LB_ZW) breakAllowed b in
    setif (o_zwjtab prevr) breakProhibited b.

  Definition rule_lb7to4 (b : breakOp) : breakOp :=
    let b := setif (is1 LB_SP || is1 LB_ZW) breakProhibited b in
    let b := setif (is1 LB_BK || is1 LB_CR || is1 LB_LF || is1 LB_NL) breakProhibited b in
    setif (is0 LB_BK || (is0 LB_CR && negb (o_lf r)) || is0 LB_LF || is0 LB_NL) breakMandatory b.

  Definition line_decision (trigger : bool) : breakOp :=
    rule_lb7to4 (rule_lb8 (rule_lb21to9 (rule_lb24to22 (rule_lb25 trigger (rule_lb29to26 (rule_lb30ab (rule_lb30 breakEmpty))))))).
End LineRules.

(* ---- endIteration ---- *)
Definition end_iteration (cr : cursor) (isStart : bool) : cursor :=
  let line := c_line cr in
  let cmz := lbq line LB_CM || lbq line LB_ZWJ in
  let p0 := c_prevLine cr in
  let isLB10 := is_lb p0 LB_BK || is_lb p0 LB_CR || is_lb p0 LB_LF || is_lb p0 LB_NL || is_lb p0 LB_SP || is_lb p0 LB_ZW in
  let prevLine' := if cmz then (if isStart || isLB10 then Some LB_AL else p0) else Some line in
  let prevPrev' := if cmz then c_prevPrevLine cr else p0 in
  let base' := if cmz then (if isStart || isLB10 then c_r cr else c_prevBase cr) else c_r cr in
  let bs' := if is_lb prevLine' LB_SP then c_beforeSpaces cr else prevLine' in
  let ri' := if lbq line LB_RI then negb (c_lRIOdd cr) else if cmz then c_lRIOdd cr else false in
  mkCursor (c_prev cr) (c_r cr) (c_next cr) (c_isExtPic cr) (c_prevGrapheme cr) (c_grapheme cr) (c_gRIOdd cr)
           (c_prevPrevWord cr) (c_prevWord cr) (c_word cr) (c_prevWordNoExtend cr) (c_wRIOdd cr)
           prevPrev' prevLine' line (c_nextLine cr) bs' base' ri' (c_numSequence cr) (c_pictoSequence cr).

(* setters for the fields updated inside the rule functions *)
Definition set_rules_state (cr : cursor) (gri : bool) (picto : pictoSeq) (wri : bool) (line : lbc) (ns : numSeq) : cursor :=
  mkCursor (c_prev cr) (c_r cr) (c_next cr) (c_isExtPic cr) (c_prevGrapheme cr) (c_grapheme cr) gri
           (c_prevPrevWord cr) (c_prevWord cr) (c_word cr) (c_prevWordNoExtend cr) wri
           (c_prevPrevLine cr) (c_prevLine cr) line (c_nextLine cr) (c_beforeSpaces cr) (c_prevBase cr) (c_lRIOdd cr) ns picto.

(* one iteration of the main loop at index i (0 <= i <= len): returns the new cursor, the attribute of
   position i and the index whose word flag must be cleared (if any) *)
(* `aft` is cursor.afterMarksLine: the class following r past the combining marks attached to it (see after_marks) *)
Definition step (cr0 : cursor) (i : Z) (r next : obs) (aft : lbc) : cursor * attr * option Z :=
  let cr := start_iteration cr0 i r next in
  let '(picto, gb11) := update_picto (c_pictoSequence cr) (c_isExtPic cr) (c_grapheme cr) in
  let '(gri, gb1213) := update_grapheme_ri (c_gRIOdd cr) (c_grapheme cr) in
  let isG := grapheme_decision (c_prev cr) (c_r cr) (c_prevGrapheme cr) (c_grapheme cr) gb11 gb1213 in
  let '(wri, wb1516) := update_word_ri (c_wRIOdd cr) (c_word cr) in
  let '(isW, remove) := word_decision (c_prev cr) (c_r cr) (c_prevPrevWord cr) (c_prevWord cr) (c_word cr)
                                      (c_prevWordNoExtend cr =? i - 1) (c_isExtPic cr) wb1516 in
  let line := rule_lb1 (c_r cr) (c_line cr) in
  let '(ns, trigger) := update_num_sequence (c_numSequence cr) line in
  let cr1 := set_rules_state cr gri picto wri line ns in
  let bo := line_decision (c_prevLine cr1) (c_prevPrevLine cr1) (c_line cr1) (c_beforeSpaces cr1) (c_prev cr1)
                          (c_prevBase cr1) (c_r cr1) aft (c_lRIOdd cr1) trigger in
  let '(ln, mand) := match bo with
                     | breakEmpty | breakAllowed => (true, false)
                     | breakProhibited => (false, false)
                     | breakMandatory => (true, true)
                     end in
  (end_iteration cr1 (i =? 0)%Z, mkAttr ln mand isG isW, if remove then Some (c_prevWordNoExtend cr) else None).

(* isLineCombiningMark and the look-ahead of startIteration (repaired, F3): when r is OP or HY and the next rune is a
   combining mark, the class of the first rune after the marks (XX at the end of the text); otherwise the next class *)
Definition is_line_mark (o : obs) : bool :=
  match o_lb o with
  | LB_SA => o_mnmc o
  | LB_CM | LB_ZWJ => true
  | _ => false
  end.
Fixpoint first_non_mark (l : list obs) : lbc :=
  match l with
  | [] => LB_XX
  | o :: r => if is_line_mark o then first_non_mark r else o_lb o
  end.
Definition after_marks (r : obs) (rest' : list obs) : lbc :=
  match rest' with
  | [] => o_lb obs_psep
  | n :: rest'' =>
      if (lbq (o_lb r) LB_OP || lbq (o_lb r) LB_HY) && is_line_mark n then first_non_mark rest'' else o_lb n
  end.

Fixpoint clear_word (attrs : list attr) (k : nat) : list attr :=
  match attrs, k with
  | [], _ => []
  | a :: r, O => mkAttr (a_line a) (a_mandatory a) (a_grapheme a) false :: r
  | a :: r, S k' => a :: clear_word r k'
  end.

(* the main loop: `done` holds attributes[0..i-1] (in order); rest = text[i..] *)
Fixpoint loop (cr : cursor) (i : Z) (rest : list obs) (done : list attr) : res (list attr) :=
  match rest with
  | [] =>
      let '(cr', a, rm) := step cr i obs_psep obs_nul (o_lb obs_nul) in
      match rm with
      | Some k => if (k <? 0)%Z || (i <=? k)%Z then Panic 1%nat else Ok (clear_word done (Z.to_nat k) ++ [a])
      | None => Ok (done ++ [a])
      end
  | r :: rest' =>
      let next := match rest' with [] => obs_psep | n :: _ => n end in
      let '(cr', a, rm) := step cr i r next (after_marks r rest') in
      match rm with
      | Some k => if (k <? 0)%Z || (i <=? k)%Z then Panic 1%nat else loop cr' (i + 1) rest' (clear_word done (Z.to_nat k) ++ [a])
      | None => loop cr' (i + 1) rest' (done ++ [a])
      end
  end.

Definition fix_first (a : attr) : attr := mkAttr false (a_mandatory a) true true.
Definition fix_last (a : attr) : attr := mkAttr true true true true.

Fixpoint map_last {A} (f : A -> A) (l : list A) : list A :=
  match l with
  | [] => []
  | [x] => [f x]
  | x :: r => x :: map_last f r
  end.

Definition fixups (attrs : list attr) : list attr :=
  (* attributes[0] |= G|W ; attributes[n] |= G|W ; attributes[0] &^= line ; attributes[n] |= line|mandatory *)
  map_last fix_last (match attrs with [] => [] | a :: r => fix_first a :: r end).

Definition compute_attrs (text : list obs) : res (list attr) :=
  do attrs <- loop (new_cursor text) 0 text [];
  Ok (fixups attrs).

(* ---- Segmenter.Init with its reused buffers ---- *)
Record segmenter := mkSeg { sg_text : list obs; sg_attrs : list attr }.
Definition seg_zero : segmenter := mkSeg [] [].
Definition zero_attr := mkAttr false false false false.
(* append(seg.text[:0], paragraph...) ; append(seg.attributes[:0], make(n+1)...) ; compute *)
Definition seg_init (s : segmenter) (paragraph : list obs) : res segmenter :=
  let text := firstn 0%nat (sg_text s) ++ paragraph in
  let blank := firstn 0%nat (sg_attrs s) ++ repeat zero_attr (S (length paragraph)) in
  do attrs <- compute_attrs text;
  Ok (mkSeg text attrs).

(* ---- iterators ---- *)
Inductive flag := F_line | F_grapheme | F_word.
Definition has_flag (f : flag) (a : attr) : bool :=
  match f with F_line => a_line a | F_grapheme => a_grapheme a | F_word => a_word a end.

(* attributeIterator.next from position pos: scan pos+1.. for the flag; attrs_after = attributes[pos+1 ..] *)
Fixpoint scan (f : flag) (attrs_after : list attr) (p : Z) : option Z :=
  match attrs_after with
  | [] => None
  | a :: r => if has_flag f a then Some p else scan f r (p + 1)
  end.
Definition iter_next (f : flag) (s : segmenter) (pos : Z) : option Z :=
  scan f (skipn (Z.to_nat (pos + 1)) (sg_attrs s)) (pos + 1).

(* all segments (offset, length) of the Line / Grapheme iterators *)
Fixpoint segments (f : flag) (s : segmenter) (fuel : nat) (pos : Z) : list (Z * Z) :=
  match fuel with
  | O => []
  | S fuel' => match iter_next f s pos with
               | None => []
               | Some p => (pos, p - pos) :: segments f s fuel' p
               end
  end.
Definition nth_attr (s : segmenter) (p : Z) : attr := nth (Z.to_nat p) (sg_attrs s) zero_attr.
Definition line_segments (s : segmenter) : list (Z * Z * bool) :=
  map (fun sg => (fst sg, snd sg, a_mandatory (nth_attr s (fst sg + snd sg))))
      (segments F_line s (S (length (sg_text s))) 0).
Definition grapheme_segments (s : segmenter) : list (Z * Z) :=
  segments F_grapheme s (S (length (sg_text s))) 0.

(* WordIterator.Next (repaired, F18): after a word ends, the next segment is tested as well *)
Definition is_word_at (s : segmenter) (p : Z) : bool :=
  match nth_error (sg_text s) (Z.to_nat p) with Some o => o_word o | None => false end.
Fixpoint words (s : segmenter) (fuel : nat) (pos : Z) (inWord : bool) : list (Z * Z) :=
  match fuel with
  | O => []
  | S fuel' =>
      match iter_next F_word s pos with
      | None => []
      | Some p =>
          let inWord' := is_word_at s p in   (* pos < len && Is(Word, text[pos]); false at the end *)
          if inWord then (pos, p - pos) :: words s fuel' p inWord'
          else words s fuel' p inWord'
      end
  end.
Definition word_segments (s : segmenter) : list (Z * Z) :=
  words s (S (length (sg_text s))) 0 (match sg_text s with [] => false | o :: _ => o_word o end).
