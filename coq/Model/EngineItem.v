(* The glyph record of the engine-piece models (C18): a GlyphInfo (the glyph of Model/Buffer.v plus ligProps) together with
   its GlyphPosition; the glyph-property tests of glyph.go / ot_layout_gsubgpos.go; the skipping iterator; the window
   flagging unsafeToBreak performs on a monotone buffer.  No proofs here. *)
From TV Require Export Model.Buffer Model.LocalEngine.

(* GlyphPosition: XAdvance, YAdvance, XOffset, YOffset, attachChain, attachType *)
Record posn := mkP { xa : Z; ya : Z; xo : Z; yo : Z; ach : Z; aty : Z }.
Definition p0 : posn := mkP 0 0 0 0 0 0.

Record item := mkI { ig : glyph; ilig : Z; ip : posn }.
Definition i0 : item := mkI g0 0 p0.
Definition icl (x : item) : Z := cl (ig x).
Definition iutb (x : item) : bool := utb (gf (ig x)).
Definition with_g (x : item) (g : glyph) : item := mkI g (ilig x) (ip x).
Definition with_p (x : item) (p : posn) : item := mkI (ig x) (ilig x) p.
Definition with_lig (x : item) (l : Z) : item := mkI (ig x) l (ip x).
Definition igid (x : item) : Z := gid (ig x).
Definition icls (l : list item) : list Z := map icl l.

(* ---- glyph properties (glyph.go) ---- *)
Definition bit_and (a b : Z) : bool := negb (Z.land a b =? 0).
Definition has_mask (m : Z) (x : item) : bool := bit_and (rest (ig x)) m.     (* info.Mask & mask != 0, mask given >> 3 *)
Definition is_gmark (x : item) : bool := bit_and (gp (ig x)) 8.               (* glyphProps & GPMark *)
Definition is_gbase (x : item) : bool := bit_and (gp (ig x)) 2.               (* GPBaseGlyph *)
Definition is_glig (x : item) : bool := bit_and (gp (ig x)) 4.                (* GPLigature *)
Definition is_subst (x : item) : bool := bit_and (gp (ig x)) 16.              (* substituted *)
Definition is_multiplied (x : item) : bool := bit_and (gp (ig x)) 64.
(* isDefaultIgnorableAndNotHidden: unicode & (ignorable|hidden) == ignorable, and not substituted *)
Definition is_di_nh (x : item) : bool := (Z.land (up (ig x)) 96 =? 32) && negb (is_subst x).
Definition is_format (x : item) : bool := Z.land (up (ig x)) 31 =? 1.
Definition is_zwj (x : item) : bool := is_format x && bit_and (up (ig x)) 256.
Definition is_zwnj (x : item) : bool := is_format x && bit_and (up (ig x)) 512.
(* ligProps *)
Definition lig_id (x : item) : Z := Z.shiftr (ilig x) 5.
Definition lig_internal (x : item) : bool := bit_and (ilig x) 16.
Definition lig_comp (x : item) : Z := if lig_internal x then 0 else Z.land (ilig x) 15.

(* checkGlyphProperty for lookup flags without mark filtering (flag a subset of IgnoreBaseGlyphs | IgnoreLigatures |
   IgnoreMarks = 14) *)
Definition check_prop (flag : Z) (x : item) : bool := Z.land (Z.land (gp (ig x)) flag) 14 =? 0.

(* ---- the skipping iterator ---- *)
Inductive mres := MMatch | MNot | MSkip.

(* maySkip: 0 no, 1 yes, 2 maybe; igj / ign = ignoreZWJ / ignoreZWNJ *)
Definition may_skip (flag : Z) (ign igj : bool) (x : item) : Z :=
  if negb (check_prop flag x) then 1
  else if is_di_nh x && (ign || negb (is_zwnj x)) && (igj || negb (is_zwj x)) then 2
  else 0.

(* skippingIterator.match without a match function (kern, mark attachment): mayMatch is `maybe` under the mask *)
Definition match_plain (flag mask : Z) (ign igj : bool) (x : item) : mres :=
  let s := may_skip flag ign igj x in
  if s =? 1 then MSkip
  else if has_mask mask x && (s =? 0) then MMatch
  else if s =? 0 then MNot else MSkip.

(* with matchGlyph against component g *)
Definition match_glyph (flag mask : Z) (ign igj : bool) (g : Z) (x : item) : mres :=
  let s := may_skip flag ign igj x in
  if s =? 1 then MSkip
  else if has_mask mask x && (igid x =? g) then MMatch
  else if s =? 0 then MNot else MSkip.

(* next(): index of the first item of l that matches; None when a glyph that may not be skipped does not match, or l
   is exhausted *)
Fixpoint snext (m : item -> mres) (l : list item) : option nat :=
  match l with
  | [] => None
  | x :: r => match m x with
              | MMatch => Some O
              | MNot => None
              | MSkip => option_map S (snext m r)
              end
  end.

(* ---- flags ---- *)
Definition flag_item (m : fl) (x : item) : item := with_g x (or_flags m (ig x)).
(* what unsafeToBreak(s, e) does to its window w = Info[s:e] on a monotone buffer (Props: flag_window_is_unsafe_to_break):
   glyphs outside the minimal cluster of the window get GlyphUnsafeToBreak | GlyphUnsafeToConcat *)
Definition lminz (l : list Z) : Z := match l with [] => 0 | a :: r => fold_right Z.min a r end.
Definition flag_window_m (m : fl) (w : list item) : list item :=
  match w with
  | _ :: _ :: _ => let c := lminz (icls w) in map (fun x => if icl x =? c then x else flag_item m x) w
  | _ => w
  end.
Definition flag_window := flag_window_m m_break.
(* bsfHasGlyphFlags is set when the window holds at least two glyphs *)
Definition window_records (w : list item) : bool := match w with _ :: _ :: _ => true | _ => false end.

(* int32 arithmetic of GlyphPosition fields *)
Definition add32 (a b : Z) : Z := sint32 (a + b).
