(* Hand-written model of shaping/wrapping.go (the line wrapper) over an explicit glyph store.
   Transcribed function by function: mapRunesToClusterIndices3, inclusiveGlyphRange, cutRun
   (+ trimStartLetterSpacing, RecomputeAdvance), breakOption.isValid, breaker (nextWordRaw,
   nextGraphemeRaw, nextWordBreak, nextGraphemeBreak, mark*Unused) over the segmenter's break
   attributes, runMapper.mapRun, shapedRunSlice (Peek/Next/Save/Restore), wrapBuffer (candidate*,
   markCandidateBest, hasBest), fillUntil, processBreakOption, wrapNextLine (with the end of its grapheme loop,
   word_fallback, and discardWordOption, discard_word), computeBidiOrdering,
   postProcessLine, WrapNextLine, Prepare, WrapParagraph (with the single-run fast path),
   Output.advanceSpaceAware.
   Go slices of glyphs are (source array index, lo, len) into the store, so that the in-place edits
   of trimStartLetterSpacing and of the trailing-whitespace trim are visible through every alias.
   fixed.Int26_6 and int are Z (no overflow on the modelled inputs).  No proofs here. *)
From TV Require Export Lib.GoNum Lib.Res.

(* ---- data ------------------------------------------------------------------------------------ *)

(* one glyph; g_adv / g_ext / g_offs are the fields on the axis of the run that owns the glyph
   (XAdvance, Width, XOffset for horizontal runs; YAdvance, Height, YOffset for vertical ones) *)
Record glyph := mkGlyph {
  g_cluster : Z; g_rc : Z; g_gc : Z;
  g_adv : Z; g_ext : Z; g_offs : Z; g_sls : Z; g_els : Z }.
Definition glyph_zero := mkGlyph 0 0 0 0 0 0 0 0.

Definition store := list (list glyph).

(* an Output value; Glyphs = store[o_src][o_lo : o_lo + o_len] (capacity: to the end of the array) *)
Record out := mkOut {
  o_adv : Z; o_dir : Z; o_off : Z; o_cnt : Z;
  o_src : Z; o_lo : Z; o_len : Z; o_vis : Z }.
Definition out_zero := mkOut 0 0 0 0 (-1) 0 0 0.

Definition set_vis (o : out) (v : Z) : out := mkOut (o_adv o) (o_dir o) (o_off o) (o_cnt o) (o_src o) (o_lo o) (o_len o) v.
Definition set_adv (o : out) (a : Z) : out := mkOut a (o_dir o) (o_off o) (o_cnt o) (o_src o) (o_lo o) (o_len o) (o_vis o).

(* di.Direction: bit 0 progression (1 = TowardTopLeft), bit 1 axis (1 = vertical) *)
Definition dir_rtl (d : Z) : bool := Z.testbit d 0.
Definition dir_vertical (d : Z) : bool := Z.testbit d 1.

Definition src_array (st : store) (src : Z) : list glyph := znth [] st src.
Definition out_glyphs (st : store) (o : out) : list glyph :=
  zfirstn (o_len o) (zskipn (o_lo o) (src_array st (o_src o))).

Definition p_index := 1%nat.   (* index / slice bounds out of range *)

Definition zget {A} (l : list A) (i : Z) : res A :=
  if (0 <=? i) && (i <? zlen l)
  then match nth_error l (Z.to_nat i) with Some x => Ok x | None => Panic p_index end
  else Panic p_index.

Fixpoint list_set {A} (l : list A) (i : nat) (x : A) : list A :=
  match l, i with
  | [], _ => []
  | _ :: r, O => x :: r
  | a :: r, S j => a :: list_set r j x
  end.
Definition zset {A} (l : list A) (i : Z) (x : A) : list A := if i <? 0 then l else list_set l (Z.to_nat i) x.

Definition sum_adv (gs : list glyph) : Z := fold_right (fun g a => g_adv g + a) 0 gs.

(* fixed.Int26_6.Ceil *)
Definition ceil26 (x : Z) : Z := (x + 63) / 64.

(* ---- mapRunesToClusterIndices3 --------------------------------------------------------------- *)

(* for i := cs; i <= ce && i < len(m); i++ { m[i] = v } *)
Definition fill_range (m : list Z) (cs ce v : Z) : res (list Z) :=
  if (cs <=? ce) && (cs <? zlen m) then
    if cs <? 0 then Panic p_index
    else let hi := Z.min ce (zlen m - 1) in
         Ok (zfirstn cs m ++ repeat v (Z.to_nat (hi - cs + 1)) ++ zskipn (hi + 1) m)
  else Ok m.

Fixpoint map3_ltr (fuel : nat) (glyphs : list glyph) (off : Z) (g : Z) (m : list Z) : res (list Z) :=
  match fuel with
  | O => OutOfFuel
  | S f =>
      if g <? zlen glyphs then
        do gl <- zget glyphs g;
        let cs := g_cluster gl - off in
        let ce := g_rc gl + cs in
        do m' <- fill_range m cs ce g;
        map3_ltr f glyphs off (g + g_gc gl) m'
      else Ok m
  end.

Fixpoint map3_rtl (fuel : nat) (glyphs : list glyph) (off : Z) (g : Z) (m : list Z) : res (list Z) :=
  match fuel with
  | O => OutOfFuel
  | S f =>
      if 0 <=? g then
        do gl <- zget glyphs g;
        let g1 := g - (g_gc gl - 1) in
        let cs := g_cluster gl - off in
        let ce := g_rc gl + cs in
        do m' <- fill_range m cs ce g1;
        map3_rtl f glyphs off (g1 - 1) m'
      else Ok m
  end.

(* the loops over the already sized mapping [init] (len = runes.Count) *)
Definition map3 (dir off : Z) (glyphs : list glyph) (init : list Z) : res (list Z) :=
  let fuel := S (length glyphs) in
  if dir_rtl dir then map3_rtl fuel glyphs off (zlen glyphs - 1) init
  else map3_ltr fuel glyphs off 0 init.

(* ---- inclusiveGlyphRange, cutRun ------------------------------------------------------------- *)

Definition inclusive_glyph_range (dir start breakAfter : Z) (m : list Z) (numGlyphs : Z) : res (Z * Z) :=
  if dir_rtl dir then
    do gs <- zget m breakAfter;
    if 0 <=? start - 1 then (do x <- zget m (start - 1); Ok (gs, x - 1)) else Ok (gs, numGlyphs - 1)
  else
    do gs <- zget m start;
    if breakAfter + 1 <? zlen m then (do x <- zget m (breakAfter + 1); Ok (gs, x - 1)) else Ok (gs, numGlyphs - 1).

(* trimStartLetterSpacing on store[src][lo] *)
Definition trim_glyph (g : glyph) : glyph :=
  mkGlyph (g_cluster g) (g_rc g) (g_gc g) (g_adv g - g_sls g) (g_ext g) (g_offs g - g_sls g) 0 (g_els g).
Definition store_update (st : store) (src i : Z) (f : glyph -> glyph) : store :=
  let arr := src_array st src in
  zset st src (zset arr i (f (znth glyph_zero arr i))).

Definition recompute_advance (st : store) (o : out) : out := set_adv o (sum_adv (out_glyphs st o)).

Definition cut_run (st : store) (run : out) (m : list Z) (startRune endRune : Z) (trim : bool) : res (store * out) :=
  let rs0 := startRune - o_off run in
  let re0 := endRune - o_off run in
  let rs := if rs0 <? 0 then 0 else rs0 in
  let re := if zlen m <=? re0 then zlen m - 1 else re0 in
  do ge <- inclusive_glyph_range (o_dir run) rs re m (o_len run);
  let '(gs, gend) := ge in
  (* run.Glyphs[gs : gend+1] : 0 <= gs <= gend+1 <= cap *)
  let cap := zlen (src_array st (o_src run)) - o_lo run in
  if (0 <=? gs) && (gs <=? gend + 1) && (gend + 1 <=? cap) then
    let r1 := mkOut (o_adv run) (o_dir run) (o_off run + rs) (re - rs + 1) (o_src run) (o_lo run + gs) (gend + 1 - gs) (o_vis run) in
    let st1 := if trim && (0 <? o_len r1) then store_update st (o_src r1) (o_lo r1) trim_glyph else st in
    Ok (st1, recompute_advance st1 r1)
  else Panic p_index.

(* breakOption.isValid *)
Definition is_valid (st : store) (opt : Z) (m : list Z) (run : out) : res bool :=
  let ba := opt - o_off run in
  let nr := ba + 1 in
  if (nr <? zlen m) && (0 <=? ba) then
    do gi <- zget m ba;
    do g2 <- zget m nr;
    if (o_len run <=? gi) || (o_len run <=? g2) then Ok false
    else
      do a <- zget (out_glyphs st run) gi;
      do b <- zget (out_glyphs st run) g2;
      Ok (negb (g_cluster a =? g_cluster b))
  else Ok true.

(* Output.advanceSpaceAware *)
Definition advance_space_aware (st : store) (o : out) (pdir : Z) : Z :=
  let gs := out_glyphs st o in
  if (zlen gs =? 0) || negb (pdir =? o_dir o) then o_adv o
  else
    let lastG := if dir_rtl (o_dir o) then znth glyph_zero gs 0 else znth glyph_zero gs (zlen gs - 1) in
    if g_ext lastG =? 0 then o_adv o - g_adv lastG else o_adv o - g_els lastG.

(* ---- breaker over the segmenter's attributes --------------------------------------------------- *)

Definition fl_line := 1.
Definition fl_mandatory := 2.
Definition fl_grapheme := 4.
Definition has_flag (a flag : Z) : bool := negb (Z.land a flag =? 0).

Definition bopt := (Z * bool)%type.   (* breakAtRune, required *)

Record breaker := mkBreaker {
  b_attrs : list Z;        (* seg.attributes, len(text)+1 entries *)
  b_n : Z;                 (* totalRunes *)
  b_wpos : Z; b_gpos : Z;  (* attributeIterator.pos of the line / grapheme iterator *)
  b_unusedW : bopt; b_prevW : bopt; b_isUnusedW : bool;
  b_unusedG : bopt; b_isUnusedG : bool }.

Definition new_breaker (attrs : list Z) : breaker :=
  mkBreaker attrs (zlen attrs - 1) 0 0 (0, false) (0, false) false (0, false) false.

Fixpoint scan_flag (flag : Z) (l : list Z) (p : Z) : option Z :=
  match l with
  | [] => None
  | a :: r => if has_flag a flag then Some p else scan_flag flag r (p + 1)
  end.

(* attributeIterator.next: new pos, found *)
Definition iter_next (attrs : list Z) (n flag pos : Z) : Z * bool :=
  match scan_flag flag (zskipn (pos + 1) (zfirstn (n + 1) attrs)) (pos + 1) with
  | Some p => (p, true)
  | None => (Z.max (pos + 1) (n + 1), false)
  end.

Definition next_word_raw (b : breaker) : breaker * option bopt :=
  let '(p, ok) := iter_next (b_attrs b) (b_n b) fl_line (b_wpos b) in
  let b' := mkBreaker (b_attrs b) (b_n b) p (b_gpos b) (b_unusedW b) (b_prevW b) (b_isUnusedW b) (b_unusedG b) (b_isUnusedG b) in
  if ok then
    let bar := p - 1 in
    (b', Some (bar, has_flag (znth 0 (b_attrs b) p) fl_mandatory && negb (bar =? b_n b - 1)))
  else (b', None).

Definition next_grapheme_raw (b : breaker) : breaker * option bopt :=
  let '(p, ok) := iter_next (b_attrs b) (b_n b) fl_grapheme (b_gpos b) in
  let b' := mkBreaker (b_attrs b) (b_n b) (b_wpos b) p (b_unusedW b) (b_prevW b) (b_isUnusedW b) (b_unusedG b) (b_isUnusedG b) in
  if ok then (b', Some (p - 1, false)) else (b', None).

Definition next_word_break (b : breaker) : breaker * option bopt :=
  if b_isUnusedW b then
    (mkBreaker (b_attrs b) (b_n b) (b_wpos b) (b_gpos b) (b_unusedW b) (b_prevW b) false (b_unusedG b) (b_isUnusedG b),
     Some (b_unusedW b))
  else
    match next_word_raw b with
    | (b1, None) => (b1, None)
    | (b1, Some o) =>
        (mkBreaker (b_attrs b1) (b_n b1) (b_wpos b1) (b_gpos b1) o (b_unusedW b1) (b_isUnusedW b1) (b_unusedG b1) (b_isUnusedG b1),
         Some o)
    end.

(* discardWordOption: unusedWordBreak := previousWordBreak *)
Definition discard_word (b : breaker) : breaker :=
  mkBreaker (b_attrs b) (b_n b) (b_wpos b) (b_gpos b) (b_prevW b) (b_prevW b) (b_isUnusedW b) (b_unusedG b) (b_isUnusedG b).
Definition mark_word_unused (b : breaker) : breaker :=
  mkBreaker (b_attrs b) (b_n b) (b_wpos b) (b_gpos b) (b_unusedW b) (b_prevW b) true (b_unusedG b) (b_isUnusedG b).
Definition set_unusedG (b : breaker) (o : bopt) (flag : bool) : breaker :=
  mkBreaker (b_attrs b) (b_n b) (b_wpos b) (b_gpos b) (b_unusedW b) (b_prevW b) (b_isUnusedW b) o flag.
Definition mark_grapheme_unused (b : breaker) : breaker := set_unusedG b (b_unusedG b) true.

Fixpoint next_grapheme_break (fuel : nat) (b : breaker) : res (breaker * option bopt) :=
  match fuel with
  | O => OutOfFuel
  | S f =>
      let '(b1, r) :=
        if b_isUnusedG b then (set_unusedG b (b_unusedG b) false, Some (b_unusedG b))
        else next_grapheme_raw b in
      match r with
      | None => Ok (b1, None)
      | Some o =>
          if (fst o <=? fst (b_prevW b1)) && (0 <? fst (b_prevW b1)) then next_grapheme_break f b1
          else
            if fst (b_unusedW b1) <? fst o then Ok (set_unusedG b1 o true, None)
            else Ok (set_unusedG b1 o (b_isUnusedG b1), Some o)
      end
  end.

(* ---- wrapper state ----------------------------------------------------------------------------- *)

Record wcfg := mkCfg {
  c_dir : Z; c_trunc : Z; c_truncator : out; c_cont : bool;
  c_policy : Z;        (* 0 WhenNecessary, 1 Never, 2 Always *)
  c_notrim : bool }.
Definition cfg_zero := mkCfg 0 0 out_zero false 0 false.

Record mapper := mkMapper { m_valid : bool; m_run : Z; m_back : list Z; m_len : Z }.
Definition mapping_of (m : mapper) : list Z := zfirstn (m_len m) (m_back m).

Record scratch := mkScratch {
  s_alt : list out; s_alt_adv : Z; s_save : list out; s_save_adv : Z;
  s_best : option (list out) }.     (* None = nil slice *)
Definition scratch_zero := mkScratch [] 0 [] 0 None.

Record W := mkW {
  w_cfg : wcfg; w_truncating : bool; w_start : Z; w_more : bool;
  w_runs : list out; w_idx : Z; w_saved : Z;
  w_mp : mapper; w_br : breaker; w_sc : scratch; w_st : store }.

Definition w_zero (st : store) : W :=
  mkW cfg_zero false 0 false [] 0 0 (mkMapper false 0 [] 0) (new_breaker []) scratch_zero st.

Definition set_cfg w x := mkW x (w_truncating w) (w_start w) (w_more w) (w_runs w) (w_idx w) (w_saved w) (w_mp w) (w_br w) (w_sc w) (w_st w).
Definition set_start w x := mkW (w_cfg w) (w_truncating w) x (w_more w) (w_runs w) (w_idx w) (w_saved w) (w_mp w) (w_br w) (w_sc w) (w_st w).
Definition set_more w x := mkW (w_cfg w) (w_truncating w) (w_start w) x (w_runs w) (w_idx w) (w_saved w) (w_mp w) (w_br w) (w_sc w) (w_st w).
Definition set_idx w x := mkW (w_cfg w) (w_truncating w) (w_start w) (w_more w) (w_runs w) x (w_saved w) (w_mp w) (w_br w) (w_sc w) (w_st w).
Definition set_saved w x := mkW (w_cfg w) (w_truncating w) (w_start w) (w_more w) (w_runs w) (w_idx w) x (w_mp w) (w_br w) (w_sc w) (w_st w).
Definition set_mp w x := mkW (w_cfg w) (w_truncating w) (w_start w) (w_more w) (w_runs w) (w_idx w) (w_saved w) x (w_br w) (w_sc w) (w_st w).
Definition set_br w x := mkW (w_cfg w) (w_truncating w) (w_start w) (w_more w) (w_runs w) (w_idx w) (w_saved w) (w_mp w) x (w_sc w) (w_st w).
Definition set_sc w x := mkW (w_cfg w) (w_truncating w) (w_start w) (w_more w) (w_runs w) (w_idx w) (w_saved w) (w_mp w) (w_br w) x (w_st w).
Definition set_st w x := mkW (w_cfg w) (w_truncating w) (w_start w) (w_more w) (w_runs w) (w_idx w) (w_saved w) (w_mp w) (w_br w) (w_sc w) x.

(* shapedRunSlice.Peek *)
Definition peek (w : W) : Z * out * bool :=
  if zlen (w_runs w) <=? w_idx w then (w_idx w, out_zero, false)
  else (w_idx w, znth out_zero (w_runs w) (w_idx w), true).
Definition iter_advance (w : W) : W := set_idx w (w_idx w + 1).     (* Next after a successful Peek *)

(* runMapper.mapRun *)
Definition map_run (w : W) (runIdx : Z) (run : out) : res W :=
  let m := w_mp w in
  if negb (m_run m =? runIdx) || negb (m_valid m) then
    if o_cnt run <=? 0 then Ok (set_mp w (mkMapper true runIdx [] 0))
    else
      let back := if o_cnt run <=? zlen (m_back m) then m_back m else repeat 0 (Z.to_nat (o_cnt run)) in
      do m' <- map3 (o_dir run) (o_off run) (out_glyphs (w_st w) run) (zfirstn (o_cnt run) back);
      Ok (set_mp w (mkMapper true runIdx (m' ++ zskipn (o_cnt run) back) (o_cnt run)))
  else Ok w.

(* wrapBuffer *)
Definition cand_append (w : W) (r : out) : W :=
  let s := w_sc w in set_sc w (mkScratch (s_alt s ++ [r]) (s_alt_adv s + o_adv r) (s_save s) (s_save_adv s) (s_best s)).
Definition checkpoint (w : W) : W :=
  let s := w_sc w in
  set_saved (set_sc w (mkScratch (s_alt s) (s_alt_adv s) (s_alt s) (s_alt_adv s) (s_best s))) (w_idx w).
Definition restore (w : W) : W :=
  let s := w_sc w in
  set_idx (set_sc w (mkScratch (s_save s) (s_save_adv s) (s_save s) (s_save_adv s) (s_best s))) (w_saved w).
Definition mark_best (w : W) (suffix : list out) : W :=
  let s := w_sc w in set_sc w (mkScratch (s_alt s) (s_alt_adv s) (s_save s) (s_save_adv s) (Some (s_alt s ++ suffix))).
Definition has_best (w : W) : bool :=
  match s_best (w_sc w) with Some (_ :: _) => true | _ => false end.
Definition start_line (w : W) : W := set_sc w scratch_zero.
Definition alt_empty (w : W) : bool := match s_alt (w_sc w) with [] => true | _ => false end.

(* ---- fillUntil ---------------------------------------------------------------------------------- *)

Fixpoint fill_until (fuel : nat) (w : W) (b : Z) : res W :=
  match fuel with
  | O => OutOfFuel
  | S f =>
      let '(ci, run, more) := peek w in
      if more && (o_cnt run + o_off run <=? b) then
        if o_off run + o_cnt run <=? w_start w then fill_until f (iter_advance w) b
        else
          do wr <- (if o_off run <? w_start w then
                      do w1 <- map_run w ci run;
                      do sr <- cut_run (w_st w1) run (mapping_of (w_mp w1)) (w_start w1) (o_cnt run + o_off run) (alt_empty w1);
                      Ok (set_st w1 (fst sr), snd sr)
                    else Ok (w, recompute_advance (w_st w) run));     (* placed whole: Advance taken from the glyphs *)
          fill_until f (iter_advance (cand_append (fst wr) (snd wr))) b
      else Ok w
  end.

(* ---- processBreakOption ------------------------------------------------------------------------- *)

Inductive pbr := BreakInvalid | EndLine | Truncated | NewLineBeforeBreak | Fits | CannotFit.

Record line_cfg := mkLC { lc_truncating : bool; lc_max : Z; lc_tmax : Z }.

Definition process_break_option (w : W) (opt : bopt) (lc : line_cfg) : res (W * pbr * out) :=
  if fst opt <? w_start w then Ok (w, BreakInvalid, out_zero)
  else
    do w1 <- fill_until (S (length (w_runs w))) w (fst opt);
    let '(ci, run, _) := peek w1 in
    do w2 <- map_run w1 ci run;
    do v <- is_valid (w_st w2) (fst opt) (mapping_of (w_mp w2)) run;
    if negb v then Ok (w2, BreakInvalid, out_zero)
    else
      do sr <- cut_run (w_st w2) run (mapping_of (w_mp w2)) (w_start w2) (fst opt) (alt_empty w2);
      let w3 := set_st w2 (fst sr) in
      let cand := snd sr in
      let width := ceil26 (advance_space_aware (w_st w3) cand (c_dir (w_cfg w3)) + s_alt_adv (w_sc w3)) in
      if lc_max lc <? width then
        Ok (w3, (if has_best w3 then NewLineBeforeBreak else CannotFit), cand)
      else if lc_truncating lc && (lc_tmax lc <? width) then
        if (o_cnt cand + o_off cand =? b_n (w_br w3)) && negb (c_cont (w_cfg w3)) then Ok (w3, EndLine, cand)
        else Ok (w3, Truncated, cand)
      else Ok (w3, Fits, cand).

(* ---- wrapNextLine ------------------------------------------------------------------------------- *)

Definition br_fuel (w : W) : nat := S (S (length (b_attrs (w_br w)))).

(* the end of the grapheme loop of wrapNextLine (reached by its break, when nextGraphemeBreak has no more option up to
   the UAX #14 option wopt): outside the truncating line, when no line was recorded the UAX #14 option is processed
   again from the checkpoint and used although it does not fit *)
Definition word_fallback (w : W) (wopt : bopt) (lc : line_cfg) : res (W * bool) :=
  if negb (lc_truncating lc) && negb (has_best w) then
    let w := restore w in
    do r <- process_break_option w wopt lc;
    let '(w, result, cand) := r in
    match result with
    | BreakInvalid => Ok (restore w, false)
    | _ => Ok (mark_best w [cand], false)
    end
  else Ok (w, false).

(* the grapheme loop; wopt is the UAX #14 option of the enclosing iteration *)
Fixpoint inner_loop (fuel : nat) (w : W) (wopt : bopt) (lc : line_cfg) : res (W * bool) :=
  match fuel with
  | O => OutOfFuel
  | S f =>
      let w := checkpoint w in
      do br <- next_grapheme_break (br_fuel w) (w_br w);
      let w := set_br w (fst br) in
      match snd br with
      | None => word_fallback w wopt lc
      | Some opt =>
          do r <- process_break_option w opt lc;
          let '(w, result, cand) := r in
          match result with
          | BreakInvalid => inner_loop f (restore w) wopt lc
          | Fits => inner_loop f (set_br (mark_best w [cand]) (mark_word_unused (w_br w))) wopt lc
          | EndLine => Ok (mark_best w [cand], true)
          | Truncated => Ok ((if has_best w then w else mark_best (restore w) []), true)
          | NewLineBeforeBreak =>
              let w := restore w in
              Ok (set_br w (mark_grapheme_unused (mark_word_unused (w_br w))), false)
          | CannotFit =>
              if lc_truncating lc then Ok (w, true)
              else Ok (set_br (mark_best w [cand]) (mark_word_unused (w_br w)), false)
          end
      end
  end.

Definition policy_never (w : W) : bool := c_policy (w_cfg w) =? 1.
Definition policy_when_necessary (w : W) : bool := c_policy (w_cfg w) =? 0.

Fixpoint outer_loop (fuel : nat) (w : W) (lc : line_cfg) : res (W * bool) :=
  match fuel with
  | O => OutOfFuel
  | S f =>
      let w := checkpoint w in
      let '(b1, ro) := next_word_break (w_br w) in
      let w := set_br w b1 in
      match ro with
      | None => Ok (w, true)
      | Some opt =>
          do r <- process_break_option w opt lc;
          let '(w, result, cand) := r in
          let graphemes (w : W) := inner_loop (br_fuel w) (restore w) opt lc in
          match result with
          | BreakInvalid => let w := restore w in outer_loop f (set_br w (discard_word (w_br w))) lc
          | Fits =>
              let w := mark_best w [cand] in
              if snd opt then Ok (w, false) else outer_loop f w lc
          | EndLine => Ok (mark_best w [cand], true)
          | Truncated =>
              let w := if has_best w then w else mark_best (restore w) [] in
              if policy_never w then Ok (w, true) else graphemes w
          | NewLineBeforeBreak =>
              let w := restore w in
              let w := set_br w (mark_word_unused (w_br w)) in
              if policy_never w || (policy_when_necessary w && negb (lc_truncating lc)) then Ok (w, false)
              else graphemes w
          | CannotFit =>
              if policy_never w then
                if lc_truncating lc then Ok (w, true) else Ok (mark_best w [cand], false)
              else graphemes w
          end
      end
  end.

(* ---- computeBidiOrdering ------------------------------------------------------------------------ *)

(* swapVisualOrder: the visual indices of the sub-line are reversed *)
Fixpoint assign_vis (l : list out) (vs : list Z) : list out :=
  match l, vs with
  | o :: l', v :: vs' => set_vis o v :: assign_vis l' vs'
  | _, _ => l
  end.
Definition swap_visual_order (sub : list out) : list out := assign_vis sub (rev (map o_vis sub)).

(* done: runs already final (in order); seg: the pending block of runs whose direction differs from dir *)
Fixpoint bidi_go (dir : Z) (len idx : Z) (seg : list out) (l : list out) : list out :=
  match l with
  | [] => swap_visual_order seg
  | run :: r =>
      let base := if dir_rtl dir then len - 1 - idx else idx in
      let run' := set_vis run base in
      if o_dir run =? dir then swap_visual_order seg ++ run' :: bidi_go dir len (idx + 1) [] r
      else bidi_go dir len (idx + 1) (seg ++ [run']) r
  end.
Definition compute_bidi_ordering (dir : Z) (line : list out) : list out := bidi_go dir (zlen line) 0 [] line.

(* ---- postProcessLine ---------------------------------------------------------------------------- *)

Fixpoint find_vis (l : list out) (v : Z) (i : Z) : option Z :=
  match l with
  | [] => None
  | o :: r => if o_vis o =? v then Some i else find_vis r v (i + 1)
  end.

Definition zero_adv (g : glyph) : glyph :=
  mkGlyph (g_cluster g) (g_rc g) (g_gc g) (if g_ext g =? 0 then 0 else g_adv g) (g_ext g) (g_offs g) (g_sls g) (g_els g).

Record wrapped := mkWrapped { wl_line : option (list out); wl_truncated : Z; wl_next : Z }.

Definition post_process (w : W) (line : option (list out)) (done : bool) : W * wrapped * bool :=
  let cfg := w_cfg w in
  let '(w, line) :=
    match line with
    | Some ((_ :: _) as fl) =>
        let fl := compute_bidi_ordering (c_dir cfg) fl in
        let '(w, fl) :=
          if c_notrim cfg then (w, fl)
          else
            let goal0 := if dir_rtl (c_dir cfg) then 0 else zlen fl - 1 in
            let goal := match find_vis fl goal0 0 with Some i => i | None => goal0 end in
            let fvr := znth out_zero fl goal in
            if 0 <? o_len fvr then
              let gi := if dir_rtl (c_dir cfg) then o_lo fvr else o_lo fvr + o_len fvr - 1 in
              let st' := store_update (w_st w) (o_src fvr) gi zero_adv in
              (set_st w st', zset fl goal (recompute_advance st' fvr))
            else (w, fl) in
        let last := znth out_zero fl (zlen fl - 1) in
        (set_start w (o_cnt last + o_off last), Some fl)
    | _ => (w, line)
    end in
  let n := b_n (w_br w) in
  let done := done || (n <=? w_start w) in
  let '(w, line, truncated, done) :=
    if w_truncating w then
      let k := c_trunc cfg - 1 in
      let w := set_cfg w (mkCfg (c_dir cfg) k (c_truncator cfg) (c_cont cfg) (c_policy cfg) (c_notrim cfg)) in
      if k =? 0 then
        let truncated := n - w_start w in
        if (0 <? truncated) || c_cont cfg then
          let t := c_truncator cfg in
          let t' := mkOut (o_adv t) (o_dir t) (w_start w) truncated (o_src t) (o_lo t) (o_len t) (o_vis t) in
          let fl := match line with Some l => l | None => [] end in
          (w, Some (compute_bidi_ordering (c_dir cfg) (fl ++ [t'])), truncated, true)
        else (w, line, truncated, true)
      else (w, line, 0, done)
    else (w, line, 0, done) in
  let w := if done then set_more w false else w in
  (w, mkWrapped line truncated (w_start w), done).

(* ---- WrapNextLine, Prepare, WrapParagraph ------------------------------------------------------- *)

Definition loop_fuel (w : W) : nat := S (S (length (b_attrs (w_br w)))).

Definition wrap_next_line (w : W) (maxWidth : Z) : res (W * wrapped * bool) :=
  if negb (w_more w) then Ok (w, mkWrapped None 0 (w_start w), true)
  else
    let '(_, _, hasFirst) := peek w in
    if negb hasFirst then Ok (post_process w None true)
    else
      let w := start_line w in
      let cfg := w_cfg w in
      let lc := mkLC (c_trunc cfg =? 1) maxWidth (maxWidth - ceil26 (o_adv (c_truncator cfg))) in
      do r <- outer_loop (loop_fuel w) w lc;
      let '(w, done) := r in
      Ok (post_process w (s_best (w_sc w)) done).

(* Prepare; the run iterator is a fresh NewSliceIterator(runs) *)
Definition prepare (w : W) (cfg : wcfg) (attrs : list Z) (runs : list out) (idx saved : Z) : W :=
  mkW cfg (0 <? c_trunc cfg) 0 true runs idx saved
      (mkMapper false (m_run (w_mp w)) (m_back (w_mp w)) (m_len (w_mp w)))
      (new_breaker attrs) scratch_zero (w_st w).

(* the scan of WrapParagraph's fast path: is there a required option? *)
Fixpoint has_mandatory (fuel : nat) (b : breaker) : bool :=
  match fuel with
  | O => false
  | S f => match next_word_break b with
           | (_, None) => false
           | (b1, Some o) => if snd o then true else has_mandatory f b1
           end
  end.

Definition para_fuel (attrs : list Z) : nat := S (S (length attrs + length attrs)).

Fixpoint paragraph_loop (fuel : nat) (w : W) (maxWidth : Z) (acc : list (list out)) : res (W * list (list out) * Z) :=
  match fuel with
  | O => OutOfFuel
  | S f =>
      do r <- wrap_next_line w maxWidth;
      let '(w, wl, done) := r in
      let acc := match wl_line wl with Some l => acc ++ [l] | None => acc end in
      if done then Ok (w, acc, wl_truncated wl) else paragraph_loop f w maxWidth acc
  end.

Definition wrap_paragraph (w : W) (cfg : wcfg) (maxWidth : Z) (attrs : list Z) (runs : list out)
  : res (W * list (list out) * Z) :=
  let fast :=
    if negb (c_cont cfg && (c_trunc cfg =? 1)) then
      if negb (has_mandatory (S (length attrs)) (new_breaker attrs)) then
        match runs with
        | [first] => let first := recompute_advance (w_st w) first in
                     if ceil26 (o_adv first) <=? maxWidth then Some first else None
        | _ => None
        end
      else None
    else None in
  match fast with
  | Some first => Ok (set_br w (new_breaker attrs), [[first]], 0)
  | None =>
      let w := prepare w cfg attrs runs 0 0 in
      paragraph_loop (para_fuel attrs) w maxWidth []
  end.

(* the iterative API with one width per call (the last width repeats); every call is recorded *)
Fixpoint next_line_loop (fuel : nat) (w : W) (widths : list Z) (acc : list (wrapped * bool))
  : res (W * list (wrapped * bool)) :=
  match fuel with
  | O => OutOfFuel
  | S f =>
      let wd := match widths with x :: _ => x | [] => 0 end in
      let rest := match widths with _ :: ((_ :: _) as r) => r | _ => widths end in
      do r <- wrap_next_line w wd;
      let '(w, wl, done) := r in
      let acc := acc ++ [(wl, done)] in
      if done then
        (* one more call after the end: must return a nil line *)
        do r2 <- wrap_next_line w wd;
        let '(w, wl2, done2) := r2 in
        Ok (w, acc ++ [(wl2, done2)])
      else next_line_loop f w rest acc
  end.

Definition wrap_iterative (w : W) (cfg : wcfg) (widths : list Z) (attrs : list Z) (runs : list out)
  : res (W * list (wrapped * bool)) :=
  next_line_loop (para_fuel attrs) (prepare w cfg attrs runs 0 0) widths [].
