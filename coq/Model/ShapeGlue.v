(* Model of the glue of shaping/shaping.go around the HarfBuzz engine: clamp, the run bounds handed to
   Buffer.AddRunes, countClusters and the reporting of Runes.Offset / Runes.Count.
   Integers are Go `int` (64 bit, no overflow on the modelled paths: all values are rune indices). *)
From TV Require Export Lib.GoNum Lib.Res.

(* an output glyph as far as rune accounting is concerned: ClusterIndex, RuneCount, GlyphCount *)
Record cglyph := mkCG { cg_cl : Z; cg_rc : Z; cg_gc : Z }.

(* func clamp(val, low, high int) int *)
Definition clamp (val low high : Z) : Z :=
  if val <? low then low else if val >? high then high else val.

(* the inner loop `glyphCountLoop` of countClusters: number of glyphs directly following that carry cluster g,
   and the first different cluster value (None when the slice ends first) *)
Fixpoint count_run (g : Z) (l : list Z) : Z * option Z :=
  match l with
  | [] => (0, None)
  | c :: r => if c =? g then let '(n, nx) := count_run g r in (n + 1, nx) else (0, Some c)
  end.

(* the outer loop; state = currentCluster, runesInCluster, glyphsInCluster, previousCluster.
   rtl = (dir == di.TowardTopLeft).  The Go code uses -1 as "no next cluster seen". *)
Fixpoint cc_loop (rtl : bool) (textLen cur runes glyphs prev : Z) (l : list Z) : list cglyph :=
  match l with
  | [] => []
  | g :: r =>
    if negb (g =? cur) then
      let '(n, nx) := count_run g r in
      let glyphs' := 1 + n in
      let next0 := match nx with Some c => c | None => -1 end in
      let next := if next0 =? -1 then textLen else next0 in
      let runes' := if rtl then prev - g else next - g in
      mkCG g runes' glyphs' :: cc_loop rtl textLen g runes' glyphs' g r
    else mkCG g runes glyphs :: cc_loop rtl textLen cur runes glyphs prev r
  end.

(* func countClusters(glyphs []Glyph, textLen int, dir di.Progression), on the cluster values of the glyphs *)
Definition count_clusters (cls : list Z) (textLen : Z) (rtl : bool) : list cglyph :=
  cc_loop rtl textLen (-1) 0 0 textLen cls.

(* Shape: the bounds given to AddRunes(text, start, end-start) *)
Definition shape_bounds (textLen runStart runEnd : Z) : Z * Z :=
  let '(s, e) := if runEnd <? runStart then (runEnd, runStart) else (runStart, runEnd) in
  (clamp s 0 textLen, clamp e 0 textLen).

(* Buffer.AddRunes(text, off, len) for len >= 0: the slice expression text[off:off+len] panics unless
   0 <= off <= off+len <= len(text) (cap(text) is not observable for the caller's slice: modelled as len);
   the cluster of each rune is its index in text *)
Definition add_runes_clusters (textLen off len : Z) : res (list Z) :=
  if (0 <=? off) && (0 <=? len) && (off + len <=? textLen)
  then Ok (map (fun i => off + Z.of_nat i) (seq 0 (Z.to_nat len)))
  else Panic 1.

Record shape_out := mkSO { so_glyphs : list cglyph; so_offset : Z; so_count : Z }.

Section Glue.
  (* the HarfBuzz engine: from the clusters put in the buffer to the clusters of the output glyphs *)
  Variable engine : list Z -> list Z.

  Definition shape_glue (textLen runStart runEnd : Z) (rtl : bool) : res shape_out :=
    let '(s, e) := shape_bounds textLen runStart runEnd in
    do inp <- add_runes_clusters textLen s (e - s);
    Ok (mkSO (count_clusters (engine inp) runEnd rtl) runStart (runEnd - runStart)).
End Glue.
