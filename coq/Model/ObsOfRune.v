(* The observation of a rune (Model/SegClasses.v, DESIGN.md appendix C) computed from the REGENERATED tables
   (Gen/UnicodeTables.v) through the lookup models of C20 (Model/Unicode.v), exactly as the Go driver computes it
   from the library (c06Obs in go/cmd/drive/c06.go).  No proofs here; the table facts are in Proofs/ObsTables.v. *)
From TV Require Export Model.SegClasses Model.Unicode.
Open Scope Z_scope.

(* class constructors in the order of the library's class lists: index = id in Gen.lineBreaks_order;
   for grapheme/word classes index 0 = "lookup returned nil" and index i+1 = id i of the Gen order *)
Definition lbc_list := [LB_BK; LB_CR; LB_LF; LB_NL; LB_SP; LB_NU; LB_AL; LB_IS; LB_PR; LB_PO; LB_OP; LB_CL; LB_CP;
  LB_QU; LB_HY; LB_SG; LB_GL; LB_NS; LB_EX; LB_SY; LB_HL; LB_ID; LB_IN; LB_BA; LB_BB; LB_B2;
  LB_ZW; LB_CM; LB_EB; LB_EM; LB_WJ; LB_ZWJ; LB_H2; LB_H3; LB_JL; LB_JV; LB_JT; LB_RI; LB_CB;
  LB_AI; LB_CJ; LB_SA; LB_XX].
Definition gbc_list := [GB_None; GB_CR; GB_Control; GB_Extend; GB_L; GB_LF; GB_LV; GB_LVT; GB_Prepend; GB_RI;
  GB_SpacingMark; GB_T; GB_V; GB_ZWJ].
Definition wbc_list := [WB_None; WB_ALetter; WB_Double_Quote; WB_ExtendFormat; WB_ExtendNumLet; WB_Hebrew_Letter; WB_Katakana;
  WB_MidLetter; WB_MidNum; WB_MidNumLet; WB_NewlineCRLF; WB_Numeric; WB_RI; WB_Single_Quote; WB_WSegSpace].

Definition lbc_of_id (i : nat) : lbc := nth i lbc_list LB_XX.
Definition gbc_of_lookup (c : option nat) : gbc := match c with None => GB_None | Some i => nth (S i) gbc_list GB_None end.
Definition wbc_of_lookup (c : option nat) : wbc := match c with None => WB_None | Some i => nth (S i) wbc_list WB_None end.

(* ids of Mc and Mn in Gen.categories_order (two-letter category names sorted); Proofs/ObsTables.v checks that
   these positions hold gc_Mc and gc_Mn *)
Definition cat_Mc : nat := 9.
Definition cat_Mn : nat := 11.

(* the other range tables the segmenter reads with unicode.Is, split once *)
Definition pic_tab : rtab * rtab := Eval vm_compute in split_tab ut_Extended_Pictographic.
Definition wide_tab : rtab * rtab := Eval vm_compute in split_tab ut_LargeEastAsian.
Definition word_tab : rtab * rtab := Eval vm_compute in split_tab ut_Word.
Definition zwj_tab : rtab * rtab := Eval vm_compute in split_tab lb_ZWJ.

(* the observation as the driver computes it; every lookup model returns a `res` (the bisection of unicode.Is has fuel) *)
Definition obs_of_rune_res (r : Z) : res obs :=
  do lb <- lookup_line_break r;                     (* LookupLineBreakClass: id in lineBreaks_order, BreakXX by default *)
  do ty <- lookup_type r;                           (* LookupType: id in categories_order, None = nil *)
  do wide <- unicode_is_split wide_tab r;           (* unicode.Is(LargeEastAsian, r) *)
  do pic <- unicode_is_split pic_tab r;             (* unicode.Is(Extended_Pictographic, r) *)
  do zt <- unicode_is_split zwj_tab r;              (* unicode.Is(BreakZWJ, r) *)
  do gb <- lookup_grapheme_break r;                 (* LookupGraphemeBreakClass, nil -> GB_None *)
  do wb <- lookup_word_break r;                     (* LookupWordBreakClass, nil -> WB_None *)
  do word <- unicode_is_split word_tab r;           (* unicode.Is(Word, r) *)
  Ok (mkObs (lbc_of_id lb)
            (match ty with Some c => Nat.eqb c cat_Mn || Nat.eqb c cat_Mc | None => false end)
            (match ty with Some _ => false | None => true end)
            wide pic zt (gbc_of_lookup gb) (wbc_of_lookup wb)
            (r =? 10) (r =? 13) (r =? 8205) (r =? 34)   (* LF, CR, U+200D, U+0022 *)
            word).

(* total version: the lookups never fail on a rune (obs_of_rune_total in Props/C06.v), so the default is never read *)
Definition obs_of_rune (r : Z) : obs := match obs_of_rune_res r with Ok o => o | _ => obs_nul end.
