(* Executable model of the ItemVariationStore and its users (font/opentype/tables/xvar_src.go, ot_properties.go,
   font/variations.go, font/metrics.go), fed with RAW table bytes:

     tables.ParseItemVarStore / ParseVariationRegionList / ParseVariationRegion / ParseItemVariationData /
       ItemVariationData.parseDeltaSets,                     (raw store bytes -> regions, region indexes, delta sets)
     tables.ParseDeltaSetMapping / DeltaSetMapping.parseMap / DeltaSetMapping.Index,
     tables.ParseHVAR (store + advance width mapping; the side bearing mappings are only checked for their presence),
     tables.ParseMVAR / MVAR.parseValueRecords, font.newMvar, mvar.getVar (binary search as written),
     RegionAxisCoordinates.evaluate, VariationRegion.Evaluate, ItemVarStore.GetDelta,
     getAdvanceDeltaUnscaled, Face.HorizontalAdvance / VerticalAdvance with HVAR / VVAR, Font.getPositionCommon
     (ascender / descender / line gap with the MVAR delta), Face.LineMetric (base value + MVAR delta).

   Coordinates are F2Dot14 integers (tables.Coord = int16, differences wrap), scalars and deltas are float32
   (Model/F32.v, exact: integer scaled by 2^149); every float32 is compared bit-exactly with the library.
   A parser returns None where the generated parser returns an error.  No proofs in this file. *)
From Coq Require Import ZArith List Bool.
From TV Require Export Lib.GoNum Lib.Bytes Lib.Res Model.F32 Model.GvarScalar Model.VarNorm.
Import ListNotations.
Open Scope Z_scope.

Record raxis := mkRA { ra_start : Z; ra_peak : Z; ra_end : Z }.
Record ivdata := mkIVD { ivd_regions : list Z; ivd_sets : list (list Z) }.
Record ivstore := mkIVS { ivs_format : Z; ivs_axis_count : Z; ivs_regions : list (list raxis); ivs_datas : list ivdata }.
Definition ivs_empty : ivstore := mkIVS 0 0 [] [].
Definition ivd_empty : ivdata := mkIVD [] [].

Definition vs_sint8 (x : Z) : Z := let y := x mod 256 in if y <? 128 then y else y - 256.
Definition i16_of (src : list Z) (o : Z) : Z := sint16 (u16_of src o).

(* ---- parsing ---- *)
Fixpoint region_axes (n : nat) (src : list Z) : list raxis :=
  match n with
  | O => []
  | S k => mkRA (i16_of src 0) (i16_of src 2) (i16_of src 4) :: region_axes k (zskipn 6 src)
  end.
Fixpoint regions (n : nat) (axis_count : Z) (src : list Z) : option (list (list raxis)) :=
  match n with
  | O => Some []
  | S k =>
      if zlen src <? axis_count * 6 then None else
      match regions k axis_count (zskipn (axis_count * 6) src) with
      | Some r => Some (region_axes (Z.to_nat axis_count) src :: r)
      | None => None
      end
  end.
(* (axisCount, regions) *)
Definition parse_region_list (src : list Z) : option (Z * list (list raxis)) :=
  if zlen src <? 4 then None else
  let ac := u16_of src 0 in
  match regions (Z.to_nat (u16_of src 2)) ac (zskipn 4 src) with
  | Some r => Some (ac, r)
  | None => None
  end.

Fixpoint u16_list (n : nat) (src : list Z) : list Z :=
  match n with O => [] | S k => get16 src :: u16_list k (zskipn 2 src) end.

(* one row of parseDeltaSets: [short] int16 then [ric - short] int8 *)
Definition delta_row (short ric : Z) (src : list Z) : list Z :=
  map (fun j => if j <? short then i16_of src (2 * j) else vs_sint8 (znth 0 src (short + j)))
      (map Z.of_nat (seq 0 (Z.to_nat ric))).
Fixpoint delta_rows (n : nat) (short ric : Z) (src : list Z) : list (list Z) :=
  match n with
  | O => []
  | S k => delta_row short ric src :: delta_rows k short ric (zskipn (short + ric) src)
  end.
Definition parse_ivd (src : list Z) : option ivdata :=
  if zlen src <? 6 then None else
  let item_count := u16_of src 0 in
  let wdc := u16_of src 2 in
  let ric := u16_of src 4 in
  if zlen src <? 6 + ric * 2 then None else
  let idx := u16_list (Z.to_nat ric) (zskipn 6 src) in
  let rest := zskipn (6 + ric * 2) src in
  if negb (Z.land wdc 32768 =? 0) then None else           (* LONG_WORDS not implemented *)
  let short := Z.land wdc 32767 in
  if zlen rest <? item_count * (short + ric) then None else
  if ric <? short then None else
  Some (mkIVD idx (delta_rows (Z.to_nat item_count) short ric rest)).

Fixpoint ivd_list (n : nat) (i : Z) (src : list Z) : option (list ivdata) :=
  match n with
  | O => Some []
  | S k =>
      let off := u32_of src (8 + i * 4) in
      let d := if off =? 0 then Some ivd_empty
               else if zlen src <? off then None else parse_ivd (zskipn off src) in
      match d, ivd_list k (i + 1) src with
      | Some d', Some r => Some (d' :: r)
      | _, _ => None
      end
  end.
Definition parse_ivs (src : list Z) : option ivstore :=
  if zlen src <? 8 then None else
  let roff := u32_of src 2 in
  let n := u16_of src 6 in
  let rl := if roff =? 0 then Some (0, []) else if zlen src <? roff then None else parse_region_list (zskipn roff src) in
  match rl with
  | None => None
  | Some (ac, regs) =>
      if zlen src <? 8 + n * 4 then None else
      match ivd_list (Z.to_nat n) 0 src with
      | Some ds => Some (mkIVS (u16_of src 0) ac regs ds)
      | None => None
      end
  end.

(* DeltaSetMapping: list of (outer, inner) *)
Fixpoint be_value (l : list Z) (acc : Z) : Z := match l with [] => acc | b :: r => be_value r (wrap32 (acc * 256 + b)) end.
Fixpoint map_entries (n : nat) (entry_size inner_bits : Z) (src : list Z) : list (Z * Z) :=
  match n with
  | O => []
  | S k =>
      let v := be_value (zfirstn entry_size src) 0 in
      (wrap16 (Z.shiftr v inner_bits), wrap16 (Z.land v (Z.shiftl 1 inner_bits - 1)))
      :: map_entries k entry_size inner_bits (zskipn entry_size src)
  end.
Definition parse_dsm (src : list Z) : option (list (Z * Z)) :=
  if zlen src <? 2 then None else
  let format := znth 0 src 0 in
  let ef := znth 0 src 1 in
  let body := zskipn 2 src in
  let hdr := if format =? 0 then (if zlen body <? 2 then None else Some (get16 body, zskipn 2 body))
             else if format =? 1 then (if zlen body <? 4 then None else Some (get32 body, zskipn 4 body))
             else None in
  match hdr with
  | None => None
  | Some (count, rest) =>
      let inner_bits := Z.land ef 15 + 1 in
      let entry_size := Z.shiftr (Z.land ef 48) 4 + 1 in
      if zlen rest <? entry_size * count then None else
      Some (map_entries (Z.to_nat count) entry_size inner_bits rest)
  end.

(* DeltaSetMapping.Index *)
Definition dsm_index (m : list (Z * Z)) (gid : Z) : Z * Z :=
  if zlen m =? 0 then (0, gid) else
  znth (0, 0) m (if zlen m <=? gid then zlen m - 1 else gid).

(* HVAR / VVAR: (store, advance mapping); None = the table is rejected and the face falls back to gvar *)
Definition parse_hvar (src : list Z) : option (ivstore * list (Z * Z)) :=
  if zlen src <? 20 then None else
  let o_store := u32_of src 4 in let o_adv := u32_of src 8 in
  let o_lsb := u32_of src 12 in let o_rsb := u32_of src 16 in
  let st := if o_store =? 0 then Some ivs_empty else if zlen src <? o_store then None else parse_ivs (zskipn o_store src) in
  let dsm o := if o =? 0 then Some [] else if zlen src <? o then None else parse_dsm (zskipn o src) in
  match st, dsm o_adv, dsm o_lsb, dsm o_rsb with
  | Some s, Some m, Some _, Some _ => Some (s, m)
  | _, _, _, _ => None
  end.

(* MVAR: (store, value records (tag, outer, inner)) *)
Fixpoint value_records (n : nat) (size : Z) (src : list Z) : list (Z * Z * Z) :=
  match n with
  | O => []
  | S k => (get32 src, u16_of src 4, u16_of src 6) :: value_records k size (zskipn size src)
  end.
Definition parse_mvar (src : list Z) : option (ivstore * list (Z * Z * Z)) :=
  if zlen src <? 12 then None else
  let size := u16_of src 6 in let count := u16_of src 8 in let o_store := u16_of src 10 in
  let st := if o_store =? 0 then Some ivs_empty else if zlen src <? o_store then None else parse_ivs (zskipn o_store src) in
  match st with
  | None => None
  | Some s =>
      let body := zskipn 12 src in
      if negb (count =? 0) && (size <? 8) then None else
      if zlen body <? size * count then None else
      Some (s, value_records (Z.to_nat count) size body)
  end.
(* ItemVarStore.AxisCount *)
Definition ivs_axes (s : ivstore) : Z := if ivs_format s =? 0 then -1 else ivs_axis_count s.
(* newMvar: the table is dropped when its axis count differs; NewFont also ignores the parse error *)
Definition load_mvar (src : list Z) (axis_count : Z) : ivstore * list (Z * Z * Z) :=
  match parse_mvar src with
  | Some (s, v) => if ivs_axes s =? axis_count then (s, v) else (ivs_empty, [])
  | None => (ivs_empty, [])
  end.

(* ---- evaluation ---- *)
(* RegionAxisCoordinates.evaluate *)
Definition axis_eval (r : raxis) (c : Z) : Z :=
  let start := ra_start r in let peak := ra_peak r in let end_ := ra_end r in
  if (peak =? 0) || (c =? peak) then f32_one else
  if (peak <? start) || (end_ <? peak) || ((start <? 0) && (0 <? end_)) then f32_one else
  if (c <=? start) || (end_ <=? c) then 0 else
  if c <? peak then f32_div_int (sint16 (c - start)) (sint16 (peak - start))
  else f32_div_int (sint16 (end_ - c)) (sint16 (end_ - peak)).

(* VariationRegion.Evaluate: the loop over the region's axes; a missing coordinate is 0 *)
Fixpoint region_eval_from (ra : list raxis) (coords : list Z) (acc : Z) : Z :=
  match ra with
  | r :: tr => region_eval_from tr (tl coords) (f32_mul acc (axis_eval r (hd 0 coords)))
  | [] => acc
  end.
Definition region_eval (ra : list raxis) (coords : list Z) : Z := region_eval_from ra coords f32_one.

(* ItemVarStore.GetDelta: the loop over RegionIndexes *)
Fixpoint delta_loop (regs : list (list raxis)) (set : list Z) (coords : list Z) (idx : list Z) (i : Z) (acc : Z) : Z :=
  match idx with
  | [] => acc
  | ri :: r =>
      if (zlen regs <=? ri) || (zlen set <=? i) then delta_loop regs set coords r (i + 1) acc
      else delta_loop regs set coords r (i + 1)
             (f32_add acc (f32_mul (f32_of_int (znth 0 set i)) (region_eval (znth [] regs ri) coords)))
  end.
Definition get_delta (s : ivstore) (outer inner : Z) (coords : list Z) : Z :=
  if zlen (ivs_datas s) <=? outer then 0 else
  let d := znth ivd_empty (ivs_datas s) outer in
  if zlen (ivd_sets d) <=? inner then 0 else
  delta_loop (ivs_regions s) (znth [] (ivd_sets d) inner) coords (ivd_regions d) 0 0.

(* getAdvanceDeltaUnscaled *)
Definition advance_delta (h : ivstore * list (Z * Z)) (gid : Z) (coords : list Z) : Z :=
  let '(o, i) := dsm_index (snd h) gid in get_delta (fst h) o i coords.

(* Face.isVar *)
Definition is_var (coords : list Z) (axis_count : Z) : bool := negb (zlen coords =? 0) && (zlen coords =? axis_count).

(* Face.HorizontalAdvance with an HVAR table: [base] = getBaseAdvance (int16) *)
Definition h_advance_var (base : Z) (h : ivstore * list (Z * Z)) (gid : Z) (coords : list Z) (axis_count : Z) : Z :=
  if is_var coords axis_count then f32_add (f32_of_int base) (advance_delta h gid coords) else f32_of_int base.
(* Face.VerticalAdvance with a VVAR table *)
Definition v_advance_var (base : Z) (h : ivstore * list (Z * Z)) (gid : Z) (coords : list Z) (axis_count : Z) : Z :=
  if is_var coords axis_count then f32_sub (f32_neg (f32_of_int base)) (advance_delta h gid coords)
  else f32_neg (f32_of_int base).

(* mvar.getVar: binary search on the tags *)
Fixpoint mvar_search (fuel : nat) (vals : list (Z * Z * Z)) (tag i j : Z) : option (Z * Z) :=
  match fuel with
  | O => None
  | S k =>
      if i <? j then
        let h := i + (j - i) / 2 in
        let '(t, o, n) := znth (0, 0, 0) vals h in
        if tag <? t then mvar_search k vals tag i h
        else if t <? tag then mvar_search k vals tag (h + 1) j
        else Some (o, n)
      else None
  end.
Definition mvar_delta (m : ivstore * list (Z * Z * Z)) (tag : Z) (coords : list Z) : Z :=
  match mvar_search (S (length (snd m))) (snd m) tag 0 (zlen (snd m)) with
  | Some (o, n) => get_delta (fst m) o n coords
  | None => 0
  end.

(* fixAscenderDescender: 1 = ascender (abs), 2 = descender (-abs), 0 = other *)
Definition fix_asc_desc (kind : Z) (v : Z) : Z :=
  if kind =? 1 then Z.abs v else if kind =? 2 then - Z.abs v else v.
(* one branch of getPositionCommon / LineMetric: float32(base) + delta *)
Definition metric_var (kind base delta : Z) : Z := fix_asc_desc kind (f32_add (f32_of_int base) delta).

(* ---- specification side ---- *)
(* the per-axis factor of the OpenType "Algorithm for Interpolation of Instance Values" as an exact rational
   num/den with den > 0 (for a well-formed axis record and a coordinate in [-1, 1]) *)
Definition wf_raxis (r : raxis) : bool :=
  (ra_start r <=? ra_peak r) && (ra_peak r <=? ra_end r)
  && negb ((ra_start r <? 0) && (0 <? ra_end r) && negb (ra_peak r =? 0))
  && (-16384 <=? ra_start r) && (ra_end r <=? 16384).
Definition axis_factor_q (r : raxis) (c : Z) : Z * Z :=
  if (ra_peak r =? 0) || (c =? ra_peak r) then (1, 1) else
  if (c <? ra_start r) || (ra_end r <? c) then (0, 1) else
  if c <? ra_peak r then (c - ra_start r, ra_peak r - ra_start r) else (ra_end r - c, ra_end r - ra_peak r).

