(* Executable model of GPOS pair positioning (harfbuzz/ot_layout_gpos.go: applyGPOS case tables.PairPos,
   applyGPOSPair1, applyGPOSPair2, applyGPOSValueRecord) under the in-place lookup loop (ot_layout.go applyForward),
   over the zipper (done, todo) = (Info[:idx], Info[idx:]) with the positions carried by the items.
   Restrictions (the driver stays inside them): value formats within XPlacement | YPlacement | XAdvance | YAdvance |
   XAdvDevice, the device table reduced to "the record has one" and its delta, scale = upem, no variations,
   ProduceUnsafeToConcat off, lookup flags within IgnoreBaseGlyphs | IgnoreLigatures | IgnoreMarks, one subtable.
   pp_step_f follows the code (after a pair without second value record the cursor jumps to the second glyph,
   `buffer.idx = pos`); pp_step_u is the variant used by the cut theorem, whose cursor advances by one in that case;
   Proofs/PairPos.v shows they agree when no glyph the iterator skips can be the first glyph of a pair.
   No proofs here. *)
From TV Require Export Model.EngineItem.

(* ValueRecord: XPlacement YPlacement XAdvance YAdvance, XAdvDevice != nil, its delta *)
Record vrec := mkVR { v_xpl : Z; v_ypl : Z; v_xad : Z; v_yad : Z; v_dev : bool; v_devd : Z }.
Definition vr0 : vrec := mkVR 0 0 0 0 false 0.

Record ppparams := mkPP {
  pp_flag : Z;                                 (* lookup flag *)
  pp_mask : Z;                                 (* lookup mask >> 3 *)
  pp_horiz : bool;                             (* c.direction.isHorizontal() *)
  pp_usedev : bool;                            (* ppem != 0 *)
  pp_fmt2 : bool;                              (* PairPosData2 (classes) *)
  pp_vf1 : Z; pp_vf2 : Z;                      (* ValueFormat1 / 2 *)
  pp_pairs : list (Z * Z * vrec * vrec);       (* format 1: first, second glyph; format 2: class1, class2 *)
  pp_cov : list Z;                             (* format 2: coverage *)
  pp_cls1 : list (Z * Z); pp_cls2 : list (Z * Z)   (* format 2: glyph, class; first entry of a glyph wins *)
}.

Definition assocZ (l : list (Z * Z)) (g : Z) : option Z :=
  match find (fun e => fst e =? g) l with Some e => Some (snd e) | None => None end.

Definition pp_cell (P : ppparams) (a b : Z) : option (vrec * vrec) :=
  match find (fun e => (fst (fst (fst e)) =? a) && (snd (fst (fst e)) =? b)) (pp_pairs P) with
  | Some e => Some (snd (fst e), snd e)
  | None => None
  end.

(* table.Cov().Index(glyph) succeeds *)
Definition pp_covered (P : ppparams) (g : Z) : bool :=
  if pp_fmt2 P then existsb (Z.eqb g) (pp_cov P)
  else existsb (fun e => fst (fst (fst e)) =? g) (pp_pairs P).

(* the value records of the pair (first glyph x, second glyph y); None = the subtable returns false.
   format 1: PairSet.FindGlyph; format 2: ClassDef2.Class(y) must succeed, ClassDef1.Class(x) defaults to 0,
   Record(class1, class2) *)
Definition pp_record (P : ppparams) (x y : Z) : option (vrec * vrec) :=
  if pp_fmt2 P then
    match assocZ (pp_cls2 P) y with
    | None => None
    | Some c2 =>
      let c1 := match assocZ (pp_cls1 P) x with Some c => c | None => 0 end in
      Some (match pp_cell P c1 c2 with Some r => r | None => (vr0, vr0) end)
    end
  else pp_cell P x y.

(* `pos.X += v` on an int32 field; v = 0 leaves the field as it is (the fields of the model are unbounded Z) *)
Definition addp (a v : Z) : Z := if v =? 0 then a else add32 a v.
Definition fbit (f b : Z) : bool := negb (Z.land f b =? 0).

(* applyGPOSValueRecord: the new position and "something was applied" *)
Definition apply_vr (P : ppparams) (f : Z) (v : vrec) (p : posn) : posn * bool :=
  if f =? 0 then (p, false)
  else
    let h := pp_horiz P in
    let xo1 := if fbit f 1 then addp (xo p) (v_xpl v) else xo p in
    let r1 := fbit f 1 && negb (v_xpl v =? 0) in
    let yo1 := if fbit f 2 then addp (yo p) (v_ypl v) else yo p in
    let r2 := r1 || (fbit f 2 && negb (v_ypl v =? 0)) in
    let xa1 := if fbit f 4 && h then addp (xa p) (v_xad v) else xa p in
    let r3 := r2 || (fbit f 4 && h && negb (v_xad v =? 0)) in
    let ya1 := if fbit f 8 && negb h then addp (ya p) (- v_yad v) else ya p in
    let r4 := r3 || (fbit f 8 && negb h && negb (v_yad v =? 0)) in
    if (Z.land f 240 =? 0) || negb (pp_usedev P) then (mkP xa1 ya1 xo1 yo1 (ach p) (aty p), r4)
    else
      let dv := fbit f 64 && h in
      let xa2 := if dv && v_dev v then addp xa1 (v_devd v) else xa1 in
      (mkP xa2 ya1 xo1 yo1 (ach p) (aty p), r4 || (dv && v_dev v)).

(* the iterator of PairPos: lookup props = lookup flag, GPOS (ZWNJ and ZWJ ignored), mask = lookup mask, no match
   function *)
Definition pp_match (P : ppparams) : item -> mres := match_plain (pp_flag P) (pp_mask P) true true.

(* applyForward reaches accel.apply and the coverage test succeeds *)
Definition pp_first (P : ppparams) (x : item) : bool :=
  has_mask (pp_mask P) x && check_prop (pp_flag P) x && pp_covered P (igid x).

(* the value records of the pair applied to its two glyphs: the rewritten glyphs and "something was applied" *)
Definition pp_pair (P : ppparams) (x y : item) : option (item * item * bool) :=
  match pp_record P (igid x) (igid y) with
  | None => None
  | Some (v1, v2) =>
    let '(p1, a1) := apply_vr P (pp_vf1 P) v1 (ip x) in
    let '(p2, a2) := apply_vr P (pp_vf2 P) v2 (ip y) in
    Some (with_p x p1, with_p y p2, a1 || a2)
  end.

(* the pair starting at x: index k of the second glyph in rest, the rewritten first and second glyph, "applied" *)
Definition pp_find (P : ppparams) (x : item) (rest : list item) : option (nat * item * item * bool) :=
  if negb (pp_first P x) then None
  else match snext (pp_match P) rest with
       | None => None
       | Some k => match pp_pair P x (nth k rest i0) with
                   | None => None
                   | Some (x', y', ap) => Some (k, x', y', ap)
                   end
       end.

(* the window [idx, pos+1): flagged when something was applied *)
Definition pp_window (x' y' : item) (rest : list item) (k : nat) (ap : bool) : list item :=
  let w := x' :: firstn k rest ++ [y'] in if ap then flag_window w else w.

(* ValueFormat2 != 0: the window grows by the glyph after the second one (clipped at the end of the buffer), is
   flagged, and the cursor moves behind the second glyph *)
Definition pp_window2 (x' y' : item) (rest : list item) (k : nat) (ap : bool) : list item :=
  flag_window (pp_window x' y' rest k ap ++ firstn 1 (skipn (S k) rest)).

(* one iteration of applyForward, following the code: (done', todo', a flag write was recorded) *)
Definition pp_step_f (P : ppparams) (d t : list item) : list item * list item * bool :=
  match t with
  | [] => (d, [], false)
  | x :: rest =>
    match pp_find P x rest with
    | None => (d ++ [x], rest, false)                                     (* not applied: nextGlyph *)
    | Some (k, x', y', ap) =>
      if pp_vf2 P =? 0 then
        let w := pp_window x' y' rest k ap in
        (d ++ removelast w, [last w i0] ++ skipn (S k) rest, ap)          (* buffer.idx = pos *)
      else
        let w := pp_window2 x' y' rest k ap in
        (d ++ firstn (S (S k)) w, skipn (S (S k)) w ++ skipn (S (S k)) rest, true)   (* buffer.idx = pos + 1 *)
    end
  end.

(* the rule as the cut theorem sees it: the length m of the inspected window after x, the rewritten window W (which is
   then flagged) and the number n of glyphs the cursor moves; None: the cursor advances by one, nothing changes.  A pair
   without second value record and without effect does not count (the code then moves the cursor to the second glyph
   over glyphs its iterator skipped) *)
Definition pp_plan (P : ppparams) (x : item) (rest : list item) : option (nat * list item * nat) :=
  match pp_find P x rest with
  | None => None
  | Some (k, x', y', ap) =>
    if pp_vf2 P =? 0 then
      if ap then Some (S k, x' :: firstn k rest ++ [y'], 1%nat) else None
    else
      let z := firstn 1 (skipn (S k) rest) in
      Some ((S k + length z)%nat, pp_window x' y' rest k ap ++ z, S (S k))
  end.

Definition pp_step_u (P : ppparams) (d t : list item) : list item * list item * bool :=
  match t with
  | [] => (d, [], false)
  | x :: rest =>
    match pp_plan P x rest with
    | None => (d ++ [x], rest, false)
    | Some (m, W, n) => let w := flag_window W in (d ++ firstn n w, skipn n w ++ skipn m rest, true)
    end
  end.

Fixpoint pp_loop (step : list item -> list item -> list item * list item * bool) (fuel : nat) (d t : list item) (rec : bool)
  : list item * bool :=
  match fuel with
  | O => (d ++ t, rec)
  | S f => match t with
           | [] => (d, rec)
           | _ => let '(d', t', r) := step d t in pp_loop step f d' t' (rec || r)
           end
  end.

(* applyString: nothing happens when the lookup mask is 0 (or the buffer is empty) *)
Definition pp_lookup (st : list item * bool) (P : ppparams) : list item * bool :=
  let '(l, rec) := st in
  if pp_mask P =? 0 then st else pp_loop (pp_step_f P) (length l) [] l rec.

Definition pp_run (Ps : list ppparams) (l : list item) (rec : bool) : list item * bool :=
  fold_left pp_lookup Ps (l, rec).

(* the pass of the cut theorem, no context *)
Definition pp_pass (P : ppparams) : @pass item unit :=
  mkPass (fun _ _ d t => let '(d', t', _) := pp_step_u P d t in (d', t')) (fun _ => tt) (fun _ => tt).
