(* Hand-written model of fontscan/rune_coverage.go: pageSet, runePage, RuneSet (findPageFrom, findPagePos,
   findOrCreatePage, insertPage, rsAdd, rsDelete, rsContains, rsIncludes, rsLen, serialize, deserializeFrom),
   addRangeToPage and the rune-set half of newCoveragesFromCmapRange.  No proofs here.
   uint32 words, uint16 page refs and byte indices are Z with explicit wrap; `>>`/`&` on runes are
   Z.shiftr / Z.land (two's complement on Z agrees with Go on int32). *)
From TV Require Export Lib.Bytes Lib.Res.

Definition pageSet := list Z.                       (* [8]uint32 *)
Record runePage := mkPage { p_ref : Z; p_set : pageSet }.
Definition RuneSet := list runePage.

Definition zero_set : pageSet := [0; 0; 0; 0; 0; 0; 0; 0].
Definition ones32 : Z := 4294967295.
Definition full_set : pageSet := [ones32; ones32; ones32; ones32; ones32; ones32; ones32; ones32].
Definition dpage : runePage := mkPage 0 zero_set.

Fixpoint upd {A} (l : list A) (n : nat) (f : A -> A) : list A :=
  match l, n with
  | [], _ => []
  | x :: r, O => f x :: r
  | x :: r, S n' => x :: upd r n' f
  end.
Definition zupd {A} (l : list A) (k : Z) (f : A -> A) : list A := if k <? 0 then l else upd l (Z.to_nat k) f.

(* lo, lo+1, ..., lo+n-1 *)
Fixpoint zrange (lo : Z) (n : nat) : list Z :=
  match n with O => [] | S n' => lo :: zrange (lo + 1) n' end.

Definition not32 (x : Z) : Z := Z.lxor ones32 x.     (* ^x on uint32 *)

(* pageSet.rsIncludes: a rsIncludes b *)
Definition pageSet_includes (a b : pageSet) : bool :=
  forallb (fun ab => Z.land (snd ab) (not32 (fst ab)) =? 0) (combine a b).

(* findPageFrom: binary search from index low; fuel = number of pages + 1 *)
Fixpoint fpf_loop (fuel : nat) (rs : RuneSet) (ref low high : Z) : res Z :=
  if high <? low then
    let high' := if (high <? 0) || ((high <? zlen rs) && (p_ref (znth dpage rs high) <? ref)) then high + 1 else high in
    Ok (- (high' + 1))
  else match fuel with
       | O => OutOfFuel
       | S f =>
           let mid := Z.shiftr (low + high) 1 in
           if (mid <? 0) || (zlen rs <=? mid) then Panic 1
           else
             let page := p_ref (znth dpage rs mid) in
             if page =? ref then Ok mid
             else if page <? ref then fpf_loop f rs ref (mid + 1) high
             else fpf_loop f rs ref low (mid - 1)
       end.
Definition findPageFrom (rs : RuneSet) (low ref : Z) : res Z :=
  fpf_loop (S (length rs)) rs ref low (zlen rs - 1).
Definition findPagePos (rs : RuneSet) (ref : Z) : res Z := findPageFrom rs 0 ref.

Definition insertPage (rs : RuneSet) (page : runePage) (pos : Z) : RuneSet :=
  zfirstn pos rs ++ page :: zskipn pos rs.

(* returns the new set and the position of the page *)
Definition findOrCreatePage (rs : RuneSet) (ref : Z) : res (RuneSet * Z) :=
  do pos <- findPagePos rs ref;
  if pos <? 0 then Ok (insertPage rs (mkPage ref zero_set) (- pos - 1), - pos - 1) else Ok (rs, pos).

Definition rune_ref (r : Z) : Z := wrap16 (Z.shiftr r 8).         (* uint16(r >> 8) *)
Definition word_idx (r : Z) : Z := Z.shiftr (Z.land r 255) 5.      (* (r & 0xff) >> 5 *)
Definition bit_idx (r : Z) : Z := Z.land r 31.                     (* r & 0x1f *)

Definition upd_word (rs : RuneSet) (pos : Z) (k : Z) (f : Z -> Z) : RuneSet :=
  zupd rs pos (fun p => mkPage (p_ref p) (zupd (p_set p) k f)).

Definition rsAdd (rs : RuneSet) (r : Z) : res RuneSet :=
  do rp <- findOrCreatePage rs (rune_ref r);
  Ok (upd_word (fst rp) (snd rp) (word_idx r) (fun w => Z.lor w (Z.shiftl 1 (bit_idx r)))).

Definition rsDelete (rs : RuneSet) (r : Z) : res RuneSet :=
  do pos <- findPagePos rs (rune_ref r);
  if pos <? 0 then Ok rs
  else Ok (upd_word rs pos (word_idx r) (fun w => Z.land w (not32 (Z.shiftl 1 (bit_idx r))))).

Definition rsContains (rs : RuneSet) (r : Z) : res bool :=
  do pos <- findPagePos rs (rune_ref r);
  if pos <? 0 then Ok false
  else Ok (negb (Z.land (znth 0 (p_set (znth dpage rs pos)) (word_idx r)) (Z.shiftl 1 (bit_idx r)) =? 0)).

(* RuneSet.rsIncludes: a rsIncludes b; fuel = len a + len b + 1.  After the `fix:` commit "RuneSet.includes ignores the
   empty pages left behind by Delete": a page of b whose ref is not in a is accepted when it is all-zero
   (bEntry.set != (pageSet{})), and a page ref not found by findPageFrom resumes the walk at its insertion point. *)
Definition set_is_zero (s : pageSet) : bool := forallb (fun w => w =? 0) s.
Fixpoint includes_loop (fuel : nat) (a b : RuneSet) (bi ai : Z) : res bool :=
  if (bi <? zlen b) && (ai <? zlen a) then
    match fuel with
    | O => OutOfFuel
    | S f =>
        let be := znth dpage b bi in
        let ae := znth dpage a ai in
        if p_ref be =? p_ref ae then
          if pageSet_includes (p_set ae) (p_set be) then includes_loop f a b (bi + 1) (ai + 1) else Ok false
        else if p_ref be <? p_ref ae then
          if set_is_zero (p_set be) then includes_loop f a b (bi + 1) ai else Ok false
        else
          do ai' <- findPageFrom a (ai + 1) (p_ref be);
          includes_loop f a b bi (if ai' <? 0 then - ai' - 1 else ai')
    end
  else Ok (forallb (fun p => set_is_zero (p_set p)) (zskipn bi b)).
Definition rsIncludes (a b : RuneSet) : res bool := includes_loop (S (length a + length b)) a b 0 0.

(* bits.OnesCount32 *)
Definition popcount32 (w : Z) : Z := fold_right (fun i acc => Z.b2z (Z.testbit w i) + acc) 0 (zrange 0 32).
Definition page_len (p : runePage) : Z := fold_right (fun w acc => popcount32 w + acc) 0 (p_set p).
Definition rsLen (rs : RuneSet) : Z := fold_right (fun p acc => page_len p + acc) 0 rs.

(* serialize / deserializeFrom; runePageSize = 34 *)
Definition ser_page (p : runePage) : list Z := put16 (p_ref p) ++ flat_map put32 (p_set p).
Definition serialize (rs : RuneSet) : list Z := put16 (wrap16 (zlen rs)) ++ flat_map ser_page rs.

Definition read_page (data : list Z) : runePage :=
  mkPage (get16 data) (map (fun j => get32 (zskipn (2 + 4 * j) data)) (zrange 0 8)).
Fixpoint read_pages (n : nat) (data : list Z) : RuneSet :=
  match n with
  | O => []
  | S n' => read_page data :: read_pages n' (zskipn 34 data)
  end.
Definition deserializeFrom (data : list Z) : res (RuneSet * Z) :=
  if zlen data <? 2 then Err 1
  else let L := get16 data in
       if zlen data <? 2 + 34 * L then Err 2
       else Ok (read_pages (Z.to_nat L) (zskipn 2 data), 2 + 34 * L).

(* addRangeToPage(page, start, end) with start, end bytes; the shift counts are bytes (wrap8) and the
   masks uint32 (1<<32 = 0, 0-1 = 0xFFFFFFFF) *)
Definition shl32 (x n : Z) : Z := wrap32 (Z.shiftl x n).
Fixpoint fill_ones (p : pageSet) (from : Z) (n : nat) : pageSet :=
  match n with O => p | S n' => fill_ones (zupd p from (fun _ => ones32)) (from + 1) n' end.
Definition addRangeToPage (page : pageSet) (s e : Z) : pageSet :=
  let uis := Z.shiftr s 5 in
  let uie := Z.shiftr e 5 in
  let bis := Z.land s 31 in
  let bie := Z.land e 31 in
  let bitEnd := if uie =? uis then bie else 31 in
  let alt := shl32 (wrap32 (shl32 1 (wrap8 (bitEnd - bis + 1)) - 1)) bis in
  let p1 := zupd page uis (fun w => Z.lor w alt) in
  if uie =? uis then p1
  else
    let p2 := fill_ones p1 (uis + 1) (Z.to_nat (uie - (uis + 1))) in
    zupd p2 uie (fun w => Z.lor w (wrap32 (shl32 1 (wrap8 (bie + 1)) - 1))).

(* rune-set half of newCoveragesFromCmapRange (after the `fix:` commit that replaces the 0xFFFF sentinel page
   by a nil pointer).  `first` = lastPage is still nil; afterwards lastPage = &rs[len(rs)-1]. *)
Definition cov_step (first : bool) (rs : RuneSet) (ra : Z * Z) : res RuneSet :=
  let '(start, end_) := ra in
  let pageStart := wrap16 (Z.shiftr start 8) in
  let pageEnd := wrap16 (Z.shiftr end_ 8) in
  let startByte := Z.land start 255 in
  let endByte := Z.land end_ 255 in
  let endClamped := if pageEnd =? pageStart then endByte else 255 in
  let rs1 :=
    if negb first && (pageStart =? p_ref (last rs dpage)) then
      zupd rs (zlen rs - 1) (fun p => mkPage (p_ref p) (addRangeToPage (p_set p) startByte endClamped))
    else rs ++ [mkPage pageStart (addRangeToPage zero_set startByte endClamped)] in
  let rs2 :=
    if pageEnd =? pageStart then rs1
    else
      let from := wrap16 (pageStart + 1) in
      rs1 ++ map (fun i => mkPage i full_set) (zrange from (Z.to_nat (pageEnd - from)))
          ++ [mkPage pageEnd (addRangeToPage zero_set 0 endByte)] in
  match rs2 with [] => Panic 1 | _ => Ok rs2 end.
Fixpoint cov_loop (first : bool) (rs : RuneSet) (ranges : list (Z * Z)) : res RuneSet :=
  match ranges with
  | [] => Ok rs
  | ra :: rest => do rs' <- cov_step first rs ra; cov_loop false rs' rest
  end.
Definition coverage_from_ranges (ranges : list (Z * Z)) : res RuneSet := cov_loop true [] ranges.
