(* Executable model of tupleVariation.calculateScalar (font/variations.go) and of the single-active-axis cache newGvar
   builds for the shared tuples (sharedTupleActiveIdx).  Coordinates are F2Dot14 integers (tables.Coord = int16);
   the scalar is a float32 product of float32 quotients of int16 differences, modelled exactly (Model/F32.v).
   [scalar_full] is the specification (OpenType "Algorithm for Interpolation of Instance Values": the product over ALL
   axes of the per-axis factor); [scalar_go] follows the code, cache included.  No proofs in this file. *)
From TV Require Export Lib.Bytes Lib.Res Model.F32.
Open Scope Z_scope.

(* float32(a) / float32(b) for integers a, b (|a|,|b| < 2^24 so the conversions are exact), b <> 0 *)
Definition f32_div_int (a b : Z) : Z :=
  if b =? 0 then 0 else
  let n := Z.shiftl (Z.abs a) (149 + 70) in
  let q := n / Z.abs b in
  let st := if n mod Z.abs b =? 0 then 0 else 1 in
  f32_round_sh (Z.sgn a * Z.sgn b * (2 * q + st)) 71.

(* what one axis contributes: None = the loop continues without touching the scalar, Some f = scalar *= f
   (Some 0 stands for "return 0") *)
Definition axis_term (has_inter : bool) (v peak start end_ : Z) : option Z :=
  if (peak =? 0) || (v =? peak) then None else
  if has_inter then
    if (peak <? start) || (end_ <? peak) || ((start <? 0) && (0 <? end_) && negb (peak =? 0)) then None
    else if (v <? start) || (end_ <? v) then Some 0
    else if v <? peak then
      (if peak =? start then None else Some (f32_div_int (sint16 (v - start)) (sint16 (peak - start))))
    else
      (if peak =? end_ then None else Some (f32_div_int (sint16 (end_ - v)) (sint16 (end_ - peak))))
  else if (v =? 0) || (v <? Z.min 0 peak) || (Z.max 0 peak <? v) then Some 0
  else Some (f32_div_int v peak).

Definition mul_term (acc : Z) (t : option Z) : Z := match t with None => acc | Some f => f32_mul acc f end.

(* axis i of a tuple header; tuples are lists indexed by axis *)
Definition term_at (has_inter : bool) (coords peak start end_ : list Z) (i : nat) : option Z :=
  axis_term has_inter (nth i coords 0) (nth i peak 0) (nth i start 0) (nth i end_ 0).

(* specification: every axis counts *)
Definition scalar_full (has_inter : bool) (coords peak start end_ : list Z) : Z :=
  fold_left mul_term (map (term_at has_inter coords peak start end_) (seq 0 (length coords))) f32_one.

(* newGvar: the index of the only non-zero peak, or -1 *)
Fixpoint active_idx_from (i : Z) (tuple : list Z) (idx : Z) : Z :=
  match tuple with
  | [] => idx
  | p :: t => if p =? 0 then active_idx_from (i + 1) t idx
              else if negb (idx =? -1) then -1 else active_idx_from (i + 1) t i
  end.
Definition active_idx (tuple : list Z) : Z := active_idx_from 0 tuple (-1).

(* the loop of calculateScalar over [i, i + n) with early return *)
Fixpoint scalar_loop (has_inter : bool) (coords peak start end_ : list Z) (i n : nat) (acc : Z) : Z :=
  match n with
  | O => acc
  | S k =>
      match term_at has_inter coords peak start end_ i with
      | None => scalar_loop has_inter coords peak start end_ (S i) k acc
      | Some f => if f =? 0 then 0 else scalar_loop has_inter coords peak start end_ (S i) k (f32_mul acc f)
      end
  end.

(* calculateScalar: [embedded] = the header carries its own peak tuple; otherwise shared tuple [index] and its cache entry *)
Definition scalar_go (coords : list Z) (shared : list (list Z)) (embedded : bool) (index : Z) (peak0 start end_ : list Z)
    (has_inter : bool) : Z :=
  let n := Z.of_nat (length coords) in
  let '(peak, s, e, bad) :=
    if embedded then (peak0, 0, n, false)
    else if Z.of_nat (length shared) <=? index then ([], 0, 0, true)
    else let pk := nth (Z.to_nat index) shared [] in
         let v := active_idx pk in
         if v =? -1 then (pk, 0, n, false) else (pk, v, v + 1, false) in
  if bad then 0 else
  if (n <? e) || (Z.of_nat (length peak) <? e) then 0 else
  scalar_loop has_inter coords peak start end_ (Z.to_nat s) (Z.to_nat (e - s)) f32_one.
