(* Model of the storage bookkeeping of shaping.wrapBuffer (shaping/wrapping.go): the shared array [line] (capacity 100,
   grown by reset after it ran out), lineUsed, lineExhausted, the candidate buffer alt with its saved state, and the best
   line, which markCandidateBest stores inside [line] at lineUsed when there is room and on the heap otherwise
   (bestInLine), and which finalizeBest commits by advancing lineUsed.  Model/Wrap.v keeps the CONTENT of alt / best and
   leaves this bookkeeping out; here the Outputs are opaque tags (Z) and the question is where they are stored: a line
   returned by finalizeBest is a VIEW of [line] (offset, length) or a heap slice.  No proofs here.
   Transcribed: reset (the new capacity is an input: Go's append growth is not modelled), startLine, candidateAppend,
   candidateSave, candidateRestore, markCandidateBest, finalizeBest.  Sizes are nat. *)
From Coq Require Import List ZArith Bool Lia.
From TV Require Export Lib.Res.
Import ListNotations.

Inductive bbest := BNone | BLine (off len : nat) | BHeap (c : list Z).

Record buf := mkBuf {
  bf_line : list Z;       (* the backing array of w.line, all cap(w.line) cells *)
  bf_used : nat;          (* lineUsed *)
  bf_exh : bool;          (* lineExhausted *)
  bf_alt : list Z; bf_save : list Z;
  bf_best : bbest; bf_inline : bool }.

Definition slice (l : list Z) (off len : nat) : list Z := firstn len (skipn off l).
Definition write (l : list Z) (off : nat) (new : list Z) : list Z := firstn off l ++ new ++ skipn (off + length new) l.

Definition p_slice := 2%nat.    (* slice bounds out of range *)

(* reset; [newcap] = cap(w.line) afterwards *)
Definition b_reset (b : buf) (newcap : nat) : buf := mkBuf (repeat 0%Z newcap) 0 false [] [] BNone false.
Definition b_start (b : buf) : buf := mkBuf (bf_line b) (bf_used b) (bf_exh b) [] [] BNone false.
Definition b_append (b : buf) (t : Z) : buf := mkBuf (bf_line b) (bf_used b) (bf_exh b) (bf_alt b ++ [t]) (bf_save b) (bf_best b) (bf_inline b).
Definition b_save (b : buf) : buf := mkBuf (bf_line b) (bf_used b) (bf_exh b) (bf_alt b) (bf_alt b) (bf_best b) (bf_inline b).
Definition b_restore (b : buf) : buf := mkBuf (bf_line b) (bf_used b) (bf_exh b) (bf_save b) (bf_save b) (bf_best b) (bf_inline b).

(* markCandidateBest(suffixes...) *)
Definition b_mark (b : buf) (sfx : list Z) : res buf :=
  let content := bf_alt b ++ sfx in
  let needed := length content in
  let cap := length (bf_line b) in
  if cap <? bf_used b then Panic p_slice                       (* w.line[w.lineUsed:cap(w.line)] *)
  else if cap - bf_used b <? needed then
    Ok (mkBuf (bf_line b) (bf_used b) true (bf_alt b) (bf_save b) (BHeap content) false)
  else
    Ok (mkBuf (write (bf_line b) (bf_used b) content) (bf_used b) (bf_exh b) (bf_alt b) (bf_save b) (BLine (bf_used b) needed) true).

(* what finalizeBest returned: None = nil slice; the content read through the slice; offset in [line] when it is a view *)
Record lres := mkLres { lr_line : option (list Z); lr_view : option (nat * nat); lr_used : nat; lr_exh : bool; lr_inline : bool }.

Definition b_finalize (b : buf) : buf * lres :=
  let len := match bf_best b with BNone => 0 | BLine _ n => n | BHeap c => length c end in
  let used := if bf_inline b then bf_used b + len else bf_used b in
  let b' := mkBuf (bf_line b) used (bf_exh b) (bf_alt b) (bf_save b) (bf_best b) (bf_inline b) in
  (b', mkLres (match bf_best b with BNone => None | BLine o n => Some (slice (bf_line b) o n) | BHeap c => Some c end)
              (match bf_best b with BLine o n => Some (o, n) | _ => None end)
              used (bf_exh b) (bf_inline b)).

Inductive bop := OAppend (t : Z) | OMark (sfx : list Z) | OSave | ORestore.

Fixpoint run_ops (b : buf) (ops : list bop) : res buf :=
  match ops with
  | [] => Ok b
  | OAppend t :: r => run_ops (b_append b t) r
  | OMark s :: r => do b1 <- b_mark b s; run_ops b1 r
  | OSave :: r => run_ops (b_save b) r
  | ORestore :: r => run_ops (b_restore b) r
  end.

(* one WrapNextLine: startLine, the operations of wrapNextLine, finalizeBest *)
Definition run_line (b : buf) (ops : list bop) : res (buf * lres) :=
  do b1 <- run_ops (b_start b) ops; Ok (b_finalize b1).

Fixpoint run_lines (b : buf) (lines : list (list bop)) : res (buf * list lres) :=
  match lines with
  | [] => Ok (b, [])
  | ops :: rest =>
      do r <- run_line b ops;
      do r2 <- run_lines (fst r) rest;
      Ok (fst r2, snd r :: snd r2)
  end.

(* a paragraph: reset, then its lines *)
Definition run_para (b : buf) (newcap : nat) (lines : list (list bop)) : res (buf * list lres) :=
  run_lines (b_reset b newcap) lines.
