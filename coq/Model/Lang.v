(* Executable model of di/direction.go, language.NewLanguage (with Go's UTF-8 decoding of
   `for _, r := range string`), Language.Primary, binarySearchLang, NewLangID, LangID.Language.
   Strings are lists of bytes (Z in 0..255).  No proofs here. *)
From TV Require Export Lib.GoNum Lib.Res Model.Unicode.
From TV Require Export Gen.LangTable.

(* ---------------------------------------------------------------------------------------------- *)
(* di.Direction (uint8) *)

Definition bit_progression : Z := 1.
Definition bit_axisVertical : Z := 2.
Definition bit_verticalOrientationSet : Z := 4.
Definition bit_verticalSideways : Z := 8.
(* ^x on a uint8 *)
Definition not8 (x : Z) : Z := 255 - x.

Definition dir_is_vertical (d : Z) : bool := negb (Z.land d bit_axisVertical =? 0).
Definition dir_axis (d : Z) : bool := if dir_is_vertical d then true else false.       (* Vertical = true *)
Definition dir_switch_axis (d : Z) : Z := Z.lxor d bit_axisVertical.
Definition dir_progression (d : Z) : bool := if Z.land d bit_progression =? 0 then false else true.  (* TowardTopLeft = true *)
Definition dir_set_progression (d : Z) (p : bool) : Z :=
  if Bool.eqb p false then Z.land d (not8 bit_progression) else Z.lor d bit_progression.
Definition dir_has_vertical_orientation (d : Z) : bool := negb (Z.land d bit_verticalOrientationSet =? 0).
Definition dir_is_sideways (d : Z) : bool := dir_is_vertical d && negb (Z.land d bit_verticalSideways =? 0).
Definition dir_set_sideways (d : Z) (sideways : bool) : Z :=
  let d := Z.lor d (Z.lor bit_axisVertical bit_verticalOrientationSet) in
  if sideways then Z.lor d bit_verticalSideways else Z.land d (not8 bit_verticalSideways).
(* harfbuzz.Direction: LeftToRight = 4, RightToLeft = 5, TopToBottom = 6, BottomToTop = 7 *)
Definition dir_harfbuzz (d : Z) : Z :=
  let k := Z.land d (Z.lor bit_progression bit_axisVertical) in
  if k =? 1 then 5 else if k =? 3 then 7 else if k =? 2 then 6 else 4.

(* ---------------------------------------------------------------------------------------------- *)
(* `for _, r := range s`: Go's UTF-8 decoding; an invalid sequence yields U+FFFD and advances one byte *)

Definition rune_error : Z := 65533.
Definition is_cont (b : Z) : bool := (128 <=? b) && (b <=? 191).

(* rune and width of the encoding starting at the head of s (s not empty) *)
Definition decode_rune (s : list Z) : Z * nat :=
  match s with
  | [] => (rune_error, 1%nat)
  | b0 :: t =>
    if b0 <? 128 then (b0, 1%nat)
    else if b0 <? 194 then (rune_error, 1%nat)
    else if b0 <? 224 then
      match t with
      | b1 :: _ => if is_cont b1 then ((b0 - 192) * 64 + (b1 - 128), 2%nat) else (rune_error, 1%nat)
      | _ => (rune_error, 1%nat)
      end
    else if b0 <? 240 then
      match t with
      | b1 :: b2 :: _ =>
        let lo1 := if b0 =? 224 then 160 else 128 in
        let hi1 := if b0 =? 237 then 159 else 191 in
        if (lo1 <=? b1) && (b1 <=? hi1) && is_cont b2
        then ((b0 - 224) * 4096 + (b1 - 128) * 64 + (b2 - 128), 3%nat) else (rune_error, 1%nat)
      | _ => (rune_error, 1%nat)
      end
    else if b0 <? 245 then
      match t with
      | b1 :: b2 :: b3 :: _ =>
        let lo1 := if b0 =? 240 then 144 else 128 in
        let hi1 := if b0 =? 244 then 143 else 191 in
        if (lo1 <=? b1) && (b1 <=? hi1) && is_cont b2 && is_cont b3
        then ((b0 - 240) * 262144 + (b1 - 128) * 4096 + (b2 - 128) * 64 + (b3 - 128), 4%nat) else (rune_error, 1%nat)
      | _ => (rune_error, 1%nat)
      end
    else (rune_error, 1%nat)
  end.

(* language.NewLanguage over a table cm (canonMap).  skip = bytes of the current rune still to pass. *)
Definition canon_emit (cm : list Z) (r : Z) : list Z :=
  if r >=? 255 then []
  else let can := znth 0 cm r in if negb (can =? 0) then [can] else [].

Fixpoint new_language_from (cm : list Z) (skip : nat) (s : list Z) : list Z :=
  match s with
  | [] => []
  | _ :: t =>
    match skip with
    | S k => new_language_from cm k t
    | O => let (r, w) := decode_rune s in canon_emit cm r ++ new_language_from cm (Nat.pred w) t
    end
  end.
Definition new_language (s : list Z) : list Z := new_language_from canonMap 0 s.

(* ---------------------------------------------------------------------------------------------- *)
(* Go string comparison (bytewise lexicographic) *)

Fixpoint str_cmp (a b : list Z) : comparison :=
  match a, b with
  | [], [] => Eq
  | [], _ => Lt
  | _, [] => Gt
  | x :: a', y :: b' => match x ?= y with Eq => str_cmp a' b' | c => c end
  end.
Definition str_eqb (a b : list Z) : bool := match str_cmp a b with Eq => true | _ => false end.
Definition str_geb (a b : list Z) : bool := match str_cmp a b with Lt => false | _ => true end.

(* Language.Primary: the part before the first '-' *)
Fixpoint primary (l : list Z) : list Z :=
  match l with
  | [] => []
  | c :: t => if c =? 45 then [] else c :: primary t
  end.

(* the descending loop of binarySearchLang; k = index + 1 *)
Fixpoint scan_root (records : list (list Z)) (root : list Z) (k : nat) : Z * bool :=
  match k with
  | O => (0, false)
  | S k' =>
    let entry := nth k' records [] in
    match str_cmp entry root with
    | Gt => scan_root records root k'
    | Lt => (0, false)
    | Eq => (Z.of_nat k', true)
    end
  end.

Definition binary_search_lang (l : list Z) (records : list (list Z)) : res (Z * bool) :=
  let n := zlen records in
  do index <- search2 (S (length records)) (fun i => str_geb (znth [] records i) l) 0 n;
  if negb (index =? n) && str_eqb (znth [] records index) l then Ok (index, true)
  else
    let index := if index =? n then index - 1 else index in
    Ok (scan_root records (primary l) (Z.to_nat (index + 1))).

Definition lang_tags (infos : list (list Z * (Z * Z * Z))) : list (list Z) := map fst infos.

(* NewLangID (after the fix: an exact match in either part wins over a primary match) *)
Definition new_lang_id_in (tags : list (list Z)) (known : Z) (l : list Z) : res (Z * bool) :=
  let seg1 := zfirstn known tags in
  let seg2 := zskipn known tags in
  do r1 <- binary_search_lang l seg1;
  let (i1, ok1) := r1 in
  if ok1 && str_eqb (znth [] tags i1) l then Ok (i1, true)
  else
    do r2 <- binary_search_lang l seg2;
    let (i2, ok2) := r2 in
    if ok2 && str_eqb (znth [] tags (known + i2)) l then Ok (wrap16 (known + wrap16 i2), true)
    else if ok1 then Ok (wrap16 i1, true)
    else if ok2 then Ok (wrap16 (known + wrap16 i2), true)
    else Ok (0, false).
Definition new_lang_id (l : list Z) : res (Z * bool) := new_lang_id_in (lang_tags languagesInfos) knownLangsCount l.

Definition invalid_language : list Z := [60;105;110;118;97;108;105;100;32;108;97;110;103;117;97;103;101;62].
(* LangID.Language *)
Definition lang_of_id (id : Z) : list Z :=
  if id >=? zlen languagesInfos then invalid_language else znth [] (lang_tags languagesInfos) id.
