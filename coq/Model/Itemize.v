(* Model of shaping/input.go: Segmenter.Split = reset; splitByBidi; splitByScript; enforceLanguages;
   [splitByVertOrientation]; splitByFace, with the two ping-pong buffers and the delimiter stack explicit.
   Hand-written, no proofs here.

   What the code reads from one rune is an OBSERVATION record filled by the driver from the library's
   own functions (language.LookupScript, lookupDelimIndex, ignoreFaceChange,
   unicodedata.LookupVerticalOrientation(s).Orientation(r), Fontmap.ResolveFace(r) after SetScript(s)).
   External results are inputs of the model: the bidi run list of the sub-range (x/text paragraph by paragraph, see
   splitByBidi below), NewLangID of the input language, LangID.UseScript and ScriptToLang. *)
From Coq Require Export List Bool ZArith Lia.
From TV Require Export Lib.GoNum Lib.Res.
Export ListNotations.
Open Scope Z_scope.

(* language.Common = "Zyyy", language.Inherited = "Zinh" (checked against the library on every case) *)
Definition SC_COMMON : Z := 1517910393.
Definition SC_INHERITED : Z := 1516858984.
(* Script.Strong *)
Definition strong (s : Z) : bool := negb (s =? SC_COMMON) && negb (s =? SC_INHERITED).

(* di.Direction: bit 0 progression (set = TowardTopLeft), bit 1 axisVertical, bit 2 verticalOrientationSet,
   bit 3 verticalSideways *)
Record dir := mkDir { d_prog : bool; d_vert : bool; d_oset : bool; d_side : bool }.
Definition set_prog (d : dir) (toward : bool) : dir := mkDir toward (d_vert d) (d_oset d) (d_side d).
Definition set_sideways (d : dir) (sw : bool) : dir := mkDir (d_prog d) true true sw.
Definition is_sideways (d : dir) : bool := d_vert d && d_side d.

Record obs := mkObs {
  o_script : Z;               (* language.LookupScript r *)
  o_delim : Z;                (* lookupDelimIndex r (-1: not a paired delimiter) *)
  o_ignore : bool;            (* ignoreFaceChange r *)
  o_side : list (Z * bool);   (* script s |-> LookupVerticalOrientation(s).Orientation(r) *)
  o_face : list (Z * Z)       (* hint key |-> id of ResolveFace(r); key = script given to SetScript, -1 without hints *)
}.

Fixpoint assoc {A} (d : A) (l : list (Z * A)) (k : Z) : A :=
  match l with
  | [] => d
  | (k', v) :: r => if k' =? k then v else assoc d r k
  end.
Definition side_of (o : obs) (script : Z) : bool := assoc true (o_side o) script.
Definition face_of (o : obs) (key : Z) : Z := assoc 0 (o_face o) key.

(* shaping.Input.  Text, FontFeatures: identity tokens of the slices (0 = nil); Face: id of the pointer (0 = nil);
   Language: LangID of the string, or a token of the caller's string *)
Record input := mkIn {
  i_text : Z; i_start : Z; i_end : Z; i_dir : dir; i_face : Z; i_feat : Z; i_size : Z; i_script : Z; i_lang : Z
}.
Definition set_start (x : input) (v : Z) := mkIn (i_text x) v (i_end x) (i_dir x) (i_face x) (i_feat x) (i_size x) (i_script x) (i_lang x).
Definition set_end (x : input) (v : Z) := mkIn (i_text x) (i_start x) v (i_dir x) (i_face x) (i_feat x) (i_size x) (i_script x) (i_lang x).
Definition set_dir (x : input) (v : dir) := mkIn (i_text x) (i_start x) (i_end x) v (i_face x) (i_feat x) (i_size x) (i_script x) (i_lang x).
Definition set_face (x : input) (v : Z) := mkIn (i_text x) (i_start x) (i_end x) (i_dir x) v (i_feat x) (i_size x) (i_script x) (i_lang x).
Definition set_script (x : input) (v : Z) := mkIn (i_text x) (i_start x) (i_end x) (i_dir x) (i_face x) (i_feat x) (i_size x) v (i_lang x).
Definition set_lang (x : input) (v : Z) := mkIn (i_text x) (i_start x) (i_end x) (i_dir x) (i_face x) (i_feat x) (i_size x) (i_script x) v.
(* reset: Text = nil, FontFeatures = nil *)
Definition clear_ptrs (x : input) := mkIn 0 (i_start x) (i_end x) (i_dir x) (i_face x) 0 (i_size x) (i_script x) (i_lang x).

(* a []Input with its backing array: the elements below len, and what the array holds behind len (up to cap) *)
Record buf := mkBuf { live : list input; stale : list input }.
Definition buf_zero := mkBuf [] [].
Definition buf_trunc (b : buf) : buf := mkBuf [] (live b ++ stale b).                 (* b[:0] *)
Definition buf_append (b : buf) (x : input) : buf := mkBuf (live b ++ [x]) (tl (stale b)).  (* append(b, x) *)
Definition buf_appends (b : buf) (xs : list input) : buf := fold_left buf_append xs b.
Definition buf_reset (b : buf) : buf := buf_trunc (mkBuf (map clear_ptrs (live b)) (stale b)).

(* delimEntry: (index in pairedDelims, script).  The stack is kept top first. *)
Definition dstack := list (Z * Z).

Record segmenter := mkSeg {
  s_in : buf; s_out : buf;
  s_stack : dstack;          (* delimStack[:len] *)
  s_stack_stale : dstack     (* behind len *)
}.
Definition seg_zero := mkSeg buf_zero buf_zero [] [].
Definition swap_bufs (s : segmenter) := mkSeg (s_out s) (s_in s) (s_stack s) (s_stack_stale s).
Definition with_out (s : segmenter) (b : buf) := mkSeg (s_in s) b (s_stack s) (s_stack_stale s).
Definition with_stack (s : segmenter) (k : dstack) := mkSeg (s_in s) (s_out s) k (s_stack_stale s).

Definition reset (s : segmenter) : segmenter :=
  mkSeg (buf_reset (s_in s)) (buf_reset (s_out s)) [] (rev (s_stack s) ++ s_stack_stale s).

(* ---- splitByBidi ------------------------------------------------------------------------- *)
(* bidi: per run (end rune relative to RunStart, RightToLeft?) of the list splitByBidi builds: one x/text analysis per
   paragraph of the range (a rune of bidi class B closes its paragraph), run.Pos() shifted by the paragraph start, a
   paragraph for which Order() fails or returns no run counted as one run in the caller's direction, a run with the
   direction of the one before it merged into it (appendBidiRun).  The paragraph loop itself is not modelled: the
   driver rebuilds the list from its own x/text calls and the correspondence compares the outcome.
   None / Some [] = the range as one run in the caller's direction (what a list-less analysis amounts to; the current
   code never produces it for a non-empty range). *)
Fixpoint bidi_loop (runs : list (Z * bool)) (text_start : Z) (inp : input) : list input :=
  match runs with
  | [] => []
  | (e, rtl) :: rest =>
      let cur := set_dir (set_end inp (e + text_start + 1)) (set_prog (i_dir inp) rtl) in
      cur :: bidi_loop rest text_start (set_start inp (i_end cur))
  end.

Definition split_by_bidi (tlen : Z) (bidi : option (list (Z * bool))) (x : input) : res (list input) :=
  if i_end x <=? i_start x then Ok [x]
  else if negb ((0 <=? i_start x) && (i_end x <=? tlen)) then Panic 1   (* text.Text[RunStart:RunEnd] *)
  else match bidi with
       | None | Some [] => Ok [x]
       | Some runs => Ok (bidi_loop runs (i_start x) x)
       end.

(* ---- the common shape of the three per-rune loops ---------------------------------------------
   for i := input.RunStart; i < input.RunEnd; i++ { r := input.Text[i]; ... }
   A step either keeps the current run (possibly changing its attributes) or cuts at i:
   the current run is closed at i and pushed unless i = input.RunStart; the new current run starts at i. *)
Section Loop.
  Variable St : Type.
  Variable text : list obs.
  Variable step : St -> Z -> obs -> input -> St * input * bool.   (* new state, new current, cut? *)
  Variable istart : Z.

  Definition text_at (i : Z) : res obs :=
    if (0 <=? i) && (i <? zlen text) then Ok (znth (mkObs 0 (-1) false [] []) text i) else Panic 2.

  Definition lstate := (St * input * list input)%type.

  Definition gstep (s : lstate) (i : Z) (o : obs) : lstate :=
    let '(st, cur, out) := s in
    let '(st', cur', cut) := step st i o cur in
    if cut then (st', set_start cur' i, if i =? istart then out else out ++ [set_end cur i])
    else (st', cur', out).

  Fixpoint gloop (n : nat) (i : Z) (s : lstate) : res lstate :=
    match n with
    | O => Ok s
    | S n' => do o <- text_at i; gloop n' (i + 1) (gstep s i o)
    end.
End Loop.

(* one input run through a per-rune loop; `init` prepares the current run; the last run is closed at RunEnd *)
Definition run_loop {St} (text : list obs) (step : input -> St -> Z -> obs -> input -> St * input * bool)
    (init : input -> input) (st : St) (inp : input) : res (St * list input) :=
  do r <- gloop St text (step inp) (i_start inp) (Z.to_nat (i_end inp - i_start inp)) (i_start inp) (st, init inp, []);
  let '(st', cur, out) := r in
  Ok (st', out ++ [set_end cur (i_end inp)]).

(* `for _, input := range seg.input` with the state carried from one run to the next *)
Fixpoint pass {St} (f : St -> input -> res (St * list input)) (st : St) (ins : list input) : res (St * list input) :=
  match ins with
  | [] => Ok (st, [])
  | x :: r => do a <- f st x; do b <- pass f (fst a) r; Ok (fst b, snd a ++ snd b)
  end.

(* ---- splitByScript ----------------------------------------------------------------------- *)
(* closing delimiter: search the stack from the top for the counterpart; pop it and everything above;
   without a counterpart the whole stack is dropped (j == -1 -> delimStack[:0]) *)
Fixpoint pop_match (stk : dstack) (counterpart : Z) : option Z * dstack :=
  match stk with
  | [] => (None, [])
  | (ix, sc) :: r => if ix =? counterpart then (Some sc, r) else pop_match r counterpart
  end.

Definition delim_resolve (stk : dstack) (cur_script : Z) (o : obs) : Z * dstack :=
  let rs := o_script o in
  let di := if strong rs then -1 else o_delim o in
  if 0 <=? di then
    if Z.even di then (rs, (di, cur_script) :: stk)
    else match pop_match stk (di - 1) with
         | (Some sc, stk') => (sc, stk')
         | (None, stk') => (rs, stk')
         end
  else (rs, stk).

Definition script_step (inp : input) (stk : dstack) (i : Z) (o : obs) (cur : input) : dstack * input * bool :=
  let '(rs, stk1) := delim_resolve stk (i_script cur) o in
  if negb (strong rs) || (rs =? i_script cur) then (stk1, cur, false)
  else if i_script cur =? SC_COMMON then (map (fun e => (fst e, rs)) stk1, set_script cur rs, false)
  else (stk1, set_script cur rs, true).

Definition split_by_script (text : list obs) (stk : dstack) (ins : list input) : res (dstack * list input) :=
  pass (run_loop text script_step (fun inp => set_script inp SC_COMMON)) stk ins.

(* ---- enforceLanguages -------------------------------------------------------------------- *)
Section Lang.
  Variable langid : option Z.        (* NewLangID(initialLang or "en") *)
  Variable use_script : Z -> bool.   (* initialLangID.UseScript *)
  Variable script_to_lang : Z -> Z.  (* language.ScriptToLang, 0 = absent *)

  Definition enforce_lang (id : Z) (s : Z) : Z :=
    if use_script s then id else if script_to_lang s =? 0 then id else script_to_lang s.

  Definition enforce_languages (out : list input) : res (list input) :=
    match out with
    | [] => Panic 3                                     (* seg.output[0] *)
    | _ => match langid with
           | None => Ok out
           | Some id => Ok (map (fun r => set_lang r (enforce_lang id (i_script r))) out)
           end
    end.
End Lang.

(* ---- splitByVertOrientation -------------------------------------------------------------- *)
Definition vert_step (inp : input) (st : unit) (i : Z) (o : obs) (cur : input) : unit * input * bool :=
  let sw := side_of o (i_script inp) in
  if i =? i_start inp then (st, set_dir cur (set_sideways (i_dir cur) sw), false)
  else if Bool.eqb sw (is_sideways (i_dir cur)) then (st, cur, false)
  else (st, set_dir cur (set_sideways (i_dir cur) sw), true).

Definition split_by_vert (text : list obs) (ins : list input) : res (list input) :=
  do r <- pass (run_loop text vert_step (fun inp => inp)) tt ins; Ok (snd r).

(* ---- splitByFace ------------------------------------------------------------------------- *)
Definition face_key (hint : bool) (inp : input) : Z := if hint then i_script inp else -1.

Definition face_step (hint : bool) (inp : input) (st : unit) (i : Z) (o : obs) (cur : input) : unit * input * bool :=
  if o_ignore o && (negb (i_face cur =? 0) || (i <? i_end inp - 1)) then (st, cur, false)
  else
    let sel := face_of o (face_key hint inp) in
    let cur1 := if i_face cur =? 0 then set_face cur sel else cur in
    if i_face cur1 =? sel then (st, cur1, false)
    else (st, set_face inp sel, true).

Definition split_by_face (text : list obs) (hint : bool) (ins : list input) : res (list input) :=
  do r <- pass (run_loop text (face_step hint) (fun inp => inp)) tt ins; Ok (snd r).

(* ---- Segmenter.Split --------------------------------------------------------------------- *)
Record env := mkEnv {
  e_text : list obs;
  e_bidi : option (list (Z * bool));
  e_langid : option Z;
  e_use : Z -> bool;
  e_stl : Z -> Z;
  e_hint : bool              (* the Fontmap implements FontmapScript *)
}.

(* everything after splitByBidi; s = the Segmenter after reset, b = the runs splitByBidi appends to seg.output *)
Definition split_rest (e : env) (s : segmenter) (x : input) (b : list input) : res segmenter :=
  let s := with_out s (buf_appends (s_out s) b) in
  let s := swap_bufs s in
  do r <- split_by_script (e_text e) (s_stack s) (live (s_in s));
  let s := with_stack (with_out s (buf_appends (s_out s) (snd r))) (fst r) in
  do l <- enforce_languages (e_langid e) (e_use e) (e_stl e) (live (s_out s));
  let s := with_out s (mkBuf l (stale (s_out s))) in
  do s <- (if d_vert (i_dir x) && negb (d_oset (i_dir x)) then
             let s := swap_bufs s in
             let s := with_out s (buf_trunc (s_out s)) in
             do v <- split_by_vert (e_text e) (live (s_in s));
             Ok (with_out s (buf_appends (s_out s) v))
           else Ok s);
  let s := swap_bufs s in
  let s := with_out s (buf_trunc (s_out s)) in
  do f <- split_by_face (e_text e) (e_hint e) (live (s_in s));
  Ok (with_out s (buf_appends (s_out s) f)).

(* Split with the bidi run list of the range given from outside (e_bidi); Model/ItemizeBidi.v has Split with splitByBidi
   itself (paragraph loop, x/text per paragraph) in front of the same split_rest *)
Definition split (e : env) (s : segmenter) (x : input) : res segmenter :=
  let s := reset s in
  do b <- split_by_bidi (zlen (e_text e)) (e_bidi e) x;
  split_rest e s x b.

(* the slice returned by Split *)
Definition split_runs (e : env) (s : segmenter) (x : input) : res (list input) :=
  do s' <- split e s x; Ok (live (s_out s')).

(* a reuse history: earlier calls on the same Segmenter (each with its own text, bidi result, fontmap ...) *)
Fixpoint run_history (h : list (env * input)) (s : segmenter) : res segmenter :=
  match h with
  | [] => Ok s
  | (e, x) :: r => do s' <- split e s x; run_history r s'
  end.
