(* Model of the positioning that precedes and surrounds GPOS in harfbuzz/ot_shaper.go (property C12):

     otContext.positionDefault       advances from the font functions per direction, origin subtraction,
                                     fallbackSpaces (ot_shape_fallback.go) when the buffer has fallback spaces
     zeroMarkWidthsByGdef, zeroWidthDefaultIgnorables
     otContext.positionComplex       addGlyphHOrigin on every glyph, [zero marks early], plan.position (GPOS / kern /
                                     kerx / trak: a Section variable), [zero marks late], zero default ignorables,
                                     subtractGlyphHOrigin on every glyph, [fallbackMarkPosition: a Section variable]
     otContext.position              positionDefault; positionComplex; Buffer.Reverse for backward directions

   Positions are int32 (explicit wrap).  positionStartGPOS / positionFinishOffsetsGPOS only touch the attachment
   fields unless a GPOS lookup attached something (part of the Section variable).  aatLayoutZeroWidthDeletedGlyphs
   (applyMorx) is outside: the correspondence is run on plans without morx.  No proofs in this file. *)
From Coq Require Import ZArith List Bool.
From TV Require Import Lib.GoNum Model.F32 Model.HbFont.
Import ListNotations.
Open Scope Z_scope.

(* what positioning reads of a GlyphInfo *)
Record pinfo := mkPI {
  pi_gid : Z;
  pi_mark : bool;        (* isMark() *)
  pi_ignorable : bool;   (* isDefaultIgnorable() *)
  pi_space : bool;       (* isUnicodeSpace() && !ligated() *)
  pi_stype : Z           (* getUnicodeSpaceFallbackType() *)
}.
(* GlyphPosition: XAdvance, YAdvance, XOffset, YOffset *)
Record ppos := mkPP { pp_xa : Z; pp_ya : Z; pp_xo : Z; pp_yo : Z }.

(* what fallbackSpaces needs beyond the font: buffer.Invisible, the glyphs of '0'..'9' the face has (in this order),
   the glyph of '.' or else ',' *)
Record spacecfg := mkSC { sc_invisible : Z; sc_digits : list Z; sc_punct : option Z }.

Section Pos.
  Variable fc : face.
  Variable ft : hbfont.

  (* one iteration of the loops of positionDefault *)
  Definition default_pos (horizontal : bool) (inf : pinfo) : ppos :=
    let g := pi_gid inf in
    if horizontal then
      let o := subtract_glyph_h_origin fc ft g (0, 0) in mkPP (glyph_h_advance fc ft g) 0 (fst o) (snd o)
    else
      let o := subtract_glyph_v_origin fc ft g (0, 0) in mkPP 0 (glyph_v_advance fc ft g) (fst o) (snd o).

  Definition set_axis (horizontal : bool) (p : ppos) (v : Z) : ppos :=
    if horizontal then mkPP v (pp_ya p) (pp_xo p) (pp_yo p) else mkPP (pp_xa p) v (pp_xo p) (pp_yo p).
  Definition axis_of (horizontal : bool) (p : ppos) : Z := if horizontal then pp_xa p else pp_ya p.
  Definition font_adv (horizontal : bool) (g : Z) : Z :=
    if horizontal then glyph_h_advance fc ft g else glyph_v_advance fc ft g.

  (* the body of the loop of fallbackSpaces for one glyph *)
  Definition fallback_space (sc : spacecfg) (horizontal : bool) (inf : pinfo) (p : ppos) : ppos :=
    if negb (pi_space inf) then p else
    let xs := ft_xscale ft in let ys := ft_yscale ft in
    let p1 := if negb (sc_invisible sc =? 0) && (pi_gid inf =? sc_invisible sc)
              then set_axis horizontal p (if horizontal then Z.quot xs 4 else Z.quot (sint32 (- ys)) 4) else p in
    let t := pi_stype inf in
    if ((1 <=? t) && (t <=? 6)) || (t =? 16) then
      set_axis horizontal p1 (if horizontal then Z.quot (sint32 (xs + Z.quot t 2)) t
                              else Z.quot (sint32 (- sint32 (ys + Z.quot t 2))) t)
    else if t =? 17 then
      set_axis horizontal p1 (if horizontal then Z.quot (sint32 (xs * 4)) 18 else Z.quot (sint32 (sint32 (- ys) * 4)) 18)
    else if t =? 19 then
      fold_left (fun q g => set_axis horizontal q (font_adv horizontal g)) (sc_digits sc) p1
    else if t =? 20 then
      match sc_punct sc with Some g => set_axis horizontal p1 (font_adv horizontal g) | None => p1 end
    else if t =? 21 then set_axis horizontal p1 (Z.quot (axis_of horizontal p1) 2)
    else p1.

  Fixpoint map2 {A B C} (f : A -> B -> C) (l : list A) (m : list B) : list C :=
    match l, m with
    | a :: l', b :: m' => f a b :: map2 f l' m'
    | _, _ => []
    end.

  (* positionDefault *)
  Definition position_default (dir : Z) (space_fallback : bool) (sc : spacecfg) (infos : list pinfo) : list ppos :=
    let h := hb_is_horizontal dir in
    let ps := map (default_pos h) infos in
    if space_fallback then map2 (fallback_space sc h) infos ps else ps.

  (* zeroMarkWidthsByGdef *)
  Definition zero_mark (adjust : bool) (inf : pinfo) (p : ppos) : ppos :=
    if pi_mark inf then
      if adjust then mkPP 0 0 (sint32 (pp_xo p - pp_xa p)) (sint32 (pp_yo p - pp_ya p)) else mkPP 0 0 (pp_xo p) (pp_yo p)
    else p.
  Definition zero_mark_widths_by_gdef (adjust : bool) (infos : list pinfo) (ps : list ppos) : list ppos :=
    map2 (zero_mark adjust) infos ps.

  (* zeroWidthDefaultIgnorables: has = scratchFlags&bsfHasDefaultIgnorables, preserve/remove = buffer.Flags bits *)
  Definition zero_width_default_ignorables (has preserve remove : bool) (infos : list pinfo) (ps : list ppos) : list ppos :=
    if negb has || preserve || remove then ps
    else map2 (fun inf p => if pi_ignorable inf then mkPP 0 0 0 0 else p) infos ps.

  Definition add_h_origin (inf : pinfo) (p : ppos) : ppos :=
    let o := add_glyph_h_origin fc ft (pi_gid inf) (pp_xo p, pp_yo p) in mkPP (pp_xa p) (pp_ya p) (fst o) (snd o).
  Definition sub_h_origin (inf : pinfo) (p : ppos) : ppos :=
    let o := subtract_glyph_h_origin fc ft (pi_gid inf) (pp_xo p, pp_yo p) in mkPP (pp_xa p) (pp_ya p) (fst o) (snd o).

  (* the plan, as far as positionComplex reads it *)
  Record pplan := mkPlan {
    pl_zero_marks : bool;       (* plan.zeroMarks *)
    pl_behavior : Z;            (* marksBehavior(): 0 none, 1 ByGdefEarly, 2 ByGdefLate *)
    pl_adjust : bool;           (* plan.adjustMarkPositioningWhenZeroing *)
    pl_fallback_marks : bool    (* plan.fallbackMarkPositioning *)
  }.
  (* the buffer flags zeroWidthDefaultIgnorables reads *)
  Record pflags := mkFl { fl_has_di : bool; fl_preserve : bool; fl_remove : bool }.

  Variable gpos : list pinfo -> list ppos -> list ppos.       (* c.plan.position: GPOS, kern, kerx, trak *)
  Variable fbmarks : list pinfo -> list ppos -> list ppos.    (* fallbackMarkPosition *)

  (* positionComplex *)
  Definition position_complex (dir : Z) (pl : pplan) (fl : pflags) (infos : list pinfo) (ps : list ppos) : list ppos :=
    let adjust := pl_adjust pl && hb_is_forward dir in
    let p1 := map2 add_h_origin infos ps in
    let p2 := if pl_zero_marks pl && (pl_behavior pl =? 1) then zero_mark_widths_by_gdef adjust infos p1 else p1 in
    let p3 := gpos infos p2 in
    let p4 := if pl_zero_marks pl && (pl_behavior pl =? 2) then zero_mark_widths_by_gdef adjust infos p3 else p3 in
    let p5 := zero_width_default_ignorables (fl_has_di fl) (fl_preserve fl) (fl_remove fl) infos p4 in
    let p6 := map2 sub_h_origin infos p5 in
    if pl_fallback_marks pl then fbmarks infos p6 else p6.

  (* position: the buffer (Info and Pos) is reversed for backward directions *)
  Definition position (dir : Z) (space_fallback : bool) (sc : spacecfg) (pl : pplan) (fl : pflags) (infos : list pinfo)
    : list pinfo * list ppos :=
    let ps := position_complex dir pl fl infos (position_default dir space_fallback sc infos) in
    if hb_is_backward dir then (rev infos, rev ps) else (infos, ps).
End Pos.
