(* Hand-written model of the incremental font scan of fontscan:
     scan.go     newFootprintAccumulator (previousIndex map), footprintScanner.consume (reuse keyed by path + modTime),
                 scanFontFootprints (directories share the visited set and the accumulator), ignoreFontFile
     scandir.go  scanDirectory's walkFn (skip directories, visited set, os.Stat, ignoreFontFile, consume)
     fontmap.go  refreshSystemFontsIndex (read cache, scan incrementally, write cache; a failed scan leaves the cache)
   over an abstract file tree: the list of (path, entry-is-directory, stat result) in the order filepath.WalkDir hands
   them to walkFn, the walks of the scanned directories concatenated.  Font parsing (ot.NewLoaders +
   newFootprintFromLoader, with Location.File = path) is a Section function of the file's content id and path.
   Outside the model: walk errors passed to walkFn (SkipDir), os.Open failures in consume.  No proofs here. *)
From TV Require Export Lib.Bytes Lib.Res.

Definition e_stat := 30%nat.            (* os.Stat failed (dangling symbolic link): the walk is aborted *)

(* strings.HasSuffix *)
Definition has_suffix (s suf : list Z) : bool :=
  (zlen suf <=? zlen s) && list_Z_eqb (zskipn (zlen s - zlen suf) s) suf.

(* ignoreFontFile *)
Definition ignore_font_file (name : list Z) : bool :=
  match name with
  | [] => true
  | c :: _ =>
      if c =? 46 then true else                                     (* hidden file *)
      has_suffix name [46;101;110;99;46;103;122]                     (* .enc.gz *)
      || has_suffix name [46;97;102;109]                             (* .afm *)
      || has_suffix name [46;112;102;109]                            (* .pfm *)
      || has_suffix name [46;100;105;114]                            (* .dir *)
      || has_suffix name [46;115;99;97;108;101]                      (* .scale *)
      || has_suffix name [46;97;108;105;97;115]                      (* .alias *)
      || has_suffix name [46;112;99;102]                             (* .pcf *)
      || has_suffix name [46;112;99;102;46;103;122]                  (* .pcf.gz *)
      || has_suffix name [46;112;102;98]                             (* .pfb *)
  end.

Section Scan.
  Variable FP : Type.                                  (* a footprint *)
  Variable parse : Z -> list Z -> list FP.             (* content id -> path -> footprints found in the file *)

  (* fileFootprints *)
  Record entry := mkEntry { en_path : list Z; en_mt : Z; en_fps : list FP }.
  Definition sindex := list entry.

  (* one call of walkFn: path, d.IsDir(), and what os.Stat(path) answers (following symbolic links) *)
  Record wfile := mkW { w_path : list Z; w_isdir : bool; w_stat_ok : bool; w_name : list Z; w_mt : Z; w_cid : Z }.
  Definition walk := list wfile.

  (* previousIndex: a map filled by ranging over the current index; a later entry with the same path overwrites *)
  Fixpoint lookup_prev (prev : sindex) (p : list Z) : option entry :=
    match prev with
    | [] => None
    | e :: r => match lookup_prev r p with
                | Some x => Some x
                | None => if list_Z_eqb (en_path e) p then Some e else None
                end
    end.

  (* consume *)
  Definition fresh (w : wfile) : entry := mkEntry (w_path w) (w_mt w) (parse (w_cid w) (w_path w)).
  Definition consume (prev : sindex) (w : wfile) : entry :=
    match lookup_prev prev (w_path w) with
    | Some indexed => if en_mt indexed =? w_mt w then indexed else fresh w
    | None => fresh w
    end.

  Definition visited_mem (visited : list (list Z)) (p : list Z) : bool := existsb (fun q => list_Z_eqb q p) visited.

  (* walkFn over the whole walk; visited and dst are shared by the scanned directories *)
  Fixpoint scan_walk (prev : sindex) (ws : walk) (visited : list (list Z)) (dst : sindex) : res sindex :=
    match ws with
    | [] => Ok dst
    | w :: r =>
        if w_isdir w then scan_walk prev r visited dst
        else if visited_mem visited (w_path w) then scan_walk prev r visited dst
        else let visited := w_path w :: visited in
             if negb (w_stat_ok w) then Err e_stat
             else if ignore_font_file (w_name w) then scan_walk prev r visited dst
             else scan_walk prev r visited (dst ++ [consume prev w])
    end.

  (* scanFontFootprints(logger, currentIndex, dirs...) *)
  Definition scan (prev : sindex) (ws : walk) : res sindex := scan_walk prev ws [] [].
  Definition scratch (ws : walk) : res sindex := scan [] ws.

  (* refreshSystemFontsIndex, the cache file abstracted to the index it holds: a failed scan leaves the cache *)
  Definition refresh (cache : sindex) (ws : walk) : res sindex * sindex :=
    match scan cache ws with
    | Ok i => (Ok i, i)
    | r => (r, cache)
    end.
  (* a history: the walk of the directories at each refresh; results of all refreshes *)
  Fixpoint refresh_all (cache : sindex) (hist : list walk) : list (res sindex) :=
    match hist with
    | [] => []
    | ws :: r => let '(out, cache') := refresh cache ws in out :: refresh_all cache' r
    end.

  (* "a path whose content changed also changed its modification time", between the tree the cache was computed
     from and the current tree *)
  Definition honest (last ws : walk) : bool :=
    forallb (fun w => forallb (fun l => negb (list_Z_eqb (w_path l) (w_path w) && (w_mt l =? w_mt w)) || (w_cid l =? w_cid w)) last) ws.
  Fixpoint honest_history (last : walk) (hist : list walk) : bool :=
    match hist with
    | [] => true
    | ws :: r => honest last ws && honest_history (if is_ok (scratch ws) then ws else last) r
    end.
End Scan.
Arguments mkEntry {FP}.
Arguments en_path {FP}.
Arguments en_mt {FP}.
Arguments en_fps {FP}.
