(* Model of the font cache of shaping.HarfbuzzShaper (shaping/lru.go fontLRU, its use in
   shaping/shaping.go Shape, SetFontCacheSize).  No proofs here.

   Go                                    model
   *font.Face (pointer identity)         Z (the harness interns the pointers)
   *harfbuzz.Font                        hbfont, built by mk = harfbuzz.NewFont (Section variable)
   map m + doubly linked list            entries : list (key * value) from the least recently used
     tail <-> ... <-> head                 (tail.next) to the most recently used (head.prev);
                                           len(l.m) = length entries because Shape only calls Put
                                           after a failed Get (keys stay distinct: Proofs.Reuse)
   maxSize (int)                         Z (may be 0 or negative: nothing is kept)                *)
From TV Require Export Lib.GoNum.

Section ShaperCache.
  Variable hbfont : Type.
  Variable mk : Z -> hbfont.

  Record lru := mkLru { entries : list (Z * hbfont); max_size : Z }.

  (* the zero value of HarfbuzzShaper *)
  Definition lru_init : lru := mkLru [] 0.

  Fixpoint lookup (es : list (Z * hbfont)) (k : Z) : option hbfont :=
    match es with
    | [] => None
    | (k', v) :: r => if k' =? k then Some v else lookup r k
    end.
  Fixpoint remove_key (es : list (Z * hbfont)) (k : Z) : list (Z * hbfont) :=
    match es with
    | [] => []
    | (k', v) :: r => if k' =? k then r else (k', v) :: remove_key r k
    end.

  (* Get: on a hit the entry moves to the most recently used end *)
  Definition lru_get (l : lru) (k : Z) : option (hbfont * lru) :=
    match lookup (entries l) k with
    | Some v => Some (v, mkLru (remove_key (entries l) k ++ [(k, v)]) (max_size l))
    | None => None
    end.

  (* the eviction loop of Put: for len(l.m) > l.maxSize && len(l.m) > 0 { drop the oldest } *)
  Fixpoint evict (es : list (Z * hbfont)) (maxsz : Z) : list (Z * hbfont) :=
    match es with
    | [] => []
    | _ :: r => if zlen es >? maxsz then evict r maxsz else es
    end.

  (* Put of a key that is not cached (the only use in Shape) *)
  Definition lru_put (l : lru) (k : Z) (v : hbfont) : lru :=
    mkLru (evict (entries l ++ [(k, v)]) (max_size l)) (max_size l).

  (* the font part of Shape: returns the harfbuzz font handed to the engine *)
  Definition shape_font (l : lru) (face : Z) : lru * hbfont :=
    match lru_get l face with
    | Some (v, l') => (l', v)
    | None => let v := mk face in (lru_put l face v, v)
    end.

  Definition set_cache_size (l : lru) (n : Z) : lru := mkLru (entries l) n.

  Inductive op := Shape (face : Z) | SetFontCacheSize (n : Z).

  Definition step (l : lru) (o : op) : lru * option hbfont :=
    match o with
    | Shape f => let '(l', v) := shape_font l f in (l', Some v)
    | SetFontCacheSize n => (set_cache_size l n, None)
    end.

  (* the harfbuzz fonts used by the Shape operations of a history, in order *)
  Fixpoint run (l : lru) (ops : list op) : list hbfont :=
    match ops with
    | [] => []
    | o :: r => let '(l', a) := step l o in
                match a with Some v => v :: run l' r | None => run l' r end
    end.

  Definition final (l : lru) (ops : list op) : lru := fold_left (fun l o => fst (step l o)) ops l.

  (* per operation: the cache afterwards *)
  Fixpoint trace (l : lru) (ops : list op) : list lru :=
    match ops with
    | [] => []
    | o :: r => let l' := fst (step l o) in l' :: trace l' r
    end.

  (* was the Shape of this face a miss in state l ? *)
  Definition is_miss (l : lru) (face : Z) : bool :=
    match lookup (entries l) face with Some _ => false | None => true end.
End ShaperCache.

(* ------------------------------------------------------------------------------------------ *)
(* The unrepaired variants, kept for Findings/ (never used by Props):
   - key = the parsed font of the face (font_of face) instead of the face;
   - Put evicts at most one entry.                                                            *)
Section Unfixed.
  Variable hbfont : Type.
  Variable mk : Z -> hbfont.
  Variable font_of : Z -> Z.

  Definition shape_font_by_font (l : lru hbfont) (face : Z) : lru hbfont * hbfont :=
    match lru_get hbfont l (font_of face) with
    | Some (v, l') => (l', v)
    | None => let v := mk face in (lru_put hbfont l (font_of face) v, v)
    end.

  Definition evict_one (es : list (Z * hbfont)) (maxsz : Z) : list (Z * hbfont) :=
    match es with
    | [] => []
    | _ :: r => if zlen es >? maxsz then r else es
    end.
End Unfixed.
