(* Model of the glyph extents cache of font.Face (font/cache.go, font/font.go SetPpem/SetCoords,
   font/variations.go SetVariations).  No proofs here.

   Go                                   model
   extentsCache []glyphExtents          list (option extents): Some e = cell with valid = true
                                         (an invalid cell always holds the zero extents, which
                                         GlyphExtents never returns: not represented)
   GID (uint32)                         Z, 0 <= g
   glyphExtentsRaw(g) reading           raw g coords ppem : option extents (None = ok false);
     f.Font, f.coords, f.xPpem/yPpem     a Section variable: the parsed font is immutable
   NormalizeVariations / fvar defaults  norm : variations -> coords (Section variable)          *)
From TV Require Export Lib.GoNum.

Section FaceCache.
  Variables coords variations extents : Type.
  Variable raw : Z -> coords -> Z * Z -> option extents.
  Variable norm : variations -> coords.      (* SetVariations: nil for no variations / no fvar *)
  Variable nil_coords : coords.

  Record face := mkFace { f_cache : list (option extents); f_coords : coords; f_ppem : Z * Z }.

  (* NewFace: make(extentsCache, font.nGlyphs) *)
  Definition new_face (nglyphs : Z) : face :=
    mkFace (repeat None (Z.to_nat nglyphs)) nil_coords (0, 0).

  (* extentsCache.get: if int(gid) >= len(ec) { return {}, false }; ge := ec[gid] *)
  Definition cache_get (ec : list (option extents)) (g : Z) : option extents :=
    if g >=? zlen ec then None else nth (Z.to_nat g) ec None.

  Fixpoint upd {A} (l : list A) (i : nat) (x : A) : list A :=
    match l, i with
    | [], _ => []
    | _ :: r, O => x :: r
    | a :: r, S j => a :: upd r j x
    end.

  (* extentsCache.set *)
  Definition cache_set (ec : list (option extents)) (g : Z) (e : extents) : list (option extents) :=
    if g >=? zlen ec then ec else upd ec (Z.to_nat g) (Some e).

  (* extentsCache.reset: every cell becomes glyphExtents{} *)
  Definition cache_reset (ec : list (option extents)) : list (option extents) := map (fun _ => None) ec.

  Definition set_ppem (f : face) (x y : Z) : face := mkFace (cache_reset (f_cache f)) (f_coords f) (x, y).
  Definition set_coords (f : face) (c : coords) : face := mkFace (cache_reset (f_cache f)) c (f_ppem f).
  Definition set_variations (f : face) (v : variations) : face := set_coords f (norm v).

  (* Face.GlyphExtents *)
  Definition glyph_extents (f : face) (g : Z) : face * option extents :=
    match cache_get (f_cache f) g with
    | Some e => (f, Some e)
    | None =>
        match raw g (f_coords f) (f_ppem f) with
        | Some e => (mkFace (cache_set (f_cache f) g e) (f_coords f) (f_ppem f), Some e)
        | None => (f, None)
        end
    end.

  Inductive op :=
  | SetCoords (c : coords)
  | SetVariations (v : variations)
  | SetPpem (x y : Z)
  | GlyphExtents (g : Z).

  (* one operation; the answer is Some for GlyphExtents *)
  Definition step (f : face) (o : op) : face * option (option extents) :=
    match o with
    | SetCoords c => (set_coords f c, None)
    | SetVariations v => (set_variations f v, None)
    | SetPpem x y => (set_ppem f x y, None)
    | GlyphExtents g => let '(f', a) := glyph_extents f g in (f', Some a)
    end.

  (* answers of the GlyphExtents operations of a history, in order *)
  Fixpoint run (f : face) (ops : list op) : list (option extents) :=
    match ops with
    | [] => []
    | o :: r => let '(f', a) := step f o in
                match a with Some x => x :: run f' r | None => run f' r end
    end.

  (* the face after a history *)
  Definition final (f : face) (ops : list op) : face := fold_left (fun f o => fst (step f o)) ops f.

  (* glyph ids of the valid cells, ascending (what the hook VerifExtentsCache reports) *)
  Fixpoint valid_from (i : Z) (ec : list (option extents)) : list Z :=
    match ec with
    | [] => []
    | Some _ :: r => i :: valid_from (i + 1) r
    | None :: r => valid_from (i + 1) r
    end.
  Definition valid_gids (f : face) : list Z := valid_from 0 (f_cache f).

  (* per operation: answer (if any) and the valid cells afterwards *)
  Fixpoint trace (f : face) (ops : list op) : list (option (option extents) * list Z) :=
    match ops with
    | [] => []
    | o :: r => let '(f', a) := step f o in (a, valid_gids f') :: trace f' r
    end.
End FaceCache.
