(* Executable model of the hand-written core of harfbuzz/buffer.go (cluster and glyph-flag discipline) and of
   propagateFlags (ot_shaper.go).  No proofs here.
   A GlyphInfo is reduced to what these functions read or write: Cluster, the three defined glyph flags of Mask, the rest
   of Mask (Mask >> 3), codepoint and Glyph (only copied).  Pos is reduced to its length and capacity.
   Indices are Go `int` (Z).  Every index / slice expression is checked and yields Panic 1 when Go would panic; slice
   expressions that Go allows up to cap() are modelled with cap = len for Info/outInfo (the harness never relies on spare
   capacity there, the preconditions of the theorems exclude these cases). *)
From TV Require Export Lib.GoNum Lib.Res.

Record fl := mkFl { utb : bool; utc : bool; tat : bool }.   (* GlyphUnsafeToBreak, GlyphUnsafeToConcat, GlyphSafeToInsertTatweel *)
Definition fl0 : fl := mkFl false false false.
Definition fl_or (a b : fl) : fl := mkFl (utb a || utb b) (utc a || utc b) (tat a || tat b).
Definition fl_eqb (a b : fl) : bool := Bool.eqb (utb a) (utb b) && Bool.eqb (utc a) (utc b) && Bool.eqb (tat a) (tat b).

(* up = GlyphInfo.unicode (general category, ignorable / hidden / continuation bits, modified combining class), gp = glyphProps;
   the buffer core only copies them (they are read by sort's comparison and by the grapheme grouping of reverseGroups) *)
Record glyph := mkGX { cl : Z; gf : fl; rest : Z; cp : Z; gid : Z; up : Z; gp : Z }.
Definition mkG (c : Z) (f : fl) (r p g : Z) : glyph := mkGX c f r p g 0 0.
Definition g0 : glyph := mkG 0 fl0 0 0 0.      (* the zero GlyphInfo *)

Definition set_cl (g : glyph) (c : Z) : glyph := mkGX c (gf g) (rest g) (cp g) (gid g) (up g) (gp g).
Definition set_gf (g : glyph) (f : fl) : glyph := mkGX (cl g) f (rest g) (cp g) (gid g) (up g) (gp g).
Definition set_gid (g : glyph) (x : Z) : glyph := mkGX (cl g) (gf g) (rest g) (cp g) x (up g) (gp g).
Definition set_cp (g : glyph) (x : Z) : glyph := mkGX (cl g) (gf g) (rest g) x (gid g) (up g) (gp g).
Definition set_up (g : glyph) (x : Z) : glyph := mkGX (cl g) (gf g) (rest g) (cp g) (gid g) x (gp g).
Definition or_flags (m : fl) (g : glyph) : glyph := set_gf g (fl_or (gf g) m).   (* info.Mask |= mask *)

(* func (info *GlyphInfo) setCluster(cluster int, mask GlyphMask) *)
Definition set_cluster (c : Z) (m : fl) (g : glyph) : glyph :=
  if cl g =? c then g else mkGX c m (rest g) (cp g) (gid g) (up g) (gp g).

Record buffer := mkB {
  info : list glyph;       (* Info *)
  out : list glyph;        (* outInfo *)
  idx : Z;
  have_out : bool;         (* haveOutput *)
  pos_len : Z;             (* len(Pos) *)
  pos_cap : Z;             (* cap(Pos) *)
  level : Z;               (* ClusterLevel: 0 MonotoneGraphemes, 1 MonotoneCharacters, 2 Characters *)
  fl_concat : bool;        (* Flags & ProduceUnsafeToConcat *)
  fl_tatweel : bool;       (* Flags & ProduceSafeToInsertTatweel *)
  has_gf : bool            (* scratchFlags & bsfHasGlyphFlags *)
}.

Definition with_info (b : buffer) (x : list glyph) : buffer :=
  mkB x (out b) (idx b) (have_out b) (pos_len b) (pos_cap b) (level b) (fl_concat b) (fl_tatweel b) (has_gf b).
Definition with_out (b : buffer) (x : list glyph) : buffer :=
  mkB (info b) x (idx b) (have_out b) (pos_len b) (pos_cap b) (level b) (fl_concat b) (fl_tatweel b) (has_gf b).
Definition with_idx (b : buffer) (x : Z) : buffer :=
  mkB (info b) (out b) x (have_out b) (pos_len b) (pos_cap b) (level b) (fl_concat b) (fl_tatweel b) (has_gf b).
Definition with_have (b : buffer) (x : bool) : buffer :=
  mkB (info b) (out b) (idx b) x (pos_len b) (pos_cap b) (level b) (fl_concat b) (fl_tatweel b) (has_gf b).
Definition with_pos (b : buffer) (l c : Z) : buffer :=
  mkB (info b) (out b) (idx b) (have_out b) l c (level b) (fl_concat b) (fl_tatweel b) (has_gf b).
Definition with_gf (b : buffer) (x : bool) : buffer :=
  mkB (info b) (out b) (idx b) (have_out b) (pos_len b) (pos_cap b) (level b) (fl_concat b) (fl_tatweel b) x.

(* ---- slices ---- *)
Definition slice {A} (s e : Z) (l : list A) : list A := zfirstn (e - s) (zskipn s l).
Definition getg (l : list glyph) (i : Z) : res glyph :=
  if (0 <=? i) && (i <? zlen l) then Ok (nth (Z.to_nat i) l g0) else Panic 1.
(* apply f to the elements of [s, e); callers guarantee 0 <= s <= e <= len *)
Definition map_range (f : glyph -> glyph) (s e : Z) (l : list glyph) : list glyph :=
  zfirstn s l ++ map f (slice s e l) ++ zskipn e l.
Definition lastg (l : list glyph) : glyph := last l g0.

(* number of leading elements whose cluster is c / is not c *)
Fixpoint run_eq (c : Z) (l : list glyph) : Z :=
  match l with g :: r => if cl g =? c then 1 + run_eq c r else 0 | [] => 0 end.
Fixpoint run_ne (c : Z) (l : list glyph) : Z :=
  match l with g :: r => if cl g =? c then 0 else 1 + run_ne c r | [] => 0 end.
(* min of the clusters of l and d *)
Definition min_cl (d : Z) (l : list glyph) : Z := fold_right (fun g a => Z.min (cl g) a) d l.

Definition max_int : Z := 9223372036854775807.

(* ---- cursor movement and output ---- *)

(* nextGlyph *)
Definition next_glyph (b : buffer) : res buffer :=
  if have_out b then
    do g <- getg (info b) (idx b);
    Ok (with_idx (with_out b (out b ++ [g])) (idx b + 1))
  else Ok (with_idx b (idx b + 1)).

(* nextGlyphs(n) *)
Definition next_glyphs (b : buffer) (n : Z) : res buffer :=
  if have_out b then
    if (0 <=? idx b) && (0 <=? n) && (idx b + n <=? zlen (info b))
    then Ok (with_idx (with_out b (out b ++ slice (idx b) (idx b + n) (info b))) (idx b + n))
    else Panic 1
  else Ok (with_idx b (idx b + n)).

(* skipGlyph *)
Definition skip_glyph (b : buffer) : res buffer := Ok (with_idx b (idx b + 1)).

(* copyGlyph *)
Definition copy_glyph (b : buffer) : res buffer :=
  do g <- getg (info b) (idx b); Ok (with_out b (out b ++ [g])).

(* replaceGlyphIndex(g) *)
Definition replace_glyph_index (b : buffer) (g : Z) : res buffer :=
  do x <- getg (info b) (idx b);
  Ok (with_idx (with_out b (out b ++ [mkGX (cl x) (gf x) (rest x) (cp x) g (up x) (gp x)])) (idx b + 1)).

(* ---- glyph flags ---- *)

(* findMinCluster(infos, start, end, cluster) *)
Definition find_min_cluster (lv : Z) (infos : list glyph) (s e c : Z) : res Z :=
  if s =? e then Ok c
  else if lv =? 2 then
    if e <=? s then Ok c
    else if (0 <=? s) && (e <=? zlen infos) then Ok (min_cl c (slice s e infos)) else Panic 1
  else
    do a <- getg infos s; do z <- getg infos (e - 1);
    Ok (Z.min c (Z.min (cl a) (cl z))).

(* infosSetGlyphFlags(infos, start, end, cluster, mask): new infos and whether bsfHasGlyphFlags was set *)
Definition infos_set_glyph_flags (lv : Z) (infos : list glyph) (s e c : Z) (m : fl) : res (list glyph * bool) :=
  if s =? e then Ok (infos, false)
  else
    do a <- getg infos s; do z <- getg infos (e - 1);
    if e <=? s then Ok (infos, false)      (* all three loops are empty *)
    else if (lv =? 2) || (negb (c =? cl a) && negb (c =? cl z)) then
      Ok (map_range (fun g => if c =? cl g then g else or_flags m g) s e infos,
          existsb (fun g => negb (c =? cl g)) (slice s e infos))
    else if c =? cl a then
      let k := run_ne (cl a) (rev (slice s e infos)) in
      Ok (map_range (or_flags m) (e - k) e infos, 0 <? k)
    else
      let k := run_ne (cl z) (slice s e infos) in
      Ok (map_range (or_flags m) s (s + k) infos, 0 <? k).

(* mask |= over [s, e) with the Go loop `for i := s; i < e; i++ { x[i].Mask |= mask }` *)
Definition or_range (m : fl) (s e : Z) (l : list glyph) : res (list glyph) :=
  if e <=? s then Ok l
  else if (0 <=? s) && (e <=? zlen l) then Ok (map_range (or_flags m) s e l) else Panic 1.

(* setGlyphFlags(mask, start, end, interior, fromOutBuffer) *)
Definition set_glyph_flags (b : buffer) (m : fl) (s e0 : Z) (interior from_out : bool) : res buffer :=
  let e := Z.min e0 (zlen (info b)) in
  if interior && negb from_out && (e - s <? 2) then Ok b
  else
    let b := with_gf b true in
    if negb from_out || negb (have_out b) then
      if negb interior then
        do i' <- or_range m s e (info b); Ok (with_info b i')
      else
        do c <- find_min_cluster (level b) (info b) s e max_int;
        do r <- infos_set_glyph_flags (level b) (info b) s e c m;
        Ok (with_info b (fst r))
    else
      let ol := zlen (out b) in
      if negb interior then
        do o' <- or_range m s ol (out b);
        do i' <- or_range m (idx b) e (info b);
        Ok (with_info (with_out b o') i')
      else
        do c1 <- find_min_cluster (level b) (info b) (idx b) e max_int;
        do c <- find_min_cluster (level b) (out b) s ol c1;
        do ro <- infos_set_glyph_flags (level b) (out b) s ol c m;
        do ri <- infos_set_glyph_flags (level b) (info b) (idx b) e c m;
        Ok (with_info (with_out b (fst ro)) (fst ri)).

Definition m_break : fl := mkFl true true false.      (* GlyphUnsafeToBreak | GlyphUnsafeToConcat *)
Definition m_concat : fl := mkFl false true false.
Definition m_tatweel : fl := mkFl false false true.

Definition unsafe_to_break (b : buffer) (s e : Z) : res buffer := set_glyph_flags b m_break s e true false.
Definition safe_to_insert_tatweel (b : buffer) (s e : Z) : res buffer :=
  if negb (fl_tatweel b) then unsafe_to_break b s e else set_glyph_flags b m_tatweel s e true false.
Definition unsafe_to_concat (b : buffer) (s e : Z) : res buffer :=
  if negb (fl_concat b) then Ok b else set_glyph_flags b m_concat s e true false.
Definition unsafe_to_break_from_outbuffer (b : buffer) (s e : Z) : res buffer := set_glyph_flags b m_break s e true true.
Definition unsafe_to_concat_from_outbuffer (b : buffer) (s e : Z) : res buffer :=
  if negb (fl_concat b) then Ok b else set_glyph_flags b m_concat s e false true.

(* ---- clusters ---- *)

(* set_cluster on the last k elements *)
Definition set_cluster_last (k : Z) (c : Z) (m : fl) (l : list glyph) : list glyph :=
  map_range (set_cluster c m) (zlen l - k) (zlen l) l.

(* mergeClusters(start, end) *)
Definition merge_clusters (b : buffer) (s e : Z) : res buffer :=
  if e - s <? 2 then Ok b
  else if level b =? 2 then unsafe_to_break b s e
  else if negb ((0 <=? s) && (e <=? zlen (info b))) then Panic 1
  else
    let inf := info b in
    let c := min_cl (cl (nth (Z.to_nat s) inf g0)) (slice (s + 1) e inf) in
    let cend := cl (nth (Z.to_nat (e - 1)) inf g0) in
    let e' := if c =? cend then e else e + run_eq cend (zskipn e inf) in
    let cstart := cl (nth (Z.to_nat s) inf g0) in
    let s' := if c =? cstart then s else s - run_eq cstart (rev (slice (idx b) s inf)) in
    let startC := cl (nth (Z.to_nat s') inf g0) in
    let out' := if (idx b =? s') && negb (startC =? c)
                then set_cluster_last (run_eq startC (rev (out b))) c fl0 (out b) else out b in
    Ok (with_info (with_out b out') (map_range (set_cluster c fl0) s' e' inf)).

(* deleteGlyph *)
Definition delete_glyph (b : buffer) : res buffer :=
  do g <- getg (info b) (idx b);
  let c := cl g in
  let n := zlen (info b) in
  let L := zlen (out b) in
  let skip (b : buffer) := Ok (with_idx b (idx b + 1)) in
  if ((idx b + 1 <? n) && (c =? cl (nth (Z.to_nat (idx b + 1)) (info b) g0)))
     || (negb (L =? 0) && (c =? cl (lastg (out b)))) then skip b
  else if negb (L =? 0) then
    if c <? cl (lastg (out b)) then
      let oldC := cl (lastg (out b)) in
      skip (with_out b (set_cluster_last (run_eq oldC (rev (out b))) c (gf g) (out b)))
    else skip b
  else if idx b + 1 <? n then
    do b' <- merge_clusters b (idx b) (idx b + 2); skip b'
  else skip b.

(* deleteGlyphsInplace(filter): one iteration of `for i := range info`; state = buffer (Info is edited in place) and j *)
Definition dgi_step (filt : glyph -> bool) (n : Z) (st : res (buffer * Z)) (i : Z) : res (buffer * Z) :=
  do st' <- st;
  let '(b, j) := st' in
  let inf := info b in
  let g := nth (Z.to_nat i) inf g0 in
  if filt g then
    let c := cl g in
    if (i + 1 <? n) && (c =? cl (nth (Z.to_nat (i + 1)) inf g0)) then Ok (b, j)
    else if negb (j =? 0) then
      let pj := nth (Z.to_nat (j - 1)) inf g0 in
      if c <? cl pj then
        let oldC := cl pj in
        let k := run_eq oldC (rev (zfirstn j inf)) in
        Ok (with_info b (map_range (set_cluster c (gf g)) (j - k) j inf), j)
      else Ok (b, j)
    else if i + 1 <? n then
      do b' <- merge_clusters b i (i + 2); Ok (b', j)
    else Ok (b, j)
  else
    if j =? i then Ok (b, j + 1)
    else (* info[j] = info[i]; pos[j] = pos[i] only when i < len(pos) (content of Pos is not modelled) *)
      Ok (with_info b (zfirstn j inf ++ [g] ++ zskipn (j + 1) inf), j + 1).

Definition zseq (n : Z) : list Z := map Z.of_nat (seq 0 (Z.to_nat n)).

Definition delete_glyphs_inplace (filt : glyph -> bool) (b : buffer) : res buffer :=
  let n := zlen (info b) in
  do st <- fold_left (dgi_step filt n) (zseq n) (Ok (b, 0));
  let '(b', j) := st in
  (* Info = Info[:j]; Pos = Pos[:j] when j <= len(Pos) *)
  Ok (with_pos (with_info b' (zfirstn j (info b'))) (if j <=? pos_len b' then j else pos_len b') (pos_cap b')).

(* mergeOutClusters(start, end) *)
Definition merge_out_clusters (b : buffer) (s e : Z) : res buffer :=
  if level b =? 2 then Ok b
  else if e - s <? 2 then Ok b
  else if negb ((0 <=? s) && (e <=? zlen (out b))) then Panic 1
  else
    let o := out b in
    let c := min_cl (cl (nth (Z.to_nat s) o g0)) (slice (s + 1) e o) in
    let s' := s - run_eq (cl (nth (Z.to_nat s) o g0)) (rev (zfirstn s o)) in
    let e' := e + run_eq (cl (nth (Z.to_nat (e - 1)) o g0)) (zskipn e o) in
    if (e' =? zlen o) then
      if idx b <? 0 then (if idx b <? zlen (info b) then Panic 1 else Ok (with_out b (map_range (set_cluster c fl0) s' e' o)))
      else
      let endC := cl (nth (Z.to_nat (e' - 1)) o g0) in
      let k := run_eq endC (zskipn (idx b) (info b)) in
      Ok (with_out (with_info b (map_range (set_cluster c fl0) (idx b) (idx b + k) (info b)))
                   (map_range (set_cluster c fl0) s' e' o))
    else Ok (with_out b (map_range (set_cluster c fl0) s' e' o)).

(* ---- output management ---- *)

(* clearPositions *)
Definition clear_positions (b : buffer) : res buffer :=
  let L := zlen (info b) in
  Ok (with_pos (with_out (with_have b false) []) L (Z.max (pos_cap b) L)).
(* removeOutput(setOutput) / clearOutput *)
Definition remove_output (b : buffer) (set : bool) : res buffer := Ok (with_out (with_have b set) []).
Definition clear_output (b : buffer) : res buffer := Ok (with_idx (with_out (with_have b true) []) 0).

(* swapBuffers *)
Definition swap_buffers (b : buffer) : res buffer :=
  do b1 <- next_glyphs b (zlen (info b) - idx b);
  Ok (mkB (out b1) (info b1) 0 false (pos_len b1) (pos_cap b1) (level b1) (fl_concat b1) (fl_tatweel b1) (has_gf b1)).

(* shiftForward(count) *)
Definition shift_forward (b : buffer) (count : Z) : res buffer :=
  if (count <? 0) || (idx b <? 0) || (zlen (info b) <? idx b) then Panic 1
  else
    let a := info b ++ repeat g0 (Z.to_nat count) in
    Ok (with_idx (with_info b (zfirstn (idx b + count) a ++ zskipn (idx b) (info b))) (idx b + count)).

(* moveTo(i) *)
Definition move_to (b : buffer) (i : Z) : res buffer :=
  if negb (have_out b) then Ok (with_idx b i)
  else
    let outL := zlen (out b) in
    if outL <? i then
      let count := i - outL in
      if (0 <=? idx b) && (idx b + count <=? zlen (info b))
      then Ok (with_idx (with_out b (out b ++ slice (idx b) (idx b + count) (info b))) (idx b + count))
      else Panic 1
    else if i <? outL then
      if i <? 0 then Panic 1 else
      let count := outL - i in
      do b1 <- (if idx b <? count then shift_forward b (count - idx b) else Ok b);
      if (idx b1 <? count) || (zlen (info b1) <? idx b1) then Panic 1 else
      let ni := idx b1 - count in
      Ok (with_out (with_idx (with_info b1 (zfirstn ni (info b1) ++ zskipn i (out b1) ++ zskipn (ni + count) (info b1))) ni)
                   (zfirstn i (out b1)))
    else Ok b.

(* reverseRange(start, end); Pos[start:end] is reversed too when len(Pos) >= end (content of Pos is not modelled) *)
Definition reverse_range (b : buffer) (s e : Z) : res buffer :=
  if e - s <? 2 then Ok b
  else if negb ((0 <=? s) && (e <=? zlen (info b))) then Panic 1
  else Ok (with_info b (zfirstn s (info b) ++ rev (slice s e (info b)) ++ zskipn e (info b))).

(* Reverse *)
Definition reverse (b : buffer) : res buffer := reverse_range b 0 (zlen (info b)).

(* reverseClusters = reverseGroups(same cluster, mergeClusters = false) *)
Definition rg_step (st : res (buffer * Z)) (i : Z) : res (buffer * Z) :=
  do st' <- st;
  let '(b, start) := st' in
  if cl (nth (Z.to_nat (i - 1)) (info b) g0) =? cl (nth (Z.to_nat i) (info b) g0) then Ok (b, start)
  else do b' <- reverse_range b start i; Ok (b', i).
Definition reverse_clusters (b : buffer) : res buffer :=
  let count := zlen (info b) in
  if count =? 0 then Ok b
  else
    do st <- fold_left rg_step (map (fun i => i + 1) (zseq (count - 1))) (Ok (b, 0));
    let '(b1, start) := st in
    do b2 <- reverse_range b1 start count;
    reverse b2.

(* ---- AddRune / AddRunes (the buffer part; the context runes live in Model/Engine.v) ---- *)

(* cap(append(Pos, n zero positions)): unchanged while the elements fit, otherwise whatever the Go runtime chose
   (`newcap`, an input of the model; it must be at least the new length) *)
Definition grown_cap (b : buffer) (n newcap : Z) : Z := if pos_len b + n <=? pos_cap b then pos_cap b else newcap.

(* append(codepoint, cluster) = AddRune without the context reset *)
Definition add_rune (b : buffer) (r c newcap : Z) : res buffer :=
  Ok (with_pos (with_info b (info b ++ [mkG c fl0 0 r 0])) (pos_len b + 1) (grown_cap b 1 newcap)).

(* AddRunes(text, itemOffset, itemLength): the slice expression text[itemOffset : itemOffset+itemLength] panics outside
   0 <= itemOffset <= itemOffset+itemLength <= len(text) (cap(text) = len(text)); the cluster of a rune is its index *)
Definition add_runes_len (text : list Z) (off len0 : Z) : Z := if len0 <? 0 then zlen text - off else len0.
Definition add_runes (b : buffer) (text : list Z) (off len0 newcap : Z) : res buffer :=
  let len := add_runes_len text off len0 in
  if (0 <=? off) && (0 <=? len) && (off + len <=? zlen text) then
    Ok (with_pos (with_info b (info b ++ map (fun i => mkG (off + i) fl0 0 (nth (Z.to_nat (off + i)) text 0) 0) (zseq len)))
                 (pos_len b + len) (grown_cap b len newcap))
  else Panic 1.

(* ---- sort(start, end, compar): insertion sort that merges the clusters of what it moves over ---- *)

(* the inner loop `for j > start && compar(&Info[j-1], &Info[i]) > 0 { j-- }`, k = j - start *)
Fixpoint sort_find (cmp : glyph -> glyph -> Z) (inf : list glyph) (x : glyph) (s : Z) (k : nat) : Z :=
  match k with
  | O => s
  | S k' => if 0 <? cmp (nth (Z.to_nat (s + Z.of_nat k')) inf g0) x then sort_find cmp inf x s k' else s + Z.of_nat k
  end.

Definition sort_step (cmp : glyph -> glyph -> Z) (s : Z) (st : res buffer) (i : Z) : res buffer :=
  do b <- st;
  if negb ((0 <=? s) && (i <? zlen (info b))) then Panic 1
  else
    let j := sort_find cmp (info b) (nth (Z.to_nat i) (info b) g0) s (Z.to_nat (i - s)) in
    if j =? i then Ok b
    else
      do b' <- merge_clusters b j (i + 1);
      let inf := info b' in
      Ok (with_info b' (zfirstn j inf ++ [nth (Z.to_nat i) inf g0] ++ slice j i inf ++ zskipn (i + 1) inf)).

Definition sort_range (cmp : glyph -> glyph -> Z) (b : buffer) (s e : Z) : res buffer :=
  fold_left (sort_step cmp s) (map (fun k => s + 1 + k) (zseq (e - s - 1))) (Ok b).

(* unicode props: general category in the low 5 bits, continuation bit, modified combining class in the high byte *)
Definition gen_cat (g : glyph) : Z := Z.land (up g) 31.
Definition is_umark (g : glyph) : bool := (gen_cat g =? 10) || (gen_cat g =? 11) || (gen_cat g =? 12).  (* Mc, Me, Mn *)
Definition is_cont (g : glyph) : bool := Z.testbit (up g) 7.       (* upropsMaskContinuation *)
Definition mcc (g : glyph) : Z := if is_umark g then Z.shiftr (up g) 8 else 0.   (* getModifiedCombiningClass *)
(* compareCombiningClass *)
Definition cmp_ccc (a b : glyph) : Z := if mcc a <? mcc b then -1 else if mcc a =? mcc b then 0 else 1.

(* ---- reverseGroups(groupFunc, mergeClusters) ---- *)

Definition rgg_step (grp : glyph -> glyph -> bool) (merge : bool) (st : res (buffer * Z)) (i : Z) : res (buffer * Z) :=
  do st' <- st;
  let '(b, start) := st' in
  if grp (nth (Z.to_nat (i - 1)) (info b) g0) (nth (Z.to_nat i) (info b) g0) then Ok (b, start)
  else
    do b1 <- (if merge then merge_clusters b start i else Ok b);
    do b2 <- reverse_range b1 start i; Ok (b2, i).
Definition reverse_groups (grp : glyph -> glyph -> bool) (merge : bool) (b : buffer) : res buffer :=
  let count := zlen (info b) in
  if count =? 0 then Ok b
  else
    do st <- fold_left (rgg_step grp merge) (map (fun i => i + 1) (zseq (count - 1))) (Ok (b, 0));
    let '(b1, start) := st in
    do b1' <- (if merge then merge_clusters b1 start count else Ok b1);
    do b2 <- reverse_range b1' start count;
    reverse b2.
(* reverseGraphemes (ot_layout.go): groups = a glyph and the continuation glyphs after it *)
Definition reverse_graphemes (merge : bool) (b : buffer) : res buffer :=
  reverse_groups (fun _ g2 => is_cont g2) merge b.

(* ---- replaceGlyphs and friends ---- *)

Definition olen (o : option (list Z)) : Z := match o with Some l => zlen l | None => 0 end.
Definition oget (o : option (list Z)) (d : Z) (i : nat) : Z := match o with Some l => nth i l 0 | None => d end.

(* replaceGlyphs(numIn, codepoints, glyphs) *)
Definition replace_glyphs (b : buffer) (numIn : Z) (cps gids : option (list Z)) : res buffer :=
  do b1 <- merge_clusters b (idx b) (idx b + numIn);
  do orig <- (if idx b1 <? zlen (info b1) then getg (info b1) (idx b1)
              else if zlen (out b1) =? 0 then Panic 1 else Ok (lastg (out b1)));
  let L := Z.max (olen cps) (olen gids) in
  if (match cps with Some l => zlen l <? L | None => false end)
     || (match gids with Some l => zlen l <? L | None => false end) then Panic 1
  else
    let new := map (fun i => mkGX (cl orig) (gf orig) (rest orig) (oget cps (cp orig) i) (oget gids (gid orig) i) (up orig) (gp orig))
                   (seq 0 (Z.to_nat L)) in
    Ok (with_idx (with_out b1 (out b1 ++ new)) (idx b1 + numIn)).

Definition replace_glyph (b : buffer) (u : Z) : res buffer := replace_glyphs b 1 (Some [u]) None.
Definition output_rune (b : buffer) (r : Z) : res buffer := replace_glyphs b 0 (Some [r]) None.
Definition output_glyph_index (b : buffer) (g : Z) : res buffer := replace_glyphs b 0 None (Some [g]).

(* ---- propagateFlags (ot_shaper.go) ---- *)

Fixpoint span_eq (c : Z) (l : list glyph) : list glyph * list glyph :=
  match l with
  | g :: r => if cl g =? c then let '(a, z) := span_eq c r in (g :: a, z) else ([], l)
  | [] => ([], [])
  end.

Definition cluster_mask (flip clear : bool) (run : list glyph) : fl :=
  let m := fold_left (fun a g => fl_or a (gf g)) run fl0 in
  let m := if flip then
             let m1 := if utb m then mkFl (utb m) (utc m) false else m in
             if tat m1 then mkFl true true (tat m1) else m1
           else m in
  if clear then mkFl (utb m) false (tat m) else m.

(* the cluster iteration; fuel = number of glyphs *)
Fixpoint pf_loop (fuel : nat) (flip clear : bool) (l : list glyph) : res (list glyph) :=
  match l with
  | [] => Ok []
  | g :: r =>
    match fuel with
    | O => OutOfFuel
    | S f =>
      let '(a, z) := span_eq (cl g) r in
      let m := cluster_mask flip clear (g :: a) in
      do z' <- pf_loop f flip clear z;
      Ok (map (fun x => mkGX (cl x) m 0 (cp x) (gid x) (up x) (gp x)) (g :: a) ++ z')
    end
  end.

Definition propagate_flags (b : buffer) : res buffer :=
  if negb (has_gf b) then Ok b
  else do i' <- pf_loop (length (info b)) (fl_tatweel b) (negb (fl_concat b)) (info b); Ok (with_info b i').

(* ---- operations as data (what the harness and the fold_left theorem range over) ---- *)
Inductive op :=
| ONext | ONextN (n : Z) | OSkip | OCopy | OReplIdx (g : Z)
| OReplace (numIn : Z) (cps gids : option (list Z))
| ODelete | ODeleteInplace (below : Z)
| OMerge (s e : Z) | OMergeOut (s e : Z)
| OMoveTo (i : Z) | OShiftFwd (n : Z) | OSwap | OClearOut | ORemoveOut (set : bool) | OClearPos
| ORevRange (s e : Z) | OReverse | ORevClusters
| OSetFlags (m : fl) (s e : Z) (interior from_out : bool)
| OUnsafeBreak (s e : Z) | OUnsafeConcat (s e : Z) | OTatweel (s e : Z)
| OUnsafeBreakOut (s e : Z) | OUnsafeConcatOut (s e : Z)
| OPropagate
| OAddRune (r c newcap : Z) | OAddRunes (text : list Z) (off len newcap : Z)
| OSort (s e : Z) | ORevGraphemes (merge : bool).

Definition run_op (o : op) (b : buffer) : res buffer :=
  match o with
  | ONext => next_glyph b
  | ONextN n => next_glyphs b n
  | OSkip => skip_glyph b
  | OCopy => copy_glyph b
  | OReplIdx g => replace_glyph_index b g
  | OReplace n c g => replace_glyphs b n c g
  | ODelete => delete_glyph b
  | ODeleteInplace k => delete_glyphs_inplace (fun g => gid g <? k) b
  | OMerge s e => merge_clusters b s e
  | OMergeOut s e => merge_out_clusters b s e
  | OMoveTo i => move_to b i
  | OShiftFwd n => shift_forward b n
  | OSwap => swap_buffers b
  | OClearOut => clear_output b
  | ORemoveOut s => remove_output b s
  | OClearPos => clear_positions b
  | ORevRange s e => reverse_range b s e
  | OReverse => reverse b
  | ORevClusters => reverse_clusters b
  | OSetFlags m s e i f => set_glyph_flags b m s e i f
  | OUnsafeBreak s e => unsafe_to_break b s e
  | OUnsafeConcat s e => unsafe_to_concat b s e
  | OTatweel s e => safe_to_insert_tatweel b s e
  | OUnsafeBreakOut s e => unsafe_to_break_from_outbuffer b s e
  | OUnsafeConcatOut s e => unsafe_to_concat_from_outbuffer b s e
  | OPropagate => propagate_flags b
  | OAddRune r c k => add_rune b r c k
  | OAddRunes t off len k => add_runes b t off len k
  | OSort s e => sort_range cmp_ccc b s e
  | ORevGraphemes m => reverse_graphemes m b
  end.

(* a whole operation sequence *)
Definition run_ops (os : list op) (b : buffer) : res buffer :=
  fold_left (fun r o => do x <- r; run_op o x) os (Ok b).
