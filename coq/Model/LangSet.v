(* Hand-written model of fontscan/langset.go: LangSet ([8]uint64 bit set over the 9 low bits of a LangID), Add, Contains,
   newLangsetFromCoverage (for id, runes := range languagesRunes { if rs.includes(runes) { out.Add(LangID(id)) } }).
   No proofs here.  The table languagesRunes is a parameter; the Check file and the theorems instantiate it with
   Gen/C11Tables.v (regenerated from the library on every run). *)
From TV Require Export Lib.Bytes Lib.Res Model.RuneSet.

Definition LangSet := list Z.                        (* [8]uint64 *)
Definition ls_empty : LangSet := [0; 0; 0; 0; 0; 0; 0; 0].
(* page := (l & 0b111111111 >> 6): `&` and `>>` have the same precedence in Go and associate to the left *)
Definition ls_page (l : Z) : Z := Z.shiftr (Z.land l 511) 6.
Definition ls_bitpos (l : Z) : Z := Z.land l 63.
Definition ls_add (ls : LangSet) (l : Z) : LangSet :=
  zupd ls (ls_page l) (fun w => Z.lor w (wrap64 (Z.shiftl 1 (ls_bitpos l)))).
Definition ls_contains (ls : LangSet) (l : Z) : bool :=
  negb (Z.land (znth 0 ls (ls_page l)) (wrap64 (Z.shiftl 1 (ls_bitpos l))) =? 0).

Fixpoint langset_loop (rs : RuneSet) (tab : list RuneSet) (id : Z) (out : LangSet) : res LangSet :=
  match tab with
  | [] => Ok out
  | runes :: t => do b <- rsIncludes rs runes;
                  langset_loop rs t (id + 1) (if b then ls_add out (wrap16 id) else out)    (* LangID(id) : uint16 *)
  end.
Definition new_langset (tab : list RuneSet) (rs : RuneSet) : res LangSet := langset_loop rs tab 0 ls_empty.

(* the generated table as model values *)
Definition to_runeset (l : list (Z * list Z)) : RuneSet := map (fun p => mkPage (fst p) (snd p)) l.
