(* Executable model of fontscan.FontMap restricted to user-added fonts (C14).
   Follows fontscan/fontmap.go (AddFace/AddFont, SetQuery, SetScript, SetRuneCacheSize, buildCandidates,
   resolveForRune, ResolveFace, loadFont/cache), fontscan/lru.go (runeLRU), fontscan/match.go
   (selectByFamilyExact, selectByFamilyWithSubs, selectByFamiliesAndScript, Less/less, retainsBestMatches and
   its match*/filterBy* helpers, filterUserProvided) and font.Aspect.SetDefaults.  No proofs here.

   Conventions: families, scripts, runes, locations and faces are Z identifiers (the driver interns strings and
   pointers).  font.Weight is the Z value of the float32 (integers), font.Stretch is 8 * the float32 (multiples
   of 1/8; StretchNormal = 8): on these grids float32 comparison and subtraction are exact.
   Database indices are nat.  External functions are Section variables:
     hash seed families   maphash of the raw family strings under the seed drawn by Clear (ARBITRARY: no
                          injectivity is assumed anywhere, so collisions are covered),
     norm                 font.NormalizeFamily on identifiers,
     is_generic           isGenericFamily (tested by the code on the RAW family string),
     subst families lang  the familyCrible produced by fillWithSubstitutionsList on an empty crible
                          (normalized family -> (score, strong)), as an association list,
     script_lang          language.ScriptToLang (0 when absent),
     empty_fam            identifier of the empty family name "" (SetQuery replaces an empty list by [""]). *)
From TV Require Export Lib.GoNum Lib.Res.
Open Scope Z_scope.

Record aspect := mkAspect { a_style : Z; a_weight : Z; a_stretch : Z }.

(* font.Aspect.SetDefaults *)
Definition set_defaults (a : aspect) : aspect :=
  mkAspect (if a_style a =? 0 then 1 else a_style a)
           (if a_weight a =? 0 then 400 else a_weight a)
           (if a_stretch a =? 0 then 8 else a_stretch a).

Definition aspect_eqb (a b : aspect) : bool :=
  (a_style a =? a_style b) && (a_weight a =? a_weight b) && (a_stretch a =? a_stretch b).

Record footprint := mkFp {
  fp_loc : Z;              (* Location (File, Index, Instance) interned *)
  fp_family : Z;           (* normalized family *)
  fp_runes : list Z;       (* Runes, as the list of covered runes (of the universe under test) *)
  fp_scripts : list Z;     (* Scripts (increasing) *)
  fp_aspect : aspect;
  fp_user : bool;          (* isUserProvided *)
  fp_mono : bool;          (* isMonoHint(): "mono" occurs in the family *)
  fp_ttf : bool            (* isTruetypeHint(): extension of Location.File is .ttf/.ttc *)
}.

Fixpoint zmem (x : Z) (l : list Z) : bool :=
  match l with [] => false | y :: r => (x =? y) || zmem x r end.

Fixpoint zlist_eqb (a b : list Z) : bool :=
  match a, b with
  | [], [] => true
  | x :: a', y :: b' => (x =? y) && zlist_eqb a' b'
  | _, _ => false
  end.

(* ScriptSet.contains: linear search that stops at the first larger element *)
Fixpoint ss_contains (ss : list Z) (s : Z) : bool :=
  match ss with
  | [] => false
  | x :: r => if x >? s then false else if x =? s then true else ss_contains r s
  end.

(* ---------------------------------------------------------------------------------------------- *)
(* retainsBestMatches (match.go)                                                                    *)

(* fs[index] for every candidate; Go panics on the first index out of range *)
Fixpoint lookup_all (db : list footprint) (c : list nat) : res (list (nat * footprint)) :=
  match c with
  | [] => Ok []
  | i :: r => match nth_error db i with
              | Some fp => do l <- lookup_all db r; Ok ((i, fp) :: l)
              | None => Panic 1
              end
  end.

(* the loop of matchStretch; None = an exact match was found *)
Fixpoint stretch_loop (l : list Z) (q narrower wider : Z) : option (Z * Z) :=
  match l with
  | [] => Some (narrower, wider)
  | s :: r =>
      if s >? q then stretch_loop r q narrower (if (wider =? 0) || (s - q <? wider - q) then s else wider)
      else if s <? q then stretch_loop r q (if q - s <? q - narrower then s else narrower) wider
      else None
  end.
Definition match_stretch (l : list Z) (q : Z) : Z :=
  match stretch_loop l q 0 0 with
  | None => q
  | Some (narrower, wider) =>
      if q <=? 8 then (if negb (narrower =? 0) then narrower else wider)
      else (if negb (wider =? 0) then wider else narrower)
  end.

(* matchStyle: var crible [3]bool indexed by the candidate styles (panic when out of range), then a switch on
   the query (panic "should not happen" for any other value) *)
Definition match_style (l : list Z) (q : Z) : res Z :=
  if forallb (fun s => (0 <=? s) && (s <=? 2)) l then
    let has x := zmem x l in
    if q =? 1 then Ok (if has 1 then 1 else if has 2 then 2 else 2)
    else if q =? 2 then Ok (if has 2 then 2 else if has 2 then 2 else 1)
    else Panic 3
  else Panic 2.

Fixpoint weight_loop (l : list Z) (q fatter thinner : Z) : option (Z * Z) :=
  match l with
  | [] => Some (fatter, thinner)
  | w :: r =>
      if w >? q then weight_loop r q (if (fatter =? 0) || (w - q <? fatter - q) then w else fatter) thinner
      else if w <? q then weight_loop r q fatter (if q - w <? q - thinner then w else thinner)
      else None
  end.
Definition match_weight (l : list Z) (q : Z) : Z :=
  match weight_loop l q 0 0 with
  | None => q
  | Some (fatter, thinner) =>
      if (400 <=? q) && (q <=? 500) then
        (if negb (fatter =? 0) && (fatter <=? 500) then fatter else if negb (thinner =? 0) then thinner else fatter)
      else if q <? 400 then (if negb (thinner =? 0) then thinner else fatter)
      else (if negb (fatter =? 0) then fatter else thinner)
  end.

Definition retains_l (l : list (nat * footprint)) (query : aspect) : res (list (nat * footprint)) :=
  let q := set_defaults query in
  let st := match_stretch (map (fun x => a_stretch (fp_aspect (snd x))) l) (a_stretch q) in
  let l1 := filter (fun x => a_stretch (fp_aspect (snd x)) =? st) l in
  do sty <- match_style (map (fun x => a_style (fp_aspect (snd x))) l1) (a_style q);
  let l2 := filter (fun x => a_style (fp_aspect (snd x)) =? sty) l1 in
  let w := match_weight (map (fun x => a_weight (fp_aspect (snd x))) l2) (a_weight q) in
  Ok (filter (fun x => a_weight (fp_aspect (snd x)) =? w) l2).

Definition retains (db : list footprint) (c : list nat) (query : aspect) : res (list nat) :=
  do l <- lookup_all db c; do l' <- retains_l l query; Ok (map fst l').

(* ---------------------------------------------------------------------------------------------- *)
(* scoredFootprints: selection and stable sort                                                      *)

Record scored := mkScored { sc_idx : nat; sc_score : Z; sc_strong : bool; sc_fp : footprint }.

(* less(scorei, scorej, fpi, fpj) *)
Definition less0 (si sj : Z) (fi fj : footprint) : bool :=
  if si <? sj then true else if si >? sj then false
  else if fp_user fi && negb (fp_user fj) then true
  else if negb (fp_user fi) && fp_user fj then false
  else if negb (fp_mono fi) && fp_mono fj then true
  else if fp_mono fi && negb (fp_mono fj) then false
  else fp_ttf fi && negb (fp_ttf fj).

(* scoredFootprints.Less *)
Definition sf_less (script : Z) (a b : scored) : bool :=
  if sc_strong a && negb (sc_strong b) then true
  else if negb (sc_strong a) && sc_strong b then false
  else if sc_strong a then less0 (sc_score a) (sc_score b) (sc_fp a) (sc_fp b)
  else
    let ha := ss_contains (fp_scripts (sc_fp a)) script in
    let hb := ss_contains (fp_scripts (sc_fp b)) script in
    if ha && negb hb then true
    else if negb ha && hb then false
    else less0 (sc_score a) (sc_score b) (sc_fp a) (sc_fp b).

(* sort.Stable, modelled as insertion sort (Proofs: it is a stable sort, and for a strict weak order the
   stable sort result is unique) *)
Section Sort.
  Context {A : Type} (lt : A -> A -> bool).
  Fixpoint insert_sorted (x : A) (l : list A) : list A :=
    match l with
    | [] => [x]
    | y :: r => if lt y x then y :: insert_sorted x r else x :: y :: r
    end.
  Definition stable_sort (l : list A) : list A := fold_right insert_sorted [] l.
End Sort.

Definition max_int : Z := 9223372036854775807.

Fixpoint crible_get (c : list (Z * (Z * bool))) (f : Z) : option (Z * bool) :=
  match c with
  | [] => None
  | (g, v) :: r => if g =? f then Some v else crible_get r f
  end.

(* the loop of selectByFamiliesAndScript, from database index i *)
Fixpoint collect (c : list (Z * (Z * bool))) (script : Z) (i : nat) (db : list footprint) : list scored :=
  match db with
  | [] => []
  | fp :: r =>
      match crible_get c (fp_family fp) with
      | Some (s, st) => mkScored i s st fp :: collect c script (S i) r
      | None => if ss_contains (fp_scripts fp) script
                then mkScored i max_int false fp :: collect c script (S i) r
                else collect c script (S i) r
      end
  end.

Definition select_fs (db : list footprint) (c : list (Z * (Z * bool))) (script : Z) : list scored :=
  stable_sort (sf_less script) (collect c script 0%nat db).

Fixpoint take_family (fam : Z) (l : list scored) : list scored :=
  match l with
  | [] => []
  | x :: r => if fp_family (sc_fp x) =? fam then x :: take_family fam r else []
  end.

Fixpoint user_indices (i : nat) (db : list footprint) : list nat :=
  match db with
  | [] => []
  | fp :: r => if fp_user fp then i :: user_indices (S i) r else user_indices (S i) r
  end.

(* ---------------------------------------------------------------------------------------------- *)
(* runeLRU (lru.go)                                                                                 *)

Record key := mkKey { k_hash : Z; k_script : Z; k_aspect : aspect; k_rune : Z }.
Definition key_eqb (a b : key) : bool :=
  (k_hash a =? k_hash b) && (k_script a =? k_script b) && aspect_eqb (k_aspect a) (k_aspect b) && (k_rune a =? k_rune b).

(* e_id stands for the pointer identity of the *runeLRUEntry *)
Record entry := mkEntry { e_id : Z; e_key : key; e_fams : list Z; e_val : option Z }.

Record lru := mkLru {
  l_init : bool;                   (* m != nil *)
  l_map : list (key * entry);      (* m, keys unique *)
  l_list : list entry;             (* the linked list from tail.next (oldest) to head.prev (newest) *)
  l_max : Z;
  l_seed : Z;                      (* number of the maphash seed (a fresh one per Clear) *)
  l_next : Z                       (* allocation counter for e_id *)
}.

Fixpoint map_get (k : key) (m : list (key * entry)) : option entry :=
  match m with
  | [] => None
  | (k', e) :: r => if key_eqb k k' then Some e else map_get k r
  end.
Definition map_del (k : key) (m : list (key * entry)) : list (key * entry) :=
  filter (fun p => negb (key_eqb k (fst p))) m.
(* m[k] = e (the order of the association list is not observable: only lookups and len are used) *)
Definition map_set (k : key) (e : entry) (m : list (key * entry)) : list (key * entry) := (k, e) :: map_del k m.
Definition remove_id (id : Z) (l : list entry) : list entry :=
  filter (fun e => negb (e_id e =? id)) l.

Definition lru_clear (l : lru) : lru := mkLru true [] [] (l_max l) (l_seed l + 1) (l_next l).
Definition lru_do_init (l : lru) : lru := if l_init l then l else lru_clear l.

(* the eviction loop of Put: for len(l.m) > l.maxSize { oldest := l.tail.next; remove; delete }.
   With an empty list tail.next is the head sentinel whose next pointer is nil: remove(head) panics. *)
Fixpoint evict (m : list (key * entry)) (lst : list entry) (max : Z) : res (list (key * entry) * list entry) :=
  match lst with
  | [] => if zlen m >? max then Panic 4 else Ok (m, lst)
  | o :: rest => if zlen m >? max then evict (map_del (e_key o) m) rest max else Ok (m, lst)
  end.

Section FontMap.
  Variable hash : Z -> list Z -> Z.
  Variable norm : Z -> Z.
  Variable is_generic : Z -> bool.
  Variable subst : list Z -> Z -> list (Z * (Z * bool)).
  Variable script_lang : Z -> Z.
  Variable empty_fam : Z.

  Record query := mkQuery { q_fams : list Z; q_aspect : aspect }.

  (* KeyFor *)
  Definition key_for (l : lru) (q : query) (script r : Z) : lru * key :=
    let l' := lru_do_init l in
    (l', mkKey (hash (l_seed l') (q_fams q)) script (q_aspect q) r).

  (* Get: on a hit the entry is moved to the front of the list *)
  Definition lru_get (l : lru) (k : key) (q : query) : option (option Z * lru) :=
    match map_get k (l_map l) with
    | Some lt =>
        if zlist_eqb (e_fams lt) (q_fams q)
        then Some (e_val lt, mkLru (l_init l) (l_map l) (remove_id (e_id lt) (l_list l) ++ [lt]) (l_max l) (l_seed l) (l_next l))
        else None
    | None => None
    end.

  (* Put: the entry replaced in the map (same key, other families) is unlinked from the list first *)
  Definition lru_put (l0 : lru) (k : key) (q : query) (v : option Z) : res lru :=
    let l := lru_do_init l0 in
    let val := mkEntry (l_next l) k (q_fams q) v in
    let lst := match map_get k (l_map l) with Some old => remove_id (e_id old) (l_list l) | None => l_list l end in
    do ml <- evict (map_set k val (l_map l)) (lst ++ [val]) (l_max l);
    Ok (mkLru true (fst ml) (snd ml) (l_max l) (l_seed l) (l_next l + 1)).

  (* -------------------------------------------------------------------------------------------- *)
  (* candidates                                                                                    *)

  Record cands := mkCands { c_without : list nat; c_with : list nat; c_manual : list nat }.

  (* selectByFamilyExact *)
  Definition select_exact (db : list footprint) (family : Z) : list nat :=
    if is_generic family then
      let fps := select_fs db (subst [family] 0) 0 in
      match fps with
      | [] => []
      | x :: _ => map sc_idx (take_family (fp_family (sc_fp x)) fps)
      end
    else map sc_idx (select_fs db [(norm family, (0, true))] 0).

  (* selectByFamilyWithSubs *)
  Definition select_subs (db : list footprint) (fams : list Z) (script : Z) : list nat :=
    map sc_idx (select_fs db (subst fams (script_lang script)) script).

  (* first pass of buildCandidates *)
  Fixpoint pass_exact (db : list footprint) (fams : list Z) (a : aspect) : res (list nat) :=
    match fams with
    | [] => Ok []
    | f :: r =>
        match select_exact db f with
        | [] => pass_exact db r a
        | c =>
            do c' <- retains db c a;
            match c' with
            | [] => Panic 5                              (* candidates[0] *)
            | x :: _ => do rest <- pass_exact db r a; Ok (x :: rest)
            end
        end
    end.

  (* the three passes of buildCandidates as a function of database, query and script *)
  Definition compute_cands (db : list footprint) (q : query) (script : Z) : res cands :=
    do c1 <- pass_exact db (q_fams q) (q_aspect q);
    do c2 <- retains db (select_subs db (q_fams q) script) (q_aspect q);
    do c3 <- retains db (user_indices 0%nat db) (q_aspect q);
    Ok (mkCands c1 c2 c3).

  (* -------------------------------------------------------------------------------------------- *)
  (* FontMap                                                                                       *)

  Record fontmap := mkFm {
    fm_first : option Z;               (* firstFace *)
    fm_faces : list (Z * Z);           (* faceCache: location -> face (latest binding first) *)
    fm_db : list footprint;            (* database *)
    fm_smap : list (Z * list nat);     (* scriptMap *)
    fm_lru : lru;
    fm_built : bool;
    fm_cands : cands;
    fm_query : query;
    fm_script : Z
  }.

  (* NewFontMap *)
  Definition new_fontmap : fontmap :=
    mkFm None [] [] [] (mkLru false [] [] 4096 0 0) false (mkCands [] [] []) (mkQuery [] (mkAspect 0 0 0)) 0.

  Fixpoint assoc_z {B} (k : Z) (m : list (Z * B)) : option B :=
    match m with
    | [] => None
    | (k', v) :: r => if k =? k' then Some v else assoc_z k r
    end.

  Definition smap_get (s : Z) (m : list (Z * list nat)) : list nat :=
    match assoc_z s m with Some l => l | None => [] end.
  (* fm.scriptMap[script] = append(fm.scriptMap[script], idx) *)
  Fixpoint smap_append (s : Z) (i : nat) (m : list (Z * list nat)) : list (Z * list nat) :=
    match m with
    | [] => [(s, [i])]
    | (s', l) :: r => if s =? s' then (s', l ++ [i]) :: r else (s', l) :: smap_append s i r
    end.

  (* one face given to AddFace (or one face of the file given to AddFont): the description passed by the
     caller and what the implementation derives from the font itself (coverage, hints) *)
  Record added := mkAdded {
    ad_face : Z; ad_loc : Z;
    ad_family : Z;            (* md.Family, raw *)
    ad_aspect : aspect;       (* md.Aspect *)
    ad_runes : list Z; ad_scripts : list Z; ad_mono : bool; ad_ttf : bool
  }.

  (* newFootprintFromFont (with the defaults applied to the aspect, see the fix commit) *)
  Definition footprint_of (a : added) : footprint :=
    mkFp (ad_loc a) (norm (ad_family a)) (ad_runes a) (ad_scripts a) (set_defaults (ad_aspect a)) true (ad_mono a) (ad_ttf a).

  (* fm.cache(fp, face) followed by appendFootprints(fp) *)
  Definition add_one (fm : fontmap) (a : added) : fontmap :=
    let fp := footprint_of a in
    let idx := length (fm_db fm) in
    mkFm (match fm_first fm with None => Some (ad_face a) | f => f end)
         ((ad_loc a, ad_face a) :: fm_faces fm)
         (fm_db fm ++ [fp])
         (fold_left (fun m s => smap_append s idx m) (fp_scripts fp) (fm_smap fm))
         (fm_lru fm) (fm_built fm) (fm_cands fm) (fm_query fm) (fm_script fm).

  (* AddFace / AddFont: cache + append every face, then built = false and lru.Clear() *)
  Definition add_faces (fm : fontmap) (l : list added) : fontmap :=
    let fm' := fold_left add_one l fm in
    mkFm (fm_first fm') (fm_faces fm') (fm_db fm') (fm_smap fm') (lru_clear (fm_lru fm')) false
         (fm_cands fm') (fm_query fm') (fm_script fm').

  Definition set_query (fm : fontmap) (q : query) : fontmap :=
    let q' := match q_fams q with [] => mkQuery [empty_fam] (q_aspect q) | _ => q end in
    mkFm (fm_first fm) (fm_faces fm) (fm_db fm) (fm_smap fm) (fm_lru fm) false (fm_cands fm) q' (fm_script fm).

  Definition set_script (fm : fontmap) (s : Z) : fontmap :=
    mkFm (fm_first fm) (fm_faces fm) (fm_db fm) (fm_smap fm) (fm_lru fm) false (fm_cands fm) (fm_query fm) s.

  Definition set_cache_size (fm : fontmap) (n : Z) : fontmap :=
    let l := fm_lru fm in
    mkFm (fm_first fm) (fm_faces fm) (fm_db fm) (fm_smap fm)
         (mkLru (l_init l) (l_map l) (l_list l) n (l_seed l) (l_next l))
         (fm_built fm) (fm_cands fm) (fm_query fm) (fm_script fm).

  Definition with_lru (fm : fontmap) (l : lru) : fontmap :=
    mkFm (fm_first fm) (fm_faces fm) (fm_db fm) (fm_smap fm) l (fm_built fm) (fm_cands fm) (fm_query fm) (fm_script fm).

  (* buildCandidates *)
  Definition build_candidates (fm : fontmap) : res fontmap :=
    if fm_built fm then Ok fm
    else
      do c <- compute_cands (fm_db fm) (fm_query fm) (fm_script fm);
      Ok (mkFm (fm_first fm) (fm_faces fm) (fm_db fm) (fm_smap fm) (fm_lru fm) true c (fm_query fm) (fm_script fm)).

  (* resolveForRune; loadFont = faceCache lookup (a miss would go to the disk: out of scope, counted as a
     load failure, after which the loop continues) *)
  Fixpoint resolve_for_rune (db : list footprint) (faces : list (Z * Z)) (c : list nat) (r : Z) : res (option Z) :=
    match c with
    | [] => Ok None
    | i :: rest =>
        match nth_error db i with
        | None => Panic 6
        | Some fp =>
            if zmem r (fp_runes fp) then
              match assoc_z (fp_loc fp) faces with
              | Some face => Ok (Some face)
              | None => resolve_for_rune db faces rest r
              end
            else resolve_for_rune db faces rest r
        end
    end.

  (* the loop "return an arbitrary face" taken when firstFace is nil *)
  Fixpoint first_loadable (db : list footprint) (faces : list (Z * Z)) : option Z :=
    match db with
    | [] => None
    | fp :: r => match assoc_z (fp_loc fp) faces with Some f => Some f | None => first_loadable r faces end
    end.

  (* the body of ResolveFace after a cache miss (candidates built) *)
  Definition resolve_uncached (fm : fontmap) (r : Z) : res (option Z) :=
    let db := fm_db fm in let fc := fm_faces fm in
    do a <- resolve_for_rune db fc (c_without (fm_cands fm)) r;
    match a with Some f => Ok (Some f) | None =>
    do a <- resolve_for_rune db fc (c_with (fm_cands fm)) r;
    match a with Some f => Ok (Some f) | None =>
    do a <- resolve_for_rune db fc (c_manual (fm_cands fm)) r;
    match a with Some f => Ok (Some f) | None =>
    do a <- resolve_for_rune db fc (smap_get (fm_script fm) (fm_smap fm)) r;
    match a with Some f => Ok (Some f) | None =>
    match fm_first fm, db with
    | None, _ :: _ => match first_loadable db fc with Some f => Ok (Some f) | None => Ok None end
    | first, _ => Ok first
    end end end end end.

  (* ResolveFace *)
  Definition resolve_face (fm : fontmap) (r : Z) : res (fontmap * option Z) :=
    let (l1, k) := key_for (fm_lru fm) (fm_query fm) (fm_script fm) r in
    match lru_get l1 k (fm_query fm) with
    | Some (face, l2) => Ok (with_lru fm l2, face)
    | None =>
        do fm1 <- build_candidates (with_lru fm l1);
        do face <- resolve_uncached fm1 r;
        do l3 <- lru_put l1 k (fm_query fm) face;
        Ok (with_lru fm1 l3, face)
    end.

  Inductive op :=
  | OpAdd (l : list added)
  | OpSetQuery (q : query)
  | OpSetScript (s : Z)
  | OpCacheSize (n : Z)
  | OpResolve (r : Z).

  (* one operation; the observable is the face answered by ResolveFace *)
  Definition step (fm : fontmap) (o : op) : res (fontmap * option (option Z)) :=
    match o with
    | OpAdd l => Ok (add_faces fm l, None)
    | OpSetQuery q => Ok (set_query fm q, None)
    | OpSetScript s => Ok (set_script fm s, None)
    | OpCacheSize n => Ok (set_cache_size fm n, None)
    | OpResolve r => do x <- resolve_face fm r; Ok (fst x, Some (snd x))
    end.

  (* a sequence of operations; the answers of the ResolveFace calls in order *)
  Fixpoint run (fm : fontmap) (ops : list op) : res (fontmap * list (option Z)) :=
    match ops with
    | [] => Ok (fm, [])
    | o :: r =>
        do x <- step fm o;
        do y <- run (fst x) r;
        Ok (fst y, match snd x with Some a => a :: snd y | None => snd y end)
    end.
End FontMap.
