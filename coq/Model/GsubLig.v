(* Executable model of GSUB single substitution (format 2) and ligature substitution (ot_layout_gsub.go applyGSUB /
   applySubsLigature, ot_layout_gsubgpos.go matchInput / ligateInput / replaceGlyph / setGlyphClassExt) under the
   out-buffer lookup loop (ot_layout.go applyString / applyForward), over the zipper (done, todo) = (outInfo, Info[idx:]).
   Restrictions (the drivers stay inside them, the sweep covers the rest): cluster levels 0 and 1, no GDEF glyph classes,
   lookup flags within IgnoreBaseGlyphs | IgnoreLigatures | IgnoreMarks, ProduceUnsafeToConcat off, and ligProps are NOT
   modelled: the glyphs that can carry a ligature component number (marks and default ignorables skipped inside an earlier
   ligature) are never first glyph or component of a rule, so that the component checks of matchInput never fire.
   No proofs here. *)
From TV Require Export Model.EngineItem.

Record gsparams := mkGS {
  gs_flag : Z;                               (* lookup flag *)
  gs_mask : Z;                               (* lookup mask >> 3 *)
  gs_lig : bool;                             (* ligature subtable (else single substitution) *)
  gs_singles : list (Z * Z);                 (* glyph, substitute; first entry of a glyph wins *)
  gs_ligs : list (list Z * Z)                (* components (first = covered glyph), ligature glyph; in order of preference *)
}.

(* the input iterator of GSUB: ZWNJ not ignored, ZWJ ignored (autoZWJ), matchGlyph *)
Definition gs_match (P : gsparams) (g : Z) : item -> mres := match_glyph (gs_flag P) (gs_mask P) false true g.

(* matchInput: positions (in rest) of the components after the first *)
Fixpoint match_input (m : Z -> item -> mres) (comps : list Z) (rest : list item) (base : nat) : option (list nat) :=
  match comps with
  | [] => Some []
  | g :: cs =>
    match snext (m g) rest with
    | None => None
    | Some k => option_map (cons (base + k)%nat) (match_input m cs (skipn (S k) rest) (base + S k)%nat)
    end
  end.

(* setGlyphClassExt without GDEF classes: props = glyphProps | substituted (| ligated, & ^multiplied), class guess *)
Definition set_class (x : item) (guess : Z) (ligature : bool) : Z :=
  let props := Z.lor (gp (ig x)) 16 in
  let props := if ligature then Z.land (Z.lor props 32) (Z.lnot 64) else props in
  if guess =? 0 then props else Z.lor (Z.land props 112) guess.

Definition set_gp (g : glyph) (q : Z) : glyph := mkGX (cl g) (gf g) (rest g) (cp g) (gid g) (up g) q.

(* replaceGlyph(g) = setGlyphClass + replaceGlyphIndex *)
Definition replace_with (x : item) (g : Z) : item := with_g x (set_gid (set_gp (ig x) (set_class x 0 false)) g).

(* mergeClusters(idx, idx + n) with output in progress, cluster levels 0 and 1, n >= 2: window w = first n glyphs of todo *)
Definition merge_item (c : Z) (x : item) : item := with_g x (set_cluster c fl0 (ig x)).
Fixpoint run_eq_i (c : Z) (l : list item) : nat :=
  match l with x :: r => if icl x =? c then S (run_eq_i c r) else O | [] => O end.
Definition merge_zip (d t : list item) (n : nat) : list item * list item :=
  let w := firstn n t in
  let c := lminz (icls w) in
  let cend := icl (last w i0) in
  let cstart := icl (hd i0 w) in
  let e := if c =? cend then n else (n + run_eq_i cend (skipn n t))%nat in
  let d' := if c =? cstart then d
            else let k := run_eq_i cstart (rev d) in firstn (length d - k) d ++ map (merge_item c) (skipn (length d - k) d) in
  (d', map (merge_item c) (firstn e t) ++ skipn e t).

(* the flags a ligature glyph takes over from the components that share its (merged) cluster *)
Definition take_flags (x : item) (comps : list item) : item :=
  fold_left (fun a y => if icl y =? icl a then flag_item (gf (ig y)) a else a) comps x.

(* items of l whose index is not in ps *)
Fixpoint drop_at (ps : list nat) (l : list item) (i : nat) : list item :=
  match l with
  | [] => []
  | x :: r => if existsb (Nat.eqb i) ps then drop_at ps r (S i) else x :: drop_at ps r (S i)
  end.

(* ligateInput on todo = x :: rest with component positions ps (in rest), ligature glyph lg *)
Definition ligate (d : list item) (x : item) (rest : list item) (ps : list nat) (lg : Z) : list item * list item :=
  let n := S (S (last ps O)) in                       (* matchEnd - idx *)
  let '(d1, t1) := merge_zip d (x :: rest) n in
  let x1 := hd i0 t1 in
  let rest1 := tl t1 in
  let comps := map (fun k => nth k rest1 i0) ps in
  let x2 := take_flags x1 comps in
  let all_marks := forallb is_gmark comps in
  let is_base_lig := is_gbase x2 && all_marks in
  let is_mark_lig := is_gmark x2 && all_marks in
  let is_lig := negb is_base_lig && negb is_mark_lig in
  (* a non-spacing mark that becomes a ligature is recategorised as other letter *)
  let u := up (ig x2) in
  let u' := if is_lig && (Z.land u 31 =? 12) then Z.lor (Z.land u 224) 7 else u in
  let g2 := set_up (ig x2) u' in
  let x3 := with_g x2 (set_gid (set_gp g2 (set_class x2 (if is_lig then 4 else 0) true)) lg) in
  (d1 ++ [x3] ++ drop_at ps (firstn (n - 1) rest1) O, skipn (n - 1) rest1).

(* applySubsLigature: the first ligature of the set that matches *)
Fixpoint try_ligs (P : gsparams) (d : list item) (x : item) (rest : list item) (ligs : list (list Z * Z))
  : option (list item * list item) :=
  match ligs with
  | [] => None
  | (comps, lg) :: more =>
    match comps with
    | [] => try_ligs P d x rest more
    | first :: cs =>
      if negb (first =? igid x) then try_ligs P d x rest more
      else match cs with
           | [] => Some (d ++ [replace_with x lg], rest)
           | _ => match match_input (gs_match P) cs rest O with
                  | Some ps => Some (ligate d x rest ps lg)
                  | None => try_ligs P d x rest more
                  end
           end
    end
  end.

(* one iteration of applyForward *)
Definition gs_step (P : gsparams) (d t : list item) : list item * list item :=
  match t with
  | [] => (d, [])
  | x :: rest =>
    let next := (d ++ [x], rest) in
    if negb (has_mask (gs_mask P) x && check_prop (gs_flag P) x) then next
    else if gs_lig P then
      match try_ligs P d x rest (gs_ligs P) with Some r => r | None => next end
    else
      match find (fun e => fst e =? igid x) (gs_singles P) with
      | Some e => (d ++ [replace_with x (snd e)], rest)
      | None => next
      end
  end.

Fixpoint gs_loop (P : gsparams) (fuel : nat) (d t : list item) : list item :=
  match fuel with
  | O => d ++ t
  | S f => match t with
           | [] => d
           | _ => let '(d', t') := gs_step P d t in gs_loop P f d' t'
           end
  end.

Definition gs_lookup (l : list item) (P : gsparams) : list item :=
  if (gs_mask P =? 0) || (match l with [] => true | _ => false end) then l else gs_loop P (length l) [] l.

Definition gs_run (Ps : list gsparams) (l : list item) : list item := fold_left gs_lookup Ps l.

(* the pass of the cut theorem, no context *)
Definition gs_pass (P : gsparams) : @pass item unit :=
  mkPass (fun _ _ d t => gs_step P d t) (fun _ => tt) (fun _ => tt).
