(* Executable model (second part of C20) of
     language.ParseScript / Script.String                                  (language/scripts.go)
     unicodedata.LookupVerticalOrientation / ScriptVerticalOrientation.Orientation   (unicodedata/unicode.go)
     harfbuzz  uni.generalCategory, getJoiningType, indicGetCategories, getUSECategory,
               uni.modifiedCombiningClass, uni.isExtendedPictographic     (harfbuzz/unicode.go, ot_arabic.go,
                                                                            ot_indic_table.go, ot_use_table.go)
   over the tables regenerated in Gen/ShapeTables.v.  No proofs here.  Strings are lists of bytes. *)
From TV Require Export Lib.GoNum Lib.Res Lib.Bytes Model.Unicode.
From TV Require Export Gen.ShapeTables Gen.HangulCode.

(* ---------------------------------------------------------------------------------------------- *)
(* language.ParseScript / Script.String *)

Definition script_mask : Z := 536870912.              (* const mask uint32 = 0x20000000 *)
Definition script_not_mask : Z := 4294967295 - script_mask.   (* ^mask on a uint32 *)
Definition script_lower : Z := 2105376.               (* 0x00202020 *)

(* the case normalisation `s & ^mask | 0x00202020` on a uint32 *)
Definition script_normalise (v : Z) : Z := Z.lor (Z.land v script_not_mask) script_lower.

(* ParseScript: Err 1 = "invalid script string"; binary.BigEndian.Uint32 reads the first four bytes *)
Definition parse_script (s : list Z) : res Z :=
  if zlen s <? 4 then Err 1 else Ok (script_normalise (get32 s)).

(* Script.String: the four bytes of the tag, big endian *)
Definition script_string (s : Z) : list Z := put32 s.

(* ---------------------------------------------------------------------------------------------- *)
(* vertical orientation *)

Definition vo_entry := (Z * bool * option rtab)%type.      (* script, isMainSideways, exceptions (None = nil) *)
Definition vo_script (e : vo_entry) : Z := fst (fst e).
Definition vo_main (e : vo_entry) : bool := snd (fst e).
Definition vo_exc (e : vo_entry) : option rtab := snd e.

(* LookupVerticalOrientation: first entry of the table for the script, else "all other scripts have full R" *)
Fixpoint lookup_vo_in (t : list vo_entry) (s : Z) : vo_entry :=
  match t with
  | [] => (s, true, None)
  | e :: rest => if vo_script e =? s then e else lookup_vo_in rest s
  end.
Definition lookup_vo (s : Z) : vo_entry := lookup_vo_in vo_table s.

(* ScriptVerticalOrientation.Orientation *)
Definition vo_orientation (e : vo_entry) (r : Z) : res bool :=
  match vo_exc e with
  | None => Ok (vo_main e)
  | Some t => do b <- unicode_is t r; Ok (if negb b then vo_main e else negb (vo_main e))
  end.

(* ---------------------------------------------------------------------------------------------- *)
(* harfbuzz: uni.generalCategory scans generalCategories (nil skipped), default `unassigned` *)

Definition hb_gc_tabs : list stab := Eval vm_compute in split_order hb_generalCategories_order.
Definition hb_general_category (r : Z) : res Z :=
  do c <- lookup_first hb_gc_tabs r;
  Ok (match c with Some i => Z.of_nat i | None => hb_gc_unassigned end).

(* uni.isExtendedPictographic *)
Definition hb_is_extended_pictographic (r : Z) : res bool := unicode_is ut_Extended_Pictographic r.

(* ---------------------------------------------------------------------------------------------- *)
(* harfbuzz: getJoiningType(u, genCat) *)

(* `1<<genCat & mask != 0` with genCat a uint8 and the shift evaluated on an int (64 bits) *)
Definition joining_mask : Z :=
  Z.lor (Z.lor (Z.shiftl 1 hb_gc_nonSpacingMark) (Z.shiftl 1 hb_gc_enclosingMark)) (Z.shiftl 1 hb_gc_format).
Definition joining_fallback (gc : Z) : Z :=
  if negb (Z.land (wrap64 (Z.shiftl 1 gc)) joining_mask =? 0) then hb_joiningTypeT else hb_joiningTypeU.

(* the switch on the table value; a value outside the eight cases falls through to the fallback *)
Definition joining_of_byte (j : Z) : option Z :=
  if j =? hb_ajU then Some hb_joiningTypeU
  else if j =? hb_ajL then Some hb_joiningTypeL
  else if j =? hb_ajR then Some hb_joiningTypeR
  else if j =? hb_ajD then Some hb_joiningTypeD
  else if j =? hb_ajAlaph then Some hb_joiningGroupAlaph
  else if j =? hb_ajDalathRish then Some hb_joiningGroupDalathRish
  else if j =? hb_ajT then Some hb_joiningTypeT
  else if j =? hb_ajC then Some hb_joiningTypeC
  else None.

Definition get_joining_type_in (tab : list (Z * Z)) (u gc : Z) : Z :=
  match assoc u tab with
  | Some j => match joining_of_byte j with Some t => t | None => joining_fallback gc end
  | None => joining_fallback gc
  end.
Definition get_joining_type (u gc : Z) : Z := get_joining_type_in arabic_joinings u gc.

(* what applyArabicJoining computes for a code point: getJoiningType(u, uni.generalCategory(u)) *)
Definition arabic_joining_type (u : Z) : res Z :=
  do gc <- hb_general_category u; Ok (get_joining_type u gc).

(* ---------------------------------------------------------------------------------------------- *)
(* harfbuzz: indicGetCategories / getUSECategory:
     switch u >> shift { case page: if u == X {return V} ... if LO <= u && u <= HI {return table[u-SUB+OFF]} ... }
     return default *)

Definition clause := (Z * Z * Z * Z * Z)%type.      (* kind, lo, hi, sub, off *)
Definition c_kind (c : clause) : Z := fst (fst (fst (fst c))).
Definition c_lo (c : clause) : Z := snd (fst (fst (fst c))).
Definition c_hi (c : clause) : Z := snd (fst (fst c)).
Definition c_sub (c : clause) : Z := snd (fst c).
Definition c_off (c : clause) : Z := snd c.

(* the guard of a clause *)
Definition clause_covers (c : clause) (u : Z) : bool :=
  if c_kind c =? 0 then u =? c_lo c else (c_lo c <=? u) && (u <=? c_hi c).
(* the value a clause returns: a constant, or the table entry at int32(u - sub + off); an index outside
   the table is Go's index-out-of-range panic *)
Definition clause_value (table : list Z) (c : clause) (u : Z) : res Z :=
  if c_kind c =? 0 then Ok (c_off c)
  else let i := sint32 (sint32 (u - c_sub c) + c_off c) in
       if (0 <=? i) && (i <? zlen table) then Ok (znth 0 table i) else Panic 1.

Fixpoint run_clauses (table : list Z) (cl : list clause) (u : Z) : option (res Z) :=
  match cl with
  | [] => None
  | c :: rest => if clause_covers c u then Some (clause_value table c u) else run_clauses table rest u
  end.

Definition paged_lookup (shift : Z) (pages : list (Z * list clause)) (table : list Z) (dflt : Z) (u : Z) : res Z :=
  match assoc (Z.shiftr u shift) pages with
  | Some cl => match run_clauses table cl u with Some r => r | None => Ok dflt end
  | None => Ok dflt
  end.

Definition indic_get_categories (u : Z) : res Z := paged_lookup indic_shift indic_pages indic_table indic_default u.
Definition get_use_category (u : Z) : res Z := paged_lookup use_shift use_pages use_table use_default u.

(* ---------------------------------------------------------------------------------------------- *)
(* harfbuzz: uni.modifiedCombiningClass *)

Definition modified_combining_class (u : Z) : res Z :=
  if u =? 6752 then Ok 254            (* U+1A60 SAKOT *)
  else if u =? 4038 then Ok 254       (* U+0FC6 PADMA *)
  else if u =? 3897 then Ok 127       (* U+0F39 TSA -PHRU *)
  else do c <- lookup_combining_class u; Ok (znth 0 modified_ccc c).

(* ---------------------------------------------------------------------------------------------- *)
(* unicodedata.Decompose / Compose over the Hangul functions translated from the source on every run
   (Gen/HangulCode.v: decompose_hangul_src, compose_hangul_src), so that the bounds are the code's *)

Definition decompose_code (ab : Z) : Z * Z * bool :=
  match decompose_hangul_src ab with
  | (a, b, true) => (a, b, true)
  | _ =>
    match assoc ab decompose1_pairs with
    | Some m1 => (m1, 0, true)
    | None =>
      match assoc ab decompose2_pairs with
      | Some (x, y) => (x, y, true)
      | None => (ab, 0, false)
      end
    end
  end.

Definition compose_code (a b : Z) : Z * bool :=
  match compose_hangul_src a b with
  | (ab, true) => (ab, true)
  | _ => let u := match assoc2 a b compose_pairs with Some u => u | None => 0 end in (u, negb (u =? 0))
  end.
