(* C17 — the vocabulary of the write-effect facts that go/cmd/effects extracts from the Go source
   (Gen/Effects.v is data over these types; the rules are in Spec/Effects.v). *)
From Coq Require Import String List ZArith.
Import ListNotations.

(* how the target is written / exposed *)
Inductive ekind :=
| KAssign        (* x = v, also range-assignment *)
| KOpAssign      (* x op= v *)
| KIncDec        (* x++ / x-- *)
| KCopy          (* copy(x, ..) *)
| KDelete        (* delete(x, k) *)
| KClear         (* clear(x) *)
| KAppend        (* append(x, ..): may write into the spare capacity of x *)
| KAddrOf        (* &x *)
| KSliceOfArray  (* x[:] of an array: a reference to the array's storage *)
| KMethodAddr.   (* pointer-receiver method called on an addressable value: implicit &x *)

(* classification computed by the extractor (go/cmd/effects/main.go, header comment) *)
Inductive eclass :=
(* package-level targets *)
| CInInit        (* inside func init() *)
| COnce          (* inside a closure passed to (sync.Once).Do *)
| CSync          (* method call on a variable whose type is from sync or sync/atomic *)
| CReadOnlyAddr  (* address of a never-assigned variable whose type holds no reference at all *)
| CAddrTaken     (* any other address-taking *)
| CPlain         (* any other write *)
(* targets inside a type reachable from font.Font, reached through a reference; by root of the path *)
| CRecv | CParam | CLocal | CExpr
| CFresh.        (* root is a local whose every definition is a fresh allocation *)

Record effect := mkEffect {
  e_file : string;    (* path relative to the repository root *)
  e_line : Z;
  e_var : string;     (* package_writes: the package variable (pkg.name); font_writes: root identifier *)
  e_func : string;    (* enclosing function, pkg[.Receiver].name *)
  e_kind : ekind;
  e_class : eclass;
  e_owner : string;   (* package_writes: type of the variable; font_writes: the reachable type written through *)
  e_expr : string     (* shape of the target expression *)
}.
