(* Executable model of GSUB multiple substitution (lookup type 2: ot_layout_gsub.go applyGSUB case tables.MultipleSubs ->
   applySubsSequence; buffer.go deleteGlyph / mergeClusters / outputGlyphIndex (replaceGlyphs(0, nil, [g])) / skipGlyph;
   ot_layout_gsubgpos.go setGlyphClassExt / replaceGlyph; glyph.go setLigPropsForMark / getLigID / setCluster) under the
   out-buffer lookup loop (ot_layout.go applyString / applyForward), over the zipper (done, todo) = (outInfo, Info[idx:]).
     sequence of 1 glyph : replaceGlyph (in place, not "multiplied");
     sequence of n >= 2  : n copies of the current glyph (cluster, mask, glyph flags, unicode props inherited), each with
                           glyphProps | substituted | multiplied (a ligature glyph becomes a base glyph), glyph id seq[i],
                           and ligProps = i (component number) unless the glyph belongs to a ligature (ligID <> 0);
     empty sequence      : the glyph flags of the deleted glyph are handed over to the next glyph when it shares the
                           cluster, else to the last out-buffer glyph when that one shares it; then deleteGlyph: when the
                           cluster does not survive it is merged backward (the trailing run of the out-buffer takes the
                           smaller cluster value and the mask of the deleted glyph) or, with an empty out-buffer, forward
                           (mergeClusters(idx, idx+2)).
   Restrictions (the driver stays inside them): cluster levels 0 and 1, no GDEF glyph classes, lookup flags within
   IgnoreBaseGlyphs | IgnoreLigatures | IgnoreMarks, one subtable per lookup.  ligProps ARE modelled here.
   No proofs here. *)
From TV Require Export Model.GsubLig.

Record gmparams := mkGM {
  gm_flag : Z;                               (* lookup flag *)
  gm_mask : Z;                               (* lookup mask >> 3 *)
  gm_seqs : list (Z * list Z)                (* glyph, substitute sequence; first entry of a glyph wins *)
}.

(* setGlyphClassExt(g, klass, ligature = false, component = true) without GDEF classes; klass = GPBaseGlyph when the
   current glyph is a ligature *)
Definition multi_props (x : item) : Z :=
  let props := Z.lor (Z.lor (gp (ig x)) 16) 64 in
  if is_glig x then Z.lor (Z.land props 112) 2 else props.

(* the i-th output glyph of a sequence of at least two glyphs *)
Definition multi_one (x : item) (i : nat) (g : Z) : item :=
  mkI (set_gid (set_gp (ig x) (multi_props x)) g)
      (if lig_id x =? 0 then Z.land (Z.of_nat i) 15 else ilig x)
      (ip x).

Fixpoint multi_out (x : item) (i : nat) (seq : list Z) : list item :=
  match seq with
  | [] => []
  | g :: r => multi_one x i g :: multi_out x (S i) r
  end.

(* x.Mask & glyphFlagDefined != 0 *)
Definition has_flags (x : item) : bool := let f := gf (ig x) in utb f || utc f || tat f.

(* apply f to the last element *)
Definition on_last (f : item -> item) (l : list item) : list item :=
  match rev l with
  | [] => []
  | z :: r => rev r ++ [f z]
  end.

(* the empty sequence: hand-over of the flags, then deleteGlyph *)
Definition delete_cur (d : list item) (x : item) (rest : list item) : list item * list item :=
  let c := icl x in
  let next_same := match rest with y :: _ => icl y =? c | [] => false end in
  let prev_same := match rev d with z :: _ => icl z =? c | [] => false end in
  (* applySubsSequence: flags != 0 *)
  let '(d1, rest1) :=
    if has_flags x then
      if next_same then (d, match rest with y :: r => flag_item (gf (ig x)) y :: r | [] => [] end)
      else if prev_same then (on_last (flag_item (gf (ig x))) d, rest)
      else (d, rest)
    else (d, rest) in
  (* deleteGlyph *)
  if next_same || prev_same then (d1, rest1)
  else match rev d1 with
       | z :: _ =>
         if c <? icl z then
           let k := run_eq_i (icl z) (rev d1) in
           (firstn (length d1 - k) d1 ++ map (fun y => with_g y (set_cluster c (gf (ig x)) (ig y))) (skipn (length d1 - k) d1), rest1)
         else (d1, rest1)
       | [] =>
         match rest1 with
         | _ :: _ => let '(d2, t2) := merge_zip d1 (x :: rest1) 2 in (d2, tl t2)
         | [] => (d1, rest1)
         end
       end.

(* one iteration of applyForward *)
Definition gm_step (P : gmparams) (d t : list item) : list item * list item :=
  match t with
  | [] => (d, [])
  | x :: rest =>
    let next := (d ++ [x], rest) in
    if negb (has_mask (gm_mask P) x && check_prop (gm_flag P) x) then next
    else match find (fun e => fst e =? igid x) (gm_seqs P) with
         | None => next
         | Some e =>
           match snd e with
           | [] => delete_cur d x rest
           | [g] => (d ++ [replace_with x g], rest)
           | seq => (d ++ multi_out x O seq, rest)
           end
         end
  end.

Fixpoint gm_loop (P : gmparams) (fuel : nat) (d t : list item) : list item :=
  match fuel with
  | O => d ++ t
  | S f => match t with
           | [] => d
           | _ => let '(d', t') := gm_step P d t in gm_loop P f d' t'
           end
  end.

Definition gm_lookup (l : list item) (P : gmparams) : list item :=
  if (gm_mask P =? 0) || (match l with [] => true | _ => false end) then l else gm_loop P (length l) [] l.

Definition gm_run (Ps : list gmparams) (l : list item) : list item := fold_left gm_lookup Ps l.

(* the pass of the cut theorem, no context *)
Definition gm_pass (P : gmparams) : @pass item unit :=
  mkPass (fun _ _ d t => gm_step P d t) (fun _ => tt) (fun _ => tt).
