(* Model of the geometry bookkeeping of shaping.Output:
   shaping/output.go   RecomputeAdvance, advanceSpaceAware, RecalculateAll, sideways
   shaping/spacing.go  AddWordSpacing, AddLetterSpacing, trimStartLetterSpacing, AddSpacing
   fixed.Int26_6 = Z (1/64 px; the methods only add, subtract, halve and compare, and the values of a run stay far
   inside int32), Go int = Z.  GlyphID and Mask are only copied and are left out. *)
From TV Require Export Lib.GoNum Lib.Res.

Record glyph := mkGlyph {
  g_width : Z; g_height : Z; g_xbearing : Z; g_ybearing : Z;
  g_xadv : Z; g_yadv : Z; g_xoff : Z; g_yoff : Z;
  g_cluster : Z; g_runes : Z; g_glyphs : Z;     (* ClusterIndex, RuneCount, GlyphCount *)
  g_startls : Z; g_endls : Z                    (* startLetterSpacing, endLetterSpacing *)
}.

Record bounds := mkBounds { b_ascent : Z; b_descent : Z; b_gap : Z }.

Record output := mkOut {
  o_adv : Z;               (* Advance *)
  o_glyphs : list glyph;   (* Glyphs *)
  o_gbounds : bounds;      (* GlyphBounds *)
  o_dir : Z                (* Direction (di.Direction bit set) *)
}.

(* di.Direction: bit 0 progression, bit 1 axisVertical, bit 2 verticalOrientationSet, bit 3 verticalSideways *)
Definition toward (d : Z) : bool := Z.testbit d 0.
Definition is_vertical (d : Z) : bool := Z.testbit d 1.
Definition set_sideways_true (d : Z) : Z := Z.lor d 14.   (* d |= axisVertical | verticalOrientationSet; d |= verticalSideways *)

Definition set_nth {A} (l : list A) (i : Z) (x : A) : list A := zfirstn i l ++ x :: zskipn (i + 1) l.
Definition dummy_glyph : glyph := mkGlyph 0 0 0 0 0 0 0 0 0 0 0 0 0.

(* field updates *)
Definition with_adv (g : glyph) (xa ya : Z) : glyph :=
  mkGlyph (g_width g) (g_height g) (g_xbearing g) (g_ybearing g) xa ya (g_xoff g) (g_yoff g)
          (g_cluster g) (g_runes g) (g_glyphs g) (g_startls g) (g_endls g).
Definition with_off (g : glyph) (xo yo : Z) : glyph :=
  mkGlyph (g_width g) (g_height g) (g_xbearing g) (g_ybearing g) (g_xadv g) (g_yadv g) xo yo
          (g_cluster g) (g_runes g) (g_glyphs g) (g_startls g) (g_endls g).
Definition with_ls (g : glyph) (s e : Z) : glyph :=
  mkGlyph (g_width g) (g_height g) (g_xbearing g) (g_ybearing g) (g_xadv g) (g_yadv g) (g_xoff g) (g_yoff g)
          (g_cluster g) (g_runes g) (g_glyphs g) s e.
(* advance (and optionally offset) along the run's axis += *)
Definition add_axis_adv (vertical : bool) (g : glyph) (d : Z) : glyph :=
  if vertical then with_adv g (g_xadv g) (g_yadv g + d) else with_adv g (g_xadv g + d) (g_yadv g).
Definition add_axis_off (vertical : bool) (g : glyph) (d : Z) : glyph :=
  if vertical then with_off g (g_xoff g) (g_yoff g + d) else with_off g (g_xoff g + d) (g_yoff g).
Definition axis_adv (vertical : bool) (g : glyph) : Z := if vertical then g_yadv g else g_xadv g.

Definition with_glyphs (o : output) (gs : list glyph) : output := mkOut (o_adv o) gs (o_gbounds o) (o_dir o).

(* ---- RecomputeAdvance ---------------------------------------------------------------------- *)
Definition sum_adv (vertical : bool) (gs : list glyph) : Z := fold_left (fun a g => a + axis_adv vertical g) gs 0.
Definition recompute_advance (o : output) : output :=
  mkOut (sum_adv (is_vertical (o_dir o)) (o_glyphs o)) (o_glyphs o) (o_gbounds o) (o_dir o).

(* ---- advanceSpaceAware --------------------------------------------------------------------- *)
Definition advance_space_aware (o : output) (paragraph_dir : Z) : Z :=
  match o_glyphs o with
  | [] => o_adv o
  | g0 :: _ =>
    if negb (paragraph_dir =? o_dir o) then o_adv o
    else
      let L := zlen (o_glyphs o) in
      let lastG := if toward (o_dir o) then znth g0 (o_glyphs o) 0 else znth g0 (o_glyphs o) (L - 1) in
      if is_vertical (o_dir o)
      then (if g_height lastG =? 0 then o_adv o - g_yadv lastG else o_adv o - g_endls lastG)
      else (if g_width lastG =? 0 then o_adv o - g_xadv lastG else o_adv o - g_endls lastG)
  end.

(* ---- RecalculateAll ------------------------------------------------------------------------ *)
(* accumulator: advance, ascent, descent *)
Definition recalc_step (vertical : bool) (acc : Z * Z * Z) (g : glyph) : Z * Z * Z :=
  let '(advance, ascent, descent) := acc in
  if vertical then
    let depth := g_xoff g + g_xbearing g in
    let descent' := if depth <? descent then depth else descent in
    let height := depth + g_width g in
    let ascent' := if ascent <? height then height else ascent in
    (advance + g_yadv g, ascent', descent')
  else
    let height := g_ybearing g + g_yoff g in
    let ascent' := if ascent <? height then height else ascent in
    let depth := height + g_height g in
    let descent' := if depth <? descent then depth else descent in
    (advance + g_xadv g, ascent', descent').
Definition recalculate_all (o : output) : output :=
  let '(advance, ascent, descent) := fold_left (recalc_step (is_vertical (o_dir o))) (o_glyphs o) (0, 0, 0) in
  mkOut advance (o_glyphs o) (mkBounds ascent descent 0) (o_dir o).

(* ---- sideways ------------------------------------------------------------------------------ *)
Definition sideways_glyph (g : glyph) : glyph :=
  mkGlyph (- g_height g) (- g_width g)
          (g_ybearing g + g_height g) (g_width g)
          0 (- g_xadv g)
          (g_yoff g) (- (g_xoff g + g_xbearing g + g_width g))
          (g_cluster g) (g_runes g) (g_glyphs g) (g_startls g) (g_endls g).
Definition sideways (o : output) : output :=
  mkOut (o_adv o) (map sideways_glyph (o_glyphs o)) (o_gbounds o) (set_sideways_true (o_dir o)).

(* ---- AddWordSpacing ------------------------------------------------------------------------ *)
Definition is_word_separator (r : Z) : bool :=
  (r =? 32) || (r =? 160) || (r =? 4961) || (r =? 65792) || (r =? 65793) || (r =? 66463) || (r =? 67871).
(*  U+0020   U+00A0     U+1361      U+10100       U+10101       U+1039F       U+1091F *)

Definition word_step (vertical : bool) (text : list Z) (s : Z) (g : glyph) : res glyph :=
  if negb ((g_runes g =? 1) && (g_glyphs g =? 1)) then Ok g
  else if (g_cluster g <? 0) || (zlen text <=? g_cluster g) then Panic 1   (* text[g.ClusterIndex] *)
  else if is_word_separator (znth 0 text (g_cluster g))
       then Ok (add_axis_off vertical (add_axis_adv vertical g s) (Z.quot s 2))
       else Ok g.
Fixpoint word_loop (vertical : bool) (text : list Z) (s : Z) (gs : list glyph) : res (list glyph) :=
  match gs with
  | [] => Ok []
  | g :: r => do g' <- word_step vertical text s g; do r' <- word_loop vertical text s r; Ok (g' :: r')
  end.
Definition add_word_spacing (o : output) (text : list Z) (s : Z) : res output :=
  do gs <- word_loop (is_vertical (o_dir o)) text s (o_glyphs o);
  Ok (recompute_advance (with_glyphs o gs)).

(* ---- AddLetterSpacing ---------------------------------------------------------------------- *)
(* one iteration of  for startGIdx := 0; startGIdx < len(run.Glyphs); { ... }  ; half = s/2 goes to the start side,
   the remainder s - s/2 to the end side (repaired code) *)
Definition checked_nth (gs : list glyph) (i : Z) : res glyph :=
  if (i <? 0) || (zlen gs <=? i) then Panic 1 else Ok (znth dummy_glyph gs i).

Definition letter_step (vertical : bool) (s : Z) (is_start is_end : bool) (gs : list glyph) (start : Z) : res (list glyph * Z) :=
  let half := Z.quot s 2 in
  let rest := s - half in
  do startGlyph <- checked_nth gs start;
  let cnt := g_glyphs startGlyph in
  let endi := start + cnt - 1 in
  do gs1 <- (if (0 <? start) || negb is_start
             then do g <- checked_nth gs start;
                  let g1 := add_axis_off vertical (add_axis_adv vertical g half) half in
                  Ok (set_nth gs start (with_ls g1 (g_startls g1 + half) (g_endls g1)))
             else Ok gs);
  let is_last := zlen gs <=? start + cnt in
  do gs2 <- (if negb is_last || negb is_end
             then do g <- checked_nth gs1 endi;
                  let g1 := add_axis_adv vertical g rest in
                  Ok (set_nth gs1 endi (with_ls g1 (g_startls g1) (g_endls g1 + rest)))
             else Ok gs1);
  Ok (gs2, start + cnt).

Fixpoint letter_loop (fuel : nat) (vertical : bool) (s : Z) (is_start is_end : bool) (gs : list glyph) (start : Z) : res (list glyph) :=
  if zlen gs <=? start then Ok gs
  else match fuel with
       | O => OutOfFuel
       | S f => do st <- letter_step vertical s is_start is_end gs start;
                letter_loop f vertical s is_start is_end (fst st) (snd st)
       end.
Definition add_letter_spacing (o : output) (s : Z) (is_start is_end : bool) : res output :=
  do gs <- letter_loop (length (o_glyphs o)) (is_vertical (o_dir o)) s is_start is_end (o_glyphs o) 0;
  Ok (recompute_advance (with_glyphs o gs)).

(* ---- trimStartLetterSpacing (does not recompute Advance) ------------------------------------ *)
Definition trim_start_letter_spacing (o : output) : output :=
  match o_glyphs o with
  | [] => o
  | g :: r =>
    let half := g_startls g in
    let v := is_vertical (o_dir o) in
    let g1 := add_axis_off v (add_axis_adv v g (- half)) (- half) in
    with_glyphs o (with_ls g1 0 (g_endls g1) :: r)
  end.

(* ---- AddSpacing ---------------------------------------------------------------------------- *)
Fixpoint add_spacing_loop (n i : Z) (runs : list output) (text : list Z) (ws ls : Z) : res (list output) :=
  match runs with
  | [] => Ok []
  | o :: r =>
    do o1 <- (if ws =? 0 then Ok o else add_word_spacing o text ws);
    do o2 <- (if ls =? 0 then Ok o1 else add_letter_spacing o1 ls (i =? 0) (i =? n - 1));
    do r' <- add_spacing_loop n (i + 1) r text ws ls;
    Ok (o2 :: r')
  end.
Definition add_spacing (runs : list output) (text : list Z) (ws ls : Z) : res (list output) :=
  add_spacing_loop (zlen runs) 0 runs text ws ls.
