#!/usr/bin/env python3
"""register.py <id> <level text> <level note> <technique>: add a check to MANIFEST.json (drops it from not_applicable)."""
import json, sys
pid, text, note, tech = sys.argv[1:5]
m = json.load(open('/verif/MANIFEST.json'))
m['checks'] = [c for c in m['checks'] if c['property_id'] != pid]
m['checks'].append({
  "property_id": pid, "quick_cmd": "./check %s --tier quick" % pid, "thorough_cmd": "./check %s --tier thorough" % pid,
  "evidence_file": "evidence/%s.json" % pid, "replay_cmd_template": "./check %s --replay {path}" % pid,
  "engine": "coq-proof+correspondence",
  "level_claimed": {"category": "proof", "text": text, "design_ref": "DESIGN.md section 6 " + pid},
  "level_note": note, "technique": tech})
m['checks'].sort(key=lambda c: c['property_id'])
if pid not in m['engines'][0]['serves_properties']:
    m['engines'][0]['serves_properties'].append(pid)
    m['engines'][0]['serves_properties'].sort()
m['not_applicable'] = [e for e in m['not_applicable'] if e['property_id'] != pid]
json.dump(m, open('/verif/MANIFEST.json', 'w'), indent=1)
