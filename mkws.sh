#!/bin/sh
# mkws.sh <name>: private workspace for developing one pipeline: /tmp/wk/<name>/{verif,repo}
set -e
n="$1"; w=/tmp/wk/$n
mkdir -p $w
git -C /repo worktree add -q --detach $w/repo HEAD
rsync -a --exclude .git --exclude build/cases /verif/ $w/verif/
( cd $w/verif/go && sed -i "s#=> /repo#=> $w/repo#" go.mod )
echo "export VERIF_REPO=$w/repo GOFLAGS=-mod=mod GOPROXY=off GOSUMDB=off GOTOOLCHAIN=local CGO_ENABLED=0" > $w/env.sh
echo $w
