package hbsrc

// A translator for small loop-free integer functions (property C20: decomposeHangul, composeHangul) from
// the Go AST to a Gallina term over Z.  Every + - * on runes is wrapped to int32 (sint32), / and % are
// Go's truncated division (Z.quot, Z.rem) by a non-zero constant, constant subexpressions are folded.
// Anything outside this subset is an error (fail closed).

import (
	"fmt"
	"go/ast"
	"go/token"
	"strings"
)

// FuncToGallina returns `Definition <coqName> (params : Z) : <tuple type> := <term>.` for function fn of file.
func (p *Pkg) FuncToGallina(file, fn, coqName string) (string, error) {
	f, ok := p.Files[file]
	if !ok {
		return "", fmt.Errorf("%s not found", file)
	}
	var fd *ast.FuncDecl
	for _, d := range f.Decls {
		if x, ok := d.(*ast.FuncDecl); ok && x.Recv == nil && x.Name.Name == fn {
			fd = x
		}
	}
	if fd == nil {
		return "", fmt.Errorf("function %s not found in %s", fn, file)
	}
	t := &gtrans{p: p, fn: fn, vars: map[string]bool{}}
	var params []string
	for _, fl := range fd.Type.Params.List {
		if !isIdent(fl.Type, "rune") {
			return "", t.bad(fl, "parameter type is not rune")
		}
		for _, n := range fl.Names {
			params = append(params, n.Name)
			t.vars[n.Name] = true
		}
	}
	var rtypes []string
	for _, fl := range fd.Type.Results.List {
		k := len(fl.Names)
		if k == 0 {
			k = 1
		}
		for i := 0; i < k; i++ {
			switch {
			case isIdent(fl.Type, "rune"):
				rtypes = append(rtypes, "Z")
			case isIdent(fl.Type, "bool"):
				rtypes = append(rtypes, "bool")
			default:
				return "", t.bad(fl, "result type is neither rune nor bool")
			}
		}
	}
	t.nres = len(rtypes)
	body, err := t.stmts(fd.Body.List, 1)
	if err != nil {
		return "", err
	}
	return fmt.Sprintf("Definition %s (%s : Z) : %s :=\n%s.\n", coqName, strings.Join(params, " "), strings.Join(rtypes, " * "), body), nil
}

type gtrans struct {
	p    *Pkg
	fn   string
	vars map[string]bool
	nres int
}

func (t *gtrans) bad(n ast.Node, what string) error {
	return fmt.Errorf("%s: %s (at %v): outside the translated subset", t.fn, what, t.p.Fset.Position(n.Pos()))
}

func ind(d int) string { return strings.Repeat("  ", d) }

func (t *gtrans) stmts(l []ast.Stmt, d int) (string, error) {
	if len(l) == 0 {
		return "", fmt.Errorf("%s: a path does not end in a return", t.fn)
	}
	switch s := l[0].(type) {
	case *ast.ReturnStmt:
		if len(s.Results) != t.nres {
			return "", t.bad(s, "bare return or wrong number of results")
		}
		var es []string
		for _, r := range s.Results {
			e, err := t.expr(r)
			if err != nil {
				return "", err
			}
			es = append(es, e)
		}
		return ind(d) + "(" + strings.Join(es, ", ") + ")", nil
	case *ast.AssignStmt:
		if s.Tok != token.DEFINE || len(s.Lhs) != 1 || len(s.Rhs) != 1 {
			return "", t.bad(s, "not a single := definition")
		}
		id, ok := s.Lhs[0].(*ast.Ident)
		if !ok || t.vars[id.Name] {
			return "", t.bad(s, "redefinition or non-identifier")
		}
		e, err := t.expr(s.Rhs[0])
		if err != nil {
			return "", err
		}
		t.vars[id.Name] = true
		rest, err := t.stmts(l[1:], d)
		if err != nil {
			return "", err
		}
		return fmt.Sprintf("%slet %s := %s in\n%s", ind(d), id.Name, e, rest), nil
	case *ast.IfStmt:
		if s.Init != nil {
			return "", t.bad(s, "if with an init statement")
		}
		c, err := t.expr(s.Cond)
		if err != nil {
			return "", err
		}
		saved := map[string]bool{}
		for k := range t.vars {
			saved[k] = true
		}
		th, err := t.stmts(s.Body.List, d+1)
		if err != nil {
			return "", err
		}
		t.vars = saved
		var elseList []ast.Stmt
		switch e := s.Else.(type) {
		case nil:
			elseList = l[1:]
		case *ast.IfStmt:
			elseList = append([]ast.Stmt{e}, l[1:]...)
		case *ast.BlockStmt:
			elseList = append(append([]ast.Stmt{}, e.List...), l[1:]...)
		default:
			return "", t.bad(s, "else")
		}
		el, err := t.stmts(elseList, d)
		if err != nil {
			return "", err
		}
		return fmt.Sprintf("%sif %s then\n%s\n%selse\n%s", ind(d), c, th, ind(d), el), nil
	}
	return "", t.bad(l[0], "statement")
}

func (t *gtrans) expr(e ast.Expr) (string, error) {
	// constant subexpressions are folded (Go evaluates them exactly and they must fit the rune type)
	if v, err := t.p.Eval(e, 0); err == nil {
		if v < -(1<<31) || v >= 1<<31 {
			return "", t.bad(e, "constant outside int32")
		}
		if v < 0 {
			return fmt.Sprintf("(%d)", v), nil
		}
		return fmt.Sprintf("%d", v), nil
	}
	switch x := e.(type) {
	case *ast.Ident:
		switch {
		case x.Name == "true" || x.Name == "false":
			return x.Name, nil
		case t.vars[x.Name]:
			return x.Name, nil
		}
		return "", t.bad(e, "unknown identifier "+x.Name)
	case *ast.ParenExpr:
		return t.expr(x.X)
	case *ast.BinaryExpr:
		a, err := t.expr(x.X)
		if err != nil {
			return "", err
		}
		b, err := t.expr(x.Y)
		if err != nil {
			return "", err
		}
		switch x.Op {
		case token.ADD:
			return fmt.Sprintf("(sint32 (%s + %s))", a, b), nil
		case token.SUB:
			return fmt.Sprintf("(sint32 (%s - %s))", a, b), nil
		case token.MUL:
			return fmt.Sprintf("(sint32 (%s * %s))", a, b), nil
		case token.QUO, token.REM:
			v, err := t.p.Eval(x.Y, 0)
			if err != nil || v <= 0 {
				return "", t.bad(e, "division by something other than a positive constant")
			}
			if x.Op == token.QUO {
				return fmt.Sprintf("(Z.quot %s %s)", a, b), nil
			}
			return fmt.Sprintf("(Z.rem %s %s)", a, b), nil
		case token.LSS:
			return fmt.Sprintf("(%s <? %s)", a, b), nil
		case token.LEQ:
			return fmt.Sprintf("(%s <=? %s)", a, b), nil
		case token.GTR:
			return fmt.Sprintf("(%s >? %s)", a, b), nil
		case token.GEQ:
			return fmt.Sprintf("(%s >=? %s)", a, b), nil
		case token.EQL:
			return fmt.Sprintf("(%s =? %s)", a, b), nil
		case token.NEQ:
			return fmt.Sprintf("(negb (%s =? %s))", a, b), nil
		case token.LAND:
			return fmt.Sprintf("(%s && %s)", a, b), nil
		case token.LOR:
			return fmt.Sprintf("(%s || %s)", a, b), nil
		}
	}
	return "", t.bad(e, "expression")
}
