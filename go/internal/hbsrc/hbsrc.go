// Package hbsrc reads those parts of the library's Unicode lookups that are code, not data
// (property C20): the Script constants of language/scripts_table.go and the page/range dispatch of
// harfbuzz.indicGetCategories / getUSECategory.  It recognises exactly the shapes the upstream
// generator emits and fails on anything else (fail closed); gotocoq prints the result as Gallina and
// the C20 driver rebuilds its linear-scan oracle from it.
package hbsrc

import (
	"fmt"
	"go/ast"
	"go/parser"
	"go/token"
	"os"
	"path/filepath"
	"sort"
	"strconv"
	"strings"
)

// Pkg holds the parsed non-test files of one package directory and its integer constants.
type Pkg struct {
	Fset   *token.FileSet
	Files  map[string]*ast.File
	consts map[string]constDef
	memo   map[string]int64
	busy   map[string]bool
}

type constDef struct {
	expr ast.Expr
	iota int64
}

// Load parses every non-test .go file of dir (build constraints are honoured for `verif`-only files:
// they are skipped, they hold hooks only).
func Load(dir string) (*Pkg, error) {
	ents, err := os.ReadDir(dir)
	if err != nil {
		return nil, err
	}
	p := &Pkg{Fset: token.NewFileSet(), Files: map[string]*ast.File{}, consts: map[string]constDef{}, memo: map[string]int64{}, busy: map[string]bool{}}
	for _, e := range ents {
		n := e.Name()
		if e.IsDir() || !strings.HasSuffix(n, ".go") || strings.HasSuffix(n, "_test.go") || strings.HasPrefix(n, "verif_export") {
			continue
		}
		f, err := parser.ParseFile(p.Fset, filepath.Join(dir, n), nil, parser.SkipObjectResolution)
		if err != nil {
			return nil, err
		}
		p.Files[n] = f
		for _, d := range f.Decls {
			gd, ok := d.(*ast.GenDecl)
			if !ok || gd.Tok != token.CONST {
				continue
			}
			var last []ast.Expr
			for i, s := range gd.Specs {
				vs := s.(*ast.ValueSpec)
				vals := vs.Values
				if len(vals) == 0 {
					vals = last
				} else {
					last = vals
				}
				for j, name := range vs.Names {
					if j < len(vals) {
						p.consts[name.Name] = constDef{vals[j], int64(i)}
					}
				}
			}
		}
	}
	return p, nil
}

// Const evaluates a package-level integer constant.
func (p *Pkg) Const(name string) (int64, error) {
	if v, ok := p.memo[name]; ok {
		return v, nil
	}
	d, ok := p.consts[name]
	if !ok {
		return 0, fmt.Errorf("unknown constant %s", name)
	}
	if p.busy[name] {
		return 0, fmt.Errorf("constant cycle at %s", name)
	}
	p.busy[name] = true
	v, err := p.Eval(d.expr, d.iota)
	p.busy[name] = false
	if err != nil {
		return 0, fmt.Errorf("%s: %w", name, err)
	}
	p.memo[name] = v
	return v, nil
}

// Eval evaluates an integer constant expression (literals, constants, iota, conversions T(x),
// + - * | & << >>, unary - and ^ are not needed and rejected).
func (p *Pkg) Eval(e ast.Expr, iota int64) (int64, error) {
	switch x := e.(type) {
	case *ast.BasicLit:
		switch x.Kind {
		case token.INT:
			v, err := strconv.ParseInt(strings.ReplaceAll(x.Value, "_", ""), 0, 64)
			return v, err
		case token.CHAR:
			r, _, _, err := strconv.UnquoteChar(x.Value[1:len(x.Value)-1], '\'')
			return int64(r), err
		}
	case *ast.Ident:
		if x.Name == "iota" {
			return iota, nil
		}
		return p.Const(x.Name)
	case *ast.ParenExpr:
		return p.Eval(x.X, iota)
	case *ast.CallExpr: // conversion to a named integer type
		if len(x.Args) == 1 {
			if _, ok := x.Fun.(*ast.Ident); ok {
				return p.Eval(x.Args[0], iota)
			}
		}
	case *ast.BinaryExpr:
		a, err := p.Eval(x.X, iota)
		if err != nil {
			return 0, err
		}
		b, err := p.Eval(x.Y, iota)
		if err != nil {
			return 0, err
		}
		switch x.Op {
		case token.ADD:
			return a + b, nil
		case token.SUB:
			return a - b, nil
		case token.MUL:
			return a * b, nil
		case token.OR:
			return a | b, nil
		case token.AND:
			return a & b, nil
		case token.SHL:
			return a << uint(b), nil
		case token.SHR:
			return a >> uint(b), nil
		}
	}
	return 0, fmt.Errorf("unsupported constant expression at %v", p.Fset.Position(e.Pos()))
}

// ---------------------------------------------------------------------------------------------
// language.Script constants

type ScriptConst struct {
	Name string
	Val  uint32
}

// ScriptConsts returns the constants declared as `Name = Script(0x...)` in scripts_table.go, by name.
func ScriptConsts(langDir string) ([]ScriptConst, error) {
	p, err := Load(langDir)
	if err != nil {
		return nil, err
	}
	f, ok := p.Files["scripts_table.go"]
	if !ok {
		return nil, fmt.Errorf("scripts_table.go not found in %s", langDir)
	}
	var out []ScriptConst
	for _, d := range f.Decls {
		gd, ok := d.(*ast.GenDecl)
		if !ok || gd.Tok != token.CONST {
			continue
		}
		for _, s := range gd.Specs {
			vs := s.(*ast.ValueSpec)
			for j, name := range vs.Names {
				if j >= len(vs.Values) {
					return nil, fmt.Errorf("script constant %s without a value", name.Name)
				}
				call, ok := vs.Values[j].(*ast.CallExpr)
				if !ok {
					return nil, fmt.Errorf("script constant %s is not a Script(...) conversion", name.Name)
				}
				if id, ok := call.Fun.(*ast.Ident); !ok || id.Name != "Script" {
					return nil, fmt.Errorf("script constant %s is not a Script(...) conversion", name.Name)
				}
				v, err := p.Const(name.Name)
				if err != nil {
					return nil, err
				}
				if v < 0 || v > 0xFFFFFFFF {
					return nil, fmt.Errorf("script constant %s out of range", name.Name)
				}
				out = append(out, ScriptConst{name.Name, uint32(v)})
			}
		}
	}
	if len(out) == 0 {
		return nil, fmt.Errorf("no Script constants found")
	}
	sort.Slice(out, func(i, j int) bool { return out[i].Name < out[j].Name })
	return out, nil
}

// ---------------------------------------------------------------------------------------------
// paged range lookups:
//
//	func f(u rune) T {
//		switch u >> S {
//		case K: if u == X { return V } ... if LO <= u && u <= HI { return TABLE[u-SUB+OFF] } ...
//		}
//		return D
//	}

// Clause is one `if` of a page: Kind 0: u == Lo (== Hi) returns Off;  Kind 1: Lo <= u <= Hi returns TABLE[u-Sub+Off].
type Clause struct {
	Kind, Lo, Hi, Sub, Off int64
}

type Page struct {
	Key     int64
	Clauses []Clause
}

type Paged struct {
	Func    string
	Table   string
	Shift   int64
	Pages   []Page // in source order
	Default int64
}

func isIdent(e ast.Expr, name string) bool {
	id, ok := e.(*ast.Ident)
	return ok && id.Name == name
}

// PagedLookup parses function fn of file (base name) in package p.
func (p *Pkg) PagedLookup(file, fn string) (*Paged, error) {
	f, ok := p.Files[file]
	if !ok {
		return nil, fmt.Errorf("%s not found", file)
	}
	var fd *ast.FuncDecl
	for _, d := range f.Decls {
		if x, ok := d.(*ast.FuncDecl); ok && x.Recv == nil && x.Name.Name == fn {
			fd = x
		}
	}
	if fd == nil {
		return nil, fmt.Errorf("function %s not found in %s", fn, file)
	}
	bad := func(n ast.Node, what string) error {
		return fmt.Errorf("%s: %s (at %v): outside the recognised shape", fn, what, p.Fset.Position(n.Pos()))
	}
	if fd.Type.Params == nil || len(fd.Type.Params.List) != 1 || len(fd.Type.Params.List[0].Names) != 1 ||
		!isIdent(fd.Type.Params.List[0].Type, "rune") {
		return nil, bad(fd, "signature is not (u rune)")
	}
	u := fd.Type.Params.List[0].Names[0].Name
	if len(fd.Body.List) != 2 {
		return nil, bad(fd.Body, "body is not `switch; return`")
	}
	sw, ok := fd.Body.List[0].(*ast.SwitchStmt)
	if !ok || sw.Init != nil {
		return nil, bad(fd.Body.List[0], "first statement is not a plain switch")
	}
	out := &Paged{Func: fn}
	tag, ok := sw.Tag.(*ast.BinaryExpr)
	if !ok || tag.Op != token.SHR || !isIdent(tag.X, u) {
		return nil, bad(sw, "switch tag is not u >> S")
	}
	var err error
	if out.Shift, err = p.Eval(tag.Y, 0); err != nil {
		return nil, err
	}
	ret, ok := fd.Body.List[1].(*ast.ReturnStmt)
	if !ok || len(ret.Results) != 1 {
		return nil, bad(fd.Body.List[1], "no final return")
	}
	if out.Default, err = p.Eval(ret.Results[0], 0); err != nil {
		return nil, err
	}
	seen := map[int64]bool{}
	for _, st := range sw.Body.List {
		cc := st.(*ast.CaseClause)
		if len(cc.List) != 1 {
			return nil, bad(cc, "case without exactly one key (or default)")
		}
		key, err := p.Eval(cc.List[0], 0)
		if err != nil {
			return nil, err
		}
		if seen[key] {
			return nil, bad(cc, "duplicate case")
		}
		seen[key] = true
		pg := Page{Key: key}
		for _, s := range cc.Body {
			ifs, ok := s.(*ast.IfStmt)
			if !ok || ifs.Init != nil || ifs.Else != nil || len(ifs.Body.List) != 1 {
				return nil, bad(s, "case body statement is not a plain if")
			}
			r, ok := ifs.Body.List[0].(*ast.ReturnStmt)
			if !ok || len(r.Results) != 1 {
				return nil, bad(ifs, "if body is not a return")
			}
			cond, ok := ifs.Cond.(*ast.BinaryExpr)
			if !ok {
				return nil, bad(ifs, "condition")
			}
			switch cond.Op {
			case token.EQL: // u == X  => return V
				if !isIdent(cond.X, u) {
					return nil, bad(ifs, "condition is not u == X")
				}
				x, err := p.Eval(cond.Y, 0)
				if err != nil {
					return nil, err
				}
				v, err := p.Eval(r.Results[0], 0)
				if err != nil {
					return nil, err
				}
				pg.Clauses = append(pg.Clauses, Clause{Kind: 0, Lo: x, Hi: x, Off: v})
			case token.LAND: // LO <= u && u <= HI => return TABLE[u-SUB+OFF]
				l, ok1 := cond.X.(*ast.BinaryExpr)
				h, ok2 := cond.Y.(*ast.BinaryExpr)
				if !ok1 || !ok2 || l.Op != token.LEQ || h.Op != token.LEQ || !isIdent(l.Y, u) || !isIdent(h.X, u) {
					return nil, bad(ifs, "condition is not LO <= u && u <= HI")
				}
				lo, err := p.Eval(l.X, 0)
				if err != nil {
					return nil, err
				}
				hi, err := p.Eval(h.Y, 0)
				if err != nil {
					return nil, err
				}
				ix, ok := r.Results[0].(*ast.IndexExpr)
				if !ok {
					return nil, bad(r, "result is not TABLE[...]")
				}
				tid, ok := ix.X.(*ast.Ident)
				if !ok {
					return nil, bad(r, "result is not TABLE[...]")
				}
				if out.Table == "" {
					out.Table = tid.Name
				} else if out.Table != tid.Name {
					return nil, bad(r, "two different tables")
				}
				add, ok := ix.Index.(*ast.BinaryExpr) // (u - SUB) + OFF
				if !ok || add.Op != token.ADD {
					return nil, bad(r, "index is not u-SUB+OFF")
				}
				sub, ok := add.X.(*ast.BinaryExpr)
				if !ok || sub.Op != token.SUB || !isIdent(sub.X, u) {
					return nil, bad(r, "index is not u-SUB+OFF")
				}
				sv, err := p.Eval(sub.Y, 0)
				if err != nil {
					return nil, err
				}
				ov, err := p.Eval(add.Y, 0)
				if err != nil {
					return nil, err
				}
				pg.Clauses = append(pg.Clauses, Clause{Kind: 1, Lo: lo, Hi: hi, Sub: sv, Off: ov})
			default:
				return nil, bad(ifs, "condition")
			}
		}
		out.Pages = append(out.Pages, pg)
	}
	if out.Table == "" {
		return nil, fmt.Errorf("%s: no table access found", fn)
	}
	return out, nil
}

// Flat returns the clauses of all pages in source order with exact duplicates removed: the lookup as one
// linear scan without the page dispatch.
func (pl *Paged) Flat() []Clause {
	var out []Clause
	seen := map[Clause]bool{}
	for _, pg := range pl.Pages {
		for _, c := range pg.Clauses {
			if !seen[c] {
				seen[c] = true
				out = append(out, c)
			}
		}
	}
	return out
}
