// Package vh is the common part of the correspondence harness: deterministic PRNG, Coq term
// printers, shard writer and run summary.
package vh

import (
	"crypto/sha256"
	"encoding/hex"
	"encoding/json"
	"fmt"
	"math/rand"
	"os"
	"path/filepath"
	"sort"
	"strings"
)

// Rand is the single source of random choices of a run.
type Rand struct{ *rand.Rand }

func NewRand(seed int64) *Rand { return &Rand{rand.New(rand.NewSource(seed))} }

// Range returns an int in [lo, hi].
func (r *Rand) Range(lo, hi int) int {
	if hi <= lo {
		return lo
	}
	return lo + r.Intn(hi-lo+1)
}
func (r *Rand) Bool() bool       { return r.Intn(2) == 0 }
func (r *Rand) Chance(p int) bool { return r.Intn(100) < p } // p percent
func (r *Rand) Bytes(n int) []byte {
	b := make([]byte, n)
	for i := range b {
		switch r.Intn(8) {
		case 0:
			b[i] = 0
		case 1:
			b[i] = 0xff
		default:
			b[i] = byte(r.Intn(256))
		}
	}
	return b
}

// ---- Coq term printers ---------------------------------------------------------------------

// Z prints an integer as a Coq Z literal.
func Z(x int64) string {
	if x < 0 {
		return fmt.Sprintf("(%d)", x)
	}
	return fmt.Sprintf("%d", x)
}
func Zi(x int) string { return Z(int64(x)) }

func Bool(b bool) string {
	if b {
		return "true"
	}
	return "false"
}

// BytesLit prints a byte string as (B 0x01<hex>) decoded by Lib/Bytes.v.
// Long strings are split in 1024-byte chunks (coqc's numeral parser recurses on the literal length).
func BytesLit(b []byte) string {
	const chunk = 1024
	if len(b) <= chunk {
		return "(B 0x01" + hex.EncodeToString(b) + ")"
	}
	var parts []string
	for i := 0; i < len(b); i += chunk {
		j := i + chunk
		if j > len(b) {
			j = len(b)
		}
		parts = append(parts, "B 0x01"+hex.EncodeToString(b[i:j]))
	}
	return "(" + strings.Join(parts, " ++ ") + ")"
}

// List prints a Coq list from already printed elements.
func List(elems []string) string {
	if len(elems) == 0 {
		return "[]"
	}
	return "[" + strings.Join(elems, "; ") + "]"
}
func ZList(xs []int64) string {
	e := make([]string, len(xs))
	for i, x := range xs {
		e[i] = Z(x)
	}
	return List(e)
}
func IntList(xs []int) string {
	e := make([]string, len(xs))
	for i, x := range xs {
		e[i] = Zi(x)
	}
	return List(e)
}
func BoolList(xs []bool) string {
	e := make([]string, len(xs))
	for i, x := range xs {
		e[i] = Bool(x)
	}
	return List(e)
}
func Tuple(elems ...string) string { return "(" + strings.Join(elems, ", ") + ")" }
func App(f string, args ...string) string {
	return "(" + f + " " + strings.Join(args, " ") + ")"
}
func Some(s string) string { return "(Some " + s + ")" }

// ---- run bookkeeping -----------------------------------------------------------------------

// Out collects the cases of one run and writes shards + summary.
type Out struct {
	Dir       string
	Header    string // Coq Require line(s)
	ShardSize int

	cases     []string          // Coq terms
	inputs    []json.RawMessage // replayable inputs, same index
	keys      map[string]bool   // distinct non-trivial keys
	hist      map[string]int
	samples   []json.RawMessage
	Trivial   int
	ImplFails []ImplFail
}

// ImplFail is a failure decided on the Go side (unexpected panic, watchdog, direct oracle).
type ImplFail struct {
	Index int    `json:"index"`
	Kind  string `json:"kind"`
	What  string `json:"what"`
}

func NewOut(dir, header string, shard int) *Out {
	return &Out{Dir: dir, Header: header, ShardSize: shard, keys: map[string]bool{}, hist: map[string]int{}}
}

// Add records one executed case. key == "" means trivial by the property's rule.
func (o *Out) Add(input any, coq string, key string, classes ...string) int {
	raw, err := json.Marshal(input)
	if err != nil {
		panic(err)
	}
	idx := len(o.cases)
	o.cases = append(o.cases, coq)
	o.inputs = append(o.inputs, raw)
	if key == "" {
		o.Trivial++
	} else {
		h := sha256.Sum256([]byte(key))
		o.keys[string(h[:8])] = true
	}
	for _, c := range classes {
		o.hist[c]++
	}
	if len(o.samples) < 3 || (idx%997 == 0 && len(o.samples) < 8) {
		if len(raw) < 2000 {
			o.samples = append(o.samples, raw)
		}
	}
	return idx
}

func (o *Out) Fail(idx int, kind, what string) {
	o.ImplFails = append(o.ImplFails, ImplFail{idx, kind, what})
}
func (o *Out) Count(class string) { o.hist[class]++ }
func (o *Out) Len() int           { return len(o.cases) }

type Summary struct {
	Evaluations        int               `json:"evaluations"`
	DistinctNontrivial int               `json:"distinct_nontrivial"`
	Trivial            int               `json:"trivial"`
	Histogram          map[string]int    `json:"histogram"`
	Samples            []json.RawMessage `json:"samples"`
	Shards             []string          `json:"shards"`
	ShardSize          int               `json:"shard_size"`
	ImplFails          []ImplFail        `json:"impl_fails"`
	Extra              map[string]any    `json:"extra,omitempty"`
}

// Flush writes shard_XXX.v, inputs.jsonl and summary.json.
func (o *Out) Flush(extra map[string]any) error {
	if err := os.MkdirAll(o.Dir, 0o755); err != nil {
		return err
	}
	var shards []string
	for s := 0; s*o.ShardSize < len(o.cases); s++ {
		lo, hi := s*o.ShardSize, (s+1)*o.ShardSize
		if hi > len(o.cases) {
			hi = len(o.cases)
		}
		var sb strings.Builder
		sb.WriteString(o.Header)
		sb.WriteString("\n")
		names := make([]string, 0, hi-lo)
		for i := lo; i < hi; i++ {
			fmt.Fprintf(&sb, "Definition c%d : case := %s.\n", i-lo, o.cases[i])
			names = append(names, fmt.Sprintf("c%d", i-lo))
		}
		fmt.Fprintf(&sb, "Definition cases : list case := %s.\n", List(names))
		sb.WriteString("Definition R := Eval vm_compute in check_all cases.\nPrint R.\n")
		name := fmt.Sprintf("shard_%03d.v", s)
		if err := os.WriteFile(filepath.Join(o.Dir, name), []byte(sb.String()), 0o644); err != nil {
			return err
		}
		shards = append(shards, name)
	}
	f, err := os.Create(filepath.Join(o.Dir, "inputs.jsonl"))
	if err != nil {
		return err
	}
	for _, in := range o.inputs {
		f.Write(in)
		f.Write([]byte("\n"))
	}
	f.Close()
	keys := make([]string, 0, len(o.hist))
	for k := range o.hist {
		keys = append(keys, k)
	}
	sort.Strings(keys)
	sum := Summary{
		Evaluations: len(o.cases), DistinctNontrivial: len(o.keys), Trivial: o.Trivial,
		Histogram: o.hist, Samples: o.samples, Shards: shards, ShardSize: o.ShardSize,
		ImplFails: o.ImplFails, Extra: extra,
	}
	b, _ := json.MarshalIndent(sum, "", " ")
	return os.WriteFile(filepath.Join(o.Dir, "summary.json"), b, 0o644)
}

// ReadInputs loads replay / corpus inputs (one JSON value per line).
func ReadInputs(path string) ([]json.RawMessage, error) {
	data, err := os.ReadFile(path)
	if err != nil {
		return nil, err
	}
	var out []json.RawMessage
	for _, line := range strings.Split(string(data), "\n") {
		line = strings.TrimSpace(line)
		if line == "" {
			continue
		}
		out = append(out, json.RawMessage(line))
	}
	return out, nil
}
