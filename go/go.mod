module verifharness

go 1.19

require (
	github.com/go-text/typesetting v0.0.0
)

replace github.com/go-text/typesetting => /repo
