module verifharness

go 1.19

require (
	github.com/go-text/typesetting v0.0.0
	golang.org/x/text v0.21.0
)

require golang.org/x/image v0.23.0

replace github.com/go-text/typesetting => /repo
