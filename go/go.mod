module verifharness

go 1.19

require (
	github.com/go-text/typesetting v0.0.0
	golang.org/x/text v0.21.0
)

require golang.org/x/image v0.23.0

require github.com/go-text/typesetting-utils v0.0.0-20241103174707-87a29e9e6066

replace github.com/go-text/typesetting => /repo
