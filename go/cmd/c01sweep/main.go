// Command c01sweep is the oracle sweep for the full statement of C01 on real shaping: generated texts x corpus fonts x
// sub-runs x directions through shaping.HarfbuzzShaper.Shape under recover() and a watchdog.  It is exploration in
// support of the proof (the engine itself is not modelled).  Output: JSON lines {"fail":..,"kind":..,"input":..} and a
// final {"stats":{...}}.
package main

import (
	"bytes"
	"crypto/sha256"
	"embed"
	"encoding/json"
	"flag"
	"fmt"
	"io/fs"
	"math/rand"
	"os"
	"runtime"
	"runtime/debug"
	"sort"
	"strings"
	"time"

	hbtd "github.com/go-text/typesetting-utils/harfbuzz"
	ottd "github.com/go-text/typesetting-utils/opentype"
	"github.com/go-text/typesetting/di"
	"github.com/go-text/typesetting/font"
	ot "github.com/go-text/typesetting/font/opentype"
	"github.com/go-text/typesetting/harfbuzz"
	"github.com/go-text/typesetting/language"
	"github.com/go-text/typesetting/shaping"
	"golang.org/x/image/math/fixed"
)

type input struct {
	Font     string `json:"font"`
	Text     []rune `json:"text"`
	RunStart int    `json:"run_start"`
	RunEnd   int    `json:"run_end"`
	Dir      int    `json:"dir"`
	Script   string `json:"script"`
	// harfbuzz.Buffer level (second API level of the property): ranged features, buffer flags, cluster level
	HB       bool     `json:"hb,omitempty"`
	Features []hbFeat `json:"features,omitempty"`
	Flags    uint16   `json:"flags,omitempty"`
	Level    uint8    `json:"level,omitempty"`
	// Holes: runes the face's character map is made to lack (a font without these glyphs): fallback, decomposition
	// and missing-glyph paths of the shapers
	Holes []rune `json:"holes,omitempty"`
}

// holeCmap hides some runes of a character map.
type holeCmap struct {
	font.Cmap
	hide map[rune]bool
}

func (c holeCmap) Lookup(r rune) (font.GID, bool) {
	if c.hide[r] {
		return 0, false
	}
	return c.Cmap.Lookup(r)
}

func withHoles(face *font.Face, holes []rune) *font.Face {
	if len(holes) == 0 || face == nil || face.Font == nil || face.Font.Cmap == nil {
		return face
	}
	ft := *face.Font
	h := map[rune]bool{}
	for _, r := range holes {
		h[r] = true
	}
	ft.Cmap = holeCmap{face.Font.Cmap, h}
	return font.NewFace(&ft)
}

// fontAlphabets: the runes of the face's own character map grouped by script (at most 96 per script, evenly spread
// over the covered code points so that letters, dependent signs, viramas and digits all occur), for the scripts with
// at least three covered runes.
func fontAlphabets(face *font.Face) (tags []string, alpha map[string][]rune) {
	alpha = map[string][]rune{}
	if face == nil || face.Font == nil || face.Font.Cmap == nil {
		return nil, alpha
	}
	all := map[string][]rune{}
	it := face.Font.Cmap.Iter()
	n := 0
	for it.Next() && n < 200000 {
		r, _ := it.Char()
		n++
		sc := language.LookupScript(r)
		if sc == language.Unknown || sc == language.Common || sc == language.Inherited {
			continue
		}
		all[sc.String()] = append(all[sc.String()], r)
	}
	for tag, rs := range all {
		if len(rs) < 3 {
			continue
		}
		sort.Slice(rs, func(i, j int) bool { return rs[i] < rs[j] })
		if len(rs) > 96 {
			pick := make([]rune, 0, 96)
			for i := 0; i < 96; i++ {
				pick = append(pick, rs[i*len(rs)/96])
			}
			rs = pick
		}
		alpha[tag] = rs
		tags = append(tags, tag)
	}
	sort.Strings(tags)
	return tags, alpha
}

type hbFeat struct {
	Tag   string `json:"tag"`
	Value uint32 `json:"value"`
	Start int    `json:"start"`
	End   int    `json:"end"`
}

type fontRef struct {
	fs   *embed.FS
	name string
	path string
}

func listFonts() []fontRef {
	var out []fontRef
	add := func(f *embed.FS, name string) {
		fs.WalkDir(*f, ".", func(p string, d fs.DirEntry, err error) error {
			if err != nil || d.IsDir() {
				return nil
			}
			l := strings.ToLower(p)
			if strings.HasSuffix(l, ".ttf") || strings.HasSuffix(l, ".otf") || strings.HasSuffix(l, ".dfont") || strings.HasSuffix(l, ".ttc") {
				out = append(out, fontRef{f, name, p})
			}
			return nil
		})
	}
	add(&ottd.Files, "opentype")
	add(&hbtd.Files, "harfbuzz")
	// synthetic: every AAT (morx) sample font with the GPOS table of Roboto spliced in
	for _, ref := range append([]fontRef(nil), out...) {
		if ref.name == "opentype" && strings.HasPrefix(ref.path, "morx/") {
			out = append(out, fontRef{ref.fs, ref.name, ref.path + "+GPOS"})
		}
	}
	sort.Slice(out, func(i, j int) bool { return out[i].name+out[i].path < out[j].name+out[j].path })
	return out
}

var alphabets = map[string][]rune{
	"Latn": []rune("abfilAVTo .,-1ȩ̣́́̈"),
	"Arab": {0x0627, 0x0644, 0x0645, 0x0628, 0x064A, 0x0647, 0x0644, 0x0627, 0x064E, 0x0651, 0x0640, 0x0020, 0x0661, 0x06CC},
	"Hebr": {0x05D0, 0x05D1, 0x05DC, 0x05B8, 0x05BC, 0x05C1, 0x0020, 0x05E9},
	"Deva": {0x0915, 0x094D, 0x0937, 0x093F, 0x0930, 0x0902, 0x093C, 0x0947, 0x0020, 0x0924},
	"Thai": {0x0E01, 0x0E33, 0x0E48, 0x0E34, 0x0E19, 0x0E49, 0x0E32},
	"Hang": {0x1100, 0x1161, 0x11A8, 0xAC00, 0xD55C, 0xB894, 0xBDC1, 0xAC01, 0x1112, 0x1175, 0x11C2, 0x302E, 0x115F, 0x1160},
	"Mymr": {0x1000, 0x1039, 0x1000, 0x103C, 0x1031, 0x102C, 0x1037},
	"Khmr": {0x1780, 0x17D2, 0x1798, 0x17C1, 0x17B6},
	"Beng": {0x0995, 0x09CD, 0x09B7, 0x09BF, 0x09C7, 0x09BE},
	"Hani": {0x4E00, 0x4E8C, 0x3001, 0xFF08, 0x3042},
}
var scriptOrder = []string{"Latn", "Arab", "Hebr", "Deva", "Thai", "Hang", "Mymr", "Khmr", "Beng", "Hani"}
var specials = []rune{0x200C, 0x200D, 0x200B, 0x00AD, 0x034F, 0xFE0F, 0xFE00, 0x2060, 0x061C, 0x200E, 0x200F, 0x202E, 0x180E,
	0x0009, 0x000A, 0x0000, 0x007F, 0x0085, 0x0378, 0xFFFF, 0xFFFD, 0x10FFFF, 0xE0001, 0xE0100, 0x1F600, 0x1F3FB, 0x1F1E6, 0x25CC, 0x0300, 0x20DD}

func genText(r *rand.Rand, script string) []rune {
	alpha := alphabets[script]
	n := r.Intn(12)
	if r.Intn(10) == 0 {
		n = 12 + r.Intn(30)
	}
	t := make([]rune, 0, n)
	if r.Intn(5) == 0 { // marks first
		t = append(t, []rune{0x0301, 0x064E, 0x093F, 0x0E48}[r.Intn(4)])
	}
	for len(t) < n {
		switch {
		case r.Intn(6) == 0:
			t = append(t, specials[r.Intn(len(specials))])
		case r.Intn(25) == 0:
			o := alphabets[scriptOrder[r.Intn(len(scriptOrder))]]
			t = append(t, o[r.Intn(len(o))])
		default:
			t = append(t, alpha[r.Intn(len(alpha))])
		}
	}
	return t
}

// scripts handled by the default shaper: left out of the per-rune boundary scope
var simpleScripts = map[string]bool{"Latn": true, "Grek": true, "Cyrl": true, "Hani": true, "Hira": true, "Kana": true, "Armn": true,
	"Geor": true, "Copt": true, "Goth": true, "Cher": true, "Ethi": true, "Cans": true, "Yiii": true, "Brai": true}

var indicScripts = map[string]bool{"Beng": true, "Deva": true, "Guru": true, "Gujr": true, "Orya": true, "Taml": true, "Telu": true, "Knda": true, "Mlym": true}

func site() string {
	pcs := make([]uintptr, 40)
	n := runtime.Callers(3, pcs)
	frames := runtime.CallersFrames(pcs[:n])
	for {
		f, more := frames.Next()
		if strings.Contains(f.Function, "go-text/typesetting") {
			fn := f.Function[strings.LastIndex(f.Function, "/")+1:]
			return fn
		}
		if !more {
			return "?"
		}
	}
}

// checkOutput evaluates the C01 statement on one Output; "" when it holds.
func checkOutput(in input, out shaping.Output) string {
	s, e := in.RunStart, in.RunEnd
	if out.Runes.Offset != s || out.Runes.Count != e-s {
		return fmt.Sprintf("range: reports (%d,%d) for run [%d,%d)", out.Runes.Offset, out.Runes.Count, s, e)
	}
	rtl := di.Direction(in.Dir).Progression() == di.TowardTopLeft
	gs := out.Glyphs
	maxLen := 64 * (e - s)
	if maxLen < 16384 {
		maxLen = 16384
	}
	if len(gs) > 2*16*maxLen { // 2 x maxOps budget (AAT insertion is charged to maxOps, not to maxLen)
		return fmt.Sprintf("size: %d glyphs for %d runes", len(gs), e-s)
	}
	sum := 0
	for i, g := range gs {
		if g.ClusterIndex < s || g.ClusterIndex >= e {
			return fmt.Sprintf("cluster-range: glyph %d has cluster %d outside [%d,%d)", i, g.ClusterIndex, s, e)
		}
		if i > 0 {
			p := gs[i-1]
			if (!rtl && p.ClusterIndex > g.ClusterIndex) || (rtl && p.ClusterIndex < g.ClusterIndex) {
				return fmt.Sprintf("monotone: clusters %d then %d (rtl=%v)", p.ClusterIndex, g.ClusterIndex, rtl)
			}
			if p.ClusterIndex == g.ClusterIndex && (p.RuneCount != g.RuneCount || p.GlyphCount != g.GlyphCount) {
				return fmt.Sprintf("uniform: cluster %d carries different counts", g.ClusterIndex)
			}
		}
		if i == 0 || gs[i-1].ClusterIndex != g.ClusterIndex {
			sum += g.RuneCount
			k := 0
			for j := i; j < len(gs) && gs[j].ClusterIndex == g.ClusterIndex; j++ {
				k++
			}
			if g.GlyphCount != k {
				return fmt.Sprintf("glyphcount: cluster %d has %d glyphs, GlyphCount %d", g.ClusterIndex, k, g.GlyphCount)
			}
		}
	}
	if len(gs) > 0 && sum != e-s {
		return fmt.Sprintf("sum: rune counts sum to %d, run length %d", sum, e-s)
	}
	return ""
}

type result struct {
	fail, kind string
	glyphs     int
}

func indexOf(t []rune, x rune) int {
	for i, r := range t {
		if r == x {
			return i
		}
	}
	return 0
}

func shapeOnce(face *font.Face, in input) (res result) {
	done := make(chan result, 1)
	go func() {
		var r result
		defer func() {
			if p := recover(); p != nil {
				r.kind = "panic:" + site()
				r.fail = fmt.Sprint(p)
				if os.Getenv("C01_STACK") != "" {
					os.Stderr.Write(debug.Stack())
				}
			}
			done <- r
		}()
		sc, _ := language.ParseScript(in.Script)
		face := withHoles(face, in.Holes)
		if in.HB {
			r.glyphs, r.kind, r.fail = shapeHB(face, in, sc)
			return
		}
		var sh shaping.HarfbuzzShaper
		out := sh.Shape(shaping.Input{Text: in.Text, RunStart: in.RunStart, RunEnd: in.RunEnd, Direction: di.Direction(in.Dir),
			Face: face, Size: fixed.I(12), Script: sc, Language: "en"})
		r.glyphs = len(out.Glyphs)
		if msg := checkOutput(in, out); msg != "" {
			r.kind = "c01:" + strings.SplitN(msg, ":", 2)[0]
			r.fail = msg
			// narrow signature of the known finding C01-K1: a script handled by the Indic shaper, shaped against its
			// native direction (RTL / BTT): syllable reordering of the grapheme-reversed text without cluster merge
			if r.kind == "c01:monotone" && indicScripts[in.Script] && di.Direction(in.Dir).Progression() == di.TowardTopLeft {
				r.kind = "c01:monotone:indic-backward"
			}
		}
	}()
	select {
	case r := <-done:
		return r
	case <-time.After(10 * time.Second):
		return result{fail: "shaping did not return within 10 s", kind: "timeout"}
	}
}

// shapeHB shapes at the harfbuzz.Buffer level with ranged features, buffer flags and a cluster level, and checks the
// statement of C01 on the buffer: Info and Pos of equal length, clusters inside the run and (for the monotone cluster
// levels) monotone in the buffer's direction, output size within the growth budget.
func shapeHB(face *font.Face, in input, sc language.Script) (glyphs int, kind, fail string) {
	buf := harfbuzz.NewBuffer()
	buf.ClusterLevel = harfbuzz.ClusterLevel(in.Level % 3)
	buf.Flags = harfbuzz.ShappingOptions(in.Flags)
	buf.Props.Direction = di.Direction(in.Dir).Harfbuzz()
	buf.Props.Script = sc
	buf.Props.Language = language.NewLanguage("en")
	buf.AddRunes(in.Text, in.RunStart, in.RunEnd-in.RunStart)
	var feats []harfbuzz.Feature
	for _, f := range in.Features {
		end := f.End
		if end < 0 { // -1 = to the end of the buffer (a global feature when Start is 0)
			end = harfbuzz.FeatureGlobalEnd
		}
		feats = append(feats, harfbuzz.Feature{Tag: ot.MustNewTag(f.Tag), Value: f.Value, Start: f.Start, End: end})
	}
	hbFont := harfbuzz.NewFont(face)
	buf.Shape(hbFont, feats)
	n := in.RunEnd - in.RunStart
	if len(buf.Info) != len(buf.Pos) {
		return len(buf.Info), "c01:hb-lengths", fmt.Sprintf("hb-lengths: len(Info)=%d len(Pos)=%d", len(buf.Info), len(buf.Pos))
	}
	if limit := 2 * (1024*n + 16384); len(buf.Info) > limit {
		return len(buf.Info), "c01:hb-size", fmt.Sprintf("hb-size: %d glyphs for %d runes", len(buf.Info), n)
	}
	backward := buf.Props.Direction == harfbuzz.RightToLeft || buf.Props.Direction == harfbuzz.BottomToTop
	prev := -1
	for i, g := range buf.Info {
		if g.Cluster < in.RunStart || g.Cluster >= in.RunEnd {
			return len(buf.Info), "c01:hb-range", fmt.Sprintf("hb-range: glyph %d has cluster %d outside [%d,%d)", i, g.Cluster, in.RunStart, in.RunEnd)
		}
		if buf.ClusterLevel != harfbuzz.Characters && i > 0 {
			if (backward && g.Cluster > prev) || (!backward && g.Cluster < prev) {
				return len(buf.Info), "c01:hb-monotone", fmt.Sprintf("hb-monotone: clusters %d then %d", prev, g.Cluster)
			}
		}
		prev = g.Cluster
	}
	return len(buf.Info), "", ""
}

// spliceGPOS returns the font `data` with the GPOS (and GDEF) tables of Roboto added: an AAT font that also has
// OpenType positioning, so that the shaper removes morx-deleted glyphs before positions exist.
func spliceGPOS(data []byte) *font.Face {
	donor, err := ottd.Files.ReadFile("common/Roboto-BoldItalic.ttf")
	if err != nil {
		return nil
	}
	var face *font.Face
	func() {
		defer func() { recover() }()
		ld, err := ot.NewLoader(bytes.NewReader(data))
		if err != nil {
			return
		}
		dl, err := ot.NewLoader(bytes.NewReader(donor))
		if err != nil {
			return
		}
		tabs := map[ot.Tag][]byte{}
		for _, tg := range ld.Tables() {
			if c, err := ld.RawTable(tg); err == nil {
				tabs[tg] = c
			}
		}
		for _, name := range []string{"GPOS"} {
			tg := ot.MustNewTag(name)
			if c, err := dl.RawTable(tg); err == nil {
				tabs[tg] = c
			}
		}
		var tags []ot.Tag
		for tg := range tabs {
			tags = append(tags, tg)
		}
		sort.Slice(tags, func(i, j int) bool { return tags[i] < tags[j] })
		var list []ot.Table
		for _, tg := range tags {
			list = append(list, ot.Table{Tag: tg, Content: tabs[tg]})
		}
		face, _ = font.ParseTTF(bytes.NewReader(ot.WriteTTF(list)))
	}()
	return face
}

func main() {
	tier := flag.String("tier", "quick", "")
	seed := flag.Int64("seed", 1, "")
	replay := flag.String("replay", "", "JSON input to re-run")
	flag.Parse()
	enc := json.NewEncoder(os.Stdout)
	fonts := listFonts()
	load := func(ref fontRef) *font.Face {
		b, err := ref.fs.ReadFile(strings.TrimSuffix(ref.path, "+GPOS"))
		if err != nil {
			return nil
		}
		if strings.HasSuffix(ref.path, "+GPOS") {
			return spliceGPOS(b)
		}
		var face *font.Face
		func() {
			defer func() { recover() }()
			if l := strings.ToLower(ref.path); strings.HasSuffix(l, ".dfont") || strings.HasSuffix(l, ".ttc") {
				if faces, err := font.ParseTTC(bytes.NewReader(b)); err == nil && len(faces) > 0 {
					face = faces[0]
				}
				return
			}
			face, _ = font.ParseTTF(bytes.NewReader(b))
		}()
		return face
	}
	if *replay != "" {
		var in input
		if err := json.Unmarshal([]byte(*replay), &in); err != nil {
			panic(err)
		}
		for _, ref := range fonts {
			if ref.name+":"+ref.path == in.Font {
				r := shapeOnce(load(ref), in)
				fmt.Println(r.kind, r.fail)
			}
		}
		return
	}
	r := rand.New(rand.NewSource(*seed))
	nFonts, nTexts := len(fonts), 60
	if *tier != "quick" {
		nFonts, nTexts = len(fonts), 600
	}
	// always include the AAT (morx) fonts and the OpenType layout samples in the quick sample
	perm := r.Perm(len(fonts))
	var chosen []fontRef
	for _, ref := range fonts {
		if *tier == "quick" && (strings.Contains(ref.path, "morx/") || strings.Contains(ref.path, "common/")) && len(chosen) < 40 && r.Intn(2) == 0 {
			chosen = append(chosen, ref)
		}
	}
	for _, i := range perm {
		if len(chosen) >= nFonts {
			break
		}
		chosen = append(chosen, fonts[i])
	}
	evals, nontrivial := 0, map[[8]byte]bool{}
	var samples []input
	hist := map[string]int{}
	reported := map[string]bool{}
	start := time.Now()
	budget := 45 * time.Second
	if *tier != "quick" {
		budget = 15 * time.Minute
	}
	// regression inputs: witnesses of the defects this sweep found (fixed ones must stay fixed; the known one reports itself)
	regressions := []input{
		{Font: "harfbuzz:fonts/AdobeBlank2.ttf", Text: []rune{8203, 2509, 2503, 2495}, RunStart: 0, RunEnd: 4, Dir: 1, Script: "Beng"},
		{Font: "opentype:morx/Thirtyone.ttf", Text: []rune{65, 1488, 1473, 1513, 1489, 1500, 1513}, RunStart: 0, RunEnd: 7, Dir: 14, Script: "Hebr"},
		{Font: "harfbuzz:harfbuzz_reference/in-house/fonts/3f24aff8b768e586162e9b9d03b15c36508dd2ae.ttf", Text: []rune{1473, 8205, 1464, 8207}, RunStart: 0, RunEnd: 4, Dir: 1, Script: "Hebr"},
		{Font: "opentype:morx/Thirtyone.ttf+GPOS", Text: []rune{65}, RunStart: 0, RunEnd: 1, Dir: 3, Script: "Latn"},
		{Font: "opentype:morx/Thirtysix.ttf+GPOS", Text: []rune{173, 86, 44, 97, 807, 97, 84, 65, 44, 65, 803, 105, 44, 45, 86, 65, 65, 807, 32, 776}, RunStart: 7, RunEnd: 12, Dir: 0, Script: "Latn"},
		{Font: "opentype:morx/Nine.ttf+GPOS", Text: []rune{1614}, RunStart: 0, RunEnd: 1, Dir: 3, Script: "Hang"},
		{Font: "harfbuzz:harfbuzz_reference/text-rendering-tests/fonts/TestGVAR-Composite-Missing.ttf", Text: []rune{2509, 8204, 2503}, RunStart: 0, RunEnd: 3, Dir: 1, Script: "Beng"},
		{Font: "opentype:toys/gpos/gpos3_font2.otf", Text: []rune{2381, 128512, 2364, 2367, 2352, 2364}, RunStart: 0, RunEnd: 6, Dir: 1, Script: "Deva"},
		// a buffer of transparent characters only between Arabic letters, ProduceUnsafeToConcat set: applyArabicJoining called unsafeToConcat(-1, len)
		{Font: "harfbuzz:harfbuzz_reference/aots/fonts/gpos_chaining3_next_glyph_f1.otf", Text: []rune{6070, 1614, 1605, 1605, 65039, 1604, 4096}, RunStart: 4, RunEnd: 5, Dir: 0, Script: "Arab", HB: true, Flags: 125, Level: 1},
	}
	for _, in := range regressions {
		for _, ref := range fonts {
			if ref.name+":"+ref.path != in.Font {
				continue
			}
			face := load(ref)
			if face == nil {
				enc.Encode(map[string]any{"fail": "regression font does not load", "kind": "harness", "input": in})
				continue
			}
			res := shapeOnce(face, in)
			evals++
			hist["regression"]++
			if res.fail != "" {
				hist["fail:"+res.kind]++
				reported[res.kind+"|"+in.Font] = true
				enc.Encode(map[string]any{"fail": res.fail, "kind": res.kind, "what": res.fail, "input": in})
			}
		}
	}
	// deterministic scope for the AAT fonts: every prefix and suffix range of a ligature / contextual feature over short
	// Latin texts at the harfbuzz.Buffer level (per-range enabling of morx subtables, ranges ending before the text end)
	for _, ref := range fonts {
		aat := strings.Contains(ref.path, "morx/") || strings.HasSuffix(strings.ToLower(ref.path), ".dfont")
		if !aat || strings.HasSuffix(ref.path, "+GPOS") {
			continue
		}
		face := load(ref)
		if face == nil {
			continue
		}
		for _, txt := range []string{"office", "fi A", "ab"} {
			text := []rune(txt)
			for _, tag := range []string{"liga", "calt"} {
				for k := 1; k <= len(text); k++ {
					for _, rg := range [][2]int{{0, k}, {k - 1, len(text)}} {
						in := input{Font: ref.name + ":" + ref.path, Text: text, RunStart: 0, RunEnd: len(text), Dir: 0, Script: "Latn",
							HB: true, Features: []hbFeat{{Tag: tag, Value: 1, Start: rg[0], End: rg[1]}}}
						res := shapeOnce(face, in)
						evals++
						hist["aat-ranges"]++
						if res.fail != "" {
							hist["fail:"+res.kind]++
							key := res.kind + "|" + in.Font
							if !reported[key] && len(reported) < 40 {
								reported[key] = true
								enc.Encode(map[string]any{"fail": res.fail, "kind": res.kind, "what": res.fail, "input": in})
							}
						}
					}
				}
			}
		}
	}
	// deterministic scope for the fonts positioned through a 'kern' / 'kerx' table: natively LTR and RTL texts in both
	// directions with kerning requested, switched off (kern=0) and ranged, at the harfbuzz.Buffer level (subtables that
	// are skipped or processed against the buffer direction)
	for _, ref := range fonts {
		if strings.HasSuffix(ref.path, "+GPOS") {
			continue
		}
		face := load(ref)
		if face == nil || face.Font == nil || (len(face.Font.Kern) == 0 && len(face.Font.Kerx) == 0) {
			continue
		}
		for _, tc := range []struct {
			script string
			text   []rune
		}{{"Latn", []rune("AVA To")}, {"Hebr", []rune{0x05D0, 0x05D1, 0x05BC, 0x05D2, 0x0020, 0x05D3}}, {"Arab", []rune{0x0644, 0x0627, 0x0645, 0x064E, 0x0628}}} {
			for dir := 0; dir < 2; dir++ {
				for _, feats := range [][]hbFeat{nil, {{Tag: "kern", Value: 0, Start: 0, End: -1}}, {{Tag: "kern", Value: 1, Start: 1, End: 3}}, {{Tag: "kern", Value: 0, Start: 0, End: 2}}} {
					in := input{Font: ref.name + ":" + ref.path, Text: tc.text, RunStart: 0, RunEnd: len(tc.text), Dir: dir, Script: tc.script, HB: true, Features: feats}
					res := shapeOnce(face, in)
					evals++
					hist["kern-table-scope"]++
					if res.fail != "" {
						hist["fail:"+res.kind]++
						key := res.kind + "|" + in.Font
						if !reported[key] && len(reported) < 40 {
							reported[key] = true
							enc.Encode(map[string]any{"fail": res.fail, "kind": res.kind, "what": res.fail, "input": in})
						}
					}
				}
			}
		}
	}
	for fi, ref := range chosen {
		face := load(ref)
		if face == nil {
			hist["font-unloadable"]++
			continue
		}
		hist["fonts"]++
		ownTags, ownAlpha := fontAlphabets(face)
		// deterministic Hangul scope for fonts with conjoining jamo: precomposed LV / LVT syllables the font has or is
		// made to lack, alone, last in the run, before a trailing jamo, a letter or a tone mark
		if _, okL := face.NominalGlyph(0x1100); okL {
			if _, okV := face.NominalGlyph(0x1161); okV {
				for _, syl := range []rune{0xAC00, 0xAC01, 0xB894, 0xD7A3} {
					for _, ctx := range [][]rune{{syl}, {syl, 0x11A8}, {syl, 'a'}, {'a', syl}, {syl, 0x302E}, {0x1100, 0x1161, syl}, {syl, syl}} {
						for _, hole := range [][]rune{nil, {syl}} {
							for _, e := range []int{len(ctx), indexOf(ctx, syl) + 1} {
								in := input{Font: ref.name + ":" + ref.path, Text: ctx, RunStart: 0, RunEnd: e, Dir: 0, Script: "Hang", Holes: hole}
								res := shapeOnce(face, in)
								evals++
								hist["hangul-scope"]++
								if res.fail != "" {
									hist["fail:"+res.kind]++
									key := res.kind + "|" + in.Font
									if !reported[key] && len(reported) < 40 {
										reported[key] = true
										enc.Encode(map[string]any{"fail": res.fail, "kind": res.kind, "what": res.fail, "input": in})
									}
								}
							}
						}
					}
				}
			}
		}
		// deterministic scope over the font's own runes of its complex scripts: every rune alone, as the last rune of a
		// run after a base and a space, and as the first rune before a base (lone dependent signs, rephas, viramas,
		// jamo at the run boundaries), at the shaping.Shape level
		for _, tag := range ownTags {
			if simpleScripts[tag] {
				continue
			}
			a := ownAlpha[tag]
			base := a[0]
			for _, x := range a {
				for _, c := range []struct {
					text []rune
					s, e int
				}{{[]rune{x}, 0, 1}, {[]rune{base, ' ', x, base}, 0, 3}, {[]rune{x, base}, 0, 2}} {
					if time.Since(start) > budget {
						break
					}
					in := input{Font: ref.name + ":" + ref.path, Text: c.text, RunStart: c.s, RunEnd: c.e, Dir: 0, Script: tag}
					res := shapeOnce(face, in)
					evals++
					hist["own-boundary"]++
					if res.fail != "" {
						hist["fail:"+res.kind]++
						key := res.kind + "|" + in.Font
						if !reported[key] && len(reported) < 40 {
							reported[key] = true
							enc.Encode(map[string]any{"fail": res.fail, "kind": res.kind, "what": res.fail, "input": in})
						}
					}
				}
			}
		}
		for ti := 0; ti < nTexts; ti++ {
			if time.Since(start) > budget {
				hist["budget-cut"]++
				break
			}
			script := scriptOrder[r.Intn(len(scriptOrder))]
			aat := strings.Contains(ref.path, "morx/") || strings.HasSuffix(strings.ToLower(ref.path), ".dfont")
			if aat && r.Intn(10) < 6 {
				script = "Latn" // AAT sample fonts mostly have Latin state tables (ligatures, contextual forms)
			}
			text := genText(r, script)
			if len(ownTags) > 0 && ti%5 >= 3 {
				// text over the font's own runes of one of its scripts (any sequence: mostly broken syllables, dependent
				// signs first or last), a few specials mixed in
				script = ownTags[r.Intn(len(ownTags))]
				a := ownAlpha[script]
				n := 1 + r.Intn(8)
				text = text[:0]
				for len(text) < n {
					if r.Intn(8) == 0 {
						text = append(text, specials[r.Intn(len(specials))])
					} else {
						text = append(text, a[r.Intn(len(a))])
					}
				}
				hist["own-alphabet"]++
			}
			L := len(text)
			s, e := 0, L
			if r.Intn(3) == 0 && L > 0 {
				s = r.Intn(L + 1)
				e = s + r.Intn(L-s+1)
			}
			dir := r.Intn(4)
			if dir >= 2 && r.Intn(2) == 0 {
				dir |= 4 | 8 // sideways
			}
			in := input{Font: ref.name + ":" + ref.path, Text: text, RunStart: s, RunEnd: e, Dir: dir, Script: script}
			if script == "Hang" && ti%2 == 0 { // a font with jamo but without (some of) the precomposed syllables
				for _, x := range text[s:e] {
					if x >= 0xAC00 && x <= 0xD7A3 && r.Intn(4) != 0 {
						in.Holes = append(in.Holes, x)
					}
				}
			}
			if ti%7 == 3 && e > s { // a font lacking some of the runes of the run
				for k := 1 + r.Intn(2); k > 0; k-- {
					in.Holes = append(in.Holes, text[s+r.Intn(e-s)])
				}
				hist["holes"]++
			}
			if (ti%3 == 2 || (aat && ti%3 == 1)) && e > s { // harfbuzz.Buffer level: ranged and global features, flags, cluster levels
				in.HB = true
				in.Dir &= 3
				in.Flags = uint16(r.Intn(4))
				// the other buffer flags (PreserveDefaultIgnorables, RemoveDefaultIgnorables, DoNotinsertDottedCircle,
				// ProduceUnsafeToConcat, ProduceSafeToInsertTatweel), derived without consuming the random stream
				in.Flags |= uint16((ti*7+len(text)*3+fi)%32) << 2
				in.Level = uint8(r.Intn(3))
				tags := []string{"liga", "kern", "smcp", "dlig", "calt", "frac", "ccmp", "rlig", "onum"}
				nf := r.Intn(3)
				if aat {
					nf = 1 + r.Intn(2) // feature ranges drive the per-range enabling of morx subtables
					tags = []string{"liga", "dlig", "smcp", "calt", "kern"}
				}
				for k := nf; k > 0; k-- {
					f := hbFeat{Tag: tags[r.Intn(len(tags))], Value: uint32(r.Intn(2)), Start: 0, End: -1}
					if r.Intn(2) == 0 { // a range inside the run, often ending before its end
						f.Start = s + r.Intn(e-s)
						f.End = f.Start + 1 + r.Intn(e-f.Start)
					}
					in.Features = append(in.Features, f)
				}
			}
			res := shapeOnce(face, in)
			evals++
			hist["dir="+fmt.Sprint(dir)]++
			hist["script="+script]++
			if res.glyphs > 0 {
				b, _ := json.Marshal(in)
				h := sha256.Sum256(b)
				var k [8]byte
				copy(k[:], h[:8])
				nontrivial[k] = true
			}
			if len(samples) < 3 && res.glyphs > 0 {
				samples = append(samples, in)
			}
			if res.fail != "" {
				hist["fail:"+res.kind]++
				key := res.kind + "|" + in.Font
				if !reported[key] && len(reported) < 40 {
					reported[key] = true
					enc.Encode(map[string]any{"fail": res.fail, "kind": res.kind, "what": res.fail, "input": in})
				}
				if res.kind == "timeout" {
					break
				}
			}
		}
		_ = fi
	}
	enc.Encode(map[string]any{"stats": map[string]any{"evaluations": evals, "distinct_nontrivial": len(nontrivial),
		"samples": samples, "histogram": hist}})
}
