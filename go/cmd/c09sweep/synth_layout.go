package main

// Table synthesis: 'GDEF' (class definitions 1 / 2, attach list, ligature carets 1 / 2 / 3, mark glyph
// sets, item variation store), 'GSUB' lookup types 1..8 and 'GPOS' lookup types 1..9 in all their
// formats (extension wrappers, context / chained context formats 1..3 with nested lookup records,
// coverage and class definition formats 1 / 2, device and variation index tables, anchors 1 / 2 / 3).

import (
	"math/rand"
	"sort"
)

func init() {
	var gs []synFormat
	add := func(dst *[]synFormat, gpos bool, ty int, fmts ...int) {
		for _, f := range fmts {
			for _, ext := range []bool{false, true} {
				ty, f, ext := ty, f, ext
				name := "type" + itoa(ty) + "." + itoa(f)
				if ext {
					name += ".ext"
				}
				*dst = append(*dst, synFormat{name: name, build: func(r *rand.Rand, e *synEnv) []builtTable {
					tag := "GSUB"
					if gpos {
						tag = "GPOS"
					}
					return []builtTable{{tag, buildLayout(r, e, gpos, ty, f, ext)}, {"GDEF", buildGDEF(r, e, 0)}}
				}})
			}
		}
	}
	add(&gs, false, 1, 1, 2)
	add(&gs, false, 2, 1)
	add(&gs, false, 3, 1)
	add(&gs, false, 4, 1)
	add(&gs, false, 5, 1, 2, 3)
	add(&gs, false, 6, 1, 2, 3)
	add(&gs, false, 8, 1)
	registerKind(synKind{name: "GSUB", base: baseTT, formats: gs})
	var gp []synFormat
	add(&gp, true, 1, 1, 2)
	add(&gp, true, 2, 1, 2)
	add(&gp, true, 3, 1)
	add(&gp, true, 4, 1)
	add(&gp, true, 5, 1)
	add(&gp, true, 6, 1)
	add(&gp, true, 7, 1, 2, 3)
	add(&gp, true, 8, 1, 2, 3)
	registerKind(synKind{name: "GPOS", base: baseTT, formats: gp})
	var gd []synFormat
	for v := 0; v <= 3; v++ {
		v := v
		gd = append(gd, synFormat{name: "v1." + itoa(v), build: func(r *rand.Rand, e *synEnv) []builtTable {
			return []builtTable{{"GDEF", buildGDEF(r, e, v)}, {"GPOS", buildLayout(r, e, true, 4, 1, false)}}
		}})
	}
	registerKind(synKind{name: "GDEF", base: baseTT, formats: gd})
}

// ---------------------------------------------------------------------------------------- common

func coverage(r *rand.Rand, e *synEnv, gs []int) *tb {
	t := &tb{}
	if r.Intn(2) == 0 {
		t.f16("cov.format", 1, -1)
		t.c16("cov.glyphCount", len(gs))
		reg := sampleIdx(r, len(gs))
		for i, g := range gs {
			if reg[i] {
				t.f16("cov.glyph", g, e.nGlyphs)
			} else {
				t.u16(g)
			}
		}
		return t
	}
	type rg struct{ a, b, i int }
	var rs []rg
	for i, g := range gs {
		if n := len(rs); n > 0 && rs[n-1].b+1 == g {
			rs[n-1].b = g
		} else {
			rs = append(rs, rg{g, g, i})
		}
	}
	t.f16("cov.format", 2, -1)
	t.c16("cov.rangeCount", len(rs))
	for _, x := range rs {
		t.f16("cov.start", x.a, e.nGlyphs)
		t.f16("cov.end", x.b, e.nGlyphs)
		t.f16("cov.startIndex", x.i, len(gs))
	}
	return t
}

func classDef(r *rand.Rand, e *synEnv, nClasses int) *tb {
	t := &tb{}
	if r.Intn(2) == 0 {
		first := 0
		if len(e.pool) > 0 {
			first = e.pool[0]
		}
		n := 1 + r.Intn(60)
		t.f16("cd.format", 1, -1)
		t.f16("cd.startGlyph", first, e.nGlyphs)
		t.c16("cd.glyphCount", n)
		reg := sampleIdx(r, n)
		for i := 0; i < n; i++ {
			if reg[i] {
				t.f16("cd.class", r.Intn(nClasses), nClasses)
			} else {
				t.u16(r.Intn(nClasses))
			}
		}
		return t
	}
	gs := e.gset(r, 3+r.Intn(20))
	t.f16("cd.format", 2, -1)
	t.c16("cd.rangeCount", len(gs))
	for _, g := range gs {
		t.f16("cd.start", g, e.nGlyphs)
		t.f16("cd.end", g, e.nGlyphs)
		t.f16("cd.class", r.Intn(nClasses), nClasses)
	}
	return t
}

func device(r *rand.Rand) *tb {
	t := &tb{}
	if r.Intn(2) == 0 { // variation index
		t.f16("dev.outer", r.Intn(2), -1)
		t.f16("dev.inner", r.Intn(4), -1)
		t.f16("dev.format", 0x8000, -1)
		return t
	}
	f := 1 + r.Intn(3)
	a := 9 + r.Intn(4)
	b := a + r.Intn(6)
	t.f16("dev.startSize", a, -1)
	t.f16("dev.endSize", b, -1)
	t.f16("dev.format", f, 4)
	n := ((b-a+1)<<uint(f) + 15) / 16
	for i := 0; i < n; i++ {
		t.u16(r.Intn(0x10000))
	}
	return t
}

type pend struct {
	field int
	sub   *tb
	name  string
}

// flush writes the pending sub-tables and sets the offsets pointing at them (relative to from).
func flush(t *tb, from int, ps []pend) {
	for _, p := range ps {
		t.here(p.field, from)
		t.embed(p.name, p.sub)
	}
}

func anchor(r *rand.Rand) *tb {
	t := &tb{}
	f := 1 + r.Intn(3)
	t.f16("anchor.format", f, 4)
	t.u16(kernValue(r))
	t.u16(kernValue(r))
	switch f {
	case 2:
		t.f16("anchor.point", r.Intn(6), -1)
	case 3:
		ox := t.o16("anchor.xDevice")
		oy := t.o16("anchor.yDevice")
		if r.Intn(2) == 0 {
			t.here(ox, 0)
			t.embed("x", device(r))
		}
		if r.Intn(2) == 0 {
			t.here(oy, 0)
			t.embed("y", device(r))
		}
	}
	return t
}

// valueRecord writes a value record of the given format; the device tables go to *ps (offsets from
// the start of the enclosing table, set by the caller's flush).
func valueRecord(r *rand.Rand, t *tb, vf int, ps *[]pend) {
	for bit := 0; bit < 8; bit++ {
		if vf&(1<<uint(bit)) == 0 {
			continue
		}
		if bit < 4 {
			t.u16(kernValue(r))
		} else if r.Intn(3) == 0 {
			t.u16(0)
		} else {
			*ps = append(*ps, pend{t.o16("value.device"), device(r), "dev"})
		}
	}
}

func valueFormat(r *rand.Rand) int {
	vf := r.Intn(16)
	if r.Intn(3) == 0 {
		vf |= 1 << uint(4+r.Intn(4))
	}
	return vf
}

// ---------------------------------------------------------------------------------------- GDEF

func buildGDEF(r *rand.Rand, e *synEnv, minor int) *tb {
	t := &tb{}
	t.u16(1)
	t.f16("minor", minor, 4)
	oClass := t.o16("glyphClassDef")
	oAttach := t.o16("attachList")
	oLig := t.o16("ligCaretList")
	oMark := t.o16("markAttachClassDef")
	oSets, oVar := -1, -1
	if minor >= 2 {
		oSets = t.o16("markGlyphSetsDef")
	}
	if minor >= 3 {
		oVar = t.o32("itemVarStore")
	}
	t.here(oClass, 0)
	t.embed("class", classDef(r, e, 5))
	if r.Intn(4) > 0 {
		t.here(oAttach, 0)
		A := t.pos()
		gs := e.gset(r, 1+r.Intn(5))
		oc := t.o16("attach.coverage")
		t.c16("attach.glyphCount", len(gs))
		var os []int
		for range gs {
			os = append(os, t.o16("attach.pointOffset"))
		}
		for _, o := range os {
			t.here(o, A)
			n := 1 + r.Intn(3)
			t.c16("attach.pointCount", n)
			for i := 0; i < n; i++ {
				t.u16(r.Intn(10))
			}
		}
		t.here(oc, A)
		t.embed("attach", coverage(r, e, gs))
	}
	if r.Intn(4) > 0 {
		t.here(oLig, 0)
		L := t.pos()
		gs := e.gset(r, 1+r.Intn(5))
		oc := t.o16("lig.coverage")
		t.c16("lig.ligGlyphCount", len(gs))
		var os []int
		for range gs {
			os = append(os, t.o16("lig.ligGlyphOffset"))
		}
		for _, o := range os {
			t.here(o, L)
			G := t.pos()
			n := 1 + r.Intn(3)
			t.c16("lig.caretCount", n)
			var cs []int
			for i := 0; i < n; i++ {
				cs = append(cs, t.o16("lig.caretOffset"))
			}
			for _, c := range cs {
				t.here(c, G)
				C := t.pos()
				f := 1 + r.Intn(3)
				t.f16("caret.format", f, 4)
				t.f16("caret.value", r.Intn(500), -1)
				if f == 3 {
					od := t.o16("caret.device")
					t.here(od, C)
					t.embed("caret", device(r))
				}
			}
		}
		t.here(oc, L)
		t.embed("lig", coverage(r, e, gs))
	}
	if r.Intn(3) > 0 {
		t.here(oMark, 0)
		t.embed("markAttach", classDef(r, e, 4))
	}
	if oSets >= 0 && r.Intn(4) > 0 {
		t.here(oSets, 0)
		S := t.pos()
		t.f16("sets.format", 1, -1)
		n := 1 + r.Intn(3)
		t.c16("sets.count", n)
		var os []int
		for i := 0; i < n; i++ {
			os = append(os, t.o32("sets.coverageOffset"))
		}
		for _, o := range os {
			t.here(o, S)
			t.embed("sets", coverage(r, e, e.gset(r, 1+r.Intn(8))))
		}
	}
	if oVar >= 0 && r.Intn(4) > 0 {
		t.here(oVar, 0)
		nAxes := e.axes
		if nAxes == 0 {
			nAxes = 1
		}
		itemVarStore(r, t, nAxes, 1+r.Intn(3), 1+r.Intn(2), 1+r.Intn(4))
	}
	return t
}

// ---------------------------------------------------------------------------------------- GSUB / GPOS

func buildLayout(r *rand.Rand, e *synEnv, gpos bool, ty, format int, ext bool) *tb {
	t := &tb{}
	t.u16(1)
	t.f16("minor", 0, 2)
	oScripts := t.o16("scriptList")
	oFeatures := t.o16("featureList")
	oLookups := t.o16("lookupList")
	feats := []string{"liga", "calt", "ccmp", "rlig"}
	if gpos {
		feats = []string{"kern", "mark", "dist", "mkmk"}
	}
	nLookups := 2 // lookup 0: the one under test; lookup 1: a simple one for the nested records
	// scripts
	t.here(oScripts, 0)
	S := t.pos()
	scripts := []string{"DFLT", "latn"}
	t.c16("scriptCount", len(scripts))
	var so []int
	for _, s := range scripts {
		t.bytes([]byte(s)...)
		so = append(so, t.o16("script.offset"))
	}
	for i := range scripts {
		t.here(so[i], S)
		P := t.pos()
		od := t.o16("script.defaultLangSys")
		nLang := r.Intn(2)
		t.c16("script.langSysCount", nLang)
		var lo []int
		for k := 0; k < nLang; k++ {
			t.bytes('T', 'R', 'K', ' ')
			lo = append(lo, t.o16("langSys.offset"))
		}
		for _, o := range append([]int{od}, lo...) {
			t.here(o, P)
			t.u16(0)
			t.f16("langSys.requiredFeature", 0xFFFF, len(feats))
			t.c16("langSys.featureCount", len(feats))
			for k := range feats {
				t.f16("langSys.featureIndex", k, len(feats))
			}
		}
	}
	// features
	t.here(oFeatures, 0)
	F := t.pos()
	t.c16("featureCount", len(feats))
	var fo []int
	for _, f := range feats {
		t.bytes([]byte(f)...)
		fo = append(fo, t.o16("feature.offset"))
	}
	for i := range feats {
		t.here(fo[i], F)
		t.u16(0)
		n := 1
		if i > 0 {
			n = r.Intn(2)
		}
		t.c16("feature.lookupCount", n)
		for k := 0; k < n; k++ {
			t.f16("feature.lookupIndex", 0, nLookups)
		}
	}
	// lookups
	t.here(oLookups, 0)
	L := t.pos()
	t.c16("lookupCount", nLookups)
	lo := []int{t.o16("lookup.offset"), t.o16("lookup.offset")}
	for li := 0; li < nLookups; li++ {
		t.here(lo[li], L)
		K := t.pos()
		lty, lfmt := ty, format
		if li == 1 {
			lty, lfmt = 1, 1+r.Intn(2)
		}
		wrap := ext && li == 0
		extTy := 7
		if gpos {
			extTy = 9
		}
		if wrap {
			t.f16("lookup.type", extTy, extTy+1)
		} else {
			t.f16("lookup.type", lty, extTy+1)
		}
		flag := []int{0, 0, 2, 8, 0x10, 0x0100}[r.Intn(6)]
		t.f16("lookup.flag", flag, -1)
		nSub := 1 + r.Intn(2)
		t.c16("lookup.subtableCount", nSub)
		var subs []int
		for k := 0; k < nSub; k++ {
			subs = append(subs, t.o16("lookup.subtableOffset"))
		}
		if flag&0x10 != 0 {
			t.f16("lookup.markFilteringSet", r.Intn(2), -1)
		}
		for _, o := range subs {
			t.here(o, K)
			s := &tb{}
			if gpos {
				gposSubtable(r, e, s, lty, lfmt, nLookups)
			} else {
				gsubSubtable(r, e, s, lty, lfmt, nLookups)
			}
			if wrap {
				t.f16("ext.format", 1, -1)
				t.f16("ext.lookupType", lty, extTy)
				t.f32("ext.offset", 8, -2)
			}
			t.embed("sub", s)
		}
	}
	return t
}

// seqLookups writes n sequence lookup records.
func seqLookups(r *rand.Rand, t *tb, n, seqLen, nLookups int) {
	for i := 0; i < n; i++ {
		t.f16("seqLookup.sequenceIndex", r.Intn(seqLen), seqLen)
		t.f16("seqLookup.lookupIndex", 1, nLookups)
	}
}

func glyphs(r *rand.Rand, e *synEnv, t *tb, name string, n int) {
	for i := 0; i < n; i++ {
		t.f16(name, e.g(r), e.nGlyphs)
	}
}

// contextual writes a (chained) context subtable of format 1, 2 or 3, shared by GSUB 5/6 and GPOS 7/8.
func contextual(r *rand.Rand, e *synEnv, s *tb, chained bool, format, nLookups int) {
	s.f16("format", format, 4)
	nb, nl := 0, 0
	if chained {
		nb, nl = r.Intn(3), r.Intn(3)
	}
	switch format {
	case 1, 2:
		gs := e.gset(r, 2+r.Intn(6))
		oc := s.o16("coverage")
		var ocd []int
		nClasses := 1 + r.Intn(4)
		if format == 2 {
			n := 1
			if chained {
				n = 3
			}
			for i := 0; i < n; i++ {
				ocd = append(ocd, s.o16("classDef"))
			}
		}
		nSets := len(gs)
		if format == 2 {
			nSets = nClasses
		}
		s.c16("setCount", nSets)
		var os []int
		for i := 0; i < nSets; i++ {
			os = append(os, s.o16("set.offset"))
		}
		for _, o := range os {
			if r.Intn(5) == 0 {
				continue // null offset
			}
			s.here(o, 0)
			R := s.pos()
			nr := 1 + r.Intn(2)
			s.c16("ruleCount", nr)
			var ro []int
			for i := 0; i < nr; i++ {
				ro = append(ro, s.o16("rule.offset"))
			}
			for _, x := range ro {
				s.here(x, R)
				ni := 1 + r.Intn(3)
				nrec := 1 + r.Intn(2)
				item := func(name string, n int) {
					if format == 1 {
						glyphs(r, e, s, name, n)
					} else {
						for i := 0; i < n; i++ {
							s.f16(name, r.Intn(nClasses), nClasses)
						}
					}
				}
				if chained {
					s.c16("rule.backtrackCount", nb)
					item("rule.backtrack", nb)
					s.c16("rule.inputCount", ni)
					item("rule.input", ni-1)
					s.c16("rule.lookaheadCount", nl)
					item("rule.lookahead", nl)
					s.c16("rule.seqLookupCount", nrec)
				} else {
					s.c16("rule.glyphCount", ni)
					s.c16("rule.seqLookupCount", nrec)
					item("rule.input", ni-1)
				}
				seqLookups(r, s, nrec, ni, nLookups)
			}
		}
		s.here(oc, 0)
		s.embed("", coverage(r, e, gs))
		for _, o := range ocd {
			s.here(o, 0)
			s.embed("", classDef(r, e, nClasses))
		}
	default:
		ni := 1 + r.Intn(3)
		nrec := 1 + r.Intn(2)
		var os []int
		covs := func(name string, n int) {
			s.c16(name+"Count", n)
			for i := 0; i < n; i++ {
				os = append(os, s.o16(name+".coverage"))
			}
		}
		if chained {
			covs("backtrack", nb)
			covs("input", ni)
			covs("lookahead", nl)
			s.c16("seqLookupCount", nrec)
		} else {
			s.c16("glyphCount", ni)
			s.c16("seqLookupCount", nrec)
			for i := 0; i < ni; i++ {
				os = append(os, s.o16("input.coverage"))
			}
		}
		seqLookups(r, s, nrec, ni, nLookups)
		for _, o := range os {
			s.here(o, 0)
			s.embed("", coverage(r, e, e.gset(r, 2+r.Intn(8))))
		}
	}
}

func gsubSubtable(r *rand.Rand, e *synEnv, s *tb, ty, format, nLookups int) {
	switch ty {
	case 1:
		gs := e.gset(r, 2+r.Intn(8))
		s.f16("format", format, 3)
		oc := s.o16("coverage")
		if format == 1 {
			s.f16("deltaGlyphID", r.Intn(5), -1)
		} else {
			s.c16("glyphCount", len(gs))
			glyphs(r, e, s, "substitute", len(gs))
		}
		s.here(oc, 0)
		s.embed("", coverage(r, e, gs))
	case 2, 3, 4:
		gs := e.gset(r, 1+r.Intn(5))
		s.f16("format", 1, 2)
		oc := s.o16("coverage")
		s.c16("setCount", len(gs))
		var os []int
		for range gs {
			os = append(os, s.o16("set.offset"))
		}
		for _, o := range os {
			s.here(o, 0)
			if ty != 4 {
				n := 1 + r.Intn(3)
				s.c16("set.glyphCount", n)
				glyphs(r, e, s, "set.glyph", n)
				continue
			}
			G := s.pos()
			n := 1 + r.Intn(2)
			s.c16("ligSet.ligatureCount", n)
			var ls []int
			for i := 0; i < n; i++ {
				ls = append(ls, s.o16("ligSet.ligatureOffset"))
			}
			for _, l := range ls {
				s.here(l, G)
				nc := 1 + r.Intn(3)
				s.f16("lig.glyph", e.g(r), e.nGlyphs)
				s.c16("lig.componentCount", nc)
				glyphs(r, e, s, "lig.component", nc-1)
			}
		}
		s.here(oc, 0)
		s.embed("", coverage(r, e, gs))
	case 5:
		contextual(r, e, s, false, format, nLookups)
	case 6:
		contextual(r, e, s, true, format, nLookups)
	case 8:
		gs := e.gset(r, 2+r.Intn(6))
		s.f16("format", 1, 2)
		oc := s.o16("coverage")
		nb, nl := r.Intn(3), r.Intn(3)
		var os []int
		s.c16("backtrackCount", nb)
		for i := 0; i < nb; i++ {
			os = append(os, s.o16("backtrack.coverage"))
		}
		s.c16("lookaheadCount", nl)
		for i := 0; i < nl; i++ {
			os = append(os, s.o16("lookahead.coverage"))
		}
		s.c16("glyphCount", len(gs))
		glyphs(r, e, s, "substitute", len(gs))
		s.here(oc, 0)
		s.embed("", coverage(r, e, gs))
		for _, o := range os {
			s.here(o, 0)
			s.embed("", coverage(r, e, e.gset(r, 2+r.Intn(8))))
		}
	}
}

func gposSubtable(r *rand.Rand, e *synEnv, s *tb, ty, format, nLookups int) {
	switch ty {
	case 1:
		gs := e.gset(r, 2+r.Intn(8))
		vf := valueFormat(r)
		var ps []pend
		s.f16("format", format, 3)
		oc := s.o16("coverage")
		s.f16("valueFormat", vf, -1)
		if format == 1 {
			valueRecord(r, s, vf, &ps)
		} else {
			s.c16("valueCount", len(gs))
			for range gs {
				valueRecord(r, s, vf, &ps)
			}
		}
		flush(s, 0, ps)
		s.here(oc, 0)
		s.embed("", coverage(r, e, gs))
	case 2:
		gs := e.gset(r, 2+r.Intn(6))
		vf1, vf2 := valueFormat(r), valueFormat(r)&0x0F
		s.f16("format", format, 3)
		oc := s.o16("coverage")
		s.f16("valueFormat1", vf1, -1)
		s.f16("valueFormat2", vf2, -1)
		if format == 1 {
			s.c16("pairSetCount", len(gs))
			var os []int
			for range gs {
				os = append(os, s.o16("pairSet.offset"))
			}
			for _, o := range os {
				s.here(o, 0)
				P := s.pos()
				var ps []pend
				second := e.gset(r, 1+r.Intn(4))
				s.c16("pairSet.pairValueCount", len(second))
				for _, g := range second {
					s.f16("pairSet.secondGlyph", g, e.nGlyphs)
					valueRecord(r, s, vf1, &ps)
					valueRecord(r, s, vf2, &ps)
				}
				flush(s, P, ps)
			}
		} else {
			n1, n2 := 1+r.Intn(3), 1+r.Intn(3)
			var ps []pend
			o1 := s.o16("classDef1")
			o2 := s.o16("classDef2")
			s.c16("class1Count", n1)
			s.c16("class2Count", n2)
			for i := 0; i < n1*n2; i++ {
				valueRecord(r, s, vf1, &ps)
				valueRecord(r, s, vf2, &ps)
			}
			flush(s, 0, ps)
			s.here(o1, 0)
			s.embed("cd1", classDef(r, e, n1))
			s.here(o2, 0)
			s.embed("cd2", classDef(r, e, n2))
		}
		s.here(oc, 0)
		s.embed("", coverage(r, e, gs))
	case 3:
		gs := e.gset(r, 2+r.Intn(6))
		s.f16("format", 1, 2)
		oc := s.o16("coverage")
		s.c16("entryExitCount", len(gs))
		var ps []pend
		for range gs {
			for _, n := range []string{"entryAnchor", "exitAnchor"} {
				if r.Intn(4) == 0 {
					s.u16(0)
				} else {
					ps = append(ps, pend{s.o16(n), anchor(r), "anchor"})
				}
			}
		}
		flush(s, 0, ps)
		s.here(oc, 0)
		s.embed("", coverage(r, e, gs))
	case 4, 5, 6:
		marks := e.gset(r, 2+r.Intn(5))
		bases := e.gset(r, 2+r.Intn(5))
		nClasses := 1 + r.Intn(3)
		s.f16("format", 1, 2)
		om := s.o16("markCoverage")
		ob := s.o16("baseCoverage")
		s.c16("markClassCount", nClasses)
		oma := s.o16("markArray")
		oba := s.o16("baseArray")
		s.here(oma, 0)
		{
			M := s.pos()
			var ps []pend
			s.c16("markArray.count", len(marks))
			for range marks {
				s.f16("markArray.class", r.Intn(nClasses), nClasses)
				ps = append(ps, pend{s.o16("markArray.anchor"), anchor(r), "manchor"})
			}
			flush(s, M, ps)
		}
		s.here(oba, 0)
		{
			B := s.pos()
			s.c16("baseArray.count", len(bases))
			if ty == 5 { // ligature array: offsets to ligature attach tables
				var os []int
				for range bases {
					os = append(os, s.o16("ligArray.attachOffset"))
				}
				for _, o := range os {
					s.here(o, B)
					A := s.pos()
					var ps []pend
					nc := 1 + r.Intn(3)
					s.c16("ligAttach.componentCount", nc)
					for i := 0; i < nc*nClasses; i++ {
						if r.Intn(4) == 0 {
							s.u16(0)
						} else {
							ps = append(ps, pend{s.o16("ligAttach.anchor"), anchor(r), "lanchor"})
						}
					}
					flush(s, A, ps)
				}
			} else {
				var ps []pend
				for i := 0; i < len(bases)*nClasses; i++ {
					if r.Intn(5) == 0 {
						s.u16(0)
					} else {
						ps = append(ps, pend{s.o16("baseArray.anchor"), anchor(r), "banchor"})
					}
				}
				flush(s, B, ps)
			}
		}
		s.here(om, 0)
		s.embed("mark", coverage(r, e, marks))
		s.here(ob, 0)
		s.embed("base", coverage(r, e, bases))
	case 7:
		contextual(r, e, s, false, format, nLookups)
	case 8:
		contextual(r, e, s, true, format, nLookups)
	}
}

var _ = sort.Ints
