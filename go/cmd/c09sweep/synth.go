package main

// The structure-aware table synthesis pass of the C09 sweep ("pass synth").
//
// The two other passes start from the bytes of a corpus font, hence only reach the table formats
// which occur in the corpus. This pass BUILDS tables: for each table kind (kern, kerx, CFF, cmap, ...)
// a small builder emits a well-formed table of every format / subtable type the library parses, with
// random sizes and contents. While it writes, the builder registers the fields which are counts,
// indexes, classes, glyph ids or offsets, together with the limit they are compared to (number of
// elements of the array they index, number of classes, length of the table, ...). The variants of a
// table are derived from that description:
//
//	base      the table as built (the histogram "saccept" says how many of these the loader accepts: a
//	          builder whose tables are all rejected would test nothing; this is checked)
//	zero one max limit-1 limit limit+1
//	          one registered field set to 0, 1, 0xFF.., its limit -1 / +0 / +1
//	sibling   one registered field set to the value of another count field of the same table, -1, +0, +1
//	trunc     the table cut one byte short, in the middle, at a random place
//	pair      a count field set to its maximum AND another field set to 0 (a count is often only bounded
//	          by the size of the elements it counts)
//
// The table is spliced into a small font of the corpus with the library's own writer (ot.WriteTTF:
// all the tables of the base font are read with the Loader, the tables of the case are added or
// replace the existing ones, some tables are dropped so that the shaper uses the new one), then goes
// through the batteries of the two other passes (load, queries, shaping) plus synthQuery below:
// kerning pairs for every pair of a glyph set covering all the classes, class / anchor / caret / name
// look-ups for every glyph id incl. nGlyphs-1, nGlyphs, 0xFFFF, outlines of every glyph, shaping of
// texts made of the characters whose glyphs the builders use -- under recover(), the watchdog (hang
// detection), the live-heap limit and the allocation budget of the child processes.
//
// Everything is derived from (seed, kind, format, build number): the parent and the children compute
// the same list. A case is replayable on its own: `-replay` takes the JSON input of a fail line (base
// font, dropped tags, tag + hex of each synthesized table, and the query which was running).

import (
	"bytes"
	"encoding/binary"
	"encoding/hex"
	"fmt"
	"hash/crc32"
	"hash/fnv"
	"math/rand"
	"os"
	"path/filepath"
	"sort"
	"strings"
	"sync/atomic"
	"time"

	"github.com/go-text/typesetting/font"
	ot "github.com/go-text/typesetting/font/opentype"
	"github.com/go-text/typesetting/font/opentype/tables"
	"github.com/go-text/typesetting/harfbuzz"
)

// ------------------------------------------------------------------------------------------------
// tiers

type synTier struct {
	name   string
	builds int           // random builds per format
	perFmt int           // maximum number of variants per build (0 = all)
	budget time.Duration // wall clock budget of the pass
	chunk  int
}

func synTierOf(name string) synTier {
	if name == "thorough" {
		return synTier{name: name, builds: 10, perFmt: 150, budget: 5 * time.Minute, chunk: 400}
	}
	return synTier{name: "quick", builds: 2, perFmt: 26, budget: 22 * time.Second, chunk: 150}
}

// ------------------------------------------------------------------------------------------------
// table builder with field registration

type fld struct {
	name string
	off  int
	w    int  // bytes: 1, 2, 3, 4
	lim  int  // the value the field is compared to (array length, class count, table length); -1: none; -2: table length
	cnt  bool // a count: its value is proposed to the other fields ("sibling")
}

type tb struct {
	b []byte
	f []fld
}

func (t *tb) pos() int { return len(t.b) }

func (t *tb) raw(w, v int) {
	for i := w - 1; i >= 0; i-- {
		t.b = append(t.b, byte(v>>(8*uint(i))))
	}
}
func (t *tb) u8(v int)        { t.raw(1, v) }
func (t *tb) u16(v int)       { t.raw(2, v) }
func (t *tb) u24(v int)       { t.raw(3, v) }
func (t *tb) u32(v int)       { t.raw(4, v) }
func (t *tb) bytes(b ...byte) { t.b = append(t.b, b...) }
func (t *tb) pad(n int) {
	for len(t.b)%n != 0 {
		t.b = append(t.b, 0)
	}
}

// fw writes a registered field of w bytes; lim as in fld.
func (t *tb) fw(name string, w, v, lim int) int {
	t.f = append(t.f, fld{name: name, off: len(t.b), w: w, lim: lim})
	t.raw(w, v)
	return len(t.f) - 1
}
func (t *tb) f8(name string, v, lim int) int  { return t.fw(name, 1, v, lim) }
func (t *tb) f16(name string, v, lim int) int { return t.fw(name, 2, v, lim) }
func (t *tb) f32(name string, v, lim int) int { return t.fw(name, 4, v, lim) }

// cw writes a count field (its own limit is its value).
func (t *tb) cw(name string, w, v int) int {
	i := t.fw(name, w, v, v)
	t.f[i].cnt = true
	return i
}
func (t *tb) c8(name string, v int) int  { return t.cw(name, 1, v) }
func (t *tb) c16(name string, v int) int { return t.cw(name, 2, v) }
func (t *tb) c32(name string, v int) int { return t.cw(name, 4, v) }

// ow reserves an offset field (limit: the length of the table), to be set later.
func (t *tb) ow(name string, w int) int { return t.fw(name, w, 0, -2) }
func (t *tb) o16(name string) int       { return t.ow(name, 2) }
func (t *tb) o32(name string) int       { return t.ow(name, 4) }

func (t *tb) putAt(off, w, v int) {
	for i := 0; i < w; i++ {
		t.b[off+i] = byte(v >> (8 * uint(w-1-i)))
	}
}
func (t *tb) getAt(off, w int) int {
	v := 0
	for i := 0; i < w; i++ {
		v = v<<8 | int(t.b[off+i])
	}
	return v
}

// set gives its value to a registered field.
func (t *tb) set(i, v int) { t.putAt(t.f[i].off, t.f[i].w, v) }

// here sets the offset field i to the current position relative to `from`.
func (t *tb) here(i, from int) { t.set(i, len(t.b)-from) }

// embed appends a sub-structure built apart, relocating its fields.
func (t *tb) embed(prefix string, s *tb) {
	base := len(t.b)
	t.b = append(t.b, s.b...)
	for _, f := range s.f {
		f.off += base
		if prefix != "" {
			f.name = prefix + "." + f.name
		}
		t.f = append(t.f, f)
	}
}

// sampleIdx: the indexes of an array whose elements are registered as fields (first, last, one at random):
// registering every element of every array would drown the counts and offsets.
func sampleIdx(r *rand.Rand, n int) map[int]bool {
	m := map[int]bool{}
	if n > 0 {
		m[0], m[n-1], m[r.Intn(n)] = true, true, true
	}
	return m
}

// ------------------------------------------------------------------------------------------------
// cases

type synTable struct {
	Tag string `json:"tag"`
	Hex string `json:"hex"`
}

type builtTable struct {
	tag string
	t   *tb
}

type synCase struct {
	kind, format string
	variant      string // e.g. "kernValueCount=limit"
	class        string // base, zero, one, max, limit-1, limit, limit+1, sibling, trunc, pair
	base         string
	drop         []string
	tags         []string
	data         [][]byte
}

func (c *synCase) size() int {
	n := 0
	for _, d := range c.data {
		n += len(d)
	}
	return n
}

func (c *synCase) toInput() input {
	in := input{Font: c.base, Container: "sfnt", Mut: c.kind + "." + c.format + ":" + c.variant, Pass: "synth", Drop: c.drop}
	for i, tag := range c.tags {
		in.Syn = append(in.Syn, synTable{tag, hex.EncodeToString(c.data[i])})
	}
	if len(c.tags) > 0 {
		in.Table = c.tags[0]
	}
	return in
}

func synCaseOfInput(in *input) *synCase {
	c := &synCase{base: in.Font, drop: in.Drop, variant: in.Mut}
	for _, s := range in.Syn {
		d, err := hex.DecodeString(s.Hex)
		if err != nil {
			fatal("bad hex in -replay input: %v", err)
		}
		c.tags = append(c.tags, s.Tag)
		c.data = append(c.data, d)
	}
	return c
}

// the tables of the base fonts, read once per process with the library's Loader
var baseTables = map[string][]ot.Table{}

func tag4(s string) ot.Tag {
	for len(s) < 4 {
		s += " "
	}
	return ot.MustNewTag(s)
}

func loadBase(root, rel string) []ot.Table {
	if t, ok := baseTables[rel]; ok {
		return t
	}
	b, err := os.ReadFile(filepath.Join(root, filepath.FromSlash(rel)))
	if err != nil {
		fatal("synth: base font: %v", err)
	}
	ld, err := ot.NewLoader(bytes.NewReader(b))
	if err != nil {
		fatal("synth: base font %s: %v", rel, err)
	}
	var out []ot.Table
	for _, tg := range ld.Tables() {
		raw, err := ld.RawTable(tg)
		if err != nil {
			fatal("synth: base font %s: table %s: %v", rel, tg, err)
		}
		out = append(out, ot.Table{Tag: tg, Content: raw})
	}
	baseTables[rel] = out
	return out
}

// bytes splices the tables of the case into the base font with ot.WriteTTF.
func (c *synCase) bytes(root string) []byte {
	skip := map[ot.Tag]bool{}
	for _, d := range c.drop {
		skip[tag4(d)] = true
	}
	for _, t := range c.tags {
		skip[tag4(t)] = true
	}
	var tabs []ot.Table
	for _, t := range loadBase(root, c.base) {
		if !skip[t.Tag] {
			tabs = append(tabs, t)
		}
	}
	for i, t := range c.tags {
		tabs = append(tabs, ot.Table{Tag: tag4(t), Content: c.data[i]})
	}
	sort.SliceStable(tabs, func(i, j int) bool { return tabs[i].Tag < tabs[j].Tag })
	return ot.WriteTTF(tabs)
}

// ------------------------------------------------------------------------------------------------
// kinds and formats

// synEnv describes the base font to the builders.
type synEnv struct {
	nGlyphs int
	pool    []int  // glyph ids of the ASCII letters and digits in the base font (what the texts of the battery reach)
	runes   []rune // the corresponding characters
	axes    int
}

// g draws a glyph id: mostly one that the texts reach, sometimes any glyph, rarely a boundary one.
func (e *synEnv) g(r *rand.Rand) int {
	switch k := r.Intn(20); {
	case k < 14 && len(e.pool) > 0:
		return e.pool[r.Intn(len(e.pool))]
	case k < 18 && e.nGlyphs > 0:
		return r.Intn(e.nGlyphs)
	case k == 18:
		return e.nGlyphs - 1
	}
	return r.Intn(8)
}

// gset: n distinct sorted glyph ids.
func (e *synEnv) gset(r *rand.Rand, n int) []int {
	seen := map[int]bool{}
	var out []int
	for try := 0; len(out) < n && try < 20*n+20; try++ {
		g := e.g(r)
		if g >= 0 && !seen[g] {
			seen[g] = true
			out = append(out, g)
		}
	}
	sort.Ints(out)
	return out
}

type synFormat struct {
	name  string
	build func(r *rand.Rand, e *synEnv) []builtTable // the first table is the one whose fields are varied
}

type synKind struct {
	name    string
	base    string
	drop    []string
	formats []synFormat
}

const (
	baseTT   = "harfbuzz/harfbuzz_reference/text-rendering-tests/fonts/TestGVARNine.ttf" // 2 KB, variable (fvar, gvar), glyf, 52 ASCII letters, no layout table
	baseCFF  = "opentype/toys/gsub/gsub7_font1.otf"                                      // 5 KB, CFF
	baseCFF2 = "opentype/toys/CFF2-VF.otf"                                               // 4 KB, CFF2, variable
)

var synKinds []synKind

func registerKind(k synKind) { synKinds = append(synKinds, k) }

var envCache = map[string]*synEnv{}

func envOf(root, rel string) *synEnv {
	if e, ok := envCache[rel]; ok {
		return e
	}
	b, err := os.ReadFile(filepath.Join(root, filepath.FromSlash(rel)))
	if err != nil {
		fatal("synth: base font: %v", err)
	}
	ld, err := ot.NewLoader(bytes.NewReader(b))
	if err != nil {
		fatal("synth: base font %s: %v", rel, err)
	}
	ft, err := font.NewFont(ld)
	if err != nil {
		fatal("synth: base font %s: %v", rel, err)
	}
	f := font.NewFace(ft)
	e := &synEnv{nGlyphs: ft.VerifNumGlyphs()}
	seen := map[int]bool{}
	for _, r := range poolRunes {
		if g, ok := f.NominalGlyph(r); ok && !seen[int(g)] {
			seen[int(g)] = true
			e.pool = append(e.pool, int(g))
			e.runes = append(e.runes, r)
		}
	}
	f.SetVariations([]font.Variation{{Tag: ot.MustNewTag("wght"), Value: 500}})
	e.axes = len(f.Coords())
	envCache[rel] = e
	return e
}

var poolRunes = []rune("ABCDEFGHIJKLMNOPQRSTUVWXYZabcdefghijklmnopqrstuvwxyz0123456789 .,-")

func kindByName(name string) *synKind {
	for i := range synKinds {
		if synKinds[i].name == name {
			return &synKinds[i]
		}
	}
	return nil
}

func synRng(seed int64, parts ...string) *rand.Rand {
	h := fnv.New64a()
	for _, p := range parts {
		h.Write([]byte(p))
		h.Write([]byte{0})
	}
	return rand.New(rand.NewSource(seed*0x9E3779B9 ^ int64(h.Sum64()&0x7fffffffffffffff) ^ 0x73796e))
}

type synVariant struct {
	label, class string
	writes       [][3]int // field offset, width, value
	trunc        int      // -1: none
}

func maxOf(w int) int { return 1<<(8*uint(w)) - 1 }

// variants derives the boundary variants of a built table.
func (t *tb) variants(r *rand.Rand) []synVariant {
	L := len(t.b)
	var sib []int
	seenSib := map[int]bool{}
	for _, f := range t.f {
		if v := t.getAt(f.off, f.w); f.cnt && !seenSib[v] {
			seenSib[v] = true
			sib = append(sib, v)
		}
	}
	if len(sib) > 6 {
		r.Shuffle(len(sib), func(i, j int) { sib[i], sib[j] = sib[j], sib[i] })
		sib = sib[:6]
	}
	var out []synVariant
	for _, f := range t.f {
		orig := t.getAt(f.off, f.w)
		lim := f.lim
		if lim == -2 {
			lim = L
		}
		seen := map[int]bool{orig: true}
		add := func(v int, class string) {
			if v < 0 {
				return
			}
			v &= maxOf(f.w)
			if seen[v] {
				return
			}
			seen[v] = true
			out = append(out, synVariant{label: fmt.Sprintf("%s=%s(%d)", f.name, class, v), class: class, writes: [][3]int{{f.off, f.w, v}}, trunc: -1})
		}
		add(0, "zero")
		add(1, "one")
		if lim >= 0 {
			add(lim-1, "limit-1")
			add(lim, "limit")
			add(lim+1, "limit+1")
		}
		add(maxOf(f.w), "max")
		add(maxOf(f.w)>>1+1, "max") // sign bit
		for _, s := range sib {
			if !(f.cnt && s == orig) {
				add(s-1, "sibling")
				add(s, "sibling")
				add(s+1, "sibling")
			}
		}
	}
	// a count at its maximum and another field at zero (at most 64 such pairs, drawn at random)
	var pairs []synVariant
	for i, f := range t.f {
		if !f.cnt {
			continue
		}
		for j, g := range t.f {
			if i == j || t.getAt(g.off, g.w) == 0 {
				continue
			}
			pairs = append(pairs, synVariant{label: fmt.Sprintf("%s=max,%s=0", f.name, g.name), class: "pair",
				writes: [][3]int{{f.off, f.w, maxOf(f.w)}, {g.off, g.w, 0}}, trunc: -1})
		}
	}
	if len(pairs) > 64 {
		r.Shuffle(len(pairs), func(i, j int) { pairs[i], pairs[j] = pairs[j], pairs[i] })
		pairs = pairs[:64]
	}
	out = append(out, pairs...)
	for _, c := range []int{L - 1, L - 2, L / 2, r.Intn(L + 1), r.Intn(L + 1)} {
		if c >= 0 && c < L {
			out = append(out, synVariant{label: fmt.Sprintf("trunc=%d/%d", c, L), class: "trunc", trunc: c})
		}
	}
	return out
}

// casesOfFormat: builds x (base + variants), deterministic.
func casesOfFormat(root string, k *synKind, f *synFormat, st synTier, seed int64) []*synCase {
	env := envOf(root, k.base)
	var out []*synCase
	for b := 0; b < st.builds; b++ {
		r := synRng(seed, k.name, f.name, fmt.Sprint(b))
		bt := f.build(r, env)
		if len(bt) == 0 {
			continue
		}
		mk := func(v *synVariant) *synCase {
			c := &synCase{kind: k.name, format: f.name, variant: "base", class: "base", base: k.base, drop: k.drop}
			for i, x := range bt {
				d := append([]byte(nil), x.t.b...)
				if i == 0 && v != nil {
					for _, w := range v.writes {
						for j := 0; j < w[1]; j++ {
							d[w[0]+j] = byte(w[2] >> (8 * uint(w[1]-1-j)))
						}
					}
					if v.trunc >= 0 {
						d = d[:v.trunc]
					}
					c.variant, c.class = v.label, v.class
				}
				c.tags = append(c.tags, x.tag)
				c.data = append(c.data, d)
			}
			return c
		}
		out = append(out, mk(nil))
		vs := bt[0].t.variants(r)
		if st.perFmt > 0 && len(vs) > st.perFmt {
			// keep a sample which has every class
			r.Shuffle(len(vs), func(i, j int) { vs[i], vs[j] = vs[j], vs[i] })
			sort.SliceStable(vs, func(i, j int) bool { return false })
			byClass := map[string]int{}
			var keep []synVariant
			for _, v := range vs {
				if byClass[v.class] < 2 {
					byClass[v.class]++
					keep = append(keep, v)
				}
			}
			for _, v := range vs {
				if len(keep) >= st.perFmt {
					break
				}
				if byClass[v.class] >= 2 {
					byClass[v.class]++
					if byClass[v.class] > 3 { // the first two of each class are already there
						keep = append(keep, v)
					}
				}
			}
			vs = keep
		}
		for i := range vs {
			out = append(out, mk(&vs[i]))
		}
	}
	return out
}

// enumerateSynth: the cases of one kind, the formats interleaved (so that a budget cut is fair).
func enumerateSynth(root, kind string, st synTier, seed int64) []mcase {
	k := kindByName(kind)
	if k == nil {
		fatal("synth: unknown kind %q", kind)
	}
	var lists [][]*synCase
	for i := range k.formats {
		lists = append(lists, casesOfFormat(root, k, &k.formats[i], st, seed))
	}
	var out []mcase
	for i := 0; ; i++ {
		any := false
		for _, l := range lists {
			if i < len(l) {
				any = true
				out = append(out, mcase{mut: "synth", region: -1, trunc: -1, table: l[i].kind, syn: l[i]})
			}
		}
		if !any {
			break
		}
	}
	return out
}

func listSynth(root string, st synTier, seed int64) {
	total := 0
	for _, k := range synKinds {
		cases := enumerateSynth(root, k.name, st, seed)
		per := map[string]int{}
		for _, c := range cases {
			per[c.syn.format]++
		}
		var names []string
		for n := range per {
			names = append(names, fmt.Sprintf("%s:%d", n, per[n]))
		}
		sort.Strings(names)
		fmt.Printf("%-6s %6d cases  base=%s  %v\n", k.name, len(cases), filepath.Base(k.base), names)
		total += len(cases)
	}
	fmt.Println("total", total)
}

// ------------------------------------------------------------------------------------------------
// parent side

func (p *parent) recordSynth(c *mcase, o *outcome) {
	s := c.syn
	p.synEvals++
	p.hist["sformat:"+s.kind+"."+s.format]++
	p.hist["svariant:"+s.class]++
	p.hist["soutcome:"+o.Class]++
	if s.class == "base" {
		if o.Err != "" && (strings.Contains(","+o.Err+",", ","+s.kind+",") || s.kind == "maxp") {
			p.hist["saccept:"+s.kind+"."+s.format]++
		} else {
			p.hist["sreject:"+s.kind+"."+s.format]++
		}
	}
	o.Err = ""
}

func (p *parent) runSynth(root string, st synTier, only string, jobc chan *job, wait func(), samples *[]input) (map[string]interface{}, int) {
	t0 := time.Now()
	type kc struct {
		fi    *fontInfo
		cases []mcase
	}
	var all []kc
	planned := 0
	for _, k := range synKinds {
		if only != "" && k.name != only {
			continue
		}
		cases := enumerateSynth(root, k.name, st, p.seed)
		planned += len(cases)
		all = append(all, kc{&fontInfo{rel: "synth:" + k.name, container: "sfnt"}, cases})
		if len(*samples) < 9 && len(cases) > 3 {
			*samples = append(*samples, cases[len(cases)/3].syn.toInput())
		}
	}
	skipped := 0
	for s := 0; ; s += st.chunk { // chunk number s of every kind, then the next one
		any := false
		for _, k := range all {
			if s >= len(k.cases) {
				continue
			}
			any = true
			e := s + st.chunk
			if e > len(k.cases) {
				e = len(k.cases)
			}
			if p.stop.Load() {
				skipped += e - s
				continue
			}
			jobc <- &job{fi: k.fi, cases: k.cases, start: s, end: e, pass: "synth"}
		}
		if !any {
			break
		}
	}
	wait()
	if skipped > 0 {
		p.hist["sskipped:budget"] = skipped
	}
	// a format none of whose base tables is accepted by the loader tests nothing: harness defect
	var dead []string
	for _, k := range all {
		seen := map[string]bool{}
		for _, c := range k.cases {
			key := c.syn.kind + "." + c.syn.format
			if !seen[key] {
				seen[key] = true
				if p.hist["saccept:"+key] == 0 && p.hist["sreject:"+key] > 0 && !strings.HasSuffix(c.syn.format, "!") {
					dead = append(dead, key)
				}
			}
		}
	}
	sort.Strings(dead)
	return map[string]interface{}{"kinds": len(all), "planned": planned, "evaluations": p.synEvals, "skipped_by_budget": skipped,
		"builds_per_format": st.builds, "formats_never_accepted": dead, "seconds": int(time.Since(t0).Seconds())}, planned
}

// ------------------------------------------------------------------------------------------------
// the battery (child side)

var passSynth bool

// the query which is running (read by the watchdog)
type queryMark struct {
	what string
	a, b int
}

var curQ atomic.Pointer[queryMark]

func mark(what string, a, b int) { curQ.Store(&queryMark{what, a, b}) }

func curQuery() string {
	q := curQ.Load()
	if q == nil {
		return "load"
	}
	return fmt.Sprintf("%s(%d,%d)", q.what, q.a, q.b)
}

// synAccepted: which optional tables the loader kept (comma separated kinds), for the acceptance histogram.
var synAccepted string

func acceptedKinds(ft *font.Font, f *font.Face, raw map[string][]byte) string {
	return strings.Join(ft.VerifLoadedTables(), ",")
}

func synthGids(ng int, pool []font.GID) []font.GID {
	seen := map[font.GID]bool{}
	var out []font.GID
	add := func(g int) {
		if g >= 0 && !seen[font.GID(g)] {
			seen[font.GID(g)] = true
			out = append(out, font.GID(g))
		}
	}
	for g := 0; g < ng && g < 24; g++ {
		add(g)
	}
	for _, g := range pool {
		if len(out) < 72 {
			add(int(g))
		}
	}
	for _, g := range []int{ng - 2, ng - 1, ng, ng + 1, 0xFFFE, 0xFFFF} {
		add(g)
	}
	return out
}

// synthQuery: the queries specific to this pass.
func synthQuery(f *font.Face, fi *fontInfo, rng *rand.Rand, deadline time.Time) {
	ft := f.Font
	ng := ft.VerifNumGlyphs()
	var pool []font.GID
	var runes []rune
	for _, r := range poolRunes {
		if g, ok := f.NominalGlyph(r); ok {
			pool = append(pool, g)
			runes = append(runes, r)
		}
	}
	gids := synthGids(ng, pool)

	// kerning pairs: every pair of the glyph set on every subtable which has a pair look-up
	for ti, kx := range []font.Kernx{ft.Kern, ft.Kerx} {
		for si, st := range kx {
			sk, ok := st.Data.(font.SimpleKerns)
			if !ok {
				continue
			}
			for _, l := range gids {
				mark("KernPair.left", ti*100+si, int(l))
				for _, r := range gids {
					sink += int(sk.KernPair(l, r))
				}
			}
			sink += int(sk.KernPair(0x10000, 0xFFFFFFFF)) + int(sk.KernPair(0xFFFFFFFF, 0x10000))
		}
	}

	// outlines, names, extents of every glyph of the set (glyphBattery of the other passes takes a sample)
	for _, g := range gids {
		mark("glyph", int(g), 0)
		glyphBattery(f, []font.GID{g})
		sink += len(f.GlyphName(g))
	}
	synthTableQueries(f, gids)

	// shaping of texts made of the characters the builders aim at: every letter next to many others
	if len(runes) > 0 {
		// as in deepQuery: a font whose state machines insert thousands of glyphs per call makes every
		// shaping slow (bounded by maxOps / maxLen): once the case is late the repetitions are skipped
		tq := time.Now()
		late := func() bool { return time.Since(tq) > softBudget }
		hf := harfbuzz.NewFont(f)
		text := make([]rune, 0, 160)
		for i := 0; i < 150; i++ {
			text = append(text, runes[rng.Intn(len(runes))])
			if i%17 == 16 {
				text = append(text, ' ')
			}
		}
		mark("shape.pool", 0, 0)
		shapeOnce(hf, text, 0, nil)
		if !late() {
			mark("shape.pool.rtl", 0, 0)
			shapeOnce(hf, text, harfbuzz.RightToLeft, nil)
		}
		if !late() {
			mark("shape.pool.ttb", 0, 0)
			shapeOnce(hf, text[:40], harfbuzz.TopToBottom, nil)
		}
		mark("shape.pool.feats", 0, 0)
		hf.Ptem = 12 // 'trak' is only applied at a known point size
		shapeOnce(hf, text[:60], 0, synthFeats)
		mark("shape.pool.feats.ttb", 0, 0)
		hf.Ptem = 9.5
		shapeOnce(hf, text[:30], harfbuzz.TopToBottom, synthFeats)
		hf.Ptem = 0
		// the same letter repeated, and an alphabet
		rep := make([]rune, 24)
		for i := range rep {
			rep[i] = runes[0]
		}
		if !late() {
			mark("shape.rep", 0, 0)
			shapeOnce(hf, rep, 0, nil)
			mark("shape.alphabet", 0, 0)
			shapeOnce(hf, runes, 0, nil)
		}
	}
	_ = deadline
}

var synthFeats = func() []harfbuzz.Feature {
	var out []harfbuzz.Feature
	for _, s := range []string{"smcp", "liga", "salt=2", "kern", "trak", "ss01", "aalt=3", "test", "tst2=2", "vert", "dlig", "calt"} {
		if f, err := harfbuzz.ParseFeature(s); err == nil {
			out = append(out, f)
		}
	}
	return out
}()

// runSynthLoad: NewLoaders, NewFont, NewFace, the batteries of the two other passes, then synthQuery.
func runSynthLoad(b []byte, fi *fontInfo, tc tierCfg, out *outcome, t0 time.Time) {
	curQ.Store(nil)
	synAccepted = ""
	rng := rand.New(rand.NewSource(int64(crc32.ChecksumIEEE(b))<<16 ^ int64(len(b))))
	lds, err := ot.NewLoaders(bytes.NewReader(b))
	if err != nil {
		out.Class = "load-error"
		out.Err = err.Error()
		return
	}
	out.Class = "load-error"
	deadline := t0.Add(tc.slow)
	small := tc
	small.glyphCap = 12
	for i, ld := range lds {
		if i >= 2 {
			break
		}
		mark("Describe", 0, 0)
		d, _ := font.Describe(ld, nil)
		sink += len(d.Family)
		mark("NewFont", 0, 0)
		ft, err := font.NewFont(ld)
		if err != nil {
			out.Err = err.Error()
			continue
		}
		out.Class = "load-ok"
		out.Faces++
		f := font.NewFace(ft)
		synAccepted = acceptedKinds(ft, f, nil)
		mark("queryFace", 0, 0)
		queryFace(f, fi, small, deadline)
		mark("synthQuery", 0, 0)
		synthQuery(f, fi, rng, deadline)
		// a state machine inserting glyphs up to the limits of the shaper (maxOps, maxLen: 16384 glyphs
		// from 20 characters) makes each of the ~40 shaping calls of deepQuery take 50 ms and more: the
		// battery of the mutation pass is skipped when this pass's own shaping calls were that slow
		if time.Since(t0) < 5*softBudget {
			mark("deepQuery", 0, 0)
			deepQuery(f, fi, rng, deadline)
		}
	}
}

var _ = binary.BigEndian
var _ = tables.NewCoord

// synthTableQueries: direct look-ups in the layout and AAT tables for every glyph of the set.
func synthTableQueries(f *font.Face, gids []font.GID) {
	if os.Getenv("C09_NO_DIRECT") != "" { // triage: is a failure of these direct look-ups also reached through shaping?
		return
	}
	ft := f.Font
	for _, g := range gids {
		mark("ankr", int(g), 0)
		for i := 0; i < 3; i++ {
			a := ft.Ankr.GetAnchor(tables.GlyphID(g), i)
			sink += int(a.X)
		}
		a := ft.Ankr.GetAnchor(tables.GlyphID(g), 0xFFFF)
		sink += int(a.X)
	}
	for _, i := range []uint16{0, 1, 2, 3, 4, 5, 0x7FFF, 0xFFFF} {
		mark("ltag.Language", int(i), 0)
		sink += len(ft.Ltag.Language(i))
	}
}

// parseSynth (debugging a builder): the base tables of kind.format are given to their parser directly.
func parseSynth(root, name string, seed int64) {
	i := strings.Index(name, ".")
	if i < 0 {
		fatal("-sparse kind.format")
	}
	k := kindByName(name[:i])
	if k == nil {
		fatal("unknown kind %s", name[:i])
	}
	env := envOf(root, k.base)
	for fi := range k.formats {
		f := &k.formats[fi]
		if f.name != name[i+1:] {
			continue
		}
		for b := 0; b < 6; b++ {
			for _, x := range f.build(synRng(seed, k.name, f.name, fmt.Sprint(b)), env) {
				fmt.Printf("build %d %s (%d bytes): %v\n", b, x.tag, len(x.t.b), parseByTag(x.tag, x.t.b, env))
			}
		}
	}
}

func parseByTag(tag string, d []byte, env *synEnv) error {
	var err error
	switch strings.TrimSpace(tag) {
	case "kern":
		_, _, err = tables.ParseKern(d)
	case "kerx":
		_, _, err = tables.ParseKerx(d, env.nGlyphs)
	case "morx":
		_, _, err = tables.ParseMorx(d, env.nGlyphs)
	case "ankr":
		_, _, err = tables.ParseAnkr(d, env.nGlyphs)
	case "trak":
		_, _, err = tables.ParseTrak(d)
	case "feat":
		_, _, err = tables.ParseFeat(d)
	case "ltag":
		_, _, err = tables.ParseLtag(d)
	case "cmap":
		_, _, err = tables.ParseCmap(d)
	case "GDEF":
		_, _, err = tables.ParseGDEF(d)
	case "GSUB", "GPOS":
		_, _, err = tables.ParseLayout(d)
	case "gvar":
		_, _, err = tables.ParseGvar(d)
	case "HVAR", "VVAR":
		_, _, err = tables.ParseHVAR(d)
	case "MVAR":
		_, _, err = tables.ParseMVAR(d)
	case "avar":
		_, _, err = tables.ParseAvar(d)
	case "fvar":
		_, _, err = tables.ParseFvar(d)
	case "post":
		_, _, err = tables.ParsePost(d)
	case "name":
		_, _, err = tables.ParseName(d)
	case "OS/2":
		_, _, err = tables.ParseOs2(d)
	case "maxp":
		_, _, err = tables.ParseMaxp(d)
	case "head":
		_, _, err = tables.ParseHead(d)
	case "sbix":
		_, _, err = tables.ParseSbix(d, env.nGlyphs)
	case "SVG":
		_, _, err = tables.ParseSVG(d)
	case "CBLC", "EBLC", "bloc":
		_, _, err = tables.ParseCBLC(d)
	default:
		return fmt.Errorf("no direct parser in -sparse for %s", tag)
	}
	return err
}
