package main

// Table synthesis: 'kern' (Microsoft version 0; Apple version 1.0 and the old Apple version 1 header;
// subtable formats 0, 1 (state table), 2, 3) and 'kerx' (formats 0, 1, 2, 4, 6), with the AAT lookup
// formats 0, 2, 4, 6, 8, 10 inside the extended ones.

import (
	"math/rand"
	"sort"
)

func init() {
	var kf []synFormat
	for _, hdr := range []string{"ot", "aat", "aatold"} {
		for f := 0; f <= 3; f++ {
			hdr, f := hdr, f
			kf = append(kf, synFormat{name: hdr + string(rune('0'+f)), build: func(r *rand.Rand, e *synEnv) []builtTable {
				return []builtTable{{"kern", buildKern(r, e, hdr, []int{f})}}
			}})
		}
		hdr := hdr
		kf = append(kf, synFormat{name: hdr + "multi", build: func(r *rand.Rand, e *synEnv) []builtTable {
			n := 2 + r.Intn(3)
			fs := make([]int, n)
			for i := range fs {
				fs[i] = r.Intn(4)
			}
			return []builtTable{{"kern", buildKern(r, e, hdr, fs)}}
		}})
	}
	registerKind(synKind{name: "kern", base: baseTT, formats: kf})

	var xf []synFormat
	for _, f := range []int{0, 1, 2, 4, 6} {
		for _, lk := range []int{0, 2, 4, 6, 8, 10} {
			if f == 0 && lk != 0 {
				continue // no lookup inside
			}
			f, lk := f, lk
			name := "f" + string(rune('0'+f))
			if f != 0 {
				name += ".lookup" + itoa(lk)
			}
			xf = append(xf, synFormat{name: name, build: func(r *rand.Rand, e *synEnv) []builtTable {
				return []builtTable{{"kerx", buildKerx(r, e, []int{f}, lk)}}
			}})
		}
	}
	xf = append(xf, synFormat{name: "f0.tuple.big", build: func(r *rand.Rand, e *synEnv) []builtTable {
		return []builtTable{{"kerx", buildKerx(r, e, []int{0, -1}, 0)}}
	}})
	xf = append(xf, synFormat{name: "multi", build: func(r *rand.Rand, e *synEnv) []builtTable {
		n := 2 + r.Intn(3)
		fs := make([]int, n)
		for i := range fs {
			fs[i] = []int{0, 1, 2, 4, 6}[r.Intn(5)]
		}
		return []builtTable{{"kerx", buildKerx(r, e, fs, []int{0, 2, 4, 6, 8, 10}[r.Intn(6)])}}
	}})
	registerKind(synKind{name: "kerx", base: baseTT, formats: xf})
}

func itoa(v int) string {
	if v == 0 {
		return "0"
	}
	s := ""
	for ; v > 0; v /= 10 {
		s = string(rune('0'+v%10)) + s
	}
	return s
}

func binSearch(n, unit int) (searchRange, entrySelector, rangeShift int) {
	p, l := 1, 0
	for p*2 <= n {
		p *= 2
		l++
	}
	if n == 0 {
		return 0, 0, 0
	}
	return p * unit, l, (n - p) * unit
}

func kernValue(r *rand.Rand) int { return (r.Intn(400) - 200) & 0xFFFF }

// ---------------------------------------------------------------------------------------- kern

func buildKern(r *rand.Rand, e *synEnv, hdr string, formats []int) *tb {
	t := &tb{}
	switch hdr {
	case "ot":
		t.u16(0)
		t.c16("nTables", len(formats))
	case "aat":
		t.u32(0x00010000)
		t.c32("nTables", len(formats))
	default:
		t.u16(1)
		t.c16("nTables", len(formats))
	}
	for i, f := range formats {
		s := &tb{}
		var lenF int
		hl := 8
		if hdr == "ot" {
			hl = 6
			s.u16(0) // version
			lenF = s.f16("length", 0, -1)
			s.f8("format", f, 4)
			s.u8(1 | r.Intn(2)<<2) // coverage: horizontal, cross-stream
		} else {
			lenF = s.f32("length", 0, -1)
			s.u8(r.Intn(2) << 6) // coverage: cross-stream
			s.f8("format", f, 4)
			s.f16("tupleIndex", 0, -1)
		}
		switch f {
		case 0:
			kern0(r, e, s, 2)
		case 1:
			kern1(r, e, s)
		case 2:
			kern2(r, e, s, hl)
		default:
			kern3(r, e, s)
		}
		s.set(lenF, len(s.b))
		s.f[lenF].lim = len(s.b)
		t.embed("st"+itoa(i), s)
	}
	return t
}

// format 0: sorted pairs; w = 2 (kern) or 4 (kerx) bytes for the header fields
func kern0(r *rand.Rand, e *synEnv, s *tb, w int) {
	n := r.Intn(12)
	if r.Intn(6) == 0 {
		n = 0
	}
	type pr struct{ l, r int }
	seen := map[pr]bool{}
	var ps []pr
	for len(ps) < n {
		p := pr{e.g(r), e.g(r)}
		if !seen[p] {
			seen[p] = true
			ps = append(ps, p)
		}
	}
	sort.Slice(ps, func(i, j int) bool { return ps[i].l<<16|ps[i].r < ps[j].l<<16|ps[j].r })
	sr, es, rs := binSearch(n, 6)
	s.cw("nPairs", w, n)
	s.fw("searchRange", w, sr, -1)
	s.fw("entrySelector", w, es, -1)
	s.fw("rangeShift", w, rs, -1)
	reg := sampleIdx(r, n)
	for i, p := range ps {
		if reg[i] {
			s.f16("pair.left", p.l, e.nGlyphs)
			s.f16("pair.right", p.r, e.nGlyphs)
		} else {
			s.u16(p.l)
			s.u16(p.r)
		}
		s.u16(kernValue(r))
	}
}

// format 1: state table. Offsets are relative to the start of the state table header (S).
func kern1(r *rand.Rand, e *synEnv, s *tb) {
	S := s.pos()
	nClasses := 4 + r.Intn(4)
	nStates := 2 + r.Intn(4)
	nEntries := 1 + r.Intn(6)
	nValues := 1 + r.Intn(6)
	s.f16("stateSize", nClasses, -1)
	oClass := s.o16("classTable")
	oStates := s.o16("stateArray")
	oEntries := s.o16("entryTable")
	oValues := s.o16("valueTable")
	// class table
	s.here(oClass, S)
	first := e.g(r)
	ng := 1 + r.Intn(40)
	if len(e.pool) > 0 {
		first = e.pool[0]
		ng = e.pool[len(e.pool)-1] - first + 1
		if ng > 80 || ng < 1 {
			ng = 1 + r.Intn(40)
		}
	}
	s.f16("class.firstGlyph", first, e.nGlyphs)
	s.c16("class.nGlyphs", ng)
	reg := sampleIdx(r, ng)
	for i := 0; i < ng; i++ {
		c := 4 + r.Intn(nClasses-3)
		if c >= nClasses {
			c = 1
		}
		if reg[i] {
			s.f8("class.value", c, nClasses)
		} else {
			s.u8(c)
		}
	}
	s.pad(2)
	// state array
	s.here(oStates, S)
	statesAt := s.pos() - S
	reg = sampleIdx(r, nStates*nClasses)
	for i := 0; i < nStates*nClasses; i++ {
		if reg[i] {
			s.f8("state.entry", r.Intn(nEntries), nEntries)
		} else {
			s.u8(r.Intn(nEntries))
		}
	}
	s.pad(2)
	// entries: newState (offset of the row), flags | value offset
	s.here(oEntries, S)
	valuesAt := s.pos() - S + 4*nEntries
	for i := 0; i < nEntries; i++ {
		s.f16("entry.newState", statesAt+r.Intn(nStates)*nClasses, -2)
		fl := 0
		if r.Intn(2) == 0 {
			fl |= 0x8000
		}
		if r.Intn(8) == 0 {
			fl |= 0x4000
		}
		off := 0
		if r.Intn(3) > 0 {
			off = valuesAt + 2*r.Intn(nValues)
		}
		s.f16("entry.flags", fl|off, -1)
	}
	s.here(oValues, S)
	for i := 0; i < nValues; i++ {
		v := kernValue(r) &^ 1
		if i == nValues-1 || r.Intn(3) == 0 {
			v |= 1 // end of a list
		}
		s.u16(v)
	}
}

// format 2: two class tables whose values are pre-multiplied offsets, and the array.
// Offsets are relative to the start of the subtable (header of hl bytes included).
func kern2(r *rand.Rand, e *synEnv, s *tb, hl int) {
	nl, nr := 1+r.Intn(4), 1+r.Intn(4)
	rowWidth := 2 * nr
	s.f16("rowWidth", rowWidth, -1)
	oL := s.o16("leftClassTable")
	oR := s.o16("rightClassTable")
	oA := s.o16("array")
	arrayAt := s.pos() // just after the header: the array comes first so that the class values are known
	s.here(oA, 0)
	for i := 0; i < nl*nr; i++ {
		s.u16(kernValue(r))
	}
	class := func(name string, n, mul, add int) {
		first := e.g(r)
		if len(e.pool) > 0 {
			first = e.pool[r.Intn(len(e.pool))]
		}
		ng := 1 + r.Intn(30)
		s.f16(name+".firstGlyph", first, e.nGlyphs)
		s.c16(name+".nGlyphs", ng)
		reg := sampleIdx(r, ng)
		for i := 0; i < ng; i++ {
			v := add + r.Intn(n)*mul
			if reg[i] {
				s.f16(name+".value", v, len(s.b))
			} else {
				s.u16(v)
			}
		}
	}
	s.here(oL, 0)
	class("left", nl, rowWidth, arrayAt)
	s.here(oR, 0)
	class("right", nr, 2, 0)
	_ = hl
}

// format 3: class arrays for every glyph, index array, values
func kern3(r *rand.Rand, e *synEnv, s *tb) {
	ng := e.nGlyphs
	if r.Intn(4) == 0 {
		ng = 1 + r.Intn(e.nGlyphs)
	}
	nv, nl, nr := 1+r.Intn(6), 1+r.Intn(5), 1+r.Intn(5)
	s.c16("glyphCount", ng)
	s.c8("kernValueCount", nv)
	s.c8("leftClassCount", nl)
	s.c8("rightClassCount", nr)
	s.f8("flags", 0, -1)
	for i := 0; i < nv; i++ {
		s.u16(kernValue(r))
	}
	arr := func(name string, n, lim int) {
		reg := sampleIdx(r, n)
		for i := 0; i < n; i++ {
			if reg[i] {
				s.f8(name, r.Intn(lim), lim)
			} else {
				s.u8(r.Intn(lim))
			}
		}
	}
	arr("leftClass", ng, nl)
	arr("rightClass", ng, nr)
	// every cell of the index array is a field
	for i := 0; i < nl*nr; i++ {
		s.f8("kernIndex", r.Intn(nv), nv)
	}
}

// ---------------------------------------------------------------------------------------- AAT lookups

type gv struct{ g, v int }

// aatLookup writes a lookup table of the given format for the (sorted, distinct) glyph -> value pairs;
// vw is the width of a value (2, or 4 for the extended lookups).
func aatLookup(r *rand.Rand, e *synEnv, format int, m []gv, vw int, vlim int) *tb {
	t := &tb{}
	t.f16("format", format, -1)
	reg := sampleIdx(r, len(m))
	val := func(i int, v int) {
		if reg[i] {
			t.fw("value", vw, v, vlim)
		} else {
			t.raw(vw, v)
		}
	}
	hdr := func(unit, n int) {
		sr, es, rs := binSearch(n, unit)
		t.f16("unitSize", unit, -1)
		t.c16("nUnits", n)
		t.f16("searchRange", sr, -1)
		t.f16("entrySelector", es, -1)
		t.f16("rangeShift", rs, -1)
	}
	switch format {
	case 0:
		vals := make([]int, e.nGlyphs)
		for _, x := range m {
			if x.g < len(vals) {
				vals[x.g] = x.v
			}
		}
		for i, v := range vals {
			if i == 0 || i == len(vals)-1 {
				t.fw("value", vw, v, vlim)
			} else {
				t.raw(vw, v)
			}
		}
	case 2, 4:
		type seg struct{ first, last, v int }
		var segs []seg
		for _, x := range m {
			if n := len(segs); n > 0 && segs[n-1].last+1 == x.g && (format == 4 || segs[n-1].v == x.v) {
				segs[n-1].last = x.g
			} else {
				segs = append(segs, seg{x.g, x.g, x.v})
			}
		}
		hdr(6, len(segs)+1)
		sreg := sampleIdx(r, len(segs))
		var offs []int
		for i, s := range segs {
			if sreg[i] {
				t.f16("seg.last", s.last, e.nGlyphs)
				t.f16("seg.first", s.first, e.nGlyphs)
			} else {
				t.u16(s.last)
				t.u16(s.first)
			}
			if format == 2 {
				t.fw("seg.value", vw, s.v, vlim)
			} else {
				offs = append(offs, t.o16("seg.offset"))
			}
		}
		t.u16(0xFFFF)
		t.u16(0xFFFF)
		if format == 2 {
			t.raw(vw, 0)
		} else {
			t.u16(0)
			k := 0
			for i, s := range segs {
				t.here(offs[i], 0)
				for g := s.first; g <= s.last; g++ {
					val(k, m[k].v)
					k++
				}
			}
		}
	case 6:
		hdr(2+vw, len(m)+1)
		for i, x := range m {
			if reg[i] {
				t.f16("glyph", x.g, e.nGlyphs)
			} else {
				t.u16(x.g)
			}
			val(i, x.v)
		}
		t.u16(0xFFFF)
		t.raw(vw, 0)
	case 8, 10:
		first, last := 0, -1
		if len(m) > 0 {
			first, last = m[0].g, m[len(m)-1].g
		}
		if last-first > 300 {
			last = first + 300
		}
		unit := vw
		if format == 10 {
			unit = []int{2, 2, 2, 1, 4, 8}[r.Intn(6)]
			if vw == 4 {
				unit = []int{4, 4, 4, 1, 2, 8}[r.Intn(6)]
			}
			t.f16("unitSize", unit, -1)
		}
		t.f16("firstGlyph", first, e.nGlyphs)
		t.c16("glyphCount", last-first+1)
		vals := make([]int, last-first+1)
		for _, x := range m {
			if x.g >= first && x.g <= last {
				vals[x.g-first] = x.v
			}
		}
		for i, v := range vals {
			if format == 10 {
				if unit == 8 {
					t.u32(0)
					t.u32(v)
				} else {
					t.raw(unit, v&maxOf(unit))
				}
			} else if i == 0 || i == len(vals)-1 {
				t.fw("value", vw, v, vlim)
			} else {
				t.raw(vw, v)
			}
		}
	}
	return t
}

// classMap: the glyphs of the pool (a random subset) and a few others, each with a value drawn by val.
func classMap(r *rand.Rand, e *synEnv, val func() int) []gv {
	n := 4 + r.Intn(40)
	gs := e.gset(r, n)
	out := make([]gv, len(gs))
	for i, g := range gs {
		out[i] = gv{g, val()}
	}
	return out
}

// ---------------------------------------------------------------------------------------- kerx

func buildKerx(r *rand.Rand, e *synEnv, formats []int, lk int) *tb {
	t := &tb{}
	big := false
	if len(formats) == 2 && formats[1] == -1 {
		big, formats = true, formats[:1]
	}
	t.f16("version", 2+r.Intn(3), -1)
	t.u16(0)
	t.c32("nTables", len(formats))
	for i, f := range formats {
		s := &tb{}
		lenF := s.f32("length", 0, -1)
		s.u16(r.Intn(2) << 14) // coverage: cross-stream
		s.u8(0)
		s.f8("format", f, 7)
		tuple := 0
		if big || (f == 0 || f == 1 || f == 6) && r.Intn(4) == 0 {
			tuple = 1 + r.Intn(2)
		}
		s.f32("tupleCount", tuple, -1)
		switch f {
		case 0:
			kerx0(r, e, s, tuple, big)
		case 1:
			kerx1(r, e, s, lk, tuple)
		case 2:
			kerx2(r, e, s, lk)
		case 4:
			kerx4(r, e, s, lk)
		default:
			kerx6(r, e, s, lk, tuple)
		}
		s.pad(4)
		s.set(lenF, len(s.b))
		s.f[lenF].lim = len(s.b)
		t.embed("st"+itoa(i), s)
	}
	return t
}

func kerx0(r *rand.Rand, e *synEnv, s *tb, tuple int, big bool) {
	D := s.pos() // values of a variation subtable are offsets from here
	kern0(r, e, s, 4)
	if tuple == 0 {
		return
	}
	// the values are offsets to tuples: rewrite them inside the subtable data, and add the tuples
	n := s.getAt(D, 4)
	tuplesAt := s.pos() - D
	for i := 0; i < 4+2*tuple; i++ {
		s.u16(kernValue(r))
	}
	if big { // a table above 32 KB: offsets with the sign bit
		for s.pos()-D < 0x8000+64 {
			s.u32(0)
		}
	}
	for i := 0; i < n; i++ {
		off := tuplesAt + 2*r.Intn(4)
		if big && i%2 == 0 {
			off = 0x8000 + 2*r.Intn(16)
		}
		at := D + 16 + 6*i + 4
		s.putAt(at, 2, off)
		if i == 0 || i == n-1 {
			s.f = append(s.f, fld{name: "pair.valueOffset", off: at, w: 2, lim: -2})
		}
	}
}

// stateTableExt writes an extended state table (header of 16 bytes at S, lookup, states, entries with
// an entry data of `dataW` bytes: 2 per index). Returns the offsets (relative to S) after the entries.
func stateTableExt(r *rand.Rand, e *synEnv, s *tb, lk int, nIdx int, idxLim []int, flags func() int) (S int) {
	S = s.pos()
	nClasses := 4 + r.Intn(4)
	nStates := 2 + r.Intn(4)
	nEntries := 1 + r.Intn(6)
	s.f32("nClasses", nClasses, -1)
	oClass := s.o32("classTable")
	oStates := s.o32("stateArray")
	oEntries := s.o32("entryTable")
	// the caller appends its own header fields here; the sub-structures are written by finish
	stPending = func() {
		s.here(oClass, S)
		m := classMap(r, e, func() int {
			c := 4 + r.Intn(nClasses-3)
			if c >= nClasses {
				c = 1
			}
			return c
		})
		s.embed("class", aatLookup(r, e, lk, m, 2, nClasses))
		s.pad(4)
		s.here(oStates, S)
		reg := sampleIdx(r, nStates*nClasses)
		for i := 0; i < nStates*nClasses; i++ {
			if reg[i] {
				s.f16("state.entry", r.Intn(nEntries), nEntries)
			} else {
				s.u16(r.Intn(nEntries))
			}
		}
		s.here(oEntries, S)
		for i := 0; i < nEntries; i++ {
			s.f16("entry.newState", r.Intn(nStates), nStates)
			s.f16("entry.flags", flags(), -1)
			for k := 0; k < nIdx; k++ {
				v := 0xFFFF
				if (r.Intn(3) > 0 || stNoNone) && idxLim[k] > 0 {
					v = r.Intn(idxLim[k])
				}
				s.f16("entry.index"+itoa(k), v, idxLim[k])
			}
		}
	}
	return S
}

var stPending func()

// stNoNone: the entry indexes have no "none" value (0xFFFF) in the table being built (morx ligature)
var stNoNone bool

func kerxFlags(r *rand.Rand) func() int {
	return func() int {
		fl := 0
		if r.Intn(2) == 0 {
			fl |= 0x8000 // push
		}
		if r.Intn(8) == 0 {
			fl |= 0x4000 // don't advance
		}
		if r.Intn(8) == 0 {
			fl |= 0x2000 // reset
		}
		return fl
	}
}

func kerx1(r *rand.Rand, e *synEnv, s *tb, lk, tuple int) {
	nValues := 2 + r.Intn(8)
	S := stateTableExt(r, e, s, lk, 1, []int{nValues}, kerxFlags(r))
	oValues := s.o32("valueTable")
	stPending()
	s.here(oValues, S)
	tc := tuple
	if tc == 0 {
		tc = 1
	}
	for i := 0; i < nValues*tc+2; i++ {
		v := kernValue(r) &^ 1
		if i%3 == 2 {
			v |= 1
		}
		s.u16(v)
	}
	s.u16(0xFFFF)
}

func kerx2(r *rand.Rand, e *synEnv, s *tb, lk int) {
	H := s.pos() - 12 // offsets are relative to the subtable header
	nl, nr := 1+r.Intn(4), 1+r.Intn(4)
	rowWidth := 2 * nr
	s.f32("rowWidth", rowWidth, -1)
	oL := s.o32("leftClassTable")
	oR := s.o32("rightClassTable")
	oA := s.o32("array")
	s.here(oA, H)
	arrayAt := s.pos() - H
	for i := 0; i < nl*nr; i++ {
		s.u16(kernValue(r))
	}
	end := arrayAt + 2*nl*nr
	s.here(oL, H)
	s.embed("left", aatLookup(r, e, lk, classMap(r, e, func() int { return arrayAt + r.Intn(nl)*rowWidth }), 2, end))
	s.pad(4)
	s.here(oR, H)
	s.embed("right", aatLookup(r, e, lk, classMap(r, e, func() int { return 2 * r.Intn(nr) }), 2, end))
}

func kerx4(r *rand.Rand, e *synEnv, s *tb, lk int) {
	nAnchors := 1 + r.Intn(5)
	action := r.Intn(3)
	S := stateTableExt(r, e, s, lk, 1, []int{nAnchors}, func() int {
		fl := 0
		if r.Intn(2) == 0 {
			fl |= 0x8000 // mark
		}
		if r.Intn(8) == 0 {
			fl |= 0x4000
		}
		return fl
	})
	fFlags := s.f32("flags", 0, -1)
	stPending()
	s.set(fFlags, action<<30|(s.pos()-S))
	for i := 0; i < nAnchors; i++ {
		switch action {
		case 0, 1: // control points / anchor points
			s.f16("anchor.mark", r.Intn(4), -1)
			s.f16("anchor.current", r.Intn(4), -1)
		default:
			for k := 0; k < 4; k++ {
				s.u16(kernValue(r))
			}
		}
	}
}

func kerx6(r *rand.Rand, e *synEnv, s *tb, lk, tuple int) {
	H := s.pos() - 12
	ext := r.Intn(2)
	vw := 2 + 2*ext
	nr, nc := 1+r.Intn(4), 1+r.Intn(4)
	s.f32("flags", ext, -1)
	s.c16("rowCount", nr)
	s.c16("columnCount", nc)
	oRow := s.o32("rowIndexTable")
	oCol := s.o32("columnIndexTable")
	oArr := s.o32("kerningArray")
	oVec := s.o32("kerningVector")
	s.here(oRow, H)
	s.embed("row", aatLookup(r, e, lk, classMap(r, e, func() int { return r.Intn(nr) * nc }), vw, nr*nc))
	s.pad(4)
	s.here(oCol, H)
	s.embed("column", aatLookup(r, e, lk, classMap(r, e, func() int { return r.Intn(nc) }), vw, nc))
	s.pad(4)
	s.here(oArr, H)
	for i := 0; i < nr*nc; i++ {
		v := kernValue(r)
		if tuple != 0 {
			v = 2 * r.Intn(4)
		}
		if i == 0 || i == nr*nc-1 {
			s.fw("kerning", vw, v, -1)
		} else {
			s.raw(vw, v)
		}
	}
	s.here(oVec, H)
	for i := 0; i < 8+tuple; i++ {
		s.u16(kernValue(r))
	}
}
