package main

// Table synthesis: 'CFF ' (name-keyed and CID-keyed; Name / Top DICT / String / Global Subr INDEX with
// offSize 1..4, charset formats 0, 1, 2, Encoding formats 0, 1 with supplements, FDSelect formats 0, 3,
// FDArray, Private DICT, local subroutines) and 'CFF2' (FDSelect 0, 3, 4, variation store, blend).
// A matching 'maxp' is synthesized with the table (the loader requires the same number of glyphs).

import (
	"math/rand"
)

func init() {
	var ff []synFormat
	for _, cs := range []int{0, 1, 2} {
		for _, enc := range []int{0, 1} {
			cs, enc := cs, enc
			ff = append(ff, synFormat{name: "name.charset" + itoa(cs) + ".enc" + itoa(enc), build: func(r *rand.Rand, e *synEnv) []builtTable {
				return buildCFF(r, e, false, cs, enc, -1)
			}})
		}
		for _, fds := range []int{0, 3} {
			cs, fds := cs, fds
			ff = append(ff, synFormat{name: "cid.charset" + itoa(cs) + ".fdselect" + itoa(fds), build: func(r *rand.Rand, e *synEnv) []builtTable {
				return buildCFF(r, e, true, cs, 0, fds)
			}})
		}
	}
	registerKind(synKind{name: "CFF", base: baseCFF, drop: []string{"GSUB"}, formats: ff})

	var f2 []synFormat
	for _, fds := range []int{-1, 0, 3, 4} {
		for _, vs := range []bool{false, true} {
			fds, vs := fds, vs
			name := "fdselect" + itoa(fds)
			if fds < 0 {
				name = "onefd"
			}
			if vs {
				name += ".vstore"
			}
			f2 = append(f2, synFormat{name: name, build: func(r *rand.Rand, e *synEnv) []builtTable {
				return buildCFF2(r, e, fds, vs)
			}})
		}
	}
	registerKind(synKind{name: "CFF2", base: baseCFF2, formats: f2})
}

// ---------------------------------------------------------------------------------------- numbers

// csNum appends a Type 2 charstring / DICT number in its shortest form (DICT: no 16.16).
func csNum(b []byte, v int) []byte {
	switch {
	case v >= -107 && v <= 107:
		return append(b, byte(v+139))
	case v >= 108 && v <= 1131:
		v -= 108
		return append(b, byte(247+v>>8), byte(v))
	case v >= -1131 && v <= -108:
		v = -v - 108
		return append(b, byte(251+v>>8), byte(v))
	}
	return append(b, 28, byte(v>>8), byte(v))
}

// dictOff writes "29 <int32>" and registers the operand as an offset field.
func dictOff(t *tb, name string) int {
	t.u8(29)
	return t.o32(name)
}

func dictInt(t *tb, v int) { t.b = csNum(t.b, v) }

func dictOp(t *tb, op ...int) {
	for _, o := range op {
		t.u8(o)
	}
}

// cffIndex writes an INDEX (CFF: 16-bit count; CFF2: 32-bit count).
func cffIndex(r *rand.Rand, t *tb, name string, items [][]byte, offSize int, cff2 bool) {
	if cff2 {
		t.c32(name+".count", len(items))
	} else {
		t.c16(name+".count", len(items))
	}
	if len(items) == 0 && !cff2 {
		return
	}
	total := 0
	for _, it := range items {
		total += len(it)
	}
	for total+1 > maxOf(offSize) {
		offSize++
	}
	t.f8(name+".offSize", offSize, 4)
	if len(items) == 0 {
		return
	}
	reg := sampleIdx(r, len(items)+1)
	off := 1
	for i := 0; i <= len(items); i++ {
		if reg[i] {
			t.fw(name+".offset", offSize, off, total+1)
		} else {
			t.raw(offSize, off)
		}
		if i < len(items) {
			off += len(items[i])
		}
	}
	for _, it := range items {
		t.bytes(it...)
	}
}

// ---------------------------------------------------------------------------------------- charstrings

type csEnv struct {
	nLocal, nGlobal int
	cff2            bool
	k               int // regions of the active variation data (CFF2)
}

func subrBias(n int) int {
	if n < 1240 {
		return 107
	}
	if n < 33900 {
		return 1131
	}
	return 32768
}

// charstring draws a small closed contour; depth > 0: a subroutine body.
func charstring(r *rand.Rand, ce csEnv, sub bool) []byte {
	var b []byte
	num := func() { b = csNum(b, r.Intn(400)-200) }
	blendable := func() { // one operand, maybe blended
		num()
		if ce.cff2 && ce.k > 0 && r.Intn(4) == 0 {
			for i := 0; i < ce.k; i++ {
				num()
			}
			b = csNum(b, 1)
			b = append(b, 16) // blend
		}
	}
	if !sub {
		if !ce.cff2 && r.Intn(2) == 0 {
			num() // width
		}
		if r.Intn(3) == 0 {
			num()
			num()
			b = append(b, 1) // hstem
			if r.Intn(2) == 0 {
				num()
				num()
				b = append(b, 19, 0xC0) // hintmask (vstem implied) + 1 mask byte
			}
		}
		blendable()
		blendable()
		b = append(b, 21) // rmoveto
	}
	for i, n := 0, 1+r.Intn(5); i < n; i++ {
		switch r.Intn(9) {
		case 0, 1:
			blendable()
			blendable()
			b = append(b, 5) // rlineto
		case 2:
			num()
			b = append(b, 6) // hlineto
		case 3:
			num()
			b = append(b, 7) // vlineto
		case 4:
			for k := 0; k < 6; k++ {
				num()
			}
			b = append(b, 8) // rrcurveto
		case 5:
			for k := 0; k < 4; k++ {
				num()
			}
			b = append(b, 30) // vhcurveto
		case 6:
			if ce.nLocal > 0 && !sub {
				b = csNum(b, r.Intn(ce.nLocal)-subrBias(ce.nLocal))
				b = append(b, 10) // callsubr
			}
		case 7:
			if ce.nGlobal > 0 && !sub {
				b = csNum(b, r.Intn(ce.nGlobal)-subrBias(ce.nGlobal))
				b = append(b, 29) // callgsubr
			}
		default:
			for k := 0; k < 7; k++ {
				num()
			}
			b = append(b, 12, 34) // hflex
		}
	}
	if sub {
		if !ce.cff2 {
			b = append(b, 11) // return
		}
	} else if !ce.cff2 {
		b = append(b, 14) // endchar
	}
	return b
}

func subrs(r *rand.Rand, n int, ce csEnv) [][]byte {
	out := make([][]byte, n)
	for i := range out {
		out[i] = charstring(r, ce, true)
	}
	return out
}

func synthMaxp(ng int) *tb {
	t := &tb{}
	t.u32(0x00005000)
	t.f16("numGlyphs", ng, -1)
	return t
}

// ---------------------------------------------------------------------------------------- CFF

func buildCFF(r *rand.Rand, e *synEnv, cid bool, csFmt, encFmt, fdsFmt int) []builtTable {
	ng := e.nGlyphs
	if r.Intn(2) == 0 {
		ng = 1 + r.Intn(30)
	}
	offSize := 1 + r.Intn(4)
	nGlobal := r.Intn(4)
	nFD := 1
	if cid {
		nFD = 1 + r.Intn(4)
	}
	nLocal := make([]int, nFD)
	for i := range nLocal {
		nLocal[i] = r.Intn(4)
	}
	nStrings := 1 + r.Intn(5)

	t := &tb{}
	t.u8(1)
	t.u8(0)
	t.f8("hdrSize", 4, -1)
	t.f8("hdr.offSize", offSize, 4)
	cffIndex(r, t, "name", [][]byte{[]byte("Synth")}, 1+r.Intn(4), false)

	// Top DICT
	d := &tb{}
	if cid {
		dictInt(d, 391)
		dictInt(d, 392)
		dictInt(d, 0)
		dictOp(d, 12, 30) // ROS
	}
	d.u8(28)
	d.f16("top.version.sid", 391+r.Intn(nStrings), 391+nStrings)
	dictOp(d, 0)
	if cid {
		d.u8(28)
		d.f16("top.fontname.sid", 391+r.Intn(nStrings), 391+nStrings)
		dictOp(d, 12, 38)
	}
	for _, v := range []int{-50, -200, 900, 800} {
		dictInt(d, v)
	}
	dictOp(d, 5) // FontBBox
	oCharset := dictOff(d, "top.charset")
	dictOp(d, 15)
	oEnc := -1
	if !cid {
		oEnc = dictOff(d, "top.encoding")
		dictOp(d, 16)
	}
	oCS := dictOff(d, "top.charstrings")
	dictOp(d, 17)
	var oPrivSize, oPriv, oFDA, oFDS int
	if cid {
		dictInt(d, ng)
		dictOp(d, 12, 34) // CIDCount
		oFDA = dictOff(d, "top.fdarray")
		dictOp(d, 12, 36)
		oFDS = dictOff(d, "top.fdselect")
		dictOp(d, 12, 37)
	} else {
		d.u8(29)
		oPrivSize = d.f32("top.private.size", 0, -1)
		oPriv = dictOff(d, "top.private.offset")
		dictOp(d, 18)
	}
	// the Top DICT INDEX by hand: its only item is d
	t.c16("topdict.count", 1)
	t.f8("topdict.offSize", 2, 4)
	t.f16("topdict.offset0", 1, len(d.b)+1)
	t.f16("topdict.offset1", len(d.b)+1, len(d.b)+1)
	fb := len(t.f)
	t.embed("", d)
	fix := func(i int) int { return fb + i }

	strs := make([][]byte, nStrings)
	for i := range strs {
		strs[i] = []byte("str" + itoa(i))
	}
	cffIndex(r, t, "string", strs, 1+r.Intn(4), false)
	cffIndex(r, t, "gsubr", subrs(r, nGlobal, csEnv{}), 1+r.Intn(4), false)

	// charset
	t.here(fix(oCharset), 0)
	t.f8("charset.format", csFmt, 3)
	sidLim := 391 + nStrings
	if cid {
		sidLim = -1
	}
	switch csFmt {
	case 0:
		reg := sampleIdx(r, ng-1)
		for i := 1; i < ng; i++ {
			if reg[i-1] {
				t.f16("charset.sid", i, sidLim)
			} else {
				t.u16(i)
			}
		}
	default:
		for i := 1; i < ng; {
			left := r.Intn(6)
			if i+left >= ng || r.Intn(4) == 0 {
				left = ng - 1 - i
			}
			t.f16("charset.first", i, sidLim)
			if csFmt == 1 {
				if left > 255 {
					left = 255
				}
				t.f8("charset.nLeft", left, ng-i)
			} else {
				t.f16("charset.nLeft", left, ng-i)
			}
			i += left + 1
		}
	}
	// Encoding
	if oEnc >= 0 {
		t.here(fix(oEnc), 0)
		sup := r.Intn(2)
		t.f8("encoding.format", encFmt|sup<<7, -1)
		nc := ng - 1
		if nc > 40 {
			nc = 40
		}
		if encFmt == 0 {
			t.c8("encoding.nCodes", nc)
			for i := 0; i < nc; i++ {
				t.u8(65 + i)
			}
		} else {
			t.c8("encoding.nRanges", 1)
			t.u8(65)
			t.f8("encoding.nLeft", nc, ng)
		}
		if sup != 0 {
			t.c8("encoding.nSups", 1)
			t.u8(32)
			t.f16("encoding.sup.sid", 1, sidLim)
		}
	}
	// FDSelect
	if cid {
		t.here(fix(oFDS), 0)
		t.f8("fdselect.format", fdsFmt, -1)
		if fdsFmt == 0 {
			reg := sampleIdx(r, ng)
			for i := 0; i < ng; i++ {
				if reg[i] {
					t.f8("fdselect.fd", r.Intn(nFD), nFD)
				} else {
					t.u8(r.Intn(nFD))
				}
			}
		} else {
			var firsts []int
			for g := 0; g < ng; g += 1 + r.Intn(6) {
				firsts = append(firsts, g)
			}
			t.c16("fdselect.nRanges", len(firsts))
			for _, g := range firsts {
				t.f16("fdselect.first", g, ng)
				t.f8("fdselect.fd", r.Intn(nFD), nFD)
			}
			t.f16("fdselect.sentinel", ng, ng)
		}
	}
	// CharStrings
	t.here(fix(oCS), 0)
	cs := make([][]byte, ng)
	for i := range cs {
		cs[i] = charstring(r, csEnv{nLocal: nLocal[0], nGlobal: nGlobal}, false)
	}
	cffIndex(r, t, "charstrings", cs, 1+r.Intn(4), false)

	// Private DICTs (+ local subrs), after the FDArray for CID fonts
	private := func(i int) (off, size int) {
		P := t.pos()
		for _, v := range []int{-10, 10, 500, 10} {
			dictInt(t, v)
		}
		dictOp(t, 6) // BlueValues
		dictInt(t, 80)
		dictOp(t, 10) // StdHW
		dictInt(t, 500)
		dictOp(t, 20) // defaultWidthX
		dictInt(t, 20)
		dictOp(t, 21) // nominalWidthX
		oS := -1
		if nLocal[i] > 0 || r.Intn(4) == 0 {
			oS = dictOff(t, "private"+itoa(i)+".subrs")
			dictOp(t, 19)
		}
		size = t.pos() - P
		if oS >= 0 {
			t.here(oS, P)
			cffIndex(r, t, "lsubr"+itoa(i), subrs(r, nLocal[i], csEnv{}), 1+r.Intn(4), false)
		}
		return P, size
	}
	if !cid {
		off, size := private(0)
		t.set(fix(oPriv), off)
		t.set(fix(oPrivSize), size)
		t.f[fix(oPrivSize)].lim = size
	} else {
		// the Font DICTs have a fixed size: "29 size 29 offset 18" = 11 bytes
		t.here(fix(oFDA), 0)
		t.c16("fdarray.count", nFD)
		t.f8("fdarray.offSize", 1, 4)
		for i := 0; i <= nFD; i++ {
			t.f8("fdarray.offset", 1+11*i, 11*nFD+1)
		}
		var fs [][2]int
		for i := 0; i < nFD; i++ {
			t.u8(29)
			a := t.f32("fd"+itoa(i)+".private.size", 0, -1)
			b := dictOff(t, "fd"+itoa(i)+".private.offset")
			dictOp(t, 18)
			fs = append(fs, [2]int{a, b})
		}
		for i := 0; i < nFD; i++ {
			off, size := private(i)
			t.set(fs[i][0], size)
			t.f[fs[i][0]].lim = size
			t.set(fs[i][1], off)
		}
	}
	return []builtTable{{"CFF ", t}, {"maxp", synthMaxp(ng)}}
}

// ---------------------------------------------------------------------------------------- CFF2

// itemVarStore writes an ItemVariationStore (format 1) with nRegions regions over nAxes axes and nData
// item variation data subtables; returns k[i] = number of regions of the subtable i.
func itemVarStore(r *rand.Rand, t *tb, nAxes, nRegions, nData, items int) []int {
	S := t.pos()
	t.f16("vs.format", 1, -1)
	oReg := t.o32("vs.regionList")
	t.c16("vs.dataCount", nData)
	var oData []int
	for i := 0; i < nData; i++ {
		oData = append(oData, t.o32("vs.data"+itoa(i)))
	}
	t.set(oReg, t.pos()-S)
	t.c16("vs.axisCount", nAxes)
	t.c16("vs.regionCount", nRegions)
	for i := 0; i < nRegions*nAxes; i++ {
		p := r.Intn(0x4001)
		t.u16((p - r.Intn(p+1)) & 0xFFFF)
		t.u16(p)
		t.u16(p + r.Intn(0x4001-p))
	}
	ks := make([]int, nData)
	for i := 0; i < nData; i++ {
		t.set(oData[i], t.pos()-S)
		k := r.Intn(nRegions + 1)
		ks[i] = k
		words := r.Intn(k + 1)
		t.c16("vs.data"+itoa(i)+".itemCount", items)
		t.f16("vs.data"+itoa(i)+".wordDeltaCount", words, k)
		t.c16("vs.data"+itoa(i)+".regionIndexCount", k)
		for j := 0; j < k; j++ {
			t.f16("vs.data"+itoa(i)+".regionIndex", r.Intn(nRegions), nRegions)
		}
		for j := 0; j < items; j++ {
			for w := 0; w < k; w++ {
				if w < words {
					t.u16(r.Intn(200))
				} else {
					t.u8(r.Intn(100))
				}
			}
		}
	}
	return ks
}

func buildCFF2(r *rand.Rand, e *synEnv, fdsFmt int, vstore bool) []builtTable {
	ng := e.nGlyphs
	if r.Intn(2) == 0 {
		ng = 1 + r.Intn(30)
	}
	nFD := 1
	if fdsFmt >= 0 {
		nFD = 2 + r.Intn(3)
	}
	nGlobal := r.Intn(4)
	nLocal := make([]int, nFD)
	for i := range nLocal {
		nLocal[i] = r.Intn(4)
	}
	t := &tb{}
	t.u8(2)
	t.u8(0)
	t.f8("hdrSize", 5, -1)
	fTop := t.f16("topDictLength", 0, -1)
	T := t.pos()
	for _, v := range []int{1, 0, 0, 1, 0, 0} {
		dictInt(t, v)
	}
	dictOp(t, 12, 7) // FontMatrix
	oCS := dictOff(t, "top.charstrings")
	dictOp(t, 17)
	oFDA := dictOff(t, "top.fdarray")
	dictOp(t, 12, 36)
	oFDS, oVS := -1, -1
	if fdsFmt >= 0 {
		oFDS = dictOff(t, "top.fdselect")
		dictOp(t, 12, 37)
	}
	if vstore {
		oVS = dictOff(t, "top.vstore")
		dictOp(t, 24)
	}
	t.set(fTop, t.pos()-T)
	t.f[fTop].lim = t.pos() - T

	// variation store first: the charstrings need the region counts
	ks := []int{0}
	var vs *tb
	if vstore {
		vs = &tb{}
		nAxes := e.axes
		if nAxes == 0 {
			nAxes = 1
		}
		lenF := vs.f16("vs.length", 0, -1)
		ks = itemVarStore(r, vs, nAxes, 1+r.Intn(4), 1+r.Intn(3), 0)
		vs.set(lenF, len(vs.b)-2)
		vs.f[lenF].lim = len(vs.b) - 2
	}
	vsi := make([]int, nFD)
	for i := range vsi {
		vsi[i] = r.Intn(len(ks))
	}

	cffIndex(r, t, "gsubr", subrs(r, nGlobal, csEnv{cff2: true}), 1+r.Intn(4), true)
	if oVS >= 0 {
		t.here(oVS, 0)
		t.embed("", vs)
	}
	// FDSelect
	fdOf := make([]int, ng)
	if oFDS >= 0 {
		t.here(oFDS, 0)
		t.f8("fdselect.format", fdsFmt, -1)
		if fdsFmt == 0 {
			reg := sampleIdx(r, ng)
			for i := 0; i < ng; i++ {
				fdOf[i] = r.Intn(nFD)
				if reg[i] {
					t.f8("fdselect.fd", fdOf[i], nFD)
				} else {
					t.u8(fdOf[i])
				}
			}
		} else {
			var firsts []int
			for g := 0; g < ng; g += 1 + r.Intn(6) {
				firsts = append(firsts, g)
			}
			w, fw := 2, 1
			if fdsFmt == 4 {
				w, fw = 4, 2
			}
			t.cw("fdselect.nRanges", w, len(firsts))
			for i, g := range firsts {
				fd := r.Intn(nFD)
				end := ng
				if i+1 < len(firsts) {
					end = firsts[i+1]
				}
				for x := g; x < end; x++ {
					fdOf[x] = fd
				}
				t.fw("fdselect.first", w, g, ng)
				t.fw("fdselect.fd", fw, fd, nFD)
			}
			t.fw("fdselect.sentinel", w, ng, ng)
		}
	}
	// CharStrings
	t.here(oCS, 0)
	cs := make([][]byte, ng)
	for i := range cs {
		fd := fdOf[i]
		cs[i] = charstring(r, csEnv{nLocal: nLocal[fd], nGlobal: nGlobal, cff2: true, k: ks[vsi[fd]]}, false)
		if vstore && r.Intn(6) == 0 { // explicit vsindex at the start
			v := r.Intn(len(ks))
			cs[i] = append(csNum(nil, v), append([]byte{15}, charstring(r, csEnv{nLocal: nLocal[fd], nGlobal: nGlobal, cff2: true, k: ks[v]}, false)...)...)
		}
	}
	cffIndex(r, t, "charstrings", cs, 1+r.Intn(4), true)
	// FDArray: Font DICTs of 11 bytes
	t.here(oFDA, 0)
	t.c32("fdarray.count", nFD)
	t.f8("fdarray.offSize", 1, 4)
	for i := 0; i <= nFD; i++ {
		t.f8("fdarray.offset", 1+11*i, 11*nFD+1)
	}
	var fs [][2]int
	for i := 0; i < nFD; i++ {
		t.u8(29)
		a := t.f32("fd"+itoa(i)+".private.size", 0, -1)
		b := dictOff(t, "fd"+itoa(i)+".private.offset")
		dictOp(t, 18)
		fs = append(fs, [2]int{a, b})
	}
	for i := 0; i < nFD; i++ {
		P := t.pos()
		for _, v := range []int{-10, 10, 500, 10} {
			dictInt(t, v)
		}
		dictOp(t, 6) // BlueValues
		if vstore {
			t.u8(28)
			t.f16("private"+itoa(i)+".vsindex", vsi[i], len(ks))
			dictOp(t, 22)
		}
		oS := -1
		if nLocal[i] > 0 || r.Intn(4) == 0 {
			oS = dictOff(t, "private"+itoa(i)+".subrs")
			dictOp(t, 19)
		}
		size := t.pos() - P
		t.set(fs[i][0], size)
		t.f[fs[i][0]].lim = size
		t.set(fs[i][1], P)
		if oS >= 0 {
			t.here(oS, P)
			cffIndex(r, t, "lsubr"+itoa(i), subrs(r, nLocal[i], csEnv{cff2: true}), 1+r.Intn(4), true)
		}
	}
	return []builtTable{{"CFF2", t}, {"maxp", synthMaxp(ng)}}
}
