package main

// Table synthesis: the variation tables 'fvar', 'avar', 'HVAR', 'VVAR', 'MVAR', 'gvar' (item variation
// store, delta-set index maps of format 0 / 1 and every entry format, tuple variation headers with
// embedded peak / intermediate tuples, shared and private packed point numbers, packed deltas) and the
// bitmap tables 'CBLC'+'CBDT', 'EBLC'+'EBDT', 'bloc'+'bdat' with the index subtable formats 1..5.

import (
	"math/rand"
)

func init() {
	one := func(tag string, f func(r *rand.Rand, e *synEnv) *tb) func(r *rand.Rand, e *synEnv) []builtTable {
		return func(r *rand.Rand, e *synEnv) []builtTable { return []builtTable{{tag, f(r, e)}} }
	}
	registerKind(synKind{name: "fvar", base: baseTT, formats: []synFormat{{name: "v1", build: one("fvar", buildFvar)}}})
	registerKind(synKind{name: "avar", base: baseTT, formats: []synFormat{{name: "v1", build: one("avar", buildAvar)}}})
	registerKind(synKind{name: "HVAR", base: baseTT, formats: []synFormat{
		{name: "map0", build: one("HVAR", func(r *rand.Rand, e *synEnv) *tb { return buildHVAR(r, e, 0) })},
		{name: "map1", build: one("HVAR", func(r *rand.Rand, e *synEnv) *tb { return buildHVAR(r, e, 1) })},
	}})
	registerKind(synKind{name: "VVAR", base: baseTT, formats: []synFormat{
		{name: "map0+vmtx", build: func(r *rand.Rand, e *synEnv) []builtTable {
			return append([]builtTable{{"VVAR", buildHVAR(r, e, r.Intn(2))}}, buildHVmtx(r, e, "vhea", "vmtx")...)
		}},
	}})
	registerKind(synKind{name: "MVAR", base: baseTT, formats: []synFormat{{name: "v1", build: one("MVAR", buildMVAR)}}})
	registerKind(synKind{name: "gvar", base: baseTT, formats: []synFormat{
		{name: "short", build: one("gvar", func(r *rand.Rand, e *synEnv) *tb { return buildGvar(r, e, 0) })},
		{name: "long", build: one("gvar", func(r *rand.Rand, e *synEnv) *tb { return buildGvar(r, e, 1) })},
	}})
	var bf []synFormat
	for _, tags := range [][2]string{{"CBLC", "CBDT"}, {"EBLC", "EBDT"}, {"bloc", "bdat"}} {
		for ix := 1; ix <= 5; ix++ {
			tags, ix := tags, ix
			bf = append(bf, synFormat{name: tags[0] + ".index" + itoa(ix), build: func(r *rand.Rand, e *synEnv) []builtTable {
				return buildBitmap(r, e, tags[0], tags[1], ix)
			}})
		}
	}
	registerKind(synKind{name: "bitmap", base: baseTT, formats: bf})
}

func nAxes(e *synEnv) int {
	if e.axes > 0 {
		return e.axes
	}
	return 1
}

func buildFvar(r *rand.Rand, e *synEnv) *tb {
	t := &tb{}
	na := 1 + r.Intn(3)
	ni := r.Intn(3)
	isz := 4 + 4*na + 2*r.Intn(2)
	t.u16(1)
	t.u16(0)
	oA := t.o16("axesArrayOffset")
	t.u16(2)
	t.c16("axisCount", na)
	t.f16("axisSize", 20, -1)
	t.c16("instanceCount", ni)
	t.f16("instanceSize", isz, -1)
	t.here(oA, 0)
	for i := 0; i < na; i++ {
		t.bytes([]byte([]string{"wght", "wdth", "opsz"}[i])...)
		t.f32("axis.min", 100<<16, -1)
		t.f32("axis.default", 400<<16, -1)
		t.f32("axis.max", 900<<16, -1)
		t.u16(0)
		t.u16(256 + i)
	}
	for i := 0; i < ni; i++ {
		t.u16(260 + i)
		t.u16(0)
		for k := 0; k < na; k++ {
			t.u32((100 + r.Intn(800)) << 16)
		}
		if isz == 6+4*na {
			t.u16(270 + i)
		}
	}
	return t
}

func buildAvar(r *rand.Rand, e *synEnv) *tb {
	t := &tb{}
	t.u16(1)
	t.u16(0)
	t.u16(0)
	na := nAxes(e) + r.Intn(2)
	t.c16("axisCount", na)
	for i := 0; i < na; i++ {
		n := []int{0, 3, 4, 5}[r.Intn(4)]
		t.c16("positionMapCount", n)
		for k := 0; k < n; k++ {
			v := -0x4000 + k*0x8000/(n-1)
			t.f16("map.from", v&0xFFFF, -1)
			w := v
			if k != 0 && k != n-1 && v != 0 {
				w = v + r.Intn(0x800) - 0x400
			}
			t.f16("map.to", w&0xFFFF, -1)
		}
	}
	return t
}

// deltaSetMap writes a DeltaSetIndexMap of the given format for n glyphs.
func deltaSetMap(r *rand.Rand, t *tb, format, n, outerLim, innerLim int) {
	entrySize := 1 + r.Intn(4)
	innerBits := 1 + r.Intn(8)
	if innerBits > 8*entrySize {
		innerBits = 8 * entrySize
	}
	t.f8("map.format", format, 2)
	t.f8("map.entryFormat", (entrySize-1)<<4|(innerBits-1), -1)
	if format == 0 {
		t.c16("map.count", n)
	} else {
		t.c32("map.count", n)
	}
	reg := sampleIdx(r, n)
	for i := 0; i < n; i++ {
		v := (r.Intn(outerLim)<<uint(innerBits) | r.Intn(innerLim)&(1<<uint(innerBits)-1)) & maxOf(entrySize)
		if reg[i] {
			t.fw("map.entry", entrySize, v, -1)
		} else {
			t.raw(entrySize, v)
		}
	}
}

func buildHVAR(r *rand.Rand, e *synEnv, mapFormat int) *tb {
	t := &tb{}
	t.u16(1)
	t.u16(0)
	oS := t.o32("itemVariationStore")
	oA := t.o32("advanceMapping")
	oL := t.o32("lsbMapping")
	oR := t.o32("rsbMapping")
	t.here(oS, 0)
	nData, items := 1+r.Intn(2), 1+r.Intn(e.nGlyphs)
	itemVarStore(r, t, nAxes(e), 1+r.Intn(3), nData, items)
	for _, o := range []int{oA, oL, oR} {
		if r.Intn(3) == 0 {
			continue // no mapping: the glyph id is the inner index
		}
		t.here(o, 0)
		n := 1 + r.Intn(e.nGlyphs)
		deltaSetMap(r, t, mapFormat, n, nData, items)
	}
	return t
}

func buildMVAR(r *rand.Rand, e *synEnv) *tb {
	t := &tb{}
	t.u16(1)
	t.u16(0)
	t.u16(0)
	n := r.Intn(6)
	t.f16("valueRecordSize", 8+2*r.Intn(2), -1)
	t.c16("valueRecordCount", n)
	oS := t.o16("itemVariationStore")
	tags := []string{"hasc", "hdsc", "hlgp", "undo", "unds", "xhgt", "cpht", "stro", "strs", "sbyo"}
	sz := t.getAt(t.f[len(t.f)-3].off, 2)
	for i := 0; i < n; i++ {
		t.bytes([]byte(tags[(i*2+r.Intn(2))%len(tags)])...)
		t.f16("value.outer", r.Intn(2), 2)
		t.f16("value.inner", r.Intn(4), 4)
		for k := 8; k < sz; k++ {
			t.u8(0)
		}
	}
	t.here(oS, 0)
	itemVarStore(r, t, nAxes(e), 1+r.Intn(3), 2, 4)
	return t
}

// packedPoints writes packed point numbers (n points, increasing).
func packedPoints(r *rand.Rand, t *tb, n int) {
	if n == 0 {
		t.u8(0) // all points
		return
	}
	t.f8("points.count", n, -1)
	for left := n; left > 0; {
		run := 1 + r.Intn(left)
		if run > 127 {
			run = 127
		}
		words := r.Intn(4) == 0
		ctl := run - 1
		if words {
			ctl |= 0x80
		}
		t.f8("points.control", ctl, -1)
		for i := 0; i < run; i++ {
			if words {
				t.u16(1 + r.Intn(3))
			} else {
				t.u8(r.Intn(3))
			}
		}
		left -= run
	}
}

func packedDeltas(r *rand.Rand, t *tb, n int) {
	for left := n; left > 0; {
		run := 1 + r.Intn(left)
		if run > 64 {
			run = 64
		}
		switch r.Intn(3) {
		case 0:
			t.f8("deltas.control", 0x80|(run-1), -1)
		case 1:
			t.f8("deltas.control", 0x40|(run-1), -1)
			for i := 0; i < run; i++ {
				t.u16(kernValue(r))
			}
		default:
			t.f8("deltas.control", run-1, -1)
			for i := 0; i < run; i++ {
				t.u8(r.Intn(256))
			}
		}
		left -= run
	}
}

func buildGvar(r *rand.Rand, e *synEnv, long int) *tb {
	na := nAxes(e)
	ng := e.nGlyphs
	nShared := r.Intn(3)
	t := &tb{}
	t.u16(1)
	t.u16(0)
	t.c16("axisCount", na)
	t.c16("sharedTupleCount", nShared)
	oShared := t.o32("sharedTuples")
	t.c16("glyphCount", ng)
	t.f16("flags", long, -1)
	oData := t.o32("glyphVariationDataArray")
	w := 2 + 2*long
	offAt := t.pos()
	for i := 0; i <= ng; i++ {
		t.raw(w, 0)
	}
	t.f = append(t.f, fld{name: "glyphOffset.first", off: offAt, w: w, lim: -2}, fld{name: "glyphOffset.one", off: offAt + w*(1+r.Intn(ng)), w: w, lim: -2},
		fld{name: "glyphOffset.last", off: offAt + w*ng, w: w, lim: -2})
	t.here(oShared, 0)
	for i := 0; i < nShared*na; i++ {
		t.u16([]int{0x4000, 0xC000, 0x2000, 0}[r.Intn(4)])
	}
	t.pad(2)
	t.here(oData, 0)
	D := t.pos()
	for g := 0; g < ng; g++ {
		v := t.pos() - D
		if long == 0 {
			v /= 2
		}
		t.putAt(offAt+w*g, w, v)
		if r.Intn(3) == 0 {
			continue // no variation data
		}
		G := t.pos()
		nt := 1 + r.Intn(3)
		shared := r.Intn(3) == 0
		fl := nt
		if shared {
			fl |= 0x8000
		}
		t.f16("gv.tupleVariationCount", fl, -1)
		oSer := t.o16("gv.dataOffset")
		type hd struct{ sizeF, npts int }
		var hs []hd
		for k := 0; k < nt; k++ {
			sizeF := t.f16("gv.tuple.variationDataSize", 0, -1)
			ti := 0
			if nShared > 0 && r.Intn(2) == 0 {
				ti = r.Intn(nShared)
			} else {
				ti = 0x8000
			}
			npts := -1
			if !shared || r.Intn(2) == 0 {
				ti |= 0x2000
				npts = r.Intn(5)
			}
			inter := r.Intn(4) == 0
			if inter {
				ti |= 0x4000
			}
			t.f16("gv.tuple.tupleIndex", ti, -1)
			if ti&0x8000 != 0 {
				for a := 0; a < na; a++ {
					t.u16([]int{0x4000, 0xC000, 0x2000}[r.Intn(3)])
				}
			}
			if inter {
				for a := 0; a < 2*na; a++ {
					t.u16([]int{0, 0x4000}[a/na])
				}
			}
			hs = append(hs, hd{sizeF, npts})
		}
		t.here(oSer, G)
		sharedN := 0
		if shared {
			sharedN = 1 + r.Intn(4)
			packedPoints(r, t, sharedN)
		}
		for _, h := range hs {
			P := t.pos()
			n := sharedN
			if h.npts >= 0 {
				packedPoints(r, t, h.npts)
				n = h.npts
			}
			if n == 0 {
				n = 4 + r.Intn(8) // "all points": the number of points of the glyph is not known here
			}
			packedDeltas(r, t, n)
			packedDeltas(r, t, n)
			t.set(h.sizeF, t.pos()-P)
			t.f[h.sizeF].lim = t.pos() - P
		}
		if long == 0 {
			t.pad(2)
		}
	}
	v := t.pos() - D
	if long == 0 {
		v /= 2
	}
	t.putAt(offAt+w*ng, w, v)
	return t
}

// ---------------------------------------------------------------------------------------- bitmaps

func buildBitmap(r *rand.Rand, e *synEnv, loc, dat string, indexFormat int) []builtTable {
	l, d := &tb{}, &tb{}
	color := loc == "CBLC"
	if color {
		l.u16(3)
		d.u16(3)
	} else {
		l.u16(2)
		d.u16(2)
	}
	l.u16(0)
	d.u16(0)
	nSizes := 1 + r.Intn(2)
	l.c32("numSizes", nSizes)
	type sz struct{ oArr, sizeF, nF int }
	var ss []sz
	for i := 0; i < nSizes; i++ {
		var s sz
		s.oArr = l.o32("size.indexSubTableArrayOffset")
		s.sizeF = l.f32("size.indexTablesSize", 0, -1)
		s.nF = l.c32("size.numberOfIndexSubTables", 0)
		l.u32(0)
		for k := 0; k < 24; k++ {
			l.u8(r.Intn(20))
		}
		l.f16("size.startGlyph", 0, e.nGlyphs)
		l.f16("size.endGlyph", e.nGlyphs-1, e.nGlyphs)
		l.f8("size.ppemX", 12+8*i, -1)
		l.f8("size.ppemY", 12+8*i, -1)
		l.f8("size.bitDepth", []int{1, 2, 4, 8, 32}[r.Intn(5)], -1)
		l.f8("size.flags", 1, -1)
		ss = append(ss, s)
	}
	png := []byte{0x89, 'P', 'N', 'G', 0x0D, 0x0A, 0x1A, 0x0A, 0, 0, 0, 13, 'I', 'H', 'D', 'R', 0, 0, 0, 8, 0, 0, 0, 8, 8, 6, 0, 0, 0}
	for _, s := range ss {
		l.here(s.oArr, 0)
		A := l.pos()
		nSub := 1 + r.Intn(2)
		l.set(s.nF, nSub)
		l.f[s.nF].lim = nSub
		var oSub []int
		var ranges [][2]int
		g := r.Intn(4)
		for k := 0; k < nSub; k++ {
			a := g
			b := a + r.Intn(5)
			if b >= e.nGlyphs {
				b = e.nGlyphs - 1
			}
			if a > b {
				a = b
			}
			g = b + 1 + r.Intn(3)
			l.f16("sub.firstGlyph", a, e.nGlyphs)
			l.f16("sub.lastGlyph", b, e.nGlyphs)
			oSub = append(oSub, l.o32("sub.additionalOffset"))
			ranges = append(ranges, [2]int{a, b})
		}
		for k := 0; k < nSub; k++ {
			l.here(oSub[k], A)
			n := ranges[k][1] - ranges[k][0] + 1
			imgFmt := []int{2, 2, 2, 2, 1, 6, 7}[r.Intn(7)] // the library only reads format 2 of these
			if color {
				imgFmt = []int{17, 18}[r.Intn(2)]
			}
			if indexFormat == 2 || indexFormat == 5 {
				imgFmt = 5
				if color {
					imgFmt = 19
				}
			}
			l.f16("sub.indexFormat", indexFormat, 6)
			l.f16("sub.imageFormat", imgFmt, -1)
			l.f32("sub.imageDataOffset", d.pos(), -1)
			// the image data of the n glyphs
			var offs []int
			D := d.pos()
			fixed := 8 // bytes per glyph for the formats with a constant image size
			for i := 0; i < n; i++ {
				offs = append(offs, d.pos()-D)
				switch imgFmt {
				case 1, 2:
					d.bytes(4, 4, 0, 4, 5) // small metrics
					d.bytes(0xF0, 0x90, 0x90, 0xF0)
				case 6, 7:
					d.bytes(4, 4, 0, 4, 5, 0, 0, 5) // big metrics
					d.bytes(0xF0, 0x90, 0x90, 0xF0)
				case 5:
					d.bytes(0xF0, 0x90, 0x90, 0xF0, 0, 0, 0, 0)
				case 17:
					d.bytes(8, 8, 0, 8, 9)
					d.u32(len(png))
					d.bytes(png...)
				case 18:
					d.bytes(8, 8, 0, 8, 9, 0, 0, 9)
					d.u32(len(png))
					d.bytes(png...)
				case 19:
					d.u32(4)
					d.bytes(png[:4]...)
				}
			}
			offs = append(offs, d.pos()-D)
			bigMetrics := func() {
				for _, v := range []int{4, 4, 0, 4, 5, 0, 0, 5} {
					l.u8(v)
				}
			}
			switch indexFormat {
			case 1:
				for i, o := range offs {
					if i == 0 || i == len(offs)-1 {
						l.f32("index1.offset", o, -1)
					} else {
						l.u32(o)
					}
				}
			case 2:
				l.f32("index2.imageSize", fixed, -1)
				bigMetrics()
			case 3:
				for i, o := range offs {
					if i == 0 || i == len(offs)-1 {
						l.f16("index3.offset", o, -1)
					} else {
						l.u16(o)
					}
				}
				l.pad(4)
			case 4:
				l.c32("index4.numGlyphs", n)
				for i, o := range offs {
					gid := ranges[k][0] + i
					if i == n {
						gid = 0
					}
					l.f16("index4.glyph", gid, e.nGlyphs)
					l.f16("index4.offset", o, -1)
				}
			default:
				l.f32("index5.imageSize", fixed, -1)
				bigMetrics()
				l.c32("index5.numGlyphs", n)
				for i := 0; i < n; i++ {
					l.f16("index5.glyph", ranges[k][0]+i, e.nGlyphs)
				}
				l.pad(4)
			}
		}
		l.set(s.sizeF, l.pos()-A)
	}
	return []builtTable{{loc, l}, {dat, d}}
}
