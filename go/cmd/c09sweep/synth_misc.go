package main

// Table synthesis: 'cmap' (subtable formats 0, 2, 4, 6, 10, 12, 13, 14 under several platform /
// encoding records), 'post' (1, 2, 2.5, 3), 'name' (format 0, 1 with language tags), 'hhea'+'hmtx' and
// 'vhea'+'vmtx' (numberOfHMetrics boundary), 'OS/2' (versions 0..5), 'maxp' (0.5, 1.0), 'head', 'loca'
// (short, long) + 'glyf' (simple and composite glyphs), 'SVG ', 'sbix'.

import (
	"math/rand"
	"sort"
)

func init() {
	var cf []synFormat
	for _, f := range []int{0, 2, 4, 6, 10, 12, 13, 14} {
		f := f
		cf = append(cf, synFormat{name: "f" + itoa(f), build: func(r *rand.Rand, e *synEnv) []builtTable {
			return []builtTable{{"cmap", buildCmap(r, e, []int{f})}}
		}})
	}
	cf = append(cf, synFormat{name: "multi", build: func(r *rand.Rand, e *synEnv) []builtTable {
		n := 2 + r.Intn(4)
		fs := make([]int, n)
		for i := range fs {
			fs[i] = []int{0, 2, 4, 6, 10, 12, 13, 14}[r.Intn(8)]
		}
		return []builtTable{{"cmap", buildCmap(r, e, fs)}}
	}})
	registerKind(synKind{name: "cmap", base: baseTT, formats: cf})

	var pf []synFormat
	for _, v := range []int{0x10000, 0x20000, 0x25000, 0x30000} {
		v := v
		pf = append(pf, synFormat{name: "v" + itoa(v>>16) + "." + itoa(v>>12&0xF), build: func(r *rand.Rand, e *synEnv) []builtTable {
			return []builtTable{{"post", buildPost(r, e, v)}}
		}})
	}
	registerKind(synKind{name: "post", base: baseTT, formats: pf})

	registerKind(synKind{name: "name", base: baseTT, formats: []synFormat{
		{name: "f0", build: func(r *rand.Rand, e *synEnv) []builtTable { return []builtTable{{"name", buildName(r, e, 0)}} }},
		{name: "f1", build: func(r *rand.Rand, e *synEnv) []builtTable { return []builtTable{{"name", buildName(r, e, 1)}} }},
	}})
	registerKind(synKind{name: "hmtx", base: baseTT, formats: []synFormat{
		{name: "hhea+hmtx", build: func(r *rand.Rand, e *synEnv) []builtTable { return buildHVmtx(r, e, "hhea", "hmtx") }},
		{name: "vhea+vmtx", build: func(r *rand.Rand, e *synEnv) []builtTable { return buildHVmtx(r, e, "vhea", "vmtx") }},
	}})
	var of []synFormat
	for v := 0; v <= 5; v++ {
		v := v
		of = append(of, synFormat{name: "v" + itoa(v), build: func(r *rand.Rand, e *synEnv) []builtTable {
			return []builtTable{{"OS/2", buildOS2(r, e, v)}}
		}})
	}
	registerKind(synKind{name: "OS/2", base: baseTT, formats: of})
	registerKind(synKind{name: "maxp", base: baseTT, formats: []synFormat{
		{name: "v0.5", build: func(r *rand.Rand, e *synEnv) []builtTable { return []builtTable{{"maxp", buildMaxp(r, e, false)}} }},
		{name: "v1.0", build: func(r *rand.Rand, e *synEnv) []builtTable { return []builtTable{{"maxp", buildMaxp(r, e, true)}} }},
	}})
	registerKind(synKind{name: "head", base: baseTT, formats: []synFormat{
		{name: "v1", build: func(r *rand.Rand, e *synEnv) []builtTable { return []builtTable{{"head", buildHead(r, e, r.Intn(2))}} }},
	}})
	registerKind(synKind{name: "glyf", base: baseTT, drop: []string{"gvar"}, formats: []synFormat{
		{name: "loca.short", build: func(r *rand.Rand, e *synEnv) []builtTable { return buildGlyf(r, e, 0) }},
		{name: "loca.long", build: func(r *rand.Rand, e *synEnv) []builtTable { return buildGlyf(r, e, 1) }},
	}})
	registerKind(synKind{name: "SVG", base: baseTT, formats: []synFormat{
		{name: "v0", build: func(r *rand.Rand, e *synEnv) []builtTable { return []builtTable{{"SVG ", buildSVG(r, e)}} }},
	}})
	registerKind(synKind{name: "sbix", base: baseTT, formats: []synFormat{
		{name: "v1", build: func(r *rand.Rand, e *synEnv) []builtTable { return []builtTable{{"sbix", buildSbix(r, e)}} }},
	}})
}

// ---------------------------------------------------------------------------------------- cmap

type rg struct {
	r rune
	g int
}

func cmapPairs(r *rand.Rand, e *synEnv, maxRune rune) []rg {
	var out []rg
	seen := map[rune]bool{}
	for i, c := range e.runes {
		if c <= maxRune && r.Intn(8) > 0 {
			out = append(out, rg{c, e.pool[i]})
			seen[c] = true
		}
	}
	for i := 0; i < 6; i++ {
		c := rune(r.Intn(int(maxRune) + 1))
		if !seen[c] {
			seen[c] = true
			out = append(out, rg{c, e.g(r)})
		}
	}
	sort.Slice(out, func(i, j int) bool { return out[i].r < out[j].r })
	return out
}

func buildCmap(r *rand.Rand, e *synEnv, formats []int) *tb {
	t := &tb{}
	t.u16(0)
	t.c16("numTables", len(formats))
	ids := [][2]int{{3, 1}, {0, 3}, {3, 10}, {0, 4}, {0, 6}, {1, 0}, {3, 0}, {0, 0}}
	var offs []int
	var recs [][2]int
	for _, f := range formats {
		id := ids[r.Intn(len(ids))]
		switch f {
		case 14:
			id = [2]int{0, 5}
		case 10, 12, 13:
			id = [][2]int{{3, 10}, {0, 4}, {0, 6}}[r.Intn(3)]
		}
		recs = append(recs, id)
	}
	// an encoding record the loader selects must exist: if only format 2 or 14 subtables, add a format 4 one
	usable := false
	for _, f := range formats {
		if f != 2 && f != 14 {
			usable = true
		}
	}
	if !usable {
		formats = append(formats, 4)
		recs = append(recs, [2]int{3, 1})
		t.set(len(t.f)-1, len(formats))
		t.f[len(t.f)-1].lim = len(formats)
	}
	for i := range formats {
		t.f16("rec.platform", recs[i][0], -1)
		t.f16("rec.encoding", recs[i][1], -1)
		offs = append(offs, t.o32("rec.offset"))
	}
	for i, f := range formats {
		t.here(offs[i], 0)
		s := &tb{}
		switch f {
		case 0:
			s.u16(0)
			s.f16("length", 262, -1)
			s.u16(0)
			m := map[rune]int{}
			for _, p := range cmapPairs(r, e, 255) {
				m[p.r] = p.g & 0xFF
			}
			for c := 0; c < 256; c++ {
				s.u8(m[rune(c)])
			}
		case 2:
			s.u16(2)
			lenF := s.f16("length", 0, -1)
			s.u16(0)
			for c := 0; c < 256; c++ {
				s.u16(0)
			}
			s.u16(0)
			s.u16(256)
			s.u16(0)
			s.u16(2)
			for c := 0; c < 256; c++ {
				s.u16(r.Intn(e.nGlyphs))
			}
			s.set(lenF, len(s.b))
		case 4:
			cmap4(r, e, s)
		case 6, 10:
			ps := cmapPairs(r, e, 0x7F)
			first, last := int(ps[0].r), int(ps[len(ps)-1].r)
			vals := make([]int, last-first+1)
			for _, p := range ps {
				vals[int(p.r)-first] = p.g
			}
			if f == 6 {
				s.u16(6)
				lenF := s.f16("length", 0, -1)
				s.u16(0)
				s.f16("firstCode", first, -1)
				s.c16("entryCount", len(vals))
				for _, v := range vals {
					s.u16(v)
				}
				s.set(lenF, len(s.b))
			} else {
				s.u16(10)
				s.u16(0)
				lenF := s.f32("length", 0, -1)
				s.u32(0)
				s.f32("startCharCode", first, -1)
				s.c32("numChars", len(vals))
				for _, v := range vals {
					s.u16(v)
				}
				s.set(lenF, len(s.b))
			}
		case 12, 13:
			ps := cmapPairs(r, e, 0x2FFFF)
			s.u16(f)
			s.u16(0)
			lenF := s.f32("length", 0, -1)
			s.u32(0)
			s.c32("numGroups", len(ps))
			reg := sampleIdx(r, len(ps))
			for i, p := range ps {
				end := int(p.r)
				if f == 13 && i+1 < len(ps) {
					end = int(p.r) + r.Intn(int(ps[i+1].r-p.r))
				}
				if reg[i] {
					s.f32("group.start", int(p.r), -1)
					s.f32("group.end", end, -1)
					s.f32("group.glyph", p.g, e.nGlyphs)
				} else {
					s.u32(int(p.r))
					s.u32(end)
					s.u32(p.g)
				}
			}
			s.set(lenF, len(s.b))
		case 14:
			s.u16(14)
			lenF := s.f32("length", 0, -1)
			n := 1 + r.Intn(3)
			s.c32("numVarSelectorRecords", n)
			var od, on []int
			for i := 0; i < n; i++ {
				s.u24(0xFE00 + i)
				od = append(od, s.o32("defaultUVS"))
				on = append(on, s.o32("nonDefaultUVS"))
			}
			for i := 0; i < n; i++ {
				if r.Intn(3) > 0 {
					s.here(od[i], 0)
					k := 1 + r.Intn(3)
					s.c32("default.numRanges", k)
					for j := 0; j < k; j++ {
						s.u24(int(e.runes[r.Intn(len(e.runes))]))
						s.f8("default.additionalCount", r.Intn(4), -1)
					}
				}
				if r.Intn(3) > 0 {
					s.here(on[i], 0)
					ps := cmapPairs(r, e, 0x7F)
					s.c32("nondefault.numMappings", len(ps))
					for _, p := range ps {
						s.u24(int(p.r))
						s.u16(p.g)
					}
				}
			}
			s.set(lenF, len(s.b))
		}
		t.embed("sub"+itoa(i)+".f"+itoa(f), s)
	}
	return t
}

func cmap4(r *rand.Rand, e *synEnv, s *tb) {
	ps := cmapPairs(r, e, 0xFFFE)
	type seg struct {
		start, end int
		gs         []int
	}
	var segs []seg
	for _, p := range ps {
		if n := len(segs); n > 0 && segs[n-1].end+1 == int(p.r) {
			segs[n-1].end++
			segs[n-1].gs = append(segs[n-1].gs, p.g)
		} else {
			segs = append(segs, seg{int(p.r), int(p.r), []int{p.g}})
		}
	}
	segs = append(segs, seg{0xFFFF, 0xFFFF, []int{0}})
	n := len(segs)
	sr, es, rs := binSearch(n, 2)
	s.u16(4)
	lenF := s.f16("length", 0, -1)
	s.u16(0)
	s.c16("segCountX2", 2*n)
	s.f16("searchRange", sr, -1)
	s.f16("entrySelector", es, -1)
	s.f16("rangeShift", rs, -1)
	reg := sampleIdx(r, n)
	for i, g := range segs {
		if reg[i] {
			s.f16("endCode", g.end, -1)
		} else {
			s.u16(g.end)
		}
	}
	s.u16(0)
	for i, g := range segs {
		if reg[i] {
			s.f16("startCode", g.start, -1)
		} else {
			s.u16(g.start)
		}
	}
	// delta for the single-glyph runs, glyph id array for the others
	var arr []int
	roAt := make([]int, n)
	for i, g := range segs {
		consecutive := true
		for k := range g.gs {
			if g.gs[k] != g.gs[0]+k {
				consecutive = false
			}
		}
		if consecutive && r.Intn(3) > 0 {
			s.f16("idDelta", (g.gs[0]-g.start)&0xFFFF, -1)
			roAt[i] = -1
		} else {
			s.u16(0)
			roAt[i] = len(arr)
			arr = append(arr, g.gs...)
		}
	}
	for i := range segs {
		if roAt[i] < 0 {
			s.f16("idRangeOffset", 0, -1)
		} else {
			s.f16("idRangeOffset", 2*(n-i)+2*roAt[i], 2*(n-i)+2*len(arr))
		}
	}
	for _, g := range arr {
		s.u16(g)
	}
	s.set(lenF, len(s.b))
	s.f[lenF].lim = len(s.b)
}

// ---------------------------------------------------------------------------------------- post, name

func buildPost(r *rand.Rand, e *synEnv, version int) *tb {
	t := &tb{}
	t.f32("version", version, -1)
	t.u32(0)
	t.u16(0xFF9C)
	t.u16(50)
	t.u32(0)
	for i := 0; i < 4; i++ {
		t.u32(0)
	}
	switch version {
	case 0x20000:
		ng := e.nGlyphs
		if r.Intn(4) == 0 {
			ng = 1 + r.Intn(e.nGlyphs)
		}
		nNew := 1 + r.Intn(6)
		t.c16("numGlyphs", ng)
		reg := sampleIdx(r, ng)
		for i := 0; i < ng; i++ {
			v := r.Intn(258)
			if r.Intn(3) == 0 {
				v = 258 + r.Intn(nNew)
			}
			if reg[i] {
				t.f16("glyphNameIndex", v, 258+nNew)
			} else {
				t.u16(v)
			}
		}
		for i := 0; i < nNew; i++ {
			name := "glyph" + itoa(i)
			t.f8("name.length", len(name), -1)
			t.bytes([]byte(name)...)
		}
	case 0x25000:
		t.c16("numGlyphs", e.nGlyphs)
		for i := 0; i < e.nGlyphs; i++ {
			t.u8(r.Intn(256))
		}
	}
	return t
}

func buildName(r *rand.Rand, e *synEnv, format int) *tb {
	t := &tb{}
	t.f16("format", format, -1)
	n := 1 + r.Intn(8)
	t.c16("count", n)
	oS := t.o16("stringOffset")
	type rec struct{ oF, lF int }
	var recs []rec
	strs := []string{"Synth", "Regular", "Synth Regular", "Version 1.0", "x"}
	for i := 0; i < n; i++ {
		pl := [][3]int{{3, 1, 0x409}, {1, 0, 0}, {0, 3, 0}, {3, 10, 0x40C}, {0, 4, 0x8000}}[r.Intn(5)]
		t.f16("rec.platform", pl[0], -1)
		t.f16("rec.encoding", pl[1], -1)
		t.f16("rec.language", pl[2], -1)
		t.f16("rec.nameID", []int{1, 2, 4, 5, 6, 16, 17, 256}[r.Intn(8)], -1)
		lF := t.f16("rec.length", 0, -1)
		oF := t.f16("rec.offset", 0, -1)
		recs = append(recs, rec{oF, lF})
	}
	var langs []rec
	if format == 1 {
		k := 1 + r.Intn(3)
		t.c16("langTagCount", k)
		for i := 0; i < k; i++ {
			lF := t.f16("lang.length", 0, -1)
			oF := t.f16("lang.offset", 0, -1)
			langs = append(langs, rec{oF, lF})
		}
	}
	t.here(oS, 0)
	S := t.pos()
	for _, rc := range append(recs, langs...) {
		s := strs[r.Intn(len(strs))]
		t.set(rc.oF, t.pos()-S)
		t.set(rc.lF, 2*len(s))
		for _, c := range s {
			t.u16(int(c))
		}
	}
	total := t.pos() - S
	for _, rc := range append(recs, langs...) {
		t.f[rc.oF].lim = total
		t.f[rc.lF].lim = total
	}
	return t
}

// ---------------------------------------------------------------------------------------- hhea/hmtx, OS/2, maxp, head

func buildHVmtx(r *rand.Rand, e *synEnv, hea, mtx string) []builtTable {
	t := &tb{}
	t.u32(0x00010000)
	for i := 0; i < 15; i++ {
		t.u16(r.Intn(1000))
	}
	nLong := 1 + r.Intn(e.nGlyphs)
	switch r.Intn(5) {
	case 0:
		nLong = e.nGlyphs
	case 1:
		nLong = 1
	}
	t.f16("numberOfLongMetrics", nLong, e.nGlyphs)
	m := &tb{}
	for i := 0; i < nLong; i++ {
		m.u16(r.Intn(1200))
		m.u16(r.Intn(200))
	}
	for i := nLong; i < e.nGlyphs; i++ {
		m.u16(r.Intn(200))
	}
	return []builtTable{{hea, t}, {mtx, m}}
}

func buildOS2(r *rand.Rand, e *synEnv, v int) *tb {
	t := &tb{}
	t.f16("version", v, 6)
	for i := 0; i < 15; i++ {
		t.u16(r.Intn(1000)) // xAvgCharWidth .. sFamilyClass
	}
	for i := 0; i < 10; i++ {
		t.u8(r.Intn(10)) // panose
	}
	for i := 0; i < 4; i++ {
		t.u32(int(r.Uint32()))
	}
	t.bytes('S', 'Y', 'N', 'T')
	t.f16("fsSelection", 0x40, -1)
	t.f16("usFirstCharIndex", 0x20, -1)
	t.f16("usLastCharIndex", 0x7A, -1)
	for i := 0; i < 5; i++ {
		t.u16(r.Intn(1000)) // typo metrics, win metrics
	}
	if v >= 1 {
		t.u32(1)
		t.u32(0)
	}
	if v >= 2 {
		t.f16("sxHeight", 500, -1)
		t.f16("sCapHeight", 700, -1)
		t.u16(0)
		t.u16(0x20)
		t.u16(2)
	}
	if v >= 5 {
		t.u16(0)
		t.u16(0xFFFF)
	}
	return t
}

func buildMaxp(r *rand.Rand, e *synEnv, v1 bool) *tb {
	t := &tb{}
	if !v1 {
		t.f32("version", 0x00005000, -1)
		t.f16("numGlyphs", e.nGlyphs, e.nGlyphs)
		return t
	}
	t.f32("version", 0x00010000, -1)
	t.f16("numGlyphs", e.nGlyphs, e.nGlyphs)
	for _, n := range []string{"maxPoints", "maxContours", "maxCompositePoints", "maxCompositeContours", "maxZones", "maxTwilightPoints", "maxStorage",
		"maxFunctionDefs", "maxInstructionDefs", "maxStackElements", "maxSizeOfInstructions", "maxComponentElements", "maxComponentDepth"} {
		t.f16(n, r.Intn(64), -1)
	}
	return t
}

func buildHead(r *rand.Rand, e *synEnv, locFormat int) *tb {
	t := &tb{}
	t.u32(0x00010000)
	t.u32(0x00010000)
	t.u32(0)
	t.f32("magic", 0x5F0F3CF5, -1)
	t.f16("flags", 3, -1)
	t.f16("unitsPerEm", []int{1000, 2048, 16, 16384}[r.Intn(4)], -1)
	for i := 0; i < 4; i++ {
		t.u32(0)
	}
	for i := 0; i < 4; i++ {
		t.u16(r.Intn(2000))
	}
	t.f16("macStyle", 0, -1)
	t.f16("lowestRecPPEM", 8, -1)
	t.u16(2)
	t.f16("indexToLocFormat", 0, 2) // the loca of the base font is short
	t.u16(0)
	_ = locFormat
	return t
}

// ---------------------------------------------------------------------------------------- glyf + loca

func buildGlyf(r *rand.Rand, e *synEnv, long int) []builtTable {
	ng := e.nGlyphs
	g := &tb{}
	offs := []int{0}
	// The components mostly point at simple glyphs: a font where every composite points at composites makes
	// each glyph query follow maxCompositeEdges = 1024 components (1 MB per query, the limit of the library,
	// as in HarfBuzz) and the battery makes a thousand queries. One build in forty has such deep nesting.
	deep := r.Intn(40) == 0
	var simple []int
	for i := 0; i < ng; i++ {
		switch k := r.Intn(8); {
		case k == 0: // empty
		case k < 6 || i == 0: // simple
			simple = append(simple, i)
			nc := 1 + r.Intn(2)
			g.f16("g.numberOfContours", nc, -1)
			for j := 0; j < 4; j++ {
				g.u16(r.Intn(1000))
			}
			np := 0
			for c := 0; c < nc; c++ {
				np += 2 + r.Intn(3)
				g.f16("g.endPt", np-1, -1)
			}
			g.f16("g.instructionLength", 0, -1)
			for p := 0; p < np; p++ {
				if p == 0 && np >= 3 && r.Intn(3) == 0 {
					g.u8(0x37 | 0x08) // repeat
					g.f8("g.repeat", 2, np)
					p += 2
				} else {
					g.u8(0x37) // on curve, short x, short y, positive
				}
			}
			for p := 0; p < 2*np; p++ {
				g.u8(r.Intn(100))
			}
		default: // composite
			g.f16("g.numberOfContours", 0xFFFF, -1)
			for j := 0; j < 4; j++ {
				g.u16(r.Intn(1000))
			}
			n := 1 + r.Intn(3)
			for c := 0; c < n; c++ {
				fl := []int{0x0002, 0x0003, 0x0002 | 0x0008, 0x0003 | 0x0040, 0x0001 | 0x0080, 0x0000}[r.Intn(6)]
				if c < n-1 {
					fl |= 0x0020
				}
				g.f16("g.comp.flags", fl, -1)
				cg := r.Intn(ng)
				if !deep && len(simple) > 0 && r.Intn(8) > 0 {
					cg = simple[r.Intn(len(simple))]
				}
				g.f16("g.comp.glyph", cg, ng)
				if fl&1 != 0 {
					g.u16(r.Intn(300))
					g.u16(r.Intn(300))
				} else {
					g.u8(r.Intn(100))
					g.u8(r.Intn(100))
				}
				switch {
				case fl&0x0008 != 0:
					g.u16(0x4000)
				case fl&0x0040 != 0:
					g.u16(0x4000)
					g.u16(0x2000)
				case fl&0x0080 != 0:
					for j := 0; j < 4; j++ {
						g.u16(0x2000)
					}
				}
			}
		}
		g.pad(2)
		offs = append(offs, g.pos())
	}
	l := &tb{}
	reg := sampleIdx(r, len(offs))
	for i, o := range offs {
		w, v := 2, o/2
		if long == 1 {
			w, v = 4, o
		}
		if reg[i] {
			l.fw("offset", w, v, -1)
		} else {
			l.raw(w, v)
		}
	}
	h := buildHead(r, e, long)
	for i := range h.f {
		if h.f[i].name == "indexToLocFormat" {
			h.set(i, long)
		}
	}
	// the glyf table is the one whose fields are varied; a second format varies loca
	if r.Intn(3) == 0 {
		return []builtTable{{"loca", l}, {"glyf", g}, {"head", h}}
	}
	return []builtTable{{"glyf", g}, {"loca", l}, {"head", h}}
}

// ---------------------------------------------------------------------------------------- SVG, sbix

func buildSVG(r *rand.Rand, e *synEnv) *tb {
	t := &tb{}
	t.u16(0)
	oL := t.o32("documentList")
	t.u32(0)
	t.here(oL, 0)
	L := t.pos()
	n := 1 + r.Intn(4)
	t.c16("numEntries", n)
	var os, ls []int
	g := 0
	for i := 0; i < n; i++ {
		a := g + r.Intn(4)
		b := a + r.Intn(4)
		g = b + 1
		t.f16("doc.startGlyph", a, e.nGlyphs)
		t.f16("doc.endGlyph", b, e.nGlyphs)
		os = append(os, t.o32("doc.offset"))
		ls = append(ls, t.f32("doc.length", 0, -1))
	}
	doc := `<svg xmlns="http://www.w3.org/2000/svg"><g id="glyph1"/></svg>`
	for i := 0; i < n; i++ {
		t.here(os[i], L)
		t.set(ls[i], len(doc))
		t.f[ls[i]].lim = len(doc)
		t.bytes([]byte(doc)...)
	}
	return t
}

func buildSbix(r *rand.Rand, e *synEnv) *tb {
	t := &tb{}
	t.u16(1)
	t.f16("flags", 1, -1)
	n := 1 + r.Intn(2)
	t.c32("numStrikes", n)
	var os []int
	for i := 0; i < n; i++ {
		os = append(os, t.o32("strike.offset"))
	}
	for i := 0; i < n; i++ {
		t.here(os[i], 0)
		S := t.pos()
		t.f16("strike.ppem", 12+8*i, -1)
		t.u16(72)
		var go_ []int
		for k := 0; k <= e.nGlyphs; k++ {
			if k < 3 || k >= e.nGlyphs-1 {
				go_ = append(go_, t.o32("strike.glyphOffset"))
			} else {
				go_ = append(go_, -t.pos())
				t.u32(0)
			}
		}
		put := func(k int) {
			if go_[k] >= 0 {
				t.here(go_[k], S)
			} else {
				t.putAt(-go_[k], 4, t.pos()-S)
			}
		}
		for k := 0; k < e.nGlyphs; k++ {
			put(k)
			if r.Intn(3) == 0 {
				continue
			}
			t.u16(r.Intn(10)) // originOffsetX
			t.u16(r.Intn(10))
			if r.Intn(6) == 0 {
				t.bytes('d', 'u', 'p', 'e')
				t.f16("dupe.glyph", r.Intn(e.nGlyphs), e.nGlyphs)
			} else {
				t.bytes('p', 'n', 'g', ' ')
				t.bytes(0x89, 'P', 'N', 'G', 0x0D, 0x0A, 0x1A, 0x0A, 0, 0, 0, 13, 'I', 'H', 'D', 'R', 0, 0, 0, 8, 0, 0, 0, 8, 8, 6, 0, 0, 0)
			}
		}
		put(e.nGlyphs)
	}
	return t
}
