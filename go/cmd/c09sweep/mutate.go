package main

// The whole-pipeline mutation pass of the C09 sweep ("pass mut").
//
// The first pass (main.go) walks the fields of the container and of the first 64 bytes of each table
// of a few selected fonts. This pass takes EVERY corpus font and derives mutants whose edits are
// concentrated inside ONE table at a time, the table being drawn from the directory of the font so
// that all the table kinds of the corpus are hit (the per-table histogram is printed in the stats,
// keys "mtable:<tag>"):
//
//	mflip   1..8 bit flips / byte, 16-bit and 32-bit overwrites with boundary values at (correlated)
//	        positions of the table body
//	mtrunc  the table is truncated (length field of its directory record; the file itself when the
//	        table is the last one)
//	moffs   fields of the table body which look like offsets (0 < v < table length) are set to
//	        overlapping (the value of another such field, +-2, into the header, self) or large values
//	mdir    the directory offset of the table is set on/inside another table
//
// Nothing is recomputed (the loader does not verify checksums). Every mutant is loaded with
// opentype.NewLoaders, font.NewFont and font.NewFace and goes through the battery of main.go plus
// deepQuery below (cmap look-ups of the runes of the font itself, outlines/extents/advances/names of
// random glyphs, random variation coordinates, HarfBuzz shaping of Latin, Arabic, Devanagari and of
// the font's own runes, left-to-right, right-to-left and top-to-bottom, with and without user
// features), under recover(), the watchdog and the allocation accounting of the child processes.
//
// A mutant is described by (font path, list of (offset, width, value) writes, optional truncation):
// the same `input` as the first pass, with "pass":"mut"; -replay re-runs it.

import (
	"bytes"
	"fmt"
	"hash/crc32"
	"hash/fnv"
	"math/rand"
	"os"
	"path/filepath"
	"sort"
	"strings"
	"time"

	"github.com/go-text/typesetting/font"
	ot "github.com/go-text/typesetting/font/opentype"
	"github.com/go-text/typesetting/font/opentype/tables"
	"github.com/go-text/typesetting/harfbuzz"
)

type mutTier struct {
	perFont int           // mutants per font
	perBig  int           // mutants per font above bigSize
	bigSize int           // bytes
	maxSize int           // fonts above this size are skipped
	budget  time.Duration // wall clock budget of the pass
	chunk   int
}

func mutTierOf(name string) mutTier {
	if name == "thorough" {
		return mutTier{perFont: 700, perBig: 40, bigSize: 3 << 20, maxSize: 40 << 20, budget: 9 * time.Minute, chunk: 350}
	}
	return mutTier{perFont: 38, perBig: 3, bigSize: 3 << 20, maxSize: 12 << 20, budget: 34 * time.Second, chunk: 64}
}

// Weight of a table kind in the draw: tables the library does not read still get hit (weight 1), the
// short fixed-size headers a little more, the tables with offsets, arrays and state machines much more,
// and those which are rare in the corpus the most (so that their absolute counts are comparable).
var tableWeight = func() map[string]int {
	m := map[string]int{}
	for _, t := range []string{"head", "maxp", "hhea", "vhea", "OS/2", "bhed"} {
		m[t] = 3
	}
	for _, t := range []string{"cmap", "name", "post", "hmtx", "glyf", "loca", "GSUB", "GPOS", "GDEF", "CFF "} {
		m[t] = 8
	}
	for _, t := range []string{"morx", "kerx", "kern", "CFF2", "gvar", "HVAR", "VVAR", "MVAR", "avar", "fvar", "sbix", "CBLC", "CBDT",
		"EBLC", "EBDT", "bloc", "bdat", "SVG ", "ankr", "trak", "feat", "ltag", "vmtx", "VORG"} {
		m[t] = 24
	}
	return m
}()

var (
	edge8  = []uint32{0, 1, 0x7F, 0x80, 0xFF}
	edge16 = []uint32{0, 1, 0x7FFF, 0x8000, 0xFFFF, 0xFFFE, 0x00FF, 0xFF00}
	edge32 = []uint32{0, 1, 0x7FFFFFFF, 0x80000000, 0xFFFFFFFF, 0xFFFF, 0x10000, 0xFFFFFFFE}
)

func baseTag(tag string) string {
	if len(tag) > 2 && tag[0] == 'f' && tag[1] >= '0' && tag[1] <= '9' { // "f<k>/<tag>": member k of a collection
		if i := strings.Index(tag, "/"); i >= 0 && i <= 3 {
			return tag[i+1:]
		}
	}
	return tag
}

// enumerateMut is the deterministic list of the mutants of one font.
func (fi *fontInfo) enumerateMut(mt mutTier, seed int64) []mcase {
	b := fi.data
	flen := len(b)
	n := mt.perFont
	if flen > mt.bigSize {
		n = mt.perBig
	}
	var tabs []tableRec
	for _, t := range fi.tabs {
		if t.length > 0 && t.off >= 0 && t.off < flen {
			if t.off+t.length > flen {
				t.length = flen - t.off
			}
			tabs = append(tabs, t)
		}
	}
	cases := []mcase{{mut: "none", region: -1, trunc: -1}}
	if len(tabs) == 0 {
		return cases
	}
	weights := make([]int, len(tabs))
	totalW, rare := 0, 0
	for i, t := range tabs {
		w := tableWeight[baseTag(t.tag)]
		if w == 0 {
			w = 1
		}
		if w >= 24 {
			rare++
		}
		weights[i] = w
		totalW += w
	}
	if flen <= mt.bigSize { // a font with tables which are rare in the corpus gets more mutants
		if rare > 6 {
			rare = 6
		}
		n += rare * n / 2
	}
	lastTable := 0
	for i, t := range tabs {
		if t.off+t.length > tabs[lastTable].off+tabs[lastTable].length {
			lastTable = i
		}
	}
	h := fnv.New64a()
	h.Write([]byte(fi.rel))
	rng := rand.New(rand.NewSource(seed*0x9E3779B9 ^ int64(h.Sum64()&0x7fffffffffffffff) ^ 0x6d7574))
	rot := rng.Intn(len(tabs))

	for i := 0; i < n; i++ {
		ti := (rot + i) % len(tabs) // one case in four walks the directory, the others draw by weight
		if i%4 != 0 {
			x := rng.Intn(totalW)
			for ti = 0; x >= weights[ti]; ti++ {
				x -= weights[ti]
			}
		}
		t := tabs[ti]
		c := mcase{region: -1, trunc: -1, table: t.tag}
		pos := func(prev int) int { // a position inside the table, relative to its start
			switch k := rng.Intn(4); {
			case prev >= 0 && k < 2: // close to the previous edit
				p := prev + rng.Intn(33) - 16
				if p < 0 {
					p = 0
				}
				if p >= t.length {
					p = t.length - 1
				}
				return p
			case k == 2 || t.length <= 256:
				return rng.Intn(t.length)
			}
			return rng.Intn(256)
		}
		switch k := rng.Intn(10); {
		case k < 5:
			c.mut = "mflip"
			ne := 1
			for ne < 8 && rng.Intn(5) < 3 {
				ne++
			}
			prev := -1
			for j := 0; j < ne; j++ {
				p := pos(prev)
				prev = p
				o := t.off + p
				switch e := rng.Intn(10); {
				case e < 3:
					c.writes = append(c.writes, write{o, 1, uint32(b[o] ^ byte(1<<uint(rng.Intn(8))))})
				case e < 5:
					c.writes = append(c.writes, write{o, 1, edge8[rng.Intn(len(edge8))]})
				case e < 8:
					if p&1 == 1 {
						o--
					}
					if o+2 <= flen {
						c.writes = append(c.writes, write{o, 2, edge16[rng.Intn(len(edge16))]})
					}
				case e < 9:
					o -= p & 1
					if o+4 <= flen {
						c.writes = append(c.writes, write{o, 4, edge32[rng.Intn(len(edge32))]})
					}
				default:
					c.writes = append(c.writes, write{o, 1, uint32(rng.Intn(256))})
				}
			}
		case k < 7:
			c.mut = "mtrunc"
			var nl int
			switch rng.Intn(8) {
			case 0:
				nl = 0
			case 1:
				nl = t.length - 1
			case 2:
				nl = t.length - 2
			case 3:
				nl = t.length - 4
			case 4:
				nl = t.length / 2
			case 5:
				nl = rng.Intn(64)
			default:
				nl = rng.Intn(t.length)
			}
			if nl < 0 {
				nl = 0
			}
			if nl >= t.length {
				nl = t.length - 1
			}
			if ti == lastTable && rng.Intn(2) == 0 {
				c.trunc = t.off + nl
			} else if t.recLen == 20 { // WOFF: compLength
				c.writes = append(c.writes, write{t.recOff + 8, 4, uint32(nl)})
			} else {
				c.writes = append(c.writes, write{t.recOff + 12, 4, uint32(nl)})
			}
		case k < 9 && t.length >= 8:
			c.mut = "moffs"
			// fields which look like offsets into the table
			type cand struct {
				p, w int
				v    uint32
			}
			var cands []cand
			span := t.length
			if span > 4096 && rng.Intn(3) > 0 {
				span = 4096
			}
			for try := 0; try < 96 && len(cands) < 24; try++ {
				p := 2 * rng.Intn(span/2)
				if p+4 <= t.length {
					if v := uint32(u32(b, t.off+p)); v > 0 && int(v) < t.length {
						cands = append(cands, cand{p, 4, v})
						continue
					}
				}
				if p+2 <= t.length {
					if v := uint32(u16(b, t.off+p)); v > 0 && int(v) < t.length {
						cands = append(cands, cand{p, 2, v})
					}
				}
			}
			if len(cands) == 0 {
				p := 2 * rng.Intn(t.length/2)
				cands = append(cands, cand{p, 2, uint32(u16(b, t.off+p))})
			}
			ne := 1 + rng.Intn(3)
			for j := 0; j < ne; j++ {
				cd := cands[rng.Intn(len(cands))]
				var v uint32
				switch rng.Intn(12) {
				case 0, 1:
					v = cands[rng.Intn(len(cands))].v // overlap with another structure
				case 2:
					v = cd.v + 2
				case 3:
					v = cd.v - 2
				case 4:
					v = uint32(t.length - 1)
				case 5:
					v = uint32(t.length - 2)
				case 6:
					v = uint32(t.length)
				case 7:
					v = uint32(2 * rng.Intn(8)) // into the header
				case 8:
					v = uint32(cd.p) // on itself
				case 9:
					v = 0xFFFFFFFF
				case 10:
					v = uint32(t.length + 1 + rng.Intn(64))
				default:
					v = uint32(rng.Intn(t.length))
				}
				if cd.w == 2 {
					v &= 0xFFFF
				}
				c.writes = append(c.writes, write{t.off + cd.p, cd.w, v})
			}
		default:
			c.mut = "mdir"
			o := tabs[rng.Intn(len(tabs))]
			var v int
			switch rng.Intn(6) {
			case 0:
				v = o.off
			case 1:
				v = o.off + 2*rng.Intn(o.length/2+1)
			case 2:
				v = t.off + 2
			case 3:
				v = t.off + 4*rng.Intn(t.length/4+1)
			case 4:
				v = flen - rng.Intn(16)
			default:
				v = t.off - 4*rng.Intn(8)
			}
			if v < 0 {
				v = 0
			}
			// the offset field: +8 in an sfnt record, +4 in a WOFF record; dfont offsets are relative
			// to the resource: keep the distance
			fo := t.recOff + 8
			if t.recLen == 20 {
				fo = t.recOff + 4
			}
			cur := u32(b, fo)
			c.writes = append(c.writes, write{fo, 4, uint32(cur + v - t.off)})
		}
		if len(c.writes) == 0 && c.trunc < 0 {
			continue
		}
		cases = append(cases, c)
	}
	return cases
}

// ------------------------------------------------------------------------------------------------
// the battery

// passMut selects the battery of this pass in runCase (set in the children and by -replay).
var passMut bool

var (
	latinText = []rune("Affi fj Té 1/2 ÀÉ.")
	arabText  = []rune("السَّلام عليكم ١٢٣ لله")
	devaText  = []rune("क्षत्रिय हिन्दी र्कि श्री")
	userFeats = func() []harfbuzz.Feature {
		var out []harfbuzz.Feature
		for _, s := range []string{"smcp", "liga=0", "salt=2", "kern[1:4]=0", "ss01", "frac", "aalt[2:5]=3", "vert"} {
			if f, err := harfbuzz.ParseFeature(s); err == nil {
				out = append(out, f)
			}
		}
		return out
	}()
)

func shapeOnce(hf *harfbuzz.Font, text []rune, dir harfbuzz.Direction, feats []harfbuzz.Feature) {
	if len(text) == 0 {
		return
	}
	a0 := allocated()
	buf := harfbuzz.NewBuffer()
	buf.AddRunes(text, 0, -1)
	buf.GuessSegmentProperties()
	if dir != 0 {
		buf.Props.Direction = dir
	}
	buf.Shape(hf, feats)
	sink += len(buf.Info) + len(buf.Pos)
	// The allocation of a shaping call is accounted per call, not in the sum of the battery: like
	// HarfBuzz, the shaper lets a (corrupted or not) font grow the buffer up to max(16384, 1024 x
	// |text|) glyphs, a few MB which do not depend on the font size. Beyond maxShapeAlloc it is a failure.
	d := allocated() - a0
	shapeAlloc += d
	if shapeDebug {
		fmt.Fprintf(os.Stderr, "shape %q dir=%d feats=%d glyphs=%d alloc=%d\n", string(text), dir, len(feats), len(buf.Info), d)
	}
	// ... plus what the font functions allocate per output glyph (advances and extents of a variable
	// font: about 5 KB per glyph), the number of output glyphs being bounded by maxLen
	if d > maxShapeAlloc+8192*uint64(len(buf.Info)) {
		panic(shapeAllocExceeded{d, len(text)})
	}
}

const maxShapeAlloc = 48 << 20

var shapeDebug = os.Getenv("C09_SHAPE_DEBUG") != ""

const softBudget = 120 * time.Millisecond

var shapeAlloc uint64 // bytes allocated inside the shaping calls of the current case

type shapeAllocExceeded struct {
	bytes uint64
	runes int
}

// ownRunes samples the character map of the face itself (bounded walk).
func ownRunes(f *font.Face, rng *rand.Rand, deadline time.Time) []rune {
	if f.Cmap == nil {
		return nil
	}
	var pool []rune
	it := f.Cmap.Iter()
	for steps := 0; it.Next(); steps++ {
		r, _ := it.Char()
		if steps < 48 || steps%53 == 0 {
			pool = append(pool, r)
		}
		if steps >= 60000 || len(pool) >= 1200 {
			break
		}
		if steps&0xFFF == 0xFFF && time.Now().After(deadline) {
			panic(cmapIterUnbounded{steps})
		}
	}
	if len(pool) <= 20 {
		return pool
	}
	out := make([]rune, 0, 20)
	// a run of neighbours (same script, likely to interact) then scattered ones
	s := rng.Intn(len(pool) - 10)
	out = append(out, pool[s:s+10]...)
	for len(out) < 20 {
		out = append(out, pool[rng.Intn(len(pool))])
	}
	return out
}

func deepQuery(f *font.Face, fi *fontInfo, rng *rand.Rand, deadline time.Time) {
	own := ownRunes(f, rng, deadline)
	for _, r := range own {
		if g, ok := f.NominalGlyph(r); ok {
			sink += int(g)
		}
		f.NominalGlyph(r + 1)
		f.NominalGlyph(r - 1)
	}
	for i, r := range own {
		if i >= 4 {
			break
		}
		for _, vs := range varSelectors {
			f.VariationGlyph(r, vs)
		}
	}
	for i := 0; i < 24; i++ {
		f.NominalGlyph(rune(rng.Intn(0x30000)))
	}
	f.NominalGlyph(rune(rng.Uint32()))

	ng := f.Font.VerifNumGlyphs()
	gids := []font.GID{font.GID(ng - 1), font.GID(ng), 0xFFFF}
	for i := 0; i < 12 && ng > 0; i++ {
		gids = append(gids, font.GID(rng.Intn(ng)))
	}
	for _, r := range own {
		if g, ok := f.NominalGlyph(r); ok && len(gids) < 28 {
			gids = append(gids, g)
		}
	}
	glyphBattery(f, gids)
	for _, g := range gids {
		sink += len(f.GlyphName(g))
	}

	// a font whose state machines insert thousands of glyphs per call makes every shaping slow: once the
	// case has used softBudget, the optional repetitions are skipped (the case stays far from tc.slow)
	t0 := time.Now()
	late := func() bool { return time.Since(t0) > softBudget }
	hf := harfbuzz.NewFont(f)
	texts := [][]rune{latinText, arabText, devaText, own}
	for i, t := range texts {
		vertical, feats := i == 3 || rng.Intn(4) == 0, rng.Intn(2) == 0 // drawn in every case: a replay makes the same choices
		shapeOnce(hf, t, 0, nil)
		shapeOnce(hf, t, harfbuzz.RightToLeft, nil)
		if late() {
			continue
		}
		shapeOnce(hf, t, harfbuzz.LeftToRight, nil)
		if vertical {
			shapeOnce(hf, t, harfbuzz.TopToBottom, nil)
		}
		if feats {
			shapeOnce(hf, t, 0, userFeats)
		}
	}
	if len(own) > 0 && !late() {
		mixed := append(append([]rune{}, own[:len(own)/2]...), latinText[:6]...)
		mixed = append(mixed, own[len(own)/2:]...)
		shapeOnce(hf, mixed, 0, nil)
	}

	// random variation coordinates: design space then normalized
	var vars []font.Variation
	for _, a := range append(append([]string{}, fi.axes...), "wght", "wdth") {
		if len(a) == 4 {
			vars = append(vars, font.Variation{Tag: ot.MustNewTag(a), Value: float32(rng.Intn(2200)) - 200})
		}
	}
	f.SetVariations(vars)
	if n := len(f.Coords()); n > 0 {
		glyphBattery(f, gids)
		shapeOnce(harfbuzz.NewFont(f), own, 0, nil)
		for round := 0; round < 2 && !(round == 1 && late()); round++ {
			coords := make([]tables.Coord, n)
			for i := range coords {
				switch rng.Intn(6) {
				case 0:
					coords[i] = tables.NewCoord(1)
				case 1:
					coords[i] = tables.NewCoord(-1)
				case 2:
					coords[i] = 0
				default:
					coords[i] = tables.NewCoord(rng.Float64()*2 - 1)
				}
			}
			f.SetCoords(coords)
			glyphBattery(f, gids)
			f.FontHExtents()
			f.FontVExtents()
			for _, m := range lineMetrics {
				f.LineMetric(m)
			}
			hv := harfbuzz.NewFont(f)
			shapeOnce(hv, latinText, 0, nil)
			shapeOnce(hv, own, 0, nil)
			if round == 0 {
				shapeOnce(hv, arabText, 0, nil)
			} else {
				shapeOnce(hv, devaText, 0, nil)
			}
		}
		f.SetCoords(nil)
	}
}

// runMutLoad is the loading sequence of this pass: NewLoaders, NewFont, NewFace on every member (at
// most 3 are queried).
func runMutLoad(b []byte, fi *fontInfo, tc tierCfg, out *outcome, t0 time.Time) {
	rng := rand.New(rand.NewSource(int64(crc32.ChecksumIEEE(b))<<16 ^ int64(len(b))))
	lds, err := ot.NewLoaders(bytes.NewReader(b))
	if err != nil {
		out.Class = "load-error"
		out.Err = err.Error()
		return
	}
	out.Class = "load-error"
	deadline := t0.Add(tc.slow)
	small := tc
	small.glyphCap = 12
	for i, ld := range lds {
		if i >= 3 {
			break
		}
		d, _ := font.Describe(ld, nil)
		sink += len(d.Family)
		if len(b) <= 4<<20 {
			for _, tag := range ld.Tables() {
				raw, _ := ld.RawTable(tag)
				sink += len(raw)
			}
		}
		ft, err := font.NewFont(ld)
		if err != nil {
			out.Err = err.Error()
			continue
		}
		out.Class = "load-ok"
		out.Faces++
		f := font.NewFace(ft)
		queryFace(f, fi, small, deadline)
		deepQuery(f, fi, rng, deadline)
	}
}

// ------------------------------------------------------------------------------------------------
// parent side

// mutCorpus: every corpus font once (by content), the largest first (they are the longest jobs).
func mutCorpus(root string, all []string, mt mutTier) []*fontInfo {
	type ent struct {
		rel  string
		size int64
	}
	var es []ent
	for _, rel := range all {
		st, err := os.Stat(filepath.Join(root, filepath.FromSlash(rel)))
		if err != nil || st.Size() > int64(mt.maxSize) || st.Size() < 64 {
			continue
		}
		es = append(es, ent{rel, st.Size()})
	}
	sort.SliceStable(es, func(i, j int) bool { return es[i].size > es[j].size })
	seen := map[uint64]bool{}
	var out []*fontInfo
	for _, e := range es {
		fi, err := loadFontInfo(root, e.rel)
		if err != nil || len(fi.tabs) == 0 {
			continue
		}
		h := fnv.New64a()
		h.Write(fi.data)
		if seen[h.Sum64()] {
			continue
		}
		seen[h.Sum64()] = true
		out = append(out, fi)
	}
	return out
}
