package main

// Table synthesis: 'morx' (subtable types 0 rearrangement, 1 contextual, 2 ligature, 4 non contextual,
// 5 insertion, each with the AAT lookup formats 0, 2, 4, 6, 8, 10 as class table), 'ankr', 'trak',
// 'feat', 'ltag'.

import (
	"math/rand"
)

func init() {
	var mf []synFormat
	for _, ty := range []int{0, 1, 2, 4, 5} {
		for _, lk := range []int{0, 2, 4, 6, 8, 10} {
			ty, lk := ty, lk
			mf = append(mf, synFormat{name: "type" + itoa(ty) + ".lookup" + itoa(lk), build: func(r *rand.Rand, e *synEnv) []builtTable {
				return []builtTable{{"morx", buildMorx(r, e, []int{ty}, lk, false)}}
			}})
		}
	}
	mf = append(mf, synFormat{name: "multi", build: func(r *rand.Rand, e *synEnv) []builtTable {
		n := 2 + r.Intn(3)
		ts := make([]int, n)
		for i := range ts {
			ts[i] = []int{0, 1, 2, 4, 5}[r.Intn(5)]
		}
		return []builtTable{{"morx", buildMorx(r, e, ts, []int{0, 2, 4, 6, 8, 10}[r.Intn(6)], false)}}
	}})
	mf = append(mf, synFormat{name: "langfeature+ltag", build: func(r *rand.Rand, e *synEnv) []builtTable {
		return []builtTable{{"morx", buildMorx(r, e, []int{4}, 6, true)}, {"ltag", buildLtag(r, e)}}
	}})
	registerKind(synKind{name: "morx", base: baseTT, formats: mf})

	var af []synFormat
	for _, lk := range []int{0, 2, 4, 6, 8, 10} {
		lk := lk
		// with a kerx format 4 subtable using anchor points, so that shaping reads the anchors
		af = append(af, synFormat{name: "lookup" + itoa(lk) + "+kerx4", build: func(r *rand.Rand, e *synEnv) []builtTable {
			return []builtTable{{"ankr", buildAnkr(r, e, lk)}, {"kerx", buildKerx(r, e, []int{4}, 6)}}
		}})
	}
	registerKind(synKind{name: "ankr", base: baseTT, formats: af})
	registerKind(synKind{name: "trak", base: baseTT, formats: []synFormat{{name: "f0", build: func(r *rand.Rand, e *synEnv) []builtTable {
		return []builtTable{{"trak", buildTrak(r, e)}}
	}}}})
	registerKind(synKind{name: "feat", base: baseTT, formats: []synFormat{{name: "v1+morx", build: func(r *rand.Rand, e *synEnv) []builtTable {
		return []builtTable{{"feat", buildFeat(r, e)}, {"morx", buildMorx(r, e, []int{4}, 6, false)}}
	}}}})
	registerKind(synKind{name: "ltag", base: baseTT, formats: []synFormat{{name: "v1+morx", build: func(r *rand.Rand, e *synEnv) []builtTable {
		return []builtTable{{"ltag", buildLtag(r, e)}, {"morx", buildMorx(r, e, []int{4}, 6, true)}}
	}}}})
}

// ---------------------------------------------------------------------------------------- morx

func buildMorx(r *rand.Rand, e *synEnv, types []int, lk int, lang bool) *tb {
	t := &tb{}
	t.f16("version", 2+r.Intn(2), -1)
	t.u16(0)
	nChains := 1
	if len(types) > 2 && r.Intn(2) == 0 {
		nChains = 2
	}
	t.c32("nChains", nChains)
	for c := 0; c < nChains; c++ {
		ts := types
		if nChains == 2 {
			if c == 0 {
				ts = types[:len(types)/2]
			} else {
				ts = types[len(types)/2:]
			}
		}
		C := t.pos()
		t.f32("chain.defaultFlags", 1|r.Intn(4), -1)
		fLen := t.f32("chain.length", 0, -1)
		nFeat := r.Intn(4)
		if lang {
			nFeat = 1 + r.Intn(3)
		}
		t.c32("chain.nFeatures", nFeat)
		t.c32("chain.nSubtables", len(ts))
		for i := 0; i < nFeat; i++ {
			ty, setting := []int{1, 3, 8, 17, 37}[r.Intn(5)], r.Intn(4)
			if lang && (i == 0 || r.Intn(2) == 0) {
				ty, setting = 39, r.Intn(6) // language tag: the setting is an index in 'ltag', plus one
			}
			t.f16("feature.type", ty, -1)
			t.f16("feature.setting", setting, -1)
			t.u32(1 << uint(r.Intn(3)))
			t.u32(0xFFFFFFFF)
		}
		for i, ty := range ts {
			s := &tb{}
			lenF := s.f32("length", 0, -1)
			cov := 0
			if r.Intn(4) == 0 {
				cov = []int{0x80, 0x40, 0x20, 0x10}[r.Intn(4)] // vertical, backwards, all directions, logical
			}
			s.u8(cov)
			s.u16(0)
			s.f8("type", ty, 6)
			s.f32("subFeatureFlags", 1|r.Intn(4), -1)
			switch ty {
			case 0:
				morxRearrangement(r, e, s, lk)
			case 1:
				morxContextual(r, e, s, lk)
			case 2:
				morxLigature(r, e, s, lk)
			case 4:
				s.embed("subst", aatLookup(r, e, lk, classMap(r, e, func() int { return e.g(r) }), 2, e.nGlyphs))
			default:
				morxInsertion(r, e, s, lk)
			}
			s.pad(4)
			s.set(lenF, len(s.b))
			s.f[lenF].lim = len(s.b)
			t.embed("st"+itoa(i), s)
		}
		t.set(fLen, t.pos()-C)
		t.f[fLen].lim = t.pos() - C
	}
	return t
}

func morxRearrangement(r *rand.Rand, e *synEnv, s *tb, lk int) {
	stateTableExt(r, e, s, lk, 0, nil, func() int {
		fl := r.Intn(16) // verb
		if r.Intn(2) == 0 {
			fl |= 0x8000 // mark first
		}
		if r.Intn(2) == 0 {
			fl |= 0x2000 // mark last
		}
		if r.Intn(8) == 0 {
			fl |= 0x4000
		}
		return fl
	})
	stPending()
}

func morxContextual(r *rand.Rand, e *synEnv, s *tb, lk int) {
	nSubs := 1 + r.Intn(4)
	S := stateTableExt(r, e, s, lk, 2, []int{nSubs, nSubs}, func() int {
		fl := 0
		if r.Intn(2) == 0 {
			fl |= 0x8000 // set mark
		}
		if r.Intn(8) == 0 {
			fl |= 0x4000
		}
		return fl
	})
	oSub := s.o32("substitutionTable")
	stPending()
	s.pad(4)
	s.here(oSub, S)
	T := s.pos()
	var offs []int
	for i := 0; i < nSubs; i++ {
		offs = append(offs, s.o32("subst.offset"))
	}
	for i := 0; i < nSubs; i++ {
		s.here(offs[i], T)
		s.embed("subst"+itoa(i), aatLookup(r, e, []int{0, 2, 4, 6, 8, 10}[r.Intn(6)], classMap(r, e, func() int { return e.g(r) }), 2, e.nGlyphs))
		s.pad(4)
	}
}

func morxLigature(r *rand.Rand, e *synEnv, s *tb, lk int) {
	nActions := 1 + r.Intn(6)
	nComp := 4 + r.Intn(12)
	nLig := 1 + r.Intn(6)
	S := stateTableExt(r, e, s, lk, 1, []int{nActions}, func() int {
		fl := 0
		if r.Intn(2) == 0 {
			fl |= 0x8000 // set component
		}
		if r.Intn(2) == 0 {
			fl |= 0x2000 // perform action
		}
		if r.Intn(8) == 0 {
			fl |= 0x4000
		}
		return fl
	})
	oAct := s.o32("ligActionTable")
	oComp := s.o32("componentTable")
	oLig := s.o32("ligatureTable")
	stNoNone = true
	stPending()
	stNoNone = false
	s.pad(4)
	s.here(oAct, S)
	for i := 0; i < nActions; i++ {
		g := e.g(r)
		off := (r.Intn(nComp) - g) & 0x3FFFFFFF // component index = glyph + offset
		a := off
		if i == nActions-1 || r.Intn(3) == 0 {
			a |= 1 << 31 // last
		}
		if r.Intn(2) == 0 {
			a |= 1 << 30 // store
		}
		s.f32("ligAction", a, -1)
	}
	s.here(oComp, S)
	for i := 0; i < nComp; i++ {
		s.f16("component", r.Intn(nLig), nLig)
	}
	s.here(oLig, S)
	for i := 0; i < nLig; i++ {
		s.f16("ligature", e.g(r), e.nGlyphs)
	}
}

func morxInsertion(r *rand.Rand, e *synEnv, s *tb, lk int) {
	nIns := 2 + r.Intn(10)
	loopy := r.Intn(3) == 0 // inserting without advancing runs up to the limits of the shaper (slow): one build in three
	S := stateTableExt(r, e, s, lk, 2, []int{nIns, nIns}, func() int {
		fl := r.Intn(3)<<5 | r.Intn(3) // current / marked insert counts
		if r.Intn(2) == 0 {
			fl |= 0x8000 // set mark
		}
		if loopy && r.Intn(6) == 0 {
			fl |= 0x4000
		}
		fl |= r.Intn(16) << 10 // kashida-like, insert before
		return fl
	})
	oIns := s.o32("insertionTable")
	stPending()
	s.pad(4)
	s.here(oIns, S)
	for i := 0; i < nIns+2; i++ {
		s.f16("insertion", e.g(r), e.nGlyphs)
	}
}

// ---------------------------------------------------------------------------------------- ankr, trak, feat, ltag

func buildAnkr(r *rand.Rand, e *synEnv, lk int) *tb {
	t := &tb{}
	t.f16("version", 0, -1)
	t.u16(0)
	oL := t.o32("lookupTable")
	oG := t.o32("glyphDataTable")
	// glyph data first (apart) to know the offsets
	n := 1 + r.Intn(5)
	gd := &tb{}
	var offs []int
	for i := 0; i < n; i++ {
		offs = append(offs, gd.pos())
		np := 1 + r.Intn(3)
		gd.c32("numPoints", np)
		for k := 0; k < 2*np; k++ {
			gd.u16(kernValue(r))
		}
	}
	t.here(oL, 0)
	t.embed("lookup", aatLookup(r, e, lk, classMap(r, e, func() int { return offs[r.Intn(n)] }), 2, len(gd.b)))
	t.pad(4)
	t.here(oG, 0)
	t.embed("data", gd)
	return t
}

func buildTrak(r *rand.Rand, e *synEnv) *tb {
	t := &tb{}
	t.u32(0x00010000)
	t.f16("format", 0, -1)
	oH := t.o16("horizOffset")
	oV := t.o16("vertOffset")
	t.u16(0)
	for k, o := range []int{oH, oV} {
		if k == 1 && r.Intn(3) == 0 {
			continue // no vertical data
		}
		t.here(o, 0)
		nTracks, nSizes := 1+r.Intn(3), 1+r.Intn(4)
		p := []string{"h.", "v."}[k]
		t.c16(p+"nTracks", nTracks)
		t.c16(p+"nSizes", nSizes)
		oS := t.o32(p + "sizeTable")
		var os []int
		for i := 0; i < nTracks; i++ {
			t.u32((i - 1) << 16)
			t.u16(256 + i)
			os = append(os, t.o16(p+"track.offset"))
		}
		t.here(oS, 0)
		for i := 0; i < nSizes; i++ {
			t.u32((9 + 3*i) << 16)
		}
		for i := 0; i < nTracks; i++ {
			t.here(os[i], 0)
			for k := 0; k < nSizes; k++ {
				t.u16(kernValue(r))
			}
		}
	}
	return t
}

func buildFeat(r *rand.Rand, e *synEnv) *tb {
	t := &tb{}
	t.u32(0x00010000)
	n := 1 + r.Intn(4)
	t.c16("featureNameCount", n)
	t.u16(0)
	t.u32(0)
	var os, ns []int
	for i := 0; i < n; i++ {
		t.f16("feature", []int{1, 3, 8, 17, 37, 39}[r.Intn(6)], -1)
		k := 1 + r.Intn(3)
		ns = append(ns, k)
		t.c16("nSettings", k)
		os = append(os, t.o32("settingTable"))
		t.f16("featureFlags", []int{0, 0x8000, 0xC000 | r.Intn(k)}[r.Intn(3)], -1)
		t.u16(256 + i)
	}
	for i := 0; i < n; i++ {
		t.here(os[i], 0)
		for k := 0; k < ns[i]; k++ {
			t.u16(k)
			t.u16(300 + k)
		}
	}
	return t
}

func buildLtag(r *rand.Rand, e *synEnv) *tb {
	t := &tb{}
	t.u32(1)
	t.u32(0)
	n := 1 + r.Intn(4)
	t.c32("numTags", n)
	var os []int
	tags := []string{"en", "fr", "sr-Cyrl", "zh-Hant", "tr"}
	for i := 0; i < n; i++ {
		os = append(os, t.o16("tag.offset"))
		t.f16("tag.length", len(tags[i]), -1)
	}
	for i := 0; i < n; i++ {
		t.here(os[i], 0)
		t.bytes([]byte(tags[i])...)
	}
	return t
}
