// Command c09sweep is the fault-injection oracle of property C09: font loading and querying are
// total on arbitrary bytes (an error is fine; a panic, a fatal error, a hang or an allocation out of
// proportion with the input is not).
//
// Corpus fonts of github.com/go-text/typesetting-utils are mutated (truncations, every aligned
// 16/32-bit field of the container directories and of the table headers, swapped table bodies, a
// seeded random stream) and each mutant is loaded with font.ParseTTC and queried.
//
// Usage (cwd = verif/go):
//
//	go run -tags verif ./cmd/c09sweep -tier quick|thorough -seed N
//	go run -tags verif ./cmd/c09sweep -replay '<json input of a fail line>'
//
// Output: one JSON object per line: {"fail":..,"kind":..,"input":{..}} per failure (at most 3 per
// kind) and one final {"stats":{..}}.
//
// The parent process only enumerates cases; the cases run in child processes (re-exec with -child)
// since stack overflows and out-of-memory are fatal in Go, and a hang blocks.
package main

import (
	"bufio"
	"bytes"
	"encoding/binary"
	"encoding/json"
	"flag"
	"fmt"
	"hash/fnv"
	"io"
	"math/rand"
	"os"
	"os/exec"
	"path/filepath"
	"runtime"
	"runtime/debug"
	"runtime/metrics"
	"sort"
	"strconv"
	"strings"
	"sync"
	"sync/atomic"
	"syscall"
	"time"

	"github.com/go-text/typesetting/font"
	ot "github.com/go-text/typesetting/font/opentype"
	"github.com/go-text/typesetting/font/opentype/tables"
	"github.com/go-text/typesetting/harfbuzz"
)

const modPrefix = "github.com/go-text/typesetting/"

// ------------------------------------------------------------------------------------------------
// tier configuration

type tierCfg struct {
	name         string
	maxSize      int      // candidate fonts above this size are skipped
	nFonts       int      // number of fonts selected by the greedy cover
	tables       []string // tables whose first 64 bytes are mutated (nil = all known)
	all32        bool     // 32-bit fields at every even offset (else 4-aligned only)
	nRand        int      // random cases per font
	swapAll      bool
	glyphCap     int
	slow         time.Duration
	hang         time.Duration
	budget       time.Duration // wall clock budget of the sweep (safety valve)
	chunk        int
	origCorpus   bool // also load + query every unmutated corpus font
	glyphRecords int  // number of simple (and of composite) glyph records mutated
}

var quickTables = []string{"head", "maxp", "hhea", "loca", "cmap", "glyf"}

var knownTables = []string{
	"head", "maxp", "hhea", "hmtx", "loca", "cmap", "glyf", "name", "OS/2", "post", "GSUB", "GPOS", "GDEF",
	"fvar", "gvar", "avar", "HVAR", "VVAR", "MVAR", "kern", "CFF ", "CFF2", "EBLC", "EBDT", "CBLC", "CBDT", "bloc", "bdat",
	"sbix", "SVG ", "COLR", "CPAL", "morx", "kerx", "vmtx", "vhea", "VORG", "trak", "ankr", "feat", "ltag", "bhed",
}

func tier(name string) tierCfg {
	if name == "thorough" {
		return tierCfg{name: name, maxSize: 2 << 20, nFonts: 64, tables: nil, all32: true, nRand: 6000, swapAll: true,
			glyphCap: 160, slow: 3 * time.Second, hang: 12 * time.Second, budget: 14 * time.Minute, chunk: 1500, origCorpus: true, glyphRecords: 4}
	}
	return tierCfg{name: "quick", maxSize: 300 << 10, nFonts: 12, tables: nil, all32: false, nRand: 500, swapAll: false,
		glyphCap: 48, slow: 2 * time.Second, hang: 6 * time.Second, budget: 40 * time.Second, chunk: 500, glyphRecords: 2}
}

// ------------------------------------------------------------------------------------------------
// the replayable description of one case

type write struct {
	Off int    `json:"off"` // absolute offset in the file
	W   int    `json:"w"`   // width in bytes: 1, 2, 4
	V   uint32 `json:"v"`
}

type input struct {
	Font      string  `json:"font"` // path relative to the typesetting-utils module
	Container string  `json:"container"`
	Mut       string  `json:"mut"`             // none, trunc, set16, set32, swap, rand
	Table     string  `json:"table,omitempty"` // region: table tag, "dir:<tag>", "sfnt", "ttc", "woff", "dfont", "dfontmap", "cmap.sub<i>:f<format>"
	Field     *int    `json:"field,omitempty"` // offset of the field in the region
	Writes    []write `json:"writes,omitempty"`
	Trunc     *int    `json:"trunc,omitempty"` // new file length
	Swap      []int   `json:"swap,omitempty"`  // [offA, offB, n]: exchange n bytes
	Note      string  `json:"note,omitempty"`
	Pass      string  `json:"pass,omitempty"` // "mut": whole-pipeline mutation pass (mutate.go); "synth": table synthesis pass (synth.go)
	// table synthesis pass: Font is the base font; the tables of Drop are removed, those of Syn added or replaced
	// (ot.WriteTTF); Query is the last query of the battery that was started when the case failed
	Syn   []synTable `json:"syn,omitempty"`
	Drop  []string   `json:"drop,omitempty"`
	Query string     `json:"query,omitempty"`
}

func (in *input) apply(orig []byte) []byte {
	b := append([]byte(nil), orig...)
	if len(in.Swap) == 3 {
		a, c, n := in.Swap[0], in.Swap[1], in.Swap[2]
		if a >= 0 && c >= 0 && n > 0 && a+n <= len(b) && c+n <= len(b) {
			tmp := append([]byte(nil), b[a:a+n]...)
			copy(b[a:a+n], b[c:c+n])
			copy(b[c:c+n], tmp)
		}
	}
	for _, w := range in.Writes {
		if w.Off < 0 || w.Off+w.W > len(b) {
			continue
		}
		switch w.W {
		case 1:
			b[w.Off] = byte(w.V)
		case 2:
			binary.BigEndian.PutUint16(b[w.Off:], uint16(w.V))
		case 4:
			binary.BigEndian.PutUint32(b[w.Off:], w.V)
		}
	}
	if in.Trunc != nil && *in.Trunc >= 0 && *in.Trunc < len(b) {
		b = b[:*in.Trunc]
	}
	return b
}

// ------------------------------------------------------------------------------------------------
// minimal container parsing (harness side; only used to aim the mutations)

type tableRec struct {
	tag    string
	recOff int // offset of the directory record
	recLen int // 16 (sfnt) or 20 (WOFF)
	off    int // absolute offset of the table body
	length int
}

type region struct {
	name string
	off  int
	n    int // number of bytes mutated
	tlen int // length of the enclosing table, for the near-size values (0 = none)
	dir  bool
}

type fontInfo struct {
	rel       string
	data      []byte
	container string
	tabs      []tableRec // of the first font (then the other fonts of a collection)
	regions   []region
	dirEnds   [][2]int // [start, end) of every directory-like structure
	numGlyphs int
	axes      []string
	feats     []string
}

func u16(b []byte, o int) int {
	if o < 0 || o+2 > len(b) {
		return 0
	}
	return int(binary.BigEndian.Uint16(b[o:]))
}

func u32(b []byte, o int) int {
	if o < 0 || o+4 > len(b) {
		return 0
	}
	return int(binary.BigEndian.Uint32(b[o:]))
}

func (fi *fontInfo) addRegion(name string, off, n, tlen int, dir bool) {
	if off < 0 || off >= len(fi.data) || n <= 0 {
		return
	}
	if off+n > len(fi.data) {
		n = len(fi.data) - off
	}
	fi.regions = append(fi.regions, region{name, off, n, tlen, dir})
}

// parseSfnt registers the directory of the sfnt at base; rel: table offsets are relative to base (dfont).
func (fi *fontInfo) parseSfnt(base int, rel bool, prefix string) []tableRec {
	b := fi.data
	if base+12 > len(b) {
		return nil
	}
	var out []tableRec
	if string(b[base:base+4]) == "wOFF" {
		n := u16(b, base+12)
		fi.addRegion(prefix+"woff", base, 44, 0, true)
		for i := 0; i < n && base+44+20*(i+1) <= len(b); i++ {
			r := base + 44 + 20*i
			t := tableRec{tag: string(b[r : r+4]), recOff: r, recLen: 20, off: u32(b, r+4), length: u32(b, r+8)}
			out = append(out, t)
			fi.addRegion(prefix+"dir:"+t.tag, r, 20, t.length, true)
		}
		fi.dirEnds = append(fi.dirEnds, [2]int{base, base + 44 + 20*n})
		return out
	}
	n := u16(b, base+4)
	fi.addRegion(prefix+"sfnt", base, 12, 0, true)
	for i := 0; i < n && base+12+16*(i+1) <= len(b); i++ {
		r := base + 12 + 16*i
		t := tableRec{tag: string(b[r : r+4]), recOff: r, recLen: 16, off: u32(b, r+8), length: u32(b, r+12)}
		if rel {
			t.off += base
		}
		out = append(out, t)
		fi.addRegion(prefix+"dir:"+t.tag, r, 16, t.length, true)
	}
	fi.dirEnds = append(fi.dirEnds, [2]int{base, base + 12 + 16*n})
	return out
}

func loadFontInfo(root, rel string) (*fontInfo, error) {
	data, err := os.ReadFile(filepath.Join(root, filepath.FromSlash(rel)))
	if err != nil {
		return nil, err
	}
	return newFontInfo(rel, data)
}

// newFontInfo is loadFontInfo on bytes already in memory.
func newFontInfo(rel string, data []byte) (*fontInfo, error) {
	fi := &fontInfo{rel: rel, data: data}
	if len(data) < 12 {
		return nil, fmt.Errorf("%s: too short", rel)
	}
	switch magic := string(data[:4]); {
	case magic == "wOFF":
		fi.container = "woff"
		fi.tabs = fi.parseSfnt(0, false, "")
	case magic == "ttcf":
		fi.container = "ttc"
		n := u32(data, 8)
		if n > 64 {
			n = 64
		}
		hdr := 12 + 4*n
		if u32(data, 4) >= 0x00020000 {
			hdr += 12
		}
		fi.addRegion("ttc", 0, hdr, 0, true)
		fi.dirEnds = append(fi.dirEnds, [2]int{0, hdr})
		seen := map[int]bool{}
		for i := 0; i < n && i < 4; i++ {
			o := u32(data, 12+4*i)
			prefix := ""
			if i > 0 {
				prefix = fmt.Sprintf("f%d/", i)
			}
			for _, t := range fi.parseSfnt(o, false, prefix) {
				if i == 0 || !seen[t.off] {
					if i > 0 {
						t.tag = prefix + t.tag
					}
					fi.tabs = append(fi.tabs, t)
				}
				seen[t.off] = true
			}
		}
	case u32(data, 0) == 0x100:
		fi.container = "dfont"
		fi.addRegion("dfont", 0, 16, 0, true)
		mapOff, mapLen := u32(data, 4), u32(data, 12)
		n := mapLen
		if n > 512 {
			n = 512
		}
		fi.addRegion("dfontmap", mapOff, n, mapLen, true)
		fi.dirEnds = append(fi.dirEnds, [2]int{0, 16})
		if mapOff < len(data) {
			fi.dirEnds = append(fi.dirEnds, [2]int{mapOff, mapOff + n})
		}
		// walk the resource map like the library does, to find the sfnt resources
		typeList := mapOff + u16(data, mapOff+24)
		nTypes := u16(data, typeList) + 1
		k := 0
		for i := 0; i < nTypes && i < 64; i++ {
			e := typeList + 2 + 8*i
			if e+8 > len(data) || string(data[e:e+4]) != "sfnt" {
				continue
			}
			nf, lo := u16(data, e+4)+1, u16(data, e+6)
			for j := 0; j < nf && j < 4; j++ {
				r := typeList + lo + 12*j
				o := (u32(data, r+4) & 0xffffff) + 0x100 + 4
				prefix := ""
				if k > 0 {
					prefix = fmt.Sprintf("f%d/", k)
				}
				for _, t := range fi.parseSfnt(o, true, prefix) {
					if k > 0 {
						t.tag = prefix + t.tag
					}
					fi.tabs = append(fi.tabs, t)
				}
				k++
			}
		}
	default:
		fi.container = "sfnt"
		fi.tabs = fi.parseSfnt(0, false, "")
	}
	// features, for the font selection
	fs := map[string]bool{"container:" + fi.container: true}
	for _, t := range fi.tabs {
		if !strings.Contains(t.tag, "/") {
			fs["t:"+t.tag] = true
		}
	}
	if t := fi.table("cmap"); t != nil && fi.container != "woff" {
		for _, s := range fi.cmapSubtables(*t) {
			fs[fmt.Sprintf("cmap:f%d", s.format)] = true
		}
	}
	if t := fi.table("maxp"); t != nil && fi.container != "woff" {
		fi.numGlyphs = u16(data, t.off+4)
	}
	if t := fi.table("fvar"); t != nil && fi.container != "woff" {
		ao, ac, as := t.off+u16(data, t.off+4), u16(data, t.off+8), u16(data, t.off+10)
		for i := 0; i < ac && i < 16 && as >= 4; i++ {
			if o := ao + i*as; o+4 <= len(data) {
				fi.axes = append(fi.axes, string(data[o:o+4]))
			}
		}
	}
	for f := range fs {
		fi.feats = append(fi.feats, f)
	}
	sort.Strings(fi.feats)
	return fi, nil
}

func (fi *fontInfo) table(tag string) *tableRec {
	for i := range fi.tabs {
		if fi.tabs[i].tag == tag {
			return &fi.tabs[i]
		}
	}
	return nil
}

type cmapSub struct{ off, length, format int }

func (fi *fontInfo) cmapSubtables(t tableRec) []cmapSub {
	b := fi.data
	n := u16(b, t.off+2)
	seen := map[int]bool{}
	var out []cmapSub
	for i := 0; i < n && i < 32; i++ {
		o := u32(b, t.off+4+8*i+4)
		if seen[o] || o >= t.length {
			continue
		}
		seen[o] = true
		s := cmapSub{off: t.off + o, format: u16(b, t.off+o)}
		switch s.format {
		case 0, 2, 4, 6:
			s.length = u16(b, s.off+2)
		case 8, 10, 12, 13:
			s.length = u32(b, s.off+4)
		case 14:
			s.length = u32(b, s.off+2)
		}
		out = append(out, s)
	}
	return out
}

// addBodyRegions registers the first 64 bytes of the tables of the tier (first font of a collection only).
func (fi *fontInfo) addBodyRegions(tc tierCfg) {
	if fi.container == "woff" {
		return // the bodies are compressed: container only
	}
	want := tc.tables
	if want == nil {
		want = knownTables
	}
	for _, tag := range want {
		t := fi.table(tag)
		if t == nil || t.length == 0 {
			continue
		}
		n := 64
		if t.length < n {
			n = t.length
		}
		fi.addRegion(tag, t.off, n, t.length, false)
		if tag == "cmap" {
			for i, s := range fi.cmapSubtables(*t) {
				n := 64
				if s.length > 0 && s.length < n {
					n = s.length
				}
				fi.addRegion(fmt.Sprintf("cmap.sub%d:f%d", i, s.format), s.off, n, s.length, false)
			}
		}
		if tag == "glyf" {
			fi.addGlyphRegions(*t, tc.glyphRecords)
		}
	}
}

// addGlyphRegions registers the first 64 bytes of the first glyph records (found through loca): the
// first simple glyphs and the first composite ones.
func (fi *fontInfo) addGlyphRegions(glyf tableRec, max int) {
	head, loca := fi.table("head"), fi.table("loca")
	if head == nil || loca == nil || fi.numGlyphs == 0 {
		return
	}
	long := u16(fi.data, head.off+50) == 1
	at := func(i int) int {
		if long {
			return u32(fi.data, loca.off+4*i)
		}
		return 2 * u16(fi.data, loca.off+2*i)
	}
	simple, composite := 0, 0
	for g := 0; g < fi.numGlyphs && g < 2000 && (simple < max || composite < max); g++ {
		o, e := at(g), at(g+1)
		if e <= o || e > glyf.length || e-o < 10 {
			continue
		}
		isComposite := u16(fi.data, glyf.off+o) >= 0x8000
		if isComposite && composite < max {
			composite++
		} else if !isComposite && simple < max {
			simple++
		} else {
			continue
		}
		n := 64
		if e-o < n {
			n = e - o
		}
		fi.addRegion(fmt.Sprintf("glyf.g%d", g), glyf.off+o, n, e-o, false)
	}
}

// ------------------------------------------------------------------------------------------------
// case enumeration (deterministic; the parent and the children compute the same list)

type mcase struct {
	mut    string
	region int // index in fi.regions, -1 if none
	table  string
	field  int
	writes []write
	trunc  int // -1: none
	swap   []int
	syn    *synCase // table synthesis pass
}

func (fi *fontInfo) toInput(c *mcase) input {
	if c.syn != nil {
		return c.syn.toInput()
	}
	in := input{Font: fi.rel, Container: fi.container, Mut: c.mut, Table: c.table, Writes: c.writes, Swap: c.swap}
	if strings.HasPrefix(c.mut, "m") {
		in.Pass = "mut"
	}
	if c.region >= 0 {
		in.Table = fi.regions[c.region].name
		f := c.field
		in.Field = &f
	}
	if c.trunc >= 0 {
		t := c.trunc
		in.Trunc = &t
	}
	return in
}

var mainSwapTables = []string{"head", "maxp", "hhea", "hmtx", "loca", "cmap", "glyf", "name", "OS/2", "post", "GSUB", "GPOS", "GDEF",
	"fvar", "gvar", "avar", "HVAR", "kern", "CFF ", "CFF2", "EBLC", "EBDT", "CBLC", "CBDT", "sbix", "SVG ", "morx", "kerx", "vmtx", "vhea", "MVAR"}

var quickSwaps = [][2]string{{"head", "maxp"}, {"loca", "glyf"}, {"cmap", "name"}, {"hhea", "hmtx"}, {"cmap", "glyf"}, {"GSUB", "GPOS"},
	{"head", "cmap"}, {"maxp", "loca"}, {"CFF ", "cmap"}, {"fvar", "gvar"}, {"hmtx", "loca"}, {"post", "name"}}

var interesting16 = []uint32{0, 1, 0x7FFF, 0x8000, 0xFFFF}
var interesting32 = []uint32{0, 1, 0x7FFFFFFF, 0x80000000, 0xFFFFFFFF}

func dedupe(vs []uint32, orig uint32) []uint32 {
	seen := map[uint32]bool{orig: true}
	out := vs[:0:0]
	for _, v := range vs {
		if !seen[v] {
			seen[v] = true
			out = append(out, v)
		}
	}
	return out
}

func (fi *fontInfo) enumerate(tc tierCfg, seed int64) (cases []mcase, identical int) {
	b := fi.data
	flen := len(b)
	cases = append(cases, mcase{mut: "none", region: -1, trunc: -1})

	// 1. truncations
	cuts := map[int]string{}
	for _, e := range fi.dirEnds {
		for c := e[0]; c <= e[1] && c < flen; c += 4 {
			if _, ok := cuts[c]; !ok {
				cuts[c] = "dir"
			}
		}
	}
	for _, c := range []int{1, 2, 3, 5, 6, 7, flen - 1, flen - 2, flen - 4} {
		if _, ok := cuts[c]; !ok && c >= 0 {
			cuts[c] = "dir"
		}
	}
	for _, t := range fi.tabs {
		for _, d := range []int{0, 1, 2, 3, 4, 6, 8, 10, 12, 16, 20, 24, 32, 48, 64, 128} {
			if d < t.length {
				if _, ok := cuts[t.off+d]; !ok {
					cuts[t.off+d] = t.tag
				}
			}
		}
		for _, c := range []int{t.off + t.length - 1, t.off + t.length} {
			if _, ok := cuts[c]; !ok && c >= 0 {
				cuts[c] = t.tag
			}
		}
	}
	var cs []int
	for c := range cuts {
		cs = append(cs, c)
	}
	sort.Ints(cs)
	for _, c := range cs {
		if c >= flen || c < 0 {
			identical++
			continue
		}
		cases = append(cases, mcase{mut: "trunc", region: -1, table: cuts[c], trunc: c})
	}

	// 2. every aligned field of the regions
	for ri, r := range fi.regions {
		var near16, near32 []uint32
		for _, x := range []int{r.tlen - 1, r.tlen, r.tlen + 1} {
			if r.tlen > 0 {
				near32 = append(near32, uint32(x))
				if x <= 0xFFFF {
					near16 = append(near16, uint32(x))
				}
			}
		}
		for _, x := range []int{flen - 1, flen, flen + 1} {
			near32 = append(near32, uint32(x))
			if x <= 0xFFFF {
				near16 = append(near16, uint32(x))
			}
		}
		if r.dir && r.tlen > 0 && r.tlen <= flen { // a table ending exactly at the end of the file, and one byte after
			near32 = append(near32, uint32(flen-r.tlen), uint32(flen-r.tlen+1))
		}
		if fi.numGlyphs > 0 {
			for _, x := range []int{fi.numGlyphs - 1, fi.numGlyphs, fi.numGlyphs + 1} {
				near16 = append(near16, uint32(x))
			}
		}
		for o := 0; o+2 <= r.n; o += 2 {
			orig := uint32(u16(b, r.off+o))
			vals := dedupe(append(append([]uint32{}, interesting16...), near16...), orig)
			identical++
			for _, v := range vals {
				cases = append(cases, mcase{mut: "set16", region: ri, field: o, trunc: -1, writes: []write{{r.off + o, 2, v}}})
			}
		}
		step := 4
		if tc.all32 {
			step = 2
		}
		for o := 0; o+4 <= r.n; o += step {
			orig := uint32(u32(b, r.off+o))
			vals := dedupe(append(append([]uint32{}, interesting32...), near32...), orig)
			identical++
			for _, v := range vals {
				cases = append(cases, mcase{mut: "set32", region: ri, field: o, trunc: -1, writes: []write{{r.off + o, 4, v}}})
			}
		}
	}

	// 3. swapped table bodies
	var pairs [][2]string
	if tc.swapAll {
		for i, a := range mainSwapTables {
			for _, c := range mainSwapTables[i+1:] {
				pairs = append(pairs, [2]string{a, c})
			}
		}
	} else {
		pairs = quickSwaps
	}
	for _, p := range pairs {
		ta, tb := fi.table(p[0]), fi.table(p[1])
		if ta == nil || tb == nil {
			continue
		}
		cases = append(cases, mcase{mut: "swap", region: -1, table: p[0] + "<->" + p[1], trunc: -1,
			swap: []int{ta.recOff + 4, tb.recOff + 4, ta.recLen - 4}})
	}

	// 4. the random stream
	h := fnv.New64a()
	h.Write([]byte(fi.rel))
	rng := rand.New(rand.NewSource(seed ^ int64(h.Sum64()&0x7fffffffffffffff)))
	pickVal := func(w int) uint32 {
		switch rng.Intn(4) {
		case 0:
			if w == 2 {
				return interesting16[rng.Intn(len(interesting16))]
			}
			return interesting32[rng.Intn(len(interesting32))]
		case 1:
			return uint32(rng.Intn(64))
		case 2:
			if w == 2 {
				return uint32(0xFFFF - rng.Intn(64))
			}
			return uint32(flen + rng.Intn(9) - 4)
		}
		if w == 2 {
			return uint32(rng.Intn(0x10000))
		}
		return rng.Uint32()
	}
	for i := 0; i < tc.nRand && len(fi.regions) > 0; i++ {
		c := mcase{mut: "rand", region: -1, trunc: -1}
		switch k := rng.Intn(10); {
		case k < 3: // byte flips in the headers
			for j, n := 0, 1+rng.Intn(4); j < n; j++ {
				r := fi.regions[rng.Intn(len(fi.regions))]
				o := r.off + rng.Intn(r.n)
				c.writes = append(c.writes, write{o, 1, uint32(b[o] ^ byte(1<<uint(rng.Intn(8))))})
				c.table = r.name
			}
		case k < 6: // 16-bit writes in the headers
			for j, n := 0, 1+rng.Intn(3); j < n; j++ {
				r := fi.regions[rng.Intn(len(fi.regions))]
				if r.n < 2 {
					continue
				}
				o := r.off + 2*rng.Intn(r.n/2)
				c.writes = append(c.writes, write{o, 2, pickVal(2)})
				c.table = r.name
			}
		case k < 9: // a 16-bit or 32-bit write anywhere in a table body
			if len(fi.tabs) == 0 || fi.container == "woff" {
				r := fi.regions[rng.Intn(len(fi.regions))]
				c.writes = append(c.writes, write{r.off + rng.Intn(r.n), 1, uint32(rng.Intn(256))})
				c.table = r.name
				break
			}
			t := fi.tabs[rng.Intn(len(fi.tabs))]
			if t.length < 4 || t.off+t.length > flen {
				continue
			}
			w := 2
			if rng.Intn(4) == 0 {
				w = 4
			}
			// favour the beginning of the table, where the structure is
			span := t.length
			if rng.Intn(2) == 0 && span > 512 {
				span = 512
			}
			o := t.off + 2*rng.Intn((span-w)/2+1)
			c.writes = append(c.writes, write{o, w, pickVal(w)})
			c.table = t.tag
		default: // random truncation
			c.trunc = rng.Intn(flen)
			c.table = "file"
		}
		if len(c.writes) == 0 && c.trunc < 0 {
			continue
		}
		cases = append(cases, c)
	}
	return cases, identical
}

// ------------------------------------------------------------------------------------------------
// running one case

type outcome struct {
	Class string `json:"class"` // load-error, load-ok, panic, alloc, slow
	Fail  string `json:"fail,omitempty"`
	Kind  string `json:"kind,omitempty"`
	Alloc uint64 `json:"alloc"`
	Ms    int64  `json:"ms"`
	Faces int    `json:"faces"`
	Err   string `json:"err,omitempty"`
	Stack string `json:"stack,omitempty"`
}

func shortFunc(fn string) string { return strings.TrimPrefix(fn, modPrefix) }

// panicSite returns the innermost frame inside the library; called from the deferred handler,
// where the panicking frames are still on the stack.
func panicSite() (fn, pos string) {
	pcs := make([]uintptr, 128)
	n := runtime.Callers(2, pcs)
	frames := runtime.CallersFrames(pcs[:n])
	for {
		f, more := frames.Next()
		if strings.HasPrefix(f.Function, modPrefix) {
			file := f.File
			if i := strings.Index(file, "/repo/"); i >= 0 {
				file = file[i+6:]
			}
			return shortFunc(f.Function), fmt.Sprintf("%s:%d", file, f.Line)
		}
		if !more {
			break
		}
	}
	return "unknown", ""
}

// siteFromTrace extracts the first library frame of a textual goroutine trace.
func siteFromTrace(trace string) string {
	for _, line := range strings.Split(trace, "\n") {
		line = strings.TrimSpace(line)
		if strings.HasPrefix(line, modPrefix) {
			if i := strings.LastIndex(line, "("); i > 0 {
				line = line[:i]
			}
			return shortFunc(line)
		}
	}
	return "unknown"
}

// entrySite is the signature of resource failures (hang, slow, runaway allocation, out of memory): the
// innermost frame is where the sample happened to be taken, which is not stable. The outermost library
// frame that is not the loader entry point (font.ParseTTC, font.NewFont) says which table parser or
// which query is concerned. `frames` is innermost first.
func entrySite(frames []string) string {
	best := "unknown"
	for i := len(frames) - 1; i >= 0; i-- {
		f := frames[i]
		best = f
		if f != "font.ParseTTC" && f != "font.NewFont" && f != "font/opentype.NewLoaders" {
			return f
		}
	}
	return best
}

// libFrames lists the library frames of a textual goroutine trace, innermost first.
func libFrames(trace string) []string {
	var out []string
	for _, line := range strings.Split(trace, "\n") {
		line = strings.TrimSpace(line)
		if strings.HasPrefix(line, modPrefix) {
			if i := strings.LastIndex(line, "("); i > 0 {
				line = line[:i]
			}
			out = append(out, shortFunc(line))
		}
	}
	return out
}

// a case whose live heap grows over this limit is stopped and reported (class alloc)
const maxLiveHeap = 1 << 30

var heapSample = []metrics.Sample{{Name: "/memory/classes/heap/objects:bytes"}}

func liveHeap() uint64 {
	metrics.Read(heapSample)
	return heapSample[0].Value.Uint64()
}

var allocSample = []metrics.Sample{{Name: "/gc/heap/allocs:bytes"}}

func allocated() uint64 {
	metrics.Read(allocSample)
	return allocSample[0].Value.Uint64()
}

var (
	testRunes = func() []rune {
		var out []rune
		for r := rune(0x20); r < 0x7F; r++ {
			out = append(out, r)
		}
		for r := rune(0xA0); r <= 0xFF; r += 3 {
			out = append(out, r)
		}
		return append(out, 0, 0x100, 0x131, 0x391, 0x416, 0x5D0, 0x627, 0x915, 0xE01, 0x2260, 0x3042, 0x4E00, 0x4E8C, 0x9FA5, 0xAC00,
			0xF000, 0xF020, 0xFB01, 0xFFFD, 0xFFFF, 0x10000, 0x1F600, 0x1F468, 0x20000, 0xE0100, 0x10FFFF, 0x110000, -1)
	}()
	varSelectors = []rune{0xFE00, 0xFE0E, 0xFE0F, 0xE0100, 0xE01EF, 0x180B}
	shapeText    = []rune("abc fi 123")
	lineMetrics  = []font.LineMetric{font.UnderlinePosition, font.UnderlineThickness, font.StrikethroughPosition, font.StrikethroughThickness,
		font.SuperscriptEmYSize, font.SuperscriptEmXOffset, font.SubscriptEmYSize, font.SubscriptEmYOffset, font.SubscriptEmXOffset,
		font.CapHeight, font.XHeight, font.XHeight + 1, 255}
	genericAxes = []string{"wght", "wdth", "opsz", "slnt", "ital"}
)

var sink int

var mperOverride int // -mper: mutants per font of the mutation pass

// glyphIters counts the glyphs given to glyphBattery in the current case (six queries each).
var glyphIters int

func glyphBattery(f *font.Face, gids []font.GID) {
	for _, g := range gids {
		glyphIters++
		f.HorizontalAdvance(g)
		f.VerticalAdvance(g)
		if e, ok := f.GlyphExtents(g); ok {
			sink += int(e.Width)
		}
		switch d := f.GlyphData(g).(type) {
		case font.GlyphOutline:
			sink += len(d.Segments)
		case font.GlyphBitmap:
			sink += len(d.Data)
		case font.GlyphSVG:
			sink += len(d.Source)
		}
		f.GlyphVOrigin(g)
		f.GlyphHOrigin(g)
	}
}

// queryFace is the battery of queries on one loaded face.
func queryFace(f *font.Face, fi *fontInfo, tc tierCfg, deadline time.Time) {
	gids := make([]font.GID, 0, tc.glyphCap+32)
	for i := 0; i < tc.glyphCap; i++ {
		gids = append(gids, font.GID(i))
	}
	for d := -2; d <= 1; d++ {
		if g := fi.numGlyphs + d; g >= tc.glyphCap {
			gids = append(gids, font.GID(g))
		}
	}
	gids = append(gids, 0xFFFE, 0xFFFF, 0x10000, 0xFFFFFFFF)

	seen := map[font.GID]bool{}
	for _, r := range testRunes {
		if g, ok := f.NominalGlyph(r); ok && !seen[g] && len(seen) < 24 && int(g) >= tc.glyphCap {
			seen[g] = true
			gids = append(gids, g)
		}
	}
	for _, r := range []rune{'a', 0x2260, 0x4E00, 0x1F600} {
		for _, vs := range varSelectors {
			f.VariationGlyph(r, vs)
		}
	}
	glyphBattery(f, gids)
	for _, g := range gids {
		sink += len(f.GlyphName(g))
		f.GetGlyphContourPoint(g, 0)
		f.GetGlyphContourPoint(g, 0xFFFF)
	}
	f.FontHExtents()
	f.FontVExtents()
	for _, m := range lineMetrics {
		f.LineMetric(m)
	}
	f.Upem()
	f.IsMonospace()
	f.HasVerticalMetrics()
	d := f.Describe()
	sink += len(d.Family)
	for _, s := range f.BitmapSizes() {
		sink += int(s.Height)
	}
	for _, ppem := range [][2]uint16{{12, 12}, {0xFFFF, 0xFFFF}, {0, 0}} {
		f.SetPpem(ppem[0], ppem[1])
		glyphBattery(f, gids[:8])
	}

	// cmap iteration, bounded by time: a cmap cannot legitimately list more than a few million entries
	if f.Cmap != nil {
		it := f.Cmap.Iter()
		steps := 0
		for it.Next() {
			r, g := it.Char()
			sink += int(r) + int(g)
			steps++
			if steps&0xFFF == 0 && time.Now().After(deadline) {
				panic(cmapIterUnbounded{steps})
			}
		}
		if rr, ok := f.Cmap.(font.CmapRuneRanger); ok {
			sink += len(rr.RuneRanges(nil))
		}
	}

	// one shaping
	shapeOnce(harfbuzz.NewFont(f), shapeText, 0, nil)

	// variations
	var vars []font.Variation
	for i, a := range append(append([]string{}, fi.axes...), genericAxes...) {
		if len(a) == 4 {
			vars = append(vars, font.Variation{Tag: ot.MustNewTag(a), Value: float32(100 + 150*i)})
		}
	}
	f.SetVariations(vars)
	if n := len(f.Coords()); n > 0 {
		sub := gids
		if len(sub) > 24 {
			sub = append(append([]font.GID{}, gids[:20]...), gids[len(gids)-6:]...)
		}
		glyphBattery(f, sub)
		for _, v := range []float64{1, -1, 0.5, 0} {
			coords := make([]tables.Coord, n)
			for i := range coords {
				coords[i] = tables.NewCoord(v)
				if i%2 == 1 {
					coords[i] = -coords[i]
				}
			}
			f.SetCoords(coords)
			glyphBattery(f, sub)
			f.FontHExtents()
			f.FontVExtents()
			for _, m := range lineMetrics {
				f.LineMetric(m)
			}
		}
		f.NormalizeVariations(make([]float32, n))
		f.SetCoords(nil)
	}
}

type cmapIterUnbounded struct{ steps int }

// runCase loads and queries one byte string under recover().
func runCase(b []byte, fi *fontInfo, tc tierCfg, wantStack bool) (out outcome) {
	a0 := allocated()
	t0 := time.Now()
	shapeAlloc = 0
	glyphIters = 0
	defer func() {
		if r := recover(); r != nil {
			out.Class = "panic"
			if c, ok := r.(cmapIterUnbounded); ok {
				out.Fail = fmt.Sprintf("hang: Cmap.Iter still running after %d steps", c.steps)
				out.Kind = "hang:cmap-iter"
			} else if c, ok := r.(shapeAllocExceeded); ok {
				out.Fail = fmt.Sprintf("alloc: one shaping call of %d runes allocated %d bytes", c.runes, c.bytes)
				out.Kind = "alloc:harfbuzz.(*Buffer).Shape"
			} else {
				fn, pos := panicSite()
				out.Fail = fmt.Sprintf("panic: %v at %s (%s)", r, fn, pos)
				out.Kind = "panic:" + fn
				if wantStack {
					out.Stack = string(debug.Stack())
				}
			}
			if passSynth {
				out.Fail += " [query " + curQuery() + "]"
			}
		}
		out.Alloc = allocated() - a0
		if out.Alloc >= shapeAlloc {
			out.Alloc -= shapeAlloc // accounted per call in shapeOnce
		}
		dur := time.Since(t0)
		out.Ms = dur.Milliseconds()
		if out.Class != "panic" {
			limit := 64<<20 + 2000*uint64(len(b))
			if passSynth {
				// The base fonts of the synthesis pass are tiny (2..5 KB) and its battery asks several hundred
				// glyph queries; one query on a composite glyph may follow maxCompositeEdges = 1024 components
				// by design (the limit of HarfBuzz), about 1 MB for a font of 3 KB whose composites point at
				// composites. The budget of a case has 1 MiB per glyph of the battery (six queries) on top.
				limit += uint64(glyphIters) << 20
			}
			if out.Alloc > limit {
				out.Fail = fmt.Sprintf("alloc: %d bytes allocated for an input of %d bytes", out.Alloc, len(b))
				out.Kind = "alloc"
			} else if dur > tc.slow {
				out.Fail = fmt.Sprintf("slow: %v for an input of %d bytes", dur, len(b))
				out.Kind = "slow"
			}
		}
	}()
	if passSynth {
		runSynthLoad(b, fi, tc, &out, t0)
		return out
	}
	if passMut {
		runMutLoad(b, fi, tc, &out, t0)
		return out
	}
	faces, err := font.ParseTTC(bytes.NewReader(b))
	if err != nil {
		out.Class = "load-error"
		out.Err = err.Error()
		// the lower level API must be total too
		if lds, err := ot.NewLoaders(bytes.NewReader(b)); err == nil {
			for i, ld := range lds {
				if i >= 4 {
					break
				}
				d, _ := font.Describe(ld, nil)
				sink += len(d.Family)
				for _, tag := range ld.Tables() {
					raw, _ := ld.RawTable(tag)
					sink += len(raw)
				}
			}
		}
		return out
	}
	out.Class = "load-ok"
	out.Faces = len(faces)
	deadline := t0.Add(tc.slow)
	for i, f := range faces {
		if i >= 4 {
			break
		}
		queryFace(f, fi, tc, deadline)
	}
	if lds, err := ot.NewLoaders(bytes.NewReader(b)); err == nil && len(lds) > 0 {
		d, _ := font.Describe(lds[0], nil)
		sink += len(d.Family)
	}
	return out
}

// allocSite re-runs the case and returns the library frame that allocated the most (memory profile diff).
func allocSite(b []byte, fi *fontInfo, tc tierCfg) string {
	snap := func() map[string]int64 {
		runtime.GC()
		runtime.GC()
		n, _ := runtime.MemProfile(nil, true)
		recs := make([]runtime.MemProfileRecord, n+64)
		n, ok := runtime.MemProfile(recs, true)
		if !ok {
			return nil
		}
		out := map[string]int64{}
		for _, r := range recs[:n] {
			var lib []string
			frames := runtime.CallersFrames(r.Stack())
			for {
				f, more := frames.Next()
				if strings.HasPrefix(f.Function, modPrefix) {
					lib = append(lib, shortFunc(f.Function))
				}
				if !more {
					break
				}
			}
			site := entrySite(lib)
			out[site] += r.AllocBytes
			if os.Getenv("C09_ALLOC_STACK") != "" && r.AllocBytes > 8<<20 {
				fmt.Fprintf(os.Stderr, "alloc %d bytes in %d objects:\n", r.AllocBytes, r.AllocObjects)
				fr := runtime.CallersFrames(r.Stack())
				for {
					f, more := fr.Next()
					fmt.Fprintf(os.Stderr, "\t%s %s:%d\n", f.Function, f.File, f.Line)
					if !more {
						break
					}
				}
			}
		}
		return out
	}
	s0 := snap()
	runCase(b, fi, tc, false)
	s1 := snap()
	best, bestN := "unknown", int64(0)
	for k, v := range s1 {
		if d := v - s0[k]; d > bestN {
			best, bestN = k, d
		}
	}
	return best
}

// ------------------------------------------------------------------------------------------------
// child mode: runs the cases [start, end) of one font, one "R <i> <class> <json>" line per case

func childMain(root, rel string, tc tierCfg, seed int64, start, end int, pass string) {
	debug.SetMaxStack(64 << 20)
	runtime.GOMAXPROCS(2)
	limitAddressSpace()
	var (
		fi  *fontInfo
		err error
	)
	if pass == "synth" {
		passSynth = true
		fi = &fontInfo{rel: rel}
	} else if fi, err = loadFontInfo(root, rel); err != nil {
		fmt.Fprintln(os.Stderr, "child:", err)
		os.Exit(4)
	}
	var cases []mcase
	if pass == "synth" {
		cases = enumerateSynth(root, strings.TrimPrefix(rel, "synth:"), synTierOf(tc.name), seed)
	} else if pass == "mut" {
		passMut = true
		mt := mutTierOf(tc.name)
		if mperOverride > 0 {
			mt.perFont, mt.perBig = mperOverride, mperOverride
		}
		cases = fi.enumerateMut(mt, seed)
	} else {
		fi.addBodyRegions(tc)
		cases, _ = fi.enumerate(tc, seed)
	}
	if end > len(cases) {
		end = len(cases)
	}
	w := bufio.NewWriter(os.Stdout)
	var mu sync.Mutex
	var cur, since atomic.Int64
	cur.Store(-1)

	// watchdog: a case over the budget is reported as a hang and the process exits
	go func() {
		var site string
		var siteFor int64 = -1
		for {
			time.Sleep(200 * time.Millisecond)
			i := cur.Load()
			if i < 0 {
				continue
			}
			el := time.Duration(time.Now().UnixNano() - since.Load())
			if el > tc.slow/2 && siteFor != i {
				site, siteFor = runningSite(), i
			}
			if live := liveHeap(); live > maxLiveHeap && cur.Load() == i {
				mu.Lock()
				site = runningSite()
				o := outcome{Class: "alloc", Fail: fmt.Sprintf("alloc: %d bytes of live heap after %v in %s", live, el, site), Kind: "alloc:" + site, Alloc: live, Ms: el.Milliseconds()}
				if passSynth {
					o.Fail += " [query " + curQuery() + "]"
				}
				js, _ := json.Marshal(o)
				fmt.Fprintf(w, "R %d %s\n", i, js)
				w.Flush()
				os.Exit(3)
			}
			if el > tc.hang && cur.Load() == i {
				if siteFor != i {
					site = runningSite()
				}
				mu.Lock()
				o := outcome{Class: "hang", Fail: fmt.Sprintf("hang: still running after %v in %s", tc.hang, site), Kind: "hang:" + site, Ms: el.Milliseconds()}
				if passSynth {
					o.Fail += " [query " + curQuery() + "]"
				}
				js, _ := json.Marshal(o)
				fmt.Fprintf(w, "R %d %s\n", i, js)
				w.Flush()
				os.Exit(3)
			}
		}
	}()

	for i := start; i < end; i++ {
		c := &cases[i]
		in := fi.toInput(c)
		var b []byte
		cfi := fi
		if c.syn != nil {
			b = c.syn.bytes(root)
			if cfi, err = newFontInfo(c.syn.base, b); err != nil {
				cfi = &fontInfo{rel: c.syn.base, data: b}
			}
		} else {
			b = in.apply(fi.data)
		}
		since.Store(time.Now().UnixNano())
		cur.Store(int64(i))
		if st := os.Getenv("C09_SELFTEST"); st != "" && i == start+2 && start == 0 {
			selfTest(st) // checks that the parent survives a fatal child
		}
		o := runCase(b, cfi, tc, false)
		cur.Store(-1)
		if o.Kind == "alloc" {
			o.Kind = "alloc:" + allocSite(b, cfi, tc)
		}
		if o.Kind == "slow" {
			o.Kind = "slow:" + slowSite(b, cfi, tc)
		}
		if c.syn != nil {
			o.Err = synAccepted // which of the synthesized tables the loader accepted (histogram)
		} else {
			o.Err = ""
		}
		js, _ := json.Marshal(o)
		mu.Lock()
		fmt.Fprintf(w, "R %d %s\n", i, js)
		w.Flush()
		mu.Unlock()
	}
	os.Exit(0)
}

func selfTest(kind string) {
	switch kind {
	case "overflow":
		var f func(n int) int
		f = func(n int) int { return f(n+1) + 1 }
		sink += f(0)
	case "oom":
		sink += len(make([]byte, 1<<40))
	case "hang":
		for {
			sink++
		}
	}
}

// stackOverflowSite is the signature of a stack overflow: the innermost frame is an arbitrary member of
// the recursion cycle, so take the alphabetically first library function that repeats in the trace.
func stackOverflowSite(trace string) string {
	counts := map[string]int{}
	for _, f := range libFrames(trace) {
		counts[f]++
	}
	best := ""
	for f, n := range counts {
		if n >= 3 && (best == "" || f < best) {
			best = f
		}
	}
	if best == "" {
		return siteFromTrace(trace)
	}
	return best
}

// limitAddressSpace: a 4 GiB allocation becomes a crash reported by the parent, not an exhausted machine.
func limitAddressSpace() {
	var lim syscall.Rlimit
	if err := syscall.Getrlimit(syscall.RLIMIT_AS, &lim); err == nil {
		want := uint64(4 << 30)
		if lim.Max == 0 || want < lim.Max || lim.Max == ^uint64(0) {
			lim.Cur = want
			syscall.Setrlimit(syscall.RLIMIT_AS, &lim)
		}
	}
}

// runningSite samples the stack of the goroutine running the case.
func runningSite() string {
	buf := make([]byte, 1<<20)
	n := runtime.Stack(buf, true)
	for _, g := range strings.Split(string(buf[:n]), "\n\n") {
		if strings.Contains(g, "main.runCase") {
			return entrySite(libFrames(g))
		}
	}
	return "unknown"
}

// slowSite re-runs a slow case and samples where it spends its time.
func slowSite(b []byte, fi *fontInfo, tc tierCfg) string {
	done := make(chan struct{})
	counts := map[string]int{}
	var wg sync.WaitGroup
	wg.Add(1)
	go func() {
		defer wg.Done()
		for {
			select {
			case <-done:
				return
			case <-time.After(100 * time.Millisecond):
				counts[runningSite()]++
			}
		}
	}()
	runCase(b, fi, tc, false)
	close(done)
	wg.Wait()
	best, bestN := "unknown", 0
	for k, v := range counts {
		if v > bestN || (v == bestN && k < best) {
			best, bestN = k, v
		}
	}
	return best
}

// ------------------------------------------------------------------------------------------------
// parent

type failure struct {
	Fail  string `json:"fail"`
	Kind  string `json:"kind"`
	Input input  `json:"input"`
	rank  int
}

type job struct {
	fi         *fontInfo
	cases      []mcase
	start, end int
	pass       string // "" (field pass) or "mut"
}

type parent struct {
	root  string
	tc    tierCfg
	seed  int64
	self  string
	mu    sync.Mutex
	hist  map[string]int
	fails map[string][]failure
	evals int
	stop  atomic.Bool

	mutEvals int
	synEvals int
}

func (p *parent) record(j *job, i int, o outcome) {
	c := &j.cases[i]
	in := j.fi.toInput(c)
	p.mu.Lock()
	defer p.mu.Unlock()
	p.evals++
	if j.pass == "synth" {
		p.recordSynth(c, &o)
	} else if j.pass == "mut" {
		// the histogram of the mutation pass: table kinds (collection members folded), mutation kinds, outcomes
		p.mutEvals++
		p.hist["mcontainer:"+j.fi.container]++
		p.hist["mmut:"+c.mut]++
		p.hist["moutcome:"+o.Class]++
		if c.mut != "none" {
			p.hist["mtable:"+baseTag(in.Table)]++
		}
	} else {
		p.hist["container:"+j.fi.container]++
		p.hist["mut:"+c.mut]++
		p.hist["outcome:"+o.Class]++
	}
	tab := in.Table
	if j.pass == "mut" || j.pass == "synth" {
		tab = ""
	}
	if k := strings.IndexAny(tab, ".<"); k > 0 && !strings.HasPrefix(tab, "dir:") {
		tab = tab[:k]
	}
	if tab != "" {
		p.hist["table:"+tab]++
	}
	if o.Kind != "" {
		p.hist["fail:"+o.Kind]++
		rank := map[string]int{"set16": 0, "set32": 0, "none": 0, "trunc": 1, "swap": 2, "rand": 3, "mtrunc": 4, "moffs": 4, "mflip": 4, "mdir": 5}[c.mut]*1000 + len(c.writes)*100
		if c.syn != nil {
			rank = 6000 + c.syn.size()/16 // the smallest tables first
			if i := strings.Index(o.Fail, " [query "); i >= 0 {
				in.Query = strings.TrimSuffix(o.Fail[i+8:], "]")
			}
		}
		f := failure{Fail: o.Fail, Kind: o.Kind, Input: in, rank: rank}
		l := append(p.fails[o.Kind], f)
		sort.SliceStable(l, func(a, b int) bool {
			if l[a].rank != l[b].rank {
				return l[a].rank < l[b].rank
			}
			return len(l[a].Input.Font) < len(l[b].Input.Font)
		})
		if len(l) > 3 {
			l = l[:3]
		}
		p.fails[o.Kind] = l
	}
}

// runJob runs the cases of the job in child processes, restarting after the case that killed a child.
func (p *parent) runJob(j *job) {
	start := j.start
	for start < j.end && !p.stop.Load() {
		cmd := exec.Command(p.self, "-child", "-tier", p.tc.name, "-seed", strconv.FormatInt(p.seed, 10), "-root", p.root,
			"-font", j.fi.rel, "-start", strconv.Itoa(start), "-end", strconv.Itoa(j.end), "-pass", j.pass, "-mper", strconv.Itoa(mperOverride))
		cmd.Env = append(os.Environ(), "GOTRACEBACK=single")
		stdout, err := cmd.StdoutPipe()
		if err != nil {
			fatal("pipe: %v", err)
		}
		var stderr tailBuffer
		cmd.Stderr = &stderr
		if err := cmd.Start(); err != nil {
			fatal("cannot start the child process: %v", err)
		}
		next := start
		var last atomic.Int64
		last.Store(time.Now().UnixNano())
		killed := make(chan struct{})
		go func() { // the watchdog of the watchdog
			for {
				select {
				case <-killed:
					return
				case <-time.After(time.Second):
					if time.Duration(time.Now().UnixNano()-last.Load()) > p.tc.hang+15*time.Second {
						cmd.Process.Kill()
						return
					}
				}
			}
		}()
		sc := bufio.NewScanner(stdout)
		sc.Buffer(make([]byte, 1<<20), 1<<24)
		hung := false
		for sc.Scan() {
			line := sc.Text()
			if !strings.HasPrefix(line, "R ") {
				continue
			}
			parts := strings.SplitN(line, " ", 3)
			i, err := strconv.Atoi(parts[1])
			if err != nil || len(parts) < 3 || i < start || i >= j.end {
				continue
			}
			var o outcome
			if json.Unmarshal([]byte(parts[2]), &o) != nil {
				continue
			}
			last.Store(time.Now().UnixNano())
			p.record(j, i, o)
			next = i + 1
			if o.Class == "hang" || o.Class == "alloc" {
				hung = true
			}
		}
		err = cmd.Wait()
		close(killed)
		if err == nil || hung {
			start = next
			if err == nil && next < j.end {
				fatal("child exited early without error at case %d of %s", next, j.fi.rel)
			}
			continue
		}
		if ee, ok := err.(*exec.ExitError); ok && ee.ExitCode() == 4 {
			fatal("child failed: %s", stderr.String())
		}
		// the child died on case `next`
		if next >= j.end {
			break
		}
		msg := stderr.String()
		what := "fatal: child process died: " + err.Error()
		for _, l := range strings.Split(msg, "\n") {
			if strings.HasPrefix(l, "fatal error:") || strings.HasPrefix(l, "runtime: out of memory") || strings.HasPrefix(l, "panic:") {
				what = "fatal: " + strings.TrimSpace(strings.TrimPrefix(l, "fatal error:"))
				break
			}
		}
		site := siteFromTrace(msg)
		if strings.Contains(what, "out of memory") || strings.Contains(what, "cannot allocate") {
			// only the first goroutine trace: the one that failed to allocate
			first := msg
			if i := strings.Index(first, "\ngoroutine "); i >= 0 {
				if j := strings.Index(first[i+1:], "\n\n"); j >= 0 {
					first = first[i : i+1+j]
				}
			}
			site = entrySite(libFrames(first))
		}
		if strings.Contains(what, "stack overflow") {
			site = stackOverflowSite(msg)
		}
		if strings.Contains(err.Error(), "killed") && msg == "" {
			what, site = "hang: child killed by the parent (no progress)", "unknown"
		}
		p.record(j, next, outcome{Class: "fatal", Fail: what + " in " + site, Kind: "fatal:" + site})
		start = next + 1
	}
}

type tailBuffer struct {
	mu  sync.Mutex
	buf []byte
}

func (t *tailBuffer) Write(b []byte) (int, error) {
	t.mu.Lock()
	defer t.mu.Unlock()
	if len(t.buf) < 256<<10 { // keep the head: the first frames are the interesting ones
		t.buf = append(t.buf, b...)
	}
	return len(b), nil
}
func (t *tailBuffer) String() string { t.mu.Lock(); defer t.mu.Unlock(); return string(t.buf) }

func fatal(format string, a ...interface{}) {
	fmt.Fprintf(os.Stderr, "c09sweep: "+format+"\n", a...)
	os.Exit(2)
}

func utilsRoot() string {
	if d := os.Getenv("C09_UTILS_DIR"); d != "" {
		return d
	}
	out, err := exec.Command("go", "env", "GOMODCACHE").Output()
	cache := strings.TrimSpace(string(out))
	if err != nil || cache == "" {
		home, _ := os.UserHomeDir()
		cache = filepath.Join(home, "go", "pkg", "mod")
	}
	m, _ := filepath.Glob(filepath.Join(cache, "github.com", "go-text", "typesetting-utils@*"))
	if len(m) == 0 {
		fatal("typesetting-utils not found in the module cache %s", cache)
	}
	sort.Strings(m)
	return m[len(m)-1]
}

// always part of the corpus (containers)
var pinned = map[string][]string{
	"quick": {
		"harfbuzz/harfbuzz_reference/in-house/fonts/TTC.ttc",
		"harfbuzz/harfbuzz_reference/in-house/fonts/DFONT.dfont",
		"opentype/common/open-sans-v15-latin-regular.woff",
	},
	"thorough": {
		"harfbuzz/harfbuzz_reference/in-house/fonts/TTC.ttc",
		"harfbuzz/harfbuzz_reference/in-house/fonts/DFONT.dfont",
		"opentype/common/open-sans-v15-latin-regular.woff",
		"opentype/toys/3cmaps.ttc",
		"opentype/collections/Gacha_9.dfont",
		"opentype/collections/Courier.dfont",
	},
}

// features the selection tries to cover first (in this order), then everything else
var wantedFeats = []string{"t:glyf", "t:CFF ", "t:gvar", "t:HVAR", "t:avar", "t:CFF2", "t:EBLC", "t:CBLC", "t:sbix", "t:SVG ", "t:COLR",
	"t:morx", "t:kerx", "t:kern", "t:vmtx", "t:GSUB", "t:GPOS", "t:GDEF", "t:MVAR", "t:VVAR", "t:VORG", "t:trak", "t:ankr", "t:feat", "t:bloc",
	"cmap:f0", "cmap:f2", "cmap:f4", "cmap:f6", "cmap:f10", "cmap:f12", "cmap:f13", "cmap:f14"}

func listCorpus(root string) []string {
	var all []string
	filepath.Walk(root, func(path string, info os.FileInfo, err error) error {
		if err != nil || info.IsDir() {
			return nil
		}
		switch strings.ToLower(filepath.Ext(path)) {
		case ".ttf", ".otf", ".ttc", ".otc", ".woff", ".dfont", ".otb":
			rel, _ := filepath.Rel(root, path)
			all = append(all, filepath.ToSlash(rel))
		}
		return nil
	})
	sort.Strings(all)
	return all
}

// selectFonts: pinned containers, then a greedy cover of the table / cmap format features by the smallest fonts.
func selectFonts(root string, tc tierCfg, all []string) []*fontInfo {
	var sel []*fontInfo
	chosen := map[string]bool{}
	cover := map[string]int{}
	content := map[uint64]bool{} // the corpus has the same file under several names
	add := func(fi *fontInfo) {
		h := fnv.New64a()
		h.Write(fi.data)
		chosen[fi.rel] = true
		if content[h.Sum64()] {
			return
		}
		content[h.Sum64()] = true
		sel = append(sel, fi)
		for _, f := range fi.feats {
			cover[f]++
		}
	}
	for _, rel := range pinned[tc.name] {
		if fi, err := loadFontInfo(root, rel); err == nil {
			add(fi)
		}
	}
	type cand struct {
		rel  string
		size int64
	}
	var cands []cand
	for _, rel := range all {
		st, err := os.Stat(filepath.Join(root, filepath.FromSlash(rel)))
		if err != nil || st.Size() > int64(tc.maxSize) || st.Size() < 512 || chosen[rel] {
			continue
		}
		cands = append(cands, cand{rel, st.Size()})
	}
	sort.Slice(cands, func(i, j int) bool {
		if cands[i].size != cands[j].size {
			return cands[i].size < cands[j].size
		}
		return cands[i].rel < cands[j].rel
	})
	infos := make([]*fontInfo, len(cands))
	for i, c := range cands {
		fi, err := loadFontInfo(root, c.rel)
		if err != nil || fi.container != "sfnt" || fi.table("cmap") == nil || fi.table("head") == nil || fi.table("maxp") == nil {
			continue
		}
		infos[i] = fi
	}
	want := tc.nFonts + len(pinned[tc.name])
	// first the wanted features in order, then rounds over all features
	for _, w := range wantedFeats {
		if len(sel) >= want {
			break
		}
		if cover[w] > 0 {
			continue
		}
		for _, fi := range infos {
			if fi == nil || chosen[fi.rel] {
				continue
			}
			has := false
			for _, f := range fi.feats {
				if f == w {
					has = true
				}
			}
			if has {
				add(fi)
				break
			}
		}
	}
	for round := 1; round <= 6 && len(sel) < want; round++ {
		for _, fi := range infos {
			if len(sel) >= want {
				break
			}
			if fi == nil || chosen[fi.rel] {
				continue
			}
			for _, f := range fi.feats {
				if cover[f] < round {
					add(fi)
					break
				}
			}
		}
	}
	return sel
}

func main() {
	var (
		tierName = flag.String("tier", "quick", "quick or thorough")
		seed     = flag.Int64("seed", 1, "seed of the random mutation stream")
		replay   = flag.String("replay", "", "JSON input of one case to re-run")
		dump     = flag.String("dump", "", "with -replay: write the mutated bytes to this file")
		child    = flag.Bool("child", false, "internal: run cases [start,end) of -font")
		root     = flag.String("root", "", "typesetting-utils directory (default: from the module cache)")
		fontRel  = flag.String("font", "", "internal / -list: font path relative to the utils module")
		start    = flag.Int("start", 0, "internal")
		end      = flag.Int("end", 0, "internal")
		jobs     = flag.Int("jobs", 4, "parallel child processes")
		list     = flag.Bool("list", false, "print the selected fonts and their number of cases, then exit")
		budget   = flag.Duration("budget", 0, "wall clock budget of the field pass (default: per tier)")
		passF    = flag.String("pass", "", "passes to run: field, mut (default: both); internal with -child")
		mbudget  = flag.Duration("mbudget", 0, "wall clock budget of the mutation pass (default: per tier)")
		mper     = flag.Int("mper", 0, "mutants per font of the mutation pass (default: per tier; NOT passed to -replay)")
		sbudget  = flag.Duration("sbudget", 0, "wall clock budget of the synthesis pass (default: per tier)")
		skind    = flag.String("skind", "", "synthesis pass: only this table kind (e.g. kern, CFF)")
		slist    = flag.Bool("slist", false, "synthesis pass: print the kinds, formats and case counts, then exit")
		sparse   = flag.String("sparse", "", "synthesis pass, debugging a builder: kind.format whose base tables are given to the table parser; prints the errors")
	)
	flag.Parse()
	mperOverride = *mper
	tc := tier(*tierName)
	if *budget > 0 {
		tc.budget = *budget
	}
	if *root == "" {
		*root = utilsRoot()
	}
	if *child {
		childMain(*root, *fontRel, tc, *seed, *start, *end, *passF)
		return
	}
	if *replay != "" {
		replayMain(*root, *replay, tc, *dump)
		return
	}

	t0 := time.Now()
	all := listCorpus(*root)
	if len(all) == 0 {
		fatal("no font found under %s", *root)
	}
	fonts := selectFonts(*root, tc, all)
	if *fontRel != "" {
		fi, err := loadFontInfo(*root, *fontRel)
		if err != nil {
			fatal("%v", err)
		}
		fonts = []*fontInfo{fi}
	}
	self, err := os.Executable()
	if err != nil {
		fatal("os.Executable: %v", err)
	}
	p := &parent{root: *root, tc: tc, seed: *seed, self: self, hist: map[string]int{}, fails: map[string][]failure{}}

	if *list {
		total := 0
		for _, fi := range fonts {
			fi.addBodyRegions(tc)
			cases, _ := fi.enumerate(tc, *seed)
			total += len(cases)
			fmt.Printf("%8d bytes %6d cases %-6s %s %v\n", len(fi.data), len(cases), fi.container, fi.rel, fi.feats)
		}
		fmt.Println("total", total)
		return
	}

	if *slist {
		listSynth(*root, synTierOf(tc.name), *seed)
		return
	}
	if *sparse != "" {
		parseSynth(*root, *sparse, *seed)
		return
	}
	runField := *passF == "" || *passF == "field"
	runMut := *passF == "" || *passF == "mut"
	runSyn := *passF == "" || *passF == "synth"
	pool := func(budget time.Duration) (chan *job, func()) {
		jobc := make(chan *job)
		var wg sync.WaitGroup
		for w := 0; w < *jobs; w++ {
			wg.Add(1)
			go func() {
				defer wg.Done()
				for j := range jobc {
					p.runJob(j)
				}
			}()
		}
		p.stop.Store(false)
		done := make(chan struct{})
		go func() {
			select {
			case <-time.After(budget):
				p.stop.Store(true)
			case <-done:
			}
		}()
		return jobc, func() { close(jobc); wg.Wait(); close(done) }
	}
	var samples []input
	identical, planned := 0, 0
	truncated := false
	jobc, wait := pool(tc.budget)
	if !runField {
		fonts = nil
	}
	for fiIdx, fi := range fonts {
		fi.addBodyRegions(tc)
		cases, ident := fi.enumerate(tc, *seed)
		identical += ident
		planned += len(cases)
		if fiIdx == 0 || fiIdx == len(fonts)/2 || fiIdx == len(fonts)-1 {
			if len(samples) < 3 {
				samples = append(samples, fi.toInput(&cases[len(cases)/3]))
			}
		}
		for s := 0; s < len(cases); s += tc.chunk {
			e := s + tc.chunk
			if e > len(cases) {
				e = len(cases)
			}
			if p.stop.Load() {
				p.mu.Lock()
				p.hist["skipped:budget"] += e - s
				p.mu.Unlock()
				continue
			}
			jobc <- &job{fi: fi, cases: cases, start: s, end: e}
		}
	}
	if tc.origCorpus && !p.stop.Load() && *fontRel == "" && runField {
		// every corpus font, unmutated
		chosen := map[string]bool{}
		for _, fi := range fonts {
			chosen[fi.rel] = true
		}
		for _, rel := range all {
			if chosen[rel] || p.stop.Load() {
				continue
			}
			fi, err := loadFontInfo(*root, rel)
			if err != nil || len(fi.data) > 24<<20 {
				continue
			}
			fi.data = nil
			jobc <- &job{fi: fi, cases: []mcase{{mut: "none", region: -1, trunc: -1}}, start: 0, end: 1}
			planned++
		}
	}
	wait()
	truncated = p.stop.Load() && p.hist["skipped:budget"] > 0
	fieldSeconds := int(time.Since(t0).Seconds())

	// the whole-pipeline mutation pass over every corpus font (mutate.go)
	mutStats := map[string]interface{}{}
	if runMut {
		t1 := time.Now()
		mt := mutTierOf(tc.name)
		if *mbudget > 0 {
			mt.budget = *mbudget
		}
		if *mper > 0 {
			mt.perFont, mt.perBig = *mper, *mper
		}
		var mfonts []*fontInfo
		if *fontRel != "" {
			fi, err := loadFontInfo(*root, *fontRel)
			if err != nil {
				fatal("%v", err)
			}
			mfonts = []*fontInfo{fi}
		} else {
			mfonts = mutCorpus(*root, all, mt)
		}
		jobc, wait := pool(mt.budget)
		mplanned, mskipped := 0, 0
		for k, fi := range mfonts {
			cases := fi.enumerateMut(mt, *seed)
			mplanned += len(cases)
			if (k == 0 || k == len(mfonts)/2 || k == len(mfonts)-1) && len(cases) > 1 && len(samples) < 6 {
				samples = append(samples, fi.toInput(&cases[1+len(cases)/3]))
			}
			fi.data = nil
			for s := 0; s < len(cases); s += mt.chunk {
				e := s + mt.chunk
				if e > len(cases) {
					e = len(cases)
				}
				if p.stop.Load() {
					mskipped += e - s
					continue
				}
				jobc <- &job{fi: fi, cases: cases, start: s, end: e, pass: "mut"}
			}
		}
		wait()
		planned += mplanned
		if mskipped > 0 {
			p.hist["mskipped:budget"] = mskipped
			truncated = true
		}
		mutStats = map[string]interface{}{"fonts": len(mfonts), "planned": mplanned, "evaluations": p.mutEvals, "skipped_by_budget": mskipped,
			"mutants_per_font": mt.perFont, "seconds": int(time.Since(t1).Seconds())}
	}

	// the structure-aware table synthesis pass (synth.go)
	synStats := map[string]interface{}{}
	if runSyn {
		st := synTierOf(tc.name)
		if *sbudget > 0 {
			st.budget = *sbudget
		}
		jobc, wait := pool(st.budget)
		var n int
		synStats, n = p.runSynth(*root, st, *skind, jobc, wait, &samples)
		planned += n
		if synStats["skipped_by_budget"].(int) > 0 {
			truncated = true
		}
	}

	out := bufio.NewWriter(os.Stdout)
	enc := json.NewEncoder(out)
	kinds := make([]string, 0, len(p.fails))
	for k := range p.fails {
		kinds = append(kinds, k)
	}
	sort.Strings(kinds)
	for _, k := range kinds {
		for _, f := range p.fails[k] {
			enc.Encode(f)
		}
	}
	p.hist["skipped:identical"] = identical
	stats := map[string]interface{}{
		"evaluations":         p.evals,
		"distinct_nontrivial": p.evals - p.hist["mut:none"],
		"planned":             planned,
		"fonts":               len(fonts),
		"samples":             samples,
		"histogram":           p.hist,
		"seconds":             int(time.Since(t0).Seconds()),
		"truncated_by_budget": truncated,
		"field_pass_seconds":  fieldSeconds,
		"mutation_pass":       mutStats,
		"synthesis_pass":      synStats,
	}
	enc.Encode(map[string]interface{}{"stats": stats})
	out.Flush()
	if p.evals == 0 {
		fatal("no case was evaluated")
	}
}

func replayMain(root, js string, tc tierCfg, dump string) {
	var in input
	dec := json.NewDecoder(strings.NewReader(js))
	if err := dec.Decode(&in); err != nil {
		fatal("bad -replay input: %v", err)
	}
	fi, err := loadFontInfo(root, in.Font)
	if err != nil {
		fatal("%v", err)
	}
	b := in.apply(fi.data)
	passMut = in.Pass == "mut"
	if in.Pass == "synth" {
		passSynth = true
		b = synCaseOfInput(&in).bytes(root)
		orig := fi.data
		if fi, err = newFontInfo(in.Font, b); err != nil {
			fi = &fontInfo{rel: in.Font, data: b}
		}
		fi.data = orig // for the "changed" flag below
	}
	if dump != "" {
		if err := os.WriteFile(dump, b, 0o644); err != nil {
			fatal("%v", err)
		}
	}
	debug.SetMaxStack(64 << 20)
	limitAddressSpace()
	fmt.Printf("{\"begin\": %q, \"bytes\": %d, \"changed\": %v}\n", in.Font, len(b), !bytes.Equal(b, fi.data))
	go func() {
		for t0 := time.Now(); time.Since(t0) < tc.hang; time.Sleep(200 * time.Millisecond) {
			if live := liveHeap(); live > maxLiveHeap {
				fmt.Printf("{\"fail\": \"alloc: %d bytes of live heap after %v\", \"kind\": \"alloc:%s\"}\n", live, time.Since(t0), runningSite())
				os.Exit(3)
			}
		}
		fmt.Printf("{\"fail\": \"hang: still running after %v\", \"kind\": \"hang:%s\"}\n", tc.hang, runningSite())
		os.Exit(3)
	}()
	o := runCase(b, fi, tc, true)
	if o.Kind == "alloc" {
		o.Kind = "alloc:" + allocSite(b, fi, tc)
	}
	if o.Kind == "slow" {
		o.Kind = "slow:" + slowSite(b, fi, tc)
	}
	stack := o.Stack
	o.Stack = ""
	js2, _ := json.Marshal(o)
	fmt.Println(string(js2))
	if stack != "" {
		fmt.Fprintln(os.Stderr, stack)
	}
	_ = io.Discard
}
