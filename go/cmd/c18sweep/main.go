// Command c18sweep is the oracle sweep for the statement of C18 on real shaping: "glyphs not flagged unsafe-to-break are
// safe cut points".  OpenType corpus fonts without AAT substitution (no morx table) x generated texts per script x
// directions x feature sets x cluster levels are shaped as a whole with harfbuzz.Buffer; then, following
// verifyUnsafeToBreak of harfbuzz/buffer_verify_test.go (a port of hb-buffer-verify.cc), the text is chopped at every
// cluster boundary whose adjacent glyph is not flagged GlyphUnsafeToBreak, each fragment is shaped on its own with the
// neighbouring text as pre-/post-context (Bot/Eot cleared when the fragment is not at the text start/end), the fragments
// are concatenated and compared with the whole-text result (glyph ids, clusters, advances, offsets; glyph flags are not
// compared, like upstream).  In addition every safe boundary is cut on its own (two fragments): the literal statement.
// The whole-text result is also checked for monotone clusters and for glyph flags that are uniform within a cluster.
//
// It is exploration in support of the proof (the engine is not modelled).  Output: JSON lines
// {"fail":..,"kind":..,"input":..} and one final {"stats":{...}}.  Deterministic for a given (tier, seed).
package main

import (
	"bytes"
	"crypto/sha256"
	"embed"
	"encoding/json"
	"flag"
	"fmt"
	"io/fs"
	"math/rand"
	"os"
	"path"
	"runtime"
	"runtime/debug"
	"sort"
	"strconv"
	"strings"
	"sync"
	"unicode"

	hbtd "github.com/go-text/typesetting-utils/harfbuzz"
	ottd "github.com/go-text/typesetting-utils/opentype"
	"github.com/go-text/typesetting/font"
	ot "github.com/go-text/typesetting/font/opentype"
	"github.com/go-text/typesetting/font/opentype/tables"
	"github.com/go-text/typesetting/harfbuzz"
	"github.com/go-text/typesetting/language"
)

// ---------------------------------------------------------------------------------------------------------------------
// inputs

type input struct {
	Font     string   `json:"font"`
	Text     []rune   `json:"text"`
	Script   string   `json:"script"`
	Dir      string   `json:"dir"` // ltr rtl ttb btt
	Features []string `json:"features"`
	Level    int      `json:"level"` // 0 MonotoneGraphemes, 1 MonotoneCharacters
	// Cut < 0: every safe boundary at once (the upstream method); otherwise the text index of the single cut.
	Cut int `json:"cut"`
	// Coords: normalized variation coordinates (2.14) of the instance the face is set to; nil = default instance
	Coords []int16 `json:"coords,omitempty"`
}

// instances returns up to three distinct non-default instances of a variable face, as normalized coordinates
func instances(face *font.Face) [][]int16 {
	var out [][]int16
	seen := map[string]bool{}
	for _, vs := range [][]font.Variation{
		{{Tag: ot.MustNewTag("wght"), Value: 900}, {Tag: ot.MustNewTag("wdth"), Value: 125}},
		{{Tag: ot.MustNewTag("wght"), Value: 100}, {Tag: ot.MustNewTag("wdth"), Value: 60}, {Tag: ot.MustNewTag("opsz"), Value: 8}},
		{{Tag: ot.MustNewTag("wght"), Value: 650}, {Tag: ot.MustNewTag("slnt"), Value: -10}, {Tag: ot.MustNewTag("ital"), Value: 1}},
	} {
		face.SetVariations(vs)
		var cs []int16
		nz := false
		for _, c := range face.Coords() {
			cs = append(cs, int16(c))
			nz = nz || c != 0
		}
		face.SetCoords(nil)
		if k := fmt.Sprint(cs); nz && !seen[k] {
			seen[k] = true
			out = append(out, cs)
		}
	}
	return out
}

func setInstance(f *harfbuzz.Font, coords []int16) {
	if coords == nil {
		f.Face().SetCoords(nil)
		return
	}
	cs := make([]tables.Coord, len(coords))
	for i, c := range coords {
		cs[i] = tables.Coord(c)
	}
	f.Face().SetCoords(cs)
}

func (in input) uplus() string {
	var s []string
	for _, r := range in.Text {
		s = append(s, fmt.Sprintf("U+%04X", r))
	}
	return strings.Join(s, ",")
}

type fontRef struct {
	fs   *embed.FS
	name string
	path string
}

func (r fontRef) id() string { return r.name + ":" + r.path }

func listFonts() []fontRef {
	var out []fontRef
	add := func(f *embed.FS, name string) {
		fs.WalkDir(*f, ".", func(p string, d fs.DirEntry, err error) error {
			if err != nil || d.IsDir() {
				return nil
			}
			l := strings.ToLower(p)
			if strings.HasSuffix(l, ".ttf") || strings.HasSuffix(l, ".otf") {
				out = append(out, fontRef{f, name, p})
			}
			return nil
		})
	}
	add(&ottd.Files, "opentype")
	add(&hbtd.Files, "harfbuzz")
	sort.Slice(out, func(i, j int) bool { return out[i].id() < out[j].id() })
	return out
}

func loadFace(ref fontRef) (face *font.Face) {
	b, err := ref.fs.ReadFile(ref.path)
	if err != nil {
		return nil
	}
	defer func() {
		if recover() != nil {
			face = nil
		}
	}()
	face, err = font.ParseTTF(bytes.NewReader(b))
	if err != nil {
		return nil
	}
	return face
}

// corpusTexts maps "harfbuzz:<font path>" to the texts of the upstream shaping tests that use the font.
func corpusTexts() map[string][][]rune {
	out := map[string][][]rune{}
	fs.WalkDir(hbtd.Files, "harfbuzz_reference", func(p string, d fs.DirEntry, err error) error {
		if err != nil || d.IsDir() || !strings.HasSuffix(p, ".tests") {
			return nil
		}
		b, err := hbtd.Files.ReadFile(p)
		if err != nil {
			return nil
		}
		for _, line := range strings.Split(string(b), "\n") {
			line = strings.TrimSpace(line)
			if line == "" || strings.HasPrefix(line, "#") {
				continue
			}
			parts := strings.Split(line, ";")
			if len(parts) < 4 {
				continue
			}
			fp := path.Join(path.Dir(p), parts[0])
			var text []rune
			ok := true
			for _, u := range strings.Split(parts[2], ",") {
				u = strings.TrimSpace(u)
				if !strings.HasPrefix(u, "U+") {
					ok = false
					break
				}
				v, err := strconv.ParseUint(u[2:], 16, 32)
				if err != nil || v > 0x10FFFF {
					ok = false
					break
				}
				text = append(text, rune(v))
			}
			if ok && len(text) > 0 {
				out["harfbuzz:"+fp] = append(out["harfbuzz:"+fp], text)
			}
		}
		return nil
	})
	return out
}

// ---------------------------------------------------------------------------------------------------------------------
// text generators

type scriptDef struct {
	tag     string
	letters []rune   // base letters (coverage is probed on these)
	marks   []rune   // combining marks, signs, joiners of the script
	words   [][]rune // sequences that are candidates for ligatures / kerning / reordering
}

func rs(s string) []rune { return []rune(s) }

var scripts = []scriptDef{
	{"Latn", rs("abfilotyAVTWLYP.,1-"), []rune{0x0301, 0x0323, 0x0308, 0x0327},
		[][]rune{rs("ffi"), rs("fl"), rs("AV"), rs("To"), rs("Wa"), rs("fi"), rs("ff"), rs("ffl"), rs("Ty"), rs("LT"), rs("VA"), rs("P."), rs("Yo"), rs("ft"),
			{'f', 0x0301, 'i'}, {'A', 0x0323, 'V'}, rs("1/2"), rs("T.")}},
	{"Arab", []rune{0x0627, 0x0644, 0x0645, 0x0628, 0x064A, 0x0647, 0x06CC, 0x0631, 0x0622, 0x0646, 0x0643, 0x062D, 0x0633, 0x0639, 0x0648, 0x062F, 0x0661, 0x0640},
		[]rune{0x064E, 0x0651, 0x0650, 0x064F, 0x0652, 0x0654, 0x0670, 0x064B},
		[][]rune{{0x0644, 0x0627}, {0x0644, 0x064E, 0x0627}, {0x0644, 0x0622}, {0x0627, 0x0644, 0x0644, 0x0647}, {0x0644, 0x0644, 0x0647}, {0x0628, 0x0651, 0x064E}, {0x0645, 0x062D, 0x0645, 0x062F},
			{0x0644, 0x200D, 0x0627}, {0x0644, 0x200C, 0x0627}, {0x0628, 0x0640, 0x0628}, {0x0633, 0x0644, 0x0627, 0x0645}, {0x0644, 0x0645, 0x062D}, {0x0641, 0x064A}}},
	{"Deva", []rune{0x0915, 0x0937, 0x0930, 0x0924, 0x091C, 0x091E, 0x0926, 0x0927, 0x092F, 0x0939, 0x092E, 0x0936, 0x0905, 0x0907},
		[]rune{0x094D, 0x093F, 0x0902, 0x093C, 0x0947, 0x093E, 0x0941, 0x0940, 0x0901, 0x0903, 0x0948, 0x094B},
		[][]rune{{0x0915, 0x094D, 0x0937}, {0x0930, 0x094D, 0x0915}, {0x0915, 0x094D, 0x0930}, {0x0915, 0x093F}, {0x0930, 0x094D, 0x0915, 0x093F}, {0x091C, 0x094D, 0x091E}, {0x0926, 0x094D, 0x0927},
			{0x0915, 0x094D, 0x200D, 0x0937}, {0x0915, 0x094D, 0x200C, 0x0937}, {0x0924, 0x094D, 0x0930, 0x093F}, {0x0930, 0x094D, 0x200D, 0x092F}, {0x0915, 0x093C, 0x094D, 0x0924}, {0x0936, 0x094D, 0x0930, 0x0940}}},
	{"Beng", []rune{0x0995, 0x09B7, 0x09B0, 0x09A4, 0x09AF, 0x09A8, 0x09AE, 0x09B8, 0x09A6, 0x09AC, 0x0985},
		[]rune{0x09CD, 0x09BF, 0x09C7, 0x09BE, 0x09CB, 0x09CC, 0x0981, 0x09BC, 0x09C1, 0x0982, 0x09C0},
		[][]rune{{0x0995, 0x09CD, 0x09B7}, {0x09B0, 0x09CD, 0x0995}, {0x0995, 0x09CD, 0x09B0}, {0x0995, 0x09BF}, {0x0995, 0x09CB}, {0x09B0, 0x09CD, 0x0995, 0x09CB}, {0x0995, 0x09CD, 0x09AF}, {0x09A4, 0x09CD, 0x200D},
			{0x09A8, 0x09CD, 0x09A4, 0x09CD, 0x09B0}, {0x0995, 0x09C7, 0x09BE}, {0x09B0, 0x09CD, 0x200D, 0x09AF}, {0x09B8, 0x09CD, 0x09A4, 0x09CC}}},
	{"Hebr", []rune{0x05D0, 0x05D1, 0x05DC, 0x05E9, 0x05D5, 0x05D9, 0x05DE, 0x05DB, 0x05E4, 0x05EA},
		[]rune{0x05B8, 0x05BC, 0x05C1, 0x05B7, 0x05B0, 0x05B4, 0x05B9, 0x05C2, 0x05BF, 0x0591},
		[][]rune{{0x05E9, 0x05C1, 0x05BC}, {0x05D0, 0x05B8}, {0x05D5, 0x05BC}, {0x05D1, 0x05BC, 0x05B0}, {0x05D0, 0x05DC}, {0x05DC, 0x05B9}, {0x05D9, 0x05B4}, {0x05E4, 0x05BC}, {0x05DB, 0x05BC, 0x05B8}}},
	{"Thai", []rune{0x0E01, 0x0E19, 0x0E1B, 0x0E40, 0x0E21, 0x0E23, 0x0E2D, 0x0E0D, 0x0E10, 0x0E1F, 0x0E42},
		[]rune{0x0E33, 0x0E48, 0x0E34, 0x0E49, 0x0E32, 0x0E31, 0x0E39, 0x0E38, 0x0E35, 0x0E47, 0x0E4C, 0x0E4D},
		[][]rune{{0x0E01, 0x0E33}, {0x0E01, 0x0E48, 0x0E33}, {0x0E1B, 0x0E34, 0x0E48}, {0x0E1B, 0x0E49}, {0x0E19, 0x0E49, 0x0E33}, {0x0E0D, 0x0E39}, {0x0E10, 0x0E38}, {0x0E1F, 0x0E35, 0x0E49}, {0x0E40, 0x0E01}}},
	{"Cyrl", rs("абвгдеийотуАГУТРЛ.,"), []rune{0x0301, 0x0306, 0x0308},
		[][]rune{rs("ГА"), rs("УА"), rs("Та"), rs("Го"), rs("Р."), rs("ТА"), {0x0438, 0x0306}, {0x0435, 0x0308}, {0x0430, 0x0301}}},
	{"Grek", rs("αιουετσςΑΥΤΡΛ.,"), []rune{0x0301, 0x0308, 0x0342, 0x0345, 0x0313, 0x0314, 0x0300},
		[][]rune{rs("ΑΥ"), rs("ΥΑ"), rs("Τα"), rs("Ρ."), {0x03B1, 0x0301}, {0x03B9, 0x0308, 0x0301}, {0x03B1, 0x0313, 0x0301, 0x0345}, {0x03C5, 0x0308, 0x0342}, {0x0391, 0x0345}}},
}

var joiners = []rune{0x200D, 0x200C, 0x0020, 0x0020, 0x00A0, 0x25CC, 0x034F}

// nativeRTL: is the native horizontal direction of the script right-to-left (the engine's own table, through the hook)?
func nativeRTL(script string) bool {
	sc, err := language.ParseScript(script)
	return err == nil && harfbuzz.VerifHorizontalDirection(sc) == harfbuzz.RightToLeft
}

func scriptTag(s language.Script) string {
	t := []byte(s.String())
	if len(t) == 4 && t[0] >= 'a' && t[0] <= 'z' {
		t[0] -= 32
	}
	return string(t)
}

type alphabet struct {
	script  string
	letters []rune
	marks   []rune
	words   [][]rune
}

// restrict keeps the part of a script definition the font covers; nil when fewer than 3 letters are covered.
func restrict(face *font.Face, d scriptDef) *alphabet {
	has := func(r rune) bool { _, ok := face.NominalGlyph(r); return ok }
	a := &alphabet{script: d.tag}
	for _, r := range d.letters {
		if has(r) {
			a.letters = append(a.letters, r)
		}
	}
	if len(a.letters) < 3 {
		return nil
	}
	for _, r := range d.marks {
		if has(r) {
			a.marks = append(a.marks, r)
		}
	}
words:
	for _, w := range d.words {
		for _, r := range w {
			if r != 0x200D && r != 0x200C && !has(r) {
				continue words
			}
		}
		a.words = append(a.words, w)
	}
	return a
}

func (a *alphabet) gen(r *rand.Rand) []rune {
	n := 2 + r.Intn(10)
	if r.Intn(8) == 0 {
		n = 12 + r.Intn(14)
	}
	var t []rune
	if r.Intn(12) == 0 && len(a.marks) > 0 { // mark first
		t = append(t, a.marks[r.Intn(len(a.marks))])
	}
	for len(t) < n {
		switch k := r.Intn(20); {
		case k < 7 && len(a.words) > 0:
			t = append(t, a.words[r.Intn(len(a.words))]...)
		case k < 11 && len(a.marks) > 0:
			t = append(t, a.marks[r.Intn(len(a.marks))])
		case k < 13:
			t = append(t, joiners[r.Intn(len(joiners))])
		default:
			t = append(t, a.letters[r.Intn(len(a.letters))])
		}
	}
	return t
}

// corpusGen derives texts from the upstream test texts of a font.
type corpusGen struct {
	texts [][]rune
	alpha []rune
}

func newCorpusGen(texts [][]rune) *corpusGen {
	g := &corpusGen{texts: texts}
	seen := map[rune]bool{}
	for _, t := range texts {
		for _, r := range t {
			if !seen[r] {
				seen[r] = true
				g.alpha = append(g.alpha, r)
			}
		}
	}
	sort.Slice(g.alpha, func(i, j int) bool { return g.alpha[i] < g.alpha[j] })
	return g
}

func (g *corpusGen) slice(r *rand.Rand, max int) []rune {
	t := g.texts[r.Intn(len(g.texts))]
	if len(t) <= max && r.Intn(2) == 0 {
		return t
	}
	s := r.Intn(len(t))
	n := 1 + r.Intn(max)
	if s+n > len(t) {
		n = len(t) - s
	}
	return t[s : s+n]
}

func (g *corpusGen) gen(r *rand.Rand) []rune {
	var t []rune
	switch r.Intn(6) {
	case 0:
		t = append(t, g.slice(r, 24)...)
	case 1, 2:
		t = append(t, g.slice(r, 10)...)
		t = append(t, g.slice(r, 10)...)
	case 3:
		t = append(t, g.slice(r, 8)...)
		t = append(t, joiners[r.Intn(len(joiners))])
		t = append(t, g.slice(r, 8)...)
	default:
		n := 2 + r.Intn(10)
		for len(t) < n {
			t = append(t, g.alpha[r.Intn(len(g.alpha))])
		}
	}
	if r.Intn(4) == 0 && len(t) > 1 { // one mutation
		i := r.Intn(len(t))
		switch r.Intn(3) {
		case 0:
			t = append(t[:i:i], append([]rune{joiners[r.Intn(len(joiners))]}, t[i:]...)...)
		case 1:
			j := r.Intn(len(t))
			t[i], t[j] = t[j], t[i]
		default:
			t = append(t[:i:i], t[i+1:]...)
		}
	}
	if len(t) > 32 {
		t = t[:32]
	}
	return t
}

func guessScript(t []rune) string {
	for _, r := range t {
		s := language.LookupScript(r)
		if s.Strong() && s != language.Unknown {
			return scriptTag(s)
		}
	}
	return "Zyyy"
}

// ---------------------------------------------------------------------------------------------------------------------
// shaping and the cut-and-reshape comparison

type glyph struct {
	G       uint32
	Cluster int
	Mask    uint32
	XA, YA  int32
	XO, YO  int32
}

func (g glyph) String() string {
	return fmt.Sprintf("%d=%d+%d,%d@%d,%d#%x", g.G, g.Cluster, g.XA, g.YA, g.XO, g.YO, g.Mask)
}

func showGlyphs(gs []glyph) string {
	var s []string
	for _, g := range gs {
		s = append(s, g.String())
	}
	return "[" + strings.Join(s, "|") + "]"
}

const flagsDefined = uint32(harfbuzz.GlyphUnsafeToBreak | harfbuzz.GlyphUnsafeToConcat | harfbuzz.GlyphSafeToInsertTatweel)

type shapeCtx struct {
	font    *harfbuzz.Font
	props   harfbuzz.SegmentProperties
	feats   []harfbuzz.Feature
	level   harfbuzz.ClusterLevel
	forward bool
	text    []rune
	// reversed: the engine shapes the buffer in reverse logical order (horizontal direction opposite to the native
	// direction of the script, see ensureNativeDirection)
	reversed bool
	// mirror: give the fragments their context mirrored (only used to classify the known finding C18-K1)
	mirror bool
	// frags: the text ranges of the fragments of the last allCuts / singleCut call
	frags [][2]int
	mtext []rune // mirror mode: the text, with the dotted circle of a text-initial mark made explicit
	conts []bool // mirror mode: harfbuzz.VerifContinuations(mtext)
}

type panicErr struct{ site, msg string }

func site() string {
	pcs := make([]uintptr, 40)
	n := runtime.Callers(3, pcs)
	frames := runtime.CallersFrames(pcs[:n])
	for {
		f, more := frames.Next()
		if strings.Contains(f.Function, "go-text/typesetting/") {
			return f.Function[strings.LastIndex(f.Function, "/")+1:]
		}
		if !more {
			return "?"
		}
	}
}

// shape shapes text[s:e] with the rest of the text as context, exactly like a fragment of verifyUnsafeToBreak.
func (c *shapeCtx) shape(s, e int) (out []glyph, perr *panicErr) {
	defer func() {
		if p := recover(); p != nil {
			perr = &panicErr{site(), fmt.Sprint(p)}
			if os.Getenv("C18_STACK") != "" {
				os.Stderr.Write(debug.Stack())
			}
		}
	}()
	buf := harfbuzz.NewBuffer()
	buf.Props = c.props
	buf.ClusterLevel = c.level
	flags := harfbuzz.Bot | harfbuzz.Eot
	if s > 0 {
		flags &^= harfbuzz.Bot
	}
	if e < len(c.text) {
		flags &^= harfbuzz.Eot
	}
	buf.Flags = flags
	shift := 0
	if c.mirror && !c.staysLogical(s, e) {
		// Classification of C18-K1 only: the fragment is shaped the way the engine sees it inside the whole text, i.e. in
		// reverse logical order with the logically FOLLOWING text before it.  The dotted circle that insertDottedCircle
		// puts before a text-initial mark (decided before the reversal, on the logical pre-context) is made explicit,
		// because the exchanged context would suppress it.
		if c.mtext == nil {
			c.mtext = c.text
			if _, has := c.font.Face().NominalGlyph(0x25CC); has && unicode.Is(unicode.M, c.text[0]) {
				c.mtext = append([]rune{0x25CC}, c.text...)
			}
			c.conts = harfbuzz.VerifContinuations(c.mtext)
		}
		shift = len(c.mtext) - len(c.text)
		ms, me := s+shift, e+shift
		if s == 0 {
			ms = 0
		}
		buf.AddRunes(c.mtext, ms, me-ms)
		buf.VerifSetContexts(c.mirroredContexts(ms, me))
	} else {
		buf.AddRunes(c.text, s, e-s)
	}
	buf.Shape(c.font, c.feats)
	out = make([]glyph, len(buf.Info))
	for i, inf := range buf.Info {
		p := buf.Pos[i]
		cl := inf.Cluster
		if shift != 0 && cl > 0 {
			cl -= shift
		}
		out[i] = glyph{uint32(inf.Glyph), cl, uint32(inf.Mask) & flagsDefined, p.XAdvance, p.YAdvance, p.XOffset, p.YOffset}
	}
	return out, nil
}

// mirroredContexts gives the context of text[s:e] as the engine has it around the fragment inside the reversed whole text.
// reverseGraphemes reverses the order of the graphemes and keeps every grapheme in logical order, so the runes before
// the fragment in the buffer are the graphemes that FOLLOW it in the text; pre (nearest first) lists each of them
// backwards, post lists the graphemes that precede the fragment, nearest grapheme first, each in logical order.
// Indices are into c.mtext (the text with the dotted circle made explicit).
func (c *shapeCtx) mirroredContexts(s, e int) (pre, post []rune) {
	t := c.mtext
	N := len(t)
	for i := e; i < N && len(pre) < 5; {
		j := i + 1
		for j < N && c.conts[j] {
			j++
		}
		for k := j - 1; k >= i && len(pre) < 5; k-- {
			pre = append(pre, t[k])
		}
		i = j
	}
	for j := s; j > 0 && len(post) < 5; {
		i := j - 1
		for i > 0 && c.conts[i] {
			i--
		}
		for k := i; k < j && len(post) < 5; k++ {
			post = append(post, t[k])
		}
		j = i
	}
	return pre, post
}

// staysLogical replicates the heuristic of ensureNativeDirection (unicode.go, HarfBuzz issue 3314): a buffer of a
// natively right-to-left script shaped left-to-right is NOT reversed when it holds digits or regional indicators but no
// letter.  The decision is taken per buffer, so a fragment can be treated differently from the whole text.
func (c *shapeCtx) staysLogical(s, e int) bool {
	if !c.reversed || c.props.Direction != harfbuzz.LeftToRight {
		return false
	}
	var number, ri bool
	for _, r := range c.text[s:e] {
		switch {
		case unicode.Is(unicode.Nd, r):
			number = true
		case unicode.IsLetter(r):
			return false
		case 0x1F1E6 <= r && r <= 0x1F1FF:
			ri = true
		}
	}
	return number || ri
}

// classifyReversed narrows the kind of a cut failure in a reversed buffer; redo repeats the same cuts.
func (c *shapeCtx) classifyReversed(kind string, whole []glyph, redo func() ([]glyph, bool)) string {
	if !c.reversed {
		return kind
	}
	c.mirror = true
	rec, ok := redo()
	c.mirror = false
	if ok && diff(rec, whole) == "" {
		return knownNonnative
	}
	for _, f := range c.frags {
		if c.staysLogical(f[0], f[1]) != c.staysLogical(0, len(c.text)) {
			return knownDigits
		}
	}
	return knownReversed
}

// diff compares like bufferDiff(.., positionFuzz 0) without the glyph-flags bit; "" when equal.
func diff(rec, ref []glyph) string {
	if len(rec) != len(ref) {
		return "length"
	}
	var what []string
	add := func(s string) {
		for _, w := range what {
			if w == s {
				return
			}
		}
		what = append(what, s)
	}
	for i := range ref {
		if rec[i].G != ref[i].G {
			add("glyph")
		}
		if rec[i].Cluster != ref[i].Cluster {
			add("cluster")
		}
		if rec[i].XA != ref[i].XA || rec[i].YA != ref[i].YA || rec[i].XO != ref[i].XO || rec[i].YO != ref[i].YO {
			add("position")
		}
	}
	sort.Strings(what)
	return strings.Join(what, "+")
}

type boundary struct {
	end  int // glyph index: the boundary is between glyphs end-1 and end
	safe bool
	text int // text index of the corresponding cut
}

func unsafeBit(g glyph) bool { return g.Mask&uint32(harfbuzz.GlyphUnsafeToBreak) != 0 }

func (c *shapeCtx) boundaries(info []glyph) []boundary {
	var out []boundary
	offset := 1
	if c.forward {
		offset = 0
	}
	for end := 1; end < len(info); end++ {
		if info[end].Cluster == info[end-1].Cluster {
			continue
		}
		b := boundary{end: end, safe: !unsafeBit(info[end-offset])}
		if c.forward {
			b.text = info[end].Cluster
		} else {
			b.text = info[end-1].Cluster
		}
		out = append(out, b)
	}
	return out
}

// allCuts is verifyUnsafeToBreak: returns the reconstruction and the number of interior cuts.
func (c *shapeCtx) allCuts(info []glyph) (rec []glyph, cuts int, msg string, perr *panicErr) {
	n, N := len(info), len(c.text)
	textStart := N
	if c.forward {
		textStart = 0
	}
	textEnd := textStart
	offset := 1
	if c.forward {
		offset = 0
	}
	c.frags = c.frags[:0]
	for end := 1; end < n+1; end++ {
		if end < n && (info[end].Cluster == info[end-1].Cluster || unsafeBit(info[end-offset])) {
			continue
		}
		if end == n {
			if c.forward {
				textEnd = N
			} else {
				textStart = 0
			}
		} else {
			cuts++
			if c.forward {
				cluster := info[end].Cluster
				for textEnd < N && textEnd < cluster { // the cluster of text[i] is i
					textEnd++
				}
			} else {
				cluster := info[end-1].Cluster
				for textStart != 0 && textStart-1 >= cluster {
					textStart--
				}
			}
		}
		if !(textStart < textEnd) {
			return nil, cuts, fmt.Sprintf("unexpected %d >= %d", textStart, textEnd), nil
		}
		c.frags = append(c.frags, [2]int{textStart, textEnd})
		frag, perr := c.shape(textStart, textEnd)
		if perr != nil {
			return nil, cuts, "", perr
		}
		rec = append(rec, frag...)
		if c.forward {
			textStart = textEnd
		} else {
			textEnd = textStart
		}
	}
	return rec, cuts, "", nil
}

func (c *shapeCtx) singleCut(t int) (rec []glyph, perr *panicErr) {
	N := len(c.text)
	c.frags = append(c.frags[:0], [2]int{0, t}, [2]int{t, N})
	a, perr := c.shape(0, t)
	if perr != nil {
		return nil, perr
	}
	b, perr := c.shape(t, N)
	if perr != nil {
		return nil, perr
	}
	if c.forward {
		return append(a, b...), nil
	}
	return append(b, a...), nil
}

type failure struct {
	kind, what string
	in         input
}

type outcome struct {
	fails        []failure
	glyphs       int
	safe, unsafe int
	cuts         int // interior cuts actually made by the all-cuts run
	singles      int
}

func dirOf(s string) harfbuzz.Direction {
	switch s {
	case "rtl":
		return harfbuzz.RightToLeft
	case "ttb":
		return harfbuzz.TopToBottom
	case "btt":
		return harfbuzz.BottomToTop
	}
	return harfbuzz.LeftToRight
}

func newCtx(f *harfbuzz.Font, in input) (*shapeCtx, error) {
	sc, err := language.ParseScript(in.Script)
	if err != nil {
		return nil, err
	}
	c := &shapeCtx{font: f, text: in.Text, level: harfbuzz.ClusterLevel(in.Level)}
	c.props = harfbuzz.SegmentProperties{Direction: dirOf(in.Dir), Script: sc, Language: language.NewLanguage("en")}
	c.forward = in.Dir == "ltr" || in.Dir == "ttb"
	if nat := harfbuzz.VerifHorizontalDirection(sc); nat != 0 && (in.Dir == "ltr" || in.Dir == "rtl") && nat != c.props.Direction {
		c.reversed = true
	}
	for _, s := range in.Features {
		ft, err := harfbuzz.ParseFeature(s)
		if err != nil {
			return nil, err
		}
		c.feats = append(c.feats, ft)
	}
	return c, nil
}

// evaluate runs the whole statement on one input.  With in.Cut >= 0 only that single cut is tried (replay/minimise).
func evaluate(f *harfbuzz.Font, in input, doSingles bool) (o outcome) {
	fail := func(kind, what string, cut int) {
		in2 := in
		in2.Cut = cut
		o.fails = append(o.fails, failure{kind, what, in2})
	}
	setInstance(f, in.Coords)
	defer setInstance(f, nil)
	c, err := newCtx(f, in)
	if err != nil {
		fail("harness", err.Error(), -1)
		return
	}
	whole, perr := c.shape(0, len(in.Text))
	if perr != nil {
		fail("panic", "whole text: "+perr.site+": "+perr.msg, -1)
		return
	}
	o.glyphs = len(whole)
	// monotone clusters
	for i := 1; i < len(whole); i++ {
		if whole[i-1].Cluster != whole[i].Cluster && (whole[i-1].Cluster < whole[i].Cluster) != c.forward {
			fail("c18:nonmonotone", fmt.Sprintf("cluster at glyph %d is not monotone: %s", i, showGlyphs(whole)), -1)
			return // upstream: the cut test needs monotone clusters
		}
	}
	// flags uniform within a cluster
	for i := 1; i < len(whole); i++ {
		if whole[i-1].Cluster == whole[i].Cluster && whole[i-1].Mask != whole[i].Mask {
			fail("c18:flags-nonuniform", fmt.Sprintf("glyphs %d and %d of cluster %d carry flags %x and %x: %s", i-1, i, whole[i].Cluster,
				whole[i-1].Mask, whole[i].Mask, showGlyphs(whole)), -1)
			break
		}
	}
	bs := c.boundaries(whole)
	for _, b := range bs {
		if b.safe {
			o.safe++
		} else {
			o.unsafe++
		}
	}
	if in.Cut < 0 {
		rec, cuts, msg, perr := c.allCuts(whole)
		o.cuts = cuts
		switch {
		case perr != nil:
			fail("panic", "fragment: "+perr.site+": "+perr.msg, -1)
		case msg != "":
			fail("c18:allcuts:range", msg, -1)
		default:
			if d := diff(rec, whole); d != "" {
				kind := c.classifyReversed("c18:allcuts:"+d, whole, func() ([]glyph, bool) {
					rec2, _, msg2, perr2 := c.allCuts(whole)
					return rec2, perr2 == nil && msg2 == ""
				})
				fail(kind, fmt.Sprintf("cut at every safe boundary (%d cuts): whole %s, reconstruction %s", cuts, showGlyphs(whole), showGlyphs(rec)), -1)
			}
		}
	}
	if !doSingles {
		return
	}
	for _, b := range bs {
		if !b.safe || (in.Cut >= 0 && b.text != in.Cut) {
			continue
		}
		if b.text <= 0 || b.text >= len(in.Text) {
			fail("c18:singlecut:range", fmt.Sprintf("boundary before glyph %d maps to text index %d", b.end, b.text), b.text)
			continue
		}
		o.singles++
		rec, perr := c.singleCut(b.text)
		if perr != nil {
			fail("panic", fmt.Sprintf("cut at %d: %s: %s", b.text, perr.site, perr.msg), b.text)
			continue
		}
		if d := diff(rec, whole); d != "" {
			t := b.text
			kind := c.classifyReversed("c18:singlecut:"+d, whole, func() ([]glyph, bool) {
				rec2, perr2 := c.singleCut(t)
				return rec2, perr2 == nil
			})
			fail(kind, fmt.Sprintf("cut at text index %d (before glyph %d): whole %s, reconstruction %s", b.text, b.end, showGlyphs(whole), showGlyphs(rec)), b.text)
		}
	}
	return
}

// stillFails: does the (possibly shrunk) input still show a failure of the same kind family?
func stillFails(f *harfbuzz.Font, in input, family string) (failure, bool) {
	in.Cut = -1
	o := evaluate(f, in, true)
	var best *failure
	for i := range o.fails {
		fl := &o.fails[i]
		if famOf(fl.kind) != family {
			continue
		}
		if best == nil || (best.in.Cut < 0 && fl.in.Cut >= 0) {
			best = fl
		}
	}
	if best == nil {
		return failure{}, false
	}
	return *best, true
}

func famOf(kind string) string {
	switch {
	case strings.HasPrefix(kind, "c18:allcuts"), strings.HasPrefix(kind, "c18:singlecut"):
		return "cut"
	}
	return kind
}

// minimise shrinks the text (drop one rune at a time, then features) while a failure of the same family remains.
func minimise(f *harfbuzz.Font, fl failure) failure {
	family := famOf(fl.kind)
	cur := fl
	if b, ok := stillFails(f, cur.in, family); ok {
		cur = b
	} else {
		return fl
	}
	for changed := true; changed; {
		changed = false
		for i := 0; i < len(cur.in.Text); i++ {
			t := append(append([]rune{}, cur.in.Text[:i]...), cur.in.Text[i+1:]...)
			in := cur.in
			in.Text = t
			if b, ok := stillFails(f, in, family); ok {
				cur = b
				changed = true
				i--
			}
		}
		for i := 0; i < len(cur.in.Features); i++ {
			in := cur.in
			in.Features = append(append([]string{}, cur.in.Features[:i]...), cur.in.Features[i+1:]...)
			if b, ok := stillFails(f, in, family); ok {
				cur = b
				changed = true
				i--
			}
		}
	}
	return cur
}

// knownNonnative is the kind of the known finding C18-K1 (known_findings.json).  Narrow signature: the requested
// horizontal direction is opposite to the native direction of the script, so that ensureNativeDirection shapes the buffer
// in reverse logical order while the pre-/post-context stay in logical order (applyArabicJoining then reads the
// pre-context before the logically LAST character); AND the same cuts with the two contexts of every fragment exchanged
// reproduce the whole-text result exactly.  Any other cut failure, in the same configuration or not, keeps its c18: kind.
const knownNonnative = "c18:known:nonnative-context"

// knownDigits is the second face of the same finding: the whole text (natively right-to-left script, shaped
// left-to-right, with a letter) is reversed, but one of the fragments holds digits / regional indicators and no letter
// and is therefore left in logical order by the per-buffer heuristic of ensureNativeDirection.
const knownDigits = "c18:known:nonnative-digits"

// knownReversed is the rest of the finding: any other cut failure of a buffer that the engine shapes in reverse logical
// order (horizontal direction opposite to the native direction of the script, staysLogical excepted).  Mechanism seen:
// the syllable shapers (Indic, USE, Thai SARA AM) run on the grapheme-reversed text, so a sign groups with the logically
// FOLLOWING base and a grapheme like <space, matra> is torn apart by the syllable finder; the cluster merges of the
// reordering then split a cluster whose glyphs are no longer adjacent (U+0D46 U+0020 U+0D46 as RTL).  This part of the
// signature is structural (configuration only), not confirmed per case.
const knownReversed = "c18:known:nonnative-reversed"

func classify(fl failure) string { return fl.kind }

// ---------------------------------------------------------------------------------------------------------------------
// the sweep

var featureSets = [][]string{nil, {"-kern"}, {"-liga"}, {"+smcp"}, {"+dlig"}, {"-calt", "-clig"}, {"-mark"}, {"+kern", "+liga", "+ss01"}}

func isStdFeat(f []string) bool {
	for _, fs := range featureSets {
		if strings.Join(fs, ",") == strings.Join(f, ",") {
			return true
		}
	}
	return false
}

type combo struct {
	dir   string
	feats []string
	level int
}

type job struct {
	idx  int
	ref  fontRef
	seed int64
}

type fontResult struct {
	skipped string
	evals   int
	hist    map[string]int
	fails   []failure
	nontriv [][8]byte
	samples []input
}

func bucket(n int) string {
	switch {
	case n == 0:
		return "0"
	case n == 1:
		return "1"
	case n <= 3:
		return "2-3"
	case n <= 7:
		return "4-7"
	case n <= 15:
		return "8-15"
	}
	return "16+"
}

func key(in input) [8]byte {
	b, _ := json.Marshal(in)
	h := sha256.Sum256(b)
	var k [8]byte
	copy(k[:], h[:8])
	return k
}

func runFont(j job, tier string, corpus map[string][][]rune) (res fontResult) {
	res.hist = map[string]int{}
	face := loadFace(j.ref)
	if face == nil {
		res.skipped = "font-unloadable"
		return
	}
	if len(face.Morx) != 0 {
		res.skipped = "font-morx"
		return
	}
	var hf *harfbuzz.Font
	func() {
		defer func() { recover() }()
		hf = harfbuzz.NewFont(face)
	}()
	if hf == nil {
		res.skipped = "font-unloadable"
		return
	}
	insts := instances(face)
	r := rand.New(rand.NewSource(j.seed))
	type source struct {
		script string
		gen    func(*rand.Rand) []rune
	}
	var sources []source
	for _, d := range scripts {
		if a := restrict(face, d); a != nil {
			a := a
			sources = append(sources, source{a.script, a.gen})
		}
	}
	if ts := corpus[j.ref.id()]; len(ts) > 0 {
		g := newCorpusGen(ts)
		sources = append(sources, source{"", g.gen})
	}
	if len(sources) == 0 {
		res.skipped = "font-no-coverage"
		return
	}
	perSource := 60
	if tier != "quick" {
		perSource = 300
	}
	// the font's own feature tags (switched on / off one at a time)
	var fontFeats []string
	{
		seen := map[string]bool{}
		add := func(tag string) {
			for _, ch := range tag {
				if !(ch >= 'a' && ch <= 'z' || ch >= 'A' && ch <= 'Z' || ch >= '0' && ch <= '9') {
					return
				}
			}
			if len(tag) == 4 && !seen[tag] {
				seen[tag] = true
				fontFeats = append(fontFeats, tag)
			}
		}
		for _, ft := range face.GSUB.Features {
			add(ft.Tag.String())
		}
		for _, ft := range face.GPOS.Features {
			add(ft.Tag.String())
		}
		sort.Strings(fontFeats)
	}
	// very slow fonts (large contextual lookups) get fewer texts
	if strings.Contains(j.ref.path, "Nastaliq") {
		perSource = perSource/3 + 1
	}
	reported := map[string]bool{}
	for _, src := range sources {
		for ti := 0; ti < perSource; ti++ {
			text := src.gen(r)
			if len(text) == 0 {
				continue
			}
			script := src.script
			if script == "" {
				script = guessScript(text)
			}
			native, opposite := "ltr", "rtl"
			if nativeRTL(script) {
				native, opposite = "rtl", "ltr"
			}
			combos := []combo{{native, nil, 0}}
			others := []combo{{native, featureSets[1], 0}, {native, featureSets[2], 0}, {native, featureSets[3+r.Intn(len(featureSets)-3)], 0},
				{opposite, nil, 0}, {native, nil, 1}, {"ttb", nil, 0}, {opposite, featureSets[1+r.Intn(2)], 1}}
			if len(fontFeats) > 0 {
				others = append(others, combo{native, []string{"+" + fontFeats[r.Intn(len(fontFeats))]}, 0},
					combo{native, []string{"-" + fontFeats[r.Intn(len(fontFeats))]}, 0})
			}
			if tier == "quick" {
				k := r.Intn(len(others))
				combos = append(combos, others[k], others[(k+1+r.Intn(len(others)-1))%len(others)])
			} else {
				combos = append(combos, others...)
			}
			for ci, cb := range combos {
				in := input{Font: j.ref.id(), Text: text, Script: script, Dir: cb.dir, Features: cb.feats, Level: cb.level, Cut: -1}
				if len(insts) > 0 && (ci+len(text))%2 == 0 { // variable font: half of the cases at a non-default instance
					in.Coords = insts[(ci+len(text)/2)%len(insts)]
					res.hist["instance=non-default"]++
				}
				// single cuts: always in the thorough tier; in the quick tier for the first combination and short texts
				doSingles := tier != "quick" || ci == 0 || len(text) <= 8
				o := evaluate(hf, in, doSingles)
				res.evals++
				res.hist["script="+script]++
				res.hist["dir="+cb.dir]++
				res.hist["level="+strconv.Itoa(cb.level)]++
				switch {
				case ci >= 8:
					res.hist["features=(font feature)"]++
				case tier == "quick" && len(cb.feats) == 1 && len(fontFeats) > 0 && !isStdFeat(cb.feats):
					res.hist["features=(font feature)"]++
				default:
					res.hist["features="+strings.Join(cb.feats, ",")]++
				}
				res.hist["cuts="+bucket(o.cuts)]++
				res.hist["boundaries-safe"] += o.safe
				res.hist["boundaries-unsafe"] += o.unsafe
				res.hist["single-cut-comparisons"] += o.singles
				if o.cuts > 0 {
					res.nontriv = append(res.nontriv, key(in))
					if len(res.samples) < 1 && o.unsafe > 0 {
						res.samples = append(res.samples, in)
					}
				}
				seenKind := map[string]bool{}
				for _, fl := range o.fails {
					if seenKind[fl.kind] {
						continue
					}
					seenKind[fl.kind] = true
					res.hist["fail:"+fl.kind]++
					fam := famOf(fl.kind) + "|" + script
					if reported[fam] {
						continue
					}
					reported[fam] = true
					m := minimise(hf, fl)
					m.kind = classify(m)
					res.fails = append(res.fails, m)
				}
			}
		}
	}
	return
}

const hbFonts = "harfbuzz:harfbuzz_reference/in-house/fonts/"

var regressions = []input{
	// fixed: reverseGraphemes did not merge the clusters of a grapheme at level MonotoneCharacters
	{Font: "opentype:common/FreeSerif.ttf", Text: []rune{0x66, 0x301}, Script: "Latn", Dir: "rtl", Level: 1},
	{Font: "opentype:common/DejaVuSans.ttf", Text: []rune{0x5DC, 0x5B9}, Script: "Hebr", Dir: "ltr", Level: 1},
	// fixed: panic in finalReorderingSyllableIndic with +pref
	{Font: hbFonts + "270b89df543a7e48e206a2d830c0e10e5265c630.ttf", Text: []rune{0xD31, 0xD4D}, Script: "Mlym", Dir: "ltr", Features: []string{"+pref"}},
	// fixed: stale mark attachment base cached across lookups
	{Font: "opentype:common/Estedad-VF.ttf", Text: []rune{0x64A, 0x64B, 0x644, 0x200C, 0x644, 0x651}, Script: "Arab", Dir: "rtl"},
	// fixed: Thai PUA shaping did not flag the mark
	{Font: "harfbuzz:harfbuzz_reference/text-rendering-tests/fonts/FDArrayTest257.otf", Text: []rune{0xE1F, 0xE33}, Script: "Thai", Dir: "ltr", Level: 1},
	// fixed: syllable ending inside a cluster
	{Font: hbFonts + "270b89df543a7e48e206a2d830c0e10e5265c630.ttf", Text: []rune{0xD38, 0xD4D, 0xD31, 0x34F, 0xD4D}, Script: "Mlym", Dir: "ltr"},
	{Font: "harfbuzz:harfbuzz_reference/text-rendering-tests/fonts/NotoSansKannada-Regular.ttf", Text: []rune{0xC82, 0x200C, 0xC82}, Script: "Knda", Dir: "ltr"},
	{Font: hbFonts + "932ad5132c2761297c74e9976fe25b08e5ffa10b.ttf", Text: []rune{0x9CD, 0x9AF, 0x34F}, Script: "Beng", Dir: "ltr"},
	// fixed: CGJ made skippable from its neighbours without a flag
	{Font: hbFonts + "5af5361ed4d1e8305780b100e1730cb09132f8d1.ttf", Text: []rune{0xDBB, 0xDCA, 0x200D, 0xDBA, 0xDCA, 0x200D, 0xDBA, 0x34F, 0xDBB}, Script: "Sinh", Dir: "ltr"},
	// fixed: flags lost with a removed default ignorable / a glyph deleted by an empty MultipleSubst
	{Font: hbFonts + "e716f6bd00a108d186b7e9f47b4515565f784f36.ttf", Text: []rune{0xC32, 0x200D, 0xC4D, 0xC15, 0xC42}, Script: "Telu", Dir: "ltr", Level: 1},
	{Font: hbFonts + "5bbf3712e6f79775c66a4407837a90e591efbef2.ttf", Text: []rune{0x1F1FA, 0x200D, 0x1F1FC, 0x1F1FA}, Script: "Zyyy", Dir: "ltr"},
	{Font: hbFonts + "8228d035fcd65d62ec9728fb34f42c63be93a5d3.ttf", Text: []rune{0x301, 0x58, 0x200D}, Script: "Latn", Dir: "rtl"},
	// fixed: a ligature dropped the glyph flags held by a component other than the first
	{Font: hbFonts + "5af5361ed4d1e8305780b100e1730cb09132f8d1.ttf", Text: []rune{0xDBB, 0xDCA, 0x200D, 0xDBA, 0xDCA, 0x200D, 0xDBA, 0x34F, 0xDBB, 0xDCA, 0x200D, 0xDBA}, Script: "Sinh", Dir: "ltr"},
	{Font: hbFonts + "8339c821814d9bad7c77169332327ad8b0f33c81.ttf", Text: []rune{0x627, 0x627, 0x641}, Script: "Arab", Dir: "ltr", Features: []string{"-kern"}},
	// fixed: dotted circle of the vowel constraints inserted without a flag
	{Font: hbFonts + "1a5face3fcbd929d228235c2f72bbd6f8eb37424.ttf", Text: []rune{0x94D, 0x930, 0x94D, 0x907}, Script: "Deva", Dir: "ltr"},
	// fixed: clusters left out of order by reordering
	{Font: hbFonts + "8116e5d8fedfbec74e45dc350d2416d810bed8c4.ttf", Text: []rune{0x200C, 0x93F, 0x94D}, Script: "Deva", Dir: "ltr", Level: 1},
	{Font: hbFonts + "55e2910dbc9ef5dd89f4e146e7e0152169545b6a.ttf", Text: []rune{0xD4B, 0xD4B, 0xD4B, 0xD41}, Script: "Mlym", Dir: "ltr", Level: 1},
	// known (C18-K1): a script shaped against its native direction
	{Font: "opentype:common/DejaVuSans.ttf", Text: []rune{0x644, 0x62F}, Script: "Arab", Dir: "ltr"},
	{Font: "opentype:common/FreeSerif.ttf", Text: []rune{0x661, 0x64E, 0x647}, Script: "Arab", Dir: "ltr"},
	{Font: hbFonts + "226bc2deab3846f1a682085f70c67d0421014144.ttf", Text: []rune{0xD46, 0x20, 0xD46}, Script: "Mlym", Dir: "rtl"},
}

// quickPreferred are fonts with real GSUB/GPOS that together cover the scripts of the generators.
var quickPreferred = []string{
	"opentype:common/FreeSerif.ttf", "opentype:common/DejaVuSans.ttf", "opentype:common/NotoSansArabic.ttf", "opentype:common/Roboto-BoldItalic.ttf",
	"opentype:common/Raleway-v4020-Regular.otf", "opentype:common/Mada-VF.ttf", "harfbuzz:fonts/SourceSansPro-Regular.otf",
	"opentype:common/Estedad-VF.ttf", "opentype:common/Commissioner-VF.ttf", "harfbuzz:fonts/NotoNastaliqUrdu-Regular.ttf",
}

func main() {
	tier := flag.String("tier", "quick", "")
	seed := flag.Int64("seed", 1, "")
	replay := flag.String("replay", "", "JSON input to re-run")
	frag := flag.String("frag", "", "with -replay: only shape the fragment s:e of the text and print it")
	inputs := flag.String("inputs", "", "file of fail lines of an earlier run: re-evaluate their inputs")
	probe := flag.Bool("probe", false, "list the eligible fonts and their script coverage")
	only := flag.String("font", "", "restrict the sweep to fonts whose id contains this string")
	workers := flag.Int("j", 4, "parallel workers")
	flag.Parse()
	enc := json.NewEncoder(os.Stdout)
	fonts := listFonts()
	corpus := corpusTexts()

	if *replay != "" {
		var in input
		if err := json.Unmarshal([]byte(*replay), &in); err != nil {
			panic(err)
		}
		for _, ref := range fonts {
			if ref.id() != in.Font {
				continue
			}
			face := loadFace(ref)
			if face == nil {
				fmt.Println("font does not load")
				return
			}
			hf := harfbuzz.NewFont(face)
			if *frag != "" { // print the shaping of one fragment text[s:e] (with context)
				var fs, fe int
				fmt.Sscanf(*frag, "%d:%d", &fs, &fe)
				c, err := newCtx(hf, in)
				if err != nil {
					panic(err)
				}
				c.mirror = os.Getenv("C18_MIRROR") != ""
				g, perr := c.shape(fs, fe)
				fmt.Println(showGlyphs(g), perr)
				return
			}
			o := evaluate(hf, in, true)
			fmt.Printf("text %s glyphs %d safe %d unsafe %d cuts %d singles %d\n", in.uplus(), o.glyphs, o.safe, o.unsafe, o.cuts, o.singles)
			for _, fl := range o.fails {
				fmt.Println(classify(fl), fl.in.Cut, fl.what)
			}
		}
		return
	}
	if *inputs != "" { // re-evaluate the inputs of the fail lines of an earlier run
		b, err := os.ReadFile(*inputs)
		if err != nil {
			panic(err)
		}
		byID := map[string]fontRef{}
		for _, ref := range fonts {
			byID[ref.id()] = ref
		}
		for _, line := range strings.Split(string(b), "\n") {
			var obj struct {
				Kind  string `json:"kind"`
				Input *input `json:"input"`
			}
			if json.Unmarshal([]byte(line), &obj) != nil || obj.Input == nil {
				continue
			}
			in := *obj.Input
			in.Cut = -1
			face := loadFace(byID[in.Font])
			if face == nil {
				continue
			}
			o := evaluate(harfbuzz.NewFont(face), in, true)
			kinds := map[string]bool{}
			for _, fl := range o.fails {
				kinds[fl.kind] = true
			}
			var ks []string
			for k := range kinds {
				ks = append(ks, k)
			}
			sort.Strings(ks)
			fmt.Printf("%-40s -> %v   %s %s %s %s L%d %v\n", obj.Kind, ks, in.Font[strings.LastIndex(in.Font, "/")+1:], in.uplus(), in.Script, in.Dir, in.Level, in.Features)
		}
		return
	}
	if *probe {
		for _, ref := range fonts {
			face := loadFace(ref)
			if face == nil {
				fmt.Println(ref.id(), "UNLOADABLE")
				continue
			}
			var cov []string
			for _, d := range scripts {
				if restrict(face, d) != nil {
					cov = append(cov, d.tag)
				}
			}
			fmt.Println(ref.id(), "morx", len(face.Morx), "gsub", len(face.GSUB.Lookups), "gpos", len(face.GPOS.Lookups), "tests", len(corpus[ref.id()]), cov)
		}
		return
	}

	r := rand.New(rand.NewSource(*seed))
	var chosen []fontRef
	if *tier == "quick" {
		byID := map[string]fontRef{}
		for _, ref := range fonts {
			byID[ref.id()] = ref
		}
		taken := map[string]bool{}
		for _, id := range quickPreferred {
			if ref, ok := byID[id]; ok {
				chosen = append(chosen, ref)
				taken[id] = true
			}
		}
		// plus a seeded sample of the upstream test fonts (they come with test texts)
		var withTests []fontRef
		for _, ref := range fonts {
			if len(corpus[ref.id()]) > 0 && !taken[ref.id()] {
				withTests = append(withTests, ref)
			}
		}
		for _, i := range r.Perm(len(withTests)) {
			if len(chosen) >= len(quickPreferred)+150 {
				break
			}
			chosen = append(chosen, withTests[i])
		}
	} else {
		chosen = fonts
	}
	if *only != "" {
		var c []fontRef
		for _, ref := range fonts {
			if strings.Contains(ref.id(), *only) {
				c = append(c, ref)
			}
		}
		chosen = c
	}
	jobs := make([]job, len(chosen))
	for i, ref := range chosen {
		jobs[i] = job{i, ref, r.Int63()}
	}
	results := make([]fontResult, len(jobs))
	var wg sync.WaitGroup
	ch := make(chan job)
	for w := 0; w < *workers; w++ {
		wg.Add(1)
		go func() {
			defer wg.Done()
			for j := range ch {
				results[j.idx] = runFont(j, *tier, corpus)
			}
		}()
	}
	for _, j := range jobs {
		ch <- j
	}
	close(ch)
	wg.Wait()

	evals := 0
	hist := map[string]int{}
	nontrivial := map[[8]byte]bool{}
	var samples []input
	printed := map[string]int{}
	// regression inputs: the witnesses of the defects this sweep found (the fixed ones must stay fixed, the known
	// ones report themselves under their known kind)
	if *only == "" {
		byID := map[string]fontRef{}
		for _, ref := range fonts {
			byID[ref.id()] = ref
		}
		for _, in := range regressions {
			ref, ok := byID[in.Font]
			var face *font.Face
			if ok {
				face = loadFace(ref)
			}
			if face == nil {
				enc.Encode(map[string]any{"fail": "regression font does not load", "kind": "harness", "what": "regression font does not load: " + in.Font, "input": in})
				continue
			}
			in.Cut = -1
			hf := harfbuzz.NewFont(face)
			o := evaluate(hf, in, true)
			evals++
			hist["regression"]++
			if o.cuts > 0 {
				nontrivial[key(in)] = true
			}
			seen := map[string]bool{}
			for _, fl := range o.fails {
				if seen[fl.kind] {
					continue
				}
				seen[fl.kind] = true
				hist["fail:"+fl.kind]++
				printed[fl.kind]++
				enc.Encode(map[string]any{"fail": fl.what, "kind": fl.kind, "what": fl.kind + ": " + in.Font + " " + fl.in.uplus() + ": " + fl.what, "input": fl.in})
			}
		}
	}
	for i, res := range results {
		if res.skipped != "" {
			hist[res.skipped]++
			continue
		}
		hist["fonts"]++
		evals += res.evals
		for k, v := range res.hist {
			hist[k] += v
		}
		for _, k := range res.nontriv {
			nontrivial[k] = true
		}
		if len(samples) < 4 {
			samples = append(samples, res.samples...)
		}
		for _, fl := range res.fails {
			if printed[fl.kind] >= 12 { // at most 12 witnesses (distinct font x script) per kind
				continue
			}
			printed[fl.kind]++
			enc.Encode(map[string]any{"fail": fl.what, "kind": fl.kind, "what": fl.kind + ": " + jobs[i].ref.id() + " " + fl.in.uplus() + ": " + fl.what, "input": fl.in})
		}
	}
	enc.Encode(map[string]any{"stats": map[string]any{"evaluations": evals, "distinct_nontrivial": len(nontrivial),
		"samples": samples, "histogram": hist}})
}
