// Command effects regenerates coq/Gen/Effects.v: the write-effect facts of the library source that
// property C17 ("a parsed font can be shared by goroutines") rests on.
//
//	go run ./cmd/effects -repo /repo -out ../coq/Gen/Effects.v
//
// It parses and type-checks (go/ast + go/types, imports resolved from source) the non-test files of the
// analysed packages WITHOUT the verif build tag and lists, as Gallina data,
//
//	(a) package_writes: every syntactic write / address-taking whose target is rooted at a PACKAGE-LEVEL
//	    variable: assignment, op=, ++/--, range-assignment, copy(dst,..), delete(m,..), clear(x), append(x,..),
//	    &x, x[:] of an array, and calls of pointer-receiver methods on an addressable package variable
//	    (implicit &x).  Each with file:line, variable, enclosing function, kind and a classification:
//	      CInInit        inside func init() (runs before any goroutine of the program can use the package)
//	      COnce          inside a closure passed to (*sync.Once).Do
//	      CSync          the variable's type comes from sync or sync/atomic and the effect is a method call
//	      CReadOnlyAddr  address / slice of a variable that (1) is never assigned anywhere, (2) is declared with an
//	                     initialiser, (3) has a type holding no pointer, slice, map, chan, func or interface
//	                     (array/struct of constants) and (4) type-based alias check: no write anywhere in the
//	                     analysed packages modifies, through a pointer / slice / map, a value whose type is that
//	                     of the addressed cell or of an enclosing array / struct of the variable; i.e. `&table[i]`
//	                     or `table[:]` handed to readers
//	      CAddrTaken     any other address-taking
//	      CPlain         any other write
//	(b) font_writes: every write (assignment, op=, ++/--, range-assignment, copy, delete, clear, append) whose
//	    target path passes through a pointer / slice / map (so that it is not a write into the by-value
//	    storage of a local) and touches a type REACHABLE from font.Font by field types (through pointers, slices,
//	    arrays, maps; an interface-typed field reaches every analysed type implementing it), outside
//	    constructor-phase functions.  Classification by the root of the path:
//	      CRecv / CParam / CLocal / CExpr   root is the receiver, a parameter, a non-fresh local, not a variable
//	      CFresh                            root is a local whose every definition in the function is a fresh
//	                                        allocation (composite literal, new, make, nil/zero, append to
//	                                        itself, result of a constructor-phase function)
//
// The rules deciding which classifications are acceptable live in Coq (Model/Effects.v); this program only
// reports.  It fails closed: a parse or type error of an analysed package is a non-zero exit.
//
// NOT seen (stated in DESIGN.md C17 and in the evidence): writes through primitive-typed slices / pointers
// that were handed out of a Font and lost the owning type (b := f.data; b[0] = 1), writes through interface
// method calls and closures whose body is elsewhere, package variables passed as slice/map/pointer arguments
// to a callee that writes them (other than copy/delete/clear/append), reflection, unsafe, assembly, cgo.
package main

import (
	"bytes"
	"flag"
	"fmt"
	"go/ast"
	"go/build"
	"go/importer"
	"go/parser"
	"go/token"
	"go/types"
	"os"
	"path/filepath"
	"regexp"
	"sort"
	"strings"
)

const modPath = "github.com/go-text/typesetting"

// analysed packages (relative to the module root)
var pkgDirs = []string{
	"di", "font", "font/cff", "font/cff/interpreter", "font/opentype", "font/opentype/tables", "fontscan",
	"harfbuzz", "language", "segmenter", "shaping", "unicodedata",
}

// constructor phase: a function with such a name builds an object that is not yet shared
var ctorRE = regexp.MustCompile(`^(Parse|parse|mustParse|New|new|load|sanitize|Load)`)

// explicit additions to the constructor phase (qualified function names), printed into the generated file.
// Each is only called while a Font (or one of its tables) is being built.
var ctorAllow = map[string]string{}

type loaded struct {
	rel   string
	pkg   *types.Package
	files []*ast.File
	info  *types.Info
}

type loader struct {
	fset     *token.FileSet
	repo     string
	fallback types.ImporterFrom
	pkgs     map[string]*loaded
	errs     []string
}

func (l *loader) Import(path string) (*types.Package, error) { return l.ImportFrom(path, l.repo, 0) }

func (l *loader) ImportFrom(path, dir string, mode types.ImportMode) (*types.Package, error) {
	if path == modPath || strings.HasPrefix(path, modPath+"/") {
		rel := strings.TrimPrefix(strings.TrimPrefix(path, modPath), "/")
		p, err := l.load(rel)
		if err != nil {
			return nil, err
		}
		return p.pkg, nil
	}
	return l.fallback.ImportFrom(path, dir, mode)
}

func (l *loader) load(rel string) (*loaded, error) {
	if p, ok := l.pkgs[rel]; ok {
		if p == nil {
			return nil, fmt.Errorf("import cycle through %s", rel)
		}
		return p, nil
	}
	l.pkgs[rel] = nil
	dir := filepath.Join(l.repo, rel)
	ents, err := os.ReadDir(dir)
	if err != nil {
		return nil, err
	}
	ctx := build.Default
	ctx.BuildTags = nil // no verif tag: the hook files are not part of the analysed library
	ctx.CgoEnabled = false
	var files []*ast.File
	for _, e := range ents {
		n := e.Name()
		if e.IsDir() || !strings.HasSuffix(n, ".go") || strings.HasSuffix(n, "_test.go") {
			continue
		}
		ok, err := ctx.MatchFile(dir, n)
		if err != nil {
			return nil, err
		}
		if !ok {
			continue
		}
		f, err := parser.ParseFile(l.fset, filepath.Join(dir, n), nil, parser.SkipObjectResolution)
		if err != nil {
			return nil, err
		}
		files = append(files, f)
	}
	info := &types.Info{
		Types:      map[ast.Expr]types.TypeAndValue{},
		Defs:       map[*ast.Ident]types.Object{},
		Uses:       map[*ast.Ident]types.Object{},
		Selections: map[*ast.SelectorExpr]*types.Selection{},
	}
	conf := types.Config{Importer: l, Error: func(err error) { l.errs = append(l.errs, err.Error()) }}
	pkg, _ := conf.Check(modPath+"/"+rel, l.fset, files, info)
	p := &loaded{rel: rel, pkg: pkg, files: files, info: info}
	l.pkgs[rel] = p
	return p, nil
}

// ------------------------------------------------------------------------------------------------
// type names and reachability from font.Font

func relPkg(p *types.Package) string {
	if p == nil {
		return ""
	}
	path := p.Path()
	if path == modPath {
		return "."
	}
	return strings.TrimPrefix(path, modPath+"/")
}

func typeName(n *types.Named) string {
	o := n.Origin().Obj()
	if o.Pkg() == nil {
		return o.Name()
	}
	return relPkg(o.Pkg()) + "." + o.Name()
}

func deref(t types.Type) (types.Type, bool) {
	if p, ok := t.Underlying().(*types.Pointer); ok {
		return p.Elem(), true
	}
	return t, false
}

type reach struct {
	set   map[string]bool
	named []*types.Named // every named type of the analysed packages, sorted
}

func (r *reach) visit(t types.Type) {
	switch t := t.(type) {
	case *types.Named:
		name := typeName(t)
		if t.Obj().Pkg() == nil || r.set[name] {
			return
		}
		// only types of the module and of other non-std packages are interesting; std types (sync.Once,
		// unicode.RangeTable, ...) are recorded too: a write into them through a Font is still a write
		r.set[name] = true
		r.visit(t.Underlying())
		if ta := t.TypeArgs(); ta != nil {
			for i := 0; i < ta.Len(); i++ {
				r.visit(ta.At(i))
			}
		}
	case *types.Pointer:
		r.visit(t.Elem())
	case *types.Slice:
		r.visit(t.Elem())
	case *types.Array:
		r.visit(t.Elem())
	case *types.Chan:
		r.visit(t.Elem())
	case *types.Map:
		r.visit(t.Key())
		r.visit(t.Elem())
	case *types.Struct:
		for i := 0; i < t.NumFields(); i++ {
			r.visit(t.Field(i).Type())
		}
	case *types.Interface:
		if t.NumMethods() == 0 {
			return
		}
		for _, n := range r.named {
			if _, isIface := n.Underlying().(*types.Interface); isIface {
				continue
			}
			if n.TypeParams() != nil {
				continue
			}
			if types.Implements(n, t) || types.Implements(types.NewPointer(n), t) {
				r.visit(n)
			}
		}
	}
}

// ------------------------------------------------------------------------------------------------
// effects

type effect struct {
	file  string
	line  int
	col   int
	v     string // root variable (package_writes: the package variable)
	fn    string // enclosing function
	kind  string
	class string
	owner string // type through which the write goes (first reachable type on the path), or type of the variable
	expr  string
}

type pathInfo struct {
	root       *types.Var
	rootIsExpr bool
	throughRef bool
	owners     []string // named types met along the path
	ownerTypes []types.Type
	afterRef   []types.Type // types of the values (partly) overwritten that are reached through a reference
}

func (pi *pathInfo) touch(t types.Type) {
	if t != nil {
		pi.afterRef = append(pi.afterRef, t)
	}
}

type walker struct {
	l      *loader
	p      *loaded
	r      *reach
	pkgEff []effect
	fntEff []effect
	// statistics
	nWritesSeen, nValueLocal, nCtorSkipped, nPrivate int
	ctorFns                                          map[string]bool
	ctorMutates                                      map[string]int
	handsOn                                          map[[2]string]bool
	ctorWrites                                       map[string]int     // constructor-phase function -> writes through references to reachable types
	calls                                            map[[2]string]bool // (steady-state caller, callee)
	assignedPkgVars                                  map[*types.Var]bool
	initialised                                      map[*types.Var]bool   // package variables declared with an initialiser
	writtenThroughRef                                map[string]types.Type // every type some write modifies through a reference
	pendingAddr                                      []pendingAddr
}

type pendingAddr struct {
	idx     int
	v       *types.Var
	exposed []types.Type // types of the storage the address gives access to
}

func fullTypeString(t types.Type) string {
	return types.TypeString(t, func(p *types.Package) string { return p.Path() })
}

// exposedTypes: the cell whose address is taken and the arrays / structs of the variable that enclose it
func (w *walker) exposedTypes(target ast.Expr, kind string) []types.Type {
	var out []types.Type
	add := func(t types.Type) {
		if t != nil {
			out = append(out, t)
		}
	}
	t := w.typeOf(target)
	add(t)
	if kind == "KSliceOfArray" && t != nil {
		if a, ok := t.Underlying().(*types.Array); ok {
			add(a.Elem())
		}
	}
	for e := target; ; {
		switch x := e.(type) {
		case *ast.IndexExpr:
			e = x.X
		case *ast.SelectorExpr:
			if _, ok := w.p.info.Selections[x]; !ok {
				return out
			}
			e = x.X
		case *ast.ParenExpr:
			e = x.X
		default:
			return out
		}
		add(w.typeOf(e))
	}
}

type fnCtx struct {
	name   string
	decl   *ast.FuncDecl
	inInit bool
	inOnce bool
	ctor   bool
	recv   *types.Var
	params map[*types.Var]bool
}

func (w *walker) typeOf(e ast.Expr) types.Type {
	if tv, ok := w.p.info.Types[e]; ok {
		return tv.Type
	}
	if id, ok := e.(*ast.Ident); ok {
		if o := w.p.info.Uses[id]; o != nil {
			return o.Type()
		}
		if o := w.p.info.Defs[id]; o != nil {
			return o.Type()
		}
	}
	return nil
}

func (pi *pathInfo) note(t types.Type) {
	if t == nil {
		return
	}
	if d, ok := deref(t); ok {
		t = d
	}
	if n, ok := t.(*types.Named); ok {
		pi.owners = append(pi.owners, typeName(n))
		pi.ownerTypes = append(pi.ownerTypes, n)
	}
}

// path analyses the expression e denoting a memory cell (or a slice/map whose cells are written)
func (w *walker) path(e ast.Expr, pi *pathInfo) {
	w.path0(e, pi)
	if pi.throughRef {
		pi.touch(w.typeOf(e))
	}
}

func (w *walker) path0(e ast.Expr, pi *pathInfo) {
	switch e := e.(type) {
	case *ast.Ident:
		if o, ok := w.p.info.Uses[e].(*types.Var); ok {
			pi.root = o
		} else if o, ok := w.p.info.Defs[e].(*types.Var); ok {
			pi.root = o
		} else {
			pi.rootIsExpr = true
		}
	case *ast.ParenExpr:
		w.path(e.X, pi)
	case *ast.StarExpr:
		w.path(e.X, pi)
		pi.throughRef = true
		pi.note(w.typeOf(e))
	case *ast.SelectorExpr:
		if sel, ok := w.p.info.Selections[e]; ok {
			w.path(e.X, pi)
			t := sel.Recv()
			idx := sel.Index()
			for _, i := range idx {
				if d, ok := deref(t); ok {
					t = d
					pi.throughRef = true
				}
				if pi.throughRef {
					pi.touch(t)
				}
				pi.note(t)
				st, ok := t.Underlying().(*types.Struct)
				if !ok {
					break
				}
				t = st.Field(i).Type()
			}
			return
		}
		// qualified identifier pkg.Var
		if o, ok := w.p.info.Uses[e.Sel].(*types.Var); ok {
			pi.root = o
		} else {
			pi.rootIsExpr = true
		}
	case *ast.IndexExpr:
		w.path(e.X, pi)
		if t := w.typeOf(e.X); t != nil {
			switch t.Underlying().(type) {
			case *types.Slice, *types.Map:
				pi.throughRef = true
			case *types.Pointer:
				pi.throughRef = true
				if d, ok := deref(t); ok {
					pi.touch(d) // the array behind the pointer
				}
			}
			pi.note(t) // the container whose cell is written
		}
	case *ast.SliceExpr:
		w.path(e.X, pi)
		if t := w.typeOf(e.X); t != nil {
			switch t.Underlying().(type) {
			case *types.Slice, *types.Pointer:
				pi.throughRef = true
			}
			pi.note(t)
		}
	case *ast.TypeAssertExpr:
		w.path(e.X, pi)
		pi.note(w.typeOf(e))
	case *ast.UnaryExpr:
		if e.Op == token.AND {
			w.path(e.X, pi)
			return
		}
		pi.rootIsExpr = true
	default:
		// call result, composite literal, ...: not a variable
		pi.rootIsExpr = true
	}
}

func isPkgLevel(v *types.Var) bool {
	return v != nil && !v.IsField() && v.Pkg() != nil && v.Parent() == v.Pkg().Scope()
}

func exprString(fset *token.FileSet, e ast.Expr) string {
	var b bytes.Buffer
	writeExpr(&b, e)
	s := b.String()
	if len(s) > 60 {
		s = s[:57] + "..."
	}
	return s
}

func writeExpr(b *bytes.Buffer, e ast.Expr) {
	switch e := e.(type) {
	case *ast.Ident:
		b.WriteString(e.Name)
	case *ast.ParenExpr:
		b.WriteString("(")
		writeExpr(b, e.X)
		b.WriteString(")")
	case *ast.StarExpr:
		b.WriteString("*")
		writeExpr(b, e.X)
	case *ast.SelectorExpr:
		writeExpr(b, e.X)
		b.WriteString("." + e.Sel.Name)
	case *ast.IndexExpr:
		writeExpr(b, e.X)
		b.WriteString("[..]")
	case *ast.SliceExpr:
		writeExpr(b, e.X)
		b.WriteString("[:]")
	case *ast.UnaryExpr:
		b.WriteString(e.Op.String())
		writeExpr(b, e.X)
	case *ast.CallExpr:
		writeExpr(b, e.Fun)
		b.WriteString("(..)")
	case *ast.TypeAssertExpr:
		writeExpr(b, e.X)
		b.WriteString(".(T)")
	default:
		b.WriteString("_")
	}
}

// pure reports whether a type holds no reference (pointer, slice, map, chan, func, interface) anywhere
func pure(t types.Type, seen map[types.Type]bool) bool {
	if seen[t] {
		return true
	}
	seen[t] = true
	switch u := t.Underlying().(type) {
	case *types.Basic:
		return u.Kind() != types.UnsafePointer
	case *types.Array:
		return pure(u.Elem(), seen)
	case *types.Struct:
		for i := 0; i < u.NumFields(); i++ {
			if !pure(u.Field(i).Type(), seen) {
				return false
			}
		}
		return true
	}
	return false
}

func fromSync(t types.Type) bool {
	if d, ok := deref(t); ok {
		t = d
	}
	n, ok := t.(*types.Named)
	if !ok || n.Obj().Pkg() == nil {
		return false
	}
	p := n.Obj().Pkg().Path()
	return p == "sync" || p == "sync/atomic"
}

// record examines one written (or address-taken) target
func (w *walker) record(fc *fnCtx, target ast.Expr, kind string, addr bool) {
	var pi pathInfo
	w.path(target, &pi)
	switch kind {
	case "KCopy", "KDelete", "KClear", "KAppend":
		// the target expression is the container (slice / map) whose cells are written
		if t := w.typeOf(target); t != nil {
			switch u := t.Underlying().(type) {
			case *types.Slice:
				pi.throughRef = true
				pi.touch(u.Elem())
			case *types.Map:
				pi.throughRef = true
				pi.touch(u.Elem())
			case *types.Pointer:
				pi.throughRef = true
				pi.touch(u.Elem())
			}
			pi.note(t)
		}
	}
	if !addr && pi.throughRef {
		for _, t := range pi.afterRef {
			w.writtenThroughRef[fullTypeString(t)] = t
		}
	}
	pos := w.l.fset.Position(target.Pos())
	file, _ := filepath.Rel(w.l.repo, pos.Filename)
	base := effect{file: filepath.ToSlash(file), line: pos.Line, col: pos.Column, fn: fc.name, kind: kind,
		expr: exprString(w.l.fset, target)}
	if !addr {
		w.nWritesSeen++
	}
	if isPkgLevel(pi.root) {
		e := base
		e.v = relPkg(pi.root.Pkg()) + "." + pi.root.Name()
		e.owner = types.TypeString(pi.root.Type(), func(p *types.Package) string { return relPkg(p) })
		if len(e.owner) > 60 {
			e.owner = e.owner[:57] + "..."
		}
		switch {
		case fc.inInit:
			e.class = "CInInit"
		case fc.inOnce:
			e.class = "COnce"
		case kind == "KMethodAddr" && fromSync(pi.root.Type()):
			e.class = "CSync"
		case addr:
			e.class = "CAddrTaken" // may be refined to CReadOnlyAddr once all assignments are known
			w.pendingAddr = append(w.pendingAddr, pendingAddr{len(w.pkgEff), pi.root, w.exposedTypes(target, kind)})
		default:
			e.class = "CPlain"
		}
		if !addr && !fc.inInit {
			w.assignedPkgVars[pi.root] = true
		}
		if !addr && fc.inInit {
			// a variable assigned in init is not a constant table for the purpose of CReadOnlyAddr either
			w.assignedPkgVars[pi.root] = true
		}
		w.pkgEff = append(w.pkgEff, e)
		return
	}
	if addr {
		return // address-taking of non-package storage is not listed (see header)
	}
	// (b) writes touching a type reachable from font.Font
	owner := ""
	for _, o := range pi.owners {
		if w.r.set[o] {
			owner = o
			break
		}
	}
	if owner == "" {
		w.nPrivate++
		return
	}
	if !pi.throughRef && !pi.rootIsExpr {
		w.nValueLocal++ // write into the by-value storage of a local / parameter / receiver copy
		return
	}
	if fc.ctor {
		w.nCtorSkipped++
		w.ctorWrites[fc.name]++
		// does the write go through something the caller handed in (receiver, parameter, expression) rather than
		// through an object this function allocated itself?
		if !(pi.root != nil && !(fc.recv != nil && pi.root == fc.recv) && !fc.params[pi.root] && fc.decl != nil && w.freshLocal(fc, pi.root)) {
			w.ctorMutates[fc.name]++
		}
		return
	}
	e := base
	e.owner = owner
	switch {
	case pi.root == nil:
		e.class, e.v = "CExpr", "_"
	case fc.recv != nil && pi.root == fc.recv:
		e.class, e.v = "CRecv", pi.root.Name()
	case fc.params[pi.root]:
		e.class, e.v = "CParam", pi.root.Name()
	default:
		e.v = pi.root.Name()
		if fc.decl != nil && w.freshLocal(fc, pi.root) {
			e.class = "CFresh"
		} else {
			e.class = "CLocal"
		}
	}
	w.fntEff = append(w.fntEff, e)
}

// freshLocal: every definition of v inside the function is a fresh allocation
func (w *walker) freshLocal(fc *fnCtx, v *types.Var) bool {
	fresh := true
	defs := 0
	var isFresh func(e ast.Expr) bool
	isFresh = func(e ast.Expr) bool {
		switch e := e.(type) {
		case *ast.ParenExpr:
			return isFresh(e.X)
		case *ast.CompositeLit:
			return true
		case *ast.UnaryExpr:
			if e.Op == token.AND {
				_, ok := e.X.(*ast.CompositeLit)
				return ok
			}
		case *ast.Ident:
			if e.Name == "nil" {
				return true
			}
		case *ast.CallExpr:
			if id, ok := e.Fun.(*ast.Ident); ok {
				if b, ok := w.p.info.Uses[id].(*types.Builtin); ok {
					switch b.Name() {
					case "new", "make":
						return true
					case "append":
						if len(e.Args) > 0 {
							if a, ok := e.Args[0].(*ast.Ident); ok && w.p.info.Uses[a] == v {
								return true
							}
							return isFresh(e.Args[0])
						}
					}
					return false
				}
			}
			// result of a constructor-phase function
			var name string
			switch f := e.Fun.(type) {
			case *ast.Ident:
				name = f.Name
			case *ast.SelectorExpr:
				name = f.Sel.Name
			}
			if name != "" && ctorRE.MatchString(name) {
				if _, isFunc := w.typeOf(e.Fun).(*types.Signature); isFunc {
					return true
				}
			}
		}
		return false
	}
	ast.Inspect(fc.decl, func(n ast.Node) bool {
		switch n := n.(type) {
		case *ast.AssignStmt:
			for i, lh := range n.Lhs {
				id, ok := lh.(*ast.Ident)
				if !ok {
					continue
				}
				var o types.Object
				if n.Tok == token.DEFINE {
					o = w.p.info.Defs[id]
					if o == nil {
						o = w.p.info.Uses[id]
					}
				} else {
					o = w.p.info.Uses[id]
				}
				if o != v {
					continue
				}
				defs++
				if len(n.Lhs) != len(n.Rhs) || !isFresh(n.Rhs[i]) {
					// multi-value call: fresh only when the callee is constructor-phase
					if len(n.Rhs) == 1 && len(n.Lhs) > 1 && isFresh(n.Rhs[0]) {
						continue
					}
					fresh = false
				}
			}
		case *ast.ValueSpec:
			for i, id := range n.Names {
				if w.p.info.Defs[id] != v {
					continue
				}
				defs++
				if len(n.Values) == 0 {
					continue // zero value
				}
				if len(n.Values) != len(n.Names) || !isFresh(n.Values[i]) {
					fresh = false
				}
			}
		case *ast.RangeStmt:
			for _, x := range []ast.Expr{n.Key, n.Value} {
				if id, ok := x.(*ast.Ident); ok && (w.p.info.Defs[id] == v || w.p.info.Uses[id] == v) {
					defs++
					fresh = false
				}
			}
		}
		return true
	})
	return fresh && defs > 0
}

// calleeName: qualified name (as printed for enclosing functions) of a statically known callee
func (w *walker) calleeName(call *ast.CallExpr) string {
	var id *ast.Ident
	switch f := call.Fun.(type) {
	case *ast.Ident:
		id = f
	case *ast.SelectorExpr:
		id = f.Sel
	default:
		return ""
	}
	fn, ok := w.p.info.Uses[id].(*types.Func)
	if !ok || fn.Pkg() == nil {
		return ""
	}
	name := relPkg(fn.Pkg()) + "."
	if sig, ok := fn.Type().(*types.Signature); ok && sig.Recv() != nil {
		t := sig.Recv().Type()
		if d, ok := deref(t); ok {
			t = d
		}
		if n, ok := t.(*types.Named); ok {
			name += n.Origin().Obj().Name() + "."
		}
	}
	return name + fn.Name()
}

// handsOwnOn: the call's receiver or one of its arguments mentions the enclosing function's receiver or a parameter
// (so the callee may write through what the enclosing function was given)
func (w *walker) handsOwnOn(fc *fnCtx, call *ast.CallExpr) bool {
	found := false
	look := func(e ast.Expr) {
		ast.Inspect(e, func(n ast.Node) bool {
			if id, ok := n.(*ast.Ident); ok {
				if v, ok := w.p.info.Uses[id].(*types.Var); ok && ((fc.recv != nil && v == fc.recv) || fc.params[v]) && !plainData(v.Type()) {
					found = true
				}
			}
			return !found
		})
	}
	if sel, ok := call.Fun.(*ast.SelectorExpr); ok {
		look(sel.X)
	}
	for _, a := range call.Args {
		look(a)
	}
	return found
}

// plainData: basic values and slices / arrays of basic values (source bytes, counts, offsets): nothing of a Font's
// own types can be written through them (writes through primitive-typed slices are outside this analysis, see header)
func plainData(t types.Type) bool {
	switch u := t.Underlying().(type) {
	case *types.Basic:
		return true
	case *types.Slice:
		_, ok := u.Elem().Underlying().(*types.Basic)
		return ok
	case *types.Array:
		_, ok := u.Elem().Underlying().(*types.Basic)
		return ok
	}
	return false
}

func (w *walker) isOnceDo(call *ast.CallExpr) bool {
	sel, ok := call.Fun.(*ast.SelectorExpr)
	if !ok {
		return false
	}
	s, ok := w.p.info.Selections[sel]
	if !ok {
		return false
	}
	f, ok := s.Obj().(*types.Func)
	if !ok || f.Name() != "Do" || f.Pkg() == nil || f.Pkg().Path() != "sync" {
		return false
	}
	return fromSync(s.Recv())
}

func (w *walker) walkBody(fc *fnCtx, body ast.Node) {
	ast.Inspect(body, func(n ast.Node) bool {
		switch n := n.(type) {
		case *ast.AssignStmt:
			if n.Tok != token.DEFINE {
				kind := "KAssign"
				if n.Tok != token.ASSIGN {
					kind = "KOpAssign"
				}
				for _, lh := range n.Lhs {
					if id, ok := lh.(*ast.Ident); ok && id.Name == "_" {
						continue
					}
					w.record(fc, lh, kind, false)
				}
			}
		case *ast.IncDecStmt:
			w.record(fc, n.X, "KIncDec", false)
		case *ast.RangeStmt:
			if n.Tok == token.ASSIGN {
				for _, x := range []ast.Expr{n.Key, n.Value} {
					if x == nil {
						continue
					}
					if id, ok := x.(*ast.Ident); ok && id.Name == "_" {
						continue
					}
					w.record(fc, x, "KAssign", false)
				}
			}
		case *ast.UnaryExpr:
			if n.Op == token.AND {
				if _, lit := n.X.(*ast.CompositeLit); !lit {
					w.record(fc, n.X, "KAddrOf", true)
				}
			}
		case *ast.SliceExpr:
			if t := w.typeOf(n.X); t != nil {
				if _, isArr := t.Underlying().(*types.Array); isArr {
					w.record(fc, n.X, "KSliceOfArray", true)
				}
			}
		case *ast.CallExpr:
			if !fc.inInit {
				if callee := w.calleeName(n); callee != "" {
					w.calls[[2]string{fc.name, callee}] = true
					if w.handsOwnOn(fc, n) {
						w.handsOn[[2]string{fc.name, callee}] = true
					}
				}
			}
			if id, ok := n.Fun.(*ast.Ident); ok {
				if b, ok := w.p.info.Uses[id].(*types.Builtin); ok && len(n.Args) > 0 {
					switch b.Name() {
					case "copy":
						w.record(fc, n.Args[0], "KCopy", false)
					case "delete":
						w.record(fc, n.Args[0], "KDelete", false)
					case "clear":
						w.record(fc, n.Args[0], "KClear", false)
					case "append":
						w.record(fc, n.Args[0], "KAppend", false)
					}
				}
			}
			// implicit &x: pointer-receiver method called on an addressable non-pointer value
			if sel, ok := n.Fun.(*ast.SelectorExpr); ok {
				if s, ok := w.p.info.Selections[sel]; ok && s.Kind() == types.MethodVal {
					if f, ok := s.Obj().(*types.Func); ok {
						sig := f.Type().(*types.Signature)
						if sig.Recv() != nil {
							if _, ptrRecv := sig.Recv().Type().(*types.Pointer); ptrRecv {
								if _, isPtr := s.Recv().Underlying().(*types.Pointer); !isPtr {
									w.record(fc, sel.X, "KMethodAddr", true)
								} else if len(s.Index()) > 1 {
									// promoted through embedded values: still rooted at sel.X
									w.record(fc, sel.X, "KMethodAddr", true)
								}
							}
						}
					}
				}
			}
			if w.isOnceDo(n) {
				// the closure arguments run under the Once
				ast.Inspect(n.Fun, func(ast.Node) bool { return true })
				for _, a := range n.Args {
					if fl, ok := a.(*ast.FuncLit); ok {
						sub := *fc
						sub.inOnce = true
						w.walkBody(&sub, fl.Body)
					} else {
						w.walkBody(fc, a)
					}
				}
				// the receiver expression (Once variable) itself
				if sel, ok := n.Fun.(*ast.SelectorExpr); ok {
					w.walkBody(fc, sel.X)
				}
				return false
			}
		}
		return true
	})
}

func recvTypeName(fd *ast.FuncDecl) string {
	if fd.Recv == nil || len(fd.Recv.List) == 0 {
		return ""
	}
	t := fd.Recv.List[0].Type
	for {
		switch x := t.(type) {
		case *ast.StarExpr:
			t = x.X
			continue
		case *ast.ParenExpr:
			t = x.X
			continue
		case *ast.IndexExpr:
			t = x.X
			continue
		case *ast.IndexListExpr:
			t = x.X
			continue
		case *ast.Ident:
			return x.Name
		}
		return "?"
	}
}

func (w *walker) walkPackage() {
	for _, f := range w.p.files {
		for _, d := range f.Decls {
			switch d := d.(type) {
			case *ast.FuncDecl:
				if d.Body == nil {
					continue
				}
				name := d.Name.Name
				q := w.p.rel + "." + name
				if r := recvTypeName(d); r != "" {
					q = w.p.rel + "." + r + "." + name
				}
				fc := &fnCtx{name: q, decl: d, params: map[*types.Var]bool{}}
				fc.inInit = d.Recv == nil && name == "init"
				_, allow := ctorAllow[q]
				fc.ctor = ctorRE.MatchString(name) || allow
				if fc.ctor {
					w.ctorFns[q] = true
				}
				if d.Recv != nil {
					for _, fl := range d.Recv.List {
						for _, id := range fl.Names {
							if v, ok := w.p.info.Defs[id].(*types.Var); ok {
								fc.recv = v
							}
						}
					}
				}
				for _, fl := range d.Type.Params.List {
					for _, id := range fl.Names {
						if v, ok := w.p.info.Defs[id].(*types.Var); ok {
							fc.params[v] = true
						}
					}
				}
				w.walkBody(fc, d.Body)
			case *ast.GenDecl:
				// function literals in package-level initialisers run at init time
				if d.Tok == token.VAR {
					for _, s := range d.Specs {
						if vs, ok := s.(*ast.ValueSpec); ok && len(vs.Values) > 0 {
							for _, id := range vs.Names {
								if v, ok := w.p.info.Defs[id].(*types.Var); ok {
									w.initialised[v] = true
								}
							}
						}
					}
					fc := &fnCtx{name: w.p.rel + ".<var init>", inInit: true, params: map[*types.Var]bool{}}
					for _, s := range d.Specs {
						if vs, ok := s.(*ast.ValueSpec); ok {
							for _, v := range vs.Values {
								ast.Inspect(v, func(n ast.Node) bool {
									if fl, ok := n.(*ast.FuncLit); ok {
										// the literal may be stored and called later: treat its body as ordinary code
										sub := *fc
										sub.inInit = false
										sub.name = w.p.rel + ".<func literal in var initialiser>"
										w.walkBody(&sub, fl.Body)
										return false
									}
									return true
								})
							}
						}
					}
				}
			}
		}
	}
}

// ------------------------------------------------------------------------------------------------

func coqString(s string) string { return `"` + strings.ReplaceAll(s, `"`, `""`) + `"` }

func main() {
	repo := flag.String("repo", os.Getenv("VERIF_REPO"), "root of the library working tree")
	out := flag.String("out", "", "Gen/Effects.v to (re)write; - for stdout")
	verbose := flag.Bool("v", false, "print statistics")
	flag.Parse()
	if *repo == "" {
		*repo = "/repo"
	}
	absRepo, err := filepath.Abs(*repo)
	if err == nil {
		absRepo, err = filepath.EvalSymlinks(absRepo)
	}
	if err != nil {
		fmt.Fprintln(os.Stderr, "effects:", err)
		os.Exit(2)
	}
	outPath := *out
	if outPath != "" && outPath != "-" {
		outPath, _ = filepath.Abs(outPath)
	}
	// the source importer resolves module imports through the go command: it must run inside the module
	if err := os.Chdir(absRepo); err != nil {
		fmt.Fprintln(os.Stderr, "effects:", err)
		os.Exit(2)
	}
	fset := token.NewFileSet()
	l := &loader{fset: fset, repo: absRepo, pkgs: map[string]*loaded{}}
	l.fallback = importer.ForCompiler(fset, "source", nil).(types.ImporterFrom)
	var pkgs []*loaded
	for _, rel := range pkgDirs {
		p, err := l.load(rel)
		if err != nil {
			fmt.Fprintln(os.Stderr, "effects: loading", rel, ":", err)
			os.Exit(1)
		}
		pkgs = append(pkgs, p)
	}
	if len(l.errs) > 0 {
		fmt.Fprintln(os.Stderr, "effects: type errors (fails closed):")
		for _, e := range l.errs {
			fmt.Fprintln(os.Stderr, "  ", e)
		}
		os.Exit(1)
	}

	// reachability from font.Font
	r := &reach{set: map[string]bool{}}
	for _, p := range pkgs {
		sc := p.pkg.Scope()
		for _, n := range sc.Names() {
			if tn, ok := sc.Lookup(n).(*types.TypeName); ok && !tn.IsAlias() {
				if nt, ok := tn.Type().(*types.Named); ok {
					r.named = append(r.named, nt)
				}
			}
		}
	}
	var fontT types.Type
	for _, p := range pkgs {
		if p.rel == "font" {
			if o := p.pkg.Scope().Lookup("Font"); o != nil {
				fontT = o.Type()
			}
		}
	}
	if fontT == nil {
		fmt.Fprintln(os.Stderr, "effects: type font.Font not found (fails closed)")
		os.Exit(1)
	}
	r.visit(fontT)

	var pkgEff, fntEff []effect
	ctorFns := map[string]bool{}
	ctorWrites := map[string]int{}
	ctorMutates := map[string]int{}
	handsOn := map[[2]string]bool{}
	calls := map[[2]string]bool{}
	assigned := map[*types.Var]bool{}
	initialised := map[*types.Var]bool{}
	wtr := map[string]types.Type{}
	stats := map[string]int{}
	var walkers []*walker
	for _, p := range pkgs {
		w := &walker{l: l, p: p, r: r, ctorFns: ctorFns, ctorWrites: ctorWrites, ctorMutates: ctorMutates, handsOn: handsOn, calls: calls, assignedPkgVars: assigned, initialised: initialised, writtenThroughRef: wtr}
		w.walkPackage()
		walkers = append(walkers, w)
		stats["writes_seen"] += w.nWritesSeen
		stats["writes_to_private_types"] += w.nPrivate
		stats["writes_into_value_copies_of_font_types"] += w.nValueLocal
		stats["writes_in_constructor_phase"] += w.nCtorSkipped
	}
	// refine address-taking of constant tables
	for _, w := range walkers {
		for _, pa := range w.pendingAddr {
			if assigned[pa.v] || !initialised[pa.v] || !pure(pa.v.Type(), map[types.Type]bool{}) {
				continue
			}
			// type-based alias check: nobody writes, through a reference, a value of a type the address exposes
			aliased := false
			for _, t := range pa.exposed {
				if _, ok := wtr[fullTypeString(t)]; ok {
					aliased = true
				}
			}
			if !aliased {
				w.pkgEff[pa.idx].class = "CReadOnlyAddr"
			}
		}
		pkgEff = append(pkgEff, w.pkgEff...)
		fntEff = append(fntEff, w.fntEff...)
	}
	less := func(s []effect) func(i, j int) bool {
		return func(i, j int) bool {
			a, b := s[i], s[j]
			if a.file != b.file {
				return a.file < b.file
			}
			if a.line != b.line {
				return a.line < b.line
			}
			if a.col != b.col {
				return a.col < b.col
			}
			return a.kind < b.kind
		}
	}
	sort.SliceStable(pkgEff, less(pkgEff))
	sort.SliceStable(fntEff, less(fntEff))

	var b bytes.Buffer
	fmt.Fprintf(&b, "(* GENERATED by go/cmd/effects from the library source on every run of ./check C17.  Do not edit.\n")
	fmt.Fprintf(&b, "   Write-effect facts for property C17; meaning of the fields and classes: go/cmd/effects/main.go,\n")
	fmt.Fprintf(&b, "   rules: Spec/Effects.v.  Analysed packages: %s.\n", strings.Join(pkgDirs, ", "))
	fmt.Fprintf(&b, "   Statistics of this run: %d syntactic writes examined; %d to types not reachable from font.Font (private\n",
		stats["writes_seen"], stats["writes_to_private_types"])
	fmt.Fprintf(&b, "   owners: Face, Buffer, shapers, FontMap, parsers ...); %d into by-value copies of reachable types;\n",
		stats["writes_into_value_copies_of_font_types"])
	fmt.Fprintf(&b, "   %d through references to reachable types inside constructor-phase functions (not listed);\n", stats["writes_in_constructor_phase"])
	fmt.Fprintf(&b, "   %d listed in font_writes; %d package-variable effects listed in package_writes. *)\n", len(fntEff), len(pkgEff))
	fmt.Fprintf(&b, "From Coq Require Import String List ZArith.\nFrom TV Require Import Model.Effects.\nImport ListNotations.\nLocal Open Scope string_scope.\nLocal Open Scope Z_scope.\n\n")

	fmt.Fprintf(&b, "(* constructor phase: functions whose name matches this expression ... *)\n")
	fmt.Fprintf(&b, "Definition constructor_name_pattern : string := %s.\n", coqString(ctorRE.String()))
	fmt.Fprintf(&b, "(* ... plus this explicit allow-list (qualified name, reason) *)\n")
	fmt.Fprintf(&b, "Definition constructor_allow_list : list (string * string) := [")
	var allowNames []string
	for k := range ctorAllow {
		allowNames = append(allowNames, k)
	}
	sort.Strings(allowNames)
	for i, k := range allowNames {
		if i > 0 {
			b.WriteString(";")
		}
		fmt.Fprintf(&b, "\n  (%s, %s)", coqString(k), coqString(ctorAllow[k]))
	}
	fmt.Fprintf(&b, "].\n")
	var cf []string
	for k := range ctorWrites {
		cf = append(cf, k)
	}
	sort.Strings(cf)
	fmt.Fprintf(&b, "(* %d functions of this tree are treated as constructor phase; these %d of them write through a reference\n", len(ctorFns), len(cf))
	fmt.Fprintf(&b, "   into a type reachable from font.Font (function, number of such writes): the writes that are NOT listed below *)\n")
	fmt.Fprintf(&b, "Definition constructor_functions_writing : list (string * Z) := [")
	for i, k := range cf {
		if i > 0 {
			b.WriteString(";")
		}
		if i%2 == 0 {
			b.WriteString("\n  ")
		} else {
			b.WriteString(" ")
		}
		fmt.Fprintf(&b, "(%s, %d)", coqString(k), ctorWrites[k])
	}
	fmt.Fprintf(&b, "].\n\n")

	// a constructor-phase function "writes" when it or a constructor-phase function it (transitively) calls does
	writesT := map[string]bool{}
	for k, n := range ctorMutates {
		if n > 0 {
			writesT[k] = true
		}
	}
	// ... or when it hands its own receiver / parameters on to such a function: a call whose receiver or argument
	// is rooted at the caller's receiver or a parameter (recorded in handsOn)
	for changed := true; changed; {
		changed = false
		for c := range handsOn {
			if ctorFns[c[0]] && ctorFns[c[1]] && writesT[c[1]] && !writesT[c[0]] {
				writesT[c[0]] = true
				changed = true
			}
		}
	}
	var late [][2]string
	for c := range calls {
		if !ctorFns[c[0]] && ctorFns[c[1]] && writesT[c[1]] {
			late = append(late, c)
		}
	}
	sort.Slice(late, func(i, j int) bool {
		if late[i][1] != late[j][1] {
			return late[i][1] < late[j][1]
		}
		return late[i][0] < late[j][0]
	})
	fmt.Fprintf(&b, "(* calls, from functions that are NOT constructor phase, of constructor-phase functions that write into a type\n")
	fmt.Fprintf(&b, "   reachable from font.Font through their receiver / a parameter / an expression (themselves or via constructor-phase\n")
	fmt.Fprintf(&b, "   callees they hand these on to): (callee, caller).  Spec/Effects.v admits only reviewed ones. *)\n")
	fmt.Fprintf(&b, "Definition constructor_functions_called_late : list (string * string) := [")
	for i, c := range late {
		if i > 0 {
			b.WriteString(";")
		}
		fmt.Fprintf(&b, "\n  (%s, %s)", coqString(c[1]), coqString(c[0]))
	}
	fmt.Fprintf(&b, "].\n\n")

	var rs []string
	for k := range r.set {
		rs = append(rs, k)
	}
	sort.Strings(rs)
	fmt.Fprintf(&b, "(* the %d named types reachable from font.Font by field types (an interface field reaches its implementations) *)\n", len(rs))
	fmt.Fprintf(&b, "Definition font_reachable : list string := [")
	for i, k := range rs {
		if i > 0 {
			b.WriteString(";")
		}
		if i%4 == 0 {
			b.WriteString("\n  ")
		} else {
			b.WriteString(" ")
		}
		b.WriteString(coqString(k))
	}
	fmt.Fprintf(&b, "].\n\n")

	dump := func(name string, effs []effect) {
		fmt.Fprintf(&b, "Definition %s : list effect := [", name)
		for i, e := range effs {
			if i > 0 {
				b.WriteString(";")
			}
			fmt.Fprintf(&b, "\n  mkEffect %s %d %s %s %s %s %s %s", coqString(e.file), e.line, coqString(e.v), coqString(e.fn),
				e.kind, e.class, coqString(e.owner), coqString(e.expr))
		}
		fmt.Fprintf(&b, "].\n\n")
	}
	dump("package_writes", pkgEff)
	dump("font_writes", fntEff)

	if *verbose {
		for _, k := range []string{"writes_seen", "writes_to_private_types", "writes_into_value_copies_of_font_types", "writes_in_constructor_phase"} {
			fmt.Fprintf(os.Stderr, "%s=%d\n", k, stats[k])
		}
		fmt.Fprintf(os.Stderr, "package_writes=%d font_writes=%d reachable_types=%d\n", len(pkgEff), len(fntEff), len(rs))
	}
	if outPath == "" || outPath == "-" {
		os.Stdout.Write(b.Bytes())
		return
	}
	if old, err := os.ReadFile(outPath); err == nil && bytes.Equal(old, b.Bytes()) {
		return // unchanged: keep the timestamp so that make rebuilds nothing
	}
	if err := os.MkdirAll(filepath.Dir(outPath), 0o755); err != nil {
		fmt.Fprintln(os.Stderr, "effects:", err)
		os.Exit(1)
	}
	if err := os.WriteFile(outPath, b.Bytes(), 0o644); err != nil {
		fmt.Fprintln(os.Stderr, "effects:", err)
		os.Exit(1)
	}
}
