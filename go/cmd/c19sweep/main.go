// Command c19sweep is the corpus part of property C19 (Go only, exploration in support of the proof): every font of the
// typesetting-utils corpus is read, its tables are re-written with opentype.WriteTTF and the result is checked with an
// independent 40-line sfnt directory reader (header search fields, directory order, checksums, offsets, lengths, bodies)
// and re-loaded with opentype.NewLoader (same tags, same bytes).  Prints JSON lines {"fail":..,"kind":..} and {"stats":..}.
package main

import (
	"bytes"
	"encoding/binary"
	"encoding/json"
	"flag"
	"fmt"
	"io/fs"
	"math/bits"
	"sort"

	td "github.com/go-text/typesetting-utils/opentype"
	ot "github.com/go-text/typesetting/font/opentype"
)

func emit(v any) {
	b, _ := json.Marshal(v)
	fmt.Println(string(b))
}

func checksum(b []byte) uint32 {
	var sum uint32
	for i := 0; i < len(b); i += 4 {
		var w [4]byte
		copy(w[:], b[i:])
		sum += binary.BigEndian.Uint32(w[:])
	}
	return sum
}

// validate is the independent reader: returns "" when file is a structurally valid sfnt holding exactly tables.
func validate(file []byte, tables []ot.Table) string {
	n := len(tables)
	if len(file) < 12+16*n {
		return "file shorter than its directory"
	}
	if binary.BigEndian.Uint32(file) != 0x00010000 || int(binary.BigEndian.Uint16(file[4:])) != n {
		return "bad magic or table count"
	}
	if n > 0 {
		lg := bits.Len(uint(n)) - 1
		if int(binary.BigEndian.Uint16(file[6:])) != 16<<lg || int(binary.BigEndian.Uint16(file[8:])) != lg ||
			int(binary.BigEndian.Uint16(file[10:])) != 16*n-16<<lg {
			return "bad search fields"
		}
	}
	off := 12 + 16*n
	for i, t := range tables {
		e := file[12+16*i:]
		if binary.BigEndian.Uint32(e) != uint32(t.Tag) {
			return fmt.Sprintf("entry %d: tag", i)
		}
		if binary.BigEndian.Uint32(e[4:]) != checksum(t.Content) {
			return fmt.Sprintf("entry %d (%s): checksum", i, t.Tag)
		}
		if int(binary.BigEndian.Uint32(e[8:])) != off || int(binary.BigEndian.Uint32(e[12:])) != len(t.Content) {
			return fmt.Sprintf("entry %d (%s): offset/length", i, t.Tag)
		}
		if off+len(t.Content) > len(file) || !bytes.Equal(file[off:off+len(t.Content)], t.Content) {
			return fmt.Sprintf("entry %d (%s): body", i, t.Tag)
		}
		off += len(t.Content)
	}
	if off != len(file) {
		return "trailing bytes"
	}
	return ""
}

func main() {
	tier := flag.String("tier", "quick", "quick|thorough")
	flag.Parse()
	var files []string
	fs.WalkDir(td.Files, ".", func(p string, d fs.DirEntry, err error) error {
		if err == nil && !d.IsDir() {
			files = append(files, p)
		}
		return nil
	})
	sort.Strings(files)
	limit := 60
	if *tier == "thorough" {
		limit = 1 << 30
	}
	fonts, tablesN, evaluations := 0, 0, 0
	hist := map[string]int{}
	var samples []string
	for _, name := range files {
		if fonts >= limit {
			break
		}
		data, err := td.Files.ReadFile(name)
		if err != nil {
			continue
		}
		lds, err := ot.NewLoaders(bytes.NewReader(data))
		if err != nil {
			hist["unreadable"]++
			continue
		}
		for idx, ld := range lds {
			func() {
				id := fmt.Sprintf("%s#%d", name, idx)
				defer func() {
					if p := recover(); p != nil {
						emit(map[string]any{"fail": fmt.Sprintf("%s: panic: %v", id, p), "kind": "panic", "input": id})
					}
				}()
				var tables []ot.Table
				for _, tag := range ld.Tables() { // sorted by tag
					content, err := ld.RawTable(tag)
					if err != nil {
						hist["table-unreadable"]++
						return
					}
					// keep spare capacity behind the content, filled with a sentinel
					back := make([]byte, len(content), len(content)+3)
					copy(back, content)
					back = append(back, 0xA5, 0xA5, 0xA5)[:len(content)]
					tables = append(tables, ot.Table{Tag: tag, Content: back})
				}
				fonts++
				tablesN += len(tables)
				evaluations++
				hist[fmt.Sprintf("len%%4=%d", 0)] += 0
				for _, t := range tables {
					hist[fmt.Sprintf("len%%4=%d", len(t.Content)%4)]++
				}
				if len(samples) < 3 {
					samples = append(samples, fmt.Sprintf("%s (%d tables)", id, len(tables)))
				}
				out := ot.WriteTTF(tables)
				if msg := validate(out, tables); msg != "" {
					emit(map[string]any{"fail": id + ": written file is not a valid sfnt: " + msg, "kind": "invalid", "input": id})
					return
				}
				for _, t := range tables {
					spare := t.Content[len(t.Content):cap(t.Content)]
					if !bytes.Equal(spare, []byte{0xA5, 0xA5, 0xA5}) {
						emit(map[string]any{"fail": id + ": WriteTTF wrote behind table " + t.Tag.String(), "kind": "aliasing", "input": id})
						return
					}
				}
				ld2, err := ot.NewLoader(bytes.NewReader(out))
				if err != nil {
					emit(map[string]any{"fail": id + ": re-written file does not load: " + err.Error(), "kind": "reload", "input": id})
					return
				}
				tags := ld2.Tables()
				if len(tags) != len(tables) {
					emit(map[string]any{"fail": id + ": tag count differs after round trip", "kind": "roundtrip", "input": id})
					return
				}
				for i, t := range tables {
					b, err := ld2.RawTable(t.Tag)
					if tags[i] != t.Tag || err != nil || !bytes.Equal(b, t.Content) {
						emit(map[string]any{"fail": fmt.Sprintf("%s: table %s differs after round trip (%v)", id, t.Tag, err), "kind": "roundtrip", "input": id})
						return
					}
				}
			}()
		}
	}
	hist["tables"] = tablesN
	if fonts == 0 {
		emit(map[string]any{"fail": "no corpus font could be loaded", "kind": "harness"})
	}
	emit(map[string]any{"stats": map[string]any{"evaluations": evaluations, "distinct_nontrivial": fonts, "histogram": hist, "samples": samples}})
}
