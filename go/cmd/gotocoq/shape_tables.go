package main

// Second generated file of property C20, Gen/ShapeTables.v: the Script constants, the vertical
// orientation table, the shaper's general category order, the Arabic joining table, the Indic and USE
// category tables with their page/range dispatch (read from the sources through internal/hbsrc:
// that part of the lookup is code), and the modified combining classes.

import (
	"fmt"
	"path/filepath"
	"sort"
	"strings"
	"unicode"

	hb "github.com/go-text/typesetting/harfbuzz"
	"github.com/go-text/typesetting/language"
	ucd "github.com/go-text/typesetting/unicodedata"

	"verifharness/internal/hbsrc"
)

func init() { extraGens["ShapeTables.v"] = shapeTables }

func zlist(sb *strings.Builder, xs []int64, per int) {
	sb.WriteString("[")
	for i, x := range xs {
		sep(sb, i, per)
		fmt.Fprintf(sb, "%d", x)
	}
	sb.WriteString("]")
}

func pagedDump(sb *strings.Builder, prefix string, pl *hbsrc.Paged, table []int64) {
	fmt.Fprintf(sb, "\n(* %s: switch u >> %s_shift { case page: clauses in order } ; return %s_default.\n", pl.Func, prefix, prefix)
	sb.WriteString("   A clause is (kind, lo, hi, sub, off): kind 0 = `if u == lo { return off }`,\n   kind 1 = `if lo <= u && u <= hi { return " + pl.Table + "[u-sub+off] }`. *)\n")
	fmt.Fprintf(sb, "Definition %s_shift : Z := %d.\nDefinition %s_default : Z := %d.\n", prefix, pl.Shift, prefix, pl.Default)
	fmt.Fprintf(sb, "Definition %s_pages : list (Z * list (Z*Z*Z*Z*Z)) :=\n  [", prefix)
	for i, pg := range pl.Pages {
		if i > 0 {
			sb.WriteString(";\n   ")
		}
		fmt.Fprintf(sb, "(%d, [", pg.Key)
		for j, c := range pg.Clauses {
			sep(sb, j, 4)
			fmt.Fprintf(sb, "(%d,%d,%d,%d,%d)", c.Kind, c.Lo, c.Hi, c.Sub, c.Off)
		}
		sb.WriteString("])")
	}
	sb.WriteString("].\n")
	fmt.Fprintf(sb, "Definition %s_table : list Z :=\n  ", prefix)
	zlist(sb, table, 32)
	sb.WriteString(".\n")
}

func shapeTables() string {
	var sb strings.Builder
	sb.WriteString(header)
	sb.WriteString("From TV Require Export Gen.UnicodeTables.\n")

	// ---- Script constants (declarations of language/scripts_table.go)
	scs, err := hbsrc.ScriptConsts(filepath.Dir(language.VerifC20SourceFile()))
	if err != nil {
		fail("script constants: %v", err)
	}
	sb.WriteString("\n(* the Script constants declared in language/scripts_table.go, sorted by name *)\nDefinition script_consts : list Z :=\n  [")
	for i, s := range scs {
		sep(&sb, i, 8)
		fmt.Fprintf(&sb, "%d", s.Val)
	}
	sb.WriteString("].\n")

	// ---- vertical orientation
	sb.WriteString("\n(* unicodedata.uprightOrMixedScripts in table order: (script, isMainSideways, exceptions); None = nil *)\n")
	sb.WriteString("Definition vo_table : list (Z * bool * option (list (Z*Z*Z))) :=\n  [")
	for i, v := range ucd.VerifC20UprightOrMixedScripts() {
		if i > 0 {
			sb.WriteString(";\n   ")
		}
		b := "false"
		if v.IsMainSideways {
			b = "true"
		}
		if v.Exceptions == nil {
			fmt.Fprintf(&sb, "(%d, %s, None)", uint32(v.Script), b)
		} else {
			fmt.Fprintf(&sb, "(%d, %s, Some %s)", uint32(v.Script), b, rtab(fmt.Sprintf("vo[%d]", i), v.Exceptions))
		}
	}
	sb.WriteString("].\n")

	// ---- harfbuzz general categories: index = generalCategory value, nil skipped; tables are the ugc_ ones
	own := map[*unicode.RangeTable]string{
		ucd.Cc: "Cc", ucd.Cf: "Cf", ucd.Co: "Co", ucd.Cs: "Cs", ucd.Ll: "Ll", ucd.Lm: "Lm", ucd.Lo: "Lo",
		ucd.Lt: "Lt", ucd.Lu: "Lu", ucd.Mc: "Mc", ucd.Me: "Me", ucd.Mn: "Mn", ucd.Nd: "Nd", ucd.Nl: "Nl",
		ucd.No: "No", ucd.Pc: "Pc", ucd.Pd: "Pd", ucd.Pe: "Pe", ucd.Pf: "Pf", ucd.Pi: "Pi", ucd.Po: "Po",
		ucd.Ps: "Ps", ucd.Sc: "Sc", ucd.Sk: "Sk", ucd.Sm: "Sm", ucd.So: "So", ucd.Zl: "Zl", ucd.Zp: "Zp", ucd.Zs: "Zs",
	}
	sb.WriteString("\n(* harfbuzz.generalCategories in scan order: (generalCategory value, table); nil entries skipped *)\n")
	sb.WriteString("Definition hb_generalCategories_order : list (nat * list (Z*Z*Z)) :=\n  [")
	k := 0
	for i, t := range hb.VerifC20GeneralCategories() {
		if t == nil {
			continue
		}
		n, ok := own[t]
		if !ok {
			fail("harfbuzz.generalCategories[%d] is not a table of unicodedata/general_category.go", i)
		}
		sep(&sb, k, 8)
		k++
		fmt.Fprintf(&sb, "(%d%%nat, ugc_%s)", i, n)
	}
	sb.WriteString("].\n")

	hp, err := hbsrc.Load(filepath.Dir(hb.VerifC20SourceFile()))
	if err != nil {
		fail("harfbuzz sources: %v", err)
	}
	cst := func(coq, goName string) {
		v, err := hp.Const(goName)
		if err != nil {
			fail("%v", err)
		}
		fmt.Fprintf(&sb, "Definition %s : Z := %d. (* %s *)\n", coq, v, goName)
	}
	sb.WriteString("(* generalCategory values used by the code *)\n")
	for _, n := range []string{"unassigned", "format", "privateUse", "surrogate", "enclosingMark", "nonSpacingMark", "spacingMark"} {
		cst("hb_gc_"+n, n)
	}

	// ---- Arabic joining
	sb.WriteString("\n(* harfbuzz.arabicJoinings, sorted by key: (code point, joining byte) *)\nDefinition arabic_joinings : list (Z*Z) :=\n  [")
	aj := hb.VerifC20ArabicJoinings()
	keys := make([]int, 0, len(aj))
	for r := range aj {
		keys = append(keys, int(r))
	}
	sort.Ints(keys)
	for i, r := range keys {
		sep(&sb, i, 10)
		fmt.Fprintf(&sb, "(%d,%d)", r, aj[rune(r)])
	}
	sb.WriteString("].\n(* constants of getJoiningType *)\n")
	for _, n := range []string{"ajU", "ajL", "ajR", "ajD", "ajAlaph", "ajDalathRish", "ajT", "ajC", "ajG",
		"joiningTypeU", "joiningTypeL", "joiningTypeR", "joiningTypeD", "joiningGroupAlaph", "joiningGroupDalathRish",
		"numStateMachineCols", "joiningTypeT", "joiningTypeC"} {
		cst("hb_"+n, n)
	}

	// ---- Indic and USE categories
	toZ16 := func(xs []uint16) []int64 {
		out := make([]int64, len(xs))
		for i, x := range xs {
			out[i] = int64(x)
		}
		return out
	}
	toZ8 := func(xs []uint8) []int64 {
		out := make([]int64, len(xs))
		for i, x := range xs {
			out[i] = int64(x)
		}
		return out
	}
	ind, err := hp.PagedLookup("ot_indic_table.go", "indicGetCategories")
	if err != nil {
		fail("%v", err)
	}
	if ind.Table != "indicTable" {
		fail("indicGetCategories reads %s, expected indicTable", ind.Table)
	}
	pagedDump(&sb, "indic", ind, toZ16(hb.VerifC20IndicTable()))
	use, err := hp.PagedLookup("ot_use_table.go", "getUSECategory")
	if err != nil {
		fail("%v", err)
	}
	if use.Table != "useTable" {
		fail("getUSECategory reads %s, expected useTable", use.Table)
	}
	pagedDump(&sb, "use", use, toZ8(hb.VerifC20USETable()))

	// ---- modified combining classes
	mcc := hb.VerifC20ModifiedCombiningClassTable()
	sb.WriteString("\n(* harfbuzz.modifiedCombiningClass (index = canonical combining class) *)\nDefinition modified_ccc : list Z :=\n  ")
	zlist(&sb, toZ8(mcc[:]), 32)
	sb.WriteString(".\n")
	return sb.String()
}
