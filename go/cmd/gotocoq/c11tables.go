package main

// Gen/C11Tables.v (property C11): the Macintosh byte decoding used by cmap format 0, the legacy arabic PUA
// remapping functions tabulated over all code points, and the per-language rune sets of fontscan.
// This file registers itself: init() runs before main and writes its output next to the other Gen files
// (main.go's table of generators is a local literal and is deliberately left untouched).

import (
	"fmt"
	"strings"

	"github.com/go-text/typesetting/font"
	"github.com/go-text/typesetting/font/opentype/tables"
	"github.com/go-text/typesetting/fontscan"
)

func c11Tables() string {
	var sb strings.Builder
	sb.WriteString(header)
	sb.WriteString("(* tables.DecodeMacintoshByte(b) for b = 0..255 *)\nDefinition macintosh_decode : list Z :=\n  [")
	for b := 0; b < 256; b++ {
		sep(&sb, b, 16)
		fmt.Fprintf(&sb, "%d", tables.DecodeMacintoshByte(byte(b)))
	}
	sb.WriteString("].\n")
	for k, name := range []string{"arabicPUASimp", "arabicPUATrad"} {
		fmt.Fprintf(&sb, "(* font.%sMap: every (r, mapped) with mapped <> 0, for r = -1024 .. 0x110000 in increasing order *)\nDefinition %s : list (Z*Z) :=\n  [", name, name)
		n := 0
		for r := rune(-1024); r <= 0x110000; r++ {
			s, t := font.VerifArabicPUAMaps(r)
			m := s
			if k == 1 {
				m = t
			}
			if m != 0 {
				sep(&sb, n, 8)
				n++
				fmt.Fprintf(&sb, "(%d,%d)", r, m)
			}
		}
		sb.WriteString("].\n")
		if n == 0 {
			fail("empty table %s", name)
		}
	}
	lr := fontscan.VerifLanguagesRunes()
	sb.WriteString("(* fontscan.languagesRunes: for each LangID (list index) the pages (ref, 8 uint32 words) of its rune set *)\n")
	sb.WriteString("Definition languagesRunes : list (list (Z * list Z)) :=\n  [")
	for i, rs := range lr {
		if i > 0 {
			sb.WriteString(";\n   ")
		}
		sb.WriteString("[")
		for j, p := range fontscan.VerifPages(rs) {
			if j > 0 {
				sb.WriteString("; ")
			}
			fmt.Fprintf(&sb, "(%d,[%d;%d;%d;%d;%d;%d;%d;%d])", p.Ref, p.Set[0], p.Set[1], p.Set[2], p.Set[3], p.Set[4], p.Set[5], p.Set[6], p.Set[7])
		}
		sb.WriteString("]")
	}
	sb.WriteString("].\n")
	if len(lr) == 0 {
		fail("empty languagesRunes")
	}
	return sb.String()
}

func init() { extraGens["C11Tables.v"] = c11Tables }
