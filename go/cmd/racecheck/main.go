// Command racecheck is the search / oracle of property C17: N goroutines run seeded random programs of
// Face / shaper / segmenter / FontMap operations over SHARED *font.Font values under the Go race detector, and
// every goroutine's results are compared with a sequential run of the same program.
//
//	go run ./cmd/racecheck -tier quick|thorough -seed S -build DIR     (supervisor, what ./check runs)
//
// The supervisor builds this same program with -race (CGO_ENABLED=1) into DIR, runs it with -worker under
// GORACE="exitcode=66 halt_on_error=1" and translates the outcome into JSON lines for ./check:
//
//	{"fail": "...", "kind": "race"|"mismatch"|"crash", "where": [...], "input": {...}}
//	{"stats": {"evaluations": .., "distinct_nontrivial": .., "histogram": {...}, "samples": [...]}}
//
// If the race-enabled runtime cannot be built the worker is built without it and the run degrades to a
// stress test that only compares results ("race_detector": false in the statistics).
//
// Each goroutine owns its Faces, its HarfbuzzShaper, its shaping.Segmenter and its fontscan.FontMap, exactly as
// the documented contract demands; only the *font.Font values (TrueType, CFF, CFF2, variable, AAT, bitmap, sbix,
// SVG) and the package-level tables are shared.
package main

import (
	"bufio"
	"bytes"
	"encoding/json"
	"flag"
	"fmt"
	"hash/fnv"
	"io"
	"log"
	"math/rand"
	"os"
	"os/exec"
	"path/filepath"
	"regexp"
	"runtime"
	"sort"
	"strings"
	"sync"
	"time"

	"github.com/go-text/typesetting/di"
	"github.com/go-text/typesetting/font"
	ot "github.com/go-text/typesetting/font/opentype"
	"github.com/go-text/typesetting/fontscan"
	"github.com/go-text/typesetting/language"
	"github.com/go-text/typesetting/shaping"
	"golang.org/x/image/math/fixed"
)

func emit(v any) {
	b, _ := json.Marshal(v)
	fmt.Println(string(b))
}

func main() {
	worker := flag.Bool("worker", false, "run the stress itself (normally started by the supervisor)")
	tier := flag.String("tier", "quick", "quick|thorough")
	seed := flag.Int64("seed", 1, "PRNG seed")
	build := flag.String("build", "", "directory for the race-enabled worker binary")
	fonts := flag.String("fonts", "", "root of the typesetting-utils module (worker)")
	norace := flag.Bool("norace", false, "supervisor: do not use the race detector")
	budget := flag.Duration("budget", 0, "worker: stop starting new rounds after this time (0 = tier default)")
	flag.Parse()
	if *worker {
		os.Exit(runWorker(*fonts, *tier, *seed, *budget))
	}
	os.Exit(supervise(*tier, *seed, *build, *norace))
}

// ------------------------------------------------------------------------------------------------
// supervisor

func fontsRoot() (string, error) {
	repo := os.Getenv("VERIF_REPO")
	if repo == "" {
		repo = "/repo"
	}
	cmd := exec.Command("go", "list", "-m", "-f", "{{.Dir}}", "github.com/go-text/typesetting-utils")
	cmd.Dir = repo
	out, err := cmd.Output()
	dir := strings.TrimSpace(string(out))
	if err == nil && dir != "" {
		return dir, nil
	}
	// fall back to the module cache
	gm, _ := exec.Command("go", "env", "GOMODCACHE").Output()
	matches, _ := filepath.Glob(filepath.Join(strings.TrimSpace(string(gm)), "github.com/go-text/typesetting-utils@*"))
	if len(matches) > 0 {
		sort.Strings(matches)
		return matches[len(matches)-1], nil
	}
	return "", fmt.Errorf("typesetting-utils module not found (go list: %v)", err)
}

var frameRE = regexp.MustCompile(`^\s+(/\S+\.go:\d+)`)

func supervise(tier string, seed int64, build string, norace bool) int {
	t0 := time.Now()
	if build == "" {
		build = os.TempDir()
	}
	os.MkdirAll(build, 0o755)
	froot, err := fontsRoot()
	if err != nil {
		fmt.Fprintln(os.Stderr, "racecheck:", err)
		return 2
	}
	exe := filepath.Join(build, "racecheck.worker")
	race := !norace
	if race {
		cmd := exec.Command("go", "build", "-race", "-o", exe, "./cmd/racecheck")
		cmd.Env = append(os.Environ(), "CGO_ENABLED=1")
		if out, err := cmd.CombinedOutput(); err != nil {
			fmt.Fprintf(os.Stderr, "racecheck: go build -race failed, falling back to a stress test without the race detector:\n%s\n", out)
			race = false
		}
	}
	if !race {
		cmd := exec.Command("go", "build", "-o", exe, "./cmd/racecheck")
		if out, err := cmd.CombinedOutput(); err != nil {
			fmt.Fprintf(os.Stderr, "racecheck: go build failed:\n%s\n", out)
			return 2
		}
	}
	buildS := time.Since(t0).Seconds()
	cmd := exec.Command(exe, "-worker", "-fonts", froot, "-tier", tier, "-seed", fmt.Sprint(seed))
	cmd.Env = append(os.Environ(), "GORACE=exitcode=66 halt_on_error=1")
	var stderr bytes.Buffer
	cmd.Stderr = &stderr
	stdout, _ := cmd.StdoutPipe()
	if err := cmd.Start(); err != nil {
		fmt.Fprintln(os.Stderr, "racecheck:", err)
		return 2
	}
	var stats map[string]any
	nfail := 0
	lastRound := map[string]any{}
	sc := bufio.NewScanner(stdout)
	sc.Buffer(make([]byte, 1<<20), 1<<24)
	for sc.Scan() {
		line := sc.Text()
		var obj map[string]any
		if json.Unmarshal([]byte(line), &obj) != nil {
			continue
		}
		switch {
		case obj["stats"] != nil:
			stats, _ = obj["stats"].(map[string]any)
		case obj["round"] != nil:
			lastRound = obj
		case obj["fail"] != nil:
			nfail++
			fmt.Println(line)
		}
	}
	err = cmd.Wait()
	code := 0
	if ee, ok := err.(*exec.ExitError); ok {
		code = ee.ExitCode()
	} else if err != nil {
		code = 2
	}
	report := stderr.String()
	if code != 0 && nfail == 0 || code == 66 {
		kind, what := "crash", "worker exited with status "+fmt.Sprint(code)
		switch {
		case code == 66 || strings.Contains(report, "WARNING: DATA RACE"):
			kind, what = "race", "data race reported by the Go race detector on state shared between goroutines"
		case strings.Contains(report, "concurrent map"):
			kind, what = "race", "Go runtime: "+firstLineWith(report, "concurrent map")
		case strings.Contains(report, "panic:"):
			what = firstLineWith(report, "panic:")
		}
		var where []string
		for _, l := range strings.Split(report, "\n") {
			if m := frameRE.FindStringSubmatch(l); m != nil && !strings.Contains(m[1], "/cmd/racecheck/") &&
				!strings.Contains(m[1], "/src/runtime/") && len(where) < 8 {
				where = append(where, m[1])
			}
		}
		if len(report) > 2500 {
			report = report[:2500] + "\n[...]"
		}
		repo := os.Getenv("VERIF_REPO")
		if repo == "" {
			repo = "/repo"
		}
		for i := range where {
			where[i] = strings.TrimPrefix(strings.TrimPrefix(where[i], repo), "/")
		}
		full := what
		if len(where) > 0 {
			n := len(where)
			if n > 3 {
				n = 3
			}
			full += "; innermost library frames of the first access: " + strings.Join(where[:n], " <- ")
		}
		emit(map[string]any{"fail": what, "what": full, "kind": kind, "where": where, "report": report,
			"input": map[string]any{"seed": seed, "tier": tier, "last_round_started": lastRound}})
		nfail++
	}
	if stats == nil {
		stats = map[string]any{}
	}
	stats["race_detector"] = race
	stats["build_s"] = buildS
	stats["wall_s"] = time.Since(t0).Seconds()
	emit(map[string]any{"stats": stats})
	if nfail > 0 {
		return 1
	}
	return 0
}

func firstLineWith(s, sub string) string {
	for _, l := range strings.Split(s, "\n") {
		if strings.Contains(l, sub) {
			return strings.TrimSpace(l)
		}
	}
	return sub
}

// ------------------------------------------------------------------------------------------------
// worker

type fontSpec struct {
	path string
	kind string
	tier string // "" = always, "thorough" = thorough only
}

var fontList = []fontSpec{
	{"opentype/common/Roboto-BoldItalic.ttf", "truetype", ""},
	{"opentype/common/Raleway-v4020-Regular.otf", "cff", ""},
	{"opentype/common/Lmmono-italic.otf", "cff", ""},
	{"opentype/toys/CFFTest.otf", "cff", ""},
	{"opentype/toys/CFF2-VF.otf", "cff2-variable", ""},
	{"opentype/common/NotoSansCJKjp-VF.otf", "cff2-variable", ""}, // the only CFF2 font with a non-empty variation store
	{"opentype/common/Commissioner-VF.ttf", "variable", ""},
	{"opentype/common/Selawik-VF.ttf", "variable", ""},
	{"opentype/common/SourceSans-VF-HVAR.ttf", "variable", ""},
	{"opentype/toys/Var1.ttf", "variable", ""},
	{"opentype/toys/GVAR-no-HVAR.ttf", "variable", ""},
	{"opentype/common/Mada-VF.ttf", "variable-arabic", ""},
	{"opentype/common/NotoSansArabic.ttf", "truetype-arabic", ""},
	{"opentype/toys/KacstQurn.ttf", "truetype-arabic-fallback", ""},
	{"opentype/common/NotoSansMongolian-Regular.ttf", "truetype-mongolian", ""},
	{"opentype/morx/One.ttf", "aat-morx", ""},
	{"opentype/morx/Four.ttf", "aat-morx", ""},
	{"opentype/morx/Eleven.ttf", "aat-morx", ""},
	{"opentype/morx/Seventeen.ttf", "aat-morx", ""},
	{"opentype/morx/Forty.ttf", "aat-morx", ""},
	{"opentype/toys/Trak.ttf", "aat-trak", ""},
	{"opentype/toys/Kern2.ttf", "aat-kern", ""},
	{"opentype/toys/Feat.ttf", "aat-feat", ""},
	{"opentype/toys/CBLC1.ttf", "bitmap", ""},
	{"opentype/toys/Sbix1.ttf", "bitmap-sbix", ""},
	{"opentype/toys/chromacheck-svg.ttf", "svg", ""},
	{"opentype/toys/GDEFCaretList3.ttf", "truetype", ""},
	{"opentype/common/DejaVuSans.ttf", "truetype", ""},
	{"opentype/bitmap/IBM3161-bitmap.otb", "bitmap", "thorough"},
	{"opentype/common/FreeSerif.ttf", "truetype", "thorough"},
	{"opentype/common/mplus-1p-regular.ttf", "truetype", "thorough"},
	{"opentype/common/Estedad-VF.ttf", "variable-arabic", "thorough"},
	{"opentype/common/OldaniaADFStd-Bold.otf", "cff", "thorough"},
	{"opentype/common/Go-Mono-Bold-Italic.ttf", "truetype", "thorough"},
	{"opentype/bitmap/NotoColorEmoji.ttf", "bitmap", "thorough"},
	{"harfbuzz/fonts/NotoNastaliqUrdu-Regular.ttf", "truetype-arabic", "thorough"},
}

type sharedFont struct {
	name   string
	kind   string
	ft     *font.Font
	runes  []rune // a sample of the runes the cmap covers
	maxGID int
	desc   font.Description
}

var texts = []string{
	"The quick brown fox, fi ffl 1/2 AVATAR To.",
	"Hello, world! (office) “quotes” — dash",
	"السلام عليكم ورحمة الله",
	"مرحبا Hello مرحبا 123",
	"שלום עולם",
	"नमस्ते दुनिया क्षत्रिय",
	"สวัสดีชาวโลก น้ำ",
	"ᠮᠣᠩᠭᠣᠯ ᠬᠡᠯᠡ",
	"日本語のテキスト、縦書き。",
	"é ǟ ộ ﬁ",
	"ABC abc 0123456789 +-*/=",
	"👍🏽 ❤️ 👨‍👩‍👧",
	"பொருள் ക്ഷ বাংলা",
	"ⓐⓑⓒ ½ ⅓ x² H₂O",
}

type opKind int

const (
	opNewFace opKind = iota
	opSetVar
	opSetPpem
	opExtents
	opHAdvance
	opVAdvance
	opGlyphData
	opNominal
	opMetrics
	opGlyphName
	opShape
	opSplit
	opAddFace
	opResolve
	opVOrigin
	nOpKinds
)

var opNames = [...]string{"NewFace", "SetVariations", "SetPpem", "GlyphExtents", "HorizontalAdvance", "VerticalAdvance",
	"GlyphData", "NominalGlyph", "FontMetrics", "GlyphName", "Shape", "Segmenter.Split", "FontMap.AddFace",
	"FontMap.ResolveFace", "GlyphVOrigin"}

type op struct {
	Kind opKind  `json:"k"`
	Font int     `json:"f"`
	A    int     `json:"a"`
	B    int     `json:"b"`
	V    float32 `json:"v"`
}

func (o op) String() string {
	return fmt.Sprintf("%s(font=%d,a=%d,b=%d,v=%v)", opNames[o.Kind], o.Font, o.A, o.B, o.V)
}

func genProgram(r *rand.Rand, nFonts, nOps int) []op {
	// a program concentrates on a few fonts so that goroutines collide on them
	focus := []int{r.Intn(nFonts), r.Intn(nFonts), r.Intn(nFonts)}
	weights := []struct {
		k opKind
		w int
	}{{opNewFace, 4}, {opSetVar, 4}, {opSetPpem, 2}, {opExtents, 14}, {opHAdvance, 10}, {opVAdvance, 4}, {opGlyphData, 12},
		{opNominal, 10}, {opMetrics, 4}, {opGlyphName, 3}, {opShape, 16}, {opSplit, 5}, {opAddFace, 4}, {opResolve, 6}, {opVOrigin, 2}}
	total := 0
	for _, w := range weights {
		total += w.w
	}
	prog := make([]op, 0, nOps)
	for len(prog) < nOps {
		x := r.Intn(total)
		var k opKind
		for _, w := range weights {
			if x < w.w {
				k = w.k
				break
			}
			x -= w.w
		}
		f := focus[r.Intn(len(focus))]
		if r.Intn(5) == 0 {
			f = r.Intn(nFonts)
		}
		prog = append(prog, op{Kind: k, Font: f, A: r.Intn(1 << 20), B: r.Intn(1 << 20), V: float32(r.Intn(1000))})
	}
	return prog
}

type nullLogger struct{}

func (nullLogger) Printf(string, ...interface{}) {}

// env is the private state of one goroutine
type env struct {
	fonts   []*sharedFont
	index   map[*font.Font]int
	faces   map[int]*font.Face
	shaper  shaping.HarfbuzzShaper
	seg     shaping.Segmenter
	fm      *fontscan.FontMap
	fmFaces int
}

func newEnv(fonts []*sharedFont, index map[*font.Font]int) *env {
	return &env{fonts: fonts, index: index, faces: map[int]*font.Face{}, fm: fontscan.NewFontMap(nullLogger{})}
}

func (e *env) face(i int) *font.Face {
	f, ok := e.faces[i]
	if !ok {
		f = font.NewFace(e.fonts[i].ft)
		e.faces[i] = f
	}
	return f
}

// fontIndex identifies a resolved face: index of the shared font, or the font's family for a system font
func (e *env) fontIndex(f *font.Face) string {
	if f == nil {
		return "nil"
	}
	if i, ok := e.index[f.Font]; ok {
		return fmt.Sprint(i)
	}
	return "system:" + f.Font.Describe().Family
}

func (e *env) addFace(i int) {
	sf := e.fonts[i]
	e.fm.AddFace(e.face(i), fontscan.Location{File: sf.name}, sf.desc)
	e.fmFaces++
}

func digestOutline(h io.Writer, o font.GlyphOutline) {
	fmt.Fprintf(h, "outline %d:", len(o.Segments))
	for _, s := range o.Segments {
		fmt.Fprintf(h, "%d %v;", s.Op, s.Args)
	}
}

func digestBytes(b []byte) uint64 {
	h := fnv.New64a()
	h.Write(b)
	return h.Sum64()
}

func (e *env) gid(o op) font.GID {
	// the glyph count is not exported: 1 + the largest glyph of the cmap, widened (unmapped glyphs such as
	// ligatures and components lie above; glyphs outside the font are legal inputs)
	n := e.fonts[o.Font].maxGID + 1
	return font.GID(o.A % (n + n/4 + 3))
}

func (e *env) rune(o op) rune {
	sf := e.fonts[o.Font]
	if len(sf.runes) == 0 || o.B%8 == 0 {
		return rune(o.A % 0x3000)
	}
	return sf.runes[o.A%len(sf.runes)]
}

func (e *env) text(o op) []rune {
	if o.B%5 == 0 {
		sf := e.fonts[o.Font]
		if len(sf.runes) > 0 {
			n := 2 + o.A%12
			out := make([]rune, n)
			for i := range out {
				out[i] = sf.runes[(o.A+i*7919)%len(sf.runes)]
			}
			return out
		}
	}
	return []rune(texts[o.A%len(texts)])
}

// exec runs one operation and returns a digest of everything it observed
func (e *env) exec(o op) uint64 {
	h := fnv.New64a()
	sf := e.fonts[o.Font]
	switch o.Kind {
	case opNewFace:
		e.faces[o.Font] = font.NewFace(sf.ft)
		fmt.Fprint(h, sf.maxGID, sf.ft.Upem())
	case opSetVar:
		f := e.face(o.Font)
		switch o.A % 4 {
		case 0:
			f.SetVariations(nil)
		default:
			f.SetVariations([]font.Variation{
				{Tag: ot.MustNewTag("wght"), Value: 100 + o.V},
				{Tag: ot.MustNewTag("wdth"), Value: 50 + float32(o.B%150)},
				{Tag: ot.MustNewTag("slnt"), Value: -float32(o.B % 12)},
			})
		}
		fmt.Fprint(h, f.Coords())
	case opSetPpem:
		f := e.face(o.Font)
		p := uint16([]int{0, 9, 16, 20, 32, 109, 128}[o.A%7])
		f.SetPpem(p, p)
		fmt.Fprint(h, p)
	case opExtents:
		ext, ok := e.face(o.Font).GlyphExtents(e.gid(o))
		fmt.Fprint(h, ext, ok)
	case opHAdvance:
		fmt.Fprint(h, e.face(o.Font).HorizontalAdvance(e.gid(o)))
	case opVAdvance:
		fmt.Fprint(h, e.face(o.Font).VerticalAdvance(e.gid(o)))
	case opVOrigin:
		x, y, ok := e.face(o.Font).GlyphVOrigin(e.gid(o))
		fmt.Fprint(h, x, y, ok)
	case opGlyphData:
		switch d := e.face(o.Font).GlyphData(e.gid(o)).(type) {
		case font.GlyphOutline:
			digestOutline(h, d)
		case font.GlyphBitmap:
			fmt.Fprint(h, "bitmap", d.Format, d.Width, d.Height, len(d.Data), digestBytes(d.Data))
			if d.Outline != nil {
				digestOutline(h, *d.Outline)
			}
		case font.GlyphSVG:
			fmt.Fprint(h, "svg", len(d.Source), digestBytes(d.Source))
			digestOutline(h, d.Outline)
		default:
			fmt.Fprint(h, "nil")
		}
	case opNominal:
		r := e.rune(o)
		g, ok := e.face(o.Font).NominalGlyph(r)
		g2, ok2 := sf.ft.VariationGlyph(r, 0xFE0F)
		fmt.Fprint(h, g, ok, g2, ok2)
	case opMetrics:
		f := e.face(o.Font)
		he, ok1 := f.FontHExtents()
		ve, ok2 := f.FontVExtents()
		fmt.Fprint(h, he, ok1, ve, ok2)
		for m := font.UnderlinePosition; m <= font.XHeight; m++ {
			fmt.Fprint(h, f.LineMetric(m))
		}
	case opGlyphName:
		fmt.Fprint(h, sf.ft.GlyphName(e.gid(o)))
	case opShape:
		text := e.text(o)
		in := shaping.Input{Text: text, RunStart: 0, RunEnd: len(text), Face: e.face(o.Font),
			Size: fixed.I(8 + o.B%40), Script: scriptOf(text), Language: language.NewLanguage([]string{"en", "ar", "fa", "tr", "hi"}[o.B%5])}
		switch o.B % 7 {
		case 0:
			in.Direction = di.DirectionTTB
		default:
			if isRTL(in.Script) {
				in.Direction = di.DirectionRTL
			}
		}
		if o.B%3 == 0 {
			in.FontFeatures = []shaping.FontFeature{{Tag: ot.MustNewTag("liga"), Value: uint32(o.A % 2)}, {Tag: ot.MustNewTag("smcp"), Value: 1}}
		}
		out := e.shaper.Shape(in)
		fmt.Fprint(h, out.Advance, out.LineBounds, out.GlyphBounds, out.Runes, len(out.Glyphs))
		for _, g := range out.Glyphs {
			fmt.Fprint(h, g.GlyphID, g.ClusterIndex, g.RuneCount, g.GlyphCount, g.XAdvance, g.YAdvance, g.XOffset, g.YOffset,
				g.Width, g.Height, g.XBearing, g.YBearing, g.Mask, ";")
		}
	case opAddFace:
		e.addFace(o.Font)
		fmt.Fprint(h, e.fmFaces)
	case opResolve:
		if e.fmFaces == 0 {
			e.addFace(o.Font)
		}
		if o.B%4 == 0 {
			e.fm.SetQuery(fontscan.Query{Families: []string{e.fonts[o.A%len(e.fonts)].desc.Family}})
		}
		face := e.fm.ResolveFace(e.rune(o))
		fmt.Fprint(h, e.fontIndex(face))
	case opSplit:
		if e.fmFaces == 0 {
			e.addFace(o.Font)
			e.addFace((o.Font + 1) % len(e.fonts))
		}
		text := []rune(texts[o.A%len(texts)] + " " + texts[o.B%len(texts)])
		in := shaping.Input{Text: text, RunStart: 0, RunEnd: len(text), Size: fixed.I(16), Language: language.NewLanguage("en"),
			Direction: di.DirectionLTR}
		if o.B%3 == 0 {
			in.Direction = di.DirectionRTL
		}
		for _, run := range e.seg.Split(in, e.fm) {
			fmt.Fprint(h, run.RunStart, run.RunEnd, run.Direction, run.Script, e.fontIndex(run.Face), ";")
		}
	}
	return h.Sum64()
}

func scriptOf(text []rune) language.Script {
	for _, r := range text {
		s := language.LookupScript(r)
		if s != language.Common && s != language.Inherited && s != language.Unknown {
			return s
		}
	}
	return language.Latin
}

func isRTL(s language.Script) bool {
	return s == language.Arabic || s == language.Hebrew
}

// sysCache is the directory handed to FontMap.UseSystemFonts ("" = do not exercise it)
var sysCache string

func runProgram(fonts []*sharedFont, index map[*font.Font]int, prog []op, yield *rand.Rand) []uint64 {
	e := newEnv(fonts, index)
	out := make([]uint64, len(prog))
	for i, o := range prog {
		out[i] = e.exec(o)
		if yield != nil && yield.Intn(4) == 0 {
			runtime.Gosched() // scheduling pressure
		}
	}
	return out
}

// systemFontsPhase exercises the one piece of package-level state written after init: the system font index
// behind its sync.Once.  All goroutines call UseSystemFonts at once on their own FontMap, then resolve a few
// runes; the answers (family names) must be those of a FontMap used alone afterwards.
func systemFontsPhase(nG int) (mismatch string, ops int) {
	if sysCache == "" {
		return "", 0
	}
	probe := []rune("aé1 Ωж中ع")
	run := func() string {
		fm := fontscan.NewFontMap(nullLogger{})
		if err := fm.UseSystemFonts(sysCache); err != nil {
			return "no system fonts" // nothing to compare on this machine
		}
		var b strings.Builder
		for _, r := range probe {
			if f := fm.ResolveFace(r); f != nil {
				b.WriteString(f.Font.Describe().Family + ";")
			}
		}
		return b.String()
	}
	res := make([]string, nG)
	var wg sync.WaitGroup
	gate := make(chan struct{})
	for g := 0; g < nG; g++ {
		wg.Add(1)
		go func(g int) {
			defer wg.Done()
			<-gate
			res[g] = run()
		}(g)
	}
	close(gate)
	wg.Wait()
	ref := run()
	for g := range res {
		if res[g] != ref && res[g] != "no system fonts" && ref != "no system fonts" {
			return fmt.Sprintf("goroutine %d resolved %q over the system fonts, a FontMap used alone resolves %q", g, res[g], ref), nG * len(probe)
		}
	}
	return "", nG * (1 + len(probe))
}

func loadFonts(root, tier string) ([]*sharedFont, error) {
	var out []*sharedFont
	for _, fs := range fontList {
		if fs.tier == "thorough" && tier != "thorough" {
			continue
		}
		data, err := os.ReadFile(filepath.Join(root, filepath.FromSlash(fs.path)))
		if err != nil {
			continue // not in this version of the corpus
		}
		face, err := font.ParseTTF(bytes.NewReader(data))
		if err != nil {
			continue
		}
		sf := &sharedFont{name: fs.path, kind: fs.kind, ft: face.Font, desc: face.Font.Describe()}
		it := face.Font.Cmap.Iter()
		n := 0
		for it.Next() {
			r, g := it.Char()
			if int(g) > sf.maxGID && g < 1<<16 {
				sf.maxGID = int(g)
			}
			if n%7 == 0 && len(sf.runes) < 400 {
				sf.runes = append(sf.runes, r)
			}
			n++
		}
		out = append(out, sf)
	}
	if len(out) < 5 {
		return nil, fmt.Errorf("only %d fonts could be loaded from %s", len(out), root)
	}
	return out, nil
}

func runWorker(root, tier string, seed int64, budget time.Duration) int {
	log.SetOutput(io.Discard)
	nG, nOps := 16, 60
	if budget == 0 {
		budget = 12 * time.Second
	}
	if tier == "thorough" {
		nG, nOps = 64, 120
		if budget == 12*time.Second {
			budget = 8 * time.Minute
		}
	}
	if d, err := os.MkdirTemp("", "racecheck-fontcache"); err == nil {
		sysCache = d
		defer os.RemoveAll(d)
	}
	fonts, err := loadFonts(root, tier)
	if err != nil {
		fmt.Fprintln(os.Stderr, "racecheck worker:", err)
		return 2
	}
	index := map[*font.Font]int{}
	kinds := map[string]int{}
	for i, f := range fonts {
		index[f.ft] = i
		kinds["font:"+f.kind]++
	}
	hist := map[string]int{}
	for k, v := range kinds {
		hist[k] = v
	}
	start := time.Now()
	evaluations, rounds, fails := 0, 0, 0
	distinct := map[uint64]bool{}
	var samples []any
	procs := []int{runtime.NumCPU(), 4, 2, runtime.NumCPU(), 8}
	emit(map[string]any{"round": "system-fonts", "goroutines": nG})
	if mm, n := systemFontsPhase(nG); mm != "" {
		fails++
		emit(map[string]any{"fail": "goroutine result differs from the sequential run", "kind": "mismatch", "what": mm,
			"input": map[string]any{"seed": seed, "tier": tier, "round": "system-fonts"}})
	} else {
		evaluations += n
		hist["op:FontMap.UseSystemFonts+ResolveFace"] = n
	}
	for round := 0; fails == 0 && time.Since(start) < budget; round++ {
		rounds++
		runtime.GOMAXPROCS(procs[round%len(procs)])
		progs := make([][]op, nG)
		for g := range progs {
			r := rand.New(rand.NewSource(seed*1000003 + int64(round)*1009 + int64(g)))
			progs[g] = genProgram(r, len(fonts), nOps)
			if round%3 == 2 && g > 0 && g%2 == 1 {
				progs[g] = progs[g-1] // identical programs collide on the same glyphs
			}
		}
		emit(map[string]any{"round": round, "goroutines": nG, "ops": nOps, "gomaxprocs": procs[round%len(procs)]})
		if round == 0 {
			samples = append(samples, map[string]any{"seed": seed, "round": 0, "goroutine": 0, "program": progs[0][:6]})
		}
		results := make([][]uint64, nG)
		var wg sync.WaitGroup
		gate := make(chan struct{})
		for g := 0; g < nG; g++ {
			wg.Add(1)
			go func(g int) {
				defer wg.Done()
				y := rand.New(rand.NewSource(seed + int64(g)*77 + int64(round)))
				<-gate
				results[g] = runProgram(fonts, index, progs[g], y)
			}(g)
		}
		close(gate)
		wg.Wait()
		// each goroutine must have obtained what it obtains running alone
		for g := 0; g < nG; g++ {
			ref := runProgram(fonts, index, progs[g], nil)
			ph := fnv.New64a()
			for i := range ref {
				fmt.Fprint(ph, ref[i])
				hist["op:"+opNames[progs[g][i].Kind]]++
				if ref[i] != results[g][i] && fails < 5 {
					fails++
					emit(map[string]any{"fail": "goroutine result differs from the sequential run of the same program", "kind": "mismatch",
						"what": fmt.Sprintf("goroutine %d obtained a different result for %s on %s than the same program run alone", g, progs[g][i].String(), fonts[progs[g][i].Font].name),
						"input": map[string]any{"seed": seed, "tier": tier, "round": round, "goroutine": g, "op_index": i,
							"op": progs[g][i].String(), "font": fonts[progs[g][i].Font].name}})
				}
			}
			evaluations += len(ref)
			distinct[ph.Sum64()] = true
		}
		if fails > 0 {
			break
		}
	}
	emit(map[string]any{"stats": map[string]any{"evaluations": evaluations, "distinct_nontrivial": len(distinct), "rounds": rounds,
		"goroutines": nG, "ops_per_goroutine": nOps, "fonts": len(fonts), "histogram": hist, "samples": samples}})
	if fails > 0 {
		return 1
	}
	return 0
}
