package main

import (
	"encoding/json"
	"fmt"

	"github.com/go-text/typesetting/di"
	"github.com/go-text/typesetting/shaping"
	"golang.org/x/image/math/fixed"

	"verifharness/internal/vh"
)

// ---- driver c08: computeBidiOrdering -------------------------------------------------------------

// c08Input is either an exhaustive block (Batch) or one line with explicit levels and directions.
type c08Input struct {
	Batch bool `json:"batch,omitempty"`
	// block: horizontal paragraph of level PLevel, N runs, level sequences number From..From+Count-1
	// (base-4 digits added to PLevel), Direction = parity of the level
	PLevel int `json:"plevel"`
	N      int `json:"n,omitempty"`
	From   int `json:"from,omitempty"`
	Count  int `json:"count,omitempty"`
	// single line
	PDir   uint8   `json:"pdir,omitempty"`
	Levels []int   `json:"levels,omitempty"`
	Dirs   []int   `json:"dirs,omitempty"`
	Vis0   []int32 `json:"vis0,omitempty"`
}

func init() {
	drivers["c08"] = &driver{
		header: "From TV Require Import Check.C08.",
		shard:  60,
		n: func(tier string) int {
			if tier == "quick" {
				return 600
			}
			return 20000
		},
		decode: func(raw json.RawMessage) (any, error) {
			var in c08Input
			err := json.Unmarshal(raw, &in)
			return in, err
		},
		gen: c08Gen,
		run: c08Run,
	}
}

const c08Block = 128

func c08Gen(r *vh.Rand, tier string, n int, emit func(any)) {
	// exhaustive: all level sequences of <= 7 runs over 4 levels, both paragraph levels (43690 sequences);
	// the thorough tier and the widened search go to 8 runs
	maxN := 7
	if tier != "quick" {
		maxN = 8
	}
	for p := 0; p <= 1; p++ {
		for k := 0; k <= maxN; k++ {
			total := 1 << (2 * k)
			for from := 0; from < total; from += c08Block {
				cnt := c08Block
				if from+cnt > total {
					cnt = total - from
				}
				emit(c08Input{Batch: true, PLevel: p, N: k, From: from, Count: cnt})
			}
		}
	}
	// random lines: longer, deeper, vertical with orientation bits, stale VisualIndex values
	for i := 0; i < n; i++ {
		p := r.Intn(2)
		k := r.Range(0, 12)
		if r.Chance(15) {
			k = r.Range(13, 40)
		}
		span := 2 // levels p, p+1
		switch r.Intn(4) {
		case 0:
			span = r.Range(3, 6)
		case 1:
			span = 1
		}
		vertical := r.Chance(40)
		flags := func() uint8 {
			if !vertical {
				return 0
			}
			switch r.Intn(3) {
			case 0:
				return 2 // plain vertical
			case 1:
				return 2 | 4 // upright
			default:
				return 2 | 4 | 8 // sideways
			}
		}
		in := c08Input{PLevel: p, PDir: flags() | uint8(p)}
		run := 0
		lv := p
		for j := 0; j < k; j++ {
			if run == 0 { // runs of equal levels make multi-run sequences likely
				lv = p + r.Intn(span)
				run = r.Range(1, 3)
			}
			run--
			in.Levels = append(in.Levels, lv)
			in.Dirs = append(in.Dirs, int(flags()|uint8(lv&1)))
			v := int32(0)
			if r.Chance(50) {
				v = int32(r.Range(-3, 50))
			}
			in.Vis0 = append(in.Vis0, v)
		}
		emit(in)
	}
}

func c08Run(o *vh.Out, inAny any) {
	in := inAny.(c08Input)
	if in.Batch {
		var viss []int64
		var panicked any
		func() {
			defer func() { panicked = recover() }()
			line := make(shaping.Line, in.N)
			for c := in.From; c < in.From+in.Count; c++ {
				code := c
				for i := in.N - 1; i >= 0; i-- {
					lv := in.PLevel + code%4
					code /= 4
					line[i] = shaping.Output{Direction: di.Direction(lv & 1)}
				}
				shaping.VerifComputeBidiOrdering(di.Direction(in.PLevel), line)
				vc := int64(0)
				for i := 0; i < in.N; i++ {
					v := int64(line[i].VisualIndex)
					if v < 0 || v > 15 { // not encodable; 15 is never a valid index for n <= 8
						v = 15
					}
					vc = vc*16 + v
				}
				viss = append(viss, vc)
			}
		}()
		coq := vh.App("Batch", fmt.Sprintf("%d%%nat", in.PLevel), fmt.Sprintf("%d%%nat", in.N), vh.Zi(in.From), vh.ZList(viss))
		idx := o.Add(in, coq, coq, fmt.Sprintf("batch n=%d", in.N))
		for i := 0; i < in.Count; i++ {
			o.Count("sequences")
		}
		if panicked != nil {
			o.Fail(idx, "panic", fmt.Sprint(panicked))
		}
		return
	}
	line := make(shaping.Line, len(in.Dirs))
	for i := range line {
		line[i] = shaping.Output{Direction: di.Direction(in.Dirs[i]), VisualIndex: in.Vis0[i]}
	}
	var panicked any
	func() {
		defer func() { panicked = recover() }()
		shaping.VerifComputeBidiOrdering(di.Direction(in.PDir), line)
	}()
	lv := make([]string, len(in.Levels))
	dirs := make([]int64, len(in.Dirs))
	vis0 := make([]int64, len(in.Dirs))
	vis := make([]int64, len(in.Dirs))
	deep := false
	for i := range in.Levels {
		lv[i] = fmt.Sprint(in.Levels[i])
		dirs[i] = int64(in.Dirs[i])
		vis0[i] = int64(in.Vis0[i])
		vis[i] = int64(line[i].VisualIndex)
		if in.Levels[i] >= in.PLevel+2 {
			deep = true
		}
	}
	coq := vh.App("One", vh.Z(int64(in.PDir)), fmt.Sprintf("%d%%nat", in.PLevel), "("+vh.List(lv)+"%nat)", vh.ZList(dirs), vh.ZList(vis0), vh.ZList(vis))
	key := ""
	if len(in.Levels) > 1 {
		key = coq
	}
	idx := o.Add(in, coq, key, fmt.Sprintf("one n=%d", bucket(len(in.Levels))), fmt.Sprintf("one pdir=%d", in.PDir), fmt.Sprintf("one deep=%v", deep))
	if panicked != nil {
		o.Fail(idx, "panic", fmt.Sprint(panicked))
	}
}

// ---- driver c08pp: postProcessLine -----------------------------------------------------------------

type c08Run_ struct {
	Dir    uint8    `json:"dir"`
	Vis    int32    `json:"vis"`
	Adv    int      `json:"adv"`
	Off    int      `json:"off"`
	Cnt    int      `json:"cnt"`
	Glyphs [][4]int `json:"glyphs"` // Width, Height, XAdvance, YAdvance
}

type c08ppInput struct {
	PDir          uint8     `json:"pdir"`
	PLevel        int       `json:"plevel"`
	DisableTrim   bool      `json:"disable_trim"`
	TruncateAfter int       `json:"truncate_after"`
	TextContinues bool      `json:"text_continues"`
	Truncator     c08Run_   `json:"truncator"`
	TLevel        int       `json:"tlevel"`
	Total         int       `json:"total"`
	LineStart     int       `json:"line_start"`
	Done          bool      `json:"done"`
	Line          []c08Run_ `json:"line"`
	Levels        []int     `json:"levels"`
}

func init() {
	drivers["c08pp"] = &driver{
		header: "From TV Require Import Check.C08pp.",
		shard:  60,
		n: func(tier string) int {
			if tier == "quick" {
				return 900
			}
			return 20000
		},
		decode: func(raw json.RawMessage) (any, error) {
			var in c08ppInput
			err := json.Unmarshal(raw, &in)
			return in, err
		},
		gen: c08ppGen,
		run: c08ppRun,
	}
}

func c08ppGenRun(r *vh.Rand, dir uint8, off, cnt int, maxGlyphs int) c08Run_ {
	run := c08Run_{Dir: dir, Vis: int32(r.Range(0, 9)), Off: off, Cnt: cnt}
	ng := r.Range(0, maxGlyphs)
	if r.Chance(10) {
		ng = 0
	}
	sum := 0
	for g := 0; g < ng; g++ {
		ext := func() int {
			if r.Chance(45) {
				return 0
			}
			return r.Range(-700, 700)
		}
		adv := func() int {
			if r.Chance(10) {
				return 0
			}
			return r.Range(-900, 900)
		}
		gl := [4]int{ext(), ext(), adv(), adv()}
		if dir&2 != 0 {
			sum += gl[3]
		} else {
			sum += gl[2]
		}
		run.Glyphs = append(run.Glyphs, gl)
	}
	run.Adv = sum
	if r.Chance(15) { // stale Advance: only the trimmed run is recomputed
		run.Adv = r.Range(-100, 3000)
	}
	return run
}

func c08ppGen(r *vh.Rand, tier string, n int, emit func(any)) {
	for i := 0; i < n; i++ {
		p := r.Intn(2)
		vertical := r.Chance(35)
		flags := func() uint8 {
			if !vertical {
				return 0
			}
			return [3]uint8{2, 6, 14}[r.Intn(3)]
		}
		in := c08ppInput{PLevel: p, PDir: flags() | uint8(p), DisableTrim: r.Chance(15), TextContinues: r.Chance(30), Done: r.Chance(20)}
		switch r.Intn(4) {
		case 0:
			in.TruncateAfter = 0
		case 1, 2:
			in.TruncateAfter = 1
		default:
			in.TruncateAfter = r.Range(2, 3)
		}
		k := r.Range(0, 6)
		if r.Chance(8) {
			k = r.Range(7, 14)
		}
		span := 2
		if r.Chance(25) {
			span = r.Range(3, 4)
		}
		pos := r.Range(0, 5)
		in.LineStart = pos
		if r.Chance(10) {
			in.LineStart = r.Range(0, 9)
		}
		for j := 0; j < k; j++ {
			lv := p + r.Intn(span)
			cnt := r.Range(1, 4)
			in.Levels = append(in.Levels, lv)
			in.Line = append(in.Line, c08ppGenRun(r, flags()|uint8(lv&1), pos, cnt, 4))
			pos += cnt
		}
		in.Total = pos
		if r.Chance(60) {
			in.Total = pos + r.Range(1, 9)
		}
		in.TLevel = p + r.Intn(2)
		in.Truncator = c08ppGenRun(r, flags()|uint8(in.TLevel&1), r.Range(0, 3), r.Range(0, 3), 2)
		emit(in)
	}
}

func c08ppOutput(rn c08Run_) shaping.Output {
	out := shaping.Output{Direction: di.Direction(rn.Dir), VisualIndex: rn.Vis, Advance: fixed.Int26_6(rn.Adv),
		Runes: shaping.Range{Offset: rn.Off, Count: rn.Cnt}}
	for _, g := range rn.Glyphs {
		out.Glyphs = append(out.Glyphs, shaping.Glyph{Width: fixed.Int26_6(g[0]), Height: fixed.Int26_6(g[1]),
			XAdvance: fixed.Int26_6(g[2]), YAdvance: fixed.Int26_6(g[3])})
	}
	return out
}

func c08ppCoqRun(o shaping.Output) string {
	gs := make([]string, len(o.Glyphs))
	for i, g := range o.Glyphs {
		gs[i] = vh.App("mkGlyph", vh.Z(int64(g.Width)), vh.Z(int64(g.Height)), vh.Z(int64(g.XAdvance)), vh.Z(int64(g.YAdvance)))
	}
	return vh.App("mkRun", vh.Z(int64(o.Direction)), vh.Z(int64(o.VisualIndex)), vh.Z(int64(o.Advance)),
		vh.Zi(o.Runes.Offset), vh.Zi(o.Runes.Count), vh.List(gs))
}

func c08ppRun(o *vh.Out, inAny any) {
	in := inAny.(c08ppInput)
	line := make(shaping.Line, len(in.Line))
	inTerms := make([]string, len(in.Line))
	for i, rn := range in.Line {
		line[i] = c08ppOutput(rn)
		inTerms[i] = c08ppCoqRun(line[i])
	}
	trunc := c08ppOutput(in.Truncator)
	cfg := shaping.WrapConfig{Direction: di.Direction(in.PDir), TruncateAfterLines: in.TruncateAfter, Truncator: trunc,
		TextContinues: in.TextContinues, DisableTrailingWhitespaceTrim: in.DisableTrim}
	w := vh.App("mkW", vh.Z(int64(in.PDir)), vh.Bool(in.DisableTrim), vh.Zi(in.TruncateAfter), vh.Bool(in.TruncateAfter > 0),
		vh.Bool(in.TextContinues), c08ppCoqRun(trunc), vh.Zi(in.Total), vh.Zi(in.LineStart), "true")
	var (
		wl        shaping.WrappedLine
		done      bool
		linesLeft int
		more      bool
		panicked  any
	)
	func() {
		defer func() { panicked = recover() }()
		wl, done, linesLeft, more = shaping.VerifPostProcessLine(cfg, in.Total, in.LineStart, line, in.Done)
	}()
	outTerms := make([]string, len(wl.Line))
	for i, rn := range wl.Line {
		outTerms[i] = c08ppCoqRun(rn)
	}
	lv := make([]string, len(in.Levels))
	deep := in.TLevel >= in.PLevel+2
	for i := range in.Levels {
		lv[i] = fmt.Sprint(in.Levels[i])
		if in.Levels[i] >= in.PLevel+2 {
			deep = true
		}
	}
	coq := vh.App("mkCase", w, vh.List(inTerms), vh.Bool(in.Done), fmt.Sprintf("%d%%nat", in.PLevel), "("+vh.List(lv)+"%nat)",
		fmt.Sprintf("%d%%nat", in.TLevel), vh.List(outTerms), vh.Zi(wl.Truncated), vh.Zi(wl.NextLine), vh.Bool(done), vh.Zi(linesLeft), vh.Bool(more))
	key := ""
	if len(in.Line) > 0 {
		key = coq
	}
	idx := o.Add(in, coq, key, fmt.Sprintf("pp n=%d", bucket(len(in.Line))), fmt.Sprintf("pp pdir=%d", in.PDir),
		fmt.Sprintf("pp truncator=%v", len(wl.Line) > len(in.Line)), fmt.Sprintf("pp deep=%v", deep), fmt.Sprintf("pp trim=%v", !in.DisableTrim))
	if panicked != nil {
		o.Fail(idx, "panic", fmt.Sprint(panicked))
	}
}
