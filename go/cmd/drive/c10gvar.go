package main

import (
	"encoding/json"
	"fmt"
	"sort"
	"strings"

	"github.com/go-text/typesetting/font"
	"github.com/go-text/typesetting/font/opentype/tables"

	"verifharness/internal/vh"
)

// C10, gvar: the scalar of every tuple variation header at non-default normalized coordinates against the product of
// the per-axis factors (Model/GvarScalar.v).

type c10gInput struct {
	Font   string `json:"font"`
	Coords []int  `json:"coords"` // normalized F2Dot14 coordinates
	Gids   []int  `json:"gids"`
}

func init() {
	drivers["c10gvar"] = &driver{
		header: "From TV Require Import Check.C10gvar.",
		shard:  12,
		n: func(tier string) int {
			if tier == "quick" {
				return 150
			}
			return 3000
		},
		decode: func(raw json.RawMessage) (any, error) {
			var in c10gInput
			err := json.Unmarshal(raw, &in)
			return in, err
		},
		gen: c10gGen,
		run: c10gRun,
	}
}

func c10gGen(r *vh.Rand, tier string, n int, emit func(any)) {
	var fonts []c10Info
	for _, info := range c10Corpus() {
		if info.axes >= 1 {
			fonts = append(fonts, info)
		}
	}
	// fonts with more axes first: that is where shared tuples with several peaks live
	sort.SliceStable(fonts, func(i, j int) bool { return fonts[i].axes > fonts[j].axes })
	if len(fonts) == 0 {
		return
	}
	per := n / len(fonts)
	if per < 6 {
		per = 6
	}
	budget := n
	for _, info := range fonts {
		if budget <= 0 {
			break
		}
		var vecs [][]int
		ax := info.axes
		// one axis moved (to an extreme, to a knee, to a random place), the others at default
		for a := 0; a < ax; a++ {
			for _, v := range []int{16384, -16384, 8192, r.Range(-16384, 16384)} {
				c := make([]int, ax)
				c[a] = v
				vecs = append(vecs, c)
			}
		}
		// corners and random points
		for k := 0; k < 4; k++ {
			c := make([]int, ax)
			for a := range c {
				c[a] = []int{16384, -16384, 0}[r.Intn(3)]
			}
			vecs = append(vecs, c)
		}
		for k := 0; k < 6; k++ {
			c := make([]int, ax)
			for a := range c {
				if r.Chance(70) {
					c[a] = r.Range(-16384, 16384)
				}
			}
			vecs = append(vecs, c)
		}
		r.Shuffle(len(vecs), func(i, j int) { vecs[i], vecs[j] = vecs[j], vecs[i] })
		if len(vecs) > per {
			vecs = vecs[:per]
		}
		for _, c := range vecs {
			var gids []int
			for k := 0; k < 12; k++ {
				gids = append(gids, r.Intn(info.nGlyphs))
			}
			sort.Ints(gids)
			emit(c10gInput{Font: info.rel, Coords: c, Gids: gids})
			budget--
		}
	}
}

func c10gList(v []int16) string {
	el := make([]string, len(v))
	for i, x := range v {
		el[i] = vh.Zi(int(x))
	}
	return vh.List(el)
}

func c10gRun(o *vh.Out, inAny any) {
	in := inAny.(c10gInput)
	var fails []string
	coq := "(CGvar [] [] [])"
	key := ""
	func() {
		defer func() {
			if p := recover(); p != nil {
				fails = append(fails, fmt.Sprintf("panic: %v", p))
			}
		}()
		f, err := c10Load(in.Font, nil)
		if err != nil {
			fails = append(fails, "driver: "+err.Error())
			return
		}
		if len(in.Coords) != f.axes {
			fails = append(fails, "driver: wrong number of coordinates")
			return
		}
		face := font.NewFace(f.ft)
		coords := make([]tables.Coord, len(in.Coords))
		cs := make([]string, len(in.Coords))
		for i, c := range in.Coords {
			coords[i] = tables.Coord(int16(c))
			cs[i] = vh.Zi(int(int16(c)))
		}
		face.SetCoords(coords)
		shared := f.ft.VerifSharedTuples()
		sh := make([]string, len(shared))
		for i, t := range shared {
			sh[i] = c10gList(t)
		}
		seen := map[string]bool{}
		var tuples []string
		for _, g := range in.Gids {
			for _, t := range face.VerifGvarScalars(font.GID(g)) {
				s := vh.App("T", vh.Zi(t.SharedIndex), c10gList(t.Peak), c10gList(t.Start), c10gList(t.End), c10cBits(t.Scalar))
				if seen[s] {
					continue
				}
				seen[s] = true
				tuples = append(tuples, s)
				switch {
				case t.Peak != nil:
					o.Count("tuple_embedded_peak")
				default:
					o.Count("tuple_shared_peak")
				}
				if t.Start != nil {
					o.Count("tuple_intermediate")
				}
				if t.Scalar != 0 && t.Scalar != 1 {
					o.Count("scalar_fractional")
				} else if t.Scalar == 0 {
					o.Count("scalar_zero")
				} else {
					o.Count("scalar_one")
				}
			}
		}
		coq = vh.App("CGvar", vh.List(cs), vh.List(sh), vh.List(tuples))
		if len(tuples) > 0 {
			key = coq
		}
	}()
	idx := o.Add(in, coq, key, fmt.Sprintf("axes=%d", len(in.Coords)))
	for _, f := range fails {
		kind := "impl"
		if strings.HasPrefix(f, "panic") {
			kind = "panic"
		}
		o.Fail(idx, kind, f)
	}
}
