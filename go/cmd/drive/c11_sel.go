package main

import (
	"encoding/json"
	"fmt"
	"sort"

	"github.com/go-text/typesetting/font"
	"github.com/go-text/typesetting/font/opentype/tables"
	"github.com/go-text/typesetting/fontscan"

	"verifharness/internal/vh"
)

// ---- c11sel: font.ProcessCmap on whole 'cmap' tables: choice of the subtable, formats 0/10/14, remapers, coverage ----

type c11VarSel struct {
	Sel    uint32      `json:"sel"`              // 24 bits
	Def    [][2]uint32 `json:"def,omitempty"`    // start (24 bits), additional count (8 bits)
	NonDef [][2]uint32 `json:"nondef,omitempty"` // unicode (24 bits), glyph
}

type c11Record struct {
	Platform uint16      `json:"platform"`
	Encoding uint16      `json:"encoding"`
	Fmt      int         `json:"fmt"`
	GA0      []byte      `json:"ga0,omitempty"` // format 0: 256 glyph ids
	End      []uint16    `json:"endCode,omitempty"`
	Start    []uint16    `json:"startCode,omitempty"`
	Delta    []uint16    `json:"idDelta,omitempty"`
	Iro      []uint16    `json:"idRangeOffsets,omitempty"`
	GA       []byte      `json:"glyphIDArray,omitempty"`
	First    uint32      `json:"first,omitempty"` // formats 6 (16 bits) and 10
	Entries  []uint16    `json:"entries,omitempty"`
	Groups   [][3]uint32 `json:"groups,omitempty"`
	VarSels  []c11VarSel `json:"varsels,omitempty"`
}

type c11SelInput struct {
	Records  []c11Record `json:"records"`
	FontPage uint16      `json:"fontPage"`
	Probes   []int64     `json:"probes,omitempty"`
	UVProbes [][2]int64  `json:"uvprobes,omitempty"`
}

func init() {
	drivers["c11sel"] = &driver{
		header: "From TV Require Import Check.C11Sel.",
		shard:  40,
		n: func(tier string) int {
			if tier == "quick" {
				return 260
			}
			return 6000
		},
		decode: func(raw json.RawMessage) (any, error) {
			var in c11SelInput
			err := json.Unmarshal(raw, &in)
			return in, err
		},
		gen: c11SelGen,
		run: c11SelRun,
	}
}

var c11PrefIDs = [][2]uint16{{3, 0}, {3, 10}, {0, 6}, {0, 4}, {3, 1}, {0, 3}, {0, 2}, {0, 1}, {0, 0}}

func c11GenRecord(r *vh.Rand, bounds *[]int64) c11Record {
	var rec c11Record
	switch k := r.Intn(20); {
	case k < 11:
		id := c11PrefIDs[r.Intn(len(c11PrefIDs))]
		rec.Platform, rec.Encoding = id[0], id[1]
	case k < 14:
		rec.Platform, rec.Encoding = 1, 0 // Macintosh Roman
	case k < 16:
		rec.Platform, rec.Encoding = 0, 5
	case k < 18:
		rec.Platform, rec.Encoding = 3, uint16(r.Intn(12))
	default:
		rec.Platform, rec.Encoding = uint16(r.Intn(5)), uint16(r.Intn(12))
	}
	add := func(b ...int64) { *bounds = append(*bounds, b...) }
	switch k := r.Intn(24); {
	case k < 3:
		rec.Fmt = 0
		rec.GA0 = make([]byte, 256)
		for i := range rec.GA0 {
			if r.Chance(30) {
				rec.GA0[i] = byte(r.Intn(256))
			}
		}
		add(int64(tables.DecodeMacintoshByte(byte(r.Intn(256)))), int64(tables.DecodeMacintoshByte(byte(128+r.Intn(128)))), 0, 0x41)
	case k < 4:
		rec.Fmt = 2
	case k < 11:
		rec.Fmt = 4
		segs := c11GenSegs4(r, true, r.Chance(25))
		if r.Chance(30) { // something for the symbol / legacy arabic remapers
			base := []int{0xf020, 0xf120, 0xf220}[r.Intn(3)] + r.Intn(0x60)
			seg := c11Seg4{Start: uint16(base), End: uint16(base + r.Range(0, 30)), Delta: c11U16(r)}
			n := len(segs)
			if n > 0 && segs[n-1].Start == 0xffff {
				segs = append(segs[:n-1:n-1], seg, segs[n-1])
			} else {
				segs = append(segs, seg)
			}
			add(int64(seg.Start)-0xf000, int64(seg.End)-0xf000)
		}
		nseg := len(segs)
		for si, s := range segs {
			rec.End = append(rec.End, s.End)
			rec.Start = append(rec.Start, s.Start)
			rec.Delta = append(rec.Delta, s.Delta)
			iro := uint16(0)
			if s.HasIdx {
				iro = uint16(2 * (len(rec.GA)/2 + nseg - si))
				for _, g := range s.Indexes {
					rec.GA = append(rec.GA, byte(g>>8), byte(g))
				}
			}
			if r.Chance(2) {
				iro = c11U16(r)
			}
			rec.Iro = append(rec.Iro, iro)
			add(int64(s.Start), int64(s.End))
		}
		if r.Chance(8) && nseg > 0 { // a reversed delta segment
			i := r.Intn(nseg)
			if rec.Iro[i] == 0 && rec.End[i] > rec.Start[i] {
				rec.End[i], rec.Start[i] = rec.Start[i], rec.End[i]
			}
		}
	case k < 13:
		rec.Fmt = 6
		rec.First = uint32([]int{0, 1, r.Intn(0x10000), 0xff00 + r.Intn(0x100), 0xf020}[r.Intn(5)])
		rec.Entries = make([]uint16, r.Range(0, 60))
		for j := range rec.Entries {
			rec.Entries[j] = c11U16(r)
		}
		add(int64(rec.First), int64(rec.First)+int64(len(rec.Entries))-1)
	case k < 16:
		rec.Fmt = 10
		rec.First = []uint32{0, uint32(r.Intn(0x110000)), 0x10ffff - uint32(r.Intn(40)), 0x110000, 0x1000041, 0x7fffffff, 0x80000000, 0xffffffff, uint32(r.Intn(0x10000))}[r.Intn(9)]
		rec.Entries = make([]uint16, r.Range(0, 60))
		for j := range rec.Entries {
			rec.Entries[j] = c11U16(r)
		}
		add(int64(rec.First), int64(rec.First)+int64(len(rec.Entries))-1, int64(int32(rec.First)), int64(rec.First&0xffffff))
	case k < 20:
		rec.Fmt = 12
		rec.Groups = c11GenGroups(r, r.Chance(25))
	case k < 21:
		rec.Fmt = 13
		rec.Groups = c11GenGroups(r, r.Chance(25))
	default:
		rec.Fmt = 14
		sel := uint32(0xfe00)
		if r.Bool() {
			sel = 0xe0100
		}
		for n := r.Range(0, 4); n > 0; n-- {
			vs := c11VarSel{Sel: sel}
			cur := uint32(r.Intn(0x3000))
			for m := r.Range(0, 5); m > 0; m-- {
				cnt := uint32([]int{0, 0, 1, r.Intn(256), 255}[r.Intn(5)])
				vs.Def = append(vs.Def, [2]uint32{cur, cnt})
				cur += cnt + uint32(r.Range(1, 40))
			}
			cur = uint32(r.Intn(0x3000))
			for m := r.Range(0, 6); m > 0; m-- {
				vs.NonDef = append(vs.NonDef, [2]uint32{cur, uint32(r.Intn(0x10000))})
				cur += uint32(r.Range(1, 30))
			}
			if r.Chance(10) && len(vs.Def) > 1 { // not ordered as the specification requires
				vs.Def[0], vs.Def[1] = vs.Def[1], vs.Def[0]
			}
			if r.Chance(10) && len(vs.NonDef) > 1 {
				vs.NonDef[0], vs.NonDef[len(vs.NonDef)-1] = vs.NonDef[len(vs.NonDef)-1], vs.NonDef[0]
			}
			rec.VarSels = append(rec.VarSels, vs)
			sel += uint32(r.Range(1, 3))
		}
		if r.Chance(10) && len(rec.VarSels) > 1 {
			rec.VarSels[0], rec.VarSels[1] = rec.VarSels[1], rec.VarSels[0]
		}
		if r.Chance(85) {
			rec.Platform, rec.Encoding = 0, 5
		}
	}
	for _, g := range rec.Groups {
		add(int64(g[0]), int64(g[1]))
	}
	return rec
}

func c11SelGen(r *vh.Rand, tier string, n int, emit func(any)) {
	for i := 0; i < n; i++ {
		var in c11SelInput
		var bounds []int64
		for k := []int{0, 1, 1, 2, 2, 3, 3, 4, 5, 6}[r.Intn(10)]; k > 0; k-- {
			in.Records = append(in.Records, c11GenRecord(r, &bounds))
		}
		if r.Chance(70) { // the order the specification requires
			sort.SliceStable(in.Records, func(a, b int) bool {
				ra, rb := in.Records[a], in.Records[b]
				return ra.Platform < rb.Platform || (ra.Platform == rb.Platform && ra.Encoding < rb.Encoding)
			})
		}
		in.FontPage = []uint16{0, 0, 0, 0xB100, 0x00FF}[r.Intn(5)]
		// the legacy arabic remapers walk 0..0xFEFC: the model costs seconds per case, keep them rare
		if (tier != "quick" && r.Chance(4)) || (tier == "quick" && i%120 == 5) {
			in.FontPage = []uint16{0xB200, 0xB300}[r.Intn(2)]
			in.Records = append([]c11Record{{Platform: 3, Encoding: 0, Fmt: 4,
				End: []uint16{0x7e, 0xf1ff, 0xffff}, Start: []uint16{0x41, uint16(0xf120 + r.Intn(0x40)), 0xffff},
				Delta: []uint16{3, c11U16(r), 1}, Iro: []uint16{0, 0, 0}}}, in.Records...)
			bounds = append(bounds, 0x20, 0x25, 0x60c, 0x621, 0x660, 0xfe70, 0xfe80, 0xfefc, int64(0x621+r.Intn(0x40)), int64(0xfe70+r.Intn(0x8d)))
		}
		probes := []int64{0, 0x20, 0xff, 0x100, 0xffff, 0x10000, -1, 0x10ffff, 0x110000}
		for _, b := range bounds {
			probes = append(probes, b-1, b, b+1)
			if r.Chance(25) {
				probes = append(probes, b&0xff, b-0xf000, b+0x1000000)
			}
		}
		for j := r.Range(1, 5); j > 0; j-- {
			probes = append(probes, int64(r.Intn(0x110000)), int64(r.Intn(0x100)))
		}
		if len(probes) > 80 {
			probes = probes[:80]
		}
		for j, p := range probes {
			probes[j] = int64(int32(p)) // a rune
		}
		in.Probes = probes
		for _, rec := range in.Records {
			for _, vs := range rec.VarSels {
				for _, sel := range []int64{int64(vs.Sel), int64(vs.Sel) + 1} {
					for _, d := range vs.Def {
						in.UVProbes = append(in.UVProbes, [2]int64{int64(d[0]), sel}, [2]int64{int64(d[0] + d[1]), sel}, [2]int64{int64(d[0]+d[1]) + 1, sel}, [2]int64{int64(d[0]) - 1, sel})
					}
					for _, d := range vs.NonDef {
						in.UVProbes = append(in.UVProbes, [2]int64{int64(d[0]), sel}, [2]int64{int64(d[0]) + 1, sel})
					}
				}
			}
		}
		in.UVProbes = append(in.UVProbes, [2]int64{0x41, 0xfe00}, [2]int64{-1, 0xe0100})
		if len(in.UVProbes) > 60 {
			in.UVProbes = in.UVProbes[:60]
		}
		emit(in)
	}
}

func c11U24(v uint32) [3]byte { return [3]byte{byte(v >> 16), byte(v >> 8), byte(v)} }
func c11U24Term(v uint32) string {
	return vh.Tuple(vh.Z(int64(v>>16&0xff)), vh.Z(int64(v>>8&0xff)), vh.Z(int64(v&0xff)))
}

func c11U16List(l []uint16) string {
	w := make([]int64, len(l))
	for i, g := range l {
		w[i] = int64(g)
	}
	return vh.ZList(w)
}

// c11BuildRecord returns the library value and the Coq term of one encoding record.
func c11BuildRecord(rec c11Record) (tables.EncodingRecord, string) {
	out := tables.EncodingRecord{PlatformID: tables.PlatformID(rec.Platform), EncodingID: tables.EncodingID(rec.Encoding)}
	var st string
	gids := func(l []uint16) []tables.GlyphID {
		g := make([]tables.GlyphID, len(l))
		for i, x := range l {
			g[i] = tables.GlyphID(x)
		}
		return g
	}
	groups := func() ([]tables.SequentialMapGroup, string) {
		gs := make([]tables.SequentialMapGroup, len(rec.Groups))
		gt := make([]string, len(rec.Groups))
		for i, g := range rec.Groups {
			gs[i] = tables.SequentialMapGroup{StartCharCode: g[0], EndCharCode: g[1], StartGlyphID: g[2]}
			gt[i] = vh.App("mkGrp", vh.Z(int64(g[0])), vh.Z(int64(g[1])), vh.Z(int64(g[2])))
		}
		return gs, vh.List(gt)
	}
	switch rec.Fmt {
	case 0:
		var t tables.CmapSubtable0
		copy(t.GlyphIdArray[:], rec.GA0)
		ga := make([]byte, 256)
		copy(ga, rec.GA0)
		out.Subtable = t
		st = vh.App("S0", vh.BytesLit(ga))
	case 2:
		out.Subtable = tables.CmapSubtable2{}
		st = "S2"
	case 4:
		out.Subtable = tables.CmapSubtable4{EndCode: rec.End, StartCode: rec.Start, IdDelta: rec.Delta, IdRangeOffsets: rec.Iro, GlyphIDArray: rec.GA}
		qs := make([]string, len(rec.End))
		for i := range rec.End {
			qs[i] = vh.Tuple(vh.Z(int64(rec.End[i])), vh.Z(int64(rec.Start[i])), vh.Z(int64(rec.Delta[i])), vh.Z(int64(rec.Iro[i])))
		}
		st = vh.App("S4", vh.List(qs), vh.BytesLit(rec.GA))
	case 6:
		out.Subtable = tables.CmapSubtable6{FirstCode: uint16(rec.First), GlyphIdArray: gids(rec.Entries)}
		st = vh.App("S6", vh.Z(int64(uint16(rec.First))), c11U16List(rec.Entries))
	case 10:
		out.Subtable = tables.CmapSubtable10{StartCharCode: rec.First, GlyphIdArray: gids(rec.Entries)}
		st = vh.App("S10", vh.Z(int64(rec.First)), c11U16List(rec.Entries))
	case 12:
		gs, gt := groups()
		out.Subtable = tables.CmapSubtable12{Groups: gs}
		st = vh.App("S12", gt)
	case 13:
		gs, gt := groups()
		out.Subtable = tables.CmapSubtable13{Groups: gs}
		st = vh.App("S13", gt)
	case 14:
		var t tables.CmapSubtable14
		vt := make([]string, len(rec.VarSels))
		for i, vs := range rec.VarSels {
			v := tables.VariationSelector{VarSelector: c11U24(vs.Sel)}
			dt := make([]string, len(vs.Def))
			for j, d := range vs.Def {
				v.DefaultUVS.Ranges = append(v.DefaultUVS.Ranges, tables.UnicodeRange{StartUnicodeValue: c11U24(d[0]), AdditionalCount: uint8(d[1])})
				dt[j] = vh.Tuple(c11U24Term(d[0]), vh.Z(int64(uint8(d[1]))))
			}
			nt := make([]string, len(vs.NonDef))
			for j, d := range vs.NonDef {
				v.NonDefaultUVS.Ranges = append(v.NonDefaultUVS.Ranges, tables.UvsMappingRecord{UnicodeValue: c11U24(d[0]), GlyphID: tables.GlyphID(d[1])})
				nt[j] = vh.Tuple(c11U24Term(d[0]), vh.Z(int64(uint16(d[1]))))
			}
			t.VarSelectors = append(t.VarSelectors, v)
			vt[i] = vh.Tuple(c11U24Term(vs.Sel), vh.List(dt), vh.List(nt))
		}
		out.Subtable = t
		st = vh.App("S14", vh.List(vt))
	default:
		panic("unknown subtable format")
	}
	return out, vh.Tuple(vh.Z(int64(rec.Platform)), vh.Z(int64(rec.Encoding)), st)
}

var c11KindCode = map[string]int64{"cmap0": 0, "cmap4": 4, "cmap6or10": 6, "cmap12": 12, "cmap13": 13,
	"remaperSymbol": 100, "remaperPUASimp": 200, "remaperPUATrad": 300}

func c11SelRun(o *vh.Out, inAny any) {
	in := inAny.(c11SelInput)
	var table tables.Cmap
	rt := make([]string, len(in.Records))
	for i, rec := range in.Records {
		var er tables.EncodingRecord
		er, rt[i] = c11BuildRecord(rec)
		table.Records = append(table.Records, er)
		o.Count(fmt.Sprintf("subtable_fmt=%d", rec.Fmt))
	}
	classes := []string{fmt.Sprintf("records=%d", len(in.Records)), fmt.Sprintf("fontPage=%#x", in.FontPage)}
	var panicked any
	var coq string
	status, nIter := int64(0), 0
	func() {
		defer func() { panicked = recover() }()
		cm, uv, err := font.ProcessCmap(table, tables.FontPage(in.FontPage))
		if err != nil {
			status = 1
			coq = vh.App("CProc", vh.List(rt), vh.Z(int64(in.FontPage)), "1", "0", "[]", "[]", "[]", "[]", "[]", "[]")
			return
		}
		kindName := font.VerifCmapKind(cm)
		kind, ok := c11KindCode[kindName]
		if !ok {
			panic("unknown cmap kind " + kindName)
		}
		if kind >= 100 {
			kind += c11KindCode[font.VerifCmapKind(font.VerifInnerCmap(cm))]
		}
		classes = append(classes, fmt.Sprintf("chosen=%d", kind))
		var iter [][2]int64
		it := cm.Iter()
		for it.Next() {
			r, g := it.Char()
			iter = append(iter, [2]int64{int64(r), int64(g)})
			if len(iter) > 200000 {
				panic("iterator does not stop")
			}
		}
		sort.SliceStable(iter, func(a, b int) bool { return iter[a][0] < iter[b][0] })
		nIter = len(iter)
		var iterLk []string
		for i, p := range iter {
			g, ok := cm.Lookup(rune(p[0]))
			if !ok || int64(g) != p[1] {
				iterLk = append(iterLk, vh.Tuple(vh.Zi(i), vh.Z(int64(g)), vh.Bool(ok)))
			}
		}
		probes := make([]string, len(in.Probes))
		for i, p := range in.Probes {
			g, ok := cm.Lookup(rune(p))
			probes[i] = vh.Tuple(vh.Z(p), vh.Z(int64(g)), vh.Bool(ok))
		}
		cov, scripts := fontscan.VerifCoverages(cm)
		sc := make([]int64, len(scripts))
		for i, s := range scripts {
			sc[i] = int64(uint32(s))
		}
		uvp := make([]string, len(in.UVProbes))
		for i, p := range in.UVProbes {
			g, flag := uv.GetGlyphVariant(rune(p[0]), rune(p[1]))
			uvp[i] = vh.Tuple(vh.Z(p[0]), vh.Z(p[1]), vh.Z(int64(g)), vh.Z(int64(flag)))
			o.Count(fmt.Sprintf("variant_flag=%d", flag))
		}
		coq = vh.App("CProc", vh.List(rt), vh.Z(int64(in.FontPage)), "0", vh.Z(kind), c11PairsTerm(iter), vh.List(iterLk), vh.List(probes),
			c11PagesTerm(fontscan.VerifPages(cov)), vh.ZList(sc), vh.List(uvp))
	}()
	if panicked != nil {
		idx := o.Add(in, vh.App("CProc", vh.List(rt), vh.Z(int64(in.FontPage)), "2", "0", "[]", "[]", "[]", "[]", "[]", "[]"), "", append(classes, "go-panic")...)
		o.Fail(idx, "panic", fmt.Sprint(panicked))
		return
	}
	key := ""
	if status == 1 || nIter > 0 {
		key = coq
	}
	o.Add(in, coq, key, append(classes, fmt.Sprintf("status=%d", status), fmt.Sprintf("iter=%d", bucket(nIter)))...)
}
