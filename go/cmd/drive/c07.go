package main

import (
	"encoding/json"
	"fmt"

	"github.com/go-text/typesetting/di"
	"github.com/go-text/typesetting/font"
	"github.com/go-text/typesetting/harfbuzz"
	"github.com/go-text/typesetting/language"
	"github.com/go-text/typesetting/shaping"
	ucd "github.com/go-text/typesetting/unicodedata"
	"golang.org/x/image/math/fixed"
	"golang.org/x/text/unicode/bidi"
	"unicode"

	"verifharness/internal/vh"
)

// c07Call is one call of Segmenter.Split.
type c07Call struct {
	Text   []rune `json:"text"`
	Start  int    `json:"start"`
	End    int    `json:"end"`
	Dir    uint8  `json:"dir"`    // di.Direction bits
	Lang   string `json:"lang"`   // Input.Language
	Fm     int    `json:"fm"`     // fontmap table
	Hint   bool   `json:"hint"`   // the Fontmap implements FontmapScript
	FaceIn int    `json:"facein"` // Input.Face: 0 nil, 1..4 a face of the fontmap, 5 a foreign face
	Size   int    `json:"size"`
	Script uint32 `json:"script"` // Input.Script (overwritten by Split)
}

// c07Input: the call under test preceded by a reuse history on the same Segmenter.
type c07Input struct {
	History []c07Call `json:"history,omitempty"`
	Call    c07Call   `json:"call"`
}

// synthetic faces: distinct *font.Face values, id = index (0 = nil)
var c07Faces = func() []*font.Face {
	out := make([]*font.Face, 6)
	for i := 1; i < len(out); i++ {
		out[i] = new(font.Face)
	}
	return out
}()

func c07FaceID(f *font.Face) int {
	for i, g := range c07Faces {
		if g == f {
			return i
		}
	}
	return -5
}

// c07FaceIdx is the table of fontmap `kind`: face id for rune r after SetScript(script) (script 0: never set).
func c07FaceIdx(kind int, script language.Script, r rune) int {
	byRange := func() int {
		switch {
		case r < 0x80:
			return 1
		case r < 0x590:
			return 2
		case r < 0x700:
			return 3
		default:
			return 4
		}
	}
	switch kind {
	case 0:
		return 1
	case 1:
		return byRange()
	case 2:
		return int(r%3) + 1
	case 3: // script hints decide the face of the runes without a script of their own
		if script != 0 && !language.LookupScript(r).Strong() {
			return int(uint32(script)%3) + 1
		}
		return byRange()
	default: // ignorable runes would like a face of their own
		if shaping.VerifIgnoreFaceChange(r) {
			return 4
		}
		return int(r%2) + 1
	}
}

type c07Fontmap struct {
	kind   int
	script language.Script
	calls  int
}

func (f *c07Fontmap) ResolveFace(r rune) *font.Face {
	f.calls++
	return c07Faces[c07FaceIdx(f.kind, f.script, r)]
}

type c07FontmapScript struct{ c07Fontmap }

func (f *c07FontmapScript) SetScript(s language.Script) { f.script = s }

var (
	_ shaping.Fontmap       = (*c07Fontmap)(nil)
	_ shaping.FontmapScript = (*c07FontmapScript)(nil)
)

func init() {
	drivers["c07"] = &driver{
		header: "From TV Require Import Check.C07.",
		shard:  160,
		n: func(tier string) int {
			if tier == "quick" {
				return 2400
			}
			return 40000
		},
		decode: func(raw json.RawMessage) (any, error) {
			var in c07Input
			err := json.Unmarshal(raw, &in)
			return in, err
		},
		gen: c07Gen,
		run: c07Run,
	}
}

// ---- generator -------------------------------------------------------------------------------

var c07Words = [][]rune{
	[]rune("abcxyzQ"),                     // Latin
	[]rune("אבגדה"),                       // Hebrew
	[]rune("ابجده"),                       // Arabic
	[]rune("0123"),                        // European digits
	[]rune("٠١٢"),                         // Arabic-Indic digits
	[]rune("漢字語"),                         // Han
	[]rune("あいアｱ"),                        // Hiragana, Katakana, halfwidth Katakana (orientation exception)
	[]rune("한글ﾡ"),                         // Hangul, halfwidth Hangul
	[]rune("αβяж"),                        // Greek, Cyrillic
	{0x0301, 0x0651, 0x0300, 0x3099},      // Inherited marks
	{0x1F600, 0x200D, 0xFE0F, 0x2764},     // emoji, ZWJ, VS16
	{0xFF21, 0x2163, 0xFF41, 0x1400, 'A'}, // Latin / Canadian orientation exceptions
	{0x0378, 0xE000, 0x10FFFF, 0xD800},    // unassigned, private use, noncharacter, surrogate
	// scripts with a vertical orientation of their own (upright, some with sideways exceptions), and scripts written
	// vertically that are sideways: Hangul syllables, conjoining and halfwidth jamo (the latter are the exceptions);
	{0xD55C, 0xAE00, 0xAC00, 0xD7A3, 0x1100, 0x1161, 0x11A8, 0x3131, 0xFFA0, 0xFFA1, 0xFFBE, 0xFFC2, 0xFFDA, 0xFFDC, 0xFFBF, 0xFFDD},
	{0x14400, 0x14401, 0x14646, 0x1D800, 0x1D801, 0x1DA8B, 0x1DA9B, 0x13000, 0x18B00}, // Anatolian / Egyptian hieroglyphs, SignWriting, Khitan
	{0x1820, 0x1821, 0x1880, 0x180E, 0x202F, 0xA840, 0xA841, 0xA877, 0x11580, 0x11A50, 0x11A00, 0xA000}, // Mongolian, Phags-pa, Siddham, Soyombo, Zanabazar, Yi
}
var c07Brackets = []rune("()[]{}<>«»“”‘’⟨⟩「」（）")
var c07Neutrals = []rune{' ', ' ', ',', '.', '!', '-', ':', '/', '\t', 0x00A0, 0x1680, 0x3000, 0x200B, 0x2028, '"', '\''}
var c07Separators = []rune{'\n', '\r', 0x2029, 0x0085, 0x001C}

// what may stand between two paragraphs: the seven runes of bidi class B, CR LF, and VT / FF / LINE SEPARATOR which
// look like line ends but are NOT paragraph separators for splitByBidi
var c07ParaSeps = [][]rune{{'\n'}, {'\n'}, {'\r', '\n'}, {'\r', '\n'}, {'\r'}, {0x2029}, {0x0085}, {0x001C}, {0x001D}, {0x001E},
	{0x000B}, {0x000C}, {0x2028}, {'\n', '\n'}, {'\n', '\r'}, {0x2029, '\n'}}

// explicit directional formatting: LRE RLE PDF LRO RLO, LRI RLI FSI PDI, LRM RLM ALM
var c07Controls = []rune{0x202A, 0x202B, 0x202C, 0x202D, 0x202E, 0x2066, 0x2067, 0x2068, 0x2069, 0x200E, 0x200F, 0x061C}

// c07ParaText builds a text of several paragraphs, each with a direction mix of its own: a left-to-right, a
// right-to-left and a digit vocabulary, brackets opened in one bidi run (or paragraph) and closed in another,
// isolates and embeddings (also left open across a paragraph end).
func c07ParaText(r *vh.Rand, maxLen int) []rune {
	var t []rune
	ltr := [][]rune{c07Words[0], c07Words[8], c07Words[5], c07Words[11]}
	rtl := [][]rune{c07Words[1], c07Words[2]}
	dig := [][]rune{c07Words[3], c07Words[4]}
	word := func(vs [][]rune) {
		w := vs[r.Intn(len(vs))]
		for j := r.Range(1, 3); j > 0; j-- {
			t = append(t, w[r.Intn(len(w))])
		}
	}
	npar := r.Range(2, 5)
	if r.Chance(10) {
		t = append(t, c07ParaSeps[r.Intn(len(c07ParaSeps))]...) // the range starts with a separator
	}
	for p := 0; p < npar; p++ {
		mix := r.Intn(4) // 0 mostly LTR, 1 mostly RTL, 2 even, 3 RTL with digits
		for k := r.Range(0, 6); k > 0; k-- {
			switch c := r.Intn(20); {
			case c < 8:
				switch {
				case mix == 0 && r.Chance(75), mix == 2 && r.Bool(), mix == 1 && r.Chance(20), mix == 3 && r.Chance(10):
					word(ltr)
				default:
					word(rtl)
				}
			case c < 10:
				word(dig)
			case c < 13:
				t = append(t, c07Neutrals[r.Intn(len(c07Neutrals))])
			case c < 15:
				t = append(t, c07Brackets[2*r.Intn(3)]) // ( [ {
			case c < 17:
				t = append(t, c07Brackets[2*r.Intn(3)+1]) // ) ] }
			case c < 19:
				t = append(t, c07Controls[r.Intn(len(c07Controls))])
			default:
				t = append(t, c07Words[9][r.Intn(4)])
			}
		}
		if p+1 < npar || r.Chance(35) { // 35%: the text ends with a separator
			t = append(t, c07ParaSeps[r.Intn(len(c07ParaSeps))]...)
		}
	}
	if len(t) == 0 {
		t = []rune{'\n'}
	}
	if len(t) > maxLen {
		t = t[:maxLen]
	}
	return t
}
var c07Langs = []string{"", "", "en", "fr", "ar", "he", "zh", "ja", "ko", "ru", "fr-FR", "xx-unknown", "tlh", "und", "fa", "zh-hant"}
var c07Dirs = []uint8{0, 0, 1, 1, 2, 2, 3, 6, 14, 7, 15, 4, 12}

func c07Text(r *vh.Rand, maxLen int, seps bool) []rune {
	n := r.Range(1, maxLen)
	var t []rune
	// choose a few word classes so that texts are not uniformly noisy
	nc := r.Range(1, 4)
	cls := make([]int, nc)
	for i := range cls {
		cls[i] = r.Intn(len(c07Words))
	}
	for len(t) < n {
		switch k := r.Intn(20); {
		case k < 9:
			w := c07Words[cls[r.Intn(nc)]]
			for j := r.Range(1, 3); j > 0; j-- {
				t = append(t, w[r.Intn(len(w))])
			}
		case k < 13:
			t = append(t, c07Neutrals[r.Intn(len(c07Neutrals))])
		case k < 17:
			if r.Chance(70) { // mostly the plain ones, so that pairs match
				t = append(t, c07Brackets[r.Intn(6)])
			} else {
				t = append(t, c07Brackets[r.Intn(len(c07Brackets))])
			}
		case k < 18:
			w := c07Words[r.Intn(len(c07Words))]
			t = append(t, w[r.Intn(len(w))])
		case k < 19:
			if seps {
				t = append(t, c07Separators[r.Intn(len(c07Separators))])
			} else {
				t = append(t, ' ')
			}
		default:
			t = append(t, c07Words[9][r.Intn(4)])
		}
	}
	return t[:n]
}

func c07RandCall(r *vh.Rand, maxLen int) c07Call {
	c := c07Call{}
	if r.Chance(30) {
		c.Text = c07ParaText(r, maxLen)
	} else {
		c.Text = c07Text(r, maxLen, r.Chance(30))
	}
	n := len(c.Text)
	switch k := r.Intn(20); {
	case k < 4:
		c.Start, c.End = 0, n
	case k < 5: // empty or reversed range
		c.Start = r.Range(0, n)
		c.End = r.Range(0, c.Start)
	default:
		c.Start = r.Range(0, n-1)
		c.End = r.Range(c.Start+1, n)
	}
	c.Dir = c07Dirs[r.Intn(len(c07Dirs))]
	c.Lang = c07Langs[r.Intn(len(c07Langs))]
	c.Fm = r.Intn(5)
	c.Hint = r.Chance(45)
	if r.Chance(15) {
		c.FaceIn = r.Range(1, 5)
	}
	c.Size = r.Range(0, 4000)
	if r.Bool() {
		c.Script = uint32(language.Latin)
	}
	return c
}

func c07Gen(r *vh.Rand, tier string, n int, emit func(any)) {
	// exhaustive small scope: all texts of length 1..3 over a small alphabet, whole range, LTR and RTL paragraph
	small := []rune{'a', 'א', '1', '(', ')', ' ', '漢', 0x0301, '\n'}
	if tier == "search" {
		small = small[:5]
	}
	var rec func(t []rune)
	rec = func(t []rune) {
		if len(t) > 0 {
			for _, d := range []uint8{0, 1} {
				emit(c07Input{Call: c07Call{Text: append([]rune(nil), t...), Start: 0, End: len(t), Dir: d, Fm: 1, Size: 640}})
			}
		}
		if len(t) == 3 {
			return
		}
		for _, x := range small {
			rec(append(t, x))
		}
	}
	rec(nil)
	// exhaustive paragraph structures: all texts of length 1..4 over {a, alef, LF, CR} (length 1..3 when searching)
	small = []rune{'a', 'א', '\n', '\r'}
	maxSmall := 4
	if tier == "search" {
		maxSmall = 3
	}
	var rec2 func(t []rune)
	rec2 = func(t []rune) {
		if len(t) > 0 {
			for _, d := range []uint8{0, 1} {
				emit(c07Input{Call: c07Call{Text: append([]rune(nil), t...), Start: 0, End: len(t), Dir: d, Fm: 1, Size: 640}})
			}
		}
		if len(t) == maxSmall {
			return
		}
		for _, x := range small {
			rec2(append(t, x))
		}
	}
	rec2(nil)
	// exhaustive vertical texts: length 1..2 over runes of the scripts with a vertical orientation of their own (and
	// their exceptions), and of scripts that stay sideways, top-to-bottom without a fixed orientation
	if tier != "search" {
		vert := []rune{'a', '漢', 0xD55C, 0x1100, 0xFFA1, 0x30A2, 0xFF71, 0x2160, 0x14400, 0x1D800, 0x1820, 0xA840, 0x3001}
		for _, x := range vert {
			emit(c07Input{Call: c07Call{Text: []rune{x}, Start: 0, End: 1, Dir: 2, Fm: 1, Size: 640}})
			for _, y := range vert {
				emit(c07Input{Call: c07Call{Text: []rune{x, y}, Start: 0, End: 2, Dir: 2, Fm: 1, Size: 640}})
			}
		}
	}
	for i := 0; i < n; i++ {
		maxLen := 8
		switch {
		case i%10 >= 8:
			maxLen = 48
		case i%10 >= 4:
			maxLen = 20
		}
		in := c07Input{Call: c07RandCall(r, maxLen)}
		if r.Chance(40) {
			for k := r.Range(1, 3); k > 0; k-- {
				in.History = append(in.History, c07RandCall(r, 30))
			}
		}
		emit(in)
	}
}

// ---- running one call ------------------------------------------------------------------------

func c07Fontmap_(c c07Call) shaping.Fontmap {
	if c.Hint {
		return &c07FontmapScript{c07Fontmap{kind: c.Fm}}
	}
	return &c07Fontmap{kind: c.Fm}
}

func c07Input_(c c07Call, text []rune, feats []shaping.FontFeature) shaping.Input {
	var face *font.Face
	if c.FaceIn > 0 && c.FaceIn < len(c07Faces) {
		face = c07Faces[c.FaceIn]
	}
	return shaping.Input{
		Text: text, RunStart: c.Start, RunEnd: c.End, Direction: di.Direction(c.Dir), Face: face,
		FontFeatures: feats, Size: fixed.Int26_6(c.Size), Script: language.Script(c.Script), Language: language.Language(c.Lang),
	}
}

func c07IsB(r rune) bool {
	p, _ := bidi.LookupRune(r)
	return p.Class() == bidi.B
}

// c07Bidi runs x/text on a fresh Paragraph, as splitByBidi does on its reused one.
func c07Bidi(runes []rune, rtl bool) (ends []int, dirs []bool, ok bool) {
	def := bidi.LeftToRight
	if rtl {
		def = bidi.RightToLeft
	}
	var p bidi.Paragraph
	p.SetString(string(runes), bidi.DefaultDirection(def))
	out, err := p.Order()
	if err != nil || out.NumRuns() == 0 {
		return nil, nil, false
	}
	for i := 0; i < out.NumRuns(); i++ {
		run := out.Run(i)
		_, e := run.Pos()
		ends = append(ends, e)
		dirs = append(dirs, run.Direction() == bidi.RightToLeft)
	}
	return ends, dirs, true
}

// c07Sweep compares, once per run and over all code points, the two rune classifiers the model takes as observations
// with their definitions: ignoreFaceChange with the classes named in its documentation, lookupDelimIndex (a binary
// search) with a linear search in the pairedDelims table.
var c07SweepDone bool

func c07Sweep() (fails []string) {
	delims := shaping.VerifPairedDelims()
	if len(delims)%2 != 0 {
		fails = append(fails, "pairedDelims has an odd number of entries")
	}
	for r := rune(0); r <= unicode.MaxRune; r++ {
		ref := unicode.Is(unicode.Cc, r) || unicode.Is(unicode.Cs, r) || unicode.Is(unicode.Zl, r) || unicode.Is(unicode.Zp, r) ||
			(unicode.Is(unicode.Zs, r) && r != 0x1680) || harfbuzz.IsDefaultIgnorable(r)
		if got := shaping.VerifIgnoreFaceChange(r); got != ref && len(fails) < 5 {
			fails = append(fails, fmt.Sprintf("ignoreFaceChange(U+%04X) = %v, its documented classes give %v", r, got, ref))
		}
		lin := -1
		for i, d := range delims {
			if d == r {
				lin = i
				break
			}
		}
		if got := shaping.VerifLookupDelimIndex(r); got != lin && len(fails) < 5 {
			fails = append(fails, fmt.Sprintf("lookupDelimIndex(U+%04X) = %d, position in pairedDelims is %d", r, got, lin))
		}
	}
	return fails
}

// c07VertOrientation is the vertical orientation of rune r for script s read from the dumped table
// uprightOrMixedScripts by a plain linear scan (first entry of the script; its exception ranges walked one by one;
// a script that is not listed is sideways).  The observation of every rune comes from here, NOT from
// unicodedata.LookupVerticalOrientation, which is compared with it on every rune of every case.
var c07VOTable []ucd.VerifC20VO

func c07VertOrientation(s language.Script, r rune) (sideways bool) {
	if c07VOTable == nil {
		c07VOTable = ucd.VerifC20UprightOrMixedScripts()
	}
	for _, v := range c07VOTable {
		if v.Script != s {
			continue
		}
		if v.Exceptions != nil {
			x := int64(r)
			for _, rg := range v.Exceptions.R16 {
				if x >= int64(rg.Lo) && x <= int64(rg.Hi) && (x-int64(rg.Lo))%int64(rg.Stride) == 0 {
					return !v.IsMainSideways
				}
			}
			for _, rg := range v.Exceptions.R32 {
				if x >= int64(rg.Lo) && x <= int64(rg.Hi) && (x-int64(rg.Lo))%int64(rg.Stride) == 0 {
					return !v.IsMainSideways
				}
			}
		}
		return v.IsMainSideways
	}
	return true
}

func c07Run(o *vh.Out, inAny any) {
	in := inAny.(c07Input)
	var sweepFails []string
	if !c07SweepDone {
		c07SweepDone = true
		sweepFails = c07Sweep()
	}
	var seg shaping.Segmenter
	var panicked any
	c := in.Call
	text := append([]rune(nil), c.Text...)
	feats := []shaping.FontFeature{{Tag: 0x6c696761, Value: 1}}
	input := c07Input_(c, text, feats)
	var runs []string
	nruns := 0
	func() {
		defer func() { panicked = recover() }()
		for _, h := range in.History {
			ht := append([]rune(nil), h.Text...)
			seg.Split(c07Input_(h, ht, []shaping.FontFeature{{Tag: 1, Value: 2}}), c07Fontmap_(h))
		}
		out := seg.Split(input, c07Fontmap_(c))
		nruns = len(out)
		id0, known := language.NewLangID(c07Lang0(c.Lang))
		_ = id0
		for _, r := range out {
			textTok := 2
			if len(r.Text) == len(text) && (len(text) == 0 || &r.Text[0] == &text[0]) {
				textTok = 1
			}
			for i := range text { // the caller's runes must not be edited
				if text[i] != c.Text[i] {
					textTok = 3
				}
			}
			featTok := 2
			if len(r.FontFeatures) == 1 && &r.FontFeatures[0] == &feats[0] && feats[0] == (shaping.FontFeature{Tag: 0x6c696761, Value: 1}) {
				featTok = 1
			}
			lang := -2
			if !known {
				if r.Language == language.Language(c.Lang) {
					lang = -1
				}
			} else if id, ok := language.NewLangID(r.Language); ok && id.Language() == r.Language {
				lang = int(id)
			}
			runs = append(runs, vh.IntList([]int{r.RunStart, r.RunEnd, int(r.Direction), c07ScriptIdx(nil, r.Script), lang,
				c07FaceID(r.Face), textTok, int(r.Size), featTok}))
		}
	}()

	// observation of the text through the library's own functions
	scripts := []language.Script{language.Common}
	sidx := func(s language.Script) int {
		for i, x := range scripts {
			if x == s {
				return i
			}
		}
		scripts = append(scripts, s)
		return len(scripts) - 1
	}
	rs := make([]int, len(c.Text))
	for i, r := range c.Text {
		rs[i] = sidx(language.LookupScript(r))
	}
	// reference parity: x/text paragraph by paragraph over the range
	ref := make([]int, len(c.Text)) // 0 LTR, 1 RTL, 2 unconstrained
	for i := range ref {
		ref[i] = 2
	}
	rtlPar := di.Direction(c.Dir).Progression() == di.TowardTopLeft
	// golang.org/x/text as the model's function: for every paragraph of the range (a separator closes its paragraph)
	// the string handed to SetString and what Order() answers for the default direction of this call
	var xtab []string
	xseen := map[string]bool{}
	if c.Start < c.End && c.Start >= 0 && c.End <= len(c.Text) {
		norm := []rune(string(c.Text[c.Start:c.End])) // invalid runes become U+FFFD, one for one
		for a := 0; a < len(norm); {
			b := a
			for b < len(norm) && !c07IsB(norm[b]) {
				b++
			}
			if b < len(norm) {
				b++ // the separator closes the paragraph
			}
			ends, dirs, ok := c07Bidi(norm[a:b], rtlPar)
			val := "None"
			if ok {
				el := make([]string, len(ends))
				for k := range ends {
					el[k] = vh.Tuple(vh.Zi(ends[k]), vh.Bool(dirs[k]))
				}
				val = vh.Some(vh.List(el))
				prev := 0
				for k, e := range ends {
					for j := prev; j <= e && a+j < b; j++ {
						if !c07IsB(norm[a+j]) {
							if dirs[k] {
								ref[c.Start+a+j] = 1
							} else {
								ref[c.Start+a+j] = 0
							}
						}
					}
					prev = e + 1
				}
			}
			if key := string(norm[a:b]); !xseen[key] {
				xseen[key] = true
				pr := make([]int, b-a)
				for j := range pr {
					pr[j] = int(norm[a+j])
				}
				xtab = append(xtab, vh.Tuple(vh.IntList(pr), val))
			}
			a = b
		}
	}
	// the bidi step alone, on a fresh Segmenter
	var bidiOut []string
	func() {
		defer func() {
			if e := recover(); e != nil && panicked == nil {
				panicked = e
			}
		}()
		var seg2 shaping.Segmenter
		for _, r := range seg2.VerifSplitByBidi(c07Input_(c, append([]rune(nil), c.Text...), nil)) {
			bidiOut = append(bidiOut, vh.IntList([]int{r.RunStart, r.RunEnd, int(r.Direction)}))
		}
	}()
	keys := []language.Script{0}
	if c.Hint {
		keys = scripts
	}
	obs := make([]string, len(c.Text))
	voFail := ""
	for i, r := range c.Text {
		f := 0
		if shaping.VerifIgnoreFaceChange(r) {
			f |= 1
		}
		switch ref[i] {
		case 1:
			f |= 2
		case 2:
			f |= 4
		}
		if shaping.VerifIsParagraphSeparator(r) {
			f |= 8
		}
		for j, s := range scripts {
			want := c07VertOrientation(s, r)
			if got := ucd.LookupVerticalOrientation(s).Orientation(r); got != want && voFail == "" {
				voFail = fmt.Sprintf("LookupVerticalOrientation(%s).Orientation(U+%04X): sideways = %v, a linear scan of uprightOrMixedScripts gives %v (text %q)",
					s, r, got, want, string(c.Text))
			}
			if want {
				f |= 1 << (4 + j)
			}
		}
		faces := make([]int, len(keys))
		for j, k := range keys {
			faces[j] = c07FaceIdx(c.Fm, k, r)
		}
		obs[i] = vh.Tuple(vh.Zi(rs[i]), vh.Zi(shaping.VerifLookupDelimIndex(r)), vh.Zi(f), vh.IntList(faces))
	}
	id0, known := language.NewLangID(c07Lang0(c.Lang))
	langid := -1
	if known {
		langid = int(id0)
	}
	sinfo := make([]string, len(scripts))
	sl := make([]int64, len(scripts))
	for j, s := range scripts {
		sl[j] = int64(s)
		use := 1
		if known && !id0.UseScript(s) {
			use = 0
		}
		stl := language.ScriptToLang[s]
		u := 1
		if stl != 0 && !stl.UseScript(s) {
			u = 0
		}
		sinfo[j] = vh.Tuple(vh.Zi(use), vh.Zi(int(stl)), vh.Zi(u))
	}
	// the output scripts were printed as raw values; reprint them now that the script list is known
	coq := vh.App("mkCase", vh.Z(int64(language.Common)), vh.Z(int64(language.Inherited)), vh.ZList(sl), vh.List(sinfo),
		vh.Zi(langid), vh.List(obs), vh.Bool(c.Hint),
		vh.IntList([]int{c.Start, c.End, int(c.Dir), c.FaceIn, c.Size, int(c.Script)}), c07Runes(c.Text), vh.List(xtab),
		vh.List(bidiOut), vh.List(runs))
	key := ""
	if nruns >= 2 {
		key = coq
	}
	lenClass := "len<=8"
	switch {
	case len(c.Text) > 20:
		lenClass = "len<=48"
	case len(c.Text) > 8:
		lenClass = "len<=20"
	}
	runClass := "runs>=4"
	if nruns < 4 {
		runClass = fmt.Sprintf("runs=%d", nruns)
	}
	paraClass := "paragraphs>=4"
	if len(xtab) < 4 {
		paraClass = fmt.Sprintf("paragraphs=%d", len(xtab))
	}
	bidiClass := "bidiruns>=4"
	if len(bidiOut) < 4 {
		bidiClass = fmt.Sprintf("bidiruns=%d", len(bidiOut))
	}
	idx := o.Add(in, coq, key, lenClass, runClass, fmt.Sprintf("history=%d", len(in.History)), fmt.Sprintf("dir=%d", c.Dir),
		fmt.Sprintf("hint=%v", c.Hint), paraClass, bidiClass)
	if panicked != nil {
		o.Fail(idx, "panic", fmt.Sprint(panicked))
	}
	for _, f := range sweepFails {
		o.Fail(idx, "rune-class", f)
	}
	if voFail != "" {
		o.Fail(idx, "class-lookup", voFail)
	}
}

func c07Runes(t []rune) string {
	l := make([]int, len(t))
	for i, r := range t {
		l[i] = int(r)
	}
	return vh.IntList(l)
}

func c07Lang0(l string) language.Language {
	if l == "" {
		return "en"
	}
	return language.Language(l)
}

// c07ScriptIdx prints a script as its raw value (the Coq side works with script values).
func c07ScriptIdx(_ []language.Script, s language.Script) int { return int(s) }
