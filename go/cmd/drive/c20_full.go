package main

// Exhaustive Go-side pass of C20, run on EVERY tier (quick included): every lookup function of the property is
// compared, on all 0x110000 code points and a few values outside, with an independent linear reading of the
// dumped tables (each table is painted once into an array indexed by code point); Decompose runs on every code
// point, Compose on every decomposition pair and on the whole grid (first parts) x (second parts), both round-trip
// directions; NewLanguage / NewLangID / ParseScript on every single byte value inserted at (and substituted at)
// every position of every tag of the tables.  The pass only FINDS inputs: every disagreement becomes an ordinary
// case (cp / pair / lang / script / vo) whose run repeats the comparison (c20CheckCP, c20CheckPair, ...) and
// reports it with o.Fail(idx, "oracle", msg); the same case is also evaluated by the Coq model and specification.

import (
	"fmt"
	"sort"
	"sync"
	"unicode"
	"unicode/utf8"

	hb "github.com/go-text/typesetting/harfbuzz"
	"github.com/go-text/typesetting/language"
	ucd "github.com/go-text/typesetting/unicodedata"
)

const c20MaxCP = 0x110000

// c20Outside: values that are not code points (every lookup must answer with its default)
var c20Outside = []int64{-1, -2, -0x41, -0x10000, -44032, c20MaxCP, c20MaxCP + 1, c20MaxCP + 0x41, 0x200000, 1 << 24, 1<<31 - 1, -(1 << 31),
	-(1 << 31) + 1, -(1 << 31) + 44031, -(1 << 31) + 44032, -(1 << 31) + 44033, 1<<31 - 0xAC00, 1<<31 - 0x1100}

// ---- painted tables ----

type c20Painted struct {
	// unicodedata: class id per code point (-1 none, -3 in two classes)
	gc, cc, lb, gb, wb []int16
	script             []uint32
	mirror             []int32 // -1: not a key of the mirroring map
	dec1               map[rune]rune
	dec2               map[rune][2]rune
	comp               map[uint64]rune // read from the compose map, key a<<32|b (a, b >= 0)
	lbDefault          int64
	firsts, seconds    []rune // all first / second parts (tables and Hangul), sorted
	// harfbuzz
	hgc, ep    []int16
	indic, use []int32
	assigned   []bool
	joining    map[rune]byte
	mcc        [256]uint8
	// vertical orientation
	vos   []ucd.VerifC20VO
	voExc [][]uint64 // per entry of vos: bit set of its exception table (nil: no table)
	// language
	canon                         [256]byte
	tagIndex, tagFirst, tagSecond map[string]int // first index of every tag in languagesInfos / in its first part / in its second part
	indicDefault, useDefault      int32
	known                         int
	tags                          []string
}

var (
	c20paintOnce sync.Once
	c20paint     *c20Painted
)

func c20PairKey(a, b rune) uint64 { return uint64(uint32(a))<<32 | uint64(uint32(b)) }

func c20PaintBits(t *unicode.RangeTable) []uint64 {
	if t == nil {
		return nil
	}
	bits := make([]uint64, c20MaxCP/64)
	set := func(x uint32) {
		if x < c20MaxCP {
			bits[x/64] |= 1 << (x % 64)
		}
	}
	for _, rg := range t.R16 {
		for x := uint32(rg.Lo); x <= uint32(rg.Hi); x += uint32(rg.Stride) {
			set(x)
		}
	}
	for _, rg := range t.R32 {
		for x := rg.Lo; x <= rg.Hi && x >= rg.Lo; x += rg.Stride {
			set(x)
		}
	}
	return bits
}

func c20Tables() *c20Painted {
	c20paintOnce.Do(func() {
		e := c20Expected_()
		p := &c20Painted{gc: e.gc, cc: e.cc, lb: e.lb, gb: e.gb, wb: e.wb, script: e.script}
		p.lbDefault = int64(c20ClassIDs().lb[ucd.BreakXX])
		p.mirror = make([]int32, c20MaxCP)
		for i := range p.mirror {
			p.mirror[i] = -1
		}
		for k, v := range ucd.VerifC20Mirroring() {
			if k >= 0 && k < c20MaxCP {
				p.mirror[k] = v
			}
		}
		d1, d2, comp := ucd.VerifC20Decompositions()
		p.dec1, p.dec2 = d1, d2
		p.comp = make(map[uint64]rune, len(comp))
		fs, ss := map[rune]bool{}, map[rune]bool{0: true}
		for k, v := range comp {
			p.comp[c20PairKey(k[0], k[1])] = v
			fs[k[0]], ss[k[1]] = true, true
		}
		for _, v := range d2 {
			fs[v[0]], ss[v[1]] = true, true
		}
		for _, v := range d1 {
			fs[v] = true
		}
		// Hangul: leading consonants, every LV syllable (and its neighbours), vowels and trailing consonants, +-1
		for a := rune(ucd.HangulLBase) - 1; a <= ucd.HangulLBase+ucd.HangulLCount; a++ {
			fs[a] = true
		}
		for a := rune(ucd.HangulSBase); a < ucd.HangulSBase+ucd.HangulSCount; a += ucd.HangulTCount {
			fs[a-1], fs[a], fs[a+1] = true, true, true
		}
		fs[ucd.HangulSBase+ucd.HangulSCount-1], fs[ucd.HangulSBase+ucd.HangulSCount] = true, true
		for b := rune(ucd.HangulVBase) - 1; b <= ucd.HangulVBase+ucd.HangulVCount+8; b++ {
			ss[b] = true
		}
		for b := rune(ucd.HangulTBase) - 1; b <= ucd.HangulTBase+ucd.HangulTCount; b++ {
			ss[b] = true
		}
		for _, x := range []rune{0x3b, 0x3f, 0x40, 0x41, 0x2ff, 0x300} { // neighbours of the smallest parts
			fs[x], ss[x] = true, true
		}
		for k := range fs {
			p.firsts = append(p.firsts, k)
		}
		for k := range ss {
			p.seconds = append(p.seconds, k)
		}
		sort.Slice(p.firsts, func(i, j int) bool { return p.firsts[i] < p.firsts[j] })
		sort.Slice(p.seconds, func(i, j int) bool { return p.seconds[i] < p.seconds[j] })
		p.vos = ucd.VerifC20UprightOrMixedScripts()
		p.voExc = make([][]uint64, len(p.vos))
		for i, v := range p.vos {
			p.voExc[i] = c20PaintBits(v.Exceptions)
		}
		p.canon = language.VerifC20CanonMap()
		infos, known := language.VerifC20LanguagesInfos()
		p.known = known
		p.tagIndex, p.tagFirst, p.tagSecond = map[string]int{}, map[string]int{}, map[string]int{}
		put := func(m map[string]int, k string, i int) {
			if _, ok := m[k]; !ok {
				m[k] = i
			}
		}
		for i, l := range infos {
			p.tags = append(p.tags, l.Lang)
			put(p.tagIndex, l.Lang, i)
			if i < known {
				put(p.tagFirst, l.Lang, i)
			} else {
				put(p.tagSecond, l.Lang, i)
			}
		}
		c20paint = p
	})
	return c20paint
}

var c20tpaintOnce sync.Once

// c20tTables: c20Tables plus the shaper's tables (the dispatch of indicGetCategories / getUSECategory is read from
// the sources)
func c20tTables() *c20Painted {
	p := c20Tables()
	c20tpaintOnce.Do(func() {
		t := c20tExpected_()
		p.hgc, p.ep, p.indic, p.use, p.assigned = t.gc, t.ep, t.indic, t.use, t.assigned
		p.joining = hb.VerifC20ArabicJoinings()
		p.mcc = hb.VerifC20ModifiedCombiningClassTable()
		src := c20tSource()
		p.indicDefault, p.useDefault = int32(src.indic.Default), int32(src.use.Default)
	})
	return p
}

// ---- Hangul, as UAX #15 writes it (int64 arithmetic, no wrap-around) ----

func c20HangulDecompose(s int64) (a, b int64, ok bool) {
	si := s - ucd.HangulSBase
	if si < 0 || si >= ucd.HangulSCount {
		return 0, 0, false
	}
	if ti := si % ucd.HangulTCount; ti != 0 {
		return s - ti, ucd.HangulTBase + ti, true
	}
	return ucd.HangulLBase + si/ucd.HangulNCount, ucd.HangulVBase + (si%ucd.HangulNCount)/ucd.HangulTCount, true
}

func c20HangulCompose(a, b int64) (int64, bool) {
	li, vi := a-ucd.HangulLBase, b-ucd.HangulVBase
	if li >= 0 && li < ucd.HangulLCount && vi >= 0 && vi < ucd.HangulVCount {
		return ucd.HangulSBase + (li*ucd.HangulVCount+vi)*ucd.HangulTCount, true
	}
	si, ti := a-ucd.HangulSBase, b-ucd.HangulTBase
	if si >= 0 && si < ucd.HangulSCount && si%ucd.HangulTCount == 0 && ti > 0 && ti < ucd.HangulTCount {
		return a + ti, true
	}
	return 0, false
}

// expected Decompose / Compose: Hangul by the formulas above, else the dumped maps
func (p *c20Painted) wantDecompose(r rune) (a, b rune, ok bool) {
	if x, y, ok := c20HangulDecompose(int64(r)); ok {
		return rune(x), rune(y), true
	}
	if m, ok := p.dec1[r]; ok {
		return m, 0, true
	}
	if m, ok := p.dec2[r]; ok {
		return m[0], m[1], true
	}
	return r, 0, false
}

func (p *c20Painted) wantCompose(a, b rune) (rune, bool) {
	if c, ok := c20HangulCompose(int64(a), int64(b)); ok {
		return rune(c), true
	}
	u := p.comp[c20PairKey(a, b)]
	return u, u != 0
}

// excluded: a decomposable code point that the tables do not compose back (singleton, or pair without reverse entry)
func (p *c20Painted) excluded(r rune) bool {
	if _, _, ok := c20HangulDecompose(int64(r)); ok {
		return false
	}
	if _, ok := p.dec1[r]; ok {
		return true
	}
	if m, ok := p.dec2[r]; ok {
		return p.comp[c20PairKey(m[0], m[1])] != r
	}
	return false
}

// ---- one code point, driver c20 ----

// c20CheckCP compares every unicodedata lookup, LookupScript, LookupMirrorChar and Decompose (+ Compose of the
// parts) at r with the painted tables.  Returns the name of the first disagreeing function and a message.
func c20CheckCP(r rune) (fn, msg string) {
	p := c20Tables()
	ids := c20ClassIDs()
	in := r >= 0 && r < c20MaxCP
	want := func(tab []int16, dflt int64) int64 {
		if !in || tab[r] == -1 {
			return dflt
		}
		return int64(tab[r])
	}
	bad := func(what string, got, want int64) (string, string) {
		return what, fmt.Sprintf("%s(%s) = %d, a linear scan of the tables gives %d (-1: none, -3: in two classes)", what, c20U(r), got, want)
	}
	if got, w := c20ID(ids.gc, ucd.LookupType(r)), want(p.gc, -1); got != w {
		return bad("LookupType", got, w)
	}
	if got, w := int64(ucd.LookupCombiningClass(r)), want(p.cc, 0); got != w {
		return bad("LookupCombiningClass", got, w)
	}
	if got, w := c20ID(ids.lb, ucd.LookupLineBreakClass(r)), want(p.lb, p.lbDefault); got != w {
		return bad("LookupLineBreakClass", got, w)
	}
	if got, w := c20ID(ids.gb, ucd.LookupGraphemeBreakClass(r)), want(p.gb, -1); got != w {
		return bad("LookupGraphemeBreakClass", got, w)
	}
	if got, w := c20ID(ids.wb, ucd.LookupWordBreakClass(r)), want(p.wb, -1); got != w {
		return bad("LookupWordBreakClass", got, w)
	}
	ws := uint32(language.Unknown)
	if in {
		ws = p.script[r]
	}
	if got := uint32(language.LookupScript(r)); got != ws {
		return "LookupScript", fmt.Sprintf("LookupScript(%s) = %s, a linear scan of ScriptRanges gives %s", c20U(r), language.Script(got), language.Script(ws))
	}
	wm, wmok := r, false
	if in && p.mirror[r] != -1 {
		wm, wmok = p.mirror[r], true
	}
	m, mok := ucd.LookupMirrorChar(r)
	if m != wm || mok != wmok {
		return "LookupMirrorChar", fmt.Sprintf("LookupMirrorChar(%s) = (%s, %v), the mirroring table gives (%s, %v)", c20U(r), c20U(m), mok, c20U(wm), wmok)
	}
	if m2, _ := ucd.LookupMirrorChar(m); m2 != r {
		return "LookupMirrorChar", fmt.Sprintf("LookupMirrorChar(%s) = %s whose mirror is %s: not an involution", c20U(r), c20U(m), c20U(m2))
	}
	a, b, ok := ucd.Decompose(r)
	wa, wb, wok := p.wantDecompose(r)
	if a != wa || b != wb || ok != wok {
		return "Decompose", fmt.Sprintf("Decompose(%s) = (%s, %s, %v), the tables (Hangul by formula) give (%s, %s, %v)", c20U(r), c20U(a), c20U(b), ok, c20U(wa), c20U(wb), wok)
	}
	if ok {
		c, cok := ucd.Compose(a, b)
		if !p.excluded(r) && (!cok || c != r) {
			return "Compose", fmt.Sprintf("Decompose(%s) = (%s, %s) but Compose of the parts = (%s, %v); %s is not a composition exclusion of the tables",
				c20U(r), c20U(a), c20U(b), c20U(c), cok, c20U(r))
		}
		if fn, msg := c20CheckPair(a, b); fn != "" {
			return fn, msg
		}
	}
	return "", ""
}

// c20CheckPair compares Compose(a, b) with the tables and checks that whatever composes decomposes back.
func c20CheckPair(a, b rune) (fn, msg string) {
	p := c20Tables()
	c, ok := ucd.Compose(a, b)
	wc, wok := p.wantCompose(a, b)
	if ok != wok || (ok && c != wc) || (!ok && c != 0) {
		return "Compose", fmt.Sprintf("Compose(%s, %s) = (%s, %v), the compose table (Hangul by formula) gives (%s, %v)", c20U(a), c20U(b), c20U(c), ok, c20U(wc), wok)
	}
	if ok {
		if a2, b2, ok2 := ucd.Decompose(c); !ok2 || a2 != a || b2 != b {
			return "Decompose", fmt.Sprintf("Compose(%s, %s) = %s which decomposes to (%s, %s, %v)", c20U(a), c20U(b), c20U(c), c20U(a2), c20U(b2), ok2)
		}
	}
	return "", ""
}

func c20U(r rune) string {
	if r < 0 {
		return fmt.Sprintf("%d", r)
	}
	return fmt.Sprintf("U+%04X", r)
}

// ---- one code point, driver c20tab ----

var c20tJoinMap = map[byte]uint8{'U': 0, 'L': 1, 'R': 2, 'D': 3, 'a': 4, 'd': 5, 'T': 7, 'C': 3}

// c20VOScan: LookupVerticalOrientation by a linear scan of the dumped table; index -1 = the default record
func (p *c20Painted) voScan(s language.Script) int {
	for i, v := range p.vos {
		if v.Script == s {
			return i
		}
	}
	return -1
}

// wantOrientation: Orientation(r) of the record of script s
func (p *c20Painted) wantOrientation(s language.Script, r rune) (sideways bool, exception bool) {
	i := p.voScan(s)
	if i < 0 {
		return true, false
	}
	main := p.vos[i].IsMainSideways
	if bits := p.voExc[i]; bits != nil && r >= 0 && r < c20MaxCP && bits[uint32(r)/64]&(1<<(uint32(r)%64)) != 0 {
		return !main, true
	}
	return main, false
}

func c20tCheckCP(r rune) (fn, msg string) {
	p := c20tTables()
	in := r >= 0 && r < c20MaxCP
	gc := hb.VerifC20GeneralCategory(r)
	wgc := int64(2)
	if in && p.hgc[r] != -1 {
		wgc = int64(p.hgc[r])
	}
	if int64(gc) != wgc {
		return "generalCategory", fmt.Sprintf("uni.generalCategory(%s) = %d, a linear scan of the tables gives %d (-3: in two classes)", c20U(r), gc, wgc)
	}
	wj := uint8(0)
	if gc == 1 || gc == 11 || gc == 12 {
		wj = 7
	}
	if j, ok := p.joining[r]; ok {
		if t, ok := c20tJoinMap[j]; ok {
			wj = t
		}
	}
	if got := hb.VerifC20GetJoiningType(r, gc); got != wj {
		return "getJoiningType", fmt.Sprintf("getJoiningType(%s, %d) = %d, the joining table gives %d", c20U(r), gc, got, wj)
	}
	wi, wu := p.indicDefault, p.useDefault
	if in {
		wi, wu = p.indic[r], p.use[r]
	}
	if got := int32(hb.VerifC20IndicGetCategories(r)); got != wi {
		return "indicGetCategories", fmt.Sprintf("indicGetCategories(%s) = %#x, a linear scan of the clauses gives %#x (-2: index outside the table)", c20U(r), got, wi)
	}
	if got := int32(hb.VerifC20GetUSECategory(r)); got != wu {
		return "getUSECategory", fmt.Sprintf("getUSECategory(%s) = %d, a linear scan of the clauses gives %d (-2: index outside the table)", c20U(r), got, wu)
	}
	if got, want := hb.VerifC20IsExtendedPictographic(r), in && p.ep[r] == 0; got != want {
		return "isExtendedPictographic", fmt.Sprintf("isExtendedPictographic(%s) = %v, the table gives %v", c20U(r), got, want)
	}
	wcc := uint8(0)
	if in && p.cc[r] >= 0 {
		wcc = uint8(p.cc[r])
	}
	wm := p.mcc[wcc]
	switch r {
	case 0x1A60, 0x0FC6:
		wm = 254
	case 0x0F39:
		wm = 127
	}
	if got := hb.VerifC20ModifiedCombiningClass(r); got != wm || (got == 0) != (wcc == 0) {
		return "modifiedCombiningClass", fmt.Sprintf("uni.modifiedCombiningClass(%s) = %d, the tables give %d for combining class %d", c20U(r), got, wm, wcc)
	}
	sc := language.Unknown
	if in {
		sc = language.Script(p.script[r])
	}
	if got := language.LookupScript(r); got != sc {
		return "LookupScript", fmt.Sprintf("LookupScript(%s) = %s, a linear scan of ScriptRanges gives %s", c20U(r), got, sc)
	}
	if (sc != language.Unknown) != (in && p.assigned[r]) {
		return "ScriptRanges", fmt.Sprintf("%s: script %s, but a walk of ScriptRanges says assigned = %v", c20U(r), sc, in && p.assigned[r])
	}
	if unassignedLike := gc == 2 || gc == 3 || gc == 4; (sc == language.Unknown) != unassignedLike {
		return "ScriptRanges", fmt.Sprintf("%s: script %s but general category %d", c20U(r), sc, gc)
	}
	if s2, err := language.ParseScript(sc.String()); err != nil || s2 != sc {
		return "ParseScript", fmt.Sprintf("%s: script %08x does not round-trip through its tag (%08x, %v)", c20U(r), uint32(sc), uint32(s2), err)
	}
	// vertical orientation: the script of the code point, and every listed script that has exceptions
	if fn, msg := c20tCheckOrientation(sc, r); fn != "" {
		return fn, msg
	}
	for i, v := range p.vos {
		if p.voExc[i] != nil {
			if _, exc := p.wantOrientation(v.Script, r); exc && sc != v.Script {
				return "uprightOrMixedScripts", fmt.Sprintf("%s is an exception of script %s but has script %s", c20U(r), v.Script, sc)
			}
			if fn, msg := c20tCheckOrientation(v.Script, r); fn != "" {
				return fn, msg
			}
		}
	}
	return "", ""
}

// c20tCheckOrientation: LookupVerticalOrientation(s).Orientation(r) against the dumped table
func c20tCheckOrientation(s language.Script, r rune) (fn, msg string) {
	want, _ := c20Tables().wantOrientation(s, r)
	if got := ucd.LookupVerticalOrientation(s).Orientation(r); got != want {
		return "LookupVerticalOrientation", fmt.Sprintf("LookupVerticalOrientation(%s).Orientation(%s): sideways = %v, a linear scan of uprightOrMixedScripts gives %v", s, c20U(r), got, want)
	}
	return "", ""
}

// c20tCheckVO: the record LookupVerticalOrientation(s) returns against the first entry of the dumped table with
// that script (else the default record: the script itself, sideways, no exceptions)
func c20tCheckVO(s language.Script) (fn, msg string) {
	p := c20Tables()
	f := ucd.VerifC20VOFields(ucd.LookupVerticalOrientation(s))
	want := ucd.VerifC20VO{Exceptions: nil, Script: s, IsMainSideways: true}
	if i := p.voScan(s); i >= 0 {
		want = p.vos[i]
	}
	if f.Script != want.Script || f.IsMainSideways != want.IsMainSideways || f.Exceptions != want.Exceptions {
		return "LookupVerticalOrientation", fmt.Sprintf("LookupVerticalOrientation(%s) = {script %s, sideways %v, exceptions %v}, a linear scan of uprightOrMixedScripts gives {script %s, sideways %v, exceptions %v}",
			s, f.Script, f.IsMainSideways, f.Exceptions != nil, want.Script, want.IsMainSideways, want.Exceptions != nil)
	}
	return "", ""
}

// ---- the scan over all code points ----

const c20PerFunction = 3 // offenders kept per disagreeing function

type c20Offender struct {
	fn   string
	a, b int64
}

// c20ScanAll runs check on every code point (4 workers on interleaved blocks) and on the values outside; it returns
// at most c20PerFunction offending values per function name, smallest first.
func c20ScanAll(check func(r rune) (string, string)) []c20Offender {
	const workers, block = 4, 0x1000
	res := make([][]c20Offender, workers)
	var wg sync.WaitGroup
	for w := 0; w < workers; w++ {
		wg.Add(1)
		go func(w int) {
			defer wg.Done()
			cnt := map[string]int{}
			for lo := w * block; lo < c20MaxCP; lo += workers * block {
				for x := lo; x < lo+block; x++ {
					func() {
						defer func() {
							if e := recover(); e != nil && cnt["panic"] < c20PerFunction {
								cnt["panic"]++
								res[w] = append(res[w], c20Offender{"panic", int64(x), 0})
							}
						}()
						if fn, _ := check(rune(x)); fn != "" && cnt[fn] < c20PerFunction {
							cnt[fn]++
							res[w] = append(res[w], c20Offender{fn, int64(x), 0})
						}
					}()
				}
			}
		}(w)
	}
	wg.Wait()
	var all []c20Offender
	for _, r := range res {
		all = append(all, r...)
	}
	for _, x := range c20Outside {
		func() {
			defer func() {
				if e := recover(); e != nil {
					all = append(all, c20Offender{"panic", x, 0})
				}
			}()
			if fn, _ := check(rune(int32(x))); fn != "" {
				all = append(all, c20Offender{fn, x, 0})
			}
		}()
	}
	return c20Trim(all)
}

func c20Trim(all []c20Offender) []c20Offender {
	sort.SliceStable(all, func(i, j int) bool {
		if all[i].a != all[j].a {
			return all[i].a < all[j].a
		}
		return all[i].b < all[j].b
	})
	cnt := map[string]int{}
	var out []c20Offender
	for _, o := range all {
		if cnt[o.fn] < c20PerFunction {
			cnt[o.fn]++
			out = append(out, o)
		}
	}
	return out
}

// c20ScanPairs: Compose on the whole grid (first parts) x (second parts) - every decomposition pair lies in it -
// and, for every code point a, on (a, b) for every second part b (4 workers).
func c20ScanPairs() []c20Offender {
	p := c20Tables()
	const workers = 4
	res := make([][]c20Offender, workers)
	var wg sync.WaitGroup
	for w := 0; w < workers; w++ {
		wg.Add(1)
		go func(w int) {
			defer wg.Done()
			cnt := map[string]int{}
			try := func(a, b rune) {
				defer func() {
					if e := recover(); e != nil && cnt["panic"] < c20PerFunction {
						cnt["panic"]++
						res[w] = append(res[w], c20Offender{"panic", int64(a), int64(b)})
					}
				}()
				if fn, _ := c20CheckPair(a, b); fn != "" && cnt[fn] < c20PerFunction {
					cnt[fn]++
					res[w] = append(res[w], c20Offender{fn, int64(a), int64(b)})
				}
			}
			for i := w; i < len(p.firsts); i += workers {
				for _, b := range p.seconds {
					try(p.firsts[i], b)
				}
				for _, b := range p.firsts { // a first part in second position (swapped pairs)
					if i%8 == 0 || b < 0x300 {
						try(p.firsts[i], b)
					}
				}
			}
			for lo := w * 0x1000; lo < c20MaxCP; lo += workers * 0x1000 {
				for a := lo; a < lo+0x1000; a++ {
					for _, b := range p.seconds {
						try(rune(a), b)
					}
				}
			}
			for _, a := range c20Outside {
				for _, b := range p.seconds {
					try(rune(int32(a)), b)
				}
			}
		}(w)
	}
	wg.Wait()
	var all []c20Offender
	for _, r := range res {
		all = append(all, r...)
	}
	return c20Trim(all)
}

// ---- language strings ----

func c20CanonByte(c byte) bool { return (c >= 'a' && c <= 'z') || (c >= '0' && c <= '9') || c == '-' }

// c20LangRef: the canonical form as NewLanguage documents it, computed from the dumped canonMap: the string is read
// rune by rune (Go's decoding), a rune below 0xFF whose table entry is not 0 contributes that entry, nothing else does.
func c20LangRef(s []byte) []byte {
	p := c20Tables()
	var out []byte
	for i := 0; i < len(s); {
		r, w := utf8.DecodeRune(s[i:])
		i += w
		if r < 0xFF {
			if c := p.canon[r]; c != 0 {
				out = append(out, c)
			}
		}
	}
	return out
}

// c20CheckLang: NewLanguage(s) contains only [a-z0-9-], is a fixed point of NewLanguage, equals the reference;
// NewLangID answers what linear scans of languagesInfos answer (the tag itself, else its primary subtag in the
// first part of the table, else in the second), and the identifier's tag leads back to the identifier.
func c20CheckLang(s []byte) (fn, msg string) {
	p := c20Tables()
	l := language.NewLanguage(string(s))
	for i := 0; i < len(l); i++ {
		if !c20CanonByte(l[i]) {
			return "NewLanguage", fmt.Sprintf("NewLanguage(%q) = %q: byte %#02x at %d is not one of [a-z0-9-]", s, string(l), l[i], i)
		}
	}
	if l2 := language.NewLanguage(string(l)); l2 != l {
		return "NewLanguage", fmt.Sprintf("NewLanguage(%q) = %q, and NewLanguage of that = %q: not idempotent", s, string(l), string(l2))
	}
	if ref := c20LangRef(s); string(ref) != string(l) {
		return "NewLanguage", fmt.Sprintf("NewLanguage(%q) = %q, canonMap applied rune by rune gives %q", s, string(l), ref)
	}
	want, wok := -1, false
	if i, ok := p.tagIndex[string(l)]; ok {
		want, wok = i, true
	} else if i, ok := p.tagFirst[c20Primary(string(l))]; ok {
		want, wok = i, true
	} else if i, ok := p.tagSecond[c20Primary(string(l))]; ok {
		want, wok = i, true
	}
	id, ok := language.NewLangID(l)
	if ok != wok || (ok && int(id) != want) {
		return "NewLangID", fmt.Sprintf("NewLangID(%q) = (%d, %v), linear scans of languagesInfos give (%d, %v)", string(l), id, ok, want, wok)
	}
	if ok {
		if id2, ok2 := language.NewLangID(id.Language()); !ok2 || id2 != id {
			return "NewLangID", fmt.Sprintf("NewLangID(%q) = %d whose tag %q gives (%d, %v)", string(l), id, string(id.Language()), id2, ok2)
		}
	}
	return "", ""
}

// c20Primary: the part before the first '-'
func c20Primary(l string) string {
	for i := 0; i < len(l); i++ {
		if l[i] == '-' {
			return l[:i]
		}
	}
	return l
}

// c20Variants: spellings of a tag - as is, upper case, first letter upper, '_' and '@' for '-', mixed
func c20Variants(tag string) [][]byte {
	up, cap, us, at, mix := []byte(tag), []byte(tag), []byte(tag), []byte(tag), []byte(tag)
	for i, c := range []byte(tag) {
		if c >= 'a' && c <= 'z' {
			up[i] = c - 32
			if i == 0 || tag[i-1] == '-' {
				cap[i] = c - 32
			}
			if i%2 == 1 {
				mix[i] = c - 32
			}
		}
		if c == '-' {
			us[i], at[i], mix[i] = '_', '@', '_'
		}
	}
	out := [][]byte{[]byte(tag)}
	seen := map[string]bool{tag: true}
	for _, v := range [][]byte{up, cap, us, at, mix} {
		if !seen[string(v)] {
			seen[string(v)] = true
			out = append(out, v)
		}
	}
	return out
}

// c20Edits calls f on base, and on base with every byte value 0..255 inserted at every position and substituted
// for every byte.
func c20Edits(base []byte, f func([]byte)) {
	f(base)
	buf := make([]byte, len(base)+1)
	for pos := 0; pos <= len(base); pos++ {
		copy(buf, base[:pos])
		copy(buf[pos+1:], base[pos:])
		for c := 0; c < 256; c++ {
			buf[pos] = byte(c)
			f(buf)
		}
	}
	sub := make([]byte, len(base))
	for pos := 0; pos < len(base); pos++ {
		copy(sub, base)
		for c := 0; c < 256; c++ {
			sub[pos] = byte(c)
			f(sub)
		}
	}
}

// c20ScanLangs: every tag of the table in every spelling (c20Variants) and the extra bases, each with every
// one-byte insertion and substitution; every tag (and its primary part) followed by subtags.  Returns offending strings (at most c20PerFunction per function).
func c20ScanLangs(extra [][]byte) [][]byte {
	p := c20Tables()
	cnt := map[string]int{}
	var out [][]byte
	visit := func(s []byte) {
		if fn, _ := c20CheckLang(s); fn != "" && cnt[fn] < c20PerFunction {
			cnt[fn]++
			out = append(out, append([]byte(nil), s...))
		}
	}
	for _, t := range p.tags {
		for _, v := range c20Variants(t) {
			c20Edits(v, visit)
		}
		// the tag as the primary part of longer tags, which sort at various distances after it
		for _, suf := range []string{"-a", "-m", "-zz", "-zzzz", "-0", "_ZZ", "-a-b", "--", "-\x00"} {
			visit([]byte(t + suf))
			if i := len(c20Primary(t)); i < len(t) {
				visit([]byte(t[:i] + suf))
				visit([]byte(t[:i] + suf + t[i:]))
			}
		}
	}
	for _, b := range extra {
		c20Edits(b, visit)
	}
	sort.SliceStable(out, func(i, j int) bool { return len(out[i]) < len(out[j]) })
	return out
}

// ---- script tags ----

// c20tCheckScript: ParseScript fails exactly below four bytes; otherwise its value is the big-endian reading of the
// first four bytes with bit 0x20 cleared in the first and set in the other three, and String / ParseScript
// reproduce it.
func c20tCheckScript(s []byte) (fn, msg string) {
	got, err := language.ParseScript(string(s))
	if len(s) < 4 {
		if err == nil {
			return "ParseScript", fmt.Sprintf("ParseScript(%q) = %08x without error on fewer than 4 bytes", s, uint32(got))
		}
		return "", ""
	}
	if err != nil {
		return "ParseScript", fmt.Sprintf("ParseScript(%q) fails: %v", s, err)
	}
	want := uint32(s[0]&^0x20)<<24 | uint32(s[1]|0x20)<<16 | uint32(s[2]|0x20)<<8 | uint32(s[3]|0x20)
	if uint32(got) != want {
		return "ParseScript", fmt.Sprintf("ParseScript(%q) = %08x, the capitalised first four bytes are %08x", s, uint32(got), want)
	}
	str := got.String()
	if len(str) != 4 || str[0] != s[0]&^0x20 || str[1] != s[1]|0x20 || str[2] != s[2]|0x20 || str[3] != s[3]|0x20 {
		return "Script.String", fmt.Sprintf("ParseScript(%q).String() = %q", s, str)
	}
	if s2, err2 := language.ParseScript(str); err2 != nil || s2 != got {
		return "ParseScript", fmt.Sprintf("ParseScript(%q) = %08x whose tag %q parses to (%08x, %v)", s, uint32(got), str, uint32(s2), err2)
	}
	return "", ""
}

func c20tScanScripts(consts []uint32) [][]byte {
	cnt := map[string]int{}
	var out [][]byte
	visit := func(s []byte) {
		if fn, _ := c20tCheckScript(s); fn != "" && cnt[fn] < c20PerFunction {
			cnt[fn]++
			out = append(out, append([]byte(nil), s...))
		}
	}
	for _, v := range consts {
		tag := []byte(language.Script(v).String())
		lo, up := make([]byte, len(tag)), make([]byte, len(tag))
		for k, c := range tag {
			lo[k], up[k] = c|0x20, c&^0x20
		}
		c20Edits(tag, visit)
		c20Edits(lo, visit)
		c20Edits(up, visit)
		c20Edits(tag[:3], visit)
	}
	return out
}
