// Command drive runs the implementation (built with -tags verif) on generated or replayed cases
// and writes Coq case shards that the model / specification evaluate.
package main

import (
	"encoding/json"
	"flag"
	"fmt"
	"os"
	"path/filepath"
	"sort"

	"verifharness/internal/vh"
)

// A driver generates cases for one model and runs them.
type driver struct {
	header string // Coq header of the shard files
	shard  int
	// gen produces inputs (JSON-marshalable values) for a tier
	gen func(r *vh.Rand, tier string, n int, emit func(in any))
	// decode turns a stored input back into the value run expects
	decode func(raw json.RawMessage) (any, error)
	// run executes the implementation on one input and records the case
	run func(o *vh.Out, in any)
	// n returns the default number of generated cases for a tier
	n func(tier string) int
}

var drivers = map[string]*driver{}

func main() {
	if len(os.Args) < 2 {
		fmt.Fprintln(os.Stderr, "usage: drive <model> [flags]")
		os.Exit(2)
	}
	name := os.Args[1]
	d, ok := drivers[name]
	if !ok {
		var names []string
		for k := range drivers {
			names = append(names, k)
		}
		sort.Strings(names)
		fmt.Fprintln(os.Stderr, "unknown model", name, "known:", names)
		os.Exit(2)
	}
	fs := flag.NewFlagSet(name, flag.ExitOnError)
	seed := fs.Int64("seed", 1, "PRNG seed")
	tier := fs.String("tier", "quick", "quick|thorough|search")
	out := fs.String("out", "", "output directory")
	n := fs.Int("n", 0, "number of generated cases (0 = tier default)")
	corpus := fs.String("corpus", "", "directory of *.jsonl inputs to run first")
	replay := fs.String("replay", "", "run only the inputs of this jsonl file")
	fs.Parse(os.Args[2:])
	if *out == "" {
		fmt.Fprintln(os.Stderr, "-out required")
		os.Exit(2)
	}
	o := vh.NewOut(*out, d.header, d.shard)
	runStored := func(path string) {
		ins, err := vh.ReadInputs(path)
		if err != nil {
			fmt.Fprintln(os.Stderr, err)
			os.Exit(2)
		}
		for _, raw := range ins {
			in, err := d.decode(raw)
			if err != nil {
				fmt.Fprintln(os.Stderr, "bad stored input:", err)
				os.Exit(2)
			}
			d.run(o, in)
			o.Count("stored")
		}
	}
	if *replay != "" {
		runStored(*replay)
	} else {
		if *corpus != "" {
			files, _ := filepath.Glob(filepath.Join(*corpus, "*.jsonl"))
			sort.Strings(files)
			for _, f := range files {
				runStored(f)
			}
		}
		cnt := *n
		if cnt == 0 {
			cnt = d.n(*tier)
		}
		r := vh.NewRand(*seed)
		d.gen(r, *tier, cnt, func(in any) { d.run(o, in) })
	}
	if err := o.Flush(map[string]any{"seed": *seed, "tier": *tier, "model": name}); err != nil {
		fmt.Fprintln(os.Stderr, err)
		os.Exit(2)
	}
	fmt.Printf("drive %s: %d cases in %s\n", name, o.Len(), *out)
}
